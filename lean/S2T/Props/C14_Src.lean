import S2T.Lemmas.PyPaths
import S2T.Props.C14_Resolve
import S2T.Gen.PyZipUtils
import S2T.Gen.PyPptxPaths
import S2T.Gen.PyXlsxPaths
import S2T.Gen.PyDocxPaths
import S2T.Gen.PyOdfPaths
import S2T.Gen.PyEpubPaths
/-!
# C14 (source tie) — the translated path resolvers ARE the hand models of `S2T/Model/Images.lean` §1

`S2T.Gen.PyZipUtils / PyPptxPaths / PyXlsxPaths / PyOdfPaths / PyEpubPaths` are regenerated from the current
text of `util/zip_utils.py`, `ms_modern/pptx_extractor.py`, `ms_modern/xlsx_extractor.py`,
`open_office/_shared.py`, `epub_extractor.py` on every run (`tools/gen/pyfun_paths.py`, construct by
construct).  For every source directory, every target / href (any characters, any number of segments):

* `resolve_part_target`            = `resolvePartTarget`            (and never raises: the `pop()` is guarded)
* `_normalize_relative_path`       = `resolvePartTarget` (= `pptxImagePath` at the slide's directory)
* `_resolve_drawing_path`          = `xlsxDrawingPath`
* `_resolve_image_path`            = `xlsxImagePath`
* `resolve_odf_href`               = `odfResolve`
* `_EpubContext.resolve_href`      = `epubResolve` at `self._opf_dir`

and, composed with the theorems of `Props/C14_Resolve.lean`, each of them IS RFC 3986 §5.2 / OPC resolution
(`…_is_opc`).  `str.split("/")`, `"/".join`, `list.append/pop`, `x[:-1]`, f-strings of strings are prelude
operations (`S2T/Py/Paths.lean`, trusted); `splitOn '/' = splitSlash` and `strJoin "/" = joinSlash` are
proved (`S2T/Lemmas/PyPaths.lean`).

The proofs never mention a local variable of the source: the loop body, whatever its shape, has to agree with
`dotStep` (one iteration of the dot-segment loop) element-wise, and that is discharged by case splitting.
-/
set_option linter.unusedSimpArgs false
namespace S2T.C14.Src
open S2T.Py S2T.Images S2T.Spec.Opc
open S2T.Gen.PyZipUtils S2T.Gen.PyPptxPaths S2T.Gen.PyXlsxPaths S2T.Gen.PyOdfPaths S2T.Gen.PyEpubPaths

/-- the translator understood every construct of the whitelisted functions -/
theorem gen_py_notes_empty : S2T.Gen.PyZipUtils.notes = [] ∧ S2T.Gen.PyPptxPaths.notes = []
    ∧ S2T.Gen.PyXlsxPaths.notes = [] ∧ S2T.Gen.PyOdfPaths.notes = [] ∧ S2T.Gen.PyEpubPaths.notes = []
    ∧ S2T.Gen.PyDocxPaths.notes = [] := by decide

/-- the functions this file ties (a renamed / removed function breaks this) -/
theorem gen_py_translated : S2T.Gen.PyZipUtils.translated = ["resolve_part_target"]
    ∧ S2T.Gen.PyPptxPaths.translated = ["_normalize_relative_path"]
    ∧ S2T.Gen.PyXlsxPaths.translated = ["_resolve_drawing_path", "_resolve_image_path"]
    ∧ S2T.Gen.PyOdfPaths.translated = ["resolve_odf_href"]
    ∧ S2T.Gen.PyEpubPaths.translated = ["_EpubContext.resolve_href"] := by decide

/-! ## the model's loops are the forward loops of the prelude lemmas -/

theorem popLoop_eq_foldl (acc parts : List Py.Str) : popLoop acc parts = parts.foldl dotStep acc.reverse := by
  induction parts generalizing acc with
  | nil => rfl
  | cons p r ih =>
    unfold popLoop
    simp only [List.foldl_cons, dotStep]
    by_cases h1 : p = dotdot
    · cases acc <;> simp [h1, ih]
    · by_cases h2 : p ≠ [] ∧ p ≠ dot <;> simp [h1, h2, ih]

theorem odfLoop_eq_dotRun (acc parts : List Py.Str) : odfLoop acc parts = dotRun acc.reverse parts := by
  induction parts generalizing acc with
  | nil => rfl
  | cons p r ih =>
    unfold odfLoop
    simp only [dotRun, dotStep]
    by_cases h1 : p = dotdot
    · cases acc <;> simp [h1, ih]
    · by_cases h2 : p ≠ [] ∧ p ≠ dot <;> simp [h1, h2, ih]

theorem startswith_slash (t : Py.Str) : startswith t ['/'] = startsSlash t := by
  rcases t with _ | ⟨c, r⟩
  · rfl
  · simp [startswith, startsSlash, List.isPrefixOf, BEq.comm (a := '/')]

/-- body obligation of the dot-segment loops: decide the three facts the model's step looks at (`..`, empty,
    `.`) and whether the list is empty; every shape of the body then reduces by `simp_all` -/
macro "py_dot_body" : tactic => `(tactic| (
  intro p res
  by_cases h1 : p = ['.', '.'] <;> by_cases h2 : p = [] <;> by_cases h3 : p = ['.'] <;>
  rcases res with _ | ⟨a, r⟩ <;>
  (first
    | (simp_all [dotStep, dot, dotdot, @eq_comm _ (['.', '.'] : Py.Str) p, @eq_comm _ (['.'] : Py.Str) p,
        @eq_comm _ ([] : Py.Str) p]; done)
    | (simp_all [dotStep, dot, dotdot, len, @eq_comm _ (['.', '.'] : Py.Str) p, @eq_comm _ (['.'] : Py.Str) p,
        @eq_comm _ ([] : Py.Str) p]
       (repeat' split) <;> (first | omega | (simp_all; done) | (simp_all; omega))))))

/-! ## `resolve_part_target` and its three wrappers -/

/-- **`resolve_part_target` is `resolvePartTarget`** (all directories, all targets; it never raises) -/
theorem resolve_part_target_eq (d t : Py.Str) : resolve_part_target d t = pure (resolvePartTarget d t) := by
  rcases h : startsSlash t
  all_goals (
    unfold resolve_part_target resolvePartTarget
    simp +instances [startswith_slash, h]
    rw [forIn_dotStep]
    · simp [popLoop_eq_foldl, splitOn_slash, strJoin_slash]
    · py_dot_body)


/-- **PPTX `_normalize_relative_path`** is `resolve_part_target` -/
theorem normalize_relative_path_eq (d t : Py.Str) : _normalize_relative_path d t = pure (resolvePartTarget d t) := by
  unfold _normalize_relative_path
  simp [resolve_part_target_eq]

/-- … called with the slide's directory it is the model's `pptxImagePath` -/
theorem normalize_relative_path_pptx (slidePath t : Py.Str) :
    _normalize_relative_path (dirOf slidePath) t = pure (pptxImagePath slidePath t) :=
  normalize_relative_path_eq _ _

/-- **XLSX `_resolve_drawing_path`** is `xlsxDrawingPath` -/
theorem resolve_drawing_path_eq (t : Py.Str) : _resolve_drawing_path t = pure (xlsxDrawingPath t) := by
  unfold _resolve_drawing_path
  simp [resolve_part_target_eq, xlsxDrawingPath]

/-- **XLSX `_resolve_image_path`** is `xlsxImagePath` (`"/".join(p.split("/")[:-1])` is `dirOf`) -/
theorem resolve_image_path_eq (t drawing : Py.Str) : _resolve_image_path t drawing = pure (xlsxImagePath t drawing) := by
  unfold _resolve_image_path
  simp [resolve_part_target_eq, xlsxImagePath, dirOf, splitOn_slash, strJoin_slash]

/-! ## call sites of `resolve_part_target` in the three OOXML extractors (inventory, regenerated on every run) -/

/-- DOCX has no wrapper: every call of `resolve_part_target` in `docx_extractor.py` passes the literal `"word"`
    as the source directory — so what it computes is `docxImagePath` (`resolve_part_target_eq`). -/
theorem docx_call_sites : S2T.Gen.PyDocxPaths.call_sites ≠ [] ∧
    ∀ s ∈ S2T.Gen.PyDocxPaths.call_sites, s.2.1 = "resolve_part_target" ∧ s.2.2.head? = some "'word'" := by decide

theorem docx_resolve_eq (t : Py.Str) : resolve_part_target "word".toList t = pure (docxImagePath t) :=
  resolve_part_target_eq _ _

/-- PPTX / XLSX: `resolve_part_target` is only called inside the translated wrappers (no other, untied use) -/
theorem pptx_xlsx_call_sites :
    (∀ s ∈ S2T.Gen.PyPptxPaths.call_sites, s.1 ∈ S2T.Gen.PyPptxPaths.translated)
    ∧ (∀ s ∈ S2T.Gen.PyXlsxPaths.call_sites, s.1 ∈ S2T.Gen.PyXlsxPaths.translated) := by decide

/-! ## ODF, EPUB -/

/-- **`resolve_odf_href` is `odfResolve`** (the early `return href` is the model's `none`) -/
theorem resolve_odf_href_eq (href : Py.Str) : resolve_odf_href href = pure (odfResolve href) := by
  rcases h : startsSlash href
  · rcases hl : odfLoop [] (splitSlash href) with _ | segs
    all_goals (
      have hr := hl
      rw [odfLoop_eq_dotRun, List.reverse_nil] at hr
      unfold resolve_odf_href odfResolve
      simp +instances [startswith_slash, h, hl]
      rw [forIn_dotRun href]
      · simp only [splitOn_slash, strJoin_slash]
        first
          | simp [dotRunState_none _ _ _ hr]
          | simp [dotRunState_some _ _ _ _ hr]
      · py_dot_body)
  · unfold resolve_odf_href odfResolve
    simp +instances [startswith_slash, h]

/-- **`_EpubContext.resolve_href` is `epubResolve`** at the context's `_opf_dir` -/
theorem epub_resolve_href_eq (self : EpubContext) (href : Py.Str) :
    _EpubContext.resolve_href self href = pure (epubResolve self.opfDir href) := by
  rcases h : startsSlash href
  all_goals (
    unfold _EpubContext.resolve_href epubResolve
    simp +instances [startswith_slash, h]
    rw [forIn_dotStep]
    · simp [popLoop_eq_foldl, splitOn_slash, strJoin_slash]
    · py_dot_body)

/-! ## composed with `Props/C14_Resolve.lean`: the SOURCE functions are OPC / RFC 3986 §5.2 resolution -/

/-- `zip_utils.resolve_part_target`, as written in the source, is OPC resolution for every directory and target -/
theorem resolve_part_target_is_opc (d t : Py.Str) : resolve_part_target d t = pure (opcResolve d t) := by
  rw [resolve_part_target_eq, S2T.C14.Resolve.C14_opc_resolve_part_target]

theorem normalize_relative_path_is_opc (d t : Py.Str) : _normalize_relative_path d t = pure (opcResolve d t) := by
  rw [normalize_relative_path_eq, S2T.C14.Resolve.C14_opc_resolve_part_target]

theorem resolve_drawing_path_is_opc (t : Py.Str) :
    _resolve_drawing_path t = pure (opcResolve "xl/worksheets".toList t) := by
  rw [resolve_drawing_path_eq, S2T.C14.Resolve.C14_opc_xlsx_drawing]

theorem resolve_image_path_is_opc (t drawing : Py.Str) :
    _resolve_image_path t drawing = pure (opcResolve (dirOf drawing) t) := by
  rw [resolve_image_path_eq, S2T.C14.Resolve.C14_opc_xlsx_image]

/-- EPUB: with `_opf_dir = dir + "/"` (what `_parse_container` stores for an OPF in a directory) -/
theorem epub_resolve_href_is_opc (dir href : Py.Str) :
    _EpubContext.resolve_href ⟨dir ++ ['/']⟩ href = pure (opcResolve dir href) := by
  rw [epub_resolve_href_eq, S2T.C14.Resolve.C14_opc_epub]

/-- … and with `_opf_dir = ""` (OPF at the package root) -/
theorem epub_resolve_href_root_is_opc (href : Py.Str) :
    _EpubContext.resolve_href ⟨[]⟩ href = pure (opcResolve [] href) := by
  rw [epub_resolve_href_eq, S2T.C14.Resolve.C14_opc_epub_root]

/-- ODF: a relative href that stays inside the package -/
theorem resolve_odf_href_is_opc (href : Py.Str) (hrel : isAbsolute href = false)
    (hin : S2T.C14.Resolve.staysInside [] (splitSlash href) = true) :
    resolve_odf_href href = pure (opcResolve [] href) := by
  rw [resolve_odf_href_eq, S2T.C14.Resolve.C14_opc_odf href hrel hin]

example : isAbsolute "./Pictures/a.png".toList = false
    ∧ S2T.C14.Resolve.staysInside [] (splitSlash "./Pictures/a.png".toList) = true := by decide +kernel

/-- … and one that leaves it is returned unchanged -/
theorem resolve_odf_href_outside (href : Py.Str)
    (h : isAbsolute href = true ∨ S2T.C14.Resolve.staysInside [] (splitSlash href) = false) :
    resolve_odf_href href = pure href := by
  rw [resolve_odf_href_eq, S2T.C14.Resolve.C14_odf_outside href h]

/-! ## what the OPC equalities give for the translated resolvers themselves

Whatever a relationship target, an `href` or a drawing reference says, the resolvers **as the source has them now**
answer a `/`-joined list of proper names — no empty, `.` or `..` segment survives, so the name cannot point outside
the package — and an absolute target does not depend on the part it is written in. -/

private theorem opc_normal (d t : Py.Str) :
    ∃ segs, opcResolve d t = joinSlash segs ∧ ∀ s ∈ segs, isName s = true := by
  unfold opcResolve
  split
  · exact ⟨_, rfl, S2T.C14.Resolve.norm_clean _⟩
  · exact ⟨_, rfl, S2T.C14.Resolve.norm_clean _⟩

/-- **C14 at the source level (resolved part names are normal)**: `zip_utils.resolve_part_target` (DOCX, shared) -/
theorem resolve_part_target_normal (d t : Py.Str) :
    ∃ segs, resolve_part_target d t = pure (joinSlash segs) ∧ ∀ s ∈ segs, isName s = true := by
  obtain ⟨segs, h, hn⟩ := opc_normal d t
  exact ⟨segs, by rw [resolve_part_target_is_opc, h], hn⟩

/-- … the PPTX `_normalize_relative_path` -/
theorem normalize_relative_path_normal (d t : Py.Str) :
    ∃ segs, _normalize_relative_path d t = pure (joinSlash segs) ∧ ∀ s ∈ segs, isName s = true := by
  obtain ⟨segs, h, hn⟩ := opc_normal d t
  exact ⟨segs, by rw [normalize_relative_path_is_opc, h], hn⟩

/-- … the XLSX drawing and image resolvers -/
theorem xlsx_paths_normal (t drawing : Py.Str) :
    (∃ segs, _resolve_drawing_path t = pure (joinSlash segs) ∧ ∀ s ∈ segs, isName s = true) ∧
    (∃ segs, _resolve_image_path t drawing = pure (joinSlash segs) ∧ ∀ s ∈ segs, isName s = true) := by
  obtain ⟨s1, h1, n1⟩ := opc_normal "xl/worksheets".toList t
  obtain ⟨s2, h2, n2⟩ := opc_normal (dirOf drawing) t
  exact ⟨⟨s1, by rw [resolve_drawing_path_is_opc, h1], n1⟩, ⟨s2, by rw [resolve_image_path_is_opc, h2], n2⟩⟩

/-- … the EPUB `resolve_href` (OPF in a directory, OPF at the root) -/
theorem epub_resolve_href_normal (dir href : Py.Str) :
    (∃ segs, _EpubContext.resolve_href ⟨dir ++ ['/']⟩ href = pure (joinSlash segs) ∧ ∀ s ∈ segs, isName s = true) ∧
    (∃ segs, _EpubContext.resolve_href ⟨[]⟩ href = pure (joinSlash segs) ∧ ∀ s ∈ segs, isName s = true) := by
  obtain ⟨s1, h1, n1⟩ := opc_normal dir href
  obtain ⟨s2, h2, n2⟩ := opc_normal [] href
  exact ⟨⟨s1, by rw [epub_resolve_href_is_opc, h1], n1⟩, ⟨s2, by rw [epub_resolve_href_root_is_opc, h2], n2⟩⟩

/-- **C14 at the source level (an absolute target ignores the part it is written in)** -/
theorem resolve_part_target_absolute (d d' t : Py.Str) (ht : isAbsolute t = true) :
    resolve_part_target d t = resolve_part_target d' t ∧ _normalize_relative_path d t = _normalize_relative_path d' t := by
  rw [resolve_part_target_is_opc, resolve_part_target_is_opc, normalize_relative_path_is_opc,
    normalize_relative_path_is_opc, S2T.C14.Resolve.opc_absolute d d' t ht]
  exact ⟨rfl, rfl⟩

example : isAbsolute "/ppt/media/i.png".toList = true := by decide
example : resolve_part_target "ppt/slides".toList "../media/./i.png".toList = pure "ppt/media/i.png".toList := by
  rw [resolve_part_target_is_opc]; exact congrArg pure (by decide +kernel)
example : resolve_part_target "word".toList "../../../etc/passwd".toList = pure "etc/passwd".toList := by
  rw [resolve_part_target_is_opc]; exact congrArg pure (by decide +kernel)

end S2T.C14.Src
