import S2T.Lemmas.Mail
import S2T.Props.C07
import S2T.Gen.Mail
import S2T.Props.C16_Text
import S2T.Props.C16_Date
/-!
# C16 — E-mail: headers, bodies, attachments and mailbox boundaries are exact

Model: `S2T/Model/Mail.lean` (mbox splitter over bytes, MIME-tree walk of the mbox extractor,
attachment routing of `EmailContent.iterate_supported_attachments`, the `.eml` mapping of the
mailparser result).  Quantifiers: every byte string, every list of messages, every MIME tree,
every table set satisfying the decidable side conditions (re-decided on the generated tables).

What the standard library / mailparser compute (RFC 2047/2231/5322 decoding, transfer decoding,
MIME parsing) is *input* of the model (fields of `Part` / `Mp`), tied to the running code by the
correspondence and to ground truth by the harness oracle — see `manifest.d/C16.json`.
-/
namespace S2T.C16
open S2T.Mail S2T.Router

/-! ## Tie to the current source (re-decided whenever the source changes) -/

/-- the translator found every inspected constant to be the literal the source shows -/
theorem gen_notes_empty : S2T.Gen.Mail.notes = [] := by decide

/-- `isSepLine` is a matcher for exactly this pattern with exactly these flags (`re.MULTILINE`) -/
theorem gen_pattern : S2T.Gen.Mail.sepPattern = "^From \\S+.*\\d{4}\\r?\\n" ∧ S2T.Gen.Mail.sepFlags = 8 := by
  decide

/-- `_split_mbox_messages` strips with `rstrip(b"\r\n")` and nothing else; the running function
    leaves of the probe chunk what `rstripCRLF` leaves -/
theorem gen_strip : S2T.Gen.Mail.stripCalls = [("rstrip", [13, 10])] ∧
    rstripCRLF [13, 10, 32, 9, 32, 120, 32, 9, 32, 13, 10, 10, 13] = S2T.Gen.Mail.stripProbe := by
  decide

/-- literals steering body selection, attachment detection, defaults and the fallback name -/
theorem gen_literals :
    (S2T.Gen.Mail.bodyTypes.all (fun s => s == "text/plain" || s == "text/html") &&
     S2T.Gen.Mail.bodyTypes.contains "text/plain" && S2T.Gen.Mail.bodyTypes.contains "text/html") = true ∧
    S2T.Gen.Mail.attachmentMarks = ["attachment"] ∧
    S2T.Gen.Mail.attachmentDefaults = ["attachment"] ∧
    (S2T.Gen.Mail.emlDefaults.contains "attachment" && S2T.Gen.Mail.emlDefaults.contains "application/octet-stream") = true ∧
    S2T.Gen.Mail.emlAttachmentKeys = ["filename", "mail_content_type", "payload", "binary"] ∧
    S2T.Gen.Mail.routeFStrings = [["attachment.", "{file_type}"]] := by
  decide

/-- every header the statement names is read by `parse_email_message` -/
theorem gen_headers : (["Subject", "From", "To", "Cc", "Bcc", "Reply-To", "Date", "Message-ID"].all
    S2T.Gen.Mail.headersRead.contains) = true := by decide

/-- both extractors fill every field the statement names, attachments included -/
theorem gen_fields :
    (["subject", "from_email", "to_emails", "to_cc", "to_bcc", "reply_to", "body_plain", "body_html",
      "attachments", "metadata"].all
        (fun f => S2T.Gen.Mail.mboxFields.contains f && S2T.Gen.Mail.emlFields.contains f)) = true ∧
    S2T.Gen.Mail.mboxAttachmentFields = ["filename", "mime_type", "data", "is_supported_mime_type"] ∧
    S2T.Gen.Mail.emlAttachmentFields = ["filename", "mime_type", "data", "is_supported_mime_type"] := by
  decide

/-! ## mbox: one result per message, in order, boundaries only at separator lines -/

/-- **C16 (mbox).** For every preamble without separator lines and every sequence of
    (separator line, message) in which no line of a message matches the separator pattern
    (what From_-quoting guarantees) and every message but the last ends with a line end:
    splitting the concatenation returns the messages, in order, each with its trailing CR/LF
    bytes removed, dropping those that consist of CR/LF only.  LF and CRLF alike. -/
theorem C16_mbox_split (pre : Bytes) (ps : List (Bytes × Bytes))
    (hpre : NonSep pre) (hterm : ps ≠ [] → Term pre) (h : WellFormed ps) :
    splitMbox (pre ++ mboxJoin ps) =
      ((ps.map (·.2)).map rstripCRLF).filter (fun m => !m.isEmpty) := by
  unfold splitMbox
  congr 2
  cases ps with
  | nil =>
    simp only [mboxJoin, List.append_nil, List.map_nil]
    have := chunksAux_nonsep_none (lines pre) [] hpre
    simpa [chunksAux] using this
  | cons p r =>
    rw [lines_append pre _ (hterm (by simp)), chunksAux_nonsep_none _ _ hpre, chunks_join _ h none]
    simp

/-- a message that keeps at least one byte after `rstrip(b"\r\n")` -/
def Visible (m : Bytes) : Prop := rstripCRLF m ≠ []

instance (m : Bytes) : Decidable (Visible m) := by unfold Visible; exact inferInstance

/-- **C16 (mbox, count and order).** If moreover every message has a byte other than CR/LF
    (any message with a header has), the mbox yields exactly one result per message and the
    i-th result is the i-th message. -/
theorem C16_mbox_count (pre : Bytes) (ps : List (Bytes × Bytes))
    (hpre : NonSep pre) (hterm : ps ≠ [] → Term pre) (h : WellFormed ps)
    (hv : ∀ p ∈ ps, Visible p.2) :
    (splitMbox (pre ++ mboxJoin ps)).length = ps.length ∧
    ∀ i (hi : i < ps.length), (splitMbox (pre ++ mboxJoin ps))[i]? = some (rstripCRLF ps[i].2) := by
  rw [C16_mbox_split pre ps hpre hterm h]
  have hf : ((ps.map (·.2)).map rstripCRLF).filter (fun m => !m.isEmpty) = (ps.map (·.2)).map rstripCRLF := by
    apply List.filter_eq_self.mpr
    intro m hm
    simp only [List.mem_map] at hm
    obtain ⟨m0, ⟨p, hp, rfl⟩, rfl⟩ := hm
    have := hv p hp
    unfold Visible at this
    simpa using this
  rw [hf]
  refine ⟨by simp, ?_⟩
  intro i hi
  simp [hi]

/-
  Full-strength statement ("exact bytes", also for the message as a whole):
      splitMbox (pre ++ mboxJoin ps) = ps.map (·.2)
  It is FALSE on the current code: `rstrip(b"\r\n")` also removes the line end(s) that belong to
  the message itself (open known finding `mbox.single-part-trailing-newlines`): see
  `C16_mbox_trailing_newline_counterexample`.  It holds with the excluding hypothesis
  "no message ends in CR or LF".
-/
/-- **C16 (mbox, exact bytes) — partial.** Messages that are non-empty and do not end in CR/LF
    come back byte for byte. -/
theorem C16_mbox_exact_partial (pre : Bytes) (ps : List (Bytes × Bytes))
    (hpre : NonSep pre) (hterm : ps ≠ [] → Term pre) (h : WellFormed ps)
    (hx : ∀ p ∈ ps, p.2 ≠ [] ∧ p.2.getLast? ≠ some 13 ∧ p.2.getLast? ≠ some 10) :
    splitMbox (pre ++ mboxJoin ps) = ps.map (·.2) := by
  rw [C16_mbox_split pre ps hpre hterm h]
  have hr : ∀ p ∈ ps, rstripCRLF p.2 = p.2 := by
    intro p hp
    obtain ⟨hne, h13, h10⟩ := hx p hp
    unfold rstripCRLF
    have : p.2.reverse.dropWhile (fun b => b == 13 || b == 10) = p.2.reverse := by
      cases hrev : p.2.reverse with
      | nil => rfl
      | cons c cs =>
        have hl : p.2.getLast? = some c := by
          rw [← List.head?_reverse, hrev]; rfl
        rw [List.dropWhile_cons]
        have hc13 : c ≠ 13 := by intro hc; subst hc; exact h13 hl
        have hc10 : c ≠ 10 := by intro hc; subst hc; exact h10 hl
        simp [hc13, hc10]
    rw [this]; simp
  have hm : (ps.map (·.2)).map rstripCRLF = ps.map (·.2) := by
    rw [List.map_map]
    apply List.map_congr_left
    intro p hp
    exact hr p hp
  rw [hm]
  apply List.filter_eq_self.mpr
  intro m hmem
  obtain ⟨p, hp, rfl⟩ := List.mem_map.mp hmem
  have := (hx p hp).1
  simpa using this

/-- counterexample to the full-strength statement: the message `x\n` comes back as `x` -/
theorem C16_mbox_trailing_newline_counterexample :
    let sep : Bytes := [70, 114, 111, 109, 32, 97, 32, 50, 48, 50, 52, 10]   -- "From a 2024\n"
    let msg : Bytes := [120, 10]                                               -- "x\n"
    WellFormed [(sep, msg)] ∧ splitMbox (mboxJoin [(sep, msg)]) = [[120]] ∧
    splitMbox (mboxJoin [(sep, msg)]) ≠ [msg] := by
  refine ⟨?_, by decide, by decide⟩
  simp only [WellFormed, and_true]
  exact ⟨by decide, by decide, by simp⟩

/-! ## mbox reader: the loop of `read_mbox_format_mail` yields once per split message, whatever came before

The control skeleton of the loop is read from the current source (`S2T.Gen.Mail.readerLoops`: one token per
statement of the loop body).  `runLoop` is the loop over ANY list of items with ANY behaviour `o` of the
conditional statements (what a `cond` statement yields may depend on the item — and `o` is arbitrary, so on
anything: headers, earlier items, a set of ids seen so far).  A loop body that passes `loopOnce` has no such
statement, and then the outcome is the input list itself: nothing is skipped, repeated, reordered or cut off. -/

/-- what one pass of the loop body yields for the item `x` -/
def runBody {α : Type} (o : α → List α) (body : List String) (x : α) : List α :=
  body.flatMap (fun t => if t = "yield" then [x] else if t = "plain" then [] else o x)

/-- the items the loop yields over `xs` -/
def runLoop {α : Type} (o : α → List α) (body : List String) (xs : List α) : List α :=
  xs.flatMap (runBody o body)

/-- every statement is an unconditional top-level `yield` or contains no yield/continue/break/return, and
    there is exactly one `yield` -/
def loopOnce (body : List String) : Bool :=
  body.all (fun t => t = "yield" || t = "plain") && body.count "yield" == 1

theorem runBody_replicate {α : Type} (o : α → List α) (body : List String) (x : α)
    (h : body.all (fun t => t = "yield" || t = "plain") = true) :
    runBody o body x = List.replicate (body.count "yield") x := by
  induction body with
  | nil => simp [runBody]
  | cons t r ih =>
    simp only [List.all_cons, Bool.and_eq_true, Bool.or_eq_true, decide_eq_true_eq] at h
    have ih' := ih h.2
    unfold runBody at ih' ⊢
    rw [List.flatMap_cons, ih']
    rcases h.1 with ht | ht
    · subst ht; simp [List.replicate_succ']
      rw [← List.replicate_succ, List.replicate_succ']
    · subst ht; simp

/-- **C16 (mbox reader, one result per message in order — for every history).** A loop whose body passes
    `loopOnce` yields exactly its items, in order, for every behaviour `o` of conditional statements. -/
theorem C16_reader_loop_exact {α : Type} (o : α → List α) (body : List String) (h : loopOnce body = true)
    (xs : List α) : runLoop o body xs = xs := by
  unfold loopOnce at h
  simp only [Bool.and_eq_true, beq_iff_eq] at h
  unfold runLoop
  have : runBody o body = fun x => [x] := by
    funext x
    rw [runBody_replicate o body x h.1, h.2]; rfl
  rw [this]
  induction xs with
  | nil => rfl
  | cons a r ih => simp

/-- the hypothesis `loopOnce` is needed: with the skeleton `[plain, cond, yield]` (a conditional statement that
    itself yields for some items) the outcome is not the input list -/
theorem C16_reader_loop_cond_counterexample :
    runLoop (fun (x : Nat) => if x = 7 then [x] else []) ["plain", "cond", "yield"] [1, 7] ≠ [1, 7] := by decide

/-- tie: `read_mbox_format_mail` has exactly one loop, its body passes `loopOnce`, there is no comprehension
    (no filter) and no yield outside the loop -/
theorem gen_reader_loop :
    S2T.Gen.Mail.readerLoops.length = 1 ∧ S2T.Gen.Mail.readerLoops.all loopOnce = true ∧
    S2T.Gen.Mail.readerComprehensions = 0 ∧ S2T.Gen.Mail.readerYieldsOutsideLoop = 0 := by decide

/-- tie: the loop runs over `_split_mbox_messages(file_like.read())`, each item goes through
    `email.message_from_bytes` and `parse_email_message`, and that value is what is yielded; none of these names is
    ever bound to anything else (no slice, sort, filter, dict of ids, …), changed in place or deleted -/
theorem gen_reader_chain :
    S2T.Gen.Mail.readerChain =
      [("for-target", "msg_bytes"), ("for-iter", "message_bytes_list"), ("yield", "m"),
       ("data", "file_like.read()"), ("message_bytes_list", "_split_mbox_messages(data)"),
       ("message", "email.message_from_bytes(msg_bytes)"), ("m", "parse_email_message(message)")] := by decide

/-- tie: `read_eml_format_mail` has no loop and no comprehension and yields one value -/
theorem gen_eml_reader :
    S2T.Gen.Mail.emlReaderLoops = [] ∧ S2T.Gen.Mail.emlReaderComprehensions = 0 ∧
    S2T.Gen.Mail.emlReaderYields.length = 1 := by decide

/-- tie: neither extractor module keeps mutable module-level containers, `global`/`nonlocal` names or cached
    functions — a result cannot depend on what was extracted before -/
theorem gen_no_module_state : S2T.Gen.Mail.moduleState = [] := by decide

/-- **C16 (mbox, end to end count and order).** Under the hypotheses of `C16_mbox_count`, the reader loop of the
    current source (any per-message function `f` standing for parse) run over the split of the mailbox gives one
    result per message, the i-th being `f` of the i-th message (CR/LF-right-stripped). -/
theorem C16_mbox_reader_count {β : Type} (f : Bytes → β) (o : β → List β)
    (pre : Bytes) (ps : List (Bytes × Bytes))
    (hpre : NonSep pre) (hterm : ps ≠ [] → Term pre) (h : WellFormed ps)
    (hv : ∀ p ∈ ps, Visible p.2) (body : List String) (hb : body ∈ S2T.Gen.Mail.readerLoops) :
    let res := runLoop o body ((splitMbox (pre ++ mboxJoin ps)).map f)
    res.length = ps.length ∧ ∀ i (hi : i < ps.length), res[i]? = some (f (rstripCRLF ps[i].2)) := by
  have hok : loopOnce body = true := by
    have := gen_reader_loop.2.1
    exact List.all_eq_true.mp this body hb
  intro res
  have hres : res = (splitMbox (pre ++ mboxJoin ps)).map f := C16_reader_loop_exact o body hok _
  obtain ⟨hl, hi⟩ := C16_mbox_count pre ps hpre hterm h hv
  rw [hres]
  refine ⟨by simp [hl], ?_⟩
  intro i hlt
  rw [List.getElem?_map, hi i hlt]; rfl

/-- **C16 (CRLF).** A separator line is recognised the same with LF and with CRLF. -/
theorem C16_sep_crlf (s : Bytes) (h13 : s.getLast? ≠ some 13) :
    isSepLine (s ++ [13, 10]) = isSepLine (s ++ [10]) := by
  have e1 : s ++ [13, 10] = (s ++ [13]) ++ [10] := by simp
  unfold isSepLine
  rw [e1]
  simp only [List.getLast?_append, List.getLast?_singleton, Option.some_or, List.dropLast_concat]
  have hall : (s ++ [13]).all (fun x => x != 10) = s.all (fun x => x != 10) := by simp
  rw [hall]
  simp [h13]

/-- **C16 (quoting suffices).** A message none of whose lines begins with `From␠` (mboxo/mboxrd
    quoting) has no line matching the separator pattern. -/
theorem C16_escaped_nonsep (m : Bytes) (h : ∀ l ∈ lines m, fromSp.isPrefixOf l = false) : NonSep m :=
  fun l hl => isSepLine_of_not_from l (h l hl)

/-! ## MIME tree: bodies and attachments (mbox extractor) -/

/-- **C16 (bodies).** For a multipart message the plain / HTML body is the decoded text of the
    first part, in document order and outside every attachment, that has that content type
    and a non-empty body; `""` if there is none. -/
theorem C16_body (p : Part) (cs : List Tree) :
    getBody (.multi p cs) =
      (firstBody sTextPlain (iterParts (.multi p cs)), firstBody sTextHtml (iterParts (.multi p cs))) := by
  simp only [getBody]
  rw [foldl_bodyStep]
  simp

/-- **C16 (bodies, over the leaves).** When attachments are leaves, "outside every attachment"
    is simply "not an attachment leaf": the bodies are found among all leaves in document order. -/
theorem C16_body_leaves (p : Part) (cs : List Tree) (h : attLeavesOnly (.multi p cs) = true) :
    getBody (.multi p cs) =
      (firstBody sTextPlain ((leaves (.multi p cs)).map (fun l => (l, isAttachment l.part))),
       firstBody sTextHtml ((leaves (.multi p cs)).map (fun l => (l, isAttachment l.part)))) := by
  rw [C16_body, iterParts_leaves _ h]

/-- **C16 (no attachment content in a body).** A non-empty plain body is the text of an entry
    that is not an attachment (nor inside one) and is `text/plain`; same for HTML. -/
theorem C16_body_is_inline (p : Part) (cs : List Tree) :
    ((getBody (.multi p cs)).1 ≠ [] →
      ∃ e ∈ iterParts (.multi p cs), e.2 = false ∧ e.1.part.ctype = sTextPlain ∧
        e.1.part.text = (getBody (.multi p cs)).1) ∧
    ((getBody (.multi p cs)).2 ≠ [] →
      ∃ e ∈ iterParts (.multi p cs), e.2 = false ∧ e.1.part.ctype = sTextHtml ∧
        e.1.part.text = (getBody (.multi p cs)).2) := by
  rw [C16_body]
  have key : ∀ ct L, firstBody ct L ≠ [] →
      ∃ e ∈ L, e.2 = false ∧ e.1.part.ctype = ct ∧ e.1.part.text = firstBody ct L := by
    intro ct L hne
    unfold firstBody at hne ⊢
    cases hf : L.find? (isBody ct) with
    | none => rw [hf] at hne; exact absurd rfl hne
    | some e =>
      have hm := List.mem_of_find?_eq_some hf
      have hp := List.find?_some hf
      simp only [isBody, Bool.and_eq_true, Bool.not_eq_true', beq_iff_eq] at hp
      exact ⟨e, hm, hp.1.1.1, hp.1.1.2, rfl⟩
  exact ⟨key _ _, key _ _⟩

/-- **C16 (attachment-only message).** A single-part message that is an attachment has no body. -/
theorem C16_body_attachment_only (p : Part) (h : isAttachment p = true) : getBody (.leaf p) = ([], []) := by
  simp [getBody, h]

/-- **C16 (attachments).** The attachments are exactly the attachment entries of the walk, in
    document order, each with its decoded name (default `attachment`), type, bytes and flag. -/
theorem C16_attachments (T : Tables) (t : Tree) :
    getAttachments T t = ((iterParts t).filter (·.2)).map (fun e => mkAttachment T e.1.part) := by
  unfold getAttachments
  have := foldl_attach (fun e : Tree × Bool => mkAttachment T e.1.part) (fun e => e.2) (iterParts t) []
  simpa using this

/-- **C16 (attachments, over the leaves).** When attachments are leaves: every attachment leaf,
    in document order, none lost, none invented. -/
theorem C16_attachments_leaves (T : Tables) (t : Tree) (h : attLeavesOnly t = true) :
    getAttachments T t = ((leaves t).filter (fun l => isAttachment l.part)).map (fun l => mkAttachment T l.part) := by
  rw [C16_attachments, iterParts_leaves t h, List.filter_map, List.map_map]
  rfl

/-- the flag stored with an attachment is `is_supported_mime_type` of its type -/
theorem C16_attachment_flag (T : Tables) (p : Part) :
    (mkAttachment T p).supported = isSupportedMime T p.ctype ∧ (mkAttachment T p).data = p.payload ∧
    (mkAttachment T p).mime = p.ctype := ⟨rfl, rfl, rfl⟩

/-! ## Attachment routing: by name, then by MIME type -/

/-- side condition on the tables for the MIME fallback: every mapped type names a file type for
    which `attachment.<type>` is routed by its extension -/
def MimeRouteOk (T : Tables) : Bool :=
  T.mimeMap.all (fun kv => !kv.2.isEmpty && (fileTypeFromExt T (sAttachmentDot ++ kv.2)).isSome)

theorem gen_mime_route_ok : MimeRouteOk S2T.Gen.Router.tables = true := by decide +kernel

/-- **C16 (name first).** A supported attachment whose (lower-cased) name is routable is
    extracted by the extractor `get_extractor(name)` returns — the one that reads the attached
    file on its own. -/
theorem C16_routing_by_name (T : Tables) (name : Str) (g g2 : Option Str) (mime : Str) (f : Str × Str)
    (hf : getExtractor T name g = .ok f) :
    routeAttachment T true name g mime g2 = .ok (.run f) := by
  simp [routeAttachment, hf]

/-- **C16 (a supported attachment is extracted).** With well-formed tables, an attachment whose
    type `is_supported_mime_type` is never skipped and `get_extractor` never raises: it is
    extracted by name, else by the extractor registered for its MIME type. -/
theorem C16_routing_supported_runs {T : Tables} (h : S2T.C07.TablesOk T = true) (h2 : MimeRouteOk T = true)
    (name : Str) (g g2 : Option Str) (mime : Str) (hs : isSupportedMime T mime = true) :
    ∃ f, routeAttachment T true name g mime g2 = .ok (.run f) := by
  unfold routeAttachment
  simp only [Bool.not_true, Bool.false_eq_true, ↓reduceIte]
  cases hg : getExtractor T name g with
  | ok f => exact ⟨f, rfl⟩
  | error e =>
    simp only
    unfold isSupportedMime at hs
    simp only [Bool.and_eq_true] at hs
    obtain ⟨ft, hft⟩ := Option.isSome_iff_exists.mp hs.2
    have hmem := lookup_mem _ _ _ hft
    have hrow := List.all_eq_true.mp h2 (mime, ft) hmem
    simp only [Bool.and_eq_true, Bool.not_eq_true', List.isEmpty_eq_false_iff] at hrow
    obtain ⟨t, ht⟩ := Option.isSome_iff_exists.mp hrow.2
    obtain ⟨f, _, hall⟩ := S2T.C07.ext_decides h _ t ht
    refine ⟨f, ?_⟩
    simp [hft, hrow.1, hall g2]

/-- the same on the tables generated from the current source -/
theorem C16_routing (name : Str) (g g2 : Option Str) (mime : Str)
    (hs : isSupportedMime S2T.Gen.Router.tables mime = true) :
    ∃ f, routeAttachment S2T.Gen.Router.tables true name g mime g2 = .ok (.run f) :=
  C16_routing_supported_runs S2T.C07.gen_tables_ok gen_mime_route_ok name g g2 mime hs

/-- an attachment whose type is not supported is skipped, whatever its name -/
theorem C16_routing_unsupported (T : Tables) (name : Str) (g g2 : Option Str) (mime : Str) :
    routeAttachment T false name g mime g2 = .ok .skipUnsupported := by
  simp [routeAttachment]

/-! ## `.eml`: the mapping of the mailparser result -/

/-- **C16 (eml attachments).** One `EmailAttachment` per mailparser attachment, in order, with
    the base64-decoded bytes for binary payloads. -/
theorem C16_eml_attachments (T : Tables) (m : Mp) (r : EmlResult) (h : readEml T m = .ok r) :
    r.attachments = m.attachments.map (mkEmlAttachment T) ∧
    r.attachments.length = m.attachments.length ∧
    ∀ a ∈ m.attachments, a.binary = true → (mkEmlAttachment T a).data = a.b64 := by
  obtain ⟨f, to, _, rfl⟩ := readEml_ok T m r h
  refine ⟨rfl, by simp, ?_⟩
  intro a _ hb
  simp [mkEmlAttachment, hb]

/-- **C16 (eml recipients).** To-addresses are passed on all and in order; Cc/Bcc/Reply-To keep
    exactly the entries that have an address. -/
theorem C16_eml_recipients (T : Tables) (m : Mp) (r : EmlResult) (h : readEml T m = .ok r) :
    m.to.mapM pair2 = .ok r.to ∧ r.cc = filterAddr m.cc ∧ r.bcc = filterAddr m.bcc ∧
    r.replyTo = filterAddr m.replyTo := by
  obtain ⟨f, to, hto, rfl⟩ := readEml_ok T m r h
  exact ⟨hto, rfl, rfl, rfl⟩

/-
  Full-strength statement for `.eml` bodies: `r.bodyPlain` is THE plain body of the message.
  The extractor joins whatever mailparser lists under `text_plain`; mailparser also lists the
  text parts of an *attached* message (open known finding `eml.attached-message-body-leak`),
  so the statement holds only with the excluding hypothesis "mailparser lists exactly the body".
-/
/-- **C16 (eml bodies) — partial.** -/
theorem C16_eml_body_partial (T : Tables) (m : Mp) (r : EmlResult) (h : readEml T m = .ok r)
    (b : Str) (hb : m.textPlain = [b] ∨ (m.textPlain = [] ∧ b = [])) : r.bodyPlain = b := by
  obtain ⟨f, to, _, rfl⟩ := readEml_ok T m r h
  rcases hb with hb | ⟨hb, rfl⟩ <;> simp [hb, joinNl]

/-- counterexample: with the inner text of an attached message listed too, the body is not the
    message's own body -/
theorem C16_eml_body_leak_counterexample :
    let m : Mp := { from_ := [["".toList, "a@b.c".toList]], to := [], cc := [], bcc := [], replyTo := [],
                    subject := "s".toList, textPlain := ["outer".toList, "inner".toList], textHtml := [],
                    attachments := [] }
    ∃ r, readEml S2T.Gen.Router.tables m = .ok r ∧ r.bodyPlain = "outer\ninner".toList ∧
      r.bodyPlain ≠ "outer".toList := by
  refine ⟨_, rfl, by decide, by decide⟩

/-
  Full-strength statement for `.eml` display names: the name is the decoded display name.
  The extractor copies mailparser's tuple verbatim; for a quoted display name folded across
  lines mailparser keeps the line break (LF) or loses the address (CRLF) — open known finding
  `eml.folded-display-name`.  What is proved is the copy.
-/
/-- counterexample: a line break in mailparser's name is a line break in the result -/
theorem C16_eml_folded_name_counterexample :
    let m : Mp := { from_ := [["".toList, "a@b.c".toList]], to := [["Doe,\n John".toList, "j@x.io".toList]],
                    cc := [], bcc := [], replyTo := [], subject := [], textPlain := [], textHtml := [],
                    attachments := [] }
    ∃ r, readEml S2T.Gen.Router.tables m = .ok r ∧ r.to = [("Doe,\n John".toList, "j@x.io".toList)] ∧
      r.to ≠ [("Doe, John".toList, "j@x.io".toList)] := by
  refine ⟨_, rfl, by decide, by decide⟩

/-! ## Non-vacuity -/

-- a separator line as `mailbox` writes it, LF and CRLF; near misses
example : isSepLine (asc "From MAILER-DAEMON Mon Jan  1 10:00:00 2024\n") = true := by decide
example : isSepLine (asc "From a@b.c Mon Jan  1 10:00:00 2024\r\n") = true := by decide
example : isSepLine (asc "From me to you in 2024 \n") = false := by decide
example : isSepLine (asc "From  x 2024\n") = false := by decide
example : isSepLine (asc ">From a 2024\n") = false := by decide
-- hypotheses of C16_mbox_split / _count are satisfiable by a two-message CRLF mbox with a preamble
example :
    let s1 := asc "From a 2024\r\n"
    let m1 := asc "Subject: x\r\n\r\n>From me 2024\r\nbody\r\n\r\n"
    let s2 := asc "From b 1999\n"
    let m2 := asc "Subject: y\n\nno final newline"
    NonSep [10] ∧ Term [10] ∧ WellFormed [(s1, m1), (s2, m2)] ∧ Visible m1 ∧ Visible m2 ∧
    (splitMbox ([10] ++ mboxJoin [(s1, m1), (s2, m2)])).length = 2 := by
  refine ⟨by decide, by decide, ?_, by decide, by decide, by decide⟩
  simp only [WellFormed, and_true]
  exact ⟨by decide, by decide, fun _ => by decide, by decide, by decide, by simp⟩
-- hypothesis of C16_mbox_exact_partial
example : (asc "Subject: y\n\nx").getLast? ≠ some 10 := by decide
-- C16_sep_crlf
example : (asc "From a 2024").getLast? ≠ some 13 := by decide

/-- mixed(alternative(plain, html), attachment "a.csv", attached message containing text/html) -/
def demoTree : Tree :=
  let mk (ct disp fn : String) (pl : Bytes) (tx : String) : Part :=
    { ctype := ct.toList, disp := disp.toList, filename := fn.toList, fnameDec := fn.toList, payload := pl, text := tx.toList }
  .multi (mk "multipart/mixed" "" "" [] "")
    [ .multi (mk "multipart/alternative" "" "" [] "")
        [ .leaf (mk "text/plain" "" "" [104, 105] "hi"), .leaf (mk "text/html" "" "" [60, 98, 62] "<b>") ],
      .leaf (mk "text/csv" "attachment; filename=\"a.csv\"" "a.csv" [49, 44, 50] "1,2"),
      .multi (mk "message/rfc822" "attachment" "" [83] "")
        [ .leaf (mk "text/html" "" "" [60, 105, 62] "<i>") ] ]

example : getBody demoTree = ("hi".toList, "<b>".toList) := by decide
example : (getAttachments S2T.Gen.Router.tables demoTree).map (fun a => (String.ofList a.filename, String.ofList a.mime, a.data, a.supported))
    = [("a.csv", "text/csv", [49, 44, 50], true), ("attachment", "message/rfc822", [83], true)] := by decide +kernel
-- hypothesis of the *_leaves theorems: satisfiable (and false for demoTree, whose attached message is a container)
example : attLeavesOnly demoTree = false := by decide
example : attLeavesOnly (.multi demoTree.part [.leaf demoTree.part]) = true := by decide
-- routing hypotheses
example : isSupportedMime S2T.Gen.Router.tables "text/csv".toList = true := by decide +kernel
example : routeAttachment S2T.Gen.Router.tables true "noext".toList none "application/pdf".toList none
    = .ok (.run ("sharepoint2text.parsing.extractors.pdf.pdf_extractor".toList, "read_pdf".toList)) := by decide +kernel
example : routeAttachment S2T.Gen.Router.tables true "x.txt".toList none "application/pdf".toList none
    = .ok (.run ("sharepoint2text.parsing.extractors.plain_extractor".toList, "read_plain_text".toList)) := by decide +kernel

end S2T.C16
