import S2T.Lemmas.SharePointFolders
import S2T.Gen.SharePoint
/-!
# C18, part "start folders by path (`folder_paths`) and lazy delivery"

What is added to the model (`S2T/Model/SharePoint.lean`, section "start folders addressed by path"):
`FileFilter.folder_paths` → `list_files_filtered` → `_walk_and_filter` → `_get_folder_by_path`
(`strip("/")`, `quote(·, safe="/")`, the by-path request, the `folder` facet test, the 404 → "no such folder"
rule) → `_walk_drive_items` below the folder found, with parent paths relative to the drive root; and the
GENERATOR semantics of `list_files_filtered` / `_walk_drive_items` / `_list_items_paginated`: a run is the
list of values handed to the consumer plus how it ended (`Part`).

Quantifiers: every library `L`, page size `n > 0`, fuel above `L.size + 2`, every consistent client state,
every filter / `fromisoformat` / `lower` / `fnmatch`, every LIST of start folders `sts`, each given as the
string the caller wrote (`raw`) with the components it denotes (`comps`): any number of outer slashes, names of
any characters except `/` (quoting is part of the model).  Fault theorems: every transport.

The full-strength statement is FALSE in two places on the current tree (both reproduced on the real client,
`known_findings.jsonl`: `folder_paths.duplicate`, `fault.not-raised.folder-lookup-404`):
  * "exactly once" fails when a listed folder is an ancestor of, or equal to, another one →
    `C18_folders_once_partial` (hypothesis `Indep`), `C18_folders_overlap_twice` / `duplicate_counterexample`;
  * "a failed request makes the call raise" fails for status 404 at the by-path lookup of a start folder →
    `C18_folders_fault_partial` / `C18_lazy_prefix_partial` (hypothesis `¬ IsNotFound o`), `lookup_404_swallowed`.
-/
namespace S2T.C18.Folders
open S2T.SP

/-! ## ties to the current source (regenerated on every run) -/

/-- the characters `_get_folder_by_path` leaves unquoted (probed on the real method for every printable ASCII
    character and cross-checked with the `safe="/"` literal) are those of the model -/
theorem gen_quote_safe :
    ∀ n, n < 127 → 32 ≤ n → quoteSafe (Char.ofNat n) = S2T.Gen.SharePoint.keptAscii.contains n := by decide +kernel

/-- only `/` is stripped at the ends of a start folder -/
theorem gen_strip_chars :
    ∀ n, n < 127 → 32 ≤ n → (Char.ofNat n == '/') = S2T.Gen.SharePoint.strippedAscii.contains n := by decide +kernel

/-- the statuses the real `_get_folder_by_path` takes for "no such folder" (probed for 100..599, cross-checked
    with the integer literals of its source) are the model's: 404 only -/
theorem gen_not_found_status :
    ∀ st, st < 600 → 100 ≤ st →
      notFound (.request (some st) .site) = S2T.Gen.SharePoint.notFoundStatuses.contains st := by decide +kernel

/-! ## start folders -/

/-- a start folder: `raw` is the string in `folder_paths`, `comps` the path components it denotes -/
structure Start where
  raw : Str
  comps : List Str

/-- components are non-empty and `/`-free, `raw` is the components joined by single slashes with any number of
    outer slashes; no components ⇔ `raw = ""` (a falsy entry: the whole drive) -/
def Start.Ok (st : Start) : Prop :=
  ValidComps st.comps ∧ stripSlash st.raw = joinPath st.comps ∧ (st.comps = [] → st.raw = [])

/-- every decorated spelling `//a/b c/d%/` of a canonical path is covered -/
theorem C18_start_decorated (a b : Nat) (cs : List Str) (hv : ValidComps cs) (hne : cs ≠ []) :
    Start.Ok ⟨List.replicate a '/' ++ joinPath cs ++ List.replicate b '/', cs⟩ :=
  ⟨hv, stripSlash_decorate a b _ (joinPath_head cs hv) (joinPath_last cs hv), fun h => absurd h hne⟩

theorem C18_start_root : Start.Ok ⟨[], []⟩ := ⟨(by intro c hc; cases hc), rfl, fun _ => rfl⟩

/-- REQUEST URL: the start folder is looked up under the percent-encoding of its components joined by `/`
    (`quote` keeps `/`, never produces one, and is injective: different folders, different URLs) -/
theorem C18_start_url (st : Start) (h : st.Ok) :
    quote (stripSlash st.raw) = joinPath (st.comps.map quote) ∧
    splitSlash (quote (stripSlash st.raw)) = st.comps.map quote ∧
    (∀ s1 s2 : Str, quote s1 = quote s2 → s1 = s2) := by
  rw [h.2.1, quote_joinPath]
  exact ⟨rfl, splitSlash_joinPath _ (validComps_map_quote h.1), quote_injective⟩

/-- what the client hands out for a list of start folders: folder after folder in the order listed, each in
    client order (a folder's own files, page by page, then its sub-folders in page order), filtered -/
def expected (keep : FileMeta → Bool) (L : Lib) (sts : List Start) : List FileMeta :=
  if sts = [] then (clientListing [] L).filter keep
  else sts.flatMap (fun st => (clientAt st.comps L).filter keep)

private theorem sts_hyp {sts : List Start} (h : ∀ st ∈ sts, st.Ok) :
    ∀ x ∈ sts.map (fun st => (st.raw, st.comps)),
      ValidComps x.2 ∧ stripSlash x.1 = joinPath x.2 ∧ (x.2 = [] → x.1 = []) := by
  intro x hx
  rw [List.mem_map] at hx
  obtain ⟨st, hst, rfl⟩ := hx
  exact h st hst

private theorem expected_eq (keep : FileMeta → Bool) (L : Lib) (sts : List Start) :
    (if sts.map (fun st => (st.raw, st.comps)) = [] then (clientListing [] L).filter keep
      else (sts.map (fun st => (st.raw, st.comps))).flatMap (fun x => (clientAt x.2 L).filter keep)) =
    expected keep L sts := by
  unfold expected
  cases sts with
  | nil => rfl
  | cons a r => simp [List.flatMap_map]

/-- COMPLETE, EXACT, ORDER.  Against the healthy server of any library, with any page size, from any consistent
    client state and for any list of start folders, the generator `list_files_filtered` ends normally after
    having handed out exactly `expected`: for each listed folder that exists (and is a folder) the matching
    files below it with parent paths relative to the drive root, nothing for a missing folder or a file,
    in the order listed. -/
theorem C18_folders_complete (iso : Str → Option Int) (lower : Str → Str) (glob : Str → Str → Bool) (f : Filter)
    (L : Lib) (n : Nat) (hn : 0 < n) (hL : resolves L L = true) (fuel : Nat) (hf : L.size + 2 ≤ fuel)
    (sts : List Start) (hsts : ∀ st ∈ sts, st.Ok) (s : St) (hs : Consistent s) :
    ∃ s', listFilteredL .fixed (healthy L n) iso lower glob f (sts.map (·.raw)) fuel s =
        (⟨expected (matchesF .fixed iso lower glob f) L sts, none⟩, s') ∧ Consistent s' := by
  obtain ⟨s', h, hc⟩ := listFilteredL_healthy .fixed L n iso lower glob f hn hL fuel hf
    (sts.map (fun st => (st.raw, st.comps))) (sts_hyp hsts) s hs
  rw [expected_eq] at h
  simp only [List.map_map] at h
  exact ⟨s', h, hc⟩

/-- … and what is handed out is, folder by folder, a rearrangement of the SPECIFICATION listing of that
    folder's subtree (`specAt`: document order, parent path = the folder's path from the drive root), each of
    which is a sub-listing of the complete listing of the drive: every entry returned is an entry of the complete
    listing with the same parent path — nothing outside the listed folders, nothing with a wrong path. -/
theorem C18_folders_exact (keep : FileMeta → Bool) (L : Lib) (st : Start) (h : st.Ok) :
    ((clientAt st.comps L).filter keep).Perm ((specAt st.comps L).filter keep) ∧
    (specAt st.comps L).Sublist (specListing [] L) ∧
    (∀ m, m ∈ (clientAt st.comps L).filter keep ↔ m ∈ specAt st.comps L ∧ keep m = true) := by
  have hp := (clientAt_perm st.comps L).filter keep
  refine ⟨hp, ?_, fun m => ?_⟩
  · rw [specAt_eq_subAt _ h.1]; exact subAt_sublist _ _ _
  · rw [hp.mem_iff, List.mem_filter]

/-- the folder a path denotes: components are followed from the drive root by NAME (first child with that name
    that is a file or a folder); the listing below it carries the path built as `_walk_drive_items` builds it -/
theorem C18_specAt_unfold (c : Str) (cs : List Str) (L : Lib) (hv : ValidComps (c :: cs)) :
    specAt (c :: cs) L =
      match firstNamed (fun nm => nm == c) L with
      | some (.folder _ k) => subAt cs c k
      | _ => [] := by
  rw [specAt_eq_subAt _ hv]; rfl

/-- no listed folder is an ancestor-or-equal of another one: component-wise prefix, NOT string prefix -/
abbrev Independent (sts : List Start) : Prop := Indep (sts.map (·.comps))

/- FULL STRENGTH (false, known finding folder_paths.duplicate):
     ∀ sts, every entry of the complete listing is handed out at most as often as it occurs there. -/

/-- EXACTLY ONCE (partial): if no listed folder is an ancestor of, or equal to, another one, then no entry is
    handed out more often than the complete matching listing contains it — no file node is delivered twice. -/
theorem C18_folders_once_partial (keep : FileMeta → Bool) (L : Lib) (sts : List Start) (hne : sts ≠ [])
    (hsts : ∀ st ∈ sts, st.Ok) (hi : Independent sts) (x : FileMeta) :
    (expected keep L sts).count x ≤ ((specListing [] L).filter keep).count x := by
  have hperm : (expected keep L sts).Perm ((sts.flatMap (fun st => specAt st.comps L)).filter keep) := by
    unfold expected
    simp only [hne, if_false]
    clear hi hsts hne
    induction sts with
    | nil => exact List.Perm.refl _
    | cons a r ih =>
      simp only [List.flatMap_cons, List.filter_append]
      exact List.Perm.append ((clientAt_perm a.comps L).filter keep) ih
  rw [hperm.count_eq]
  by_cases hk : keep x = true
  · rw [List.count_filter hk, List.count_filter hk]
    have := count_starts_le x L (sts.map (·.comps))
      (by intro cs hcs; rw [List.mem_map] at hcs; obtain ⟨st, hst, rfl⟩ := hcs; exact (hsts st hst).1) hi
    rwa [List.flatMap_map] at this
  · have : ∀ l : List FileMeta, (l.filter keep).count x = 0 := by
      intro l
      rw [List.count_eq_zero]
      intro hm
      exact hk (List.mem_filter.mp hm).2
    rw [this, this]
    exact Nat.le_refl _

/-- … hence, when the entries of the complete listing are pairwise different (unique item ids), so are the
    entries handed out -/
theorem C18_folders_nodup (keep : FileMeta → Bool) (L : Lib) (sts : List Start) (hne : sts ≠ [])
    (hsts : ∀ st ∈ sts, st.Ok) (hi : Independent sts) (hnd : (specListing [] L).Nodup) :
    (expected keep L sts).Nodup := by
  rw [List.nodup_iff_count]
  intro x
  exact Nat.le_trans (C18_folders_once_partial keep L sts hne hsts hi x)
    (List.nodup_iff_count.mp (hnd.filter keep) x)

/-- the hypothesis is exact: a folder listed together with itself or with a folder below it yields every entry
    of the lower one (at least) twice -/
theorem C18_folders_overlap_twice (L : Lib) (a d : List Str) (hv : ValidComps (a ++ d)) (x : FileMeta)
    (hx : x ∈ specAt (a ++ d) L) : 2 ≤ (specAt a L ++ specAt (a ++ d) L).count x := by
  have hva : ValidComps a := fun c hc => hv c (List.mem_append_left _ hc)
  rw [specAt_eq_subAt _ hva, specAt_eq_subAt _ hv] at *
  have h1 := List.Sublist.count_le x (subAt_prefix_sublist a d [] L)
  have h2 : 0 < (subAt (a ++ d) [] L).count x := List.count_pos_iff.mpr hx
  rw [List.count_append]
  omega

/-- SIBLINGS whose names are string prefixes of one another (`Reports` / `Reports-old`, `Q1` / `Q10`) are NOT
    related: paths that differ in some component are independent, whatever follows -/
theorem C18_siblings_independent (pre : List Str) (a b : Str) (x y : List Str) (h : a ≠ b) :
    Indep [pre ++ a :: x, pre ++ b :: y] := by
  unfold Indep
  refine List.pairwise_cons.mpr ⟨?_, List.pairwise_cons.mpr ⟨(by intro _ h; cases h), List.Pairwise.nil⟩⟩
  intro z hz
  simp only [List.mem_singleton] at hz
  subst hz
  constructor
  · intro hp
    rw [List.prefix_append_right_inj, List.cons_prefix_cons] at hp
    exact h hp.1
  · intro hp
    rw [List.prefix_append_right_inj, List.cons_prefix_cons] at hp
    exact h hp.1.symm

example : "Reports".toList <+: "Reports-old".toList ∧
    Indep ["Reports".toList :: [], "Reports-old".toList :: ["Q1".toList]] :=
  ⟨⟨"-old".toList, by decide⟩, C18_siblings_independent [] _ _ _ _ (by decide)⟩

/-! ## fault containment with start folders, for EVERY transport -/

/-- RESOURCES: every response opened has been closed, whatever the transport does and however the generator ends -/
theorem C18_folders_balanced (t : Transport) (iso lower glob) (f : Filter) (folders : List Str) (fuel : Nat)
    (s : St) (hs : Bal s) : Bal (listFilteredL .fixed t iso lower glob f folders fuel s).2 :=
  listFilteredL_bal .fixed rfl t iso lower glob f folders fuel s hs

/-- TRACE: every request made was answered normally or by a 404, except possibly the last one, and an error
    comes from the last request made -/
theorem C18_folders_trace (t : Transport) (iso lower glob) (f : Filter) (folders : List Str) (fuel : Nat) (s : St) :
    TrG t s.log (listFilteredL .fixed t iso lower glob f folders fuel s) :=
  listFilteredL_trG .fixed rfl iso lower glob f folders fuel s

/-- ERROR FAMILY -/
theorem C18_folders_family (t : Transport) (iso lower glob) (f : Filter) (folders : List Str) (fuel : Nat)
    (s : St) (e : Err) (h : (listFilteredL .fixed t iso lower glob f folders fuel s).1.err = some e) :
    e.family = true ∨ e = .outOfFuel := by
  obtain ⟨new, _, hr⟩ := C18_folders_trace t iso lower glob f folders fuel s
  unfold G.toR at hr
  simp only [h] at hr
  rcases hr with ⟨he, _⟩ | ⟨i, u, rest, _, _, hra⟩
  · exact Or.inr he
  · exact Or.inl hra.family

/-- the consumer `list(gen)` of the generator without start folders is the eager model the other C18 theorems
    are about; `list_all_files` is `list(...)` of the walk -/
theorem C18_lazy_is_eager (c : Cfg) (t : Transport) (iso lower glob) (f : Filter) (fuel : Nat) (s : St) :
    (listFilteredL c t iso lower glob f [] fuel s).toR = listFiltered c t iso lower glob f fuel s ∧
    (listAllL c t fuel s).toR = listAll c t fuel s := by
  constructor
  · unfold listFilteredL listFiltered
    cases getSiteId c t s with
    | mk r s1 =>
      cases r with
      | error e => rfl
      | ok site =>
        simp only [List.isEmpty_nil, if_true, walkAndFilterL]
        have h := walkL_toR c t site fuel none [] s1
        rcases hp : walkL c t site fuel none [] s1 with ⟨⟨o, e⟩, s2⟩
        rw [hp] at h
        cases e with
        | none => rw [toR_none] at h; rw [← h]; rfl
        | some e => rw [toR_some] at h; rw [← h]; rfl
  · unfold listAllL listAll
    cases getSiteId c t s with
    | mk r s1 =>
      cases r with
      | error e => rfl
      | ok site => exact walkL_toR c t site fuel none [] s1

/-- LAZY DELIVERY, any two transports: if `t` answers like `t'` except that its k-th answer is a failure other
    than a 404, then — from the same client state — the run against `t` either IS the run against `t'`, or it
    ends in an error after handing out a PREFIX of what the run against `t'` hands out. -/
theorem C18_lazy_prefix_partial (t' : Transport) (k : Nat) (o : Outcome) (ho : ¬ Fine o) (h404 : ¬ IsNotFound o)
    (iso lower glob) (f : Filter) (folders : List Str) (fuel : Nat) (s : St) :
    let g := listFilteredL .fixed (faultAt k o t') iso lower glob f folders fuel s
    let g' := listFilteredL .fixed t' iso lower glob f folders fuel s
    g = g' ∨ ((∃ e, g.1.err = some e) ∧ g.1.out <+: g'.1.out) := by
  intro g g'
  have := listFilteredL_rel (c := .fixed) (t := faultAt k o t') (t' := t') (k := k) rfl
    (by intro i u hi; simp [faultAt, hi])
    (by intro u; simp only [faultAt, if_true]; rintro (h | h); exact ho h; exact h404 h)
    iso lower glob f folders fuel s
  rcases this with h | ⟨⟨e, he, _⟩, hp⟩
  · exact Or.inl h
  · exact Or.inr ⟨⟨e, he⟩, hp⟩

private theorem fault_core' {α : Type} {t : Transport} {l l' : List (Nat × Url)} {r : Except Err α}
    (htr : Tr' t l r l') (k : Nat) (u : Url) (hbad : ¬ Fine' (t k u)) (hmade : (k, u) ∈ l') (hnew : (k, u) ∉ l) :
    ∃ e, r = .error e ∧ e.family = true ∧ Raised (t k u) u e ∧ ∃ rest, l' = (k, u) :: rest := by
  obtain ⟨new, hl, hr⟩ := htr
  have hin : (k, u) ∈ new := by
    rw [hl] at hmade
    rcases List.mem_append.mp hmade with h | h
    · exact h
    · exact absurd h hnew
  cases r with
  | ok a => exact absurd (hr _ hin) hbad
  | error e =>
    rcases hr with ⟨_, hf⟩ | ⟨i, u', rest, hn, hf, hra⟩
    · exact absurd (hf _ hin) hbad
    · rw [hn] at hin
      rcases List.mem_cons.mp hin with h | h
      · cases h
        exact ⟨e, rfl, hra.family, hra, rest ++ l, by rw [hl, hn]; rfl⟩
      · exact absurd (hf _ h) hbad

/- FULL STRENGTH (false, known finding fault.not-raised.folder-lookup-404): the same without `h404`. -/

/-- FAULT AT REQUEST k, with start folders (partial: any failing outcome `o` other than a 404).  If the run gets
    as far as request `k`, the generator raises an error of the client's family produced by that very request
    (status and URL for HTTPError / non-2xx, status `None` and URL for URLError), that request is the last one
    made, every opened response is closed, what was handed out BEFORE the error is a prefix of the complete
    fault-free listing (nothing wrong, nothing twice unless the complete listing has it twice), and calling
    again against the healthy server hands out the complete listing. -/
theorem C18_folders_fault_partial (iso : Str → Option Int) (lower : Str → Str) (glob : Str → Str → Bool)
    (f : Filter) (L : Lib) (n : Nat) (hn : 0 < n) (hL : resolves L L = true)
    (sts : List Start) (hsts : ∀ st ∈ sts, st.Ok)
    (k : Nat) (o : Outcome) (ho : ¬ Fine o) (h404 : ¬ IsNotFound o)
    (fuel : Nat) (hf : L.size + 2 ≤ fuel) (s : St) (hb : Bal s) (hs : Consistent s) (u : Url)
    (hmade : (k, u) ∈ (listFilteredL .fixed (faultAt k o (healthy L n)) iso lower glob f (sts.map (·.raw)) fuel s).2.log)
    (hnew : (k, u) ∉ s.log) :
    let g := listFilteredL .fixed (faultAt k o (healthy L n)) iso lower glob f (sts.map (·.raw)) fuel s
    ∃ e, g.1.err = some e ∧ e.family = true ∧ Raised o u e ∧
      (∀ code, o = .httpError code → e = .request (some code) u) ∧
      (o = .urlError → e = .request none u) ∧
      (∀ st b, o = .resp st b → ok2xx st = false → e = .request (some st) u) ∧
      (∃ rest, g.2.log = (k, u) :: rest) ∧ Bal g.2 ∧
      g.1.out <+: expected (matchesF .fixed iso lower glob f) L sts ∧
      ∀ fuel', L.size + 2 ≤ fuel' →
        ∃ s'', listFilteredL .fixed (healthy L n) iso lower glob f (sts.map (·.raw)) fuel' g.2 =
          (⟨expected (matchesF .fixed iso lower glob f) L sts, none⟩, s'') := by
  intro g
  have hto : faultAt k o (healthy L n) k u = o := by simp [faultAt]
  have hbad : ¬ Fine' o := by rintro (h | h); exact ho h; exact h404 h
  obtain ⟨e, he, hfam, hra, hlast⟩ :=
    fault_core' (C18_folders_trace (faultAt k o (healthy L n)) iso lower glob f (sts.map (·.raw)) fuel s) k u
      (by rw [hto]; exact hbad) hmade hnew
  rw [hto] at hra
  have herr : g.1.err = some e := by
    unfold G.toR at he
    simp only at he
    cases hge : g.1.err with
    | none => rw [show (listFilteredL .fixed (faultAt k o (healthy L n)) iso lower glob f (sts.map (·.raw)) fuel s).1.err
        = g.1.err from rfl, hge] at he; cases he
    | some e' => rw [show (listFilteredL .fixed (faultAt k o (healthy L n)) iso lower glob f (sts.map (·.raw)) fuel s).1.err
        = g.1.err from rfl, hge] at he; cases he; rfl
  obtain ⟨s', hh, _⟩ := C18_folders_complete iso lower glob f L n hn hL fuel hf sts hsts s hs
  refine ⟨e, herr, hfam, hra, ?_, ?_, ?_, hlast, C18_folders_balanced _ iso lower glob f _ fuel s hb, ?_, ?_⟩
  · intro code hc; subst hc; simpa [Raised] using hra
  · intro hc; subst hc; simpa [Raised] using hra
  · intro st b hc hst; subst hc; simpa [Raised, hst] using hra
  · rcases C18_lazy_prefix_partial (healthy L n) k o ho h404 iso lower glob f (sts.map (·.raw)) fuel s with h | ⟨_, hp⟩
    · have : g.1.err = none := by
        show (listFilteredL .fixed (faultAt k o (healthy L n)) iso lower glob f (sts.map (·.raw)) fuel s).1.err = none
        rw [h, hh]
      rw [herr] at this; cases this
    · rw [hh] at hp; exact hp
  · intro fuel' hf'
    obtain ⟨s'', h2, _⟩ := C18_folders_complete iso lower glob f L n hn hL fuel' hf' sts hsts g.2
      (listFilteredL_consistent .fixed rfl _ (siteHonest_faultAt L n k o ho) iso lower glob f _ fuel s hs)
    exact ⟨s'', h2⟩

/-- RETRY after ANY misbehaviour of the transport (any number of faults of any kind, 404s included) -/
theorem C18_folders_retry (iso lower glob) (f : Filter) (L : Lib) (n : Nat) (hn : 0 < n) (hL : resolves L L = true)
    (sts : List Start) (hsts : ∀ st ∈ sts, st.Ok) (t : Transport) (ht : SiteHonest t) (folders : List Str)
    (fuel : Nat) (s : St) (hs : Consistent s) (fuel' : Nat) (hf : L.size + 2 ≤ fuel') :
    ∃ s'', listFilteredL .fixed (healthy L n) iso lower glob f (sts.map (·.raw)) fuel'
        (listFilteredL .fixed t iso lower glob f folders fuel s).2 =
      (⟨expected (matchesF .fixed iso lower glob f) L sts, none⟩, s'') := by
  obtain ⟨s'', h2, _⟩ := C18_folders_complete iso lower glob f L n hn hL fuel' hf sts hsts _
    (listFilteredL_consistent .fixed rfl t ht iso lower glob f folders fuel s hs)
  exact ⟨s'', h2⟩

/-! ## non-vacuity and counterexamples -/

def exF (nm : String) : FileItem := ⟨nm.toList, ("ID" ++ nm).toList, some "2024-01-15T10:00:00Z".toList, some "2024-01-15T10:00:00Z".toList⟩

/-- root.txt, Docs/{d1.pdf, "My Reports 50%"/{r1.pdf, r2.txt}}, Other/{o1.pdf} — the library of the witnesses
    in `harness/props/c18.py::_folder_path_cases` -/
def exLib : Lib :=
  .file (exF "root.txt")
    (.folder "Docs".toList "FD".toList
      (.file (exF "d1.pdf") (.folder "My Reports 50%".toList "FR".toList (.file (exF "r1.pdf") (.file (exF "r2.txt") .nil)) .nil))
      (.folder "Other".toList "FO".toList (.file (exF "o1.pdf") .nil) .nil))

def stOther : Start := ⟨"/Other".toList, ["Other".toList]⟩
def stReports : Start := ⟨"Docs/My Reports 50%/".toList, ["Docs".toList, "My Reports 50%".toList]⟩
def stDocs : Start := ⟨"Docs".toList, ["Docs".toList]⟩

example : resolves exLib exLib = true ∧ exLib.size + 2 ≤ 12 := by decide +kernel
private theorem valid_of_all (cs : List Str) (h : cs.all (fun c => !c.isEmpty && !c.contains '/') = true) : ValidComps cs := by
  intro c hc
  have := List.all_eq_true.mp h c hc
  simp only [Bool.and_eq_true, Bool.not_eq_true', List.isEmpty_eq_false_iff, List.contains_eq_mem, decide_eq_false_iff_not] at this
  exact ⟨this.1, this.2⟩

example : stOther.Ok ∧ stReports.Ok ∧ stDocs.Ok :=
  ⟨⟨valid_of_all _ (by decide +kernel), by decide +kernel, fun h => by cases h⟩,
   ⟨valid_of_all _ (by decide +kernel), by decide +kernel, fun h => by cases h⟩,
   ⟨valid_of_all _ (by decide +kernel), by decide +kernel, fun h => by cases h⟩⟩
example : Independent [stOther, stReports] := C18_siblings_independent [] _ _ _ _ (by decide)
example : ¬ Independent [stDocs, stReports] := by
  intro h
  have hp : stDocs.comps <+: stReports.comps := ⟨["My Reports 50%".toList], by decide +kernel⟩
  have h2 : ¬ stDocs.comps <+: stReports.comps := ((List.pairwise_cons.mp h).1 stReports.comps (by simp)).1
  exact h2 hp

/-- the request sent for `Docs/My Reports 50%/` -/
example : quote (stripSlash stReports.raw) = "Docs/My%20Reports%2050%25".toList := by decide +kernel

/-- the run of the model on the example (page size 1): Other's file, then the two reports, with parent paths -/
example : (listFilteredL .fixed (healthy exLib 1) isoStrict asciiLower globMatch {} [stOther.raw, stReports.raw] 12 {}).1 =
    ⟨[parseFile "Other".toList (exF "o1.pdf"), parseFile "Docs/My Reports 50%".toList (exF "r1.pdf"),
      parseFile "Docs/My Reports 50%".toList (exF "r2.txt")], none⟩ := by decide +kernel

/-- COUNTEREXAMPLE (known finding folder_paths.duplicate): with `Docs` and `Docs/My Reports 50%` listed together
    the two reports are handed out twice although the library holds each once -/
theorem duplicate_counterexample :
    let out := (listFilteredL .fixed (healthy exLib 1) isoStrict asciiLower globMatch {} [stDocs.raw, stReports.raw] 12 {}).1.out
    out.count (parseFile "Docs/My Reports 50%".toList (exF "r1.pdf")) = 2 ∧
    (specListing [] exLib).count (parseFile "Docs/My Reports 50%".toList (exF "r1.pdf")) = 1 := by decide +kernel

/-- the fault hypotheses of `C18_folders_fault_partial` are satisfiable: request 3 (the lookup of the second start
    folder) answered by HTTP 503 — one file has been handed out before the error -/
example :
    let g := listFilteredL .fixed (faultAt 5 (.httpError 503) (healthy exLib 1)) isoStrict asciiLower globMatch {}
      [stOther.raw, stReports.raw] 12 {}
    g.1 = ⟨[parseFile "Other".toList (exF "o1.pdf")], some (.request (some 503) (.byPath srvSite "Docs/My%20Reports%2050%25".toList))⟩ ∧
    (5, Url.byPath srvSite "Docs/My%20Reports%2050%25".toList) ∈ g.2.log := by decide +kernel

example : ¬ IsNotFound (.httpError 503) ∧ ¬ IsNotFound .urlError ∧ ¬ IsNotFound (.resp 200 .nonObject) := by
  refine ⟨?_, ?_, ?_⟩ <;> rintro (h | ⟨b, h⟩) <;> cases h

/-- COUNTEREXAMPLE (known finding fault.not-raised.folder-lookup-404): HTTP 404 at request 2 (the lookup of the
    first start folder `Other`) — the generator ends WITHOUT an error, `o1.pdf` is missing, and what it handed
    out is not a prefix of the fault-free listing -/
theorem lookup_404_swallowed :
    let g := listFilteredL .fixed (faultAt 2 (.httpError 404) (healthy exLib 1)) isoStrict asciiLower globMatch {}
      [stOther.raw, stReports.raw] 12 {}
    let g' := listFilteredL .fixed (healthy exLib 1) isoStrict asciiLower globMatch {} [stOther.raw, stReports.raw] 12 {}
    g.1.err = none ∧ (2, Url.byPath srvSite "Other".toList) ∈ g.2.log ∧ ¬ Fine (.httpError 404) ∧
    g.1.out = [parseFile "Docs/My Reports 50%".toList (exF "r1.pdf"), parseFile "Docs/My Reports 50%".toList (exF "r2.txt")] ∧
    ¬ g.1.out <+: g'.1.out := by
  refine ⟨by decide +kernel, by decide +kernel, ?_, by decide +kernel, ?_⟩
  · rintro ⟨_, _, h, _⟩; cases h
  · intro h
    have h1 : (listFilteredL .fixed (faultAt 2 (.httpError 404) (healthy exLib 1)) isoStrict asciiLower globMatch {}
      [stOther.raw, stReports.raw] 12 {}).1.out = [parseFile "Docs/My Reports 50%".toList (exF "r1.pdf"), parseFile "Docs/My Reports 50%".toList (exF "r2.txt")] := by decide +kernel
    have h2 : (listFilteredL .fixed (healthy exLib 1) isoStrict asciiLower globMatch {} [stOther.raw, stReports.raw] 12 {}).1.out =
      [parseFile "Other".toList (exF "o1.pdf"), parseFile "Docs/My Reports 50%".toList (exF "r1.pdf"),
        parseFile "Docs/My Reports 50%".toList (exF "r2.txt")] := by decide +kernel
    rw [h1, h2] at h
    revert h
    decide +kernel

end S2T.C18.Folders
