import S2T.Props.C14_Resolve
/-!
# C14 (part 2) — "returned …, numbered 1..n in document order, on the right unit; none invented"

For every image loop of the extractors: the images returned are exactly the entries the anchors of the
document designate (through the OPC / ODF resolution of part 1), in document order, numbered 1..n without
gaps across the whole document, each attributed to the unit (slide / page / sheet) whose anchor produced it.
Quantifiers: every package `pkg : Str → Option Nat`, every list of units, every list of anchors.
-/
namespace S2T.C14.Loops
open S2T.Spec.Opc S2T.Images S2T.C14.Resolve

/-! ## the specification of a numbered extraction -/

/-- the property's answer for an embedded reference that designates `member`: the member's content, if the package has it -/
def embedded (pkg : Pkg) (member ref : Str) : Option Entry := (pkg member).map (fun id => (some id, ref))

/-- entries of a document in document order, tagged with the unit they sit on -/
def entriesOf {α} (cl : Nat → α → Option Entry) (unitOf : Nat → Option Nat) : Nat → List (List α) → List (Option Nat × Entry)
  | _, [] => []
  | k, u :: r => (u.filterMap (cl k)).map (fun e => (unitOf k, e)) ++ entriesOf cl unitOf (k + 1) r

/-- running numbers c+1, c+2, … -/
def numberFrom : Nat → List (Option Nat × Entry) → List Img
  | _, [] => []
  | c, (u, e) :: r => { number := c + 1, unit := u, content := e.1, ref := e.2 } :: numberFrom (c + 1) r

/-- per-unit view of the same entries -/
def perUnit {α} (cl : Nat → α → Option Entry) (unitOf : Nat → Option Nat) : Nat → List (List α) → List (List (Option Nat × Entry))
  | _, [] => []
  | k, u :: r => (u.filterMap (cl k)).map (fun e => (unitOf k, e)) :: perUnit cl unitOf (k + 1) r

theorem numberFrom_append (c : Nat) (a b : List (Option Nat × Entry)) :
    numberFrom c (a ++ b) = numberFrom c a ++ numberFrom (c + a.length) b := by
  induction a generalizing c with
  | nil => simp [numberFrom]
  | cons x r ih =>
    obtain ⟨u, e⟩ := x
    simp only [List.cons_append, numberFrom, ih, List.length_cons, List.cons.injEq, true_and]
    congr 2
    omega

/-- **numbers are 1..n**: a numbered list carries c+1 … c+n in order -/
theorem numberFrom_numbers (c : Nat) (l : List (Option Nat × Entry)) :
    (numberFrom c l).map (·.number) = List.range' (c + 1) l.length := by
  induction l generalizing c with
  | nil => simp [numberFrom]
  | cons x r ih =>
    obtain ⟨u, e⟩ := x
    simp [numberFrom, ih, List.range'_succ]

theorem numberFrom_length (c : Nat) (l : List (Option Nat × Entry)) : (numberFrom c l).length = l.length := by
  induction l generalizing c with
  | nil => simp [numberFrom]
  | cons x r ih => obtain ⟨u, e⟩ := x; simp [numberFrom, ih]

/-- numbering forgets nothing: unit, content and reference of the k-th entry are those of the k-th image -/
theorem numberFrom_data (c : Nat) (l : List (Option Nat × Entry)) :
    (numberFrom c l).map (fun im => (im.unit, im.content, im.ref)) = l.map (fun x => (x.1, x.2.1, x.2.2)) := by
  induction l generalizing c with
  | nil => simp [numberFrom]
  | cons x r ih => obtain ⟨u, e⟩ := x; simp [numberFrom, ih]

/-! ## the counter loops -/

theorem loopUnit_spec {α} (cl : α → Option Entry) (unit : Option Nat) (c : Nat) (as : List α) :
    loopUnit cl unit c as
      = (numberFrom c ((as.filterMap cl).map (fun e => (unit, e))), c + (as.filterMap cl).length) := by
  induction as generalizing c with
  | nil => simp [loopUnit, numberFrom]
  | cons a r ih =>
    unfold loopUnit
    cases h : cl a with
    | none => simp [h, ih]
    | some e =>
      obtain ⟨ct, rf⟩ := e
      simp only [h, ih, List.filterMap_cons, List.map_cons, numberFrom, List.length_cons, Prod.mk.injEq, true_and]
      omega

theorem loopDoc_spec {α} (cl : Nat → α → Option Entry) (unitOf : Nat → Option Nat) (k c : Nat) (units : List (List α)) :
    (loopDoc cl unitOf k c units).flatten = numberFrom c (entriesOf cl unitOf k units) := by
  induction units generalizing k c with
  | nil => simp [loopDoc, entriesOf, numberFrom]
  | cons u r ih =>
    simp only [loopDoc, loopUnit_spec, List.flatten_cons, entriesOf, numberFrom_append, ih, List.length_map]

/-- the counter advanced by `len(images)` is the counter returned by the inner loop -/
theorem loopDocByLen_eq {α} (cl : Nat → α → Option Entry) (unitOf : Nat → Option Nat) (k c : Nat) (units : List (List α)) :
    loopDocByLen cl unitOf k c units = loopDoc cl unitOf k c units := by
  induction units generalizing k c with
  | nil => simp [loopDoc, loopDocByLen]
  | cons u r ih =>
    simp only [loopDoc, loopDocByLen, loopUnit_spec, numberFrom_length, List.length_map, ih]

/-- **on the right unit**: unit i holds exactly the entries of its own anchors, in order, and says so -/
theorem loopDoc_units {α} (cl : Nat → α → Option Entry) (unitOf : Nat → Option Nat) (k c : Nat) (units : List (List α)) :
    (loopDoc cl unitOf k c units).map (fun l => l.map (fun im => (im.unit, im.content, im.ref)))
      = (perUnit cl unitOf k units).map (fun l => l.map (fun x => (x.1, x.2.1, x.2.2))) := by
  induction units generalizing k c with
  | nil => simp [loopDoc, perUnit]
  | cons u r ih =>
    simp only [loopDoc, loopUnit_spec, perUnit, List.map_cons, numberFrom_data, ih]

/-- **none invented**: every returned image is the entry of one of the document's anchors -/
theorem loopDoc_sound {α} (cl : Nat → α → Option Entry) (unitOf : Nat → Option Nat) (k c : Nat) (units : List (List α))
    (im : Img) (him : im ∈ (loopDoc cl unitOf k c units).flatten) :
    ∃ i a, units[i]? = some a ∧ ∃ x ∈ a, cl (k + i) x = some (im.content, im.ref) ∧ im.unit = unitOf (k + i) := by
  induction units generalizing k c with
  | nil => simp [loopDoc] at him
  | cons u r ih =>
    simp only [loopDoc, loopUnit_spec, List.flatten_cons, List.mem_append] at him
    rcases him with h | h
    · refine ⟨0, u, by simp, ?_⟩
      have : (im.unit, im.content, im.ref) ∈ ((u.filterMap (cl k)).map (fun e => (unitOf k, e))).map (fun x => (x.1, x.2.1, x.2.2)) := by
        rw [← numberFrom_data c]
        exact List.mem_map.mpr ⟨im, h, rfl⟩
      simp only [List.map_map, List.mem_map, List.mem_filterMap, Function.comp] at this
      obtain ⟨e, ⟨x, hx, hcl⟩, he⟩ := this
      simp only [Prod.mk.injEq] at he
      refine ⟨x, hx, ?_, by simp [he.1]⟩
      rw [Nat.add_zero, hcl, ← he.2.1, ← he.2.2]
    · obtain ⟨i, a, hi, x, hx, hcl, hu⟩ := ih (k + 1) _ h
      refine ⟨i + 1, a, by simpa using hi, x, hx, ?_, ?_⟩
      · rw [show k + (i + 1) = k + 1 + i by omega]; exact hcl
      · rw [show k + (i + 1) = k + 1 + i by omega]; exact hu

/-! ## PPTX -/

/-- what the property asks of a picture on slide `path` embedding the relationship target `t` -/
def pptxSpec (pkg : Pkg) (a : Str × Option Str) : Option Entry :=
  a.2.bind (fun t => embedded pkg (opcResolve (dirOf a.1) t) t)

theorem pptxClassify_eq (pkg : Pkg) : pptxClassify pkg = pptxSpec pkg := by
  funext a
  obtain ⟨p, t⟩ := a
  cases t <;> simp [pptxClassify, pptxSpec, readEntry, embedded, C14_opc_pptx]

/-- **C14 for PPTX** (after fix-01, fix-02): the pictures of all slides, in slide order then shape order, whose
    relationship target resolves (OPC) to a member of the package, with that member's content, numbered 1..n through
    the presentation, each on its slide. -/
theorem C14_pptx (pkg : Pkg) (slides : List (List (Str × Option Str))) :
    (pptxExtract pkg slides).flatten = numberFrom 0 (entriesOf (fun _ => pptxSpec pkg) some 1 slides) := by
  simp only [pptxExtract, loopDocByLen_eq, loopDoc_spec, pptxClassify_eq]

theorem C14_pptx_numbers (pkg : Pkg) (slides : List (List (Str × Option Str))) :
    (pptxExtract pkg slides).flatten.map (·.number) = List.range' 1 (pptxExtract pkg slides).flatten.length := by
  rw [C14_pptx, numberFrom_numbers, numberFrom_length]

theorem C14_pptx_units (pkg : Pkg) (slides : List (List (Str × Option Str))) :
    (pptxExtract pkg slides).map (fun l => l.map (fun im => (im.unit, im.content, im.ref)))
      = (perUnit (fun _ => pptxSpec pkg) some 1 slides).map (fun l => l.map (fun x => (x.1, x.2.1, x.2.2))) := by
  simp only [pptxExtract, loopDocByLen_eq, loopDoc_units, pptxClassify_eq]

/-- before fix-02 the numbers restarted on every slide: two slides with one picture each were numbered 1, 1.
    Full statement (false then): `(pptxExtractOld pkg slides).flatten.map number = range' 1 n`. -/
theorem pptx_old_counterexample_numbers :
    let pkg : Pkg := fun n => if n = "ppt/media/a.png".toList then some 7 else none
    let s : List (Str × Option Str) := [("ppt/slides/slide1.xml".toList, some "../media/a.png".toList)]
    (pptxExtractOld pkg [s, s]).flatten.map (·.number) = [1, 1] := by decide +kernel

/-- what did hold before the fix: numbers 1..n on each single slide -/
theorem pptx_old_partial (pkg : Pkg) (slide : List (Str × Option Str)) :
    (pptxExtractOld pkg [slide]).flatten = (pptxExtract pkg [slide]).flatten := by
  simp [pptxExtractOld, pptxExtract, loopDocRestart, loopDocByLen]

/-! ## PDF -/

/-- **C14 for PDF** (after fix-03): the image XObjects painted by the pages (pypdf's view of them is an assumption),
    in page order then paint order, numbered 1..n through the document, each on its page -/
theorem C14_pdf (pages : List (List (Nat × Str))) :
    (pdfExtract pages).flatten = numberFrom 0 (entriesOf (fun _ (a : Nat × Str) => some (some a.1, a.2)) some 1 pages) := by
  simp only [pdfExtract, loopDocByLen_eq, loopDoc_spec]
  rfl

theorem C14_pdf_numbers (pages : List (List (Nat × Str))) :
    (pdfExtract pages).flatten.map (·.number) = List.range' 1 (pdfExtract pages).flatten.length := by
  rw [C14_pdf, numberFrom_numbers, numberFrom_length]

theorem pdf_old_counterexample_numbers :
    (pdfExtractOld [[(5, [])], [(6, [])]]).flatten.map (·.number) = [1, 1] := by decide +kernel

/-! ## ODP / ODS -/

/-- what the property asks of a frame whose `draw:image` has `xlink:href = href`: an external link places no
    embedded file; an internal reference designates a member by ODF (= OPC from the package root) resolution -/
def odfSpec (pkg : Pkg) (href : Str) : Option Entry :=
  if href = [] ∨ isHttp href = true then none else embedded pkg (odfResolve href) href

/-- no anchor is an external link -/
def NoExternal (units : List (List Str)) : Prop := ∀ u ∈ units, ∀ h ∈ u, isHttp h = false

theorem odfClassify_eq (pkg : Pkg) (href : Str) (h : isHttp href = false) : odfClassify pkg href = odfSpec pkg href := by
  by_cases he : href = [] <;> simp [odfClassify, odfSpec, readEntry, embedded, he, h]

theorem filterMap_congr' {α β} (f g : α → Option β) (l : List α) (h : ∀ a ∈ l, f a = g a) :
    l.filterMap f = l.filterMap g := by
  induction l with
  | nil => rfl
  | cons a r ih =>
    simp only [List.filterMap_cons, h a (by simp)]
    rw [ih (fun x hx => h x (by simp [hx]))]

theorem entriesOf_congr {α} (f g : Nat → α → Option Entry) (unitOf : Nat → Option Nat) (k : Nat) (units : List (List α))
    (h : ∀ u ∈ units, ∀ a ∈ u, ∀ i, f i a = g i a) : entriesOf f unitOf k units = entriesOf g unitOf k units := by
  induction units generalizing k with
  | nil => rfl
  | cons u r ih =>
    simp only [entriesOf]
    rw [filterMap_congr' (f k) (g k) u (fun a ha => h u (by simp) a ha k), ih _ (fun u' hu' => h u' (by simp [hu']))]

/- Full statement (FALSE on the current code — open finding `odf.external-link-entry`):
     ∀ pkg slides, (odpExtract pkg slides).flatten = numberFrom 0 (entriesOf (fun _ => odfSpec pkg) some 1 slides)
   an `http…` href yields an image object without data, which the document does not contain. -/

/-- **C14 for ODP, partial**: for presentations without external picture links -/
theorem C14_odp_partial (pkg : Pkg) (slides : List (List Str)) (hne : NoExternal slides) :
    (odpExtract pkg slides).flatten = numberFrom 0 (entriesOf (fun _ => odfSpec pkg) some 1 slides) := by
  simp only [odpExtract, loopDoc_spec]
  rw [entriesOf_congr _ (fun _ => odfSpec pkg) _ _ _ (fun u hu a ha _ => odfClassify_eq pkg a (hne u hu a ha))]

/-- **C14 for ODS, partial** (after fix-04, fix-05); ODS images carry no unit number, the sheet is the list they are stored in -/
theorem C14_ods_partial (pkg : Pkg) (sheets : List (List Str)) (hne : NoExternal sheets) :
    (odsExtract pkg sheets).flatten = numberFrom 0 (entriesOf (fun _ => odfSpec pkg) (fun _ => none) 1 sheets) := by
  simp only [odsExtract, loopDoc_spec]
  rw [entriesOf_congr _ (fun _ => odfSpec pkg) _ _ _ (fun u hu a ha _ => odfClassify_eq pkg a (hne u hu a ha))]

/-- numbers are 1..n with or without external links (they count as returned entries) -/
theorem C14_odp_numbers (pkg : Pkg) (slides : List (List Str)) :
    (odpExtract pkg slides).flatten.map (·.number) = List.range' 1 (odpExtract pkg slides).flatten.length := by
  simp only [odpExtract, loopDoc_spec, numberFrom_numbers, numberFrom_length]

theorem C14_ods_numbers (pkg : Pkg) (sheets : List (List Str)) :
    (odsExtract pkg sheets).flatten.map (·.number) = List.range' 1 (odsExtract pkg sheets).flatten.length := by
  simp only [odsExtract, loopDoc_spec, numberFrom_numbers, numberFrom_length]

theorem C14_odp_units (pkg : Pkg) (slides : List (List Str)) :
    (odpExtract pkg slides).map (fun l => l.map (fun im => (im.unit, im.content, im.ref)))
      = (perUnit (fun _ => odfClassify pkg) some 1 slides).map (fun l => l.map (fun x => (x.1, x.2.1, x.2.2))) := by
  simp only [odpExtract, loopDoc_units]

example : NoExternal [["Pictures/a.png".toList], ["./Pictures/b.png".toList, "Pictures/a.png".toList]] := by
  intro u hu h hh
  simp at hu
  rcases hu with rfl | rfl <;> simp at hh <;> rcases hh with rfl | rfl <;> decide +kernel

/-- the open finding on the model: an external link comes back as an image without data -/
theorem odf_external_counterexample :
    (odpExtract (fun _ => none) [["http://x/y.png".toList]]).flatten
      = [{ number := 1, unit := some 1, content := none, ref := "http://x/y.png".toList }]
    ∧ numberFrom 0 (entriesOf (fun _ => odfSpec (fun _ => none)) some 1 [["http://x/y.png".toList]]) = [] := by
  decide +kernel

/-- before fix-04 a referenced-but-missing picture left a hole in the ODS numbers.
    Full statement (false then): `(odsExtractOld pkg 0 sheets).flatten.map number = range' 1 n`. -/
theorem ods_old_counterexample_gap :
    let pkg : Pkg := fun n => if n = "Pictures/a.png".toList then some 7 else none
    (odsExtractOld pkg 0 [["Pictures/a.png".toList, "Pictures/zz.png".toList, "Pictures/a.png".toList]]).flatten.map (·.number)
      = [1, 3] := by decide +kernel

/-! ## XLSX -/

def xlsxSpec (pkg : Pkg) (a : Str × Nat × Option Str) : Option Entry :=
  a.2.2.bind (fun t => embedded pkg (opcResolve (dirOf a.1) t) t)

theorem xlsxClassify_eq (pkg : Pkg) :
    (fun (_ : Nat) (a : Str × Nat × Option Str) => xlsxClassify pkg a.1 a.2) = fun _ => xlsxSpec pkg := by
  funext _ a
  obtain ⟨d, k, t⟩ := a
  cases t <;> simp [xlsxClassify, xlsxSpec, readEntry, embedded, C14_opc_xlsx_image]

/-- **C14 for XLSX** (after fix-01, fix-07): the pictures of every sheet's drawing in the order of the drawing part,
    resolved (OPC) against the drawing's directory, numbered 1..n through the workbook, stored on their sheet -/
theorem C14_xlsx (pkg : Pkg) (sheets : List (Option Str × List (Nat × Option Str))) :
    (xlsxExtract pkg sheets).flatten
      = numberFrom 0 (entriesOf (fun _ => xlsxSpec pkg) (fun _ => none) 1 (xlsxUnits pkg sheets)) := by
  simp only [xlsxExtract, loopDoc_spec, xlsxClassify_eq]

theorem C14_xlsx_numbers (pkg : Pkg) (sheets : List (Option Str × List (Nat × Option Str))) :
    (xlsxExtract pkg sheets).flatten.map (·.number) = List.range' 1 (xlsxExtract pkg sheets).flatten.length := by
  rw [C14_xlsx, numberFrom_numbers, numberFrom_length]

theorem C14_xlsx_units (pkg : Pkg) (sheets : List (Option Str × List (Nat × Option Str))) :
    (xlsxExtract pkg sheets).map (fun l => l.map (fun im => (im.unit, im.content, im.ref)))
      = (perUnit (fun _ => xlsxSpec pkg) (fun _ => none) 1 (xlsxUnits pkg sheets)).map (fun l => l.map (fun x => (x.1, x.2.1, x.2.2))) := by
  simp only [xlsxExtract, loopDoc_units, xlsxClassify_eq]

/-- before fix-07 the anchors were visited kind by kind (`ANCHOR_TYPES` order), not in the order of the drawing:
    a two-cell anchor followed by a one-cell anchor came back swapped -/
theorem xlsx_old_counterexample_order :
    let pkg : Pkg := fun n => if n = "xl/drawings/drawing1.xml".toList then some 1
      else if n = "xl/media/a.png".toList then some 7 else if n = "xl/media/b.png".toList then some 8 else none
    let sheet : Option Str × List (Nat × Option Str) :=
      (some "xl/drawings/drawing1.xml".toList, [(1, some "../media/a.png".toList), (0, some "../media/b.png".toList)])
    (xlsxExtractOld pkg [sheet]).flatten.map (·.content) = [some 8, some 7]
    ∧ (xlsxExtract pkg [sheet]).flatten.map (·.content) = [some 7, some 8] := by decide +kernel

/-- what did hold before: drawings whose anchors are all of one kind -/
theorem xlsx_old_partial (pkg : Pkg) (sheets : List (Option Str × List (Nat × Option Str))) (kind : Nat) (hk : kind < 3)
    (h : ∀ s ∈ sheets, ∀ a ∈ s.2, a.1 = kind) : xlsxExtractOld pkg sheets = xlsxExtract pkg sheets := by
  unfold xlsxExtractOld
  congr 1
  have hp : ∀ s ∈ sheets, xlsxPasses s.2 = s.2 := by
    intro s hs
    have ha := h s hs
    unfold xlsxPasses
    have hall : ∀ j, s.2.filter (fun a => decide (a.1 = j)) = if j = kind then s.2 else [] := by
      intro j
      split
      · rename_i hj
        rw [List.filter_eq_self]
        intro a haa; simp [ha a haa, hj]
      · rename_i hj
        rw [List.filter_eq_nil_iff]
        intro a haa; simp [ha a haa]; omega
    rw [hall 0, hall 1, hall 2]
    rcases (by omega : kind = 0 ∨ kind = 1 ∨ kind = 2) with rfl | rfl | rfl <;> simp
  calc sheets.map (fun s => (s.1, xlsxPasses s.2)) = sheets.map (fun s => (s.1, s.2)) :=
        List.map_congr_left (fun s hs => by rw [hp s hs])
    _ = sheets := by simp

example : ∀ s ∈ [((some "d".toList : Option Str), [((1 : Nat), (some "a".toList : Option Str)), (1, none)])], ∀ a ∈ s.2, a.1 = 1 := by
  decide +kernel

/-! ## DOCX -/

def docxSpec (pkg : Pkg) (rel : Str × Bool × Str) : Option Entry :=
  if rel.2.1 then embedded pkg (opcResolve "word".toList rel.2.2) rel.2.2 else none

theorem docxClassify_eq (pkg : Pkg) : docxClassify pkg = docxSpec pkg := by
  funext rel
  obtain ⟨i, b, t⟩ := rel
  cases b <;> simp [docxClassify, docxSpec, readEntry, embedded, C14_opc_docx]

/-- **C14 for DOCX** (after fix-01, fix-08): one image per image relationship of the main document part whose target
    resolves (OPC, against `word/`) to a member, with that member's content, numbered 1..n: first the relationships
    embedded by drawings of the body, in the order of their first drawing, then the image relationships no body
    paragraph embeds (pictures in tables, text boxes), in the order of the relationships part. -/
theorem C14_docx (pkg : Pkg) (rels : List (Str × Bool × Str)) (bodyIds : List Str) :
    docxExtract pkg rels bodyIds
      = numberFrom 0 (((bodyIds.filterMap (fun id => rels.find? (fun r => r.1 == id))
          ++ rels.filter (fun r => !bodyIds.contains r.1)).filterMap (docxSpec pkg)).map (fun e => (none, e))) := by
  simp [docxExtract, docxOrdered, loopUnit_spec, docxClassify_eq]

theorem C14_docx_numbers (pkg : Pkg) (rels : List (Str × Bool × Str)) (bodyIds : List Str) :
    (docxExtract pkg rels bodyIds).map (·.number) = List.range' 1 (docxExtract pkg rels bodyIds).length := by
  simp only [docxExtract, loopUnit_spec, numberFrom_numbers, numberFrom_length]

/-- when every image relationship is embedded by a body drawing, the images are exactly the body's, in body order -/
theorem C14_docx_body_order (pkg : Pkg) (rels : List (Str × Bool × Str)) (bodyIds : List Str)
    (hall : ∀ r ∈ rels, bodyIds.contains r.1 = true) :
    docxExtract pkg rels bodyIds
      = numberFrom 0 (((bodyIds.filterMap (fun id => rels.find? (fun r => r.1 == id))).filterMap (docxSpec pkg)).map (fun e => (none, e))) := by
  rw [C14_docx]
  have : rels.filter (fun r => !bodyIds.contains r.1) = [] := by
    rw [List.filter_eq_nil_iff]
    intro r hr
    have := hall r hr
    simp only [this, Bool.not_true, Bool.false_eq_true, not_false_eq_true]
  rw [this, List.append_nil]

example : ∀ r ∈ [("rId5".toList, true, "media/a.png".toList)], ["rId5".toList].contains r.1 = true := by decide +kernel

/-- before fix-08 the images came in the order of the relationships part, which Word does not write in body order.
    Full statement (false then): `docxExtractOld pkg rels = docxExtract pkg rels bodyIds`. -/
theorem docx_old_counterexample_order :
    let pkg : Pkg := fun n => if n = "word/media/a.png".toList then some 7 else if n = "word/media/b.png".toList then some 8 else none
    let rels : List (Str × Bool × Str) :=
      [("rId2".toList, true, "media/b.png".toList), ("rId9".toList, false, "styles.xml".toList), ("rId1".toList, true, "media/a.png".toList)]
    -- the body shows rId1 (a.png) then rId2 (b.png)
    (docxExtractOld pkg rels).map (·.content) = [some 8, some 7]
    ∧ (docxExtract pkg rels ["rId1".toList, "rId2".toList]).map (·.content) = [some 7, some 8] := by decide +kernel

/-- what did hold before: relationship parts already in body order -/
theorem docx_old_partial (pkg : Pkg) (rels : List (Str × Bool × Str)) (bodyIds : List Str)
    (h : docxOrdered rels bodyIds = rels) : docxExtractOld pkg rels = docxExtract pkg rels bodyIds := by
  simp [docxExtractOld, docxExtract, h]

example : docxOrdered [("rId1".toList, true, "media/a.png".toList), ("rId2".toList, true, "media/b.png".toList)] ["rId1".toList, "rId2".toList]
    = [("rId1".toList, true, "media/a.png".toList), ("rId2".toList, true, "media/b.png".toList)] := by decide +kernel

/-! ## EPUB -/

def epubSpec (pkg : Pkg) (dir : Str) (item : Bool × Str) : Option Entry :=
  if item.1 then embedded pkg (opcResolve dir item.2) item.2 else none

/-- **C14 for EPUB** (after fix-06): one image per manifest item with an `image/…` media type whose href, resolved
    against the directory of the OPF file, is a member; numbered 1..n in manifest order.  (Images are attributed
    to no chapter: `EpubImage.unit_index` stays `None`.) -/
theorem C14_epub (pkg : Pkg) (dir : Str) (items : List (Bool × Str)) :
    epubExtract pkg (dir ++ ['/']) items = numberFrom 0 ((items.filterMap (epubSpec pkg dir)).map (fun e => (none, e))) := by
  have : epubClassify pkg (dir ++ ['/']) = epubSpec pkg dir := by
    funext item
    obtain ⟨b, t⟩ := item
    cases b <;> simp [epubClassify, epubSpec, readEntry, embedded, C14_opc_epub]
  simp [epubExtract, loopUnit_spec, this]

theorem C14_epub_root (pkg : Pkg) (items : List (Bool × Str)) :
    epubExtract pkg [] items = numberFrom 0 ((items.filterMap (epubSpec pkg [])).map (fun e => (none, e))) := by
  have : epubClassify pkg [] = epubSpec pkg [] := by
    funext item
    obtain ⟨b, t⟩ := item
    cases b <;> simp [epubClassify, epubSpec, readEntry, embedded, C14_opc_epub_root]
  simp [epubExtract, loopUnit_spec, this]

theorem C14_epub_numbers (pkg : Pkg) (opfDir : Str) (items : List (Bool × Str)) :
    (epubExtract pkg opfDir items).map (·.number) = List.range' 1 (epubExtract pkg opfDir items).length := by
  simp [epubExtract, loopUnit_spec, numberFrom_numbers, numberFrom_length]

/-! ## ODT (frames without text box) and ODG: one image per distinct href -/

theorem dedupLoop_numbers (cl : Str → Option Entry) (seen : List Str) (c : Nat) (l : List Str) :
    (dedupLoop cl seen c l).map (·.number) = List.range' (c + 1) (dedupLoop cl seen c l).length := by
  induction l generalizing seen c with
  | nil => simp [dedupLoop]
  | cons h r ih =>
    unfold dedupLoop
    split
    · exact ih _ _
    · split
      · simp [ih, List.range'_succ]
      · exact ih _ _

/-- **none invented**: every image is the entry of an href of the document -/
theorem dedupLoop_sound (cl : Str → Option Entry) (seen : List Str) (c : Nat) (l : List Str) :
    ∀ im ∈ dedupLoop cl seen c l, ∃ h ∈ l, cl h = some (im.content, im.ref) ∧ im.unit = none := by
  induction l generalizing seen c with
  | nil => simp [dedupLoop]
  | cons h r ih =>
    unfold dedupLoop
    intro im him
    split at him
    · obtain ⟨x, hx, hc⟩ := ih _ _ im him; exact ⟨x, by simp [hx], hc⟩
    · split at him
      · rename_i ct rf hcl
        rcases List.mem_cons.mp him with rfl | him
        · exact ⟨h, by simp, by simp [hcl]⟩
        · obtain ⟨x, hx, hc⟩ := ih _ _ im him; exact ⟨x, by simp [hx], hc⟩
      · obtain ⟨x, hx, hc⟩ := ih _ _ im him; exact ⟨x, by simp [hx], hc⟩

/-- **every one returned**: an href that has an entry and was not already processed is in the result -/
theorem dedupLoop_complete (cl : Str → Option Entry) (seen : List Str) (c : Nat) (l : List Str)
    (h : Str) (hl : h ∈ l) (hs : h ∉ seen) (e : Entry) (he : cl h = some e) :
    ∃ im ∈ dedupLoop cl seen c l, im.content = e.1 ∧ im.ref = e.2 := by
  induction l generalizing seen c with
  | nil => simp at hl
  | cons x r ih =>
    unfold dedupLoop
    by_cases hx : x = h
    · subst hx
      have : seen.contains x = false := by simpa using hs
      obtain ⟨ct, rf⟩ := e
      simp only [this, Bool.false_eq_true, if_false, he]
      exact ⟨{ number := c + 1, unit := none, content := ct, ref := rf }, by simp, rfl, rfl⟩
    · have hr : h ∈ r := by rcases List.mem_cons.mp hl with h' | h'; exact absurd h'.symm hx; exact h'
      split
      · exact ih _ _ hr hs
      · split
        · obtain ⟨im, him, hc⟩ := ih (x :: seen) (c + 1) hr (by simp [hs]; exact fun h' => hx h'.symm)
          exact ⟨im, by simp [him], hc⟩
        · exact ih _ _ hr hs

/-- **C14 for ODT** (simple frames; after fix-05), partial for the same reason as ODP: without external links every image
    returned has the content of the member its href designates, and every designated member is returned (once per href) -/
theorem C14_odt_sound_partial (pkg : Pkg) (hrefs : List Str) (hne : ∀ h ∈ hrefs, isHttp h = false) :
    ∀ im ∈ odtExtract pkg hrefs, ∃ h ∈ hrefs, odfSpec pkg h = some (im.content, im.ref) := by
  intro im him
  obtain ⟨h, hh, hc, _⟩ := dedupLoop_sound _ _ _ _ im him
  exact ⟨h, hh, by rw [← odfClassify_eq pkg h (hne h hh)]; exact hc⟩

theorem C14_odt_complete (pkg : Pkg) (hrefs : List Str) (h : Str) (hh : h ∈ hrefs) (e : Entry) (he : odfSpec pkg h = some e) :
    ∃ im ∈ odtExtract pkg hrefs, im.content = e.1 ∧ im.ref = e.2 := by
  have hn : isHttp h = false := by
    cases hb : isHttp h with
    | false => rfl
    | true => simp [odfSpec, hb] at he
  exact dedupLoop_complete _ [] 0 hrefs h hh (by simp) e (by rw [odfClassify_eq pkg h hn]; exact he)

theorem C14_odt_numbers (pkg : Pkg) (hrefs : List Str) :
    (odtExtract pkg hrefs).map (·.number) = List.range' 1 (odtExtract pkg hrefs).length :=
  dedupLoop_numbers _ _ _ _

theorem C14_odg_numbers (pkg : Pkg) (hrefs : List Str) :
    (odgExtract pkg hrefs).map (·.number) = List.range' 1 (odgExtract pkg hrefs).length :=
  dedupLoop_numbers _ _ _ _

/- Full statement for ODG (FALSE — open findings `odf.external-link-entry`, `odg.missing-member-entry`):
     ∀ im ∈ odgExtract pkg hrefs, ∃ h ∈ hrefs, odfSpec pkg h = some (im.content, im.ref)
   a frame whose picture is not in the package still comes back as an image object without data. -/

/-- **C14 for ODG, partial**: when every referenced picture is a member of the package -/
theorem C14_odg_sound_partial (pkg : Pkg) (hrefs : List Str) (hne : ∀ h ∈ hrefs, isHttp h = false)
    (hall : ∀ h ∈ hrefs, h ≠ [] → (pkg (odfResolve h)).isSome) :
    ∀ im ∈ odgExtract pkg hrefs, ∃ h ∈ hrefs, odfSpec pkg h = some (im.content, im.ref) := by
  intro im him
  obtain ⟨h, hh, hc, _⟩ := dedupLoop_sound _ _ _ _ im him
  refine ⟨h, hh, ?_⟩
  by_cases he : h = []
  · simp [odgClassify, he] at hc
  · have := hall h hh he
    obtain ⟨id, hid⟩ := Option.isSome_iff_exists.mp this
    simp [odgClassify, he, hne h hh, hid] at hc
    obtain ⟨hc1, hc2⟩ := hc
    rw [← hc1, ← hc2]
    simp [odfSpec, he, hne h hh, embedded, hid]

theorem odg_missing_counterexample :
    odgExtract (fun _ => none) ["Pictures/zz.png".toList]
      = [{ number := 1, unit := none, content := none, ref := "Pictures/zz.png".toList }]
    ∧ odfSpec (fun _ => none) "Pictures/zz.png".toList = none := by decide +kernel

example : (∀ h ∈ ["Pictures/a.png".toList], isHttp h = false)
    ∧ (∀ h ∈ ["Pictures/a.png".toList], h ≠ [] → ((fun n => if n = "Pictures/a.png".toList then some 3 else none : Pkg) (odfResolve h)).isSome) := by
  decide +kernel

/-! ## RTF -/

theorem rtfLoop_numbers (c : Nat) (picts : List (Nat × Nat)) :
    (rtfLoop c picts).map (·.number) = List.range' (c + 1) picts.length := by
  induction picts generalizing c with
  | nil => simp [rtfLoop]
  | cons p r ih => simp [rtfLoop, ih, List.range'_succ]

/-- **C14 for RTF**: every `\\pict` group, in text order, numbered 1..n, on the page it starts on -/
theorem C14_rtf (picts : List (Nat × Nat)) :
    (rtfExtract picts).map (·.number) = List.range' 1 picts.length
    ∧ (rtfExtract picts).map (fun im => (im.unit, im.content)) = picts.map (fun p => (some p.1, some p.2)) := by
  refine ⟨rtfLoop_numbers 0 picts, ?_⟩
  unfold rtfExtract
  generalize 0 = c
  induction picts generalizing c with
  | nil => simp [rtfLoop]
  | cons p r ih => simp [rtfLoop, ih]

end S2T.C14.Loops
