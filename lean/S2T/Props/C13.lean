import S2T.Lemmas.TablesXml
import S2T.Lemmas.TablesSheet
import S2T.Lemmas.TablesOds
import S2T.Lemmas.TablesOdsExact
import S2T.Lemmas.TablesHtml
import S2T.Lemmas.TablesEpub
import S2T.Gen.Tables
import S2T.Gen.HtmlSkip
import S2T.Props.C13_Rtf
import S2T.Props.C13_RtfLayout
import S2T.Props.C13_Slide
import S2T.Props.C13_Src
import S2T.Props.C13_Xml
/-!
# C13 — tables come back with their shape and every cell in place

Statement (fixed): a table with r rows and c columns in the source (word-processing, presentation,
spreadsheet, HTML or EPUB) is returned by `iterate_tables()` as an r × c grid whose cell (i,j) holds
exactly the text or value of source cell (i,j); tables arrive in source order and none is lost,
merged with a neighbour or invented.  Typed spreadsheet values keep their value (numbers, booleans,
dates as ISO strings), and `get_dim()` reports (r, c).

How it is stated here.  A source document is an abstract value (`Blk`: paragraphs and tables, a
cell holding blocks again); `Blk.tables` is what the statement asks for: the tables in document
order, each as the grid of its own rows × its own cells, each cell the text of the paragraphs in
it.  `docxBody`, `odtBody`, `odpTableNode`, `pptxFrame` write such a value as the element tree
the format prescribes (with the usual property / grid / column children around); the theorems say
that the modelled walker applied to the written tree returns exactly `Blk.tables` — for every
document, every size, every nesting depth.  The tag names come from the source
(`S2T.Gen.Tables`), the side conditions on them are decidable and re-decided on every run.
-/
namespace S2T.C13
open S2T.Tables
open S2T.HtmlSkip (Str)

/-! ## the tie to the source: generated tag tables satisfy what the theorems need -/

theorem gen_notes_empty : S2T.Gen.Tables.notes = [] := by decide
theorem gen_ods_caps : S2T.Gen.Tables.odsCaps.cell > 0 ∧ S2T.Gen.Tables.odsCaps.row > 0 := by decide
theorem gen_docx_ok : S2T.Gen.Tables.docx.ok = true := by decide
theorem gen_odt_ok : S2T.Gen.Tables.odt.ok = true := by decide
theorem gen_odp_ok : S2T.Gen.Tables.odp.ok = true := by decide
theorem gen_pptx_ok : S2T.Gen.Tables.pptx.ok = true := by decide
theorem gen_html_ok : S2T.Gen.Tables.html.ok = true := by decide
theorem gen_epub_ok : S2T.Tables.Epub.usedTags.all (fun t => !S2T.Gen.HtmlSkip.epubTables.remove.contains t) = true := by decide

/-! ## what the spec value is (shape, cell (i,j), order) -/

/-- the grid of a table has the table's own rows and, in row i, that row's own cells; cell (i,j)
    is the text of source cell (i,j) -/
theorem C13_grid_shape {α : Type} (ct : List α → Str) (rows : Rows α) :
    (gridOf ct rows).length = rows.length ∧
    ∀ i j : Nat, ((gridOf ct rows)[i]?.bind (fun (row : List Str) => row[j]?)) =
      (rows[i]?.bind (fun (row : List (List (Blk α))) => row[j]?)).map (fun cell => ct (cellParas cell)) := by
  refine ⟨by simp [gridOf], ?_⟩
  intro i j
  simp only [gridOf, List.getElem?_map]
  cases rows[i]? with
  | none => rfl
  | some row => simp [List.getElem?_map]

/-- a table comes first, then the tables inside its cells, row by row and cell by cell: document order;
    none lost, none invented (one grid per source table) -/
theorem C13_order {α : Type} (ct : List α → Str) (h : Nat) (rows : Rows α) :
    Blk.tables ct (.tbl h rows) =
      gridOf ct rows :: rows.flatMap (fun row => row.flatMap (fun cell => cell.flatMap (Blk.tables ct))) :=
  tables_tbl ct h rows

/-! ## DOCX -/

/-- DOCX, every document (any number / size of tables, ragged rows, empty and multi-paragraph cells,
    adjacent tables, tables inside cells to any depth, header rows): `_extract_tables_from_context`
    returns exactly the document's tables. -/
theorem C13_grid_docx (T : DocxTags) (hT : T.ok = true) (doc : List (Blk DocxPara)) :
    docxTables T (docxBody T doc) = doc.flatMap (Blk.tables docxCellSpec) :=
  docx_tables T hT doc

theorem C13_grid_docx_gen (doc : List (Blk DocxPara)) :
    docxTables S2T.Gen.Tables.docx (docxBody S2T.Gen.Tables.docx doc) = doc.flatMap (Blk.tables docxCellSpec) :=
  docx_tables _ gen_docx_ok doc

example : ∃ doc : List (Blk DocxPara), (doc.flatMap (Blk.tables docxCellSpec)).length = 2 :=
  ⟨[.tbl 0 [[[.para ["a".toList], .tbl 0 [[[.para ["x".toList]]]]], []]]], by decide⟩

/-! ## ODT -/

/-- ODT, every document whose tables have at least one row and whose rows have at least one cell
    (tables 1..R × 1..C; the extractor drops cell-less rows and row-less tables by design):
    `_extract_tables` returns exactly the document's tables, nested ones included, header rows
    (`table:table-header-rows`) in place. -/
theorem C13_grid_odt (T : OdfTags) (hT : T.ok = true) (doc : List (Blk OdfPara)) (hp : doc.all Blk.proper = true) :
    odtTables T (odtBody T doc) = doc.flatMap (Blk.tables odfCellSpec) :=
  odt_tables T hT doc hp

theorem C13_grid_odt_gen (doc : List (Blk OdfPara)) (hp : doc.all Blk.proper = true) :
    odtTables S2T.Gen.Tables.odt (odtBody S2T.Gen.Tables.odt doc) = doc.flatMap (Blk.tables odfCellSpec) :=
  odt_tables _ gen_odt_ok doc hp

example : ([.tbl 1 [[[.para ⟨"a".toList, [.tab "b".toList]⟩, .tbl 0 [[[.para ⟨[], []⟩]]]], []], [[]]]] : List (Blk OdfPara)).all Blk.proper = true := by
  decide

/-! ## ODP -/

/-- ODP, every table with non-empty rows: `_extract_table` returns it (header rows first, as written) -/
theorem C13_grid_odp (T : OdfTags) (hT : T.ok = true) (t : OdpTable) (hne : t.2.all (fun row => !row.isEmpty) = true) :
    odpTable T (odpTableNode T t) = t.2.map (fun row => row.map odfCellSpec) :=
  odp_table T hT t hne

theorem C13_grid_odp_gen (t : OdpTable) (hne : t.2.all (fun row => !row.isEmpty) = true) :
    odpTable S2T.Gen.Tables.odp (odpTableNode S2T.Gen.Tables.odp t) = t.2.map (fun row => row.map odfCellSpec) :=
  odp_table _ gen_odp_ok t hne

example : ((1, [[[⟨"h".toList, []⟩]], [[⟨"a".toList, []⟩, ⟨"b".toList, []⟩]]]) : OdpTable).2.all (fun row => !row.isEmpty) = true := by decide

/-! ## PPTX

Full statement (false on the current code, kept visible):
  `pptxFrameTable T (pptxFrame T t) = some (t.map (fun row => row.map pptxCellSpec))`
The extractor strips the cell text (`.strip()`), so a cell whose text starts or ends with white
space (a leading space, a trailing empty paragraph, a trailing `<a:br/>`) comes back shorter.
Open known finding `pptx.cell-outer-whitespace-stripped`. -/

/-- what the code does, for every table: shape and placement exact, each cell text stripped -/
theorem C13_grid_pptx_stripped (T : PptxTags) (hT : T.ok = true) (t : PptxTable) :
    pptxFrameTable T (pptxFrame T t) = some (t.map (fun row => row.map (fun cell => pyStrip (pptxCellSpec cell)))) :=
  pptx_frame T hT t

/-- every cell text without outer white space -/
def PptxTrimmed (t : PptxTable) : Prop := ∀ row ∈ t, ∀ cell ∈ row, pyStrip (pptxCellSpec cell) = pptxCellSpec cell

theorem C13_grid_pptx_partial (T : PptxTags) (hT : T.ok = true) (t : PptxTable) (ht : PptxTrimmed t) :
    pptxFrameTable T (pptxFrame T t) = some (t.map (fun row => row.map pptxCellSpec)) := by
  rw [pptx_frame T hT t]
  congr 1
  apply List.map_congr_left
  intro row hrow
  apply List.map_congr_left
  intro cell hcell
  exact ht row hrow cell hcell

theorem C13_grid_pptx_gen (t : PptxTable) (ht : PptxTrimmed t) :
    pptxFrameTable S2T.Gen.Tables.pptx (pptxFrame S2T.Gen.Tables.pptx t) = some (t.map (fun row => row.map pptxCellSpec)) :=
  C13_grid_pptx_partial _ gen_pptx_ok t ht

example : PptxTrimmed [[[[.run "a b".toList, .br, .field "1".toList], [.run "x".toList]], []]] := by
  intro row hrow cell hcell
  simp only [List.mem_cons, List.not_mem_nil, or_false] at hrow
  subst hrow
  simp only [List.mem_cons, List.not_mem_nil, or_false] at hcell
  rcases hcell with rfl | rfl <;> decide

/-- counterexample to the full statement: the cell " a" comes back as "a" -/
theorem C13_pptx_counterexample :
    pptxFrameTable S2T.Gen.Tables.pptx (pptxFrame S2T.Gen.Tables.pptx [[[[.run " a".toList]]]]) = some [["a".toList]]
    ∧ pptxCellSpec [[.run " a".toList]] = " a".toList := by
  constructor
  · rw [pptx_frame _ gen_pptx_ok]; decide
  · decide

/-! ## get_dim -/

/-- `get_dim()` of an r × c table (r ≥ 1) is (r, c) — the same function for TableData, XlsxSheet,
    OdsSheet, OdtTable, RtfTable and (through `get_table()`) XlsSheet -/
theorem C13_dim {α : Type} (data : List (List α)) (c : Nat) (hne : data ≠ []) (h : ∀ row ∈ data, row.length = c) :
    getDim data = (data.length, c) :=
  getDim_rect data c hne h

/-- ragged tables: the row count and the longest row -/
theorem C13_dim_ragged {α : Type} (data : List (List α)) :
    (getDim data).1 = data.length ∧ (∀ row ∈ data, row.length ≤ (getDim data).2) :=
  ⟨rfl, (foldl_max_ge data 0).2⟩

example : ([[1, 2, 3], [4, 5, 6]] : List (List Nat)) ≠ [] ∧ ∀ row ∈ ([[1, 2, 3], [4, 5, 6]] : List (List Nat)), row.length = 3 := by
  decide

/-! ## XLSX

Full statement (false on the current code, kept visible):
  `Xlsx.sheetData rows strOf = (Xlsx.usedRange rows).map (fun row => row.map Xlsx.getCellValue)`
A first row with exactly one meaningful cell in a sheet wider than one column is taken for a table
name and dropped (`_is_table_name_row`; pinned by the library's own test on
`empty_row_columns.xlsx`).  Open known finding `xlsx.single-value-first-row-dropped`. -/

/-- XLSX, every row list openpyxl can hand over: unless the first used row is taken for a table
    name, the sheet's table is its used range (rows up to the last row with data, columns up to the
    last column with data), cell by cell through `_get_cell_value` -/
theorem C13_xlsx_partial (rows : VGrid) (strOf : Nat → Str)
    (hname : ∀ first rest, Xlsx.usedRange rows = first :: rest → Xlsx.isTableNameRow (Xlsx.headersOf first strOf) = false) :
    Xlsx.sheetData rows strOf = (Xlsx.usedRange rows).map (fun row => row.map Xlsx.getCellValue) :=
  Xlsx.sheetData_eq rows strOf hname

/-- an r × c grid with data in its last row and last column is its own used range, so it comes back r × c -/
theorem C13_xlsx_tight (g : VGrid) (c : Nat) (strOf : Nat → Str) (hne : g ≠ []) (hrect : ∀ row ∈ g, row.length = c)
    (hrow : (g.getLast hne).any Xlsx.isCellNonEmpty = true)
    (hcol : ∃ row ∈ g, ∃ hr : row ≠ [], Xlsx.isCellNonEmpty (row.getLast hr) = true)
    (hname : ∀ first rest, g = first :: rest → Xlsx.isTableNameRow (Xlsx.headersOf first strOf) = false) :
    Xlsx.sheetData g strOf = g.map (fun row => row.map Xlsx.getCellValue) := by
  have hu := Xlsx.usedRange_tight g c hne hrect hrow hcol
  have := C13_xlsx_partial g strOf (by rw [hu]; exact hname)
  rw [hu] at this
  exact this

/-- typed values keep their value; dates and times become their ISO string -/
theorem C13_xlsx_typed :
    (∀ i, Xlsx.getCellValue (.int i) = .int i) ∧ (∀ r, Xlsx.getCellValue (.flt r) = .flt r) ∧
    (∀ b, Xlsx.getCellValue (.bool b) = .bool b) ∧ (∀ s, Xlsx.getCellValue (.str s) = .str s) ∧
    (∀ iso, Xlsx.getCellValue (.dt iso) = .str iso) ∧ Xlsx.getCellValue .none = .none :=
  Xlsx.getCellValue_typed

/-! Stored rows of DIFFERENT lengths (a worksheet part without `<dimension>` whose rows store different numbers of
cells: openpyxl's read-only reader then yields tuples of different lengths).  With fix `xlsx-ragged-rows` short rows are
filled up, so the used range is a rectangle for EVERY row list; before it the table came back ragged (a row shorter
than `get_dim().columns`, an empty stored row as `[]`). -/

/-- XLSX, any stored row lengths: the used range is r × c with r = the last row holding a value and c = the last column
    holding a value in one of these rows -/
theorem C13_xlsx_rect (rows : VGrid) :
    (Xlsx.usedRange rows).length = Xlsx.findLastDataRow rows ∧
    ∀ row ∈ Xlsx.usedRange rows, row.length = Xlsx.findLastDataColumn (rows.take (Xlsx.findLastDataRow rows)) :=
  ⟨Xlsx.usedRange_length rows, Xlsx.usedRange_rect rows⟩

/-- … cell (i, j) of it is the stored cell (i, j) — an empty cell where row i stores fewer than j + 1 cells -/
theorem C13_xlsx_cell_at (rows : VGrid) (i j : Nat) (hi : i < Xlsx.findLastDataRow rows)
    (hj : j < Xlsx.findLastDataColumn (rows.take (Xlsx.findLastDataRow rows))) :
    ((Xlsx.usedRange rows)[i]?.bind (fun row => row[j]?)) = some ((rows[i]?.bind (fun row => row[j]?)).getD Val.none) :=
  Xlsx.usedRange_cell rows i j hi hj

/-- … and no stored value is lost or moved: a non-empty stored cell (i, j) is cell (i, j) of the used range, however
    short the other rows are (the column count is the maximum over the rows, not what the shortest row allows) -/
theorem C13_xlsx_none_lost (rows : VGrid) (i j : Nat) (row : List Val) (v : Val) (hr : rows[i]? = some row)
    (hv : row[j]? = some v) (hne : Xlsx.isCellNonEmpty v = true) :
    ((Xlsx.usedRange rows)[i]?.bind (fun row => row[j]?)) = some v := by
  obtain ⟨hi, hj⟩ := Xlsx.nonEmpty_inside rows i j row v hr hv hne
  rw [Xlsx.usedRange_cell rows i j hi hj, hr]
  simp [hv]

/-- the range is tight: its last row holds a value, and unless it has no column some row holds a value in the last one -/
theorem C13_xlsx_tight_ragged (rows : VGrid) (h : 0 < Xlsx.findLastDataColumn (rows.take (Xlsx.findLastDataRow rows))) :
    ∃ row ∈ rows.take (Xlsx.findLastDataRow rows),
      Xlsx.lastIdx Xlsx.isCellNonEmpty row = Xlsx.findLastDataColumn (rows.take (Xlsx.findLastDataRow rows)) := by
  rcases Xlsx.findLastDataColumn_attained (rows.take (Xlsx.findLastDataRow rows)) 0 with h0 | h1
  · unfold Xlsx.findLastDataColumn at h; omega
  · exact h1

/-- the code BEFORE fix `xlsx-ragged-rows` (`rows = [row[:last_col] for row in rows]`, nothing filled up): stored rows of
    4 and 2 cells and a stored row without cells came back as rows of 4, 2 and 0 cells — not a 4-column grid, and
    shorter than `get_dim().columns` = 4 (fixed known finding `xlsx.ragged-rows-not-rectangular`) -/
theorem C13_xlsx_legacy_ragged_counterexample :
    let rows : VGrid := [[.str "id".toList, .str "name".toList, .str "qty".toList, .str "ok".toList],
      [.int 1, .str "apple".toList], [], [.int 2, .none, .none, .bool true]]
    (rows.take (Xlsx.findLastDataRow rows)).map (fun row => row.take (Xlsx.findLastDataColumn (rows.take (Xlsx.findLastDataRow rows))))
      = [[.str "id".toList, .str "name".toList, .str "qty".toList, .str "ok".toList], [.int 1, .str "apple".toList], [],
         [.int 2, .none, .none, .bool true]]
    ∧ Xlsx.usedRange rows
      = [[.str "id".toList, .str "name".toList, .str "qty".toList, .str "ok".toList], [.int 1, .str "apple".toList, .none, .none],
         [.none, .none, .none, .none], [.int 2, .none, .none, .bool true]] := by
  constructor <;> decide

/-- stored rows of 4, 2, 4, 3 and 0 cells (trailing empty cells not stored) and a trailing stored row without values:
    a 4 × 4 table, every value in place -/
example :
    Xlsx.sheetData [[.str "id".toList, .str "name".toList, .str "qty".toList, .str "ok".toList],
        [.int 1, .str "apple".toList], [.int 2, .str "pear".toList, .flt "12.5".toList, .bool true],
        [.int 3, .str "plum".toList, .int 7], []] (fun _ => [])
      = [[.str "id".toList, .str "name".toList, .str "qty".toList, .str "ok".toList],
        [.int 1, .str "apple".toList, .none, .none], [.int 2, .str "pear".toList, .flt "12.5".toList, .bool true],
        [.int 3, .str "plum".toList, .int 7, .none]] := by decide

example : ∃ (g : VGrid) (hne : g ≠ []), (g.getLast hne).any Xlsx.isCellNonEmpty = true
    ∧ Xlsx.isTableNameRow (Xlsx.headersOf (g.head hne) (fun _ => "1".toList)) = false :=
  ⟨[[.int 1, .none, .dt "2024-01-02".toList], [.none, .str "x".toList, .bool true]], by decide, by decide, by decide⟩

/-- counterexample to the full statement: the 2 × 2 sheet [["Title", None], [1, 2]] comes back 1 × 2 -/
theorem C13_xlsx_counterexample :
    Xlsx.sheetData [[.str "Title".toList, .none], [.int 1, .int 2]] (fun _ => []) = [[.int 1, .int 2]]
    ∧ Xlsx.usedRange [[.str "Title".toList, .none], [.int 1, .int 2]] = [[.str "Title".toList, .none], [.int 1, .int 2]] := by
  constructor <;> decide

/-! ## ODS (`_extract_sheet`: repeat expansion with capped empty runs, trimming, padding)

The source sheet is the plain expansion `Ods.expand` of the run-length encoded rows and cells
(`number-rows-repeated`, `number-columns-repeated`); the typed value of a cell is
`_extract_cell_value`'s answer (a parameter here).  `Ods.Caps` are the two literals of the source
(`cell_repeat > 100`, `row_repeat > 100`, generated).

Full statement (false on the current code, kept visible):
  theorem C13_ods_cells (rows : List Ods.RRow) (i j : Nat) :
      Ods.cellAt (Ods.sheetData C rows) i j = Ods.cellAt (Ods.expand rows) i j
An empty cell repeated more than 100 times is collapsed to one empty cell and a row without data
repeated more than 100 times to one row, so everything behind such a run moves left / up.  A repair
that kept the width of a gap in front of a value (f0cc6e0) was withdrawn (d8d5030): it let a 600-byte
sheet allocate tens of gigabytes (C12).  Open known finding `ods.empty-repeat-shifts-cells`. -/

/-- the exact excluding hypothesis (`C13_ods_gap_exact`): no collapsed run of empty cells has a value
    behind it in its row, and no collapsed run of rows without data has a row with data below it
    (trailing runs — what spreadsheet programs write to fill the sheet — are allowed) -/
def NoWideGap (C : Ods.Caps) (rows : List Ods.RRow) : Prop := Ods.noGapRows C rows = true

instance (C : Ods.Caps) (rows : List Ods.RRow) : Decidable (NoWideGap C rows) := by unfold NoWideGap; infer_instance

/-- ODS, every sheet without a wide gap in front of data (any repeats otherwise): the cell at (i, j) of
    the returned table is the source cell at (i, j), and wherever the returned table has no cell the
    source sheet is empty -/
theorem C13_ods_cells_partial (C : Ods.Caps) (rows : List Ods.RRow) (h : NoWideGap C rows) (i j : Nat) :
    Ods.cellAt (Ods.sheetData C rows) i j = Ods.cellAt (Ods.expand rows) i j :=
  Ods.sheetData_cells C rows h i j

/-- ODS, shape: without a wide gap in front of data the returned table IS the used range of the source sheet —
    the plain expansion cut after the last row holding data (`trimRows`) and after the last column holding
    data (`lastDataCol`), shorter rows padded with empty cells: r × c, no row or column lost or invented -/
theorem C13_ods_table_partial (C : Ods.Caps) (rows : List Ods.RRow) (h : NoWideGap C rows) :
    Ods.sheetData C rows =
      (Ods.trimRows (Ods.expand rows)).map (Ods.padRow (Ods.lastDataCol (Ods.trimRows (Ods.expand rows)))) :=
  Ods.sheetData_usedRange C rows h

/-- the hypothesis is exact (for caps ≥ 1): every cell is in place if and only if there is no wide gap in front
    of data — with one, some cell of the returned table differs from the source cell at the same position -/
theorem C13_ods_gap_exact (C : Ods.Caps) (hcell : C.cell > 0) (hrow : C.row > 0) (rows : List Ods.RRow) :
    NoWideGap C rows ↔ ∀ i j, Ods.cellAt (Ods.sheetData C rows) i j = Ods.cellAt (Ods.expand rows) i j :=
  Ods.sheetData_cells_iff C hcell hrow rows

/-- … for the two caps read from the current source -/
theorem C13_ods_gap_exact_gen (rows : List Ods.RRow) :
    NoWideGap S2T.Gen.Tables.odsCaps rows ↔
      ∀ i j, Ods.cellAt (Ods.sheetData S2T.Gen.Tables.odsCaps rows) i j = Ods.cellAt (Ods.expand rows) i j :=
  C13_ods_gap_exact _ gen_ods_caps.1 gen_ods_caps.2 rows

/-- the returned table is always an r × c rectangle that ends at the last row and the last column *of
    the collected rows* holding data.  (Full statement `C13_ods_shape`: "… of the source sheet"; it follows
    from this and `C13_ods_cells_partial` under `NoWideGap`, and fails without it:
    `C13_ods_counterexample`.) -/
theorem C13_ods_shape_partial (C : Ods.Caps) (rows : List Ods.RRow) :
    (∃ w, (∀ row ∈ Ods.sheetData C rows, row.length = w) ∧
      (w > 0 → Ods.sheetData C rows ≠ [] → ∃ row ∈ Ods.sheetData C rows, Ods.getV row (w - 1) ≠ Val.none)) ∧
    (∀ row, (Ods.sheetData C rows).getLast? = some row → row.all (· == Val.none) = false) := by
  rw [Ods.sheetData_eq]
  obtain ⟨w, hw⟩ := Ods.sheetOf_rect (Ods.rawRows C rows)
  exact ⟨⟨w, hw, fun h1 h2 => Ods.sheetOf_last_col _ w h1 hw h2⟩, fun row h => Ods.sheetOf_last_row _ row h⟩

/-- a sheet as LibreOffice writes it (values, a short gap, then 1000 empty columns and 1 000 000 empty
    rows to fill the sheet) has no wide gap in front of data -/
example : NoWideGap S2T.Gen.Tables.odsCaps
    [(1, [(1, .str "a".toList), (100, .none), (2, .int 7), (1000, .none)]), (100, [(1003, .none)]),
     (1, [(1, .bool true), (1002, .none)]), (1000000, [(1003, .none)])] := by
  unfold NoWideGap; decide +kernel

/-- the counterexample sheet below has a wide gap in front of data -/
example : ¬ NoWideGap S2T.Gen.Tables.odsCaps
    [(1, [(1, .str "a".toList), (150, .none), (1, .str "b".toList)]), (120, [(152, .none)]), (1, [(1, .str "c".toList)])] := by
  decide +kernel

/-- counterexample to the full statement — row [a, empty × 150, b], empty row × 120, row [c]: the sheet
    is 122 × 152 with b at (0, 151) and c at (121, 0); it comes back 3 × 3 with b at (0, 2) and c at (2, 0) -/
theorem C13_ods_counterexample :
    Ods.sheetData S2T.Gen.Tables.odsCaps
        [(1, [(1, .str "a".toList), (150, .none), (1, .str "b".toList)]), (120, [(152, .none)]), (1, [(1, .str "c".toList)])]
      = [[.str "a".toList, .none, .str "b".toList], [.none, .none, .none], [.str "c".toList, .none, .none]]
    ∧ Ods.cellAt (Ods.expand [(1, [(1, .str "a".toList), (150, .none), (1, .str "b".toList)]), (120, [(152, .none)]),
        (1, [(1, .str "c".toList)])]) 0 151 = .str "b".toList
    ∧ Ods.cellAt (Ods.expand [(1, [(1, .str "a".toList), (150, .none), (1, .str "b".toList)]), (120, [(152, .none)]),
        (1, [(1, .str "c".toList)])]) 121 0 = .str "c".toList := by
  refine ⟨by decide +kernel, by decide +kernel, by decide +kernel⟩

/-! ## XLS

Full statement (false on the current code, kept visible):
  `Xls.getTable (Xls.sheetData (first :: rest)) = first.map (Val.str ·.hdr) :: rest.map (·.map (·.native))`
`XlsSheet.data` is a list of dicts keyed by the header texts: two columns with the same header text
(or two empty headers) collide, and a sheet with a header row only has no dict to take the headers
from.  Open known findings `xls.duplicate-header-collision`, `xls.header-only-sheet-empty`. -/

theorem C13_xls_partial (first : List Xls.Cell) (rest : List (List Xls.Cell)) (hne : rest ≠ [])
    (hnd : (first.map (·.hdr)).Nodup) (hlen : ∀ row ∈ rest, row.length = first.length) :
    Xls.getTable (Xls.sheetData (first :: rest)) =
      (first.map (fun c => Val.str c.hdr)) :: rest.map (fun row => row.map (·.native)) :=
  Xls.getTable_sheetData first rest hne hnd hlen

example : (([⟨.str "a".toList, "a".toList⟩, ⟨.int 1, "1".toList⟩] : List Xls.Cell).map (·.hdr)).Nodup := by decide

/-- two columns headed "a": the first column's values are lost, the table is 2 × 1 instead of 2 × 2 -/
theorem C13_xls_counterexample_duplicate :
    Xls.getTable (Xls.sheetData [[⟨.str "a".toList, "a".toList⟩, ⟨.str "a".toList, "a".toList⟩], [⟨.int 1, "1".toList⟩, ⟨.int 2, "2".toList⟩]])
      = [[.str "a".toList], [.int 2]] := by decide

/-- a sheet with a header row only comes back empty -/
theorem C13_xls_counterexample_header_only :
    Xls.getTable (Xls.sheetData [[⟨.str "a".toList, "a".toList⟩, ⟨.str "b".toList, "b".toList⟩]]) = [] := by decide

/-! ## HTML (`_HtmlTextExtractor` on the tree `_HtmlTreeBuilder` builds)

`Blk.htables`: the page's tables in document order (a table, then the tables inside its cells), each
as its own rows × its own cells; the text of a cell is its content with the paragraphs, rows and cells
inside it kept apart and white space normalised (`hcellText`). -/

/-- HTML, every written page whose table rows have at least one cell (nesting to any depth, header
    rows in `<thead>`, inline markup inside paragraphs): `extract()` registers exactly the page's tables -/
theorem C13_grid_html (H : HtmlTags) (hH : H.ok = true) (doc : List (Blk HPara)) (hp : doc.all Blk.rowsProper = true) :
    htmlTables H (htmlRoot doc) = doc.flatMap Blk.htables :=
  html_tables H hH doc hp

theorem C13_grid_html_gen (doc : List (Blk HPara)) (hp : doc.all Blk.rowsProper = true) :
    htmlTables S2T.Gen.Tables.html (htmlRoot doc) = doc.flatMap Blk.htables :=
  html_tables _ gen_html_ok doc hp

/-- a table comes first, then the tables inside its cells -/
theorem C13_html_order (h : Nat) (rows : Rows HPara) :
    Blk.htables (.tbl h rows) = rows.map (fun row => row.map hcellText) ::
      rows.flatMap (fun row => row.flatMap (fun cell => cell.flatMap Blk.htables)) :=
  htables_tbl h rows

example : ([.tbl 1 [[[.para ⟨"a".toList, [("b".toList, "c".toList)]⟩, .tbl 0 [[[.para ⟨"x".toList, []⟩], []]]]], [[]]]] : List (Blk HPara)).all
    Blk.rowsProper = true := by decide

/-- two paragraphs in a cell stay two words; a nested table's cells stay apart inside the outer cell -/
example : hcellText [.para ⟨"a".toList, []⟩, .para ⟨" b ".toList, [("c".toList, [])]⟩] = "a b c".toList
    ∧ hcellText [.para ⟨"A".toList, []⟩, .tbl 0 [[[.para ⟨"x".toList, []⟩], [.para ⟨"y".toList, []⟩]]]] = "A x y".toList := by
  decide

/-! ## EPUB (`_XhtmlTextExtractor`, the event machine modelled in `S2T.Model.HtmlSkip`)

Full statement (false on the current code, kept visible): the tables collected for the handler calls
of a written chapter are the chapter's tables, nested ones included, each cell the words of its
paragraphs.  Two open known findings: `epub.nested-table-lost` (one current table only: a table
inside a cell resets it, the enclosing table is never returned) and
`epub.cell-inline-markup-spaced` (the text chunks of a cell are joined with a space). -/

/-- EPUB, every written chapter without tables inside cells and with one text chunk per paragraph
    (tables 1..R × 1..C, header rows in `<thead>` with `<th>` cells, multi-paragraph and empty cells):
    after the handler calls of the chapter — passed through the skip gate of C17 — the collected
    tables are the chapter's tables in order, each cell the words of its paragraphs -/
theorem C13_grid_epub_partial (T : S2T.HtmlSkip.Tables) (block : List Str)
    (hT : S2T.Tables.Epub.usedTags.all (fun t => !T.remove.contains t) = true)
    (doc : List S2T.Tables.Epub.EBlk) (hp : doc.all S2T.Tables.Epub.EBlk.proper = true) :
    (S2T.HtmlSkip.run T (S2T.HtmlSkip.Epub.down block) (S2T.HtmlSkip.init S2T.HtmlSkip.Epub.initState)
      (S2T.Tables.Epub.chapterEvents doc)).down.tables = doc.flatMap S2T.Tables.Epub.EBlk.tables :=
  S2T.Tables.Epub.tables_chapter T block hT doc hp

example : ([.para "t".toList, .tbl (1, [[["h".toList]], [["a".toList, "b".toList], []]])] : List S2T.Tables.Epub.EBlk).all
    S2T.Tables.Epub.EBlk.proper = true := by decide

/-- tables collected by the EPUB machine for a sequence of handler calls (tables generated from the source) -/
def epubTablesOf (evs : List S2T.HtmlSkip.Ev) : List Grid :=
  (S2T.HtmlSkip.run S2T.Gen.HtmlSkip.epubTables (S2T.HtmlSkip.Epub.down S2T.Gen.HtmlSkip.epubBlock)
    (S2T.HtmlSkip.init S2T.HtmlSkip.Epub.initState) evs).down.tables

private def op (t : String) : S2T.HtmlSkip.Ev := .start t.toList []
private def cl (t : String) : S2T.HtmlSkip.Ev := .end_ t.toList
private def tx (t : String) : S2T.HtmlSkip.Ev := .data t.toList

/-- `<table><tr><td><p>A</p><table><tr><td>x</td><td>y</td></tr></table></td><td>B</td></tr></table>`:
    only the inner table comes back -/
theorem C13_epub_counterexample_nested :
    epubTablesOf [op "table", op "tr", op "td", op "p", tx "A", cl "p",
        op "table", op "tr", op "td", tx "x", cl "td", op "td", tx "y", cl "td", cl "tr", cl "table",
      cl "td", op "td", tx "B", cl "td", cl "tr", cl "table"] = [[["x".toList, "y".toList]]] := by decide +kernel

/-- `<td>H<b>2</b>O</td>` comes back as "H 2 O" -/
theorem C13_epub_counterexample_inline :
    epubTablesOf [op "table", op "tr", op "td", tx "H", op "b", tx "2", cl "b", tx "O", cl "td", cl "tr", cl "table"]
      = [[["H 2 O".toList]]] := by decide +kernel

theorem C13_grid_epub_gen (doc : List S2T.Tables.Epub.EBlk) (hp : doc.all S2T.Tables.Epub.EBlk.proper = true) :
    epubTablesOf (S2T.Tables.Epub.chapterEvents doc) = doc.flatMap S2T.Tables.Epub.EBlk.tables :=
  S2T.Tables.Epub.tables_chapter _ _ gen_epub_ok doc hp

end S2T.C13
