import S2T.Lemmas.Loops
/-!
# C12 — evaluations of the loop models on the amplifying witnesses

Kept in a file of their own that imports no generated module, so these (slow) kernel evaluations are
not repeated when the source changes.  The same witnesses are replayed on the real code by
`harness/props/c12.py:known_witnesses`, which compares the real iteration counts with these numbers.
-/
namespace S2T.C12.Witness
open S2T.Loops

theorem pngCarve_amplifier_15 :
    (pngAmplifier 15 15).length = 424 ∧ (pngCarve (pngAmplifier 15 15) 0).2.2 = 240 := by decide +kernel

/-- twice the input, four times the work -/
theorem pngCarve_amplifier_30 :
    (pngAmplifier 30 30).length = 844 ∧ (pngCarve (pngAmplifier 30 30) 0).2.2 = 930 := by decide +kernel

theorem slideList_nest_20 :
    (pptNest 20).length = 160 ∧ slideListCost 4080 (pptNest 20) = (210, 10640) := by decide +kernel

/-- twice the input: four times the iterations, eight times the bytes copied -/
theorem slideList_nest_40 :
    (pptNest 40).length = 320 ∧ slideListCost 4080 (pptNest 40) = (820, 85280) := by decide +kernel

end S2T.C12.Witness
