import S2T.Lemmas.SevenZipHeader
import S2T.Gen.SevenZip
/-!
# C10, part "Header" — the 7z header a standard packer writes parses to the reader state the layout theorems start from

`S2T/Spec/SevenZipWriter.lean` specifies the bytes of the header block (`writeHeader L`) and of the whole file
(`archive crc L body`) for an abstract layout `L` (folders with one coder COPY / LZMA / LZMA2 each, the entries
listed while each folder is current, trailing directories / empty files, option flags).  The theorems below run
the MODEL of the library's parser (`S2T/Model/SevenZip.lean`: `SevenZipReader.__init__`) on those bytes, for
EVERY well-formed layout (any number of folders and entries, any sizes < 2^64, any storable names).

`crc` (zlib.crc32 in the library, bitwise CRC-32 in the driver) is a parameter with `crc x < 2^32`.

Two defects of the library surfaced while proving; both are repaired (`fix:` commits) and the model is of the
repaired code.  The previous parser is kept as the `legacy` variant of the model; for it the full statement is
false, which the two `*_legacy_counterexample` theorems show (witnesses replayed on the real code every run):
* `7z.substream-digests-with-folder-crc` (fix-7z-substream-digest-count): with folder CRCs stored, a folder holding
  one file has no SubStreamsInfo digest (7zFormat.txt: "digests for streams with unknown CRC"); the previous reader
  expected one per substream and rejected the archive when single-file and multi-file folders were mixed.
* `7z.attributes-external-byte-not-read` (fix-7z-attributes-external-byte): the previous `_parse_files_info` did not
  consume the `External` byte of the attributes property, so every attribute was read one byte early (`seenAttrs`)
  and a regular file could be listed as a directory.
-/
namespace S2T.C10.Header
open S2T.SevenZip
open S2T.Spec.SevenZipWriter hiding Bytes

private theorem gen_ids : S2T.Gen.SevenZip.ids = specIds := by decide

/-! ## a well-formed, non-trivial layout -/

def eDir : EntrySpec := { name := [100], isDir := true, size := 0, attrib := 0x10 }
def eA : EntrySpec := { name := [97, 46, 116, 120, 116], isDir := false, size := 300, attrib := 0x20, crc := 0xDEADBEEF }
def eEmpty : EntrySpec := { name := [101], isDir := false, size := 0, attrib := 0x20 }
def eB : EntrySpec := { name := [0x1F600, 46, 109, 100], isDir := false, size := 2 ^ 40, attrib := 0x20, mtime := 7 }   -- 😀.md
def eC : EntrySpec := { name := [99], isDir := false, size := 1, attrib := 0x20 }

/-- LZMA folder {d/, a.txt, e (empty), 😀.md} + COPY folder {c}, a trailing directory; NumUnpackStream, substream
    sizes, pack CRCs, MTime, attributes and 3 bytes of kDummy padding are written -/
def exLayout : Layout :=
  { folders := [{ method := .lzma [93, 0, 0, 1, 0], packSize := 70000, entries := [eDir, eA, eEmpty, eB] },
                { method := .copy, packSize := 1, entries := [eC] }],
    tail := [eDir],
    opts := { packCrc := true, mtime := true, dummy := 3 } }

example : WellFormed exLayout := by decide

/-! ## the round trip -/

/-- header block, for the repaired reader and for the previous one (`known` / `ext` = false) -/
private theorem block_round_trip (L : Layout) (hwf : WellFormed L) (known ext : Bool) (hd : DigestsOk known L)
    (c : Codec) (file : Bytes) :
    parseEndHeader S2T.Gen.SevenZip.ids { fixed with digestsKnown := known, attrExternal := ext } c file
        { stream := writeHeader L } = .ok ((), stateOfV ext L) := by
  rw [gen_ids]
  have hf := wf_foldersOk hwf
  have hm := parseMainHeader_write L hf known ext hd (wf_entriesOk hwf)
  obtain ⟨t, ht⟩ : ∃ t, writeHeader L = 1 :: t := ⟨_, rfl⟩
  rw [ht] at hm ⊢
  simp only [List.tail_cons] at hm
  unfold parseEndHeader
  simp [bind, StateT.bind, Except.bind, readU8, ids_kEncodedHeader, ids_kHeader, hm]

/-- **Header block round trip** (`_parse_end_header` on the header block).  For EVERY well-formed layout, parsing
    the bytes `writeHeader L` with the model of the library's parser consumes them all and yields exactly
    `stateOf L` (attributes as written, one folder per folder of the layout with its coder, sizes and CRC). -/
theorem header_block_round_trip (L : Layout) (hwf : WellFormed L) (c : Codec) (file : Bytes) :
    parseEndHeader S2T.Gen.SevenZip.ids fixed c file { stream := writeHeader L } = .ok ((), stateOf L) :=
  block_round_trip L hwf true true (digestsOk_fixed L) c file

private theorem leValue_le_small (k n : Nat) (h : n < 256 ^ k) : leValue (le k n) = n := by
  rw [leValue_le, Nat.mod_eq_of_lt h]

private theorem file_round_trip (crc : Bytes → Nat) (hcrc : ∀ x, crc x < 2 ^ 32) (c : Codec) (v : Variant) (st : R)
    (L : Layout) (body : Bytes)
    (hb : parseEndHeader specIds v c (archive crc L body) { stream := writeHeader L } = .ok ((), st))
    (hfit : 32 + body.length < 2 ^ 63 ∧ (writeHeader L).length < 2 ^ 63) :
    parseHeader specIds v crc c (archive crc L body) = .ok st := by
  generalize hH : writeHeader L = H at hb hfit
  have hsf : (startFields crc body.length H).length = 20 := by simp [startFields, le_length]
  have e1 : leValue (le 4 (crc (startFields crc body.length H))) = crc (startFields crc body.length H) :=
    leValue_le_small 4 _ (hcrc _)
  have e2 : leValue (le 8 body.length) = body.length := leValue_le_small 8 _ (by omega)
  have e3 : leValue (le 8 H.length) = H.length := leValue_le_small 8 _ (by omega)
  have e4 : leValue (le 4 (crc H)) = crc H := leValue_le_small 4 _ (hcrc _)
  -- the file, cut at the offsets the reader uses
  have hfile : archive crc L body = magic ++ ([0, 4] ++ (le 4 (crc (startFields crc body.length H))
      ++ (le 8 body.length ++ (le 8 H.length ++ (le 4 (crc H) ++ (body ++ H)))))) := by
    simp [archive, startHeader, startFields, hH]
  have hlen : (archive crc L body).length = 32 + body.length + H.length := by
    rw [hfile]; simp [magic, le_length]; omega
  have t6 : (archive crc L body).take 6 = specIds.magic := by rw [hfile]; rfl
  have g6 : (archive crc L body).getD 6 0 = 0 := by rw [hfile]; rfl
  have g7 : (archive crc L body).getD 7 0 = 4 := by rw [hfile]; rfl
  have d8 : ((archive crc L body).drop 8).take 4 = le 4 (crc (startFields crc body.length H)) := by
    rw [hfile]
    simp only [magic, List.cons_append, List.nil_append, List.drop_succ_cons, List.drop_zero]
    exact List.take_left' (le_length 4 _)
  have d12 : (archive crc L body).drop 12 = le 8 body.length ++ (le 8 H.length ++ (le 4 (crc H) ++ (body ++ H))) := by
    rw [hfile]
    have : (magic ++ ([0, 4] ++ le 4 (crc (startFields crc body.length H)))).length = 12 := by simp [magic, le_length]
    rw [show magic ++ ([0, 4] ++ (le 4 (crc (startFields crc body.length H)) ++ (le 8 body.length ++ (le 8 H.length ++ (le 4 (crc H) ++ (body ++ H))))))
        = (magic ++ ([0, 4] ++ le 4 (crc (startFields crc body.length H)))) ++ (le 8 body.length ++ (le 8 H.length ++ (le 4 (crc H) ++ (body ++ H)))) by simp]
    exact List.drop_left' this
  have d12t8 : ((archive crc L body).drop 12).take 8 = le 8 body.length := by
    rw [d12]; exact List.take_left' (le_length 8 _)
  have d12t20 : ((archive crc L body).drop 12).take 20 = startFields crc body.length H := by
    rw [d12]
    rw [show le 8 body.length ++ (le 8 H.length ++ (le 4 (crc H) ++ (body ++ H))) = startFields crc body.length H ++ (body ++ H) by
      simp [startFields]]
    exact List.take_left' hsf
  have d20 : ((archive crc L body).drop 20).take 8 = le 8 H.length := by
    rw [show (20 : Nat) = 12 + 8 from rfl, ← List.drop_drop, d12, List.drop_left' (le_length 8 _)]
    exact List.take_left' (le_length 8 _)
  have d28 : ((archive crc L body).drop 28).take 4 = le 4 (crc H) := by
    rw [show (28 : Nat) = 12 + (8 + 8) from rfl, ← List.drop_drop, d12, ← List.drop_drop, List.drop_left' (le_length 8 _),
      List.drop_left' (le_length 8 _)]
    exact List.take_left' (le_length 4 _)
  have dH : ((archive crc L body).drop (headerOffset + body.length)).take H.length = H := by
    rw [show headerOffset + body.length = 12 + (8 + (8 + (4 + body.length))) by simp [headerOffset]; omega, ← List.drop_drop, d12,
      ← List.drop_drop, List.drop_left' (le_length 8 _), ← List.drop_drop, List.drop_left' (le_length 8 _), ← List.drop_drop,
      List.drop_left' (le_length 4 _), List.drop_left' rfl]
    simp
  unfold parseHeader
  simp only [hlen, t6, g6, g7, d8, d12t8, d12t20, d20, d28, e1, e2, e3, e4, dH]
  have n1 : ¬ (32 + body.length + H.length < 6 ∨ specIds.magic ≠ specIds.magic) := by simp; omega
  have n2 : ¬ (32 + body.length + H.length < 8) := by omega
  have n3 : ¬ ((0 : Nat) ≠ 0 ∨ 4 > 4) := by simp
  have n4 : ¬ (32 + body.length + H.length < 32) := by omega
  have n5 : ¬ (headerOffset + body.length ≥ 2 ^ 63 ∨ H.length ≥ 2 ^ 63) := by simp [headerOffset]; omega
  rw [if_neg n1, if_neg n2, if_neg n3, if_neg n4]
  simp only [ne_eq, not_true_eq_false, if_false]
  rw [if_neg n5]
  simp only [hb]

/-- **Whole-file round trip** (`SevenZipReader.__init__`), for EVERY well-formed layout.  The file = 32-byte start
    header (signature, version, two CRCs, offset and size of the header block) ++ `body` (the pack streams; any
    bytes) ++ `writeHeader L`.  The model of the library's reader accepts it and ends in exactly `stateOf L`.
    `hfit`: positions the reader hands to `BytesIO.seek/read` fit a C `ssize_t` (else the real reader raises
    `OverflowError`). -/
theorem header_round_trip (crc : Bytes → Nat) (hcrc : ∀ x, crc x < 2 ^ 32) (c : Codec)
    (L : Layout) (hwf : WellFormed L) (body : Bytes)
    (hfit : 32 + body.length < 2 ^ 63 ∧ (writeHeader L).length < 2 ^ 63) :
    parseHeader S2T.Gen.SevenZip.ids fixed crc c (archive crc L body) = .ok (stateOf L) := by
  have hb := header_block_round_trip L hwf c (archive crc L body)
  rw [gen_ids] at hb ⊢
  exact file_round_trip crc hcrc c fixed _ L body hb hfit

/-- the PREVIOUS reader (`legacy`): the round trip held only under the excluding hypothesis `hmix`, and ended in
    `stateOfV false L`, the state with the attributes read one byte early -/
theorem header_round_trip_legacy_partial (crc : Bytes → Nat) (hcrc : ∀ x, crc x < 2 ^ 32) (c : Codec)
    (L : Layout) (hwf : WellFormed L) (hmix : mixedWithFolderCrc L = false) (body : Bytes)
    (hfit : 32 + body.length < 2 ^ 63 ∧ (writeHeader L).length < 2 ^ 63) :
    parseHeader S2T.Gen.SevenZip.ids legacy crc c (archive crc L body) = .ok (stateOfV false L) := by
  have hd := digestsOk_legacy L (digestsAgree_of_not_mixed L (wf_foldersOk hwf).count1 hmix)
  have hb := block_round_trip L hwf false false hd c (archive crc L body)
  rw [gen_ids] at hb ⊢
  exact file_round_trip crc hcrc c legacy _ L body hb hfit

/-! ## what `stateOf` says, on the example -/

/-- the example layout is listed as packed: names (😀 re-joined from its surrogate pair), kinds, sizes, folder of
    each file; folder 0 holds 2 substreams (LZMA, its 5 property bytes), folder 1 one (COPY) -/
example :
    (stateOf exLayout).files.map (fun f => (f.filename, f.isDirectory, f.uncompressed, f.folderIndex))
      = [([100], true, 0, 0), ([97, 46, 116, 120, 116], false, 300, 0), ([101], false, 0, 0),
         ([0x1F600, 46, 109, 100], false, 2 ^ 40, 0), ([99], false, 1, 1), ([100], true, 0, 0)]
    ∧ (stateOf exLayout).folders.map (fun f => (f.coders, f.unpackSizes, f.numStreams))
      = [([⟨[3, 1, 1], some [93, 0, 0, 1, 0]⟩], [300 + 2 ^ 40], 2), ([⟨[0], none⟩], [1], 1)]
    ∧ (stateOf exLayout).packSizes = [70000, 1] ∧ (stateOf exLayout).packPositions = [32]
    ∧ (stateOf exLayout).fileSizes = [300, 2 ^ 40, 1] ∧ (stateOf exLayout).emptyFileIdx = [2]
    ∧ (stateOf exLayout).folderToFiles = [(0, [1, 3]), (1, [4])] := by
  decide

/-! ## counterexamples for the previous parser (`legacy`) -/

def fA : EntrySpec := { name := [97], isDir := false, size := 5, attrib := 0x20 }
def fB : EntrySpec := { name := [98], isDir := false, size := 6, attrib := 0x20 }
def fC : EntrySpec := { name := [99], isDir := false, size := 7, attrib := 0x20 }

/-- folder CRCs stored; folder 0 = {a}, folder 1 = {b, c} (COPY) -/
def mixedLayout : Layout :=
  { folders := [{ method := .copy, packSize := 5, entries := [fA] }, { method := .copy, packSize := 13, entries := [fB, fC] }],
    tail := [], opts := { folderCrc := true } }

/-- **counterexample (previous `_parse_substreams_info`, defect `7z.substream-digests-with-folder-crc`)**: a
    well-formed layout that stores folder CRCs and mixes a single-file folder with a multi-file one was REJECTED: the
    writer stores two SubStreamsInfo digests (for b and c; a's CRC is the folder's), the previous reader read three
    and then found `kName` where it expected `kEnd`.  The repaired reader accepts it (`header_block_round_trip`).
    Full statement, false for the previous code: `header_round_trip_legacy_partial` without `hmix`. -/
theorem header_mixed_folder_crc_legacy_counterexample :
    WellFormed mixedLayout ∧ mixedWithFolderCrc mixedLayout = true
    ∧ parseEndHeader specIds legacy ⟨fun _ _ => none, fun _ _ _ => none⟩ [] { stream := writeHeader mixedLayout }
        = .error (.bad7z "Expected END in substreams info")
    ∧ parseEndHeader S2T.Gen.SevenZip.ids fixed ⟨fun _ _ => none, fun _ _ _ => none⟩ [] { stream := writeHeader mixedLayout }
        = .ok ((), stateOf mixedLayout) := by
  refine ⟨by decide, by decide, ?_, header_block_round_trip mixedLayout (by decide) _ _⟩
  decide +kernel

/-- x carries an attribute with bit 28 set, y is an ordinary file after it -/
def shiftLayout : Layout :=
  { folders := [{ method := .copy, packSize := 3,
                  entries := [{ name := [120], isDir := false, size := 1, attrib := 0x10000020 },
                              { name := [121], isDir := false, size := 2, attrib := 0x20 }] }],
    tail := [] }

/-- **counterexample (previous `_parse_files_info`, defect `7z.attributes-external-byte-not-read`)**: the previous
    reader took the attributes one byte early, so y's attribute was read as 0x2010 (low byte = x's high byte 0x10):
    y — a regular 2-byte file — was listed as a DIRECTORY of size 0 and never extracted.  The repaired reader lists
    both files with the attributes that were written (0x10000020 and 0x20). -/
theorem header_attribute_shift_legacy_counterexample (crc : Bytes → Nat) (hcrc : ∀ x, crc x < 2 ^ 32) (c : Codec) (body : Bytes)
    (hb : body.length = 3) :
    parseHeader S2T.Gen.SevenZip.ids legacy crc c (archive crc shiftLayout body) = .ok (stateOfV false shiftLayout)
    ∧ (stateOfV false shiftLayout).files.map (fun f => (f.filename, f.isDirectory, f.uncompressed, f.attributes))
        = [([120], false, 1, 0x2000), ([121], true, 0, 0x2010)]
    ∧ parseHeader S2T.Gen.SevenZip.ids fixed crc c (archive crc shiftLayout body) = .ok (stateOf shiftLayout)
    ∧ (stateOf shiftLayout).files.map (fun f => (f.filename, f.isDirectory, f.uncompressed, f.attributes))
        = [([120], false, 1, 0x10000020), ([121], false, 2, 0x20)] := by
  refine ⟨header_round_trip_legacy_partial crc hcrc c shiftLayout (by decide) (by decide) body ⟨by omega, by decide⟩, by decide,
    header_round_trip crc hcrc c shiftLayout (by decide) body ⟨by omega, by decide⟩, by decide⟩

/-- the previous reader, in general: whatever attributes are stored, it reports `seenAttrs 0` of them -/
theorem legacy_attributes_read_one_byte_early (acc : FilesAcc) (as : List Nat) (h : ∀ a ∈ as, a < 2 ^ 32) (rest : Bytes)
    (hacc : acc.attributes = List.replicate as.length 0) :
    fileProp specIds decodeUtf16 false as.length acc 0x15 (1 :: 0 :: (as.flatMap (le 4) ++ rest))
        = .ok { acc with attributes := seenAttrs 0 as }
    ∧ fileProp specIds decodeUtf16 true as.length acc 0x15 (1 :: 0 :: (as.flatMap (le 4) ++ rest))
        = .ok { acc with attributes := as } :=
  ⟨fileProp_attrs decodeUtf16 false acc as h rest hacc, fileProp_attrs decodeUtf16 true acc as h rest hacc⟩

end S2T.C10.Header
