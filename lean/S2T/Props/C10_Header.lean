import S2T.Lemmas.SevenZipHeader
import S2T.Gen.SevenZip
/-!
# C10, part "Header" — the 7z header a standard packer writes parses to the reader state the layout theorems start from

`S2T/Spec/SevenZipWriter.lean` specifies the bytes of the header block (`writeHeader L`) and of the whole file
(`archive crc L body`) for an abstract layout `L` (folders with one coder COPY / LZMA / LZMA2 each, the entries
listed while each folder is current, trailing directories / empty files, option flags).  The theorems below run
the MODEL of the library's parser (`S2T/Model/SevenZip.lean`: `SevenZipReader.__init__`) on those bytes, for
EVERY well-formed layout (any number of folders and entries, any sizes < 2^64, any storable names).

`crc` (zlib.crc32 in the library, bitwise CRC-32 in the driver) is a parameter with `crc x < 2^32`.

Two findings about the library surfaced while proving (both reproduced on the real code, see `known_findings.jsonl`):
* `7z.substream-digests-with-folder-crc`: with folder CRCs stored, a folder holding one file has no SubStreamsInfo
  digest (7zFormat.txt: "digests for streams with unknown CRC"); the reader expects one per substream and rejects
  the archive when single-file and multi-file folders are mixed  ⇒ the theorem carries `mixedWithFolderCrc L = false`
  and `header_mixed_folder_crc_counterexample` shows the rejection.
* `7z.attributes-external-byte-not-read`: `_parse_files_info` does not consume the `External` byte of the
  attributes property, so every attribute is read one byte early (`seenAttrs`); `stateOf` says exactly what is
  read, and `header_attribute_shift_counterexample` shows a regular file listed as a directory.
-/
namespace S2T.C10.Header
open S2T.SevenZip
open S2T.Spec.SevenZipWriter hiding Bytes

private theorem gen_ids : S2T.Gen.SevenZip.ids = specIds := by decide

/-! ## a well-formed, non-trivial layout -/

def eDir : EntrySpec := { name := [100], isDir := true, size := 0, attrib := 0x10 }
def eA : EntrySpec := { name := [97, 46, 116, 120, 116], isDir := false, size := 300, attrib := 0x20, crc := 0xDEADBEEF }
def eEmpty : EntrySpec := { name := [101], isDir := false, size := 0, attrib := 0x20 }
def eB : EntrySpec := { name := [0x1F600, 46, 109, 100], isDir := false, size := 2 ^ 40, attrib := 0x20, mtime := 7 }   -- 😀.md
def eC : EntrySpec := { name := [99], isDir := false, size := 1, attrib := 0x20 }

/-- LZMA folder {d/, a.txt, e (empty), 😀.md} + COPY folder {c}, a trailing directory; NumUnpackStream, substream
    sizes, pack CRCs, MTime, attributes and 3 bytes of kDummy padding are written -/
def exLayout : Layout :=
  { folders := [{ method := .lzma [93, 0, 0, 1, 0], packSize := 70000, entries := [eDir, eA, eEmpty, eB] },
                { method := .copy, packSize := 1, entries := [eC] }],
    tail := [eDir],
    opts := { packCrc := true, mtime := true, dummy := 3 } }

example : WellFormed exLayout ∧ mixedWithFolderCrc exLayout = false := by decide

/-! ## the round trip -/

/-- **Header block round trip** (`_parse_end_header` on the header block).  For every well-formed layout whose
    SubStreamsInfo digests the reader can follow, parsing the bytes `writeHeader L` with the model of the library's
    parser consumes them all and yields exactly `stateOf L`.

    Full statement (no `hmix`) is FALSE on the current tree: see `header_mixed_folder_crc_counterexample`. -/
theorem header_block_round_trip_partial (L : Layout) (hwf : WellFormed L) (hmix : mixedWithFolderCrc L = false)
    (c : Codec) (file : Bytes) :
    parseEndHeader S2T.Gen.SevenZip.ids fixed c file { stream := writeHeader L } = .ok ((), stateOf L) := by
  rw [gen_ids]
  have hf := wf_foldersOk hwf
  have hm := parseMainHeader_write L hf (digestsAgree_of_not_mixed L hf.count1 hmix) (wf_entriesOk hwf)
  obtain ⟨t, ht⟩ : ∃ t, writeHeader L = 1 :: t := ⟨_, rfl⟩
  rw [ht] at hm ⊢
  simp only [List.tail_cons] at hm
  unfold parseEndHeader
  simp [bind, StateT.bind, Except.bind, readU8, ids_kEncodedHeader, ids_kHeader, hm]

private theorem leValue_le_small (k n : Nat) (h : n < 256 ^ k) : leValue (le k n) = n := by
  rw [leValue_le, Nat.mod_eq_of_lt h]

/-- **Whole-file round trip** (`SevenZipReader.__init__`).  The file = 32-byte start header (signature, version,
    two CRCs, offset and size of the header block) ++ `body` (the pack streams; any bytes) ++ `writeHeader L`.
    The model of the library's reader accepts it and ends in exactly `stateOf L`.  `hfit`: positions the reader
    hands to `BytesIO.seek/read` fit a C `ssize_t` (else the real reader raises `OverflowError`). -/
theorem header_round_trip_partial (crc : Bytes → Nat) (hcrc : ∀ x, crc x < 2 ^ 32) (c : Codec)
    (L : Layout) (hwf : WellFormed L) (hmix : mixedWithFolderCrc L = false) (body : Bytes)
    (hfit : 32 + body.length < 2 ^ 63 ∧ (writeHeader L).length < 2 ^ 63) :
    parseHeader S2T.Gen.SevenZip.ids fixed crc c (archive crc L body) = .ok (stateOf L) := by
  have hb := header_block_round_trip_partial L hwf hmix c (archive crc L body)
  rw [gen_ids] at hb ⊢
  generalize hH : writeHeader L = H at hb hfit
  have hsf : (startFields crc body.length H).length = 20 := by simp [startFields, le_length]
  have e1 : leValue (le 4 (crc (startFields crc body.length H))) = crc (startFields crc body.length H) :=
    leValue_le_small 4 _ (hcrc _)
  have e2 : leValue (le 8 body.length) = body.length := leValue_le_small 8 _ (by omega)
  have e3 : leValue (le 8 H.length) = H.length := leValue_le_small 8 _ (by omega)
  have e4 : leValue (le 4 (crc H)) = crc H := leValue_le_small 4 _ (hcrc _)
  -- the file, cut at the offsets the reader uses
  have hfile : archive crc L body = magic ++ ([0, 4] ++ (le 4 (crc (startFields crc body.length H))
      ++ (le 8 body.length ++ (le 8 H.length ++ (le 4 (crc H) ++ (body ++ H)))))) := by
    simp [archive, startHeader, startFields, hH]
  have hlen : (archive crc L body).length = 32 + body.length + H.length := by
    rw [hfile]; simp [magic, le_length]; omega
  have t6 : (archive crc L body).take 6 = specIds.magic := by rw [hfile]; rfl
  have g6 : (archive crc L body).getD 6 0 = 0 := by rw [hfile]; rfl
  have g7 : (archive crc L body).getD 7 0 = 4 := by rw [hfile]; rfl
  have d8 : ((archive crc L body).drop 8).take 4 = le 4 (crc (startFields crc body.length H)) := by
    rw [hfile]
    simp only [magic, List.cons_append, List.nil_append, List.drop_succ_cons, List.drop_zero]
    exact List.take_left' (le_length 4 _)
  have d12 : (archive crc L body).drop 12 = le 8 body.length ++ (le 8 H.length ++ (le 4 (crc H) ++ (body ++ H))) := by
    rw [hfile]
    have : (magic ++ ([0, 4] ++ le 4 (crc (startFields crc body.length H)))).length = 12 := by simp [magic, le_length]
    rw [show magic ++ ([0, 4] ++ (le 4 (crc (startFields crc body.length H)) ++ (le 8 body.length ++ (le 8 H.length ++ (le 4 (crc H) ++ (body ++ H))))))
        = (magic ++ ([0, 4] ++ le 4 (crc (startFields crc body.length H)))) ++ (le 8 body.length ++ (le 8 H.length ++ (le 4 (crc H) ++ (body ++ H)))) by simp]
    exact List.drop_left' this
  have d12t8 : ((archive crc L body).drop 12).take 8 = le 8 body.length := by
    rw [d12]; exact List.take_left' (le_length 8 _)
  have d12t20 : ((archive crc L body).drop 12).take 20 = startFields crc body.length H := by
    rw [d12]
    rw [show le 8 body.length ++ (le 8 H.length ++ (le 4 (crc H) ++ (body ++ H))) = startFields crc body.length H ++ (body ++ H) by
      simp [startFields]]
    exact List.take_left' hsf
  have d20 : ((archive crc L body).drop 20).take 8 = le 8 H.length := by
    rw [show (20 : Nat) = 12 + 8 from rfl, ← List.drop_drop, d12, List.drop_left' (le_length 8 _)]
    exact List.take_left' (le_length 8 _)
  have d28 : ((archive crc L body).drop 28).take 4 = le 4 (crc H) := by
    rw [show (28 : Nat) = 12 + (8 + 8) from rfl, ← List.drop_drop, d12, ← List.drop_drop, List.drop_left' (le_length 8 _),
      List.drop_left' (le_length 8 _)]
    exact List.take_left' (le_length 4 _)
  have dH : ((archive crc L body).drop (headerOffset + body.length)).take H.length = H := by
    rw [show headerOffset + body.length = 12 + (8 + (8 + (4 + body.length))) by simp [headerOffset]; omega, ← List.drop_drop, d12,
      ← List.drop_drop, List.drop_left' (le_length 8 _), ← List.drop_drop, List.drop_left' (le_length 8 _), ← List.drop_drop,
      List.drop_left' (le_length 4 _), List.drop_left' rfl]
    simp
  unfold parseHeader
  simp only [hlen, t6, g6, g7, d8, d12t8, d12t20, d20, d28, e1, e2, e3, e4, dH]
  have n1 : ¬ (32 + body.length + H.length < 6 ∨ specIds.magic ≠ specIds.magic) := by simp; omega
  have n2 : ¬ (32 + body.length + H.length < 8) := by omega
  have n3 : ¬ ((0 : Nat) ≠ 0 ∨ 4 > 4) := by simp
  have n4 : ¬ (32 + body.length + H.length < 32) := by omega
  have n5 : ¬ (headerOffset + body.length ≥ 2 ^ 63 ∨ H.length ≥ 2 ^ 63) := by simp [headerOffset]; omega
  rw [if_neg n1, if_neg n2, if_neg n3, if_neg n4]
  simp only [ne_eq, not_true_eq_false, if_false]
  rw [if_neg n5]
  simp only [hb]

/-! ## what `stateOf` says, on the example -/

/-- the example layout is listed as packed: names (😀 re-joined from its surrogate pair), kinds, sizes, folder of
    each file; folder 0 holds 2 substreams (LZMA, its 5 property bytes), folder 1 one (COPY) -/
example :
    (stateOf exLayout).files.map (fun f => (f.filename, f.isDirectory, f.uncompressed, f.folderIndex))
      = [([100], true, 0, 0), ([97, 46, 116, 120, 116], false, 300, 0), ([101], false, 0, 0),
         ([0x1F600, 46, 109, 100], false, 2 ^ 40, 0), ([99], false, 1, 1), ([100], true, 0, 0)]
    ∧ (stateOf exLayout).folders.map (fun f => (f.coders, f.unpackSizes, f.numStreams))
      = [([⟨[3, 1, 1], some [93, 0, 0, 1, 0]⟩], [300 + 2 ^ 40], 2), ([⟨[0], none⟩], [1], 1)]
    ∧ (stateOf exLayout).packSizes = [70000, 1] ∧ (stateOf exLayout).packPositions = [32]
    ∧ (stateOf exLayout).fileSizes = [300, 2 ^ 40, 1] ∧ (stateOf exLayout).emptyFileIdx = [2]
    ∧ (stateOf exLayout).folderToFiles = [(0, [1, 3]), (1, [4])] := by
  decide

/-! ## counterexamples (findings about the library) -/

def fA : EntrySpec := { name := [97], isDir := false, size := 5, attrib := 0x20 }
def fB : EntrySpec := { name := [98], isDir := false, size := 6, attrib := 0x20 }
def fC : EntrySpec := { name := [99], isDir := false, size := 7, attrib := 0x20 }

/-- folder CRCs stored; folder 0 = {a}, folder 1 = {b, c} (COPY) -/
def mixedLayout : Layout :=
  { folders := [{ method := .copy, packSize := 5, entries := [fA] }, { method := .copy, packSize := 13, entries := [fB, fC] }],
    tail := [], opts := { folderCrc := true } }

/-- **counterexample (finding `7z.substream-digests-with-folder-crc`)**: a well-formed layout that stores folder
    CRCs and mixes a single-file folder with a multi-file one is REJECTED: the writer stores two SubStreamsInfo
    digests (for b and c; a's CRC is the folder's), the reader reads three and then finds `kName` where it expects
    `kEnd`.  So `hmix` cannot be dropped from the round-trip theorems. -/
theorem header_mixed_folder_crc_counterexample :
    WellFormed mixedLayout ∧ mixedWithFolderCrc mixedLayout = true
    ∧ parseEndHeader specIds fixed ⟨fun _ _ => none, fun _ _ _ => none⟩ [] { stream := writeHeader mixedLayout }
        = .error (.bad7z "Expected END in substreams info") := by
  refine ⟨by decide, by decide, ?_⟩
  decide +kernel

/-- x carries an attribute with bit 28 set, y is an ordinary file after it -/
def shiftLayout : Layout :=
  { folders := [{ method := .copy, packSize := 3,
                  entries := [{ name := [120], isDir := false, size := 1, attrib := 0x10000020 },
                              { name := [121], isDir := false, size := 2, attrib := 0x20 }] }],
    tail := [] }

/-- **counterexample (finding `7z.attributes-external-byte-not-read`)**: the reader takes the attributes one byte
    early, so y's attribute is read as 0x2010 (low byte = x's high byte 0x10): y — a regular 2-byte file — is
    listed as a DIRECTORY of size 0 and never extracted.  (The attributes written were 0x10000020 and 0x20.) -/
theorem header_attribute_shift_counterexample (crc : Bytes → Nat) (hcrc : ∀ x, crc x < 2 ^ 32) (c : Codec) (body : Bytes)
    (hb : body.length = 3) :
    parseHeader S2T.Gen.SevenZip.ids fixed crc c (archive crc shiftLayout body) = .ok (stateOf shiftLayout)
    ∧ (stateOf shiftLayout).files.map (fun f => (f.filename, f.isDirectory, f.uncompressed, f.attributes))
        = [([120], false, 1, 0x2000), ([121], true, 0, 0x2010)] := by
  refine ⟨header_round_trip_partial crc hcrc c shiftLayout (by decide) (by decide) body ⟨by omega, by decide⟩, by decide⟩

end S2T.C10.Header
