import S2T.Lemmas.Py
import S2T.Lemmas.Router
import S2T.Gen.PyRouter
/-!
# C07 (source tie) — the translated router functions ARE the hand model `S2T.Router`

`S2T.Gen.PyRouter` is regenerated from the current text of `router.py` on every run
(`tools/gen/pyfun.py`).  For every path string, every `str.lower`, every answer of
`mimetypes.guess_type` (both are fields of `Env`): the translated `_file_type_from_extension`,
`is_supported_file`, `_get_extractor`, `get_extractor` equal `fileTypeFromExt`, `isSupported`,
`getExtractorByType`, `getExtractor` of `S2T/Model/Router.lean` at the generated tables.
`importlib.import_module` + `getattr` = the registry entry (prelude, trusted); logging is skipped.
-/
set_option linter.unusedSimpArgs false
namespace S2T.C07.Src
open S2T.Py S2T.Router S2T.Gen.PyRouter S2T.Gen.Router

/-- the translator understood every construct of the whitelisted functions -/
theorem gen_py_notes_empty : S2T.Gen.PyRouter.notes = [] := by decide

theorem gen_py_translated : S2T.Gen.PyRouter.translated =
    ["_get_extractor", "_file_type_from_extension", "is_supported_file", "get_extractor"] := by decide

/-- a `for x in xs: if p(x): return g(x)` loop finds the first match (any monad, any body shape:
    the body only has to agree with `p`/`g` element-wise) -/
theorem forIn_find {m : Type → Type} [Monad m] [LawfulMonad m] {α β : Type} (xs : List α)
    (f : α → Option β × Unit → m (ForInStep (Option β × Unit))) (p : α → Bool) (g : α → β)
    (hf : ∀ x, f x (none, ()) = pure (if p x = true then ForInStep.done (some (g x), ()) else ForInStep.yield (none, ()))) :
    forIn xs (none, ()) f = pure ((xs.find? p).map g, ()) := by
  induction xs with
  | nil => simp
  | cons x xs ih =>
    simp only [List.forIn_cons, hf, List.find?_cons]
    cases hp : p x <;> simp [ih]

theorem compoundMatch_eq_find (c : List (Router.Str × Router.Str)) (pl : Router.Str) :
    compoundMatch c pl = (c.find? (fun x => x.1.isSuffixOf pl)).map (·.2) := by
  induction c with
  | nil => rfl
  | cons x xs ih =>
    obtain ⟨e, t⟩ := x
    simp only [compoundMatch, List.find?_cons]
    cases h : e.isSuffixOf pl <;> simp [ih]

theorem compoundMatch_isSome (c : List (Router.Str × Router.Str)) (pl : Router.Str) :
    (compoundMatch c pl).isSome = ((dictKeys c).find? (fun e => e.isSuffixOf pl)).isSome := by
  induction c with
  | nil => rfl
  | cons x xs ih =>
    obtain ⟨e, t⟩ := x
    simp only [compoundMatch, dictKeys, List.map_cons, List.find?_cons]
    cases h : e.isSuffixOf pl <;> simp_all [dictKeys]

/-- **`_file_type_from_extension` is `fileTypeFromExt`** (all lower-cased paths) -/
theorem file_type_from_extension_eq (pl : Py.Str) :
    _file_type_from_extension pl = fileTypeFromExt tables pl := by
  have hsx : (splitext pl).2 = splitextExt pl := rfl
  rcases hc : (compound.find? fun x => x.1.isSuffixOf pl) with _ | x <;>
  rcases hx : splitextExt pl with _ | ⟨d, _ | ⟨d2, ext⟩⟩
  all_goals (
    unfold _file_type_from_extension
    simp +instances
    rw [forIn_find (p := fun x => x.1.isSuffixOf pl) (g := fun x => x.2)]
    · simp +instances [fileTypeFromExt, tables, compoundMatch_eq_find, hsx, hc, hx, sliceFrom, dictGetD,
        dictContains, Id.run, pure]
      try (first | rfl | ((repeat' split) <;> simp_all))
    · intro x
      simp only [endswith]
      split <;> simp_all)

/-- **`is_supported_file` is `isSupported`** of the lower-cased path and the MIME guess for it -/
theorem is_supported_file_eq (env : Env) (path : Py.Str) :
    is_supported_file env path
      = pure (isSupported tables (env.lower path) (env.guessType (env.lower path)).1) := by
  have hsx : (splitext (env.lower path)).2 = splitextExt (env.lower path) := rfl
  rcases hc : ((dictKeys compound).find? fun e => e.isSuffixOf (env.lower path)) with _ | x <;>
  rcases hm : (env.guessType (env.lower path)).1 with _ | m
  all_goals (
    unfold is_supported_file
    simp +instances
    rw [forIn_find (p := fun e => e.isSuffixOf (env.lower path)) (g := fun _ => true)]
    · simp +instances [isSupported, tables, compoundMatch_isSome, hsx, hc, hm, setContains, dictContains]
      try (repeat' split)
      all_goals simp_all
    · intro x
      simp only [endswith]
      split <;> simp_all)

/-- what a raised exception means in the model's vocabulary (`none`: nothing the model knows) -/
def classify (e : Exc) : Option Err :=
  if e.cls = "ExtractionFileFormatNotSupportedError" then some .formatNotSupported else none

/-- **`_get_extractor` is `getExtractorByType`**; its only raise is its first `raise` statement -/
theorem get_extractor_by_type_eq (t : Py.Str) :
    _get_extractor t = match getExtractorByType tables t with
      | .ok mf => .ok mf
      | .error _ => .error (exc_ExtractionFileFormatNotSupportedError "_get_extractor" 0) := by
  rcases hl : lookup t registry with _ | mf
  all_goals (
    unfold _get_extractor
    simp +instances [getExtractorByType, tables, dictContains, dictGetItem, importModule, moduleGetattr, hl])

/-- one leaf of the case analysis of `get_extractor_eq`: every table lookup is a hypothesis -/
macro "py_router_leaf" : tactic => `(tactic| (
  unfold get_extractor
  simp +instances [*, file_type_from_extension_eq, get_extractor_by_type_eq, getExtractor,
    getExtractor.mimeBranch, getExtractorByType, dictContains, dictGetItem, classify,
    exc_ExtractionFileFormatNotSupportedError, Except.mapError, tables] <;>
  simp_all +instances [tables, classify, exc_ExtractionFileFormatNotSupportedError, Except.mapError]))

/-- **`get_extractor` is `getExtractor`** of the lower-cased path and the MIME guess for it: the same
    registry entry, or `ExtractionFileFormatNotSupportedError` exactly when the model fails. -/
theorem get_extractor_eq (env : Env) (path : Py.Str) :
    (get_extractor env path).mapError classify
      = (getExtractor tables (env.lower path) (env.guessType (env.lower path)).1).mapError some := by
  rcases hm : (env.guessType (env.lower path)).1 with _ | m
  · rcases hf : fileTypeFromExt tables (env.lower path) with _ | (_ | ⟨c, t⟩)
    · py_router_leaf
    · py_router_leaf
    · rcases hr : lookup (c :: t) registry with _ | mf <;> py_router_leaf
  · rcases hl : lookup m mimeMap with _ | t2
    · rcases hf : fileTypeFromExt tables (env.lower path) with _ | (_ | ⟨c, t⟩)
      · py_router_leaf
      · py_router_leaf
      · rcases hr : lookup (c :: t) registry with _ | mf <;> py_router_leaf
    · rcases hr2 : lookup t2 registry with _ | mf2
      all_goals (
        rcases hf : fileTypeFromExt tables (env.lower path) with _ | (_ | ⟨c, t⟩)
        · py_router_leaf
        · py_router_leaf
        · rcases hr : lookup (c :: t) registry with _ | mf <;> py_router_leaf)

end S2T.C07.Src
