import S2T.Lemmas.Archive
import S2T.Gen.Router
import S2T.Gen.Archive
import S2T.Props.C09_Src
import S2T.Props.C09_Filter
import S2T.Props.C09_Attrs
/-!
# C09 — Archive processing is confined: no host file is read or written

Full statement (kept verbatim):
  Processing any archive, well-formed, hostile or corrupt, never creates, modifies or reads a file
  outside a private temporary directory, and that directory is gone when the result generator is
  exhausted, closed early or fails; member names (absolute, dot-dot, drive or backslash forms, links,
  devices) cannot redirect I/O.  Results are a function of the archive bytes only: no content of the
  host file system can appear in them.  Hidden members, macOS resource forks, nested archives,
  unsupported types and oversize members never produce results.

The theorems below are about the model `S2T.Archive` of the REPAIRED source (patches
`fix-7z-readback-confined`, `fix-nested-archive-skip-from-router`).  On the unrepaired source the
statement is false in two ways; the `…Old` functions model that source and the two `…_old_…`
counterexample theorems exhibit the failures (replayed on the real code by the harness).

Part files: `C09_Src` (translated `_safe_join` / `_should_skip_file` = hand model), `C09_Filter` (the filters cannot be
by-passed: TAR member-kind guard, 7z selection by identity, private directory and results by content).

Quantifiers: every base directory that is absolute and in normal form (what `mkdtemp` returns), every
cwd, every member name, every header (entries, sizes, folders, decoded folder bytes), every consumer,
every `Env` (str.lower, mimetypes, member extractors, host file system), every limit.
-/
namespace S2T.C09
open S2T.Archive S2T.Router

/-! ## the tie to the source: tables, constants, inventory of file-system call sites -/

/-- the translator found every table/constant to be what the source literal shows -/
theorem gen_notes_empty : S2T.Gen.Archive.notes = [] := by decide

/-- call sites of archive_extractor.py the model accounts for (function, callee) -/
def accountedExtractor : List (Str × Str) := [
  ("_extract_from_7z_optimized".toList, "szf.extractall".toList),          -- `extractAll`
  ("_extract_from_7z_optimized".toList, "tempfile.TemporaryDirectory".toList),  -- `Ev.mkdtemp` / `Ev.rmtree` frame in `run7zWith`
  ("_extract_from_tar_optimized".toList, "tarfile.open".toList),           -- on a BytesIO: `TarMember` list is a parameter
  ("_extract_from_zip_optimized".toList, "zipfile.ZipFile".toList),        -- on a BytesIO: `ZipMember` list is a parameter
  ("_process_7z_files_sequential".toList, "_safe_join".toList),            -- `readBack`
  ("_process_7z_files_sequential".toList, "open".toList),                  -- `Ev.read`
  ("_process_7z_files_sequential".toList, "os.path.exists".toList)]        -- `Ev.probe`

/-- call sites of util/sevenzip.py the model accounts for -/
def accountedSevenZip : List (Str × Str) := [
  ("_extract_files_from_folder".toList, "_mkdirs".toList),                 -- `mkdirs`
  ("_extract_files_from_folder".toList, "_safe_join".toList),              -- `safeJoin`
  ("_extract_files_from_folder".toList, "open".toList),                    -- `writeFile`
  ("_mkdirs".toList, "os.makedirs".toList),                                -- `mkdirsWalk`
  ("_safe_join".toList, "os.path.join".toList),                            -- `join` inside `safeJoin`, result checked against base
  ("extractall".toList, "_mkdirs".toList),                                 -- empty-file loop: `writeEmpty`
  ("extractall".toList, "_safe_join".toList),                              -- empty-file loop: `writeEmpty`
  ("extractall".toList, "open".toList),                                    -- empty-file loop: `writeFile … []`
  ("extractall".toList, "os.makedirs".toList),                             -- on the private directory itself: it exists
  ("extractall".toList, "self._reader.extractall".toList)]

/-- closed world: every file-system relevant call site found in the two source files is one the model
    accounts for (a new `open`, `os.path.join`, `shutil.…`, `extractall` … anywhere breaks this). -/
theorem fs_call_sites_accounted :
    (S2T.Gen.Archive.fsCallsExtractor.all accountedExtractor.contains
      && S2T.Gen.Archive.fsCallsSevenZip.all accountedSevenZip.contains) = true := by decide +kernel

/-- … and nothing the model relies on has disappeared (e.g. the `_safe_join` in the read-back loop) -/
theorem fs_call_sites_present :
    (accountedExtractor.all S2T.Gen.Archive.fsCallsExtractor.contains
      && accountedSevenZip.all S2T.Gen.Archive.fsCallsSevenZip.contains) = true := by decide +kernel

/-! ## `_safe_join` -/

/-- a private directory as `tempfile.mkdtemp` names it -/
def sampleBase : Str := "/tmp/tmpk3v9x2ab".toList

example : isAbs sampleBase = true ∧ normpath sampleBase = sampleBase := by decide
example : safeJoin "/work".toList sampleBase "d/../e/./x.txt".toList = .ok "/tmp/tmpk3v9x2ab/e/x.txt".toList := by decide
example : safeJoin "/work".toList sampleBase "d/../../x.txt".toList = .error .unsafePath := by decide
example : safeJoin "/work".toList sampleBase "/etc/passwd".toList = .error .absolutePath := by decide

/-- Whatever `_safe_join(base, rel)` returns is absolute and its components are those of `base`
    followed by entry names only: no `..`, no `.`, no empty component, no slash inside a component. -/
theorem C09_safe_join (cwd base rel p : Str) (habs : isAbs base = true) (hnorm : normpath base = base)
    (h : safeJoin cwd base rel = .ok p) :
    isAbs p = true ∧ ∃ s, comps p = comps base ++ s ∧
      ∀ c ∈ s, c ≠ [] ∧ c ≠ dot ∧ c ≠ dotdot ∧ '/' ∉ c :=
  safeJoin_inside cwd base rel p habs hnorm h

/-! ## 7z: everything between `mkdtemp` and `rmtree`, for every consumer -/

private theorem assoc4 (m r : Ev) (A B : List Ev) : [m] ++ A ++ B ++ [r] = [m] ++ (A ++ B) ++ [r] := by simp

/-- Shape of every run of the 7z path (repaired source): either the generator was closed before it
    was started and nothing at all happened, or the trace is `mkdtemp base`, then only
    mkdir/write/probe/read events on absolute paths lexically inside `base`, then `rmtree base` —
    whether the consumer exhausts the generator, closes it after k results, or extraction fails. -/
theorem C09_7z_trace (T : Tables) (nested : List Str) (env : Env) (lim : Limits) (cwd base : Str) (a : SevenZ)
    (c : Consumer) (habs : isAbs base = true) (hnorm : normpath base = base) :
    (c = .closeAfter 0 ∧ (run7z T nested env lim cwd base a c).evs = [] ∧ (run7z T nested env lim cwd base a c).res = []) ∨
    (∃ mid, (run7z T nested env lim cwd base a c).evs = [.mkdtemp base] ++ mid ++ [.rmtree base] ∧ ∀ e ∈ mid, EvIn base e) := by
  unfold run7z run7zWith
  split
  · rename_i hc
    left; exact ⟨hc, rfl, rfl⟩
  · right
    have hx := fun files fmap w => extractAllFull_evIn env cwd base files fmap a.folderData a.folders w ⟨[], [], none⟩ habs hnorm (by simp)
    simp only
    split
    · exact ⟨_, rfl, hx _ _ _⟩
    · refine ⟨_, assoc4 _ _ _ _, ?_⟩
      intro e he
      rcases List.mem_append.mp he with h1 | h1
      · exact hx _ _ _ e h1
      · obtain ⟨s, hs, hes⟩ := consume_evs _ _ e h1
        obtain ⟨nf, _, hf⟩ := List.mem_map.mp hs
        subst hf
        exact readBack_evIn env lim cwd base _ nf.2 habs hnorm e hes

/-- every write and every directory creation of `extractall` is inside the private directory -/
theorem C09_writes_confined (T : Tables) (nested : List Str) (env : Env) (lim : Limits) (cwd base : Str) (a : SevenZ)
    (c : Consumer) (habs : isAbs base = true) (hnorm : normpath base = base) (p : Str)
    (h : Ev.write p ∈ (run7z T nested env lim cwd base a c).evs ∨ Ev.mkdir p ∈ (run7z T nested env lim cwd base a c).evs) :
    isAbs p = true ∧ Inside base p := by
  rcases C09_7z_trace T nested env lim cwd base a c habs hnorm with ⟨_, h0, _⟩ | ⟨mid, hm, hall⟩
  · rw [h0] at h; simp at h
  · rw [hm] at h
    rcases h with h | h
    · have : Ev.write p ∈ mid := by simpa using h
      exact hall _ this
    · have : Ev.mkdir p ∈ mid := by simpa using h
      exact hall _ this

/-- every file the read-back loop opens (or probes) is inside the private directory -/
theorem C09_reads_confined (T : Tables) (nested : List Str) (env : Env) (lim : Limits) (cwd base : Str) (a : SevenZ)
    (c : Consumer) (habs : isAbs base = true) (hnorm : normpath base = base) (p : Str)
    (h : Ev.read p ∈ (run7z T nested env lim cwd base a c).evs ∨ Ev.probe p ∈ (run7z T nested env lim cwd base a c).evs) :
    isAbs p = true ∧ Inside base p := by
  rcases C09_7z_trace T nested env lim cwd base a c habs hnorm with ⟨_, h0, _⟩ | ⟨mid, hm, hall⟩
  · rw [h0] at h; simp at h
  · rw [hm] at h
    rcases h with h | h
    · have : Ev.read p ∈ mid := by simpa using h
      exact hall _ this
    · have : Ev.probe p ∈ mid := by simpa using h
      exact hall _ this

/-- lifetime of the private directory: if it was created, the last event of the run removes it, and
    it is created and removed exactly once — for every consumer behaviour and every failure. -/
theorem C09_tempdir (T : Tables) (nested : List Str) (env : Env) (lim : Limits) (cwd base : Str) (a : SevenZ)
    (c : Consumer) (habs : isAbs base = true) (hnorm : normpath base = base) :
    (run7z T nested env lim cwd base a c).evs = [] ∨
    ((run7z T nested env lim cwd base a c).evs.head? = some (.mkdtemp base) ∧
     (run7z T nested env lim cwd base a c).evs.getLast? = some (.rmtree base) ∧
     (run7z T nested env lim cwd base a c).evs.count (.mkdtemp base) = 1 ∧
     (run7z T nested env lim cwd base a c).evs.count (.rmtree base) = 1) := by
  rcases C09_7z_trace T nested env lim cwd base a c habs hnorm with ⟨_, h0, _⟩ | ⟨mid, hm, hall⟩
  · left; exact h0
  · right
    rw [hm]
    have h1 : mid.count (.mkdtemp base) = 0 := by
      apply List.count_eq_zero.mpr
      intro hmem; exact hall _ hmem
    have h2 : mid.count (.rmtree base) = 0 := by
      apply List.count_eq_zero.mpr
      intro hmem; exact hall _ hmem
    refine ⟨by simp, List.getLast?_concat, ?_, ?_⟩
    · simp [List.count_append, h1]
    · simp [List.count_append, h2]

/-! ## results are a function of the archive only -/

/-- The host file system is a parameter of the model (`env.host`).  Replacing it by any other host
    changes nothing: neither the results, nor the events, nor the outcome. -/
theorem C09_host_irrelevant (T : Tables) (nested : List Str) (env : Env) (h' : Str → Option (Option (List Nat)))
    (lim : Limits) (cwd base : Str) (a : SevenZ) (c : Consumer) (habs : isAbs base = true) (hnorm : normpath base = base) :
    run7z T nested (withHost env h') lim cwd base a c = run7z T nested env lim cwd base a c := by
  unfold run7z run7zWith
  have hskip : shouldSkip T nested (withHost env h') = shouldSkip T nested env := rfl
  have hrb : readBack (withHost env h') lim cwd base = readBack env lim cwd base := by
    funext fs f; exact readBack_host env h' lim cwd base fs f habs hnorm
  rw [hskip, hrb]
  simp only [extractAllFull_host env h' cwd base _ _ _ _ _ _ habs hnorm]

/-- two environments that agree on the interpreter (`lower`, `mime`, member extractors) but have
    arbitrary, different host file systems give the same run -/
theorem C09_results_function_of_archive (T : Tables) (nested : List Str) (env₁ env₂ : Env)
    (hl : env₁.lower = env₂.lower) (hm : env₁.mime = env₂.mime) (hn : env₁.nres = env₂.nres)
    (lim : Limits) (cwd base : Str) (a : SevenZ) (c : Consumer) (habs : isAbs base = true) (hnorm : normpath base = base) :
    run7z T nested env₁ lim cwd base a c = run7z T nested env₂ lim cwd base a c := by
  have : env₁ = withHost env₂ env₁.host := by
    cases env₁; cases env₂; simp only [withHost] at *; subst hl hm hn; rfl
  rw [this]
  exact C09_host_irrelevant T nested env₂ _ lim cwd base a c habs hnorm

/-- ZIP and TAR members are read in memory: the model of those loops has no file-system event to emit
    and never looks at the host -/
theorem C09_zip_tar_host_irrelevant (T : Tables) (nested : List Str) (env : Env) (h' : Str → Option (Option (List Nat)))
    (lim : Limits) (zs : List ZipMember) (ts : List TarMember) :
    zipRun (shouldSkip T nested (withHost env h')) (withHost env h') lim zs = zipRun (shouldSkip T nested env) env lim zs ∧
    tarRun (shouldSkip T nested (withHost env h')) (withHost env h') lim ts = tarRun (shouldSkip T nested env) env lim ts := by
  have hskip : shouldSkip T nested (withHost env h') = shouldSkip T nested env := rfl
  have hpe : processEntry (withHost env h') lim = processEntry env lim := rfl
  constructor
  · unfold zipRun
    rw [hskip]
    have : ∀ sel, zipProcess (withHost env h') lim sel = zipProcess env lim sel := by
      intro sel
      induction sel with
      | nil => rfl
      | cons m r ih => simp only [zipProcess, ih, hpe]
    simp only [this]
  · rw [hskip]
    induction ts with
    | nil => rfl
    | cons m r ih => simp only [tarRun, ih, hpe]

/-! ## what can produce a result -/

/-- a member the skip rule lets through is not hidden, not a resource fork, of a supported type, not a
    nested archive by extension, and does not route back to the archive extractor -/
theorem C09_skip (T : Tables) (nested : List Str) (env : Env) (filename bname : Str)
    (h : shouldSkip T nested env filename bname = false) :
    hidden filename bname = false ∧ bname.head? ≠ some '.' ∧ macosxPrefix.isPrefixOf filename = false ∧
    isSupported T (env.lower bname) (env.mime (env.lower bname)) = true ∧
    nestedByExt nested (env.lower bname) = false ∧ routesToArchive T env (env.lower bname) = false := by
  unfold shouldSkip at h
  simp only [Bool.or_eq_false_iff, Bool.not_eq_false'] at h
  obtain ⟨⟨⟨h1, h2⟩, h3⟩, h4⟩ := h
  refine ⟨h1, ?_, ?_, h2, h3, h4⟩
  · unfold hidden at h1
    simp only [Bool.or_eq_false_iff, beq_eq_false_iff_ne] at h1
    exact h1.1
  · unfold hidden at h1
    simp only [Bool.or_eq_false_iff] at h1
    exact h1.2

private theorem processEntry_mem {env : Env} {lim : Limits} {fn bn : Str} {d : List Nat} {r : Res}
    (h : r ∈ processEntry env lim fn bn d) : r = (fn, d) ∧ d.length ≤ lim.maxEntry := by
  unfold processEntry at h
  split at h
  · cases h
  · rename_i hle
    exact ⟨List.eq_of_mem_replicate h, by omega⟩

private theorem zipSelect_mem (skip : Str → Str → Bool) (ms sel : List ZipMember) (h : zipSelect skip ms = .ok sel) :
    ∀ m ∈ sel, m ∈ ms ∧ m.isDir = false ∧ m.encrypted = false ∧ skip m.filename (basename m.filename) = false := by
  induction ms generalizing sel with
  | nil => simp [zipSelect] at h; subst h; simp
  | cons x r ih =>
    unfold zipSelect at h
    split at h
    · intro m hm; obtain ⟨a, b⟩ := ih sel h m hm; exact ⟨List.mem_cons_of_mem _ a, b⟩
    · split at h
      · cases h
      · split at h
        · intro m hm; obtain ⟨a, b⟩ := ih sel h m hm; exact ⟨List.mem_cons_of_mem _ a, b⟩
        · split at h
          · rename_i l hl
            cases h
            intro m hm
            rcases List.mem_cons.mp hm with e | e
            · subst e
              rename_i h1 h2 h3
              exact ⟨by simp, by simpa using h1, by simpa using h2, by simpa using h3⟩
            · obtain ⟨a, b⟩ := ih l hl m e; exact ⟨List.mem_cons_of_mem _ a, b⟩
          · cases h

private theorem zipProcess_mem (env : Env) (lim : Limits) (sel : List ZipMember) :
    ∀ r ∈ (zipProcess env lim sel).1, ∃ m ∈ sel, r.1 = m.filename ∧ m.fileSize ≤ lim.maxMemory ∧ m.read = some r.2 ∧
      r.2.length ≤ lim.maxEntry := by
  induction sel with
  | nil => simp [zipProcess]
  | cons m rest ih =>
    unfold zipProcess
    split
    · intro r hr; obtain ⟨m', hm', h'⟩ := ih r hr; exact ⟨m', List.mem_cons_of_mem _ hm', h'⟩
    · rename_i hsz
      split
      · simp
      · rename_i d hd
        intro r hr
        rcases List.mem_append.mp hr with h1 | h1
        · obtain ⟨e, hl⟩ := processEntry_mem h1
          subst e
          exact ⟨m, by simp, rfl, by omega, hd, hl⟩
        · obtain ⟨m', hm', h'⟩ := ih r h1; exact ⟨m', List.mem_cons_of_mem _ hm', h'⟩

/-- ZIP: every result comes from a member that is a regular entry, not encrypted, passed the skip rule
    (so: not hidden / resource fork / unsupported / nested archive), whose declared size is within
    `max_memory_size` and whose bytes are within `MAX_ARCHIVE_FILE_SIZE`; its bytes are the member's. -/
theorem C09_zip_results (T : Tables) (nested : List Str) (env : Env) (lim : Limits) (ms : List ZipMember) :
    ∀ r ∈ (zipRun (shouldSkip T nested env) env lim ms).1, ∃ m ∈ ms, r.1 = m.filename ∧ m.read = some r.2 ∧
      m.isDir = false ∧ shouldSkip T nested env m.filename (basename m.filename) = false ∧
      m.fileSize ≤ lim.maxMemory ∧ r.2.length ≤ lim.maxEntry := by
  unfold zipRun
  split
  · simp
  · rename_i sel hsel
    intro r hr
    obtain ⟨m, hm, h1, h2, h3, h4⟩ := zipProcess_mem env lim sel r hr
    obtain ⟨a, b, _, d⟩ := zipSelect_mem _ ms sel hsel m hm
    exact ⟨m, a, h1, h3, b, d, h2, h4⟩

/-- TAR: the same, and only regular files (no directory, symbolic or hard link, device, fifo) -/
theorem C09_tar_results (T : Tables) (nested : List Str) (env : Env) (lim : Limits) (ms : List TarMember) :
    ∀ r ∈ tarRun (shouldSkip T nested env) env lim ms, ∃ m ∈ ms, r.1 = m.name ∧ m.read = some r.2 ∧
      m.isReg = true ∧ shouldSkip T nested env m.name (basename m.name) = false ∧
      m.size ≤ lim.maxMemory ∧ r.2.length ≤ lim.maxEntry := by
  induction ms with
  | nil => simp [tarRun]
  | cons m rest ih =>
    unfold tarRun
    have lift : ∀ r ∈ tarRun (shouldSkip T nested env) env lim rest, ∃ m' ∈ m :: rest, r.1 = m'.name ∧ m'.read = some r.2 ∧
        m'.isReg = true ∧ shouldSkip T nested env m'.name (basename m'.name) = false ∧
        m'.size ≤ lim.maxMemory ∧ r.2.length ≤ lim.maxEntry := by
      intro r hr; obtain ⟨m', hm', h'⟩ := ih r hr; exact ⟨m', List.mem_cons_of_mem _ hm', h'⟩
    split
    · exact lift
    · rename_i hreg
      split
      · exact lift
      · rename_i hskip
        split
        · exact lift
        · rename_i hsz
          split
          · exact lift
          · rename_i d hd
            intro r hr
            rcases List.mem_append.mp hr with h1 | h1
            · obtain ⟨e, hl⟩ := processEntry_mem h1
              subst e
              exact ⟨m, by simp, rfl, hd, by simpa using hreg, by simpa using hskip, by omega, hl⟩
            · exact lift r h1

/-- 7z: every result comes from a listed non-directory entry that passed the skip rule and the size
    check, and its bytes are bytes `extractall` wrote inside the private directory under the path
    `_safe_join` gives for that entry (never bytes of the host). -/
theorem C09_7z_results (T : Tables) (nested : List Str) (env : Env) (lim : Limits) (cwd base : Str) (a : SevenZ) (c : Consumer) :
    ∀ r ∈ (run7z T nested env lim cwd base a c).res, ∃ f ∈ buildFiles a.entries a.fileSizes a.emptyFiles,
      r.1 = f.filename ∧ f.isDirectory = false ∧ shouldSkip T nested env f.filename (basename f.filename) = false ∧
      f.uncompressed ≤ lim.maxMemory ∧ r.2.length ≤ lim.maxEntry ∧
      ∃ p fs, safeJoin cwd base f.filename = .ok p ∧ nodeAt env base fs p = some (.file r.2) := by
  unfold run7z run7zWith
  split
  · simp
  · simp only
    split
    · simp
    · intro r hr
      obtain ⟨s, hs, hrs⟩ := consume_res _ _ r hr
      obtain ⟨nf, hf, hfs⟩ := List.mem_map.mp hs
      subst hfs
      unfold select7z at hf
      obtain ⟨hfm', hcond⟩ := List.mem_filter.mp hf
      have hfm := mem_indexed _ 0 nf.1 nf.2 hfm'
      generalize nf.2 = f at *
      simp only [Bool.and_eq_true, Bool.not_eq_true', decide_eq_false_iff_not] at hcond
      unfold readBack at hrs
      split at hrs
      · cases hrs
      · rename_i p hp
        split at hrs
        · cases hrs
        · cases hrs
        · rename_i d hd
          obtain ⟨e, hl⟩ := processEntry_mem hrs
          subst e
          exact ⟨f, hfm, rfl, hcond.1.1, hcond.1.2, by omega, hl, p, _, hp, hd⟩

/-! ## soundness of the acceptor the observed traces of the real code are fed to -/

/-- If `confined cfg t` then every event of `t` is harmless: `mkdtemp` directly… under the temp root;
    writes, mkdirs, removals only on absolute paths lexically inside a private directory the trace
    itself created; reads additionally inside the read-only installation prefixes; nothing else
    (rename, symlink, link, chmod, subprocess, … are rejected). -/
theorem confined_sound (cfg : Cfg) (t : List FsEvent) (h : confined cfg t = true) :
    ∀ e ∈ t, FsOk cfg (dirsOf t) e := by
  have := (confinedFrom_sound cfg [] t h).1
  simpa using this

/-- … and every private directory created in the trace is removed later in the trace, with the
    removal observed to have succeeded. -/
theorem confined_cleanup (cfg : Cfg) (pre suf : List FsEvent) (d : Str)
    (h : confined cfg (pre ++ FsEvent.mkdtemp d :: suf) = true) : FsEvent.rmtree d true ∈ suf := by
  obtain ⟨live', hl⟩ := confinedFrom_suffix cfg [] pre _ h
  simp only [confinedFrom] at hl
  split at hl
  · cases hl
  · rename_i live'' hs
    have hmem : d ∈ live'' := by
      simp only [stepOk] at hs
      split at hs
      · cases hs; simp
      · cases hs
    exact (confinedFrom_sound cfg live'' suf hl).2 d hmem

example : confined ⟨"/tmp".toList, ["/venv".toList]⟩
    [.mkdtemp sampleBase, .mkdir (sampleBase ++ "/d".toList), .openW (sampleBase ++ "/d/a.txt".toList),
     .openR "/venv/lib/x.py".toList, .openR (sampleBase ++ "/d/a.txt".toList), .rmtree sampleBase true] = true := by decide
example : confined ⟨"/tmp".toList, ["/venv".toList]⟩
    [.mkdtemp sampleBase, .openR "/etc/passwd".toList, .rmtree sampleBase true] = false := by decide
example : confined ⟨"/tmp".toList, ["/venv".toList]⟩
    [.mkdtemp sampleBase, .openR (sampleBase ++ "/../x".toList), .rmtree sampleBase true] = false := by decide
example : confined ⟨"/tmp".toList, []⟩ [.mkdtemp sampleBase, .openW (sampleBase ++ "/a".toList)] = false := by decide

private theorem within_of_inside {base p : Str} (h : Inside base p) : within base p = true := by
  have hp := inside_prefix h
  obtain ⟨s, hs, hcl⟩ := h
  unfold within
  rw [hp, hs]
  simp only [List.drop_left, Bool.true_and, List.all_eq_true, Bool.and_eq_true, bne_iff_ne, ne_eq]
  intro c hc
  exact ⟨(hcl c hc).2.2.1, (hcl c hc).2.1⟩

private theorem mid_accepted (cfg : Cfg) (base : Str) (mid : List Ev) (rest : List FsEvent) (h : ∀ e ∈ mid, EvIn base e) :
    confinedFrom cfg [base] (mid.map Ev.toFs ++ rest) = confinedFrom cfg [base] rest := by
  induction mid with
  | nil => rfl
  | cons e r ih =>
    have he := h e (by simp)
    have hlive : ∀ p, isAbs p = true ∧ Inside base p → inLive [base] p = true := by
      intro p hp
      unfold inLive
      simp [hp.1, within_of_inside hp.2]
    simp only [List.map_cons, List.cons_append, confinedFrom]
    cases e with
    | mkdtemp p => exact absurd he (by simp [EvIn])
    | rmtree p => exact absurd he (by simp [EvIn])
    | mkdir p => simp only [Ev.toFs, stepOk, hlive p he, if_true]; exact ih (fun e' h' => h e' (List.mem_cons_of_mem _ h'))
    | write p => simp only [Ev.toFs, stepOk, hlive p he, if_true]; exact ih (fun e' h' => h e' (List.mem_cons_of_mem _ h'))
    | probe p => simp only [Ev.toFs, stepOk, hlive p he, Bool.true_or, if_true]; exact ih (fun e' h' => h e' (List.mem_cons_of_mem _ h'))
    | read p => simp only [Ev.toFs, stepOk, hlive p he, Bool.true_or, if_true]; exact ih (fun e' h' => h e' (List.mem_cons_of_mem _ h'))

/-- The model's own trace is accepted by the acceptor the real traces are fed to (same vocabulary, same
    verdict): for every archive and consumer, provided `base` is what `mkdtemp` may return under the
    configured temp root. -/
theorem C09_model_trace_accepted (cfg : Cfg) (T : Tables) (nested : List Str) (env : Env) (lim : Limits) (cwd base : Str)
    (a : SevenZ) (c : Consumer) (habs : isAbs base = true) (hnorm : normpath base = base)
    (hroot : stepOk cfg [] (.mkdtemp base) = some [base]) :
    confined cfg ((run7z T nested env lim cwd base a c).evs.map Ev.toFs) = true := by
  rcases C09_7z_trace T nested env lim cwd base a c habs hnorm with ⟨_, h0, _⟩ | ⟨mid, hm, hall⟩
  · rw [h0]; rfl
  · rw [hm]
    simp only [List.map_append, List.map_cons, List.map_nil, Ev.toFs, confined, List.cons_append, List.nil_append, confinedFrom, hroot]
    rw [mid_accepted cfg base mid _ hall]
    simp [confinedFrom, stepOk]

example : stepOk ⟨"/tmp".toList, []⟩ [] (.mkdtemp sampleBase) = some [sampleBase] := by decide

/-! ## the unrepaired source: counterexamples (replayed on the real code by the harness) -/

/-- interpreter stand-in for the closed examples: ASCII names are already lower case, no MIME database,
    every supported member yields one result -/
def demoEnv (host : Str → Option (Option (List Nat))) : Env :=
  { lower := id, mime := fun _ => none, nres := fun _ _ => 1, host := host }

def hostWith (p : Str) (d : List Nat) : Str → Option (Option (List Nat)) := fun q => if q = p then some (some d) else none

/-- hostile 7z: one stream-bearing file and one entry listed beyond the streams, named like a host file -/
def orphanArchive : SevenZ :=
  { entries := [⟨"a.txt".toList, false, false⟩, ⟨"/etc/secret.txt".toList, false, false⟩],
    fileSizes := [2], emptyFiles := [], folders := [1], folderData := [some [104, 105]] }

def genLimits : Limits := S2T.Gen.Archive.limits

/-- UNREPAIRED source (`os.path.join(temp_dir, filename)`): the read-back loop opens the host file
    `/etc/secret.txt` and its bytes come out as a result — the full statement is false there. -/
theorem C09_reads_confined_old_counterexample :
    let t := run7zOld S2T.Gen.Router.tables S2T.Gen.Archive.nested (demoEnv (hostWith "/etc/secret.txt".toList [83, 69, 67])) genLimits
      "/work".toList sampleBase orphanArchive .exhaust
    Ev.read "/etc/secret.txt".toList ∈ t.evs ∧ ("/etc/secret.txt".toList, [83, 69, 67]) ∈ t.res := by
  decide +kernel

/-- … and the results of the unrepaired model depend on the host -/
theorem C09_results_host_dependent_old :
    (run7zOld S2T.Gen.Router.tables S2T.Gen.Archive.nested (demoEnv (hostWith "/etc/secret.txt".toList [83, 69, 67])) genLimits
      "/work".toList sampleBase orphanArchive .exhaust).res ≠
    (run7zOld S2T.Gen.Router.tables S2T.Gen.Archive.nested (demoEnv (fun _ => none)) genLimits
      "/work".toList sampleBase orphanArchive .exhaust).res := by
  decide +kernel

/-- the repaired model on the same archive and host: one result, from the archive's own bytes -/
example :
    (run7z S2T.Gen.Router.tables S2T.Gen.Archive.nested (demoEnv (hostWith "/etc/secret.txt".toList [83, 69, 67])) genLimits
      "/work".toList sampleBase orphanArchive .exhaust).res = [("a.txt".toList, [104, 105])] := by
  decide +kernel

/-- non-trivial instance of `C09_7z_trace`: a member in a sub-directory, consumer closes after one result -/
example :
    (run7z S2T.Gen.Router.tables S2T.Gen.Archive.nested (demoEnv (fun _ => none)) genLimits "/work".toList sampleBase
      { entries := [⟨"d/a.txt".toList, false, false⟩, ⟨"b.txt".toList, false, false⟩], fileSizes := [1, 1], emptyFiles := [], folders := [2],
        folderData := [some [65, 66]] } (.closeAfter 1)).evs =
    [.mkdtemp sampleBase, .mkdir (sampleBase ++ "/d".toList), .write (sampleBase ++ "/d/a.txt".toList),
     .write (sampleBase ++ "/b.txt".toList), .probe (sampleBase ++ "/d/a.txt".toList), .read (sampleBase ++ "/d/a.txt".toList),
     .rmtree sampleBase] := by
  decide +kernel

/-- empty-stream entries: `d` is a directory (not created: nothing is stored under it), `d/e.txt` is an
    empty file (PROP_EMPTY_FILE flag set): written by the empty-file loop of `extractall`, read back, one result -/
example :
    let t := run7z S2T.Gen.Router.tables S2T.Gen.Archive.nested (demoEnv (fun _ => none)) genLimits "/work".toList sampleBase
      { entries := [⟨"d".toList, true, false⟩, ⟨"d/e.txt".toList, true, false⟩, ⟨"a.txt".toList, false, false⟩],
        fileSizes := [1], emptyFiles := [false, true], folders := [1], folderData := [some [65]] } .exhaust
    t.evs = [.mkdtemp sampleBase, .write (sampleBase ++ "/a.txt".toList), .mkdir (sampleBase ++ "/d".toList),
      .write (sampleBase ++ "/d/e.txt".toList), .probe (sampleBase ++ "/d/e.txt".toList), .read (sampleBase ++ "/d/e.txt".toList),
      .probe (sampleBase ++ "/a.txt".toList), .read (sampleBase ++ "/a.txt".toList), .rmtree sampleBase] ∧
    t.res = [("d/e.txt".toList, []), ("a.txt".toList, [65])] := by
  decide +kernel

/-- only the members that passed the filters are written: the unsupported file `a` is stepped over (so it does
    not block the directory `a/`), the member behind it is written from its own offset and read back -/
example :
    let t := run7z S2T.Gen.Router.tables S2T.Gen.Archive.nested (demoEnv (fun _ => none)) genLimits "/work".toList sampleBase
      { entries := [⟨"a".toList, false, false⟩, ⟨"a/b.txt".toList, false, false⟩, ⟨"../x.bin".toList, false, false⟩],
        fileSizes := [1, 2, 1], emptyFiles := [], folders := [3], folderData := [some [65, 66, 67, 68]] } .exhaust
    t.evs = [.mkdtemp sampleBase, .mkdir (sampleBase ++ "/a".toList), .write (sampleBase ++ "/a/b.txt".toList),
      .probe (sampleBase ++ "/a/b.txt".toList), .read (sampleBase ++ "/a/b.txt".toList), .rmtree sampleBase] ∧
    t.res = [("a/b.txt".toList, [66, 67])] ∧ t.out = .finished := by
  decide +kernel

/-- UNREPAIRED skip rule: `inner.gz` is routed to `read_archive` by the router (alias gz ↦ tgz) but is
    not in `NESTED_ARCHIVE_EXTENSIONS`, so a nested archive is unpacked — false full statement. -/
theorem C09_skip_old_counterexample :
    shouldSkipOld S2T.Gen.Router.tables S2T.Gen.Archive.nested (demoEnv (fun _ => none)) "inner.gz".toList "inner.gz".toList = false ∧
    routesToArchive S2T.Gen.Router.tables (demoEnv (fun _ => none)) "inner.gz".toList = true := by
  decide +kernel

/-- the repaired rule skips it; a plain text member is kept -/
example : shouldSkip S2T.Gen.Router.tables S2T.Gen.Archive.nested (demoEnv (fun _ => none)) "inner.gz".toList "inner.gz".toList = true ∧
    shouldSkip S2T.Gen.Router.tables S2T.Gen.Archive.nested (demoEnv (fun _ => none)) "d/a.txt".toList "a.txt".toList = false := by
  decide +kernel

/-- every extension of `NESTED_ARCHIVE_EXTENSIONS` is also recognised by the router rule (the old
    table is subsumed by the new clause on the current tables) -/
theorem nested_table_subsumed :
    S2T.Gen.Archive.nested.all (fun e =>
      routesToArchive S2T.Gen.Router.tables (demoEnv (fun _ => none)) ('x' :: e)) = true := by
  decide +kernel

/-! ## The translated `_safe_join` itself (end to end)

`Props/C09_Src.lean` proves the `_safe_join` re-translated from `sevenzip_extractor.py` on every run
equal to the model's `safeJoin`; composed with `C09_safe_join`, confinement is a statement about the
function **as the source has it now**, for every host (`cwd`), every normalised absolute base and every
member name: what it returns lies under the base, component by component, and whatever it raises is
`Bad7zFile`. -/
section src
open S2T.Py S2T.Gen.PySevenZip S2T.C09.Src


/-- **C09 at the source level (`_safe_join` confines).** -/
theorem C09_src_safe_join (env : Py.Env) (base rel : Py.Str) (habs : isAbs base = true)
    (hnorm : normpath base = base) :
    (∀ p, _safe_join env base rel = .ok p →
        isAbs p = true ∧ ∃ s, comps p = comps base ++ s ∧
          ∀ c ∈ s, c ≠ [] ∧ c ≠ dot ∧ c ≠ dotdot ∧ '/' ∉ c) ∧
    (∀ e, _safe_join env base rel = .error e → e.cls = "Bad7zFile") := by
  rw [safe_join_eq]
  constructor
  · intro p hp
    cases hj : safeJoin env.cwd base rel with
    | ok q =>
      rw [hj] at hp
      simp only [Except.mapError, Except.ok.injEq] at hp
      subst hp
      exact C09_safe_join env.cwd base rel q habs hnorm hj
    | error x => rw [hj] at hp; simp [Except.mapError] at hp
  · intro e he
    cases hj : safeJoin env.cwd base rel with
    | ok q => rw [hj] at he; simp [Except.mapError] at he
    | error x =>
      rw [hj] at he
      simp only [Except.mapError, Except.error.injEq] at he
      subst he
      rfl

/-! ### Non-vacuity -/
example : isAbs "/tmp/x".toList = true ∧ normpath "/tmp/x".toList = "/tmp/x".toList := by decide +kernel
example : _safe_join ⟨id, fun _ => (none, none), "/w".toList⟩ "/tmp/x".toList "a/b.txt".toList
    = .ok "/tmp/x/a/b.txt".toList := by
  rw [safe_join_eq]
  have h : safeJoin "/w".toList "/tmp/x".toList "a/b.txt".toList = .ok "/tmp/x/a/b.txt".toList := by decide +kernel
  show Except.mapError excOf (safeJoin "/w".toList "/tmp/x".toList "a/b.txt".toList) = _
  rw [h]; rfl
example : ∃ e, _safe_join ⟨id, fun _ => (none, none), "/w".toList⟩ "/tmp/x".toList "a/../../b.txt".toList
    = .error e := by
  rw [safe_join_eq]
  have h : safeJoin "/w".toList "/tmp/x".toList "a/../../b.txt".toList = .error .unsafePath := by decide +kernel
  show ∃ e, Except.mapError excOf (safeJoin "/w".toList "/tmp/x".toList "a/../../b.txt".toList) = .error e
  rw [h]; exact ⟨_, rfl⟩
end src

end S2T.C09
