import S2T.Lemmas.Patch
import S2T.Lemmas.Cache
import S2T.Model.AesPatch
import S2T.Model.TempScope
import S2T.Model.Cells
import S2T.Gen.GlobalWrites
import S2T.Props.C15_Conc
import S2T.Props.C15_Settings
import S2T.Props.C15_Suspend
import S2T.Props.C15_Reuse
/-!
# C15 — Isolation: results independent of history and of concurrent work

Statement (fixed): the result of extracting a document does not depend on what the process extracted
before or is extracting concurrently in other threads; after any sequence or interleaving of extractions,
including failed ones, the process-global state the library touches (patched third-party functions,
module-level configuration and caches that influence results, temporary files, open handles) is back to
what it was.

Parts:
* §1 the patch / extract / restore critical section (`S2T.Patch`), any number of threads, any schedule;
* §2 the memo caches are transparent for every history (`S2T.Cache`);
* §3 the one-way AES provider patch (`S2T.AesPatch`): results do not depend on it; it is NOT undone
     (open known finding `aes.provider-patch-not-restored`, `_partial` + counterexample);
* §4 the temporary directory of the 7z generator under every consumer behaviour (`S2T.TempScope`);
* §5 closed world: every global write found in the current source is one of the cells above;
* §6–§8 (`Props/C15_Conc.lean`) the round-key cache under concurrent use, cache keys, generated key / lock facts;
* §9 (`Props/C15_Settings.lean`) save / set / restore sections around interpreter-global settings, registries extended at
     import time: model, counterexamples for the unsynchronised protocol, generated 'no such writer' facts;
* §11 (`Props/C15_Reuse.lean`) objects reused between extractions (total vs partial reset), module tables handed to a
     helper that updates its parameter; generated 'no shared stateful object' / 'no global passed to a mutator' facts.
-/
namespace S2T.C15
open S2T.Patch S2T.Patch.Pc

/-! ## §1 patch / restore, fixed code -/

/-- the state reached by `k` threads under the schedule `sched` (any list of thread ids) -/
abbrev reached (k : Nat) (sched : List Nat) : St := Fixed.run (init k) sched

theorem patch_invariant (k : Nat) (sched : List Nat) : Inv (reached k sched) := inv_run (inv_init k) sched

/-- No thread is inside a section (each is not yet in, or finished — normally or by an exception in its
    body) ⇒ pypdf's function is the original, the user count is 0, nothing is saved, the lock is free. -/
theorem patch_restored (k : Nat) (sched : List Nat)
    (idle : ∀ x ∈ (reached k sched).thr, x.pc = probe ∨ x.pc = acqIn ∨ x.pc = done) :
    (reached k sched).F = 0 ∧ (reached k sched).users = 0 ∧ (reached k sched).saved = [] ∧ (reached k sched).lock = none := by
  have I := patch_invariant k sched
  generalize reached k sched = s at *
  have z : ∀ p, p ≠ probe → p ≠ acqIn → p ≠ done → cnt s.thr p = 0 := by
    intro p h1 h2 h3
    unfold cnt; rw [List.countP_eq_zero]
    intro a ha
    rcases idle a ha with e | e | e <;> simp [e] <;> first | exact h1.symm | exact h2.symm | exact h3.symm
  obtain ⟨mutex, users, depth, saved, _, _, _⟩ := I
  rw [z testIn (by decide) (by decide) (by decide), z save (by decide) (by decide) (by decide),
      z wrap (by decide) (by decide) (by decide), z incr (by decide) (by decide) (by decide),
      z relIn (by decide) (by decide) (by decide), z decr (by decide) (by decide) (by decide),
      z testOut (by decide) (by decide) (by decide), z restore (by decide) (by decide) (by decide),
      z relOut (by decide) (by decide) (by decide)] at mutex
  rw [z relIn (by decide) (by decide) (by decide), z body (by decide) (by decide) (by decide),
      z acqOut (by decide) (by decide) (by decide), z decr (by decide) (by decide) (by decide)] at users
  rw [z incr (by decide) (by decide) (by decide), z testOut (by decide) (by decide) (by decide),
      z restore (by decide) (by decide) (by decide)] at depth
  rw [z wrap (by decide) (by decide) (by decide)] at saved
  have hu : s.users = 0 := by simpa using users
  have hF : s.F = 0 := by rw [depth, hu]; simp
  refine ⟨hF, hu, ?_, ?_⟩
  · rw [saved, hF]; simp
  · cases hl : s.lock with
    | none => rfl
    | some h => rw [hl] at mutex; simp at mutex

/-- corollary in the wording of the property: after all extractions are over -/
theorem patch_restored_all_done (k : Nat) (sched : List Nat) (h : allDone (reached k sched) = true) :
    (reached k sched).F = 0 := by
  refine (patch_restored k sched ?_).1
  intro x hx
  have := List.all_eq_true.mp h x hx
  exact Or.inr (Or.inr (by simpa using this))

/-- While any thread is inside its section (its `extract_text` is running), exactly one wrapper is
    installed over the original — whatever the other threads are doing. -/
theorem patch_depth_inside (k : Nat) (sched : List Nat) (t : Nat) (h : pcOf (reached k sched) t = body) :
    (reached k sched).F = 1 := by
  have I := patch_invariant k sched
  generalize reached k sched = s at *
  unfold pcOf at h
  split at h
  · rename_i x hx
    have hm : x ∈ s.thr := List.mem_of_getElem? hx
    have hc := cnt_pos_of_mem hm
    rw [h] at hc
    have hu := I.users
    rw [I.depth]
    have : s.users > 0 := by omega
    simp [this]
  · cases h

/-- every extraction that has run so far saw depth exactly 1 -/
theorem patch_seen_depth (k : Nat) (sched : List Nat) : ∀ o ∈ (reached k sched).obs, o.2 = 1 :=
  (patch_invariant k sched).seen

/-- the wrapper is never nested, at any time -/
theorem patch_never_nested (k : Nat) (sched : List Nat) : (reached k sched).F ≤ 1 := by
  have I := patch_invariant k sched
  rw [I.depth]; split <;> omega

/-- mutual exclusion of the two locked regions -/
theorem patch_mutex (k : Nat) (sched : List Nat) :
    cnt (reached k sched).thr testIn + cnt (reached k sched).thr save + cnt (reached k sched).thr wrap
    + cnt (reached k sched).thr incr + cnt (reached k sched).thr relIn + cnt (reached k sched).thr decr
    + cnt (reached k sched).thr testOut + cnt (reached k sched).thr restore + cnt (reached k sched).thr relOut ≤ 1 := by
  have I := patch_invariant k sched
  rw [I.mutex]; split <;> omega

/-- no deadlock: as long as some thread is not finished, some thread can take a step -/
theorem patch_no_deadlock (k : Nat) (sched : List Nat) (h : allDone (reached k sched) = false) :
    ∃ t, Fixed.step (reached k sched) t ≠ reached k sched := by
  have I := patch_invariant k sched
  generalize reached k sched = s at *
  -- a thread that is not done
  have hex : ∃ x ∈ s.thr, x.pc ≠ done := by
    unfold allDone at h
    have := (List.all_eq_false.mp h)
    obtain ⟨x, hx, hp⟩ := this
    exact ⟨x, hx, by simpa using hp⟩
  -- pick the thread to run: the lock holder's region if the lock is taken, any unfinished thread otherwise
  have pick : ∃ x ∈ s.thr, x.pc ≠ done ∧ (s.lock.isSome = true → x.pc ≠ acqIn ∧ x.pc ≠ acqOut) := by
    cases hl : s.lock with
    | none => obtain ⟨x, hx, hp⟩ := hex; exact ⟨x, hx, hp, by simp⟩
    | some hd =>
      have m := I.mutex
      rw [hl] at m; simp at m
      have : ∃ p, (p = testIn ∨ p = save ∨ p = wrap ∨ p = incr ∨ p = relIn ∨ p = decr ∨ p = testOut ∨ p = restore ∨ p = relOut)
          ∧ cnt s.thr p > 0 := by
        by_cases h1 : cnt s.thr testIn > 0; exact ⟨_, by simp, h1⟩
        by_cases h2 : cnt s.thr save > 0; exact ⟨_, by simp, h2⟩
        by_cases h3 : cnt s.thr wrap > 0; exact ⟨_, by simp, h3⟩
        by_cases h4 : cnt s.thr incr > 0; exact ⟨_, by simp, h4⟩
        by_cases h5 : cnt s.thr relIn > 0; exact ⟨_, by simp, h5⟩
        by_cases h6 : cnt s.thr decr > 0; exact ⟨_, by simp, h6⟩
        by_cases h7 : cnt s.thr testOut > 0; exact ⟨_, by simp, h7⟩
        by_cases h8 : cnt s.thr restore > 0; exact ⟨_, by simp, h8⟩
        by_cases h9 : cnt s.thr relOut > 0; exact ⟨_, by simp, h9⟩
        omega
      obtain ⟨p, hp, hc⟩ := this
      obtain ⟨x, hx, hxp⟩ := mem_of_cnt_pos hc
      refine ⟨x, hx, ?_, fun _ => ?_⟩ <;> rcases hp with e | e | e | e | e | e | e | e | e <;> subst e <;> simp [hxp]
  obtain ⟨x, hx, hnd, hlk⟩ := pick
  obtain ⟨t, ht⟩ := idx_of_mem hx
  refine ⟨t, ?_⟩
  have htl : t < s.thr.length := by
    rcases Nat.lt_or_ge t s.thr.length with h | h
    · exact h
    · rw [List.getElem?_eq_none h] at ht; cases ht
  -- the step changes the program counter of thread t
  intro heq
  have hpc : pcOf (Fixed.step s t) t = x.pc := by rw [heq]; unfold pcOf; rw [ht]
  revert hpc
  unfold Fixed.step
  rw [ht]
  simp only []
  cases hx' : x.pc <;> simp [hx'] at hnd hlk ⊢ <;>
    (try (cases hl : s.lock <;> simp [hl] at hlk ⊢)) <;>
    (try split) <;> simp [pcOf, htl]

example : allDone (reached 3 [0,0,0,0,0,0,0,0,0,0,0,0,0, 1,1,1,1,1,1,1,1,1,1,1,1,1, 2,2,2,2,2,2,2,2,2,2,2,2,2]) = true := by decide
/-- a genuinely overlapping schedule: three threads inside the section at the same time -/
example : let s := reached 3 [0,0,0,0,0,0,0, 1,1,1,1,1, 2,2,2,2,2]
    pcOf s 0 = body ∧ pcOf s 1 = body ∧ pcOf s 2 = body ∧ s.F = 1 ∧ s.users = 3 := by decide
/-- A.enter B.enter A.exit B.exit on the fixed code -/
example : let s := reached 2 [0,0,0,0,0,0,0, 1,1,1,1,1, 0,0,0,0,0,0, 1,1,1,1,1,1]
    allDone s = true ∧ s.F = 0 ∧ s.obs = [(0, 1), (1, 1)] := by decide

/-! ## §1b the code before fix-charmap-patch-lock.patch

Full-strength statements, FALSE for the legacy protocol:
  `∀ k sched, allDone (Legacy.run (init k) sched) → (Legacy.run (init k) sched).F = 0`
  `∀ k sched, ∀ o ∈ (Legacy.run (init k) sched).obs, o.2 = 1` -/

/-- A.enter B.enter A.exit B.exit: pypdf's function stays wrapped for the rest of the process … -/
theorem legacy_not_restored :
    ∃ sched, allDone (Legacy.run (init 2) sched) = true ∧ (Legacy.run (init 2) sched).F ≠ 0 :=
  ⟨[0,0,0, 1,1,1, 0,0, 1,1], by decide⟩

/-- … and inside their sections A ran under two wrappers and B under none (its digits are not repaired). -/
theorem legacy_depth_violated :
    ∃ sched, (Legacy.run (init 2) sched).obs = [(0, 2), (1, 0)] :=
  ⟨[0,0,0, 1,1,1, 0,0, 1,1], by decide⟩

/-- what remains true of the legacy code: a single section restores what it found (no overlap). -/
theorem legacy_restored_partial (f : Nat) :
    let s0 : St := { init 1 with F := f }
    (Legacy.run s0 [0,0,0,0,0]).F = f ∧ (Legacy.run s0 [0,0,0,0,0]).obs = [(0, f + 1)] ∧ allDone (Legacy.run s0 [0,0,0,0,0]) = true := by
  simp [Legacy.run, Legacy.step, init, allDone]

/-! ## §2 caches: `cached f history x = f x` for every history -/
open S2T.Cache

/-- one call of an LRU-cached function returns what the function returns, and keeps the cache honest -/
theorem cache_lru_transparent {K V E} [DecidableEq K] (cap : Nat) (f : K → Except E V) (c : Cache K V) (k : K)
    (hc : Consistent f c) : (lruGet cap f c k).1 = f k ∧ Consistent f (lruGet cap f c k).2 :=
  lruGet_spec cap f c k hc

/-- `_get_round_keys` / every `lru_cache` site: for every history `h` of earlier calls (hits, misses,
    evictions, failed calls), the cached function returns `f k`. -/
theorem cache_lru_history_independent {K V E} [DecidableEq K] (cap : Nat) (f : K → Except E V) (h : List K) (k : K) :
    (lruGet cap f (lruRun cap f [] h) k).1 = f k :=
  (lruGet_spec cap f _ k (lruRun_consistent cap f [] (by intro kv hkv; cases hkv) h)).1

example : Consistent (fun k : Nat => if k < 3 then Except.ok (ε := Unit) (k * 2) else .error ()) [(1, 2), (2, 4)] := by
  intro kv h; simp at h; rcases h with h | h <;> subst h <;> rfl
/-- eviction really happens (capacity 4, five keys) and a failed call stores nothing -/
example : (lruRun 4 (fun k : Nat => if k < 9 then Except.ok (ε := Unit) (k * 2) else .error ()) [] [0,1,2,3,0,4,9]).map (·.1)
    = [2,3,0,4] := by decide

/-- `_ttf_get_glyph_features` after fix-font-cache-key.patch, for every history of (font, glyph ids) calls -/
theorem cache_font_history_independent {K P G V} [DecidableEq K] (parse : K → P) (feat : K → P → G → V)
    (h : List (K × G)) (k : K) (g : G) :
    (FontFixed.get parse feat (FontFixed.run parse feat [] h) k g).1 = feat k (parse k) g :=
  (fontFixed_spec parse feat _ k g (fontFixed_run_consistent parse feat [] (by intro kp hkp; cases hkp) h)).1

/-- Full-strength statement FALSE for the legacy `_FONT_CACHE`
    (`∀ h k g, (FontLegacy.get gfun (run h) k g).1 = gfun k g`): the second caller of a font gets the
    features of the first caller's glyph ids. -/
theorem cache_font_legacy_counterexample :
    let gfun : Nat → List Nat → List Nat := fun _font gids => gids        -- "features of exactly the requested glyphs"
    let c1 := (FontLegacy.get gfun [] 7 [0]).2
    (FontLegacy.get gfun c1 7 [1, 2]).1 ≠ gfun 7 [1, 2] := by decide

/-- `_get_type_registry`: whatever was asked before, the registry returned is the scan of `data_types` -/
theorem cache_registry_transparent {K V} (scan : List (K × V)) (n : Nat) :
    (registryGet scan (Nat.repeat (fun c => (registryGet scan c).2) n [])).1 = scan := by
  have h : ∀ n, Nat.repeat (fun c => (registryGet scan c).2) n [] = [] ∨ Nat.repeat (fun c => (registryGet scan c).2) n [] = scan := by
    intro n
    induction n with
    | zero => exact Or.inl rfl
    | succ m ih =>
      simp only [Nat.repeat]
      rcases ih with e | e <;> rw [e] <;> unfold registryGet
      · simp
      · cases scan <;> simp
  rcases h n with e | e <;> rw [e] <;> unfold registryGet
  · simp
  · cases scan <;> simp

/-! ## §3 the AES provider patch -/
open S2T.AesPatch

/-- the result of extracting a PDF does not depend on whether the process has patched pypdf before -/
theorem aes_result_history_independent (p : Provider) (s s' : AesPatch.St) (d : Doc) :
    (Fixed.extract p s d).1 = (Fixed.extract p s' d).1 := by
  obtain ⟨b⟩ := s; obtain ⟨b'⟩ := s'; obtain ⟨e, pw⟩ := d
  cases p <;> cases b <;> cases b' <;> cases e <;> cases pw <;> decide

/-- … hence in any sequence every document gets the result it gets alone in a fresh process -/
theorem aes_sequence_independent (p : Provider) (s : AesPatch.St) (ds : List Doc) :
    (Fixed.runSeq p s ds).1 = ds.map (fun d => (Fixed.extract p ⟨false⟩ d).1) := by
  induction ds generalizing s with
  | nil => rfl
  | cons d r ih =>
    simp only [Fixed.runSeq, List.map_cons]
    rw [ih, aes_result_history_independent p s ⟨false⟩ d]

/-- FALSE before fix-aes-fallback-eager.patch: an AES-128 document with an empty user password fails in a
    fresh process and succeeds once any AES-256 document has been opened. -/
theorem aes_legacy_counterexample :
    (Legacy.extract .fallback ⟨false⟩ ⟨.aesV4, true⟩).1 = .failed ∧
    (Legacy.extract .fallback (Legacy.extract .fallback ⟨false⟩ ⟨.aesV5, true⟩).2 ⟨.aesV4, true⟩).1 = .ok := by decide

theorem aes_patch_idempotent (p : Provider) (s : AesPatch.St) (d : Doc) :
    (patch p (patch p s).2) = (patch p s) ∧
    (Fixed.extract p (Fixed.extract p s d).2 d) = ((Fixed.extract p s d).1, (Fixed.extract p s d).2) := by
  obtain ⟨b⟩ := s; obtain ⟨e, pw⟩ := d
  cases p <;> cases b <;> cases e <;> cases pw <;> decide

/-- Full-strength statement `∀ p s d, (Fixed.extract p s d).2 = s` is FALSE (open known finding
    `aes.provider-patch-not-restored`): the first encrypted PDF leaves pypdf's fallback provider patched. -/
theorem aes_state_not_restored : (Fixed.extract .fallback ⟨false⟩ ⟨.rc4, true⟩).2 ≠ ⟨false⟩ := by decide

/-- what holds: the state changes only on the fallback provider, only for an encrypted document, only the
    first time — and only in the direction unpatched → patched. -/
theorem aes_state_restored_partial (p : Provider) (s : AesPatch.St) (d : Doc)
    (h : p = .native ∨ d.enc = .none ∨ s.patched = true) : (Fixed.extract p s d).2 = s := by
  obtain ⟨b⟩ := s; obtain ⟨e, pw⟩ := d
  cases p <;> cases b <;> cases e <;> cases pw <;> simp at h <;> decide

example : (Provider.fallback = .native ∨ (Doc.mk .aesV5 true).enc = .none ∨ (AesPatch.St.mk true).patched = true) := by decide

theorem aes_state_monotone (p : Provider) (s : AesPatch.St) (d : Doc) :
    s.patched = true → (Fixed.extract p s d).2.patched = true := by
  obtain ⟨b⟩ := s; obtain ⟨e, pw⟩ := d
  cases p <;> cases b <;> cases e <;> cases pw <;> decide

/-! ## §4 temporary directory of the 7z generator -/
open S2T.TempScope

/-- whatever `extractall` does, whatever the members do and however the consumer ends the generator
    (exhausts it, closes it after k members, throws into it), the set of live temporary directories is
    what it was. -/
theorem temp_scope_restored (live : List Nat) (fresh : Nat) (fails : Bool) (members : List Bool) (c : Consumer) :
    (run7z live fresh fails members c).2 = live := by
  simp [run7z]

/-- the three consumer behaviours really differ in what they get out of the generator -/
example : (run7z [] 0 false [true, true, false, true] .exhaust).1 = .raised 2 ∧
          (run7z [] 0 false [true, true, true] (.closeAfter 1)).1 = .closed 1 ∧
          (run7z [] 0 false [true, true, true] (.throwAfter 2)).1 = .raised 2 ∧
          (run7z [] 0 true [true] .exhaust).1 = .raised 0 := by decide

/-! ## §5 closed world: the inventory generated from the current source -/
open S2T.Cells S2T.Gen.GlobalWrites

/-- every global write site in the package is accounted for by one of the models -/
theorem inventory_accounted : ∀ s ∈ sites, (account s).isSome = true := by decide +kernel

/-- … and every writer the models talk about still exists in the source -/
theorem inventory_no_stale : ∀ a ∈ explicit, a.1 ∈ sites := by decide +kernel

/-- every module-level container that some function writes is owned by a model; the others are never written -/
theorem inventory_mutables_owned : ∀ m ∈ mutables, hasWriter sites m = true → (m.1, m.2.1) ∈ ownedMutables := by
  decide +kernel

/-- side conditions the models rely on -/
theorem inventory_side_conditions :
    notes = [] ∧
    patchTargets.length = 1 ∧                                       -- one patched cell (pypdf < 6.6)
    (∀ t ∈ tempSites, t.2.2.2 = "with".toList) ∧                     -- temp dirs only as `with` scopes
    configCallers = [] ∧                                            -- no package code rebinds `_config`
    (∀ l ∈ lruSites, l.2.2 > 0) ∧                                    -- bounded LRU caches
    roundKeyCacheMax > 0 ∧
    (∃ m ∈ mutables, m.2.1 = "_CHAR_MAP_PATCH_LOCK".toList) ∧        -- the patch cell has its lock
    aesCells.length = (sites.filter isAesSite).length := by
  decide +kernel

end S2T.C15
