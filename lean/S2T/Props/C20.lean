import S2T.Lemmas.AesModes
import S2T.Lemmas.AesKatFips
import S2T.Lemmas.AesKatEcb128
import S2T.Lemmas.AesKatEcb192
import S2T.Lemmas.AesKatEcb256
import S2T.Lemmas.AesKatCbc128
import S2T.Lemmas.AesKatCbc192
import S2T.Lemmas.AesKatCbc256
import S2T.Gen.Aes
import S2T.Props.C20_Src
import S2T.Props.C20_Reentrant
/-!
# C20 — the built-in AES equals FIPS-197 AES in ECB/CBC for every key and block

Statement: *The built-in AES used to open AES-encrypted PDFs when no crypto library is installed computes exactly
FIPS-197 AES with 128-, 192- and 256-bit keys in ECB and CBC mode for every key, IV and block-aligned message;
decryption inverts encryption, and the stream wrapper prepends a fresh IV, pads on encryption and removes exactly
that padding on decryption. Wrong key or data lengths are rejected with ValueError.*

Layout
* `S2T.Spec.Fips197`   — FIPS-197 / SP 800-38A written from the standards; validated in the kernel by the known
  answers re-exported below (`C20_kat_*`).
* `S2T.Aes` (Model/Aes.lean) — model of `_pypdf_aes_fallback.py`, function by function, tables as a parameter.
* generic theorems: for every `T` with `TablesOk T` (all 8×256 table entries and the 15 `_RCON` entries are the
  FIPS-197 functions), every key of 16/24/32 bytes, every IV of 16 bytes, every list of 16-byte blocks / every
  message of any length.
* `C20_table_*` / `C20_tables` : `TablesOk` of the tables regenerated from the current source, re-decided by the
  kernel on every run; `C20_src_*` are the generic theorems at the current tables.
Quantifiers are unbounded (lists of any length); `decide +kernel` is used only over the complete 256-byte domain
and for closed known-answer computations.
-/
namespace S2T.C20
open S2T.Aes S2T.AesL S2T.Spec
set_option maxRecDepth 100000

/-! ## 1. the tables of the current source -/

/-- the translator found every table to be what the source shows -/
theorem gen_notes_empty : S2T.Gen.Aes.notes = [] := by decide

theorem C20_table_sbox : TabOk S2T.Gen.Aes.sbox Fips197.sbox := by decide +kernel
theorem C20_table_inv_sbox : TabOk S2T.Gen.Aes.invSbox Fips197.invSbox := by decide +kernel
theorem C20_table_mul2 : TabOk S2T.Gen.Aes.mul2 (fun a => Fips197.gmul a 2) := by decide +kernel
theorem C20_table_mul3 : TabOk S2T.Gen.Aes.mul3 (fun a => Fips197.gmul a 3) := by decide +kernel
theorem C20_table_mul9 : TabOk S2T.Gen.Aes.mul9 (fun a => Fips197.gmul a 9) := by decide +kernel
theorem C20_table_mul11 : TabOk S2T.Gen.Aes.mul11 (fun a => Fips197.gmul a 11) := by decide +kernel
theorem C20_table_mul13 : TabOk S2T.Gen.Aes.mul13 (fun a => Fips197.gmul a 13) := by decide +kernel
theorem C20_table_mul14 : TabOk S2T.Gen.Aes.mul14 (fun a => Fips197.gmul a 14) := by decide +kernel
theorem C20_table_rcon : RconOk S2T.Gen.Aes.rcon := by decide +kernel

/-- all 256 entries of each of the eight byte tables and all 15 of `_RCON` are the FIPS-197 functions -/
theorem C20_tables : TablesOk S2T.Gen.Aes.tables :=
  ⟨C20_table_sbox, C20_table_inv_sbox, C20_table_mul2, C20_table_mul3, C20_table_mul9, C20_table_mul11,
   C20_table_mul13, C20_table_mul14, C20_table_rcon⟩

/-- the import-time helpers (`_xtime`, `_gf_mul`, `_build_mul_table`, `_build_rcon`) as modelled build exactly
    these tables: multiplication by 2, 3, 9, 11, 13, 14 on all 256 bytes, and the round constants -/
theorem C20_build_tables :
    TabOk (buildMulTable 2) (fun a => Fips197.gmul a 2) ∧ TabOk (buildMulTable 3) (fun a => Fips197.gmul a 3) ∧
    TabOk (buildMulTable 9) (fun a => Fips197.gmul a 9) ∧ TabOk (buildMulTable 11) (fun a => Fips197.gmul a 11) ∧
    TabOk (buildMulTable 13) (fun a => Fips197.gmul a 13) ∧ TabOk (buildMulTable 14) (fun a => Fips197.gmul a 14) ∧
    RconOk (buildRcon 14) ∧ (∀ a, a < 256 → xtime a = Fips197.gmul a 2) := by
  refine ⟨?_, ?_, ?_, ?_, ?_, ?_, ?_, ?_⟩ <;> decide +kernel

/-! ## 2. validation of the specification: FIPS-197 and SP 800-38A known answers (kernel-evaluated) -/

theorem C20_kat_fips197_appendix_C :
    Fips197.aesEnc (List.range 16) [0x00,0x11,0x22,0x33,0x44,0x55,0x66,0x77,0x88,0x99,0xaa,0xbb,0xcc,0xdd,0xee,0xff]
      = [0x69,0xc4,0xe0,0xd8,0x6a,0x7b,0x04,0x30,0xd8,0xcd,0xb7,0x80,0x70,0xb4,0xc5,0x5a] ∧
    Fips197.aesEnc (List.range 24) [0x00,0x11,0x22,0x33,0x44,0x55,0x66,0x77,0x88,0x99,0xaa,0xbb,0xcc,0xdd,0xee,0xff]
      = [0xdd,0xa9,0x7c,0xa4,0x86,0x4c,0xdf,0xe0,0x6e,0xaf,0x70,0xa0,0xec,0x0d,0x71,0x91] ∧
    Fips197.aesEnc (List.range 32) [0x00,0x11,0x22,0x33,0x44,0x55,0x66,0x77,0x88,0x99,0xaa,0xbb,0xcc,0xdd,0xee,0xff]
      = [0x8e,0xa2,0xb7,0xca,0x51,0x67,0x45,0xbf,0xea,0xfc,0x49,0x90,0x4b,0x49,0x60,0x89] :=
  ⟨Kat.c1_cipher, Kat.c2_cipher, Kat.c3_cipher⟩

theorem C20_kat_fips197_appendix_C_inverse :
    Fips197.aesDec (List.range 16) [0x69,0xc4,0xe0,0xd8,0x6a,0x7b,0x04,0x30,0xd8,0xcd,0xb7,0x80,0x70,0xb4,0xc5,0x5a]
      = [0x00,0x11,0x22,0x33,0x44,0x55,0x66,0x77,0x88,0x99,0xaa,0xbb,0xcc,0xdd,0xee,0xff] ∧
    Fips197.aesDec (List.range 24) [0xdd,0xa9,0x7c,0xa4,0x86,0x4c,0xdf,0xe0,0x6e,0xaf,0x70,0xa0,0xec,0x0d,0x71,0x91]
      = [0x00,0x11,0x22,0x33,0x44,0x55,0x66,0x77,0x88,0x99,0xaa,0xbb,0xcc,0xdd,0xee,0xff] ∧
    Fips197.aesDec (List.range 32) [0x8e,0xa2,0xb7,0xca,0x51,0x67,0x45,0xbf,0xea,0xfc,0x49,0x90,0x4b,0x49,0x60,0x89]
      = [0x00,0x11,0x22,0x33,0x44,0x55,0x66,0x77,0x88,0x99,0xaa,0xbb,0xcc,0xdd,0xee,0xff] :=
  ⟨Kat.c1_invCipher, Kat.c2_invCipher, Kat.c3_invCipher⟩

/-- FIPS-197 Appendix B (cipher example) and Appendix A.1–A.3 (last word of each key schedule) -/
theorem C20_kat_fips197_appendix_A_B :
    Fips197.aesEnc Kat.key128 [0x32,0x43,0xf6,0xa8,0x88,0x5a,0x30,0x8d,0x31,0x31,0x98,0xa2,0xe0,0x37,0x07,0x34]
      = [0x39,0x25,0x84,0x1d,0x02,0xdc,0x09,0xfb,0xdc,0x11,0x85,0x97,0x19,0x6a,0x0b,0x32] ∧
    (Fips197.keyExpansion Kat.key128).getD 43 [] = [0xb6, 0x63, 0x0c, 0xa6] ∧
    (Fips197.keyExpansion Kat.key192).getD 51 [] = [0x01, 0x00, 0x22, 0x02] ∧
    (Fips197.keyExpansion Kat.key256).getD 59 [] = [0x70, 0x6c, 0x63, 0x1e] :=
  ⟨Kat.b_cipher, Kat.a1_lastWord, Kat.a2_lastWord, Kat.a3_lastWord⟩

/-- SP 800-38A F.1.1–F.1.6: ECB-AES128/192/256 Encrypt and Decrypt, four blocks each -/
theorem C20_kat_sp800_38a_ecb :
    Fips197.ecbEncrypt Kat.key128 Kat.pt = Kat.ecb128 ∧ Fips197.ecbDecrypt Kat.key128 Kat.ecb128 = Kat.pt ∧
    Fips197.ecbEncrypt Kat.key192 Kat.pt = Kat.ecb192 ∧ Fips197.ecbDecrypt Kat.key192 Kat.ecb192 = Kat.pt ∧
    Fips197.ecbEncrypt Kat.key256 Kat.pt = Kat.ecb256 ∧ Fips197.ecbDecrypt Kat.key256 Kat.ecb256 = Kat.pt :=
  ⟨Kat.ecb128_encrypt, Kat.ecb128_decrypt, Kat.ecb192_encrypt, Kat.ecb192_decrypt, Kat.ecb256_encrypt,
   Kat.ecb256_decrypt⟩

/-- SP 800-38A F.2.1–F.2.6: CBC-AES128/192/256 Encrypt and Decrypt, four blocks each -/
theorem C20_kat_sp800_38a_cbc :
    Fips197.cbcEncrypt Kat.key128 Kat.iv Kat.pt = Kat.cbc128 ∧ Fips197.cbcDecrypt Kat.key128 Kat.iv Kat.cbc128 = Kat.pt ∧
    Fips197.cbcEncrypt Kat.key192 Kat.iv Kat.pt = Kat.cbc192 ∧ Fips197.cbcDecrypt Kat.key192 Kat.iv Kat.cbc192 = Kat.pt ∧
    Fips197.cbcEncrypt Kat.key256 Kat.iv Kat.pt = Kat.cbc256 ∧ Fips197.cbcDecrypt Kat.key256 Kat.iv Kat.cbc256 = Kat.pt :=
  ⟨Kat.cbc128_encrypt, Kat.cbc128_decrypt, Kat.cbc192_encrypt, Kat.cbc192_decrypt, Kat.cbc256_encrypt,
   Kat.cbc256_decrypt⟩

/-- the spec's `ginv` is the multiplicative inverse in GF(2⁸), its S-box and inverse S-box are mutually inverse
    bijections of the bytes -/
theorem C20_spec_sbox_algebra :
    (∀ a, a < 256 → a ≠ 0 → Fips197.gmul a (Fips197.ginv a) = 1) ∧ Fips197.ginv 0 = 0 ∧
    (∀ a, a < 256 → Fips197.invSbox (Fips197.sbox a) = a) ∧ (∀ a, a < 256 → Fips197.sbox (Fips197.invSbox a) = a) :=
  ⟨gmul_ginv, ginv_zero, invSbox_sbox, sbox_invSbox⟩

/-! ## 3. generic theorems: every table set with `TablesOk`, every key / IV / message -/

section generic
variable {T : Tables}

/-- every round function of the code is the FIPS-197 transformation, on every 16-byte state -/
theorem C20_round_functions (hT : TablesOk T) {s k : List Nat} (hs : Block s) (hk : Block k) :
    subBytes T s = Fips197.subBytes s ∧ invSubBytes T s = Fips197.invSubBytes s ∧
    shiftRows s = Fips197.shiftRows s ∧ invShiftRows s = Fips197.invShiftRows s ∧
    mixColumns T s = Fips197.mixColumns s ∧ invMixColumns T s = Fips197.invMixColumns s ∧
    addRoundKey s k = Fips197.addRoundKey s k :=
  ⟨subBytes_eq hT hs, invSubBytes_eq hT hs, shiftRows_eq hs.1, invShiftRows_eq hs.1, mixColumns_eq hT hs,
   invMixColumns_eq hT hs, addRoundKey_eq hs.1 hk.1⟩

/-- …and each maps 16-byte blocks to 16-byte blocks (so no table index ever leaves 0..255) -/
theorem C20_round_functions_closed {s k : List Nat} (hs : Block s) (hk : Block k) :
    Block (Fips197.subBytes s) ∧ Block (Fips197.invSubBytes s) ∧ Block (Fips197.shiftRows s) ∧
    Block (Fips197.invShiftRows s) ∧ Block (Fips197.mixColumns s) ∧ Block (Fips197.invMixColumns s) ∧
    Block (Fips197.addRoundKey s k) :=
  ⟨subBytes_block hs, invSubBytes_block hs, shiftRows_block hs, invShiftRows_block hs, mixColumns_block hs,
   invMixColumns_block hs, addRoundKey_block hs hk⟩

/-- `_expand_key` = FIPS-197 KeyExpansion for Nk = 4, 6, 8: the Nr+1 round keys -/
theorem C20_expand (hT : TablesOk T) {key : List Nat} (hk : KeyOk key) :
    expandKey T key = .ok ((List.range (Fips197.Nr key + 1)).map (Fips197.roundKey (Fips197.keyExpansion key))) :=
  expandKey_eq hT hk

/-- `_aes_encrypt_block(block, _expand_key(key))` = FIPS-197 Cipher -/
theorem C20_encrypt_block (hT : TablesOk T) {key b : List Nat} (hk : KeyOk key) (hb : Block b) :
    (expandKey T key >>= fun rks => encryptBlock T b rks) = .ok (Fips197.aesEnc key b) := by
  rw [expandKey_eq hT hk]; exact encryptBlock_eq hT hk hb

/-- `_aes_decrypt_block(block, _expand_key(key))` = FIPS-197 InvCipher -/
theorem C20_decrypt_block (hT : TablesOk T) {key b : List Nat} (hk : KeyOk key) (hb : Block b) :
    (expandKey T key >>= fun rks => decryptBlock T b rks) = .ok (Fips197.aesDec key b) := by
  rw [expandKey_eq hT hk]; exact decryptBlock_eq hT hk hb

/-- FIPS-197 InvCipher inverts Cipher for every key and block (specification level) -/
theorem C20_spec_inverse {key b : List Nat} (hk : KeyOk key) (hb : Block b) :
    Fips197.aesDec key (Fips197.aesEnc key b) = b := aesDec_aesEnc hk hb

/-- block decryption of the code inverts its block encryption, for every key and block -/
theorem C20_inverse (hT : TablesOk T) {key b : List Nat} (hk : KeyOk key) (hb : Block b) :
    ∃ rks c, expandKey T key = .ok rks ∧ encryptBlock T b rks = .ok c ∧ Block c ∧ decryptBlock T c rks = .ok b := by
  refine ⟨_, Fips197.aesEnc key b, expandKey_eq hT hk, encryptBlock_eq hT hk hb, aesEnc_block hk hb, ?_⟩
  have := decryptBlock_eq hT hk (aesEnc_block hk hb)
  rw [aesDec_aesEnc hk hb] at this
  exact this

/-- `aes_ecb_encrypt` = SP 800-38A ECB encryption with FIPS-197 AES, for every key and every list of blocks -/
theorem C20_ecb_encrypt (hT : TablesOk T) {key : List Nat} {bs : List (List Nat)} (hk : KeyOk key) (hbs : Blocks bs) :
    aesEcbEncrypt T key bs.flatten = .ok (Fips197.ecbEncrypt key bs).flatten := aesEcbEncrypt_eq hT hk hbs

theorem C20_ecb_decrypt (hT : TablesOk T) {key : List Nat} {bs : List (List Nat)} (hk : KeyOk key) (hbs : Blocks bs) :
    aesEcbDecrypt T key bs.flatten = .ok (Fips197.ecbDecrypt key bs).flatten := aesEcbDecrypt_eq hT hk hbs

/-- `aes_cbc_encrypt` = SP 800-38A CBC encryption, for every key, IV and list of blocks -/
theorem C20_cbc_encrypt (hT : TablesOk T) {key iv : List Nat} {bs : List (List Nat)} (hk : KeyOk key)
    (hiv : Block iv) (hbs : Blocks bs) :
    aesCbcEncrypt T key iv bs.flatten = .ok (Fips197.cbcEncrypt key iv bs).flatten := aesCbcEncrypt_eq hT hk hiv hbs

theorem C20_cbc_decrypt (hT : TablesOk T) {key iv : List Nat} {bs : List (List Nat)} (hk : KeyOk key)
    (hiv : Block iv) (hbs : Blocks bs) :
    aesCbcDecrypt T key iv bs.flatten = .ok (Fips197.cbcDecrypt key iv bs).flatten := aesCbcDecrypt_eq hT hk hiv hbs

/-- every block-aligned byte string is a list of blocks, so the four theorems above cover every accepted message -/
theorem C20_block_aligned {d : List Nat} (hd : IsBytes d) (hl : d.length % 16 = 0) :
    ∃ bs, Blocks bs ∧ bs.flatten = d := by
  obtain ⟨bs, h1, h2, _⟩ := exists_blocks (d.length / 16) d (by omega) hd
  exact ⟨bs, h1, h2⟩

/-- ECB decryption inverts ECB encryption: every key, every block-aligned message -/
theorem C20_ecb_inverse (hT : TablesOk T) {key d : List Nat} (hk : KeyOk key) (hd : IsBytes d) (hl : d.length % 16 = 0) :
    ∃ c, aesEcbEncrypt T key d = .ok c ∧ c.length = d.length ∧ IsBytes c ∧ aesEcbDecrypt T key c = .ok d := by
  obtain ⟨bs, h1, rfl⟩ := C20_block_aligned hd hl
  have hc := ecbEncrypt_blocks hk h1
  refine ⟨_, aesEcbEncrypt_eq hT hk h1, ?_, isBytes_flatten hc, ?_⟩
  · rw [length_flatten_blocks hc, length_flatten_blocks h1]; simp [Fips197.ecbEncrypt]
  · rw [aesEcbDecrypt_eq hT hk hc, ecbDecrypt_ecbEncrypt hk h1]

/-- CBC decryption inverts CBC encryption: every key, IV and block-aligned message -/
theorem C20_cbc_inverse (hT : TablesOk T) {key iv d : List Nat} (hk : KeyOk key) (hiv : Block iv) (hd : IsBytes d)
    (hl : d.length % 16 = 0) :
    ∃ c, aesCbcEncrypt T key iv d = .ok c ∧ IsBytes c ∧ aesCbcDecrypt T key iv c = .ok d := by
  obtain ⟨bs, h1, rfl⟩ := C20_block_aligned hd hl
  have hc := cbcEncrypt_blocks hk bs iv hiv h1
  refine ⟨_, aesCbcEncrypt_eq hT hk hiv h1, isBytes_flatten hc, ?_⟩
  rw [aesCbcDecrypt_eq hT hk hiv hc, cbcDecrypt_cbcEncrypt hk bs iv hiv h1]

/-- `_pkcs7_unpad` removes exactly what `_pkcs7_pad` appended; the padded length is the next multiple of 16 -/
theorem C20_pkcs7 (m : List Nat) :
    pkcs7Unpad (pkcs7Pad m 16) 16 = .ok m ∧ (pkcs7Pad m 16).length = 16 * (m.length / 16 + 1) ∧
    pkcs7Pad m 16 = Fips197.pkcs7Pad 16 m :=
  ⟨pkcs7Unpad_pad m (by decide), pkcs7Pad_length m, rfl⟩

/-- `CryptAES.encrypt` = IV ‖ CBC(key, IV, PKCS#7(m)) for the IV it drew -/
theorem C20_wrapper_encrypt (hT : TablesOk T) {key iv m : List Nat} (hk : KeyOk key) (hiv : Block iv) (hm : IsBytes m) :
    ∃ bs, Blocks bs ∧ bs.flatten = Fips197.pkcs7Pad 16 m ∧ bs.length = m.length / 16 + 1 ∧
      cryptAesEncrypt T key iv m = .ok (iv ++ (Fips197.cbcEncrypt key iv bs).flatten) :=
  cryptAesEncrypt_eq hT hk hiv hm

/-- `CryptAES.decrypt (CryptAES.encrypt m) = m` for every key, every drawn IV and every message length;
    the ciphertext starts with the IV and is 16 + 16·(⌊len/16⌋+1) bytes long -/
theorem C20_wrapper (hT : TablesOk T) {key iv m : List Nat} (hk : KeyOk key) (hiv : Block iv) (hm : IsBytes m) :
    ∃ c, cryptAesEncrypt T key iv m = .ok c ∧ c.take 16 = iv ∧ c.length = 16 + 16 * (m.length / 16 + 1) ∧
      cryptAesDecrypt T key c = .ok m :=
  cryptAes_roundtrip hT hk hiv hm

/-- wrong key / IV / data lengths are rejected with ValueError — whatever the tables and the byte values -/
theorem C20_lengths_reject (T : Tables) (key iv data : List Nat) :
    ((data.length % 16 ≠ 0 ∨ (key.length ≠ 16 ∧ key.length ≠ 24 ∧ key.length ≠ 32)) →
      aesEcbEncrypt T key data = .error .valueError ∧ aesEcbDecrypt T key data = .error .valueError) ∧
    ((iv.length ≠ 16 ∨ data.length % 16 ≠ 0 ∨ (key.length ≠ 16 ∧ key.length ≠ 24 ∧ key.length ≠ 32)) →
      aesCbcEncrypt T key iv data = .error .valueError ∧ aesCbcDecrypt T key iv data = .error .valueError) := by
  have hkey : (key.length ≠ 16 ∧ key.length ≠ 24 ∧ key.length ≠ 32) → expandKey T key = .error .valueError := by
    intro h; unfold expandKey; rw [if_pos h]
  constructor
  · intro h
    unfold aesEcbEncrypt aesEcbDecrypt
    by_cases hd : data.length % 16 ≠ 0
    · simp [hd]
    · rcases h with h | h
      · exact absurd h hd
      · simp [hkey h]
  · intro h
    unfold aesCbcEncrypt aesCbcDecrypt
    by_cases hi : iv.length ≠ 16
    · simp [hi]
    · by_cases hd : data.length % 16 ≠ 0
      · simp [hd]
      · rcases h with h | h | h
        · exact absurd h hi
        · exact absurd h hd
        · simp [hkey h]

/-- …and nothing else is: with good lengths all four functions succeed (exactness of the rejection) -/
theorem C20_lengths_accept (hT : TablesOk T) {key iv d : List Nat} (hk : KeyOk key) (hiv : Block iv) (hd : IsBytes d)
    (hl : d.length % 16 = 0) :
    (∃ c, aesEcbEncrypt T key d = .ok c) ∧ (∃ c, aesEcbDecrypt T key d = .ok c) ∧
    (∃ c, aesCbcEncrypt T key iv d = .ok c) ∧ (∃ c, aesCbcDecrypt T key iv d = .ok c) := by
  obtain ⟨bs, h1, rfl⟩ := C20_block_aligned hd hl
  exact ⟨⟨_, aesEcbEncrypt_eq hT hk h1⟩, ⟨_, aesEcbDecrypt_eq hT hk h1⟩, ⟨_, aesCbcEncrypt_eq hT hk hiv h1⟩,
    ⟨_, aesCbcDecrypt_eq hT hk hiv h1⟩⟩

/-- `_get_round_keys(key)` answers exactly like `_expand_key(key)` after any history of calls: the invariant
    "every cached entry is `_expand_key` of its key" holds for the empty cache and is preserved, and the cache
    never exceeds its bound -/
theorem C20_cache (T : Tables) (n : Nat) (cache : Cache) (key : List Nat) (hc : CacheOk T cache) :
    (getRoundKeys T n cache key).1 = expandKey T key ∧ CacheOk T (getRoundKeys T n cache key).2 ∧
    (cache.length ≤ n → (getRoundKeys T n cache key).2.length ≤ n) :=
  getRoundKeys_spec T n cache key hc

theorem C20_cache_empty (T : Tables) : CacheOk T [] := by intro e he; cases he

end generic

/-! ## 4. the current source -/

/-- the code as it is now: ECB and CBC, both directions, equal SP 800-38A over FIPS-197 AES -/
theorem C20_src_modes {key iv : List Nat} {bs : List (List Nat)} (hk : KeyOk key) (hiv : Block iv) (hbs : Blocks bs) :
    aesEcbEncrypt S2T.Gen.Aes.tables key bs.flatten = .ok (Fips197.ecbEncrypt key bs).flatten ∧
    aesEcbDecrypt S2T.Gen.Aes.tables key bs.flatten = .ok (Fips197.ecbDecrypt key bs).flatten ∧
    aesCbcEncrypt S2T.Gen.Aes.tables key iv bs.flatten = .ok (Fips197.cbcEncrypt key iv bs).flatten ∧
    aesCbcDecrypt S2T.Gen.Aes.tables key iv bs.flatten = .ok (Fips197.cbcDecrypt key iv bs).flatten :=
  ⟨C20_ecb_encrypt C20_tables hk hbs, C20_ecb_decrypt C20_tables hk hbs, C20_cbc_encrypt C20_tables hk hiv hbs,
   C20_cbc_decrypt C20_tables hk hiv hbs⟩

/-- the code as it is now: the stream wrapper round-trips every message under every key and IV -/
theorem C20_src_wrapper {key iv m : List Nat} (hk : KeyOk key) (hiv : Block iv) (hm : IsBytes m) :
    ∃ c, cryptAesEncrypt S2T.Gen.Aes.tables key iv m = .ok c ∧ c.take 16 = iv ∧
      c.length = 16 + 16 * (m.length / 16 + 1) ∧ cryptAesDecrypt S2T.Gen.Aes.tables key c = .ok m :=
  C20_wrapper C20_tables hk hiv hm

/-! ## 5. the hypotheses are satisfiable by non-trivial values -/

example : KeyOk (List.range 16) ∧ KeyOk (List.range 24) ∧ KeyOk ((List.range 32).map (· + 200)) := by decide
example : Block [0x6b,0xc1,0xbe,0xe2,0x2e,0x40,0x9f,0x96,0xe9,0x3d,0x7e,0x11,0x73,0x93,0x17,0x2a] := by decide
example : Blocks Kat.pt ∧ Kat.pt.length = 4 := by decide
example : IsBytes [1, 2, 3, 255] ∧ IsBytes ([] : List Nat) := by decide
example : ∃ d : List Nat, IsBytes d ∧ d.length % 16 = 0 ∧ d ≠ [] := ⟨List.replicate 32 7, by decide⟩
example : CacheOk S2T.Gen.Aes.tables [] := C20_cache_empty _
/-- a non-empty consistent cache -/
example : ∃ rks, CacheOk S2T.Gen.Aes.tables [(List.range 16, rks)] := by
  refine ⟨specRoundKeys (List.range 16), ?_⟩
  intro e he
  simp only [List.mem_singleton] at he
  subst he
  exact C20_expand C20_tables (by decide)
/-- the rejection hypotheses: a 15-byte key, a 17-byte message -/
example : ([] : List Nat).length % 16 = 0 ∧ (List.range 15).length ≠ 16 ∧ (List.range 17).length % 16 ≠ 0 := by decide

/-! ## 6. the translated source functions themselves (end to end)

§4 is about the hand model at the generated tables; `Props/C20_Src.lean` proves the functions re-translated
from `aes.py` on every run equal to that model.  Composed here: `aes_ecb_encrypt`, `aes_ecb_decrypt`,
`aes_cbc_encrypt`, `aes_cbc_decrypt` **as the source has them now** compute SP 800-38A over FIPS-197 AES, invert
each other, and reject wrong lengths with `ValueError` only. -/
section src
open S2T.Py S2T.Gen.PyAes S2T.C20.Src


/-- **C20 at the source level.** The four mode functions re-translated from `aes.py` on every run compute
    SP 800-38A ECB / CBC over FIPS-197 AES: every key of 16/24/32 bytes, every IV block, every list of blocks. -/
theorem C20_src_functions {key iv : List Nat} {bs : List (List Nat)} (hk : KeyOk key) (hiv : Block iv) (hbs : Blocks bs) :
    aes_ecb_encrypt key bs.flatten = .ok (Fips197.ecbEncrypt key bs).flatten ∧
    aes_ecb_decrypt key bs.flatten = .ok (Fips197.ecbDecrypt key bs).flatten ∧
    aes_cbc_encrypt key iv bs.flatten = .ok (Fips197.cbcEncrypt key iv bs).flatten ∧
    aes_cbc_decrypt key iv bs.flatten = .ok (Fips197.cbcDecrypt key iv bs).flatten := by
  have hd := isBytes_flatten hbs
  obtain ⟨h1, h2, h3, h4⟩ := C20_src_modes hk hiv hbs
  refine ⟨?_, ?_, ?_, ?_⟩
  · rw [aes_ecb_encrypt_eq hk.2 hd]; show liftV _ (aesEcbEncrypt S2T.Gen.Aes.tables key bs.flatten) = _; rw [h1]; rfl
  · rw [aes_ecb_decrypt_eq hk.2 hd]; show liftV _ (aesEcbDecrypt S2T.Gen.Aes.tables key bs.flatten) = _; rw [h2]; rfl
  · rw [aes_cbc_encrypt_eq hk.2 hiv.2 hd]; show liftV _ (aesCbcEncrypt S2T.Gen.Aes.tables key iv bs.flatten) = _; rw [h3]; rfl
  · rw [aes_cbc_decrypt_eq hk.2 hiv.2 hd]; show liftV _ (aesCbcDecrypt S2T.Gen.Aes.tables key iv bs.flatten) = _; rw [h4]; rfl

/-- **C20 at the source level (inverse).** On the translated functions, decryption undoes encryption: every
    key, every IV block, every block-aligned byte string. -/
theorem C20_src_inverse {key iv d : List Nat} (hk : KeyOk key) (hiv : Block iv) (hd : IsBytes d)
    (hl : d.length % 16 = 0) :
    (∃ c, aes_ecb_encrypt key d = .ok c ∧ aes_ecb_decrypt key c = .ok d) ∧
    (∃ c, aes_cbc_encrypt key iv d = .ok c ∧ aes_cbc_decrypt key iv c = .ok d) := by
  constructor
  · obtain ⟨c, h1, _, hc, h2⟩ := C20_ecb_inverse C20_tables hk hd hl
    refine ⟨c, ?_, ?_⟩
    · rw [aes_ecb_encrypt_eq hk.2 hd]; show liftV _ (aesEcbEncrypt S2T.Gen.Aes.tables key d) = _; rw [h1]; rfl
    · rw [aes_ecb_decrypt_eq hk.2 hc]; show liftV _ (aesEcbDecrypt S2T.Gen.Aes.tables key c) = _; rw [h2]; rfl
  · obtain ⟨c, h1, hc, h2⟩ := C20_cbc_inverse C20_tables hk hiv hd hl
    refine ⟨c, ?_, ?_⟩
    · rw [aes_cbc_encrypt_eq hk.2 hiv.2 hd]; show liftV _ (aesCbcEncrypt S2T.Gen.Aes.tables key iv d) = _; rw [h1]; rfl
    · rw [aes_cbc_decrypt_eq hk.2 hiv.2 hc]; show liftV _ (aesCbcDecrypt S2T.Gen.Aes.tables key iv c) = _; rw [h2]; rfl

private theorem ite_cls {c : Prop} [Decidable c] {a b : Py.Exc} {s : String} (ha : a.cls = s) (hb : b.cls = s) :
    (if c then a else b).cls = s := by split <;> assumption

/-- **C20 at the source level (rejection).** With a wrong data, key or IV length the translated functions raise
    `ValueError` and nothing else, whatever the byte values. -/
theorem C20_src_lengths_reject {key iv data : List Nat} (hk : IsBytes key) (hiv : IsBytes iv) (hd : IsBytes data) :
    ((data.length % 16 ≠ 0 ∨ (key.length ≠ 16 ∧ key.length ≠ 24 ∧ key.length ≠ 32)) →
      (∃ e, aes_ecb_encrypt key data = .error e ∧ e.cls = "ValueError") ∧
      (∃ e, aes_ecb_decrypt key data = .error e ∧ e.cls = "ValueError")) ∧
    ((iv.length ≠ 16 ∨ data.length % 16 ≠ 0 ∨ (key.length ≠ 16 ∧ key.length ≠ 24 ∧ key.length ≠ 32)) →
      (∃ e, aes_cbc_encrypt key iv data = .error e ∧ e.cls = "ValueError") ∧
      (∃ e, aes_cbc_decrypt key iv data = .error e ∧ e.cls = "ValueError")) := by
  obtain ⟨hE, hC⟩ := C20_lengths_reject S2T.Gen.Aes.tables key iv data
  have cls : ∀ fn bf, (ecbExc fn bf key data).cls = "ValueError" := by
    intro fn bf; unfold ecbExc; exact ite_cls rfl (ite_cls rfl rfl)
  have cls2 : ∀ fn bf, (cbcExc fn bf key iv data).cls = "ValueError" := by
    intro fn bf; unfold cbcExc; exact ite_cls rfl (ite_cls rfl (ite_cls rfl rfl))
  constructor
  · intro h
    obtain ⟨h1, h2⟩ := hE h
    constructor
    · refine ⟨_, ?_, cls "aes_ecb_encrypt" "_aes_encrypt_block"⟩
      rw [aes_ecb_encrypt_eq hk hd]; show liftV _ (aesEcbEncrypt S2T.Gen.Aes.tables key data) = _; rw [h1]; rfl
    · refine ⟨_, ?_, cls "aes_ecb_decrypt" "_aes_decrypt_block"⟩
      rw [aes_ecb_decrypt_eq hk hd]; show liftV _ (aesEcbDecrypt S2T.Gen.Aes.tables key data) = _; rw [h2]; rfl
  · intro h
    obtain ⟨h1, h2⟩ := hC h
    constructor
    · refine ⟨_, ?_, cls2 "aes_cbc_encrypt" "_aes_encrypt_block"⟩
      rw [aes_cbc_encrypt_eq hk hiv hd]; show liftV _ (aesCbcEncrypt S2T.Gen.Aes.tables key iv data) = _; rw [h1]; rfl
    · refine ⟨_, ?_, cls2 "aes_cbc_decrypt" "_aes_decrypt_block"⟩
      rw [aes_cbc_decrypt_eq hk hiv hd]; show liftV _ (aesCbcDecrypt S2T.Gen.Aes.tables key iv data) = _; rw [h2]; rfl

/-! ### Non-vacuity: the statements instantiated at the SP 800-38A plaintext blocks, a 24-byte key, and bad lengths -/
example : aes_ecb_encrypt (List.range 24) Kat.pt.flatten = .ok (Fips197.ecbEncrypt (List.range 24) Kat.pt).flatten :=
  (C20_src_functions (iv := List.replicate 16 0) (by decide) (by decide) (by decide)).1
example : ∃ e, aes_cbc_decrypt (List.range 15) (List.range 16) (List.range 32) = .error e ∧ e.cls = "ValueError" :=
  ((C20_src_lengths_reject (by decide) (by decide) (by decide)).2 (Or.inr (Or.inr (by decide)))).2
end src

end S2T.C20
