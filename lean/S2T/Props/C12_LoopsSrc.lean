import S2T.Lemmas.PyLoops
import S2T.Lemmas.Loops
import S2T.Gen.PyLoops
import S2T.Gen.PyAes
import S2T.Gen.C12Consts
/-!
# C12 / C01 (source tie) — the BODIES of the library's own `while` loops, translated from the current source

`S2T.Gen.PyLoops` is regenerated on every run by `tools/gen/pyfun_loops.py`: for every whitelisted `while` statement
the AST of its test and body becomes a step function on the loop's local state

    X.step (env : X.Env) (ora : X.State → Nat → Bool) (s : X.State) : M (Step X.State X.Ret)
    X.stepO …  : M (Option X.State)          -- `none` = the loop exits, `some s'` = one more iteration
    X.init (inputs …) : X.Env × X.State      -- the straight-line assignments in front of the loop

(`Env`: locals the loop only reads, `State`: locals assigned in the body that are live across iterations, fields
`v0, v1, …` in order of first occurrence; `ora`: answers to the conditions on values the translation does not look into
— hashes, image objects — one per (state at the start of the iteration, condition), universally quantified everywhere).

Per loop two theorems:

1. `X_variant` — for ALL environments (under the stated, decidable precondition where the loop needs one: the PPT walker
   needs `0 < min_size`), ALL oracles and ALL states: `stepO env ora s = ok (some s') → m env s' < m env s` for the
   measure `m` the hand model of `S2T/Model/Loops.lean` recurses on.  This is the termination proof of the REAL loop
   body, modulo translation: `Loops.run` (well-founded recursion through this theorem, no fuel) is total.
2. `X_agree` — iterating the translated step from the translated initial state (`Loops.run (X.step …) m X_variant
   (X.init …)`) gives the result and the NUMBER OF BODY EXECUTIONS of the hand model's function, for all inputs and all
   oracles; so the step-count theorems of `Props/C12_Loops.lean` (`steps_* ≤ len + 1`) are theorems about the translated
   loop (`X_steps`).

Proof scripts: `py_step_nf` (monad plumbing and raising primitives into `if`s), `py_variant` / `py_variant_omega`
(walk the `if`s, compare the measures with `omega`), `py_step_eq` (one step under the case conditions of the hand model),
`fun_induction` on the hand model.  No script mentions a Python local, the order of independent statements, or the
shape of a condition.

Translated: 21 loops of the inventory (+ `_gf_mul`, whose translation by `pyfun_aes.py` is reused).  Loops that are NOT
translated (they stay hand-modelled, tied by the correspondence of `harness/builders/c12_loopcheck.py`): see
`not_translated` at the end of this file, with reasons.  Typing: a Python `int` that only ever receives non-negative
values by construction (`len`, literals, `+`, `int.from_bytes`, unsigned struct fields) is a `Nat`; one that receives a
difference or a `find` result is an `Int`; "ALL states" means all states of those types.
-/
set_option linter.unusedSimpArgs false
set_option linter.unusedVariables false
set_option maxRecDepth 10000
namespace S2T.C12.LoopsSrc
open S2T.Py S2T.Py.Loops S2T.Gen.PyLoops S2T.Loops

/-- the translator understood every construct of the whitelisted loops -/
theorem gen_py_notes_empty : S2T.Gen.PyLoops.notes = [] := by decide

/-- the loops this file ties: (namespace, file, enclosing function); a renamed / removed function or loop breaks this -/
theorem gen_py_translated : S2T.Gen.PyLoops.translated.map (fun t => (t.1, t.2.2.1)) =
    [("xls_filepass", "is_xls_encrypted"), ("jpeg_dims", "get_jpeg_dimensions"),
     ("sof_docx", "_get_image_pixel_dimensions"), ("sof_xlsx", "_get_image_pixel_dimensions"),
     ("sof_pptx", "_get_image_pixel_dimensions"), ("png_chunks", "_DocReader._extract_png_images_from_bytes"),
     ("ppt_iter", "_iter_records"), ("xls_blip", "_extract_images_from_workbook"),
     ("dib_carve", "_DocReader._extract_images_from_word_document"),
     ("rtf_skip_group", "_RtfParser._remove_ignorable_groups"), ("rtf_scan_alpha", "_RtfParser._strip_rtf_full_with_pages"),
     ("rtf_scan_param", "_RtfParser._strip_rtf_full_with_pages"), ("rtf_trim_back", "_RtfParser._strip_rtf_full_with_pages"),
     ("pop_headings_doc", "DocContent.iterate_units"), ("pop_headings_docx", "DocxContent.iterate_units"),
     ("pop_headings_odt", "OdtContent.iterate_units"), ("pop_ended", "_parse_containers"),
     ("trim_empty_rows", "_extract_sheet"), ("sz_skip_props", "SevenZipReader._parse_main_header"),
     ("sz_read_name", "SevenZipReader._parse_files_info"), ("trailing_numeric", "_TableExtractor._extract_row")] := by decide

/-- the record layouts of the current source (the translated bodies name the generated constants) -/
theorem ppt_fmt : S2T.Gen.C12Consts.pptHeaderFmt = "<HHI" := rfl
theorem xls_fmt : S2T.Gen.C12Consts.xlsHeaderFmt = "<HHI" := rfl
theorem dib_fmt : S2T.Gen.C12Consts.dibFmt = "<IiiHHII" := rfl

/-! ## util/encryption.py : is_xls_encrypted — BIFF record walk -/

/-- the variant of `xlsFilepass`: `data_len − offset` -/
def xls_filepass_m (env : xls_filepass.Env) (s : xls_filepass.State) : Nat := env.v0 - s.v0

theorem xls_filepass_next (env : xls_filepass.Env) (ora) (s s' : xls_filepass.State)
    (h : xls_filepass.step env ora s = .ok (.next s')) : xls_filepass_m env s' < xls_filepass_m env s := by
  unfold xls_filepass.step at h
  unfold xls_filepass_m
  py_step_nf [] [] at h
  py_variant h

/-- VARIANT: every iteration of the translated body decreases `data_len − offset` — all environments, all states -/
theorem xls_filepass_variant (env : xls_filepass.Env) (ora) (s s' : xls_filepass.State)
    (h : xls_filepass.stepO env ora s = .ok (some s')) : xls_filepass_m env s' < xls_filepass_m env s :=
  xls_filepass_next env ora s s' (map_toOption_some h)

theorem xls_filepass_agree_from (d : List Nat) (ora) (m) (hv) (off : Nat) :
    ∃ fin, run (xls_filepass.step ⟨d.length, d⟩ ora) m hv ⟨off⟩
      = .ok ⟨fin, (if (xlsFilepass S2T.Gen.C12Consts.filepassId d off).1 then some true else none),
             (xlsFilepass S2T.Gen.C12Consts.filepassId d off).2⟩ := by
  fun_induction xlsFilepass S2T.Gen.C12Consts.filepassId d off with
  | case1 off h1 h2 => exact ⟨_, run_ret (by py_step_eq [xls_filepass.step] [S2T.Gen.C12Consts.filepassId])⟩
  | case2 off h1 h2 r ih =>
    obtain ⟨fin, e⟩ := ih
    exact ⟨fin, run_next_ok (by py_step_eq [xls_filepass.step] [S2T.Gen.C12Consts.filepassId]) e⟩
  | case3 off h1 => exact ⟨_, run_stop (by py_step_eq [xls_filepass.step] [])⟩

/-- AGREEMENT: the translated loop, run from the translated initial state, finds FILEPASS exactly when the hand model
    does, in the same number of iterations -/
theorem xls_filepass_agree (d : List Nat) (ora) :
    ∃ fin, run (xls_filepass.step (xls_filepass.init d).1 ora) (xls_filepass_m (xls_filepass.init d).1)
        (xls_filepass_next _ ora) (xls_filepass.init d).2
      = .ok ⟨fin, (if (xlsFilepass S2T.Gen.C12Consts.filepassId d 0).1 then some true else none),
             (xlsFilepass S2T.Gen.C12Consts.filepassId d 0).2⟩ :=
  xls_filepass_agree_from d ora _ _ 0

/-- the linear bound of `C12.Loops.steps_xlsFilepass`, now about the translated loop -/
theorem xls_filepass_steps (d : List Nat) (ora) :
    ∃ o, run (xls_filepass.step (xls_filepass.init d).1 ora) (xls_filepass_m (xls_filepass.init d).1)
        (xls_filepass_next _ ora) (xls_filepass.init d).2 = .ok o ∧ o.steps ≤ d.length + 1 := by
  obtain ⟨fin, e⟩ := xls_filepass_agree d ora
  refine ⟨_, e, ?_⟩
  have := xlsFilepass_steps_le S2T.Gen.C12Consts.filepassId d 0
  simp only; omega

/-! ## ms_modern/{docx,xlsx,pptx}_extractor.py : _get_image_pixel_dimensions — JPEG SOF scan -/

/-- what the extractors return for the model's raw `(w, h)`: `(w or None, h or None)` -/
def sofRet (r : Option (Nat × Nat)) : Option ((Option Nat) × (Option Nat)) := r.map (fun (w, h) => (orNone w, orNone h))

def sof_docx_m (env : sof_docx.Env) (s : sof_docx.State) : Nat := env.v0 - s.v0
def sof_xlsx_m (env : sof_xlsx.Env) (s : sof_xlsx.State) : Nat := env.v0 - s.v0
def sof_pptx_m (env : sof_pptx.Env) (s : sof_pptx.State) : Nat := env.v0 - s.v0

theorem sof_docx_next (env : sof_docx.Env) (ora) (s s' : sof_docx.State)
    (h : sof_docx.step env ora s = .ok (.next s')) : sof_docx_m env s' < sof_docx_m env s := by
  unfold sof_docx.step at h
  unfold sof_docx_m
  py_step_nf [] [] at h
  py_variant h

theorem sof_xlsx_next (env : sof_xlsx.Env) (ora) (s s' : sof_xlsx.State)
    (h : sof_xlsx.step env ora s = .ok (.next s')) : sof_xlsx_m env s' < sof_xlsx_m env s := by
  unfold sof_xlsx.step at h
  unfold sof_xlsx_m
  py_step_nf [] [] at h
  py_variant h

theorem sof_pptx_next (env : sof_pptx.Env) (ora) (s s' : sof_pptx.State)
    (h : sof_pptx.step env ora s = .ok (.next s')) : sof_pptx_m env s' < sof_pptx_m env s := by
  unfold sof_pptx.step at h
  unfold sof_pptx_m
  py_step_nf [] [] at h
  py_variant h

/-- VARIANT (docx copy): `size − i` decreases — all environments (also `size ≠ len(image_data)`), all states -/
theorem sof_docx_variant (env : sof_docx.Env) (ora) (s s' : sof_docx.State)
    (h : sof_docx.stepO env ora s = .ok (some s')) : sof_docx_m env s' < sof_docx_m env s :=
  sof_docx_next env ora s s' (map_toOption_some h)
theorem sof_xlsx_variant (env : sof_xlsx.Env) (ora) (s s' : sof_xlsx.State)
    (h : sof_xlsx.stepO env ora s = .ok (some s')) : sof_xlsx_m env s' < sof_xlsx_m env s :=
  sof_xlsx_next env ora s s' (map_toOption_some h)
theorem sof_pptx_variant (env : sof_pptx.Env) (ora) (s s' : sof_pptx.State)
    (h : sof_pptx.stepO env ora s = .ok (some s')) : sof_pptx_m env s' < sof_pptx_m env s :=
  sof_pptx_next env ora s s' (map_toOption_some h)

theorem sof_docx_agree_from (d : List Nat) (ora) (m) (hv) (i : Nat) :
    ∃ fin, run (sof_docx.step ⟨d.length, d⟩ ora) m hv ⟨i⟩
      = .ok ⟨fin, sofRet (sofScan S2T.Gen.C12Consts.sofDocx false d i).1, (sofScan S2T.Gen.C12Consts.sofDocx false d i).2⟩ := by
  fun_induction sofScan S2T.Gen.C12Consts.sofDocx false d i with
  | case1 i h1 h2 r ih =>
    obtain ⟨fin, e⟩ := ih
    exact ⟨fin, run_next_ok (by py_step_eq [sof_docx.step] []) e⟩
  | case2 i h1 h2 marker h3 => exact ⟨_, run_brk (s' := sof_docx.State.mk i) (by py_step_eq [sof_docx.step] [])⟩
  | case3 i h1 h2 marker h3 length h4 => exact ⟨_, run_brk (s' := sof_docx.State.mk i) (by py_step_eq [sof_docx.step] [])⟩
  | case4 i h1 h2 marker h3 length h4 h5 => exact ⟨_, run_ret (by py_step_eq [sof_docx.step] [])⟩
  | case5 i h1 h2 marker h3 length h4 h5 h6 => simp at h6
  | case6 i h1 h2 marker h3 length h4 h5 h6 r ih =>
    obtain ⟨fin, e⟩ := ih
    exact ⟨fin, run_next_ok (by py_step_eq [sof_docx.step] []) e⟩
  | case7 i h1 => exact ⟨_, run_stop (by py_step_eq [sof_docx.step] [])⟩

theorem sof_xlsx_agree_from (d : List Nat) (ora) (m) (hv) (i : Nat) :
    ∃ fin, run (sof_xlsx.step ⟨d.length, d⟩ ora) m hv ⟨i⟩
      = .ok ⟨fin, sofRet (sofScan S2T.Gen.C12Consts.sofXlsx false d i).1, (sofScan S2T.Gen.C12Consts.sofXlsx false d i).2⟩ := by
  fun_induction sofScan S2T.Gen.C12Consts.sofXlsx false d i with
  | case1 i h1 h2 r ih =>
    obtain ⟨fin, e⟩ := ih
    exact ⟨fin, run_next_ok (by py_step_eq [sof_xlsx.step] []) e⟩
  | case2 i h1 h2 marker h3 => exact ⟨_, run_brk (s' := sof_xlsx.State.mk i) (by py_step_eq [sof_xlsx.step] [])⟩
  | case3 i h1 h2 marker h3 length h4 => exact ⟨_, run_brk (s' := sof_xlsx.State.mk i) (by py_step_eq [sof_xlsx.step] [])⟩
  | case4 i h1 h2 marker h3 length h4 h5 => exact ⟨_, run_ret (by py_step_eq [sof_xlsx.step] [])⟩
  | case5 i h1 h2 marker h3 length h4 h5 h6 => simp at h6
  | case6 i h1 h2 marker h3 length h4 h5 h6 r ih =>
    obtain ⟨fin, e⟩ := ih
    exact ⟨fin, run_next_ok (by py_step_eq [sof_xlsx.step] []) e⟩
  | case7 i h1 => exact ⟨_, run_stop (by py_step_eq [sof_xlsx.step] [])⟩

/-- the pptx copy spells the SOF markers out: they are the generated `sofPptx` -/
theorem sof_pptx_agree_from (d : List Nat) (ora) (m) (hv) (i : Nat) :
    ∃ fin, run (sof_pptx.step ⟨d.length, d⟩ ora) m hv ⟨i⟩
      = .ok ⟨fin, sofRet (sofScan S2T.Gen.C12Consts.sofPptx true d i).1, (sofScan S2T.Gen.C12Consts.sofPptx true d i).2⟩ := by
  fun_induction sofScan S2T.Gen.C12Consts.sofPptx true d i with
  | case1 i h1 h2 r ih =>
    obtain ⟨fin, e⟩ := ih
    exact ⟨fin, run_next_ok (by py_step_eq [sof_pptx.step] []) e⟩
  | case2 i h1 h2 marker h3 => exact ⟨_, run_brk (s' := sof_pptx.State.mk i) (by py_step_eq [sof_pptx.step] [])⟩
  | case3 i h1 h2 marker h3 length h4 => exact ⟨_, run_brk (s' := sof_pptx.State.mk i) (by py_step_eq [sof_pptx.step] [])⟩
  | case4 i h1 h2 marker h3 length h4 h5 =>
    exact ⟨_, run_ret (by py_step_eq [sof_pptx.step] [S2T.Gen.C12Consts.sofPptx])⟩
  | case5 i h1 h2 marker h3 length h4 h5 h6 =>
    exact ⟨_, run_brk (s' := sof_pptx.State.mk i) (by py_step_eq [sof_pptx.step] [S2T.Gen.C12Consts.sofPptx])⟩
  | case6 i h1 h2 marker h3 length h4 h5 h6 r ih =>
    obtain ⟨fin, e⟩ := ih
    exact ⟨fin, run_next_ok (by py_step_eq [sof_pptx.step] [S2T.Gen.C12Consts.sofPptx]) e⟩
  | case7 i h1 => exact ⟨_, run_stop (by py_step_eq [sof_pptx.step] [])⟩

/-- AGREEMENT (docx): result (`(w or None, h or None)` of the model's raw dimensions) and iteration count of `sofScan` -/
theorem sof_docx_agree (d : List Nat) (ora) :
    ∃ fin, run (sof_docx.step (sof_docx.init d).1 ora) (sof_docx_m (sof_docx.init d).1) (sof_docx_next _ ora) (sof_docx.init d).2
      = .ok ⟨fin, sofRet (sofScan S2T.Gen.C12Consts.sofDocx false d 2).1, (sofScan S2T.Gen.C12Consts.sofDocx false d 2).2⟩ :=
  sof_docx_agree_from d ora _ _ 2
theorem sof_xlsx_agree (d : List Nat) (ora) :
    ∃ fin, run (sof_xlsx.step (sof_xlsx.init d).1 ora) (sof_xlsx_m (sof_xlsx.init d).1) (sof_xlsx_next _ ora) (sof_xlsx.init d).2
      = .ok ⟨fin, sofRet (sofScan S2T.Gen.C12Consts.sofXlsx false d 2).1, (sofScan S2T.Gen.C12Consts.sofXlsx false d 2).2⟩ :=
  sof_xlsx_agree_from d ora _ _ 2
theorem sof_pptx_agree (d : List Nat) (ora) :
    ∃ fin, run (sof_pptx.step (sof_pptx.init d).1 ora) (sof_pptx_m (sof_pptx.init d).1) (sof_pptx_next _ ora) (sof_pptx.init d).2
      = .ok ⟨fin, sofRet (sofScan S2T.Gen.C12Consts.sofPptx true d 2).1, (sofScan S2T.Gen.C12Consts.sofPptx true d 2).2⟩ :=
  sof_pptx_agree_from d ora _ _ 2

/-! ## util/image_utils.py : get_jpeg_dimensions — SOF scanner -/

def jpeg_dims_m (env : jpeg_dims.Env) (s : jpeg_dims.State) : Nat := env.v0.length - s.v0

theorem jpeg_dims_next (env : jpeg_dims.Env) (ora) (s s' : jpeg_dims.State)
    (h : jpeg_dims.step env ora s = .ok (.next s')) : jpeg_dims_m env s' < jpeg_dims_m env s := by
  unfold jpeg_dims.step at h
  unfold jpeg_dims_m
  py_step_nf [] [] at h
  py_variant h

/-- VARIANT: `len(data) − offset` decreases (the test `offset < len(data) − 9` is evaluated over the integers, as
    Python does: `len(data) − 9` may be negative) -/
theorem jpeg_dims_variant (env : jpeg_dims.Env) (ora) (s s' : jpeg_dims.State)
    (h : jpeg_dims.stepO env ora s = .ok (some s')) : jpeg_dims_m env s' < jpeg_dims_m env s :=
  jpeg_dims_next env ora s s' (map_toOption_some h)

set_option maxHeartbeats 1000000 in
theorem jpeg_dims_agree_from (d : List Nat) (ora) (m) (hv) (off : Nat) :
    ∃ fin, run (jpeg_dims.step ⟨d⟩ ora) m hv ⟨off⟩
      = .ok ⟨fin, (jpegDims S2T.Gen.C12Consts.sofImageUtils d off).1, (jpegDims S2T.Gen.C12Consts.sofImageUtils d off).2⟩ := by
  fun_induction jpegDims S2T.Gen.C12Consts.sofImageUtils d off with
  | case1 off h1 h2 r ih =>
    obtain ⟨fin, e⟩ := ih
    exact ⟨fin, run_next_ok (by py_step_eq [jpeg_dims.step] []) e⟩
  | case2 off h1 h2 marker h3 r ih =>
    obtain ⟨fin, e⟩ := ih
    exact ⟨fin, run_next_ok (by py_step_eq [jpeg_dims.step] []) e⟩
  | case3 off h1 h2 marker h3 h4 =>
    exact ⟨_, run_ret (by py_step_eq [jpeg_dims.step] [S2T.Gen.C12Consts.sofImageUtils])⟩
  | case4 off h1 h2 marker h3 h4 r ih =>
    obtain ⟨fin, e⟩ := ih
    exact ⟨fin, run_next_ok (by py_step_eq [jpeg_dims.step] [S2T.Gen.C12Consts.sofImageUtils]) e⟩
  | case5 off h1 => exact ⟨_, run_stop (by py_step_eq [jpeg_dims.step] [])⟩

/-- AGREEMENT: `(width, height)` and the iteration count of `jpegDims`; in particular the two guards the model calls
    implied by the loop test (`offset + 9 <= len(data)`, `offset + 4 <= len(data)`) and the `else: break` arm it calls
    dead ARE so in the translated body, and no `struct.error` / `IndexError` is reachable -/
theorem jpeg_dims_agree (d : List Nat) (ora) :
    ∃ fin, run (jpeg_dims.step (jpeg_dims.init d).1 ora) (jpeg_dims_m (jpeg_dims.init d).1) (jpeg_dims_next _ ora) (jpeg_dims.init d).2
      = .ok ⟨fin, (jpegDims S2T.Gen.C12Consts.sofImageUtils d 2).1, (jpegDims S2T.Gen.C12Consts.sofImageUtils d 2).2⟩ :=
  jpeg_dims_agree_from d ora _ _ 2

/-! ## ms_legacy/doc_extractor.py : _extract_png_images_from_bytes — inner chunk walk -/

def png_chunks_m (env : png_chunks.Env) (s : png_chunks.State) : Nat := env.v0.length - s.v0

theorem png_chunks_next (env : png_chunks.Env) (ora) (s s' : png_chunks.State)
    (h : png_chunks.step env ora s = .ok (.next s')) : png_chunks_m env s' < png_chunks_m env s := by
  unfold png_chunks.step at h
  unfold png_chunks_m
  py_step_nf [] [] at h
  cases s'
  py_variant_omega h [png_chunks.State.mk.injEq]

/-- VARIANT: `len(data) − pos` decreases — for every oracle answer about `digest not in seen_hashes` -/
theorem png_chunks_variant (env : png_chunks.Env) (ora) (s s' : png_chunks.State)
    (h : png_chunks.stepO env ora s = .ok (some s')) : png_chunks_m env s' < png_chunks_m env s :=
  png_chunks_next env ora s s' (map_toOption_some h)

set_option maxHeartbeats 1000000 in
theorem png_chunks_agree_from (d : List Nat) (start : Nat) (ora) (m) (hv) (pos : Nat) :
    ∀ w h, ∃ o, run (png_chunks.step ⟨d, start⟩ ora) m hv ⟨pos, w, h⟩ = .ok o ∧
      o.result = none ∧ o.steps = (pngChunks d pos).2 ∧ (∀ e, (pngChunks d pos).1 = some e → o.final.v0 = e) := by
  fun_induction pngChunks d pos with
  | case1 pos h1 length crcEnd h2 =>
    intro w h
    exact ⟨_, run_brk (s' := png_chunks.State.mk pos w h) (by py_step_eq [png_chunks.step] []), rfl, rfl, by simp⟩
  | case2 pos h1 length crcEnd h2 h3 =>
    intro w h
    have hs : ∃ s', png_chunks.step ⟨d, start⟩ ora ⟨pos, w, h⟩ = .ok (.brk s') ∧ s'.v0 = crcEnd := by
      py_step_ex [png_chunks.step] [] []
    obtain ⟨s', e, p⟩ := hs
    exact ⟨_, run_brk e, rfl, rfl, by simp [p]⟩
  | case3 pos h1 length crcEnd h2 h3 r ih =>
    intro w h
    have hs : ∃ s', png_chunks.step ⟨d, start⟩ ora ⟨pos, w, h⟩ = .ok (.next s') ∧ s'.v0 = crcEnd := by
      py_step_ex [png_chunks.step] [] []
    obtain ⟨⟨p', w', h'⟩, e, p⟩ := hs
    simp only at p
    subst p
    obtain ⟨o, r1, r2, r3, r4⟩ := ih w' h'
    exact ⟨_, run_next_ok e r1, by simp [Outcome.bump, r2], by simp +zetaDelta [Outcome.bump, r3],
      by simpa +zetaDelta [Outcome.bump] using r4⟩
  | case4 pos h1 =>
    intro w h
    exact ⟨_, run_stop (by py_step_eq [png_chunks.step] []), rfl, rfl, by simp⟩

/-- AGREEMENT: from the translated initial state (`pos = start + len(signature)`, `width = height = None`): the
    iteration count of `pngChunks`, no `return`, and when the model reaches an IEND chunk the loop is left with `pos` =
    the end of the PNG — for every `start`, every oracle; no `struct.error` is reachable.  (`image_counter`, `images`,
    `seen_hashes` belong to the enclosing `while True:` loop, which is not translated: they are not tracked here.) -/
theorem png_chunks_agree (d : List Nat) (start : Nat) (ora) :
    ∃ o, run (png_chunks.step (png_chunks.init d start).1 ora) (png_chunks_m (png_chunks.init d start).1)
        (png_chunks_next _ ora) (png_chunks.init d start).2 = .ok o ∧
      o.result = none ∧ o.steps = (pngChunks d (start + 8)).2 ∧
      (∀ e, (pngChunks d (start + 8)).1 = some e → o.final.v0 = e) :=
  png_chunks_agree_from d start ora _ _ (start + 8) none none

/-! ## ms_legacy/xls_extractor.py : _extract_images_from_workbook — BLIP record scan -/

def xls_blip_m (env : xls_blip.Env) (s : xls_blip.State) : Nat := env.v0 - s.v0

theorem xls_blip_next (env : xls_blip.Env) (ora) (s s' : xls_blip.State)
    (h : xls_blip.step env ora s = .ok (.next s')) : xls_blip_m env s' < xls_blip_m env s := by
  unfold xls_blip.step S2T.Gen.C12Consts.xlsHeaderSize at h
  unfold xls_blip_m
  py_step_nf [unpackFromU_HHI xls_fmt] [] at h
  py_variant h

/-- VARIANT: `data_len − offset` decreases whatever `detect_image_type`, `wrap_dib_as_bmp`, the hash set … answer
    (5 oracle bits) -/
theorem xls_blip_variant (env : xls_blip.Env) (ora) (s s' : xls_blip.State)
    (h : xls_blip.stepO env ora s = .ok (some s')) : xls_blip_m env s' < xls_blip_m env s :=
  xls_blip_next env ora s s' (map_toOption_some h)

set_option maxHeartbeats 1000000 in
theorem xls_blip_agree_from (d : List Nat) (ora) (m) (hv) (off : Nat) :
    ∀ k, ∃ o, run (xls_blip.step ⟨d.length, d⟩ ora) m hv ⟨off, k⟩ = .ok o ∧
      o.result = none ∧ o.steps = (xlsBlipScan S2T.Gen.C12Consts.blipTypes d off).length := by
  fun_induction xlsBlipScan S2T.Gen.C12Consts.blipTypes d off with
  | case1 off h1 recLen h2 ih =>
    intro k
    have hs : ∃ s', xls_blip.step ⟨d.length, d⟩ ora ⟨off, k⟩ = .ok (.next s') ∧ s'.v0 = off + 1 := by
      py_step_ex [xls_blip.step, unpackFromU_HHI xls_fmt] [S2T.Gen.C12Consts.xlsHeaderSize] []
    obtain ⟨⟨p', k'⟩, e, p⟩ := hs
    simp only at p
    subst p
    obtain ⟨o, r1, r2, r3⟩ := ih k'
    exact ⟨_, run_next_ok e r1, by simp [Outcome.bump, r2], by simp +zetaDelta [Outcome.bump, r3]⟩
  | case2 off h1 recType recLen h2 h3 ih =>
    intro k
    have hs : ∃ s', xls_blip.step ⟨d.length, d⟩ ora ⟨off, k⟩ = .ok (.next s') ∧ s'.v0 = off + 1 := by
      py_step_ex [xls_blip.step, unpackFromU_HHI xls_fmt] [S2T.Gen.C12Consts.xlsHeaderSize] []
    obtain ⟨⟨p', k'⟩, e, p⟩ := hs
    simp only at p
    subst p
    obtain ⟨o, r1, r2, r3⟩ := ih k'
    exact ⟨_, run_next_ok e r1, by simp [Outcome.bump, r2], by simp +zetaDelta [Outcome.bump, r3]⟩
  | case3 off h1 recType recLen h2 h3 ih =>
    intro k
    have hs : ∃ s', xls_blip.step ⟨d.length, d⟩ ora ⟨off, k⟩ = .ok (.next s') ∧ s'.v0 = off + 8 + recLen := by
      py_step_ex [xls_blip.step, unpackFromU_HHI xls_fmt] [S2T.Gen.C12Consts.xlsHeaderSize] []
    obtain ⟨⟨p', k'⟩, e, p⟩ := hs
    simp only at p
    subst p
    obtain ⟨o, r1, r2, r3⟩ := ih k'
    exact ⟨_, run_next_ok e r1, by simp [Outcome.bump, r2], by simp +zetaDelta [Outcome.bump, r3]⟩
  | case4 off h1 =>
    intro k
    exact ⟨_, run_stop (by py_step_eq [xls_blip.step, unpackFromU_HHI xls_fmt] [S2T.Gen.C12Consts.xlsHeaderSize]), rfl, rfl⟩

/-- AGREEMENT: the number of iterations is the length of `xlsBlipScan` (one entry per iteration) — for EVERY oracle:
    what the image helpers answer never changes how far `offset` moves; the `except struct.error` arm is dead -/
theorem xls_blip_agree (d : List Nat) (ora) :
    ∃ o, run (xls_blip.step (xls_blip.init d).1 ora) (xls_blip_m (xls_blip.init d).1) (xls_blip_next _ ora) (xls_blip.init d).2
        = .ok o ∧ o.result = none ∧ o.steps = (xlsBlipScan S2T.Gen.C12Consts.blipTypes d 0).length :=
  xls_blip_agree_from d ora _ _ 0 0

/-! ## ms_legacy/ppt_extractor.py : _iter_records — record walk (a generator: the yielded records are a state field) -/

def ppt_iter_m (env : ppt_iter.Env) (s : ppt_iter.State) : Nat := env.v0 - s.v0

theorem ppt_iter_next (env : ppt_iter.Env) (henv : 0 < env.v1) (ora) (s s' : ppt_iter.State)
    (h : ppt_iter.step env ora s = .ok (.next s')) : ppt_iter_m env s' < ppt_iter_m env s := by
  unfold ppt_iter.step at h
  unfold ppt_iter_m
  py_step_nf [unpackFromU_HHI ppt_fmt] [] at h
  py_variant h

/-- VARIANT: `data_len − offset` decreases, for every environment with `min_size > 0` (a container makes the loop
    step to `offset + min_size`) and every state.  The precondition is necessary: -/
theorem ppt_iter_variant (env : ppt_iter.Env) (henv : 0 < env.v1) (ora) (s s' : ppt_iter.State)
    (h : ppt_iter.stepO env ora s = .ok (some s')) : ppt_iter_m env s' < ppt_iter_m env s :=
  ppt_iter_next env henv ora s s' (map_toOption_some h)

/-- … with `min_size = 0` an empty container record would be visited forever -/
theorem ppt_iter_needs_min_size :
    ppt_iter.stepO ⟨8, 0, [15, 0, 0, 0, 0, 0, 0, 0]⟩ (fun _ _ => false) ⟨0, []⟩
      = .ok (some ⟨0, [(0, 0, true, [], 0, 0)]⟩) := by decide +kernel

/-- the translated initial environment satisfies it: `min_size` is the generated `_RECORD_HEADER_SIZE` -/
theorem ppt_iter_init_ok (d : List Nat) (start : Nat) : 0 < (ppt_iter.init d start).1.v1 := by
  show 0 < S2T.Gen.C12Consts.pptHeaderSize; decide

theorem and15 (n : Nat) : n &&& 15 = n % 16 := Nat.and_two_pow_sub_one_eq_mod n 4
theorem shr4_and4095 (n : Nat) : (n >>> 4) &&& 4095 = (n / 16) % 4096 := by
  rw [Nat.shiftRight_eq_div_pow]; exact Nat.and_two_pow_sub_one_eq_mod _ 12

/-- the header fields and extent of a yielded `Record(rec_type, rec_instance, is_container, data, offset, end_offset)` -/
def pptProj (r : Nat × Nat × Bool × List Nat × Nat × Nat) : PptRec := ⟨r.1, r.2.1, r.2.2.1, r.2.2.2.2.1, r.2.2.2.2.2⟩

set_option maxHeartbeats 1000000 in
theorem ppt_iter_agree_from (d : List Nat) (ora) (m) (hv) (off : Nat) :
    ∀ ys, ∃ o, run (ppt_iter.step ⟨d.length, 8, d⟩ ora) m hv ⟨off, ys⟩ = .ok o ∧
      o.result = none ∧ o.steps = (pptIter d off).2.1 ∧ o.final.v1.map pptProj = ys.map pptProj ++ (pptIter d off).1 := by
  fun_induction pptIter d off with
  | case1 off h1 recLen h2 r ih =>
    intro ys
    have hs : ppt_iter.step ⟨d.length, 8, d⟩ ora ⟨off, ys⟩ = .ok (.next ⟨off + 1, ys⟩) := by
      py_step_eq [ppt_iter.step, unpackFromU_HHI ppt_fmt] []
    obtain ⟨o, r1, r2, r3, r4⟩ := ih ys
    exact ⟨_, run_next_ok hs r1, by simp [Outcome.bump, r2], by simp +zetaDelta [Outcome.bump, r3],
      by simpa +zetaDelta [Outcome.bump] using r4⟩
  | case2 off h1 vi recLen h2 isC dataStart dataEnd rec_ h3 r ih =>
    intro ys
    have hs : ∃ s', ppt_iter.step ⟨d.length, 8, d⟩ ora ⟨off, ys⟩ = .ok (.next s') ∧
        (s'.v0 = dataStart ∧ s'.v1.map pptProj = ys.map pptProj ++ [rec_]) := by
      py_step_ex [ppt_iter.step, unpackFromU_HHI ppt_fmt] [] [and15, shr4_and4095, pptProj]
    obtain ⟨⟨p', ys'⟩, e, p1, p2⟩ := hs
    simp only at p1 p2
    subst p1
    obtain ⟨o, r1, r2, r3, r4⟩ := ih ys'
    exact ⟨_, run_next_ok e r1, by simp [Outcome.bump, r2], by simp +zetaDelta [Outcome.bump, r3],
      by simp +zetaDelta [Outcome.bump, r4, p2]⟩
  | case3 off h1 vi recLen h2 isC dataStart dataEnd rec_ h3 r ih =>
    intro ys
    have hs : ∃ s', ppt_iter.step ⟨d.length, 8, d⟩ ora ⟨off, ys⟩ = .ok (.next s') ∧
        (s'.v0 = dataEnd ∧ s'.v1.map pptProj = ys.map pptProj ++ [rec_]) := by
      py_step_ex [ppt_iter.step, unpackFromU_HHI ppt_fmt] [] [and15, shr4_and4095, pptProj]
    obtain ⟨⟨p', ys'⟩, e, p1, p2⟩ := hs
    simp only at p1 p2
    subst p1
    obtain ⟨o, r1, r2, r3, r4⟩ := ih ys'
    exact ⟨_, run_next_ok e r1, by simp [Outcome.bump, r2], by simp +zetaDelta [Outcome.bump, r3],
      by simp +zetaDelta [Outcome.bump, r4, p2]⟩
  | case4 off h1 =>
    intro ys
    exact ⟨_, run_stop (by py_step_eq [ppt_iter.step, unpackFromU_HHI ppt_fmt] []), rfl, rfl, by simp⟩

/-- AGREEMENT: for every start offset, the records yielded by the translated generator loop (header fields, container
    flag, offset, end offset) are the model's records, in order, in the model's number of iterations; the
    `except struct.error: break` arm is dead -/
theorem ppt_iter_agree (d : List Nat) (start : Nat) (ora) :
    ∃ o, run (ppt_iter.step (ppt_iter.init d start).1 ora) (ppt_iter_m (ppt_iter.init d start).1)
        (ppt_iter_next _ (ppt_iter_init_ok d start) ora) (ppt_iter.init d start).2 = .ok o ∧
      o.result = none ∧ o.steps = (pptIter d start).2.1 ∧ o.final.v1.map pptProj = (pptIter d start).1 := by
  obtain ⟨o, h1, h2, h3, h4⟩ := ppt_iter_agree_from d ora (ppt_iter_m (ppt_iter.init d start).1)
    (ppt_iter_next _ (ppt_iter_init_ok d start) ora) start []
  exact ⟨o, h1, h2, h3, by simpa using h4⟩

/-! ## ms_legacy/doc_extractor.py : _extract_images_from_word_document — DIB carver -/

/-- `i` is an `int` in the translation (`i = start` with `start = word_doc.find(...)`, which may be −1 as far as the
    types know): the variant is `data_len − i` clipped at 0 -/
def dib_carve_m (env : dib_carve.Env) (s : dib_carve.State) : Nat := ((env.v0 : Int) - s.v0).toNat

theorem dib_carve_next (env : dib_carve.Env) (ora) (s s' : dib_carve.State)
    (h : dib_carve.step env ora s = .ok (.next s')) : dib_carve_m env s' < dib_carve_m env s := by
  have hf := bytesFind_ge env.v1 env.v2 s.v0
  unfold dib_carve.step at h
  unfold dib_carve_m
  py_step_nf [unpackFromI_dib dib_fmt, shl] [] at h
  cases s'
  py_variant_omega h [dib_carve.State.mk.injEq]

/-- VARIANT: `data_len − i` decreases for ALL states (negative `i` included), all environments (any signature, any
    `data_len`), every oracle answer about the hash set: `find` never returns an index before `i`, and `dib_len ≤ 0`
    is refused before `i += dib_len` -/
theorem dib_carve_variant (env : dib_carve.Env) (ora) (s s' : dib_carve.State)
    (h : dib_carve.stepO env ora s = .ok (some s')) : dib_carve_m env s' < dib_carve_m env s :=
  dib_carve_next env ora s s' (map_toOption_some h)


/-! ### agreement of the DIB carver (bytes: every element < 256 — `abs(width)` of a signed 32-bit field is the model's
    `absI32` only on genuine bytes) -/

/-- the tactic block shared by the two `next` cases: `hl` (the model's `dibLenAt d start = …`, unfolded) decides every
    `if` of the translated body; `omega` discharges each condition, then compares the new `i` -/
macro "py_dib_case" : tactic => `(tactic| (
    simp only [List.contains_cons, List.contains_nil, Bool.or_eq_true, beq_iff_eq, Bool.or_false, ne_eq, Option.some.injEq] at *
    generalize 2 ^ u16le _ _ = P at *
    generalize (u16le _ _ * absI32 (u32le _ _) + 31) / 32 * 4 * absI32 (u32le _ _) = SZ at *
    simp (maxSteps := 4000000) (disch := omega) only [if_pos, if_neg, reduceCtorEq, if_false, if_true]
    first
      | exact ⟨_, rfl, by first | (simp; done) | (simp; omega) | omega⟩
      | (split <;> exact ⟨_, rfl, by first | (simp; done) | (simp; omega) | omega⟩)))

set_option maxHeartbeats 8000000 in
theorem dib_step_some (d : List Nat) (hb : ∀ b ∈ d, b < 256) (ora) (i k start dl : Nat) (h1 : i + 40 ≤ d.length)
    (hf : findFrom dibSig d i = some start) (hs : ¬ start + 40 > d.length) (hl : dibLenAt d start = some dl) :
    ∃ s', dib_carve.step ⟨d.length, d, [40, 0, 0, 0]⟩ ora ⟨(i : Int), k⟩ = .ok (.next s') ∧ s'.v0 = ((start + dl : Nat) : Int) := by
  have hi : i ≤ d.length := by omega
  have hfind : bytesFind d [40, 0, 0, 0] (i : Int) = (start : Int) := by
    rw [show ([40, 0, 0, 0] : List Nat) = dibSig from rfl, bytesFind_findFrom _ _ _ hi, hf]
  have hw := dibWindow_nat d start (by omega)
  have hsig := dibSig_header hf (by omega)
  have a1 := natAbs_toSigned4 _ (u32le_lt d (start + 4) hb)
  have a2 := natAbs_toSigned4 _ (u32le_lt d (start + 8) hb)
  unfold dibLenAt at hl
  simp only at hl
  py_step_nf [dib_carve.step, unpackFromI_dib dib_fmt, shl, hfind, hw.1, hw.2, take_sliceN, take_drop_sliceN] []
  simp (maxSteps := 4000000) (disch := omega) only [leNat_slice2, leNat_slice4, dib_size_cast, Nat.one_shiftLeft]
  simp only [a1, a2, shl_one_int, toSigned4_eq_zero _ (u32le_lt d (start + 4) hb), toSigned4_eq_zero _ (u32le_lt d (start + 8) hb)]
  repeat' split at hl
  all_goals try (simp at hl; done)
  all_goals py_dib_case

set_option maxHeartbeats 8000000 in
theorem dib_step_none (d : List Nat) (hb : ∀ b ∈ d, b < 256) (ora) (i k start : Nat) (h1 : i + 40 ≤ d.length)
    (hf : findFrom dibSig d i = some start) (hs : ¬ start + 40 > d.length) (hl : dibLenAt d start = none) :
    ∃ s', dib_carve.step ⟨d.length, d, [40, 0, 0, 0]⟩ ora ⟨(i : Int), k⟩ = .ok (.next s') ∧ s'.v0 = ((start + 1 : Nat) : Int) := by
  have hi : i ≤ d.length := by omega
  have hfind : bytesFind d [40, 0, 0, 0] (i : Int) = (start : Int) := by
    rw [show ([40, 0, 0, 0] : List Nat) = dibSig from rfl, bytesFind_findFrom _ _ _ hi, hf]
  have hw := dibWindow_nat d start (by omega)
  have hsig := dibSig_header hf (by omega)
  have a1 := natAbs_toSigned4 _ (u32le_lt d (start + 4) hb)
  have a2 := natAbs_toSigned4 _ (u32le_lt d (start + 8) hb)
  unfold dibLenAt at hl
  simp only at hl
  py_step_nf [dib_carve.step, unpackFromI_dib dib_fmt, shl, hfind, hw.1, hw.2, take_sliceN, take_drop_sliceN] []
  simp (maxSteps := 4000000) (disch := omega) only [leNat_slice2, leNat_slice4, dib_size_cast, Nat.one_shiftLeft]
  simp only [a1, a2, shl_one_int, toSigned4_eq_zero _ (u32le_lt d (start + 4) hb), toSigned4_eq_zero _ (u32le_lt d (start + 8) hb)]
  repeat' split at hl
  all_goals try (simp at hl; done)
  all_goals py_dib_case

set_option maxHeartbeats 2000000 in
theorem dib_step_nofind (d : List Nat) (ora) (i k : Nat) (h1 : i + 40 ≤ d.length) (hf : findFrom dibSig d i = none) :
    dib_carve.step ⟨d.length, d, [40, 0, 0, 0]⟩ ora ⟨(i : Int), k⟩ = .ok (.brk ⟨(i : Int), k⟩) := by
  have hi : i ≤ d.length := by omega
  have hfind : bytesFind d [40, 0, 0, 0] (i : Int) = -1 := by
    rw [show ([40, 0, 0, 0] : List Nat) = dibSig from rfl, bytesFind_findFrom _ _ _ hi, hf]
  py_step_nf [dib_carve.step, unpackFromI_dib dib_fmt, shl, hfind] []
  all_goals (try simp (maxSteps := 4000000) (disch := omega) only [if_pos, if_neg])
  all_goals first | omega | (intro _; omega) | rfl

set_option maxHeartbeats 2000000 in
theorem dib_step_short (d : List Nat) (ora) (i k start : Nat) (h1 : i + 40 ≤ d.length)
    (hf : findFrom dibSig d i = some start) (hs : start + 40 > d.length) :
    dib_carve.step ⟨d.length, d, [40, 0, 0, 0]⟩ ora ⟨(i : Int), k⟩ = .ok (.brk ⟨(i : Int), k⟩) := by
  have hi : i ≤ d.length := by omega
  have hfind : bytesFind d [40, 0, 0, 0] (i : Int) = (start : Int) := by
    rw [show ([40, 0, 0, 0] : List Nat) = dibSig from rfl, bytesFind_findFrom _ _ _ hi, hf]
  py_step_nf [dib_carve.step, unpackFromI_dib dib_fmt, shl, hfind] []
  all_goals (try simp (maxSteps := 4000000) (disch := omega) only [if_pos, if_neg])
  all_goals first | omega | (intro _; omega) | rfl

set_option maxHeartbeats 2000000 in
theorem dib_step_stop (d : List Nat) (ora) (i k : Nat) (h1 : ¬ i + 40 ≤ d.length) :
    dib_carve.step ⟨d.length, d, [40, 0, 0, 0]⟩ ora ⟨(i : Int), k⟩ = .ok .stop := by
  py_step_nf [dib_carve.step, unpackFromI_dib dib_fmt, shl] []
  all_goals (try simp (maxSteps := 4000000) (disch := omega) only [if_pos, if_neg])
  all_goals first | omega | (intro _; omega) | rfl

set_option maxHeartbeats 1000000 in
theorem dib_carve_agree_from (d : List Nat) (hb : ∀ b ∈ d, b < 256) (ora) (m) (hv) (i : Nat) :
    ∀ k, ∃ o, run (dib_carve.step ⟨d.length, d, [40, 0, 0, 0]⟩ ora) m hv ⟨(i : Int), k⟩ = .ok o ∧
      o.result = none ∧ o.steps = (dibCarve d i).2 := by
  fun_induction dibCarve d i with
  | case1 i h1 hf =>
    intro k
    exact ⟨_, run_brk (dib_step_nofind d ora i k h1 hf), rfl, rfl⟩
  | case2 i h1 start hf hs =>
    intro k
    exact ⟨_, run_brk (dib_step_short d ora i k start h1 hf hs), rfl, rfl⟩
  | case3 i h1 start hf hs hl r ih =>
    intro k
    obtain ⟨⟨i', k'⟩, e, p⟩ := dib_step_none d hb ora i k start h1 hf hs hl
    simp only at p
    subst p
    obtain ⟨o, r1, r2, r3⟩ := ih k'
    exact ⟨_, run_next_ok e r1, by simp [Outcome.bump, r2], by simp +zetaDelta [Outcome.bump, r3]⟩
  | case4 i h1 start hf hs dl hl r ih =>
    intro k
    obtain ⟨⟨i', k'⟩, e, p⟩ := dib_step_some d hb ora i k start dl h1 hf hs hl
    simp only at p
    subst p
    obtain ⟨o, r1, r2, r3⟩ := ih k'
    exact ⟨_, run_next_ok e r1, by simp [Outcome.bump, r2], by simp +zetaDelta [Outcome.bump, r3]⟩
  | case5 i h1 =>
    intro k
    exact ⟨_, run_stop (dib_step_stop d ora i k h1), rfl, rfl⟩

/-- AGREEMENT: from the translated initial state (`i = 0`, `image_counter = 0`, `signature = b"\\x28\\x00\\x00\\x00"`,
    `data_len = len(word_doc)`), for every byte string and every oracle (answers of the hash-set test): no `return`, and
    the iteration count of `dibCarve`.  On the way: `word_doc.find` is the model's `findFrom`, `header_size` is 40 by the
    signature (the `!= 40` arm is dead), `struct.error` and the negative shift count are unreachable, `dib_len <= 0` never
    holds, and the `int` arithmetic of `size_image` / `dib_len` is the model's. -/
theorem dib_carve_agree (d : List Nat) (hb : ∀ b ∈ d, b < 256) (ora) :
    ∃ o, run (dib_carve.step (dib_carve.init d).1 ora) (dib_carve_m (dib_carve.init d).1) (dib_carve_next _ ora) (dib_carve.init d).2
        = .ok o ∧ o.result = none ∧ o.steps = (dibCarve d 0).2 :=
  dib_carve_agree_from d hb ora _ _ 0 0

/-- outside the side condition the model's `absI32` (truncated subtraction) and Python's `abs` of the signed field differ:
    a "byte" ≥ 256 is not a byte -/
example : (toSigned 4 (u32le [5, 0, 0, 256] 0)).natAbs ≠ absI32 (u32le [5, 0, 0, 256] 0) := by decide

/-! ## ms_legacy/rtf_extractor.py — index walks (`text` is a `str`: its characters are not looked into; the tests on
    them are oracle bits, instantiated with the model's character predicates in the agreement theorems) -/

/-- code points of a Python `str` -/
def cps (t : List Char) : List Nat := t.map Char.toNat

theorem rtf_scan_alpha_next (env : rtf_scan_alpha.Env) (ora) (s s' : rtf_scan_alpha.State)
    (h : rtf_scan_alpha.step env ora s = .ok (.next s')) : env.v0 - s'.v0 < env.v0 - s.v0 := by
  unfold rtf_scan_alpha.step at h
  py_step_nf [getItemN_ite'] [] at h
  py_variant h

theorem rtf_skip_group_next (env : rtf_skip_group.Env) (ora) (s s' : rtf_skip_group.State)
    (h : rtf_skip_group.step env ora s = .ok (.next s')) : env.v0 - s'.v0 < env.v0 - s.v0 := by
  unfold rtf_skip_group.step at h
  py_step_nf [getItemN_ite'] [] at h
  py_variant h

theorem rtf_trim_back_next (env : rtf_trim_back.Env) (ora) (s s' : rtf_trim_back.State)
    (h : rtf_trim_back.step env ora s = .ok (.next s')) :
    (s'.v0 + env.v0.length).toNat < (s.v0 + env.v0.length).toNat := by
  unfold rtf_trim_back.step at h
  py_step_nf [getItem_ite] [] at h
  py_variant h

/-- `scanWhile p` as an oracle: the answer to `text[j].isalpha()` is `p` of the code point at `j` -/
def scanOra (p : Nat → Bool) (t : List Char) : rtf_scan_alpha.State → Nat → Bool := fun st _ => p (strAt (cps t) st.v0)

theorem rtf_scan_alpha_agree_from (p : Nat → Bool) (t : List Char) (m) (hv) (j : Nat) :
    ∃ o, run (rtf_scan_alpha.step ⟨t.length, t⟩ (scanOra p t)) m hv ⟨j⟩ = .ok o ∧ o.result = none ∧
      o.final.v0 = (scanWhile p (cps t) j).1 ∧ o.steps = (scanWhile p (cps t) j).2 := by
  fun_induction scanWhile p (cps t) j with
  | case1 j h1 h2 r ih =>
    obtain ⟨o, r1, r2, r3, r4⟩ := ih
    have hs : rtf_scan_alpha.step ⟨t.length, t⟩ (scanOra p t) ⟨j⟩ = .ok (.next ⟨j + 1⟩) := by
      simp [cps] at h1
      py_step_eq [rtf_scan_alpha.step, getItemN_ite', scanOra] []
    exact ⟨_, run_next_ok hs r1, by simp [Outcome.bump, r2], by simp +zetaDelta [Outcome.bump, r3], by simp +zetaDelta [Outcome.bump, r4]⟩
  | case2 j h1 h2 =>
    have hs : rtf_scan_alpha.step ⟨t.length, t⟩ (scanOra p t) ⟨j⟩ = .ok .stop := by
      simp [cps] at h1
      py_step_eq [rtf_scan_alpha.step, getItemN_ite', scanOra] []
    exact ⟨_, run_stop hs, rfl, rfl, rfl⟩
  | case3 j h1 =>
    have hs : rtf_scan_alpha.step ⟨t.length, t⟩ (scanOra p t) ⟨j⟩ = .ok .stop := by
      simp [cps] at h1
      py_step_eq [rtf_scan_alpha.step, getItemN_ite', scanOra] []
    exact ⟨_, run_stop hs, rfl, rfl, rfl⟩
/-- oracle of the second scan: bit 0 = `text[j].isdigit()`, bit 1 = `text[j] == "-"` -/
def paramOra (digit : Nat → Bool) (t : List Char) : rtf_scan_param.State → Nat → Bool :=
  fun st k => if k = 0 then digit (strAt (cps t) st.v0) else strAt (cps t) st.v0 == 45

theorem rtf_scan_param_agree_from (digit : Nat → Bool) (t : List Char) (m) (hv) (j : Nat) :
    ∃ o, run (rtf_scan_param.step ⟨t.length, t⟩ (paramOra digit t)) m hv ⟨j⟩ = .ok o ∧ o.result = none ∧
      o.final.v0 = (scanWhile (fun c => digit c || c == 45) (cps t) j).1 ∧
      o.steps = (scanWhile (fun c => digit c || c == 45) (cps t) j).2 := by
  fun_induction scanWhile (fun c => digit c || c == 45) (cps t) j with
  | case1 j h1 h2 r ih =>
    obtain ⟨o, r1, r2, r3, r4⟩ := ih
    have hs : rtf_scan_param.step ⟨t.length, t⟩ (paramOra digit t) ⟨j⟩ = .ok (.next ⟨j + 1⟩) := by
      simp [cps] at h1
      py_step_eq [rtf_scan_param.step, getItemN_ite', paramOra] []
    exact ⟨_, run_next_ok hs r1, by simp [Outcome.bump, r2], by simp +zetaDelta [Outcome.bump, r3], by simp +zetaDelta [Outcome.bump, r4]⟩
  | case2 j h1 h2 =>
    have hs : rtf_scan_param.step ⟨t.length, t⟩ (paramOra digit t) ⟨j⟩ = .ok .stop := by
      simp [cps] at h1
      py_step_eq [rtf_scan_param.step, getItemN_ite', paramOra] []
    exact ⟨_, run_stop hs, rfl, rfl, rfl⟩
  | case3 j h1 =>
    have hs : rtf_scan_param.step ⟨t.length, t⟩ (paramOra digit t) ⟨j⟩ = .ok .stop := by
      simp [cps] at h1
      py_step_eq [rtf_scan_param.step, getItemN_ite', paramOra] []
    exact ⟨_, run_stop hs, rfl, rfl, rfl⟩

/-- oracle of the group skipper: bit 0 = `text[i] == "{"`, bit 1 = `text[i] == "}"` -/
def skipOra (t : List Char) : rtf_skip_group.State → Nat → Bool :=
  fun st k => if k = 0 then strAt (cps t) st.v0 == 123 else strAt (cps t) st.v0 == 125

theorem rtf_skip_group_agree_from (t : List Char) (m) (hv) (i : Nat) (depth : Int) :
    ∃ o, run (rtf_skip_group.step ⟨t.length, t⟩ (skipOra t)) m hv ⟨i, depth⟩ = .ok o ∧ o.result = none ∧
      o.final.v0 = (skipGroup (cps t) i depth).1 ∧ o.steps = (skipGroup (cps t) i depth).2 := by
  fun_induction skipGroup (cps t) i depth with
  | case1 i depth h1 c h2 r ih =>
    obtain ⟨o, r1, r2, r3, r4⟩ := ih
    have hs : rtf_skip_group.step ⟨t.length, t⟩ (skipOra t) ⟨i, depth⟩ = .ok (.next ⟨i + 1, depth + 1⟩) := by
      simp [cps] at h1
      py_step_eq [rtf_skip_group.step, getItemN_ite', skipOra] []
    exact ⟨_, run_next_ok hs r1, by simp [Outcome.bump, r2], by simp +zetaDelta [Outcome.bump, r3], by simp +zetaDelta [Outcome.bump, r4]⟩
  | case2 i depth h1 c h2 h3 h4 =>
    have hs : rtf_skip_group.step ⟨t.length, t⟩ (skipOra t) ⟨i, depth⟩ = .ok (.brk ⟨i + 1, depth - 1⟩) := by
      simp [cps] at h1
      py_step_eq [rtf_skip_group.step, getItemN_ite', skipOra] []
    exact ⟨_, run_brk hs, rfl, rfl, rfl⟩
  | case3 i depth h1 c h2 h3 h4 r ih =>
    obtain ⟨o, r1, r2, r3, r4⟩ := ih
    have hs : rtf_skip_group.step ⟨t.length, t⟩ (skipOra t) ⟨i, depth⟩ = .ok (.next ⟨i + 1, depth - 1⟩) := by
      simp [cps] at h1
      py_step_eq [rtf_skip_group.step, getItemN_ite', skipOra] []
    exact ⟨_, run_next_ok hs r1, by simp [Outcome.bump, r2], by simp +zetaDelta [Outcome.bump, r3], by simp +zetaDelta [Outcome.bump, r4]⟩
  | case4 i depth h1 c h2 h3 r ih =>
    obtain ⟨o, r1, r2, r3, r4⟩ := ih
    have hs : rtf_skip_group.step ⟨t.length, t⟩ (skipOra t) ⟨i, depth⟩ = .ok (.next ⟨i + 1, depth⟩) := by
      simp [cps] at h1
      py_step_eq [rtf_skip_group.step, getItemN_ite', skipOra] []
    exact ⟨_, run_next_ok hs r1, by simp [Outcome.bump, r2], by simp +zetaDelta [Outcome.bump, r3], by simp +zetaDelta [Outcome.bump, r4]⟩
  | case5 i depth h1 =>
    have hs : rtf_skip_group.step ⟨t.length, t⟩ (skipOra t) ⟨i, depth⟩ = .ok .stop := by
      simp [cps] at h1
      py_step_eq [rtf_skip_group.step, getItemN_ite', skipOra] []
    exact ⟨_, run_stop hs, rfl, rfl, rfl⟩

/-! ## stack pops (`data_types.py` ×3, `ppt_extractor._parse_containers`, `ods_extractor._extract_sheet`) — the stack is a
    Python list whose top is its LAST element; the models take it top first -/
theorem pop_headings_doc_next (env : pop_headings_doc.Env) (ora) (s s' : pop_headings_doc.State)
    (h : pop_headings_doc.step env ora s = .ok (.next s')) : s'.v0.length < s.v0.length := by
  unfold pop_headings_doc.step at h
  rcases List.eq_nil_or_concat s.v0 with h0 | ⟨xs, a, h0⟩
  · rw [h0] at h
    py_step_nf [getItem_nil, listPop_nil] [] at h
  · rw [List.concat_eq_append] at h0
    rw [h0] at h
    py_step_nf [getItem_last, listPop_last, truthy_append_singleton] [] at h
    rw [h0]
    py_variant h

theorem pop_headings_doc_agree_from (level : Int) (ora) (m) (hv) (rs : List (Int × List Char)) :
    ∃ o, run (pop_headings_doc.step ⟨level⟩ ora) m hv ⟨rs.reverse⟩ = .ok o ∧ o.result = none ∧
      o.final.v0.reverse.map (·.1) = (popHeadings level (rs.map (·.1))).1 ∧
      o.steps = (popHeadings level (rs.map (·.1))).2 := by
  induction rs with
  | nil =>
    exact ⟨_, run_stop (by py_step_eq [pop_headings_doc.step] []), rfl, rfl, rfl⟩
  | cons a rest ih =>
    obtain ⟨o, r1, r2, r3, r4⟩ := ih
    by_cases hl : a.1 ≥ level
    · have hs : pop_headings_doc.step ⟨level⟩ ora ⟨(a :: rest).reverse⟩ = .ok (.next ⟨rest.reverse⟩) := by
        rw [List.reverse_cons]
        py_step_eq [pop_headings_doc.step, getItem_last, listPop_last, truthy_append_singleton] []
      exact ⟨_, run_next_ok hs r1, by simp [Outcome.bump, r2], by simp [Outcome.bump, r3, popHeadings, hl],
        by simp [Outcome.bump, r4, popHeadings, hl]⟩
    · have hs : pop_headings_doc.step ⟨level⟩ ora ⟨(a :: rest).reverse⟩ = .ok .stop := by
        rw [List.reverse_cons]
        py_step_eq [pop_headings_doc.step, getItem_last, listPop_last, truthy_append_singleton] []
      exact ⟨_, run_stop hs, rfl, by simp [popHeadings, hl], by simp [popHeadings, hl]⟩
theorem pop_headings_docx_next (env : pop_headings_docx.Env) (ora) (s s' : pop_headings_docx.State)
    (h : pop_headings_docx.step env ora s = .ok (.next s')) : s'.v0.length < s.v0.length := by
  unfold pop_headings_docx.step at h
  rcases List.eq_nil_or_concat s.v0 with h0 | ⟨xs, a, h0⟩
  · rw [h0] at h
    py_step_nf [getItem_nil, listPop_nil] [] at h
  · rw [List.concat_eq_append] at h0
    rw [h0] at h
    py_step_nf [getItem_last, listPop_last, truthy_append_singleton] [] at h
    rw [h0]
    py_variant h

theorem pop_headings_docx_agree_from (level : Int) (ora) (m) (hv) (rs : List (Int × List Char)) :
    ∃ o, run (pop_headings_docx.step ⟨level⟩ ora) m hv ⟨rs.reverse⟩ = .ok o ∧ o.result = none ∧
      o.final.v0.reverse.map (·.1) = (popHeadings level (rs.map (·.1))).1 ∧
      o.steps = (popHeadings level (rs.map (·.1))).2 := by
  induction rs with
  | nil =>
    exact ⟨_, run_stop (by py_step_eq [pop_headings_docx.step] []), rfl, rfl, rfl⟩
  | cons a rest ih =>
    obtain ⟨o, r1, r2, r3, r4⟩ := ih
    by_cases hl : a.1 ≥ level
    · have hs : pop_headings_docx.step ⟨level⟩ ora ⟨(a :: rest).reverse⟩ = .ok (.next ⟨rest.reverse⟩) := by
        rw [List.reverse_cons]
        py_step_eq [pop_headings_docx.step, getItem_last, listPop_last, truthy_append_singleton] []
      exact ⟨_, run_next_ok hs r1, by simp [Outcome.bump, r2], by simp [Outcome.bump, r3, popHeadings, hl],
        by simp [Outcome.bump, r4, popHeadings, hl]⟩
    · have hs : pop_headings_docx.step ⟨level⟩ ora ⟨(a :: rest).reverse⟩ = .ok .stop := by
        rw [List.reverse_cons]
        py_step_eq [pop_headings_docx.step, getItem_last, listPop_last, truthy_append_singleton] []
      exact ⟨_, run_stop hs, rfl, by simp [popHeadings, hl], by simp [popHeadings, hl]⟩
theorem pop_headings_odt_next (env : pop_headings_odt.Env) (ora) (s s' : pop_headings_odt.State)
    (h : pop_headings_odt.step env ora s = .ok (.next s')) : s'.v0.length < s.v0.length := by
  unfold pop_headings_odt.step at h
  rcases List.eq_nil_or_concat s.v0 with h0 | ⟨xs, a, h0⟩
  · rw [h0] at h
    py_step_nf [getItem_nil, listPop_nil] [] at h
  · rw [List.concat_eq_append] at h0
    rw [h0] at h
    py_step_nf [getItem_last, listPop_last, truthy_append_singleton] [] at h
    rw [h0]
    py_variant h

theorem pop_headings_odt_agree_from (level : Int) (ora) (m) (hv) (rs : List (Int × List Char)) :
    ∃ o, run (pop_headings_odt.step ⟨level⟩ ora) m hv ⟨rs.reverse⟩ = .ok o ∧ o.result = none ∧
      o.final.v0.reverse.map (·.1) = (popHeadings level (rs.map (·.1))).1 ∧
      o.steps = (popHeadings level (rs.map (·.1))).2 := by
  induction rs with
  | nil =>
    exact ⟨_, run_stop (by py_step_eq [pop_headings_odt.step] []), rfl, rfl, rfl⟩
  | cons a rest ih =>
    obtain ⟨o, r1, r2, r3, r4⟩ := ih
    by_cases hl : a.1 ≥ level
    · have hs : pop_headings_odt.step ⟨level⟩ ora ⟨(a :: rest).reverse⟩ = .ok (.next ⟨rest.reverse⟩) := by
        rw [List.reverse_cons]
        py_step_eq [pop_headings_odt.step, getItem_last, listPop_last, truthy_append_singleton] []
      exact ⟨_, run_next_ok hs r1, by simp [Outcome.bump, r2], by simp [Outcome.bump, r3, popHeadings, hl],
        by simp [Outcome.bump, r4, popHeadings, hl]⟩
    · have hs : pop_headings_odt.step ⟨level⟩ ora ⟨(a :: rest).reverse⟩ = .ok .stop := by
        rw [List.reverse_cons]
        py_step_eq [pop_headings_odt.step, getItem_last, listPop_last, truthy_append_singleton] []
      exact ⟨_, run_stop hs, rfl, by simp [popHeadings, hl], by simp [popHeadings, hl]⟩
theorem pop_ended_next (env : pop_ended.Env) (ora) (s s' : pop_ended.State)
    (h : pop_ended.step env ora s = .ok (.next s')) : s'.v0.length < s.v0.length := by
  unfold pop_ended.step at h
  rcases List.eq_nil_or_concat s.v0 with h0 | ⟨xs, a, h0⟩
  · rw [h0] at h
    py_step_nf [getItem_nil, listPop_nil] [] at h
  · rw [List.concat_eq_append] at h0
    rw [h0] at h
    py_step_nf [getItem_last, listPop_last, truthy_append_singleton] [] at h
    rw [h0]
    py_variant h

/-- bit 0 (`record.offset >= container_stack[-1][1]`) answered for a record at `recOffset`; the other bits (is the
    list of collected texts non-empty) answered by `o` -/
def endedOra (recOffset : Nat) (o : pop_ended.State → Nat → Bool) : pop_ended.State → Nat → Bool :=
  fun st k => if k = 0 then decide (recOffset ≥ (st.v0.getLast?.map (·.2)).getD 0) else o st k

theorem pop_ended_agree_from (recOffset : Nat) (o') (m) (hv) (rs : List (Nat × Nat)) :
    ∃ o, run (pop_ended.step ⟨⟩ (endedOra recOffset o')) m hv ⟨rs.reverse⟩ = .ok o ∧ o.result = none ∧
      o.final.v0.reverse = (popEnded recOffset rs).1 ∧ o.steps = (popEnded recOffset rs).2 := by
  induction rs with
  | nil => exact ⟨_, run_stop (by py_step_eq [pop_ended.step] []), rfl, rfl, rfl⟩
  | cons a rest ih =>
    obtain ⟨o, r1, r2, r3, r4⟩ := ih
    obtain ⟨t, e⟩ := a
    by_cases hl : recOffset ≥ e
    · have hs : pop_ended.step ⟨⟩ (endedOra recOffset o') ⟨((t, e) :: rest).reverse⟩ = .ok (.next ⟨rest.reverse⟩) := by
        rw [List.reverse_cons]
        py_step_eq [pop_ended.step, getItem_last, listPop_last, truthy_append_singleton, endedOra] []
      exact ⟨_, run_next_ok hs r1, by simp [Outcome.bump, r2], by simp [Outcome.bump, r3, popEnded, hl],
        by simp [Outcome.bump, r4, popEnded, hl]⟩
    · have hs : pop_ended.step ⟨⟩ (endedOra recOffset o') ⟨((t, e) :: rest).reverse⟩ = .ok .stop := by
        rw [List.reverse_cons]
        py_step_eq [pop_ended.step, getItem_last, listPop_last, truthy_append_singleton, endedOra] []
      exact ⟨_, run_stop hs, rfl, by simp [popEnded, hl], by simp [popEnded, hl]⟩

theorem trim_empty_rows_next (env : trim_empty_rows.Env) (ora) (s s' : trim_empty_rows.State)
    (h : trim_empty_rows.step env ora s = .ok (.next s')) : s'.v0.length < s.v0.length := by
  unfold trim_empty_rows.step at h
  rcases List.eq_nil_or_concat s.v0 with h0 | ⟨xs, a, h0⟩
  · rw [h0] at h
    py_step_nf [getItem_nil, listPop_nil] [] at h
  · rw [List.concat_eq_append] at h0
    rw [h0] at h
    py_step_nf [getItem_last, listPop_last, truthy_append_singleton] [] at h
    rw [h0]
    py_variant h

/-- `all(v[0] is None for v in raw_rows[-1])` as a function `f` of the last row -/
def rowsOra (f : List (Unit × List Char) → Bool) : trim_empty_rows.State → Nat → Bool :=
  fun st _ => f (st.v0.getLast?.getD [])

theorem trim_empty_rows_agree_from (f : List (Unit × List Char) → Bool) (m) (hv) (rs : List (List (Unit × List Char))) :
    ∃ o, run (trim_empty_rows.step ⟨⟩ (rowsOra f)) m hv ⟨rs.reverse⟩ = .ok o ∧ o.result = none ∧
      o.final.v0.length = (trimEmptyRows (rs.map fun r => [f r])).1.length ∧
      o.steps = (trimEmptyRows (rs.map fun r => [f r])).2 := by
  induction rs with
  | nil => exact ⟨_, run_stop (by py_step_eq [trim_empty_rows.step] []), rfl, rfl, rfl⟩
  | cons a rest ih =>
    obtain ⟨o, r1, r2, r3, r4⟩ := ih
    by_cases hl : f a = true
    · have hs : trim_empty_rows.step ⟨⟩ (rowsOra f) ⟨(a :: rest).reverse⟩ = .ok (.next ⟨rest.reverse⟩) := by
        rw [List.reverse_cons]
        py_step_eq [trim_empty_rows.step, getItem_last, listPop_last, truthy_append_singleton, rowsOra] []
      exact ⟨_, run_next_ok hs r1, by simp [Outcome.bump, r2], by simp [Outcome.bump, r3, trimEmptyRows, hl],
        by simp [Outcome.bump, r4, trimEmptyRows, hl]⟩
    · have hs : trim_empty_rows.step ⟨⟩ (rowsOra f) ⟨(a :: rest).reverse⟩ = .ok .stop := by
        rw [List.reverse_cons]
        py_step_eq [trim_empty_rows.step, getItem_last, listPop_last, truthy_append_singleton, rowsOra] []
      exact ⟨_, run_stop hs, rfl, by simp [trimEmptyRows, hl], by simp [trimEmptyRows, hl]⟩

/-! ## pdf/pdf_extractor.py : _TableExtractor._extract_row -/

theorem trailing_numeric_next (env : trailing_numeric.Env) (ora) (s s' : trailing_numeric.State)
    (h : trailing_numeric.step env ora s = .ok (.next s')) : (s'.v0 + 1).toNat < (s.v0 + 1).toNat := by
  unfold trailing_numeric.step at h
  py_step_nf [getItem_ite] [] at h
  py_variant h

/-- `self.is_numeric_token(tokens[idx])` as a predicate `p` on the token at `idx` -/
def numOra (p : List Char → Bool) (tokens : List (List Char)) : trailing_numeric.State → Nat → Bool :=
  fun st _ => p (tokens[st.v0.toNat]?.getD default)

theorem take_succ_reverse {α β} [Inhabited α] (f : α → β) (l : List α) (k : Nat) (h : k < l.length) :
    ((l.take (k + 1)).map f).reverse = f (l[k]?.getD default) :: ((l.take k).map f).reverse := by
  have e : l.take (k + 1) = l.take k ++ [l[k]] := by
    rw [List.take_add_one]; simp [List.getElem?_eq_getElem h]
  rw [e, List.map_append, List.reverse_append]
  simp [List.getElem?_eq_getElem h]

theorem trailing_numeric_agree_from (p : List Char → Bool) (tokens : List (List Char)) (m) (hv) (k : Nat) (hk : k ≤ tokens.length) :
    ∀ vs, ∃ o, run (trailing_numeric.step ⟨tokens⟩ (numOra p tokens)) m hv ⟨(k : Int) - 1, vs⟩ = .ok o ∧ o.result = none ∧
      o.final.v1.length = vs.length + (trailingNumeric ((tokens.take k).map p).reverse).1 ∧
      o.steps = (trailingNumeric ((tokens.take k).map p).reverse).2 := by
  induction k with
  | zero =>
    intro vs
    exact ⟨_, run_stop (by py_step_eq [trailing_numeric.step, getItem_ite] []), rfl, by simp [trailingNumeric], by simp [trailingNumeric]⟩
  | succ k ih =>
    intro vs
    have hk' : k < tokens.length := by omega
    rw [take_succ_reverse p tokens k hk']
    by_cases hp : p (tokens[k]?.getD default) = true
    · have hs : ∃ s', trailing_numeric.step ⟨tokens⟩ (numOra p tokens) ⟨((k + 1 : Nat) : Int) - 1, vs⟩ = .ok (.next s') ∧
          (s'.v0 = (k : Int) - 1 ∧ s'.v1.length = vs.length + 1) := by
        py_step_ex [trailing_numeric.step, getItem_ite, numOra] [] []
      obtain ⟨⟨i', vs'⟩, e, p1, p2⟩ := hs
      simp only at p1 p2
      subst p1
      obtain ⟨o, r1, r2, r3, r4⟩ := ih (by omega) vs'
      exact ⟨_, run_next_ok e r1, by simp [Outcome.bump, r2], by simp [Outcome.bump, r3, trailingNumeric, hp, p2]; omega,
        by simp [Outcome.bump, r4, trailingNumeric, hp]⟩
    · have hs : trailing_numeric.step ⟨tokens⟩ (numOra p tokens) ⟨((k + 1 : Nat) : Int) - 1, vs⟩ = .ok .stop := by
        py_step_eq [trailing_numeric.step, getItem_ite, numOra] []
      exact ⟨_, run_stop hs, rfl, by simp [trailingNumeric, hp], by simp [trailingNumeric, hp]⟩

/-! ## rtf: `while k and (control_word[k-1].isdigit() or control_word[k-1] == "-"): k -= 1` -/

def trimOra (digit : Nat → Bool) (w : List Char) : rtf_trim_back.State → Nat → Bool :=
  fun st k => if k = 0 then digit (strAt (cps w) (st.v0 - 1).toNat) else strAt (cps w) (st.v0 - 1).toNat == 45

theorem take_succ_reverse' (l : List Nat) (k : Nat) (h : k < l.length) :
    (l.take (k + 1)).reverse = strAt l k :: (l.take k).reverse := by
  have e : l.take (k + 1) = l.take k ++ [l[k]] := by
    rw [List.take_add_one]; simp [List.getElem?_eq_getElem h]
  rw [e, List.reverse_append]
  simp [strAt, List.getD, List.getElem?_eq_getElem h]

theorem rtf_trim_back_agree_from (digit : Nat → Bool) (w : List Char) (m) (hv) (k : Nat) (hk : k ≤ w.length) :
    ∃ o, run (rtf_trim_back.step ⟨w⟩ (trimOra digit w)) m hv ⟨(k : Int)⟩ = .ok o ∧ o.result = none ∧
      o.final.v0 = ((trimBack (fun c => digit c || c == 45) ((cps w).take k).reverse).1 : Nat) ∧
      o.steps = (trimBack (fun c => digit c || c == 45) ((cps w).take k).reverse).2 := by
  induction k with
  | zero =>
    exact ⟨_, run_stop (by py_step_eq [rtf_trim_back.step, getItem_ite] []), rfl, by simp [trimBack], by simp [trimBack]⟩
  | succ k ih =>
    have hk' : k < (cps w).length := by simp [cps]; omega
    rw [take_succ_reverse' (cps w) k hk']
    obtain ⟨o, r1, r2, r3, r4⟩ := ih (by omega)
    by_cases hp : (digit (strAt (cps w) k) || strAt (cps w) k == 45) = true
    · have hs : rtf_trim_back.step ⟨w⟩ (trimOra digit w) ⟨((k + 1 : Nat) : Int)⟩ = .ok (.next ⟨(k : Int)⟩) := by
        simp [cps] at hk'
        py_step_eq [rtf_trim_back.step, getItem_ite, trimOra] []
      exact ⟨_, run_next_ok hs r1, by simp [Outcome.bump, r2], by simp [Outcome.bump, r3, trimBack, hp],
        by simp [Outcome.bump, r4, trimBack, hp]⟩
    · have hs : rtf_trim_back.step ⟨w⟩ (trimOra digit w) ⟨((k + 1 : Nat) : Int)⟩ = .ok .stop := by
        simp [cps] at hk'
        py_step_eq [rtf_trim_back.step, getItem_ite, trimOra] []
      exact ⟨_, run_stop hs, rfl, by simp [trimBack, hp]; simp [cps] at hk' ⊢; omega, by simp [trimBack, hp]⟩

/-! ## the new loops in the prescribed form: `stepO … = ok (some s') → m env s' < m env s`, and `run` from `init` -/

def rtf_skip_group_m (env : rtf_skip_group.Env) (s : rtf_skip_group.State) : Nat := env.v0 - s.v0
def rtf_scan_alpha_m (env : rtf_scan_alpha.Env) (s : rtf_scan_alpha.State) : Nat := env.v0 - s.v0
def rtf_scan_param_m (env : rtf_scan_param.Env) (s : rtf_scan_param.State) : Nat := env.v0 - s.v0
/-- `k` is an `int` (`k -= 1`): `k + len(control_word)` clipped at 0 — a NEGATIVE `k` walks down until the index leaves
    the string and `IndexError` ends the loop -/
def rtf_trim_back_m (env : rtf_trim_back.Env) (s : rtf_trim_back.State) : Nat := (s.v0 + env.v0.length).toNat
def pop_headings_doc_m (_ : pop_headings_doc.Env) (s : pop_headings_doc.State) : Nat := s.v0.length
def pop_headings_docx_m (_ : pop_headings_docx.Env) (s : pop_headings_docx.State) : Nat := s.v0.length
def pop_headings_odt_m (_ : pop_headings_odt.Env) (s : pop_headings_odt.State) : Nat := s.v0.length
def pop_ended_m (_ : pop_ended.Env) (s : pop_ended.State) : Nat := s.v0.length
def trim_empty_rows_m (_ : trim_empty_rows.Env) (s : trim_empty_rows.State) : Nat := s.v0.length
def trailing_numeric_m (_ : trailing_numeric.Env) (s : trailing_numeric.State) : Nat := (s.v0 + 1).toNat

theorem rtf_scan_param_next (env : rtf_scan_param.Env) (ora) (s s' : rtf_scan_param.State)
    (h : rtf_scan_param.step env ora s = .ok (.next s')) : env.v0 - s'.v0 < env.v0 - s.v0 := by
  unfold rtf_scan_param.step at h
  py_step_nf [getItemN_ite'] [] at h
  py_variant h

theorem rtf_skip_group_variant (env : rtf_skip_group.Env) (ora) (s s' : rtf_skip_group.State)
    (h : rtf_skip_group.stepO env ora s = .ok (some s')) : rtf_skip_group_m env s' < rtf_skip_group_m env s :=
  rtf_skip_group_next env ora s s' (map_toOption_some h)
theorem rtf_scan_alpha_variant (env : rtf_scan_alpha.Env) (ora) (s s' : rtf_scan_alpha.State)
    (h : rtf_scan_alpha.stepO env ora s = .ok (some s')) : rtf_scan_alpha_m env s' < rtf_scan_alpha_m env s :=
  rtf_scan_alpha_next env ora s s' (map_toOption_some h)
theorem rtf_scan_param_variant (env : rtf_scan_param.Env) (ora) (s s' : rtf_scan_param.State)
    (h : rtf_scan_param.stepO env ora s = .ok (some s')) : rtf_scan_param_m env s' < rtf_scan_param_m env s :=
  rtf_scan_param_next env ora s s' (map_toOption_some h)
theorem rtf_trim_back_variant (env : rtf_trim_back.Env) (ora) (s s' : rtf_trim_back.State)
    (h : rtf_trim_back.stepO env ora s = .ok (some s')) : rtf_trim_back_m env s' < rtf_trim_back_m env s :=
  rtf_trim_back_next env ora s s' (map_toOption_some h)
theorem pop_headings_doc_variant (env : pop_headings_doc.Env) (ora) (s s' : pop_headings_doc.State)
    (h : pop_headings_doc.stepO env ora s = .ok (some s')) : pop_headings_doc_m env s' < pop_headings_doc_m env s :=
  pop_headings_doc_next env ora s s' (map_toOption_some h)
theorem pop_headings_docx_variant (env : pop_headings_docx.Env) (ora) (s s' : pop_headings_docx.State)
    (h : pop_headings_docx.stepO env ora s = .ok (some s')) : pop_headings_docx_m env s' < pop_headings_docx_m env s :=
  pop_headings_docx_next env ora s s' (map_toOption_some h)
theorem pop_headings_odt_variant (env : pop_headings_odt.Env) (ora) (s s' : pop_headings_odt.State)
    (h : pop_headings_odt.stepO env ora s = .ok (some s')) : pop_headings_odt_m env s' < pop_headings_odt_m env s :=
  pop_headings_odt_next env ora s s' (map_toOption_some h)
theorem pop_ended_variant (env : pop_ended.Env) (ora) (s s' : pop_ended.State)
    (h : pop_ended.stepO env ora s = .ok (some s')) : pop_ended_m env s' < pop_ended_m env s :=
  pop_ended_next env ora s s' (map_toOption_some h)
theorem trim_empty_rows_variant (env : trim_empty_rows.Env) (ora) (s s' : trim_empty_rows.State)
    (h : trim_empty_rows.stepO env ora s = .ok (some s')) : trim_empty_rows_m env s' < trim_empty_rows_m env s :=
  trim_empty_rows_next env ora s s' (map_toOption_some h)
theorem trailing_numeric_variant (env : trailing_numeric.Env) (ora) (s s' : trailing_numeric.State)
    (h : trailing_numeric.stepO env ora s = .ok (some s')) : trailing_numeric_m env s' < trailing_numeric_m env s :=
  trailing_numeric_next env ora s s' (map_toOption_some h)

/-- AGREEMENT (group skipper, from `depth = 0` at any `i`): final `i` and iteration count of `skipGroup` -/
theorem rtf_skip_group_agree (t : List Char) (i : Nat) :
    ∃ o, run (rtf_skip_group.step (rtf_skip_group.init t i).1 (skipOra t)) (rtf_skip_group_m (rtf_skip_group.init t i).1)
        (rtf_skip_group_next _ _) (rtf_skip_group.init t i).2 = .ok o ∧ o.result = none ∧
      o.final.v0 = (skipGroup (cps t) i 0).1 ∧ o.steps = (skipGroup (cps t) i 0).2 :=
  rtf_skip_group_agree_from t _ _ i 0
/-- AGREEMENT (`while j < n and text[j].isalpha()` from `j = i + 1`) -/
theorem rtf_scan_alpha_agree (p : Nat → Bool) (t : List Char) (i : Nat) :
    ∃ o, run (rtf_scan_alpha.step (rtf_scan_alpha.init t i).1 (scanOra p t)) (rtf_scan_alpha_m (rtf_scan_alpha.init t i).1)
        (rtf_scan_alpha_next _ _) (rtf_scan_alpha.init t i).2 = .ok o ∧ o.result = none ∧
      o.final.v0 = (scanWhile p (cps t) (i + 1)).1 ∧ o.steps = (scanWhile p (cps t) (i + 1)).2 :=
  rtf_scan_alpha_agree_from p t _ _ (i + 1)
theorem rtf_scan_param_agree (digit : Nat → Bool) (t : List Char) (j : Nat) :
    ∃ o, run (rtf_scan_param.step (rtf_scan_param.init t j).1 (paramOra digit t)) (rtf_scan_param_m (rtf_scan_param.init t j).1)
        (rtf_scan_param_next _ _) (rtf_scan_param.init t j).2 = .ok o ∧ o.result = none ∧
      o.final.v0 = (scanWhile (fun c => digit c || c == 45) (cps t) j).1 ∧
      o.steps = (scanWhile (fun c => digit c || c == 45) (cps t) j).2 :=
  rtf_scan_param_agree_from digit t _ _ j
/-- AGREEMENT (`k = len(control_word)`, trailing digits / `-` trimmed): `trimBack` on the reversed word -/
theorem rtf_trim_back_agree (digit : Nat → Bool) (w : List Char) :
    ∃ o, run (rtf_trim_back.step (rtf_trim_back.init w).1 (trimOra digit w)) (rtf_trim_back_m (rtf_trim_back.init w).1)
        (rtf_trim_back_next _ _) (rtf_trim_back.init w).2 = .ok o ∧ o.result = none ∧
      o.final.v0 = ((trimBack (fun c => digit c || c == 45) (cps w).reverse).1 : Nat) ∧
      o.steps = (trimBack (fun c => digit c || c == 45) (cps w).reverse).2 := by
  have := rtf_trim_back_agree_from digit w (rtf_trim_back_m (rtf_trim_back.init w).1) (rtf_trim_back_next _ _) w.length (Nat.le_refl _)
  have e : (cps w).take w.length = cps w := by
    apply List.take_of_length_le; simp [cps]
  rw [e] at this
  exact this
/-- AGREEMENT (heading stacks; the Python list is the model's stack reversed): remaining levels and pop count -/
theorem pop_headings_doc_agree (level : Int) (ora) (rs : List (Int × List Char)) :
    ∃ o, run (pop_headings_doc.step (pop_headings_doc.init level rs.reverse).1 ora) (pop_headings_doc_m (pop_headings_doc.init level rs.reverse).1)
        (pop_headings_doc_next _ _) (pop_headings_doc.init level rs.reverse).2 = .ok o ∧ o.result = none ∧
      o.final.v0.reverse.map (·.1) = (popHeadings level (rs.map (·.1))).1 ∧ o.steps = (popHeadings level (rs.map (·.1))).2 :=
  pop_headings_doc_agree_from level ora _ _ rs
theorem pop_headings_docx_agree (level : Int) (ora) (rs : List (Int × List Char)) :
    ∃ o, run (pop_headings_docx.step (pop_headings_docx.init level rs.reverse).1 ora) (pop_headings_docx_m (pop_headings_docx.init level rs.reverse).1)
        (pop_headings_docx_next _ _) (pop_headings_docx.init level rs.reverse).2 = .ok o ∧ o.result = none ∧
      o.final.v0.reverse.map (·.1) = (popHeadings level (rs.map (·.1))).1 ∧ o.steps = (popHeadings level (rs.map (·.1))).2 :=
  pop_headings_docx_agree_from level ora _ _ rs
theorem pop_headings_odt_agree (level : Int) (ora) (rs : List (Int × List Char)) :
    ∃ o, run (pop_headings_odt.step (pop_headings_odt.init level rs.reverse).1 ora) (pop_headings_odt_m (pop_headings_odt.init level rs.reverse).1)
        (pop_headings_odt_next _ _) (pop_headings_odt.init level rs.reverse).2 = .ok o ∧ o.result = none ∧
      o.final.v0.reverse.map (·.1) = (popHeadings level (rs.map (·.1))).1 ∧ o.steps = (popHeadings level (rs.map (·.1))).2 :=
  pop_headings_odt_agree_from level ora _ _ rs
/-- AGREEMENT (ended PPT containers) for a record at `recOffset`, whatever the other tests answer -/
theorem pop_ended_agree (recOffset : Nat) (o') (rs : List (Nat × Nat)) :
    ∃ o, run (pop_ended.step (pop_ended.init rs.reverse).1 (endedOra recOffset o')) (pop_ended_m (pop_ended.init rs.reverse).1)
        (pop_ended_next _ _) (pop_ended.init rs.reverse).2 = .ok o ∧ o.result = none ∧
      o.final.v0.reverse = (popEnded recOffset rs).1 ∧ o.steps = (popEnded recOffset rs).2 :=
  pop_ended_agree_from recOffset o' _ _ rs
/-- AGREEMENT (trailing all-`None` ODS rows), `f` = "every typed value of this row is None" -/
theorem trim_empty_rows_agree (f : List (Unit × List Char) → Bool) (rs : List (List (Unit × List Char))) :
    ∃ o, run (trim_empty_rows.step (trim_empty_rows.init rs.reverse).1 (rowsOra f)) (trim_empty_rows_m (trim_empty_rows.init rs.reverse).1)
        (trim_empty_rows_next _ _) (trim_empty_rows.init rs.reverse).2 = .ok o ∧ o.result = none ∧
      o.final.v0.length = (trimEmptyRows (rs.map fun r => [f r])).1.length ∧
      o.steps = (trimEmptyRows (rs.map fun r => [f r])).2 :=
  trim_empty_rows_agree_from f _ _ rs
/-- AGREEMENT (`_extract_row`: trailing numeric tokens), `p` = `is_numeric_token` -/
theorem trailing_numeric_agree (p : List Char → Bool) (tokens : List (List Char)) :
    ∃ o, run (trailing_numeric.step (trailing_numeric.init tokens).1 (numOra p tokens)) (trailing_numeric_m (trailing_numeric.init tokens).1)
        (trailing_numeric_next _ _) (trailing_numeric.init tokens).2 = .ok o ∧ o.result = none ∧
      o.final.v1.length = (trailingNumeric ((tokens.map p).reverse)).1 ∧
      o.steps = (trailingNumeric ((tokens.map p).reverse)).2 := by
  have := trailing_numeric_agree_from p tokens (trailing_numeric_m (trailing_numeric.init tokens).1) (trailing_numeric_next _ _)
    tokens.length (Nat.le_refl _) []
  simp only [List.take_length, List.length_nil, Nat.zero_add] at this
  exact this

/-! ## pdf/_pypdf_aes_fallback.py : _gf_mul — `while b: … b >>= 1` (REUSED from `tools/gen/pyfun_aes.py`)

`S2T.Gen.PyAes._gf_mul.while_1` is generated from the loop as a well-founded recursion on `b` whose `decreasing_by` proof
(`b >>> 1 < b` from the loop test) Lean checks when it compiles the generated file: that IS the variant theorem of this
loop, for all states.  What is added here is the agreement with the loop model of `S2T/Model/Loops.lean` (the one the
step-count theorem `C12.Loops.steps_gfMul` is about; `C20.Src.gf_mul_while` ties the same translation to `S2T.Aes`). -/

theorem xtime_loops : ∀ a, a < 256 → S2T.Gen.PyAes._xtime a = S2T.Loops.xtime a ∧ S2T.Gen.PyAes._xtime a < 256 := by
  decide +kernel

/-- AGREEMENT: the translated loop computes the model's result from every state with `a` a byte -/
theorem gf_mul_while_agree (a b r : Nat) (ha : a < 256) :
    (S2T.Gen.PyAes._gf_mul.while_1 a b r).2.2 % 256 = (S2T.Loops.gfMulLoop a b r).1 := by
  fun_induction S2T.Loops.gfMulLoop a b r with
  | case1 a r =>
    rw [S2T.Gen.PyAes._gf_mul.while_1]; simp [truthy_nat]
  | case2 a b r h rr ih =>
    rw [S2T.Gen.PyAes._gf_mul.while_1]
    have hx := xtime_loops a ha
    simp +instances only [truthy_nat, bne_iff_ne, ne_eq, h, not_false_eq_true, dite_true]
    simp only [Id.run, pure, bind]
    have e1 : b >>> 1 = b / 2 := by rw [Nat.shiftRight_eq_div_pow]
    have hx2 : S2T.Loops.xtime a < 256 := hx.1 ▸ hx.2
    split <;> simp_all +zetaDelta [truthy_nat]

/-- `_gf_mul(a, b)` is the result of the loop model, for all non-negative ints -/
theorem gf_mul_agree (a b : Nat) : S2T.Gen.PyAes._gf_mul a b = (S2T.Loops.gfMul a b).1 := by
  have ea : a &&& 255 = a % 256 := Nat.and_two_pow_sub_one_eq_mod a 8
  have eb : b &&& 255 = b % 256 := Nat.and_two_pow_sub_one_eq_mod b 8
  have h := gf_mul_while_agree (a % 256) (b % 256) 0 (Nat.mod_lt _ (by decide))
  simp only [S2T.Gen.PyAes._gf_mul, S2T.Loops.gfMul, Id.run, pure, bind, ea, eb]
  rw [← h]
  exact Nat.and_two_pow_sub_one_eq_mod _ 8


/-! ## util/sevenzip.py — header stream loops.  The reader methods (`_read_uint8`, `_read_number`, `_read_bytes`) are NOT
    translated: their calls are the hand models `S2T.Loops.readU8 / readNumber / readBytes` on (buffer, position), the
    position being an extra state field `pos` of the translated loop (TRUSTED name map, `S2T/Py/Loops.lean`).  What IS
    translated is the loop: which readers are called in which order, what ends it, what is done with the values. -/

/-- the exception a reader error is -/
def szExc : SzErr → Exc
  | .bad7z => bad7zFile
  | .overflow => overflowError

theorem szLift_ok {α} {x : Except SzErr α} {a : α} (h : x = .ok a) : szLift x = .ok a := by subst h; rfl
theorem szLift_error {α} {x : Except SzErr α} {e : SzErr} (h : x = .error e) : szLift x = .error (szExc e) := by
  subst h; cases e <;> rfl
theorem szLift_inv {α} {x : Except SzErr α} {a : α} (h : szLift x = .ok a) : x = .ok a := by
  cases x with
  | ok b => simpa [szLift] using h
  | error e => cases e <;> simp [szLift] at h

theorem sz_skip_props_next (env : sz_skip_props.Env) (ora) (s s' : sz_skip_props.State)
    (h : sz_skip_props.step env ora s = .ok (.next s')) :
    env.stream.length + 1 - s'.pos < env.stream.length + 1 - s.pos := by
  unfold sz_skip_props.step at h
  cases h8 : szReadU8 env.stream s.pos with
  | error e => simp [h8] at h
  | ok r8 =>
    have f8 := readU8_pos (szLift_inv h8)
    simp [h8] at h
    split at h
    · simp at h
    · cases hn : szReadNumber env.stream r8.pos with
      | error e => simp [hn] at h
      | ok rn =>
        have fn := readNumber_pos (szLift_inv hn)
        simp [hn] at h
        cases hb : szReadBytes env.stream rn.pos rn.val with
        | error e => simp [hb] at h
        | ok rb =>
          have fb := readBytes_pos (szLift_inv hb)
          simp [hb] at h
          subst h
          simp
          omega

theorem sz_skip_props_agree_from (d : List Nat) (ora) (m) (hv) (pos : Nat) :
    ∀ pid, match skipArchiveProps d pos with
      | .ok (q, n) => ∃ o, run (sz_skip_props.step ⟨d⟩ ora) m hv ⟨pid, pos⟩ = .ok o ∧ o.result = none ∧ o.final.pos = q ∧ o.steps = n
      | .error e => run (sz_skip_props.step ⟨d⟩ ora) m hv ⟨pid, pos⟩ = .error (szExc e) := by
  fun_induction skipArchiveProps d pos with
  | case1 pos e hp =>
    intro pid
    exact run_error (by simp [sz_skip_props.step, szReadU8, szLift_error hp])
  | case2 pos p hp h0 =>
    intro pid
    exact ⟨_, run_brk (s' := ⟨p.val, p.pos⟩) (by simp [sz_skip_props.step, szReadU8, szLift_ok hp, h0, @eq_comm Nat 0]), rfl, rfl, rfl⟩
  | case3 pos p hp h0 e hn =>
    intro pid
    exact run_error (by simp [sz_skip_props.step, szReadU8, szReadNumber, szLift_ok hp, h0, @eq_comm Nat 0, szLift_error hn])
  | case4 pos p hp h0 sz hn e hb =>
    intro pid
    exact run_error (by simp [sz_skip_props.step, szReadU8, szReadNumber, szReadBytes, szLift_ok hp, h0, @eq_comm Nat 0, szLift_ok hn, szLift_error hb])
  | case5 pos p hp h0 sz hn b hb e he ih =>
    intro pid
    have hs : sz_skip_props.step ⟨d⟩ ora ⟨pid, pos⟩ = .ok (.next ⟨p.val, b.pos⟩) := by
      simp [sz_skip_props.step, szReadU8, szReadNumber, szReadBytes, szLift_ok hp, h0, @eq_comm Nat 0, szLift_ok hn, szLift_ok hb]
    have := ih p.val
    rw [he] at this
    exact run_next_error hs this
  | case6 pos p hp h0 sz hn b hb q s he ih =>
    intro pid
    have hs : sz_skip_props.step ⟨d⟩ ora ⟨pid, pos⟩ = .ok (.next ⟨p.val, b.pos⟩) := by
      simp [sz_skip_props.step, szReadU8, szReadNumber, szReadBytes, szLift_ok hp, h0, @eq_comm Nat 0, szLift_ok hn, szLift_ok hb]
    have := ih p.val
    rw [he] at this
    obtain ⟨o, r1, r2, r3, r4⟩ := this
    exact ⟨_, run_next_ok hs r1, by simp [Outcome.bump, r2], by simp [Outcome.bump, r3], by simp [Outcome.bump, r4]⟩

theorem sz_read_name_next (env : sz_read_name.Env) (ora) (s s' : sz_read_name.State)
    (h : sz_read_name.step env ora s = .ok (.next s')) :
    env.stream.length - s'.pos < env.stream.length - s.pos := by
  unfold sz_read_name.step at h
  cases hb : szReadBytes env.stream s.pos 2 with
  | error e => simp [hb] at h
  | ok rb =>
    have fb := szLift_inv hb
    unfold readBytes at fb
    simp [hb] at h
    split at h
    · simp at h
    · simp at h
      subst h
      split at fb
      · cases fb
      · split at fb
        · cases fb
          simp
          split <;> omega
        · cases fb

theorem sz_read_name_agree_from (d : List Nat) (ora) (m) (hv) (pos : Nat) :
    match readName d pos with
      | .ok (nm, q, n) => ∃ o, run (sz_read_name.step ⟨d⟩ ora) m hv ⟨pos⟩ = .ok o ∧ o.result = none ∧ o.final.pos = q ∧ o.steps = n
      | .error e => run (sz_read_name.step ⟨d⟩ ora) m hv ⟨pos⟩ = .error (szExc e) := by
  fun_induction readName d pos with
  | case1 pos h1 c h0 =>
    have hs : sz_read_name.step ⟨d⟩ ora ⟨pos⟩ = .ok (.brk ⟨pos + 2⟩) := by
      have e2 := slice2 d pos h1
      have : byte d pos = 0 ∧ byte d (pos + 1) = 0 := by simp +zetaDelta [u16le] at h0; omega
      simp [sz_read_name.step, szReadBytes, readBytes, szLift, h1, ← sliceN_model, e2, this, @eq_comm (List Nat) [0, 0]]
    exact ⟨_, run_brk hs, rfl, rfl, rfl⟩
  | case2 pos h1 c h0 e he ih =>
    have hs : sz_read_name.step ⟨d⟩ ora ⟨pos⟩ = .ok (.next ⟨pos + 2⟩) := by
      have e2 := slice2 d pos h1
      have : ¬ (byte d pos = 0 ∧ byte d (pos + 1) = 0) := by simp +zetaDelta [u16le] at h0; omega
      simp [sz_read_name.step, szReadBytes, readBytes, szLift, h1, ← sliceN_model, e2, this, @eq_comm (List Nat) [0, 0]]
    rw [he] at ih
    exact run_next_error hs ih
  | case3 pos h1 c h0 nm p s he ih =>
    have hs : sz_read_name.step ⟨d⟩ ora ⟨pos⟩ = .ok (.next ⟨pos + 2⟩) := by
      have e2 := slice2 d pos h1
      have : ¬ (byte d pos = 0 ∧ byte d (pos + 1) = 0) := by simp +zetaDelta [u16le] at h0; omega
      simp [sz_read_name.step, szReadBytes, readBytes, szLift, h1, ← sliceN_model, e2, this, @eq_comm (List Nat) [0, 0]]
    rw [he] at ih
    obtain ⟨o, r1, r2, r3, r4⟩ := ih
    exact ⟨_, run_next_ok hs r1, by simp [Outcome.bump, r2], by simp [Outcome.bump, r3], by simp [Outcome.bump, r4]⟩
  | case4 pos h1 =>
    exact run_error (by simp [sz_read_name.step, szReadBytes, readBytes, szLift, h1, szExc])

def sz_skip_props_m (env : sz_skip_props.Env) (s : sz_skip_props.State) : Nat := env.stream.length + 1 - s.pos
def sz_read_name_m (env : sz_read_name.Env) (s : sz_read_name.State) : Nat := env.stream.length - s.pos

/-- VARIANT (archive-property skipper): `len + 1 − pos` decreases — every iteration consumes at least the property id
    and the size number -/
theorem sz_skip_props_variant (env : sz_skip_props.Env) (ora) (s s' : sz_skip_props.State)
    (h : sz_skip_props.stepO env ora s = .ok (some s')) : sz_skip_props_m env s' < sz_skip_props_m env s :=
  sz_skip_props_next env ora s s' (map_toOption_some h)
/-- VARIANT (one UTF-16 name): `len − pos` decreases by 2 -/
theorem sz_read_name_variant (env : sz_read_name.Env) (ora) (s s' : sz_read_name.State)
    (h : sz_read_name.stepO env ora s = .ok (some s')) : sz_read_name_m env s' < sz_read_name_m env s :=
  sz_read_name_next env ora s s' (map_toOption_some h)

/-- AGREEMENT with `skipArchiveProps`: position after the END byte and iteration count, or the SAME error class
    (`Bad7zFile` / `OverflowError`) -/
theorem sz_skip_props_agree (d : List Nat) (ora) (pid pos : Nat) :
    match skipArchiveProps d pos with
      | .ok (q, n) => ∃ o, run (sz_skip_props.step (sz_skip_props.init pid d pos).1 ora) (sz_skip_props_m (sz_skip_props.init pid d pos).1)
            (sz_skip_props_next _ ora) (sz_skip_props.init pid d pos).2 = .ok o ∧ o.result = none ∧ o.final.pos = q ∧ o.steps = n
      | .error e => run (sz_skip_props.step (sz_skip_props.init pid d pos).1 ora) (sz_skip_props_m (sz_skip_props.init pid d pos).1)
            (sz_skip_props_next _ ora) (sz_skip_props.init pid d pos).2 = .error (szExc e) :=
  sz_skip_props_agree_from d ora _ _ pos pid
/-- AGREEMENT with `readName`: position after the terminator and iteration count, or `Bad7zFile` -/
theorem sz_read_name_agree (d : List Nat) (ora) (pos : Nat) :
    match readName d pos with
      | .ok (nm, q, n) => ∃ o, run (sz_read_name.step (sz_read_name.init d pos).1 ora) (sz_read_name_m (sz_read_name.init d pos).1)
            (sz_read_name_next _ ora) (sz_read_name.init d pos).2 = .ok o ∧ o.result = none ∧ o.final.pos = q ∧ o.steps = n
      | .error e => run (sz_read_name.step (sz_read_name.init d pos).1 ora) (sz_read_name_m (sz_read_name.init d pos).1)
            (sz_read_name_next _ ora) (sz_read_name.init d pos).2 = .error (szExc e) :=
  sz_read_name_agree_from d ora _ _ pos

/-! ## what is NOT tied by translation -/

/-- loops of the inventory (`S2T.Gen.Loops.whileLoops`) whose bodies stay hand-modelled (tied by the correspondence of
    `harness/builders/c12_loopcheck.py` and the inventory theorem only), with the construct that stopped the translator -/
def not_translated : List (String × String) := [
  ("doc_extractor._extract_png_images_from_bytes: outer `while True`",
   "its body contains the chunk-walk `while` (translated on its own: `png_chunks`): a `while` nested in a translated body is unsupported — the outer step would need the inner loop's `run` as a parameter with its variant proof"),
  ("rtf_extractor._remove_ignorable_groups: outer `while i < n`", "contains the group-skipping `while` (translated on its own: `rtf_skip_group`): nested `while`"),
  ("rtf_extractor._strip_rtf_full_with_pages: main `while i < n`", "contains three inner `while`s (each translated on its own), a regex match object whose `len(m.group(0))` moves `i`, and the nested function `flush_page`"),
  ("omml_to_latex.process_element: `while pending_sqrt_close and …`", "`converted.partition(pending_sqrt_close.pop())`: `list.pop()` used as a value inside an opaque call (only the statement / assignment forms are translated); `converted` is re-bound by every iteration"),
  ("pdf_extractor._patched_build_char_map: `while _CHAR_MAP_PATCH_ORIGINALS`", "the list is module state, not a local of the function (modelled with the rest of the patch section in C15)"),
  ("pdf_extractor._TableExtractor._normalize_values", "a `for … else` with `break` over `range(len(merged) - 1)` that rebuilds `merged` by slicing and concatenation inside the loop body; `re.fullmatch` results decide the branch"),
  ("pdf_extractor._TableExtractor._extract_word_date_header", "the test reads `len(self.lines)` — an attribute of `self` the loop analysis does not track (methods are translated only on their locals)"),
  ("pdf_extractor._TableExtractor._extract", "assumed loop of the inventory (125-line body of regex classifiers)"),
  ("sevenzip.SevenZipReader._parse_files_info: outer `while True`", "its body contains the name-reading `while` (translated on its own: `sz_read_name`) — nested `while` — and calls `self._read_boolean_vector`, `self._stream.tell()` / `.seek()`, which are not among the mapped readers"),
  ("sevenzip `_read_uint8`, `_read_uint32`, `_read_number`, `_read_bytes`, `_read_boolean_vector` (the readers themselves)", "not translated: `_read_number` and `_read_boolean_vector` are `for` loops over a `BytesIO`, hand-modelled (`S2T.Loops.readNumber`, `boolVectorBytes`) and used as primitives by the two translated 7z loops"),
  ("client.SharePointRestClient._get_folders_from_url / _list_items_paginated", "termination is the environment's business (`@odata.nextLink`)")
]

/-! ### a limit of the oracle abstraction

Oracle bits stand for conditions on values the translation does not look into.  A change INSIDE such a condition
    (`text[j] == \"-\"` → `text[j] == \"+\"`, `record.offset >= container_stack[-1][1]` → `…[-1][0]`) does not change the
    translated step: it is left to the correspondence.  The theorems say what holds WHATEVER those conditions answer
    (variant) and what the loop computes when they answer as the model's predicates do (agreement). -/

end S2T.C12.LoopsSrc
