import S2T.Model.Images
/-!
# C14 (part 4) — the unit view and the document view show the same images (and tables)

`iterate_units()` of the page / slide / sheet result types copies the per-page / slide / sheet lists;
`iterate_images()` / `iterate_tables()` concatenate the same lists.  For all stored contents.
-/
namespace S2T.C14.Views
open S2T.Images

/-- **C14_views** (PdfContent, PptxContent, OdpContent): the images of the units, concatenated in unit order,
    are exactly `iterate_images()` -/
theorem C14_views_images {I T} (stores : List (UnitStore I T)) :
    (unitsView stores).flatMap (·.1) = imagesView stores := by
  simp [unitsView, imagesView, List.flatMap_map]

/-- … and the tables of the units are exactly `iterate_tables()` -/
theorem C14_views_tables {I T} (stores : List (UnitStore I T)) :
    (unitsView stores).flatMap (·.2) = tablesView stores := by
  simp [unitsView, tablesView, List.flatMap_map]

/-- every image reachable from a unit is reachable from the document (inclusion, with its position) -/
theorem C14_views_inclusion {I T} (stores : List (UnitStore I T)) (u : List I × List T) (hu : u ∈ unitsView stores) :
    (∀ i ∈ u.1, i ∈ imagesView stores) ∧ (∀ t ∈ u.2, t ∈ tablesView stores) := by
  simp only [unitsView, List.mem_map] at hu
  obtain ⟨s, hs, rfl⟩ := hu
  constructor
  · intro i hi; simp only [imagesView, List.mem_flatMap]; exact ⟨s, hs, hi⟩
  · intro t ht; simp only [tablesView, List.mem_flatMap]; exact ⟨s, hs, ht⟩

/-- XlsxContent, OdsContent: same for the images … -/
theorem C14_views_sheet_images {I} (sheets : List (SheetStore I)) :
    (sheetUnitsView sheets).flatMap (·.1) = sheetImagesView sheets := by
  simp [sheetUnitsView, sheetImagesView, List.flatMap_map]

/-- … while for the tables the unit view shows the sheets that have rows and `iterate_tables()` shows every sheet:
    the unit view is the document view without the empty tables (so: included, and equal when no sheet is empty) -/
theorem C14_views_sheet_tables {I} (sheets : List (SheetStore I)) :
    (sheetUnitsView sheets).flatMap (·.2) = (sheetTablesView sheets).filter (· ≠ 0) := by
  induction sheets with
  | nil => rfl
  | cons s r ih =>
    simp only [sheetUnitsView, sheetTablesView, List.map_cons, List.flatMap_cons, List.filter_cons] at ih ⊢
    by_cases h : s.rows = 0 <;> simp [h, ih]

theorem C14_views_sheet_tables_nonempty {I} (sheets : List (SheetStore I)) (h : ∀ s ∈ sheets, s.rows ≠ 0) :
    (sheetUnitsView sheets).flatMap (·.2) = sheetTablesView sheets := by
  rw [C14_views_sheet_tables, List.filter_eq_self]
  intro x hx
  simp only [sheetTablesView, List.mem_map] at hx
  obtain ⟨s, hs, rfl⟩ := hx
  simpa using h s hs

example : ∀ s ∈ [SheetStore.mk [1, 2] 3, SheetStore.mk ([] : List Nat) 1], s.rows ≠ 0 := by decide

/-- the difference, on the model: a sheet without rows is a table of the document but of no unit -/
theorem views_empty_sheet_counterexample :
    (sheetUnitsView [SheetStore.mk ([] : List Nat) 0]).flatMap (·.2) = [] ∧ sheetTablesView [SheetStore.mk ([] : List Nat) 0] = [0] := by
  decide

end S2T.C14.Views
