import S2T.Model.InputStream
import S2T.Gen.Effects
/-!
# C06 (input buffer) — read-only is a property of modelled `BytesIO` operations

`S2T.C06.input_methods_readonly` compares the inventoried method names with a list; here the names are
mapped to operations of a `BytesIO` model that also has the mutators, the read-only ones are proved
to keep the content for every call sequence, the mutators are proved able to change it (so none of them
could be moved to the read-only side), and the inventory — which follows the caller's stream through
aliases, `self.<attr>` and package callees — is decided to contain modelled read-only methods only.
-/
namespace S2T.C06Input
open S2T.Observe S2T.InputStream S2T.Gen.Effects

theorem readOnly_step_content (s : Stream) (op : InOp) (h : readOnly op = true) : (inStep s op).content = s.content := by
  cases op <;> simp_all [readOnly, inStep]

/-- **C06 (input untouched)**: any sequence of the read-only operations, at any positions, leaves the
    caller's buffer content as it was -/
theorem readOnly_run_content (s : Stream) (ops : List InOp) (h : ops.all readOnly = true) :
    (inRun s ops).content = s.content := by
  induction ops generalizing s with
  | nil => rfl
  | cons op ops ih =>
    simp only [List.all_cons, Bool.and_eq_true] at h
    simp only [inRun]
    rw [ih _ h.2, readOnly_step_content s op h.1]

/-- the classification is tight: every operation not classified read-only changes some buffer -/
theorem mutators_change_content :
    (∃ s b, (inStep s (.write b)).content ≠ s.content) ∧
    (∃ s n, (inStep s (.truncate n)).content ≠ s.content) ∧
    (∃ s b, (inStep s (.writelines b)).content ≠ s.content) :=
  ⟨⟨⟨[1, 2, 3], 0⟩, [9], by decide⟩, ⟨⟨[1, 2, 3], 1⟩, none, by decide⟩, ⟨⟨[1, 2, 3], 5⟩, [9], by decide⟩⟩

/-- the shape of "drop what precedes the header": seek(k); rest = read(); seek(0); write(rest); truncate()
    shortens the caller's buffer whenever k > 0 and the buffer is longer than k -/
theorem drop_prefix_in_place_changes (content : List Nat) (k : Nat) (hk : 0 < k) (hl : k < content.length) :
    (inRun ⟨content, 0⟩ [.seek k, .readAll, .seek 0, .write (content.drop k), .truncate none]).content ≠ content := by
  intro h
  have hlen := congrArg List.length h
  have hd : content.drop k ≠ [] := by
    intro hd; have := congrArg List.length hd; simp at this; omega
  simp [inRun, inStep, writeAt, hd] at hlen
  omega

/-- **C06 (input methods), decided on the current source**: every method called on the caller's stream —
    under whatever name it is held — is a modelled read-only operation -/
theorem input_methods_modelled_readonly :
    inputMethods.all (fun m => methodReadOnly m == some true) = true := by decide

/-! ## Non-vacuity -/
example : (inRun ⟨[1, 2, 3, 4], 0⟩ [.read 2, .seek 9, .readAll, .getvalue, .readline]).content = [1, 2, 3, 4] := by decide
example : (inRun ⟨[7, 7, 37, 80, 68, 70], 0⟩ [.seek 2, .readAll, .seek 0, .write [37, 80, 68, 70], .truncate none]).content = [37, 80, 68, 70] := by decide
example : (inStep ⟨[1, 2], 4⟩ (.write [9])).content = [1, 2, 0, 0, 9] := by decide
example : inputMethods.length ≥ 3 := by decide

end S2T.C06Input
