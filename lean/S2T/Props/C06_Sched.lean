import S2T.Spec.C06Sched
import S2T.Gen.Sched
/-!
# C06 (schedule, interpreter-wide settings) — two inputs that are neither bytes nor path nor a cell of the package

(1) The thread SCHEDULE.  A container extractor that hands its members to a worker pool stays a function of the bytes as
long as it collects the results in submission order (`submission_order_schedule_free`); collecting them in COMPLETION
order makes the schedule an input on every archive with two members whose results do not commute
(`completion_order_schedule_dependent`).  The current source is decided to contain no thread / process / event-loop use
except the reviewed ones (`concurrency_uses_reviewed`: two locks).
(2) INTERPRETER-WIDE settings (recursion limit, locale, decimal context, …) changed for the duration of a walk.  If the old
value is put back on the error path too (`finally`), every history of extractions — failed ones included — leaves the
setting as it was (`finally_history_free`), so a later outcome that depends on it is the fresh-process outcome
(`finally_probe_history_free`); if it is put back only on the normal path (a generator context manager with a bare
`yield`), ONE failed extraction leaves the raised value behind (`bare_yield_leaks`) and every document whose need lies
between the old and the raised value yields something else afterwards (`leak_history_dependent`).  The current source
is decided to contain no write of such a setting that is not restored in a `finally`, and no generator context manager
with exit code behind an unprotected `yield` (`interp_writes_restored`, `no_bare_yield_managers`).
-/
namespace S2T.C06Sched
open S2T.Spec.C06Sched S2T.Gen.Sched

/-! ## (1) schedule -/

/-- results of a pool run collected in SUBMISSION order: `ms` = members in archive order, `done` = the order in which the
    scheduler completed them (any permutation of `ms`) -/
def collectSubmitted {α β} (f : α → List β) (ms _done : List α) : List β := ms.flatMap f

/-- results handed out as the members complete (`as_completed`, `imap_unordered`, done-callbacks) -/
def collectCompleted {α β} (f : α → List β) (_ms done : List α) : List β := done.flatMap f

/-- **C06 (schedule)**: collecting in submission order, every schedule gives the sequential result -/
theorem submission_order_schedule_free {α β} (f : α → List β) (ms d₁ d₂ : List α) :
    collectSubmitted f ms d₁ = collectSubmitted f ms d₂ ∧ collectSubmitted f ms d₁ = ms.flatMap f := ⟨rfl, rfl⟩

/-- collecting in completion order: on EVERY archive that starts with two members whose results do not commute there are two
    schedules (both permutations of the members) with different result sequences -/
theorem completion_order_schedule_dependent {α β} (f : α → List β) (a b : α) (rest : List α)
    (h : f a ++ f b ≠ f b ++ f a) :
    ∃ d₁ d₂ : List α, d₁.Perm (a :: b :: rest) ∧ d₂.Perm (a :: b :: rest) ∧
      collectCompleted f (a :: b :: rest) d₁ ≠ collectCompleted f (a :: b :: rest) d₂ := by
  refine ⟨a :: b :: rest, b :: a :: rest, List.Perm.refl _, List.Perm.swap a b rest, ?_⟩
  intro he
  simp only [collectCompleted, List.flatMap_cons, ← List.append_assoc] at he
  exact h (List.append_cancel_right he)

/-- … in particular whenever every member yields exactly one result and two members yield different ones -/
theorem completion_order_singletons {α β} (g : α → β) (a b : α) (rest : List α) (h : g a ≠ g b) :
    ∃ d₁ d₂ : List α, d₁.Perm (a :: b :: rest) ∧ d₂.Perm (a :: b :: rest) ∧
      collectCompleted (fun m => [g m]) (a :: b :: rest) d₁ ≠ collectCompleted (fun m => [g m]) (a :: b :: rest) d₂ := by
  apply completion_order_schedule_dependent
  intro he
  simp at he
  exact h he.1

/-- the thread / process / event-loop uses of the current source are the reviewed ones (locks only: no pool, no collector) -/
theorem concurrency_uses_reviewed :
    concurrencyUses.all (fun u => reviewedConcurrency.any (fun x => x.1 == u)) = true := by decide

/-! ## (2) interpreter-wide settings changed for the duration of a walk -/

/-- one extraction whose walk `body` runs under the setting raised to at least `raised`; afterwards the old value `s` is put
    back — on the error path only if `restoreOnError` (try/finally).  Result: (outcome, setting left behind) -/
def scopedRun {ε β} (restoreOnError : Bool) (raised : Nat) (body : Nat → Except ε β) (s : Nat) : Except ε β × Nat :=
  match body (max s raised) with
  | .ok v => (.ok v, s)
  | .error e => (.error e, if restoreOnError then s else max s raised)

/-- the setting after a whole history of extractions -/
def runAll {ε β} (r : Bool) (raised : Nat) : List (Nat → Except ε β) → Nat → Nat
  | [], s => s
  | b :: bs, s => runAll r raised bs (scopedRun r raised b s).2

/-- outcome of a document whose walk needs `depth` frames: it extracts iff the limit allows it -/
def probe (depth : Nat) (limit : Nat) : Bool := decide (depth < limit)

theorem finally_frame {ε β} (raised : Nat) (body : Nat → Except ε β) (s : Nat) : (scopedRun true raised body s).2 = s := by
  unfold scopedRun; split <;> rfl

/-- **C06 (history, settings)**: with `finally`, every history — failed extractions included — leaves the setting as it was -/
theorem finally_history_free {ε β} (raised : Nat) (bodies : List (Nat → Except ε β)) (s : Nat) :
    runAll true raised bodies s = s := by
  induction bodies generalizing s with
  | nil => rfl
  | cons b bs ih => simp [runAll, finally_frame, ih]

theorem finally_probe_history_free {ε β} (raised depth : Nat) (bodies : List (Nat → Except ε β)) (s : Nat) :
    probe depth (runAll true raised bodies s) = probe depth s := by rw [finally_history_free]

/-- without it: ONE failed extraction leaves the raised value behind -/
theorem bare_yield_leaks {ε β} (raised s : Nat) (e : ε) (body : Nat → Except ε β)
    (hf : body (max s raised) = .error e) (hr : s < raised) : (scopedRun false raised body s).2 = raised := by
  simp [scopedRun, hf]; omega

/-- … whereas successful extractions do not (which is why only a FAILED predecessor shows the leak) -/
theorem bare_yield_ok_frame {ε β} (raised s : Nat) (v : β) (body : Nat → Except ε β)
    (hf : body (max s raised) = .ok v) : (scopedRun (ε := ε) false raised body s).2 = s := by
  simp [scopedRun, hf]

/-- … and every document whose need lies between the old and the raised value then yields something else than in a fresh process -/
theorem leak_history_dependent {ε β} (raised s depth : Nat) (e : ε) (body : Nat → Except ε β)
    (hf : body (max s raised) = .error e) (h₁ : s ≤ depth) (h₂ : depth < raised) :
    probe depth (runAll false raised [body] s) ≠ probe depth s := by
  have hr : s < raised := by omega
  have hl : runAll false raised [body] s = raised := by simp [runAll, bare_yield_leaks raised s e body hf hr]
  rw [hl]
  have a : probe depth raised = true := by simp [probe, h₂]
  have b : probe depth s = false := by simp [probe]; omega
  rw [a, b]; decide

/-- the current source changes no interpreter-wide setting without putting it back in a `finally` … -/
theorem interp_writes_restored : interpWrites.all (fun w => w.2.2.2) = true := by decide

/-- … and has no generator context manager whose exit code is skipped when the managed block raises -/
theorem no_bare_yield_managers : bareYieldManagers = [] := by decide

/-! ## Non-vacuity -/
example : collectCompleted (fun m : Nat => [m]) [1, 2] [2, 1] = [2, 1] ∧ collectSubmitted (fun m : Nat => [m]) [1, 2] [2, 1] = [1, 2] := by decide
example : (scopedRun (β := Unit) false 12000 (fun l => if 13000 < l then .ok () else .error "RecursionError") 1000).2 = 12000 := by decide
example : probe 1500 1000 = false ∧ probe 1500 12000 = true := by decide
example : concurrencyUses.length ≥ 2 := by decide

end S2T.C06Sched
