import S2T.Lemmas.SerialRT
/-!
# C05, objects are rebuilt THROUGH THEIR CONSTRUCTOR: construction normalisers must be projections

`from_json` calls `cls(**fields)`: whatever `__post_init__` (or any other construction hook) does to a field is done a
second time to a value it has already been done to.  For a normaliser `f` of a string field the rebuilt object equals
the original for every input iff `f` is idempotent (`C05_ctor_roundtrip_iff_idempotent`).  The only normaliser of the
current source is `str.strip` (`gen_notes_empty` in `Props/C05.lean` re-decides that on every run); it is idempotent for
ALL strings (`C05_strip_idempotent`), hence what the model's constructor returns satisfies the `__post_init__` clause of
`WellTyped` (`C05_constructed_stable`) and constructing again changes nothing (`C05_postInit_idempotent`).
Counterexamples: RFC 5322 unfolding (`re.sub(r"\r?\n(?=[ \t])", "", s)`), `replace("  ", " ")`, `removeprefix` are not
idempotent, so a constructor that applies one of them breaks the round trip on the exhibited inputs.
The harness builds such inputs from the constants / regular expressions of the construction hooks of the CURRENT source
(`normaliser_probes` in harness/props/c05.py) and judges them on the real code on every run.
-/
namespace S2T.C05.Ctor
open S2T.Serial

/-- rebuilding through a constructor that normalises a field with `f` returns the stored value for every input
exactly when `f` is idempotent -/
theorem C05_ctor_roundtrip_iff_idempotent {α : Type} (f : α → α) :
    (∀ s, f (f s) = f s) ↔ (∀ stored, (∃ s, stored = f s) → f stored = stored) := by
  constructor
  · intro h stored ⟨s, hs⟩; rw [hs]; exact h s
  · intro h s; exact h (f s) ⟨s, rfl⟩

theorem dropWhile_head (p : Char → Bool) (l : Str) (c : Char) (h : (l.dropWhile p).head? = some c) : p c = false := by
  induction l with
  | nil => simp at h
  | cons a l ih =>
    by_cases ha : p a = true
    · simp [List.dropWhile, ha] at h; exact ih h
    · simp [List.dropWhile, ha] at h; subst h; simpa using ha

theorem dropWhile_fix (p : Char → Bool) (l : Str) (h : ∀ c, l.head? = some c → p c = false) : l.dropWhile p = l := by
  cases l with
  | nil => rfl
  | cons a l => have := h a rfl; simp [List.dropWhile, this]

theorem lstrip_lstrip (s : Str) : lstrip (lstrip s) = lstrip s :=
  dropWhile_fix _ _ (fun c h => dropWhile_head _ s c h)

/-- `str.strip` is idempotent, for every string -/
theorem C05_strip_idempotent (s : Str) : strip (strip s) = strip s := by
  unfold strip
  generalize ha : lstrip s = a
  have hhead : ∀ c, a.head? = some c → isSpace c = false := by
    intro c h; rw [← ha] at h; exact dropWhile_head _ s c h
  generalize hr : lstrip a.reverse = r
  have hsplit : a.reverse = a.reverse.takeWhile isSpace ++ r := by
    rw [← hr]; exact (List.takeWhile_append_dropWhile (p := isSpace) (l := a.reverse)).symm
  have ha2 : a = r.reverse ++ (a.reverse.takeWhile isSpace).reverse := by
    have := congrArg List.reverse hsplit
    simpa using this
  have h1 : lstrip r.reverse = r.reverse := by
    apply dropWhile_fix
    intro c hc
    apply hhead
    rw [ha2]
    cases hrr : r.reverse with
    | nil => rw [hrr] at hc; simp at hc
    | cons x xs => rw [hrr] at hc; simpa using hc
  rw [h1, List.reverse_reverse]
  have : lstrip r = r := by rw [← hr]; exact lstrip_lstrip _
  rw [this]

theorem stripBytes_idempotent_aux (p : Nat → Bool) (l : List Nat) :
    (((((l.dropWhile p).reverse).dropWhile p).reverse.dropWhile p).reverse.dropWhile p).reverse
      = (((l.dropWhile p).reverse).dropWhile p).reverse := by
  have dh : ∀ (l : List Nat) (c : Nat), (l.dropWhile p).head? = some c → p c = false := by
    intro l c h
    induction l with
    | nil => simp at h
    | cons a l ih =>
      by_cases ha : p a = true
      · simp [List.dropWhile, ha] at h; exact ih h
      · simp [List.dropWhile, ha] at h; subst h; simpa using ha
  have df : ∀ (l : List Nat), (∀ c, l.head? = some c → p c = false) → l.dropWhile p = l := by
    intro l h
    cases l with
    | nil => rfl
    | cons a l => have := h a rfl; simp [List.dropWhile, this]
  generalize ha : l.dropWhile p = a
  have hhead : ∀ c, a.head? = some c → p c = false := by
    intro c h; rw [← ha] at h; exact dh l c h
  generalize hr : a.reverse.dropWhile p = r
  have hsplit : a.reverse = a.reverse.takeWhile p ++ r := by
    rw [← hr]; exact (List.takeWhile_append_dropWhile (p := p) (l := a.reverse)).symm
  have ha2 : a = r.reverse ++ (a.reverse.takeWhile p).reverse := by
    have := congrArg List.reverse hsplit
    simpa using this
  have h1 : r.reverse.dropWhile p = r.reverse := by
    apply df
    intro c hc
    apply hhead
    rw [ha2]
    cases hrr : r.reverse with
    | nil => rw [hrr] at hc; simp at hc
    | cons x xs => rw [hrr] at hc; simpa using hc
  rw [h1, List.reverse_reverse]
  have : r.dropWhile p = r := by rw [← hr]; exact df _ (fun c h => dh _ c h)
  rw [this]

/-- `bytes.strip` likewise -/
theorem C05_stripBytes_idempotent (b : List Nat) : stripBytes (stripBytes b) = stripBytes b := by
  unfold stripBytes; exact stripBytes_idempotent_aux _ b

/-- what the model's constructor (`__post_init__`) returns satisfies the `__post_init__` clause of `WellTyped`
(strip fields holding a `str`, as their hints say) -/
theorem C05_constructed_stable (st : List Str) (fs fs' : List (Str × PyVal)) (h : postInit st fs = .ok fs')
    (hstr : ∀ e ∈ fs, st.contains e.1 = true → ∃ s, e.2 = .str s) :
    ∀ e ∈ fs', stripStable st e.1 e.2 = true := by
  induction fs generalizing fs' with
  | nil => simp [postInit] at h; subst h; simp
  | cons e fs ih =>
    obtain ⟨n, v⟩ := e
    have ih' := fun r' hr' => ih r' hr' (fun e he => hstr e (List.mem_cons_of_mem _ he))
    by_cases hc : st.contains n = true
    · obtain ⟨s, hs⟩ := hstr (n, v) (by simp) hc
      simp only at hs
      subst hs
      simp only [postInit, hc, if_true] at h
      cases hr : postInit st fs with
      | error e => rw [hr] at h; simp at h
      | ok r' =>
        rw [hr] at h
        simp only [Except.ok.injEq] at h
        subst h
        intro e he
        rcases List.mem_cons.mp he with he | he
        · subst he
          simp only [stripStable, hc, if_true, C05_strip_idempotent, beq_self_eq_true]
        · exact ih' r' hr e he
    · simp only [postInit, hc] at h
      cases hr : postInit st fs with
      | error e => rw [hr] at h; simp at h
      | ok r' =>
        rw [hr] at h
        simp at h
        subst h
        intro e he
        rcases List.mem_cons.mp he with he | he
        · subst he
          have hb : st.contains n = false := by simpa using hc
          simp only [stripStable, hb]
          rfl
        · exact ih' r' hr e he

/-- constructing again from the fields of a constructed object changes nothing -/
theorem C05_postInit_idempotent (st : List Str) (fs fs' : List (Str × PyVal)) (h : postInit st fs = .ok fs')
    (hstr : ∀ e ∈ fs, st.contains e.1 = true → ∃ s, e.2 = .str s) :
    postInit st fs' = .ok fs' :=
  postInit_stable st fs' (C05_constructed_stable st fs fs' h hstr)

/-! ## counterexamples: normalisers that remove ONE level -/

/-- `re.sub(r"\r?\n(?=[ \t])", "", s)`: remove a line break that is followed by a blank or a tab -/
def unfold : Str → Str
  | [] => []
  | '\r' :: '\n' :: c :: r => if c = ' ' ∨ c = '\t' then unfold (c :: r) else '\r' :: unfold ('\n' :: c :: r)
  | '\n' :: c :: r => if c = ' ' ∨ c = '\t' then unfold (c :: r) else '\n' :: unfold (c :: r)
  | c :: r => c :: unfold r

/-- unfolding is not idempotent: a constructor that unfolds its subject rebuilds `"a\n\n b"` differently -/
theorem C05_cex_ctor_unfold_not_idempotent :
    unfold (unfold "a\n\n b".toList) ≠ unfold "a\n\n b".toList ∧ strip (unfold (strip (unfold "a\n\n b".toList))) ≠ strip (unfold "a\n\n b".toList) := by
  decide

/-- `s.replace("  ", " ")` (left to right, non-overlapping) -/
def squeeze2 : Str → Str
  | ' ' :: ' ' :: r => ' ' :: squeeze2 r
  | c :: r => c :: squeeze2 r
  | [] => []

theorem C05_cex_ctor_replace_not_idempotent : squeeze2 (squeeze2 "a    b".toList) ≠ squeeze2 "a    b".toList := by decide

end S2T.C05.Ctor
