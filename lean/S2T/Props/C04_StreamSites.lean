import S2T.Model.IfaceStreams
import S2T.Gen.Iface
/-!
# C04 (stream identity, tie to the source)

`S2T.C04.Streams` proves: images whose stored stream objects are pairwise distinct can be collected first and read
afterwards, in any order — every stream is found at position 0 and delivers `size_bytes` bytes; and what a
constructor loop builds from FRESH sources has pairwise distinct objects.  Here the current source is shown to be of
that shape: every constructor call site of an image class stores a stream object created at the site itself
(`io.BytesIO(v)` written in the argument — a new object per image built), immutable bytes, or nothing; and
`get_bytes()` of every class either wraps the bytes in a new stream or rewinds and returns the stored one.
-/
namespace S2T.C04.StreamSites
open S2T.Iface

/-- no constructor site stores an object that may also be stored in another image (a name, an attribute, a cache
entry, a call result) -/
theorem stream_sites_own_object :
    ∀ s ∈ S2T.Gen.Iface.streamSites, (match s.origin with | .other _ => false | _ => true) = true := by decide

/-- a class that stores a stream gets it from `io.BytesIO(..)` at the site or not at all; a class that stores bytes
stores bytes -/
theorem stream_sites_match_class :
    ∀ s ∈ S2T.Gen.Iface.streamSites, ∀ ic ∈ S2T.Gen.Iface.imageClasses, ic.name = s.cls →
      (match ic.payloadKind, s.origin with
        | .stream, .freshObject | .stream, .noPayload | .bytes, .immutable | .bytes, .noPayload => true
        | _, _ => false) = true := by decide +kernel

/-- the inventory covers every image class that has a constructor site at all, and is not empty -/
theorem stream_sites_nonempty :
    (S2T.Gen.Iface.streamSites.any fun s => s.origin == StreamOrigin.freshObject) = true ∧
    (S2T.Gen.Iface.streamSites.any fun s => s.origin == StreamOrigin.immutable) = true := by decide

/-- `get_bytes()` of a class storing bytes wraps them in a new stream on every call; of a class storing a stream it
rewinds the stored object and returns it (so: no stream remembered anywhere else, e.g. in a table keyed by content) -/
theorem get_bytes_forms_ok :
    ∀ e ∈ S2T.Gen.Iface.getBytesForms,
      (match e.2.1, e.2.2 with
        | .bytes, .wrapBytes | .stream, .rewindStored => true
        | _, _ => false) = true := by decide

/-- … for every image class of the inventory -/
theorem get_bytes_forms_complete :
    S2T.Gen.Iface.getBytesForms.map (·.1) = S2T.Gen.Iface.imageClasses.map (·.name) := by decide

end S2T.C04.StreamSites
