import S2T.Lemmas.Py
import S2T.Props.C07
import S2T.Gen.Archive
import S2T.Gen.PySevenZip
import S2T.Gen.PyArchive
/-!
# C09 (source tie) — the translated `_safe_join` / `_should_skip_file` ARE the hand model

`S2T.Gen.PySevenZip` / `S2T.Gen.PyArchive` are regenerated from the current text of `sevenzip.py` /
`archive_extractor.py` on every run (`tools/gen/pyfun.py`).  For every base directory, member name,
current directory, `str.lower` and MIME database (fields of `Env`):
* the translated `_safe_join` equals `S2T.Archive.safeJoin`, including WHICH `raise Bad7zFile` fires
  (the first one — a drive letter — never does: `posixpath.splitdrive`);
* the translated `_should_skip_file` (through `_is_supported_file_cached`, `_get_file_extractor_cached`,
  `_get_router_functions` and the translated router functions of `S2T.Gen.PyRouter`) never raises and
  equals `S2T.Archive.shouldSkip` at the generated tables.  That `get_extractor` cannot raise after
  `is_supported_file` said yes is C07's equivalence theorem.
-/
set_option linter.unusedSimpArgs false
namespace S2T.C09.Src
open S2T.Py S2T.Archive S2T.Gen.PySevenZip S2T.Gen.PyArchive

theorem gen_py_notes_empty : S2T.Gen.PySevenZip.notes = [] ∧ S2T.Gen.PyArchive.notes = [] := by decide

theorem gen_py_translated : S2T.Gen.PySevenZip.translated = ["_safe_join"] ∧
    S2T.Gen.PyArchive.translated = ["_get_router_functions", "_is_supported_file_cached",
      "_get_file_extractor_cached", "_should_skip_file"] := by decide

/-! ## `_safe_join` -/

/-- ordinal of the `raise Bad7zFile` statement in `_safe_join` for the two errors `safeJoin` has -/
def siteOf : Archive.Err → Nat
  | .absolutePath => 1
  | .unsafePath => 2
  | _ => 0
def excOf (e : Archive.Err) : Exc := exc_Bad7zFile "_safe_join" (siteOf e)

/-- **`_safe_join` is `safeJoin`**: same joined path, or the same `raise` statement
    (`raise` 0, the drive-letter clause, never fires: `posixpath.splitdrive`) -/
theorem safe_join_eq (env : Py.Env) (base rel : Py.Str) :
    _safe_join env base rel = (safeJoin env.cwd base rel).mapError excOf := by
  rcases rel with _ | ⟨c, r⟩
  · unfold _safe_join safeJoin
    simp +instances [Except.mapError]
  · generalize hA : Archive.abspath env.cwd base = A
    generalize hB : Archive.abspath env.cwd (Archive.join A (c :: r)) = B
    unfold _safe_join safeJoin
    simp +instances only [splitdrive, isabs, isAbs, startswithAny, startswith, Py.abspath, Py.join, sep, hA, hB]
    by_cases h1 : c = '/' <;> by_cases h2 : c = '\\' <;> by_cases h3 : B = A <;>
    by_cases h4 : List.isPrefixOf (A ++ ['/']) B = true <;>
    simp_all [Except.mapError, excOf, siteOf, List.isPrefixOf, @eq_comm _ '/' c, @eq_comm _ '\\' c, @eq_comm _ A B]

/-- the model's `safeJoin` has no other error -/
theorem safeJoin_errors (cwd base rel : Py.Str) (e : Archive.Err) (h : safeJoin cwd base rel = .error e) :
    e = .absolutePath ∨ e = .unsafePath := by
  unfold safeJoin at h
  simp only [] at h
  repeat' split at h
  all_goals (try cases h)
  all_goals (try simp)

/-! ## `_should_skip_file` -/

theorem is_supported_file_cached_eq (env : Py.Env) (f : Py.Str) :
    _is_supported_file_cached env f = S2T.Gen.PyRouter.is_supported_file env f := by
  rfl

theorem get_file_extractor_cached_eq (env : Py.Env) (f : Py.Str) :
    _get_file_extractor_cached env f = S2T.Gen.PyRouter.get_extractor env f := by
  rfl

theorem head_dot (b : Py.Str) : List.isPrefixOf ['.'] b = (b.head? == some '.') := by
  rcases b with _ | ⟨c, r⟩
  · rfl
  · simp [List.isPrefixOf, BEq.comm (a := '.')]
/-- the model's environment built from the translated functions' environment -/
def envOf (env : Py.Env) (nres : Py.Str → List Nat → Nat) (host : Py.Str → Option (Option (List Nat))) : Archive.Env :=
  { lower := env.lower, mime := fun s => (env.guessType s).1, nres := nres, host := host }

/-- the function object `read_archive` of the running module is the model's `archiveExtractor` -/
theorem ref_read_archive_eq : ref_read_archive = archiveExtractor := by decide

/-- `get_extractor` returns exactly what the model's `getExtractor` returns, whenever that succeeds -/
theorem get_extractor_ok (env : Py.Env) (p : Py.Str) (mf : Py.Str × Py.Str)
    (h : S2T.Router.getExtractor S2T.Gen.Router.tables (env.lower p) (env.guessType (env.lower p)).1 = .ok mf) :
    S2T.Gen.PyRouter.get_extractor env p = .ok mf := by
  have := S2T.C07.Src.get_extractor_eq env p
  rw [h] at this
  cases hg : S2T.Gen.PyRouter.get_extractor env p with
  | ok v => rw [hg] at this; simpa [Except.mapError] using this
  | error e => rw [hg] at this; simp [Except.mapError] at this

/-- **`_should_skip_file` is `shouldSkip`** and never raises (all file names, all environments) -/
theorem should_skip_file_eq (env : Py.Env) (nres) (host) (filename bname : Py.Str) :
    _should_skip_file env filename bname
      = pure (shouldSkip S2T.Gen.Router.tables S2T.Gen.Archive.nested (envOf env nres host) filename bname) := by
  have hsup := S2T.C07.Src.is_supported_file_eq env bname
  have e1 : startswith bname ".".toList = (bname.head? == some '.') := head_dot bname
  have e2 : startswith filename "__MACOSX/".toList = macosxPrefix.isPrefixOf filename := rfl
  have e3 : (S2T.Gen.Archive.nested.any fun a => endswith (env.lower bname) a)
      = nestedByExt S2T.Gen.Archive.nested (env.lower bname) := rfl
  rcases hs : S2T.Router.isSupported S2T.Gen.Router.tables (env.lower bname) (env.guessType (env.lower bname)).1
  · -- not supported: skipped before the router is asked for an extractor
    unfold _should_skip_file shouldSkip
    simp only [is_supported_file_cached_eq, get_file_extractor_cached_eq, hsup, envOf, routesToArchive, hidden,
      e1, e2, e3, hs]
    generalize (bname.head? == some '.') = a
    generalize macosxPrefix.isPrefixOf filename = b
    cases a <;> cases b <;> simp
  · obtain ⟨mf, hmf⟩ := (S2T.C07.C07_equiv _ _).mp hs
    have hget := get_extractor_ok env bname mf hmf
    unfold _should_skip_file shouldSkip
    simp only [is_supported_file_cached_eq, get_file_extractor_cached_eq, hsup, envOf, routesToArchive, hidden,
      e1, e2, e3, hs, hget, hmf, ref_read_archive_eq]
    generalize (bname.head? == some '.') = a
    generalize macosxPrefix.isPrefixOf filename = b
    generalize nestedByExt S2T.Gen.Archive.nested (env.lower bname) = n
    by_cases hr : mf = archiveExtractor <;> cases a <;> cases b <;> cases n <;> simp [hr]
end S2T.C09.Src
