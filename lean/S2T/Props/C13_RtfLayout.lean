import S2T.Lemmas.TablesRtfLayout
import S2T.Props.C13_Rtf
/-!
# C13 for RTF — row layouts: what a writer puts behind `\row`

`C13_Rtf` speaks about ONE way of writing a table down (a line end behind every `\row`).  The format allows others:
a control word ends at the next backslash, so compact writers put the next row's `\trowd` directly behind `\row`;
others write a space, CR LF, or wrap every row in a group.  Here every row carries its own separator (`STable`: rows
× what stands behind their `\row`), any text `sepOk` accepts: no backslash (white space, line ends, braces, …), at most
`rawGap` characters, empty or starting with a character that ends a control word.  For every such document the
statements of `C13_Rtf` hold unchanged — in particular the closing `\row` of a row is the first one that ENDS BEHIND
the row's `\trowd`, also when the previous `\row` ends exactly where this `\trowd` starts (`C13_rtf_rows_adjacent`).
-/
namespace S2T.C13.RtfLayout
open S2T.Tables S2T.Tables.Rtf S2T.C13.Rtf
open S2T.HtmlSkip (Str)

/-- a table of the theorems: at least one row, every row at least one cell, plain cells, every separator `sepOk` -/
def stableOk (P : Params) (t : STable) : Bool :=
  !t.isEmpty && t.all (fun r => !r.1.isEmpty && r.1.all plainCell && sepOk P r.2)

def docOkS (P : Params) (lead : List Str) (ts : List (STable × List Str)) : Bool :=
  lead.all plainText && ts.all (fun tp => stableOk P tp.1 && tp.2.all plainText)

theorem stableOk_iff {P : Params} {t : STable} (h : stableOk P t = true) : STableOk P t := by
  simp only [stableOk, Bool.and_eq_true, Bool.not_eq_true', List.all_eq_true] at h
  refine ⟨by intro he; subst he; simp at h, ?_⟩
  intro r hr
  obtain ⟨⟨h1, h2⟩, h3⟩ := h.2 r hr
  exact ⟨⟨by intro he; rw [he] at h1; simp at h1, h2⟩, h3⟩

theorem docOkS_parts {P : Params} {lead : List Str} {ts : List (STable × List Str)} (h : docOkS P lead ts = true) :
    (∀ p ∈ lead, plainText p = true) ∧ ∀ tp ∈ ts, STableOk P tp.1 ∧ ∀ p ∈ tp.2, plainText p = true := by
  simp only [docOkS, Bool.and_eq_true, List.all_eq_true] at h
  exact ⟨h.1, fun tp htp => ⟨stableOk_iff (h.2 tp htp).1, (h.2 tp htp).2⟩⟩

/-- all the gaps in front of the tables of `gtsOfS g ts` make the row-grouping heuristic start a new table -/
def sepFromS (P : Params) : Str → List (STable × List Str) → Bool
  | _, [] => true
  | g, tp :: rest => breaks P g && sepFromS P (lastSep [] tp.1 ++ parasRtf tp.2) rest

/-- the excluding hypothesis of `C13_Rtf`, with the separator of the last row counted into the text between the tables -/
def SeparatedS (P : Params) : List (STable × List Str) → Bool
  | [] => true
  | tp :: rest => sepFromS P (lastSep [] tp.1 ++ parasRtf tp.2) rest

/-- RTF, every document of plain tables whose rows are separated by ANYTHING `sepOk` accepts (nothing, a space, LF,
    CR LF, braces, …; every row its own separator), any text between the tables: `_extract_tables` returns the tables
    in order, every row and every cell in place, a table glued to its predecessor exactly where the text between them
    is no break for the heuristic — and never a row lost, whatever stands between `\row` and the next `\trowd` -/
theorem C13_rtf_layout_behaviour (P : Params) (hP : paramsOk P = true) (lead : List Str) (ts : List (STable × List Str))
    (hd : docOkS P lead ts = true) :
    extractTables P (docRtfS lead ts) = groupTables P [] (gtsOfS (header ++ parasRtf lead) ts) := by
  obtain ⟨hlead, hts⟩ := docOkS_parts hd
  have hg : GapOk P (header ++ parasRtf lead) := ⟨quietGap_first P lead hlead, startsNW_header P _⟩
  obtain ⟨h1, h2, h3⟩ := tblsOf_props P ts _ hg hts
  unfold docRtfS
  rw [text_as_bodyS, extractTables_segTables P hP _ _ h1 h2 h3, tblsOf_gts ts _ (fun tp htp => (hts tp htp).1.1)]

theorem allBreak_gtsOfS (P : Params) : ∀ (ts : List (STable × List Str)) (g : Str),
    (gtsOfS g ts).all (fun gt => breaks P gt.1) = sepFromS P g ts
  | [], _ => rfl
  | tp :: rest, g => by simp [gtsOfS, sepFromS, allBreak_gtsOfS P rest]

theorem gtsOfS_tables : ∀ (ts : List (STable × List Str)) (g : Str), (gtsOfS g ts).map (·.2) = ts.map (fun tp => rowsOfS tp.1)
  | [], _ => rfl
  | tp :: rest, g => by simp [gtsOfS, gtsOfS_tables rest]

theorem rowsOfS_ne {P : Params} {t : STable} (h : STableOk P t) : rowsOfS t ≠ [] := by
  obtain ⟨hne, _⟩ := h
  cases t with
  | nil => exact absurd rfl hne
  | cons r rs => simp [rowsOfS]

theorem gtsOfS_ne {P : Params} (ts : List (STable × List Str)) (g : Str) (h : ∀ tp ∈ ts, STableOk P tp.1) :
    ∀ gt ∈ gtsOfS g ts, gt.2 ≠ [] := by
  intro gt hgt
  have : gt.2 ∈ (gtsOfS g ts).map (·.2) := List.mem_map.mpr ⟨gt, hgt, rfl⟩
  rw [gtsOfS_tables] at this
  obtain ⟨x, hx, he⟩ := List.mem_map.mp this
  rw [← he]; exact rowsOfS_ne (h x hx)

/-- RTF, PARTIAL (the open finding `rtf.adjacent-tables-merged` excluded by `SeparatedS`): every table comes back, in
    source order, none lost, merged or invented, r × c with every cell in place — for every row layout -/
theorem C13_rtf_layout_partial (P : Params) (hP : paramsOk P = true) (lead : List Str) (ts : List (STable × List Str))
    (hne : ts ≠ []) (hd : docOkS P lead ts = true) (hs : SeparatedS P ts = true) :
    extractTables P (docRtfS lead ts) = ts.map (fun tp => tableSpec (rowsOfS tp.1)) := by
  rw [C13_rtf_layout_behaviour P hP lead ts hd]
  obtain ⟨_, hts⟩ := docOkS_parts hd
  cases ts with
  | nil => exact absurd rfl hne
  | cons tp rest =>
    have hrest : ∀ x ∈ rest, STableOk P x.1 := fun x hx => (hts x (List.mem_cons_of_mem _ hx)).1
    simp only [gtsOfS, groupTables, List.isEmpty_nil, Bool.not_true, Bool.false_and, Bool.false_eq_true, if_false,
      List.nil_append]
    rw [group_all_break P _ _ (gridSpec_ne (rowsOfS_ne (hts tp List.mem_cons_self).1)) (gtsOfS_ne rest _ hrest)
      (by rw [allBreak_gtsOfS]; exact hs)]
    have := gtsOfS_tables rest (lastSep [] tp.1 ++ parasRtf tp.2)
    simp only [List.map_cons, tableSpec]
    congr 1
    have h2 : (gtsOfS (lastSep [] tp.1 ++ parasRtf tp.2) rest).map (fun gt => saveTable (gridSpec gt.2)) =
        ((gtsOfS (lastSep [] tp.1 ++ parasRtf tp.2) rest).map (·.2)).map (fun t => saveTable (gridSpec t)) := by simp
    rw [h2, this]; simp

/-- … with the patterns, `SPECIAL_CHARS` and the two literals of the current source -/
theorem C13_rtf_layout_gen (lead : List Str) (ts : List (STable × List Str)) (hne : ts ≠ [])
    (hd : docOkS S2T.Gen.TablesRtf.params lead ts = true) (hs : SeparatedS S2T.Gen.TablesRtf.params ts = true) :
    extractTables S2T.Gen.TablesRtf.params (docRtfS lead ts) = ts.map (fun tp => tableSpec (rowsOfS tp.1)) :=
  C13_rtf_layout_partial _ gen_rtf_params_ok lead ts hne hd hs

/-- the hypothesis stays exact for every row layout: as many tables come back as were written iff `SeparatedS` -/
theorem C13_rtf_layout_separated_exact (P : Params) (hP : paramsOk P = true) (lead : List Str)
    (ts : List (STable × List Str)) (hne : ts ≠ []) (hd : docOkS P lead ts = true) :
    (extractTables P (docRtfS lead ts)).length = ts.length ↔ SeparatedS P ts = true := by
  rw [C13_rtf_layout_behaviour P hP lead ts hd]
  obtain ⟨_, hts⟩ := docOkS_parts hd
  cases ts with
  | nil => exact absurd rfl hne
  | cons tp rest =>
    have hrest : ∀ x ∈ rest, STableOk P x.1 := fun x hx => (hts x (List.mem_cons_of_mem _ hx)).1
    simp only [gtsOfS, groupTables, List.isEmpty_nil, Bool.not_true, Bool.false_and, Bool.false_eq_true, if_false,
      List.nil_append]
    rw [group_length P _ _ (gridSpec_ne (rowsOfS_ne (hts tp List.mem_cons_self).1)) (gtsOfS_ne rest _ hrest)]
    have hl : (gtsOfS (lastSep [] tp.1 ++ parasRtf tp.2) rest).length = rest.length := by
      have := congrArg List.length (gtsOfS_tables rest (lastSep [] tp.1 ++ parasRtf tp.2)); simpa using this
    have hfilter := List.length_filter_eq_length_iff (p := fun (gt : GT) => breaks P gt.1)
      (l := gtsOfS (lastSep [] tp.1 ++ parasRtf tp.2) rest)
    have hsep : SeparatedS P (tp :: rest) = true ↔
        ∀ gt ∈ gtsOfS (lastSep [] tp.1 ++ parasRtf tp.2) rest, breaks P gt.1 = true := by
      simp only [SeparatedS, ← allBreak_gtsOfS, List.all_eq_true]
    rw [hsep, ← hfilter, hl]
    simp only [List.length_cons]
    omega

/-! ## the layouts of the first round and of compact writers -/

/-- the first round's layout (LF behind every `\row`) is one of the layouts: same text -/
theorem C13_rtf_layout_default (lead : List Str) (ts : List (RTable × List Str)) :
    docRtfS lead (ts.map (fun tp => (withNl tp.1, tp.2))) = docRtf (docOf lead ts) :=
  docRtfS_withNl lead ts

/-- every row followed by the same separator -/
def withSep (sep : Str) (t : RTable) : STable := t.map (fun r => (r, sep))

theorem rowsOfS_withSep (sep : Str) (t : RTable) : rowsOfS (withSep sep t) = t := by
  induction t with
  | nil => rfl
  | cons r rs ih => simp only [rowsOfS, withSep, List.map_cons, List.map_map] at ih ⊢; rw [ih]

/-- ONE table whose rows are written DIRECTLY one after the other (`…\cell \row\trowd\cellx…`: the `\row` of a row ends
    exactly where the `\trowd` of the next starts): all r rows come back, every cell in place -/
theorem C13_rtf_rows_adjacent (P : Params) (hP : paramsOk P = true) (lead after : List Str) (t : RTable)
    (hd : docOk lead [(t, after)] = true) :
    extractTables P (docRtfS lead [(withSep [] t, after)]) = [tableSpec t] := by
  have hd' : docOkS P lead [(withSep [] t, after)] = true := by
    simp only [docOk, tableOk, List.all_cons, List.all_nil, Bool.and_true, Bool.and_eq_true, Bool.not_eq_true',
      List.all_eq_true] at hd
    simp only [docOkS, stableOk, withSep, List.all_cons, List.all_nil, Bool.and_true, Bool.and_eq_true,
      Bool.not_eq_true', List.all_eq_true, List.all_map, List.isEmpty_map, Function.comp_apply]
    refine ⟨hd.1, ⟨hd.2.1.1, ?_⟩, hd.2.2⟩
    intro r hr
    refine ⟨?_, by simp [sepOk]⟩
    simpa [List.all_eq_true] using hd.2.1.2 r hr
  have := C13_rtf_layout_partial P hP lead [(withSep [] t, after)] (by simp) hd' rfl
  simpa [rowsOfS_withSep] using this

/-! ## the layout writer of the correspondence (`rowRtfL`, all slots) and the layouts of the theorems -/

theorem cellxsL_nil : ∀ (n i : Nat), cellxsL [] i n = cellxs i n
  | 0, _ => rfl
  | n + 1, i => by simp [cellxsL, cellxs, cellxsL_nil n]

theorem closeOf_cellStart : closeOf sCellStart = [] := by rfl
theorem closeOf_nil : closeOf ([] : Str) = [] := by rfl

/-- the default layout with another text behind `\row` -/
def dflt (s : Str) : RowLayout := { RowLayout.default with rowEnd := s }

theorem cellRtfL_default (s : Str) (c : RCell) : cellRtfL (dflt s) c = cellRtf c := by
  unfold cellRtfL
  simp only [dflt, RowLayout.default, closeOf_cellStart, closeOf_nil, cellRtf, List.append_nil, List.nil_append]

/-- the default layout with any text behind `\row` is the row of the theorems followed by that text: the documents the
    harness writes through `rowRtfL` with only `row_end` varied ARE the documents of `C13_rtf_layout_partial` -/
theorem C13_rtf_layout_tie (s : Str) (r : RRow) : rowRtfL (dflt s) r = rowRtf r ++ s := by
  have hf : r.flatMap (cellRtfL (dflt s)) = r.flatMap cellRtf := by
    induction r with
    | nil => rfl
    | cons c cs ih => simp only [List.flatMap_cons, cellRtfL_default, ih]
  have h1 : (dflt s).rowOpen = [] := rfl
  have h2 : (dflt s).defsOpen = [] := rfl
  have h3 : (dflt s).cellxSep = [] := rfl
  have h4 : (dflt s).defsClose = [' '] := rfl
  have h5 : (dflt s).rowEnd = s := rfl
  have h6 : (dflt s).beforeRow = [] := rfl
  unfold rowRtfL
  rw [hf, h1, h2, h3, h4, h5, h6, cellxsL_nil, closeOf_nil]
  unfold rowRtf
  simp only [List.nil_append, List.append_nil, List.append_assoc]

theorem C13_rtf_layout_tie_table : ∀ (t : STable), tableRtfL (t.map (fun r => (dflt r.2, r.1))) = tableRtfS t
  | [] => rfl
  | r :: rs => by
    have ih := C13_rtf_layout_tie_table rs
    simp only [tableRtfL, tableRtfS, List.map_cons, List.flatMap_cons] at ih ⊢
    rw [ih, C13_rtf_layout_tie]

/-! ## non-vacuity and the committed regression witness -/

private def longPara : Str :=
  "between the tables there is a paragraph that is clearly longer than one hundred and twenty characters, so that the row grouping heuristic sees a break here.".toList

/-- rows separated by nothing, a space, CR LF, a group boundary; the last separator of a table counts into the gap -/
example : docOkS S2T.Gen.TablesRtf.params ["before".toList]
      [([([["a".toList], ["b c".toList, "Ünï €".toList]], []), ([["1".toList], []], " ".toList), ([["x".toList]], "}\r\n{".toList)], [longPara]),
       ([([["x-y".toList]], []), ([["z".toList]], [])], ["after".toList])] = true
    ∧ SeparatedS S2T.Gen.TablesRtf.params
      [([([["a".toList], ["b c".toList, "Ünï €".toList]], []), ([["1".toList], []], " ".toList), ([["x".toList]], "}\r\n{".toList)], [longPara]),
       ([([["x-y".toList]], []), ([["z".toList]], [])], ["after".toList])] = true := by
  constructor <;> decide +kernel

/-- a 4 × 3 table, rows directly adjacent, on the model with the parameters of the current source: 4 × 3 -/
theorem C13_rtf_adjacent_witness :
    extractTables S2T.Gen.TablesRtf.params (docRtfS ["Intro".toList]
      [(withSep [] [[["Name".toList], ["Qty".toList], ["Price".toList]], [["apple".toList], ["3".toList], ["1.50".toList]],
          [["pear".toList], ["12".toList], ["0.80".toList]], [["plum".toList], ["7".toList], ["2.10".toList]]], ["After".toList])])
      = [[["Name".toList, "Qty".toList, "Price".toList], ["apple".toList, "3".toList, "1.50".toList],
          ["pear".toList, "12".toList, "0.80".toList], ["plum".toList, "7".toList, "2.10".toList]]] := by
  decide +kernel

end S2T.C13.RtfLayout
