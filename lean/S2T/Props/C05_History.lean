import S2T.Model.SerialState
import S2T.Gen.SerialState
import S2T.Gen.Schema
/-!
# C05, process histories: the round trip does not depend on what the process did before

`from_json` looks classes up in the lazily populated module-level `_TYPE_REGISTRY`, whose loader trusts
"non-empty ⇒ fully populated".  That trust is an invariant of the *process*: it holds only if nothing but the
loader ever writes the registry.  Here:

* the inventory regenerated from the current source (`S2T.Gen.SerialState`: every state cell of the
  serialisation path and every mention of it, classified) is decided to be exactly what the state machine
  `S2T.SerialState.step` assumes (`gen_state_cells`, `gen_state_sites_ok`, `gen_method_bodies`): one cell, written
  only by the loader's fill loop, never mentioned on the serialiser's side or from another module, no caches,
  mutable defaults or attribute stores on the path, and `to_json` / `from_json` are nothing but
  `serialize_extraction(self)` / `deserialize_extraction(data)`;
* for that machine, **every** history of calls (any length, any interleaving of `to_json` of anything and
  `from_json` of anything, failing calls included) returns call by call what the stateless functions return
  (`C05_history_independent`), so the round-trip theorems of `Props/C05.lean` hold in every reachable process
  state (`C05_roundtrip_any_history` there);
* on the machine in which the serialiser records the classes it writes, the history
  "serialise a PlainTextContent, then from_json the stored JSON of an HtmlContent" returns a raw dict
  (`C05_cex_history_registering_serialiser`): the purity obligation is needed.
-/
namespace S2T.C05.History
open S2T.Serial S2T.SerialState

/-! ## the inventory of the current source -/

/-- the only state on the serialisation path is the type registry -/
theorem gen_state_cells : S2T.Gen.SerialState.cells = ["_TYPE_REGISTRY"] := by decide

theorem gen_state_notes_empty : S2T.Gen.SerialState.notes = [] := by decide

def allowedKinds : List String := ["decl-empty", "guard-return", "fill", "return", "read"]

/-- what `step` assumes about the mentions of the registry -/
def sitesOk (cells : List String) (sites : List (String × String × String)) (loaders users serPath deserPath : List String) : Bool :=
  -- only the classified harmless kinds occur …
  sites.all (fun s => allowedKinds.contains s.2.2)
  -- … every cell is declared empty, exactly once
  && cells.all (fun c => (sites.filter (fun s => s.1 == c && s.2.2 == "decl-empty")).length == 1)
  -- … it is written (fill) and handed out (return) only by a loader, and every loader opens with the guard
  && sites.all (fun s => !(s.2.2 == "fill" || s.2.2 == "return" || s.2.2 == "guard-return") || loaders.contains s.2.1)
  && loaders.all (fun l => sites.contains ("_TYPE_REGISTRY", l, "guard-return") && sites.contains ("_TYPE_REGISTRY", l, "fill"))
  && loaders.length == 1
  -- … nothing on the serialiser's side mentions it or calls a loader
  && sites.all (fun s => !serPath.contains s.2.1)
  && loaders.all (fun l => !serPath.contains l)
  && users.all (fun u => !serPath.contains u && deserPath.contains u)

theorem gen_state_sites_ok :
    sitesOk S2T.Gen.SerialState.cells S2T.Gen.SerialState.sites S2T.Gen.SerialState.loaders
      S2T.Gen.SerialState.registryUsers S2T.Gen.SerialState.serPath S2T.Gen.SerialState.deserPath = true := by
  decide +kernel

/-- `to_json` is `serialize_extraction(self)` and `from_json` is `deserialize_extraction(data)`, for every class -/
theorem gen_method_bodies :
    S2T.Gen.SerialState.methodBodies =
      [("from_json", "return deserialize_extraction(data)"), ("to_json", "<abstract>"),
       ("to_json", "return serialize_extraction(self)")] := by decide

/-! ## history independence -/

private theorem restrict_names (S : Schema) : restrict S (names S) = S := by
  unfold restrict
  rw [List.filter_eq_self]
  intro c hc
  simp only [names, List.contains_eq_mem, List.mem_map, decide_eq_true_eq]
  exact ⟨c, hc, rfl⟩

private theorem loadRegistry_inv (S : Schema) (r : Reg) (h : r = [] ∨ r = names S) : loadRegistry S r = names S := by
  unfold loadRegistry
  rcases h with h | h
  · simp [h]
  · subst h; split <;> rfl

/-- a call that fails its argument checks never looks at the class table -/
private theorem deser_unreached (S₁ S₂ : Schema) (j : PyVal) (h : reachesRegistry j = false) :
    deserializeExtraction S₁ j = deserializeExtraction S₂ j := by
  cases j <;> simp_all [deserializeExtraction, reachesRegistry]

/-- the loader's guard is sound in every reachable state: the registry is empty or complete -/
theorem C05_registry_invariant (S : Schema) (r : Reg) (h : r = [] ∨ r = names S) (op : Op) :
    (step S .pure r op).1 = stateless S op ∧ ((step S .pure r op).2 = [] ∨ (step S .pure r op).2 = names S) := by
  cases op with
  | toJson b v => exact ⟨rfl, h⟩
  | fromJson j =>
    simp only [step, stateless]
    cases hr : reachesRegistry j with
    | true =>
      simp [loadRegistry_inv S r h, restrict_names]
    | false =>
      simp only [Bool.false_eq_true, if_false]
      exact ⟨by rw [deser_unreached _ S j hr], h⟩

private theorem run_inv (S : Schema) (ops : List Op) : ∀ r, (r = [] ∨ r = names S) → run S .pure r ops = ops.map (stateless S) := by
  induction ops with
  | nil => intro r _; rfl
  | cons op ops ih =>
    intro r h
    obtain ⟨h1, h2⟩ := C05_registry_invariant S r h op
    simp only [run, List.map_cons, h1, ih _ h2]

/-- **Every history.**  In a fresh process (empty registry), whatever sequence of `to_json` /
`serialize_extraction(…, include_binary=…)` / `from_json` calls is made, on whatever arguments, each call returns
what the stateless function returns. -/
theorem C05_history_independent (S : Schema) (ops : List Op) : run S .pure [] ops = ops.map (stateless S) :=
  run_inv S ops [] (Or.inl rfl)

/-- … in particular the call made after any history `pre` -/
theorem C05_after_any_history (S : Schema) (pre : List Op) (op : Op) :
    (run S .pure [] (pre ++ [op])).getLast? = some (stateless S op) := by
  rw [C05_history_independent]; simp

/-! ## why the purity obligation is there -/

def plainText : PyVal :=
  .obj "PlainTextContent".toList [("content".toList, .str "remember the milk".toList), ("metadata".toList, .none)]

def tableDim : PyVal := .obj "TableDim".toList [("rows".toList, .int 2), ("columns".toList, .int 3)]

def isRawDict : Out → Bool
  | .back (.ok (.dict _)) => true
  | _ => false

def isObjOf (c : String) : Out → Bool
  | .back (.ok (.obj n _)) => n == c.toList
  | _ => false

/-- the shape of seeded change C05/registering-serialiser: once the serialiser records what it writes, "serialise a
PlainTextContent, then `from_json` the stored JSON of a TableDim" hands back a raw dict; the same `from_json` made
first, or after serialising a TableDim, rebuilds the object -/
theorem C05_cex_history_registering_serialiser :
    ((run S2T.Gen.Schema.schema .registersWritten [] [.toJson true plainText, .fromJson (serializeExtraction true tableDim)]).getLast?.map isRawDict
        = some true)
    ∧ ((run S2T.Gen.Schema.schema .registersWritten [] [.fromJson (serializeExtraction true tableDim)]).getLast?.map (isObjOf "TableDim")
        = some true)
    ∧ ((run S2T.Gen.Schema.schema .pure [] [.toJson true plainText, .fromJson (serializeExtraction true tableDim)]).getLast?.map (isObjOf "TableDim")
        = some true) := by
  refine ⟨by decide +kernel, by decide +kernel, by decide +kernel⟩

end S2T.C05.History
