import S2T.Model.IfaceOptText
import S2T.Gen.Iface
/-!
# C04 (optional text) — text accessors are fed `str`, whatever state an optional element of the file is in

An optional child element can be absent, present but EMPTY (`<svg:desc/>`: ElementTree's `.text` is `None`) or hold
text.  For every state (all `Child`), the guarded reader forms hand a `str` to the field — the text when there is
some, `""` otherwise — and the fall-back / combination steps of the ODF picture extractors keep it a `str`; the
unguarded form hands on `None` exactly for the empty-but-present element (counterexample theorems: the accessor
then returns no `str`).  Tie to the source: the inventory of EVERY `.text` read of the package (regenerated from the
AST on each run) contains no unguarded read of an XML element except the reviewed ones.
-/
namespace S2T.C04.OptText
open S2T.Iface

/-- the guarded reader gives a `str` for every state of the element: the stored text, `""` when there is none -/
theorem read_guarded_is_str (c : Child) : readGuarded c = some c.stored := by
  cases c with
  | absent => rfl
  | empty => rfl
  | text s => by_cases h : s.isEmpty <;> simp [readGuarded, Child.present, Child.textVal, truthy, Child.stored, h]
              <;> simp_all [String.isEmpty_iff]

/-- … so does `(e.text or "")` -/
theorem read_or_empty_is_str (c : Child) : readOrEmpty c = some c.stored := by
  cases c with
  | absent => rfl
  | empty => rfl
  | text s => by_cases h : s.isEmpty <;> simp [readOrEmpty, pyOr, Child.present, Child.textVal, truthy, Child.stored, h]
              <;> simp_all [String.isEmpty_iff]

/-- the two guarded forms agree and never distinguish an absent element from an empty one -/
theorem guarded_forms_agree (c : Child) : readGuarded c = readOrEmpty c ∧ readGuarded .absent = readGuarded .empty :=
  ⟨by rw [read_guarded_is_str, read_or_empty_is_str], rfl⟩

/-- an attribute read with a `str` default is a `str` whether the attribute is there or not -/
theorem attr_default_is_str (a : Option String) : (attrGetDefault a).isSome = true := rfl

/-
FULL-STRENGTH STATEMENT for the unguarded form (false):
  theorem read_raw_is_str (c : Child) : (readRaw c).isSome = true
-/
/-- the unguarded form is a `str` exactly when the element is not the empty-but-present one -/
theorem read_raw_partial (c : Child) (h : c ≠ .empty) : readRaw c = some c.stored := by
  cases c with
  | absent => rfl
  | empty => exact absurd rfl h
  | text s => rfl

example : Child.text "Ground floor" ≠ Child.empty := by decide

/-- counterexample: `<svg:desc/>` read by `e.text if e is not None else ""` is `None` — and no `str` comes out of the accessor -/
theorem read_raw_counterexample :
    readRaw .empty = none ∧ accessorReturnsStr (readRaw .empty) = false ∧ readGuarded .empty = some "" := by decide

/-- `caption = title; if not caption and name: caption = name` keeps a `str` a `str` (the name may be `None`) -/
theorem caption_fallback_is_str (title : String) (name : PyStr) :
    (captionWithFallback (some title) name).isSome = true ∨ (truthy name = true ∧ captionWithFallback (some title) name = name) := by
  unfold captionWithFallback
  by_cases h : (!truthy (some title) && truthy name) = true
  · right; simp only [Bool.and_eq_true] at h; exact ⟨h.2, by simp [h.1, h.2]⟩
  · left; simp [h]

/-- … with a guarded title and any name it is a `str` for every state of the file -/
theorem caption_is_str (t : Child) (name : Option String) :
    (captionWithFallback (readGuarded t) (attrGet name)).isSome = true := by
  rw [read_guarded_is_str]
  unfold captionWithFallback attrGet
  cases name with
  | none => simp [truthy]
  | some n => by_cases h : (!truthy (some t.stored) && truthy (some n)) = true <;> simp [h]

/-- the ODP / ODS description (`title\ndesc`, or whichever is there) is a `str` for every state of both elements -/
theorem combine_is_str (t d : Child) : (combineTitleDesc (readGuarded t) (readGuarded d)).isSome = true := by
  rw [read_guarded_is_str, read_guarded_is_str]
  unfold combineTitleDesc pyOr
  split
  · rfl
  · split <;> rfl

/-- counterexamples with the unguarded reader: an unnamed frame with an empty title has caption `None` (ODT / ODG);
an empty description and no title gives description `None` (ODP / ODS) -/
theorem unguarded_chain_counterexamples :
    captionWithFallback (readRaw .empty) (attrGet none) = none ∧
    combineTitleDesc (readRaw .absent) (readRaw .empty) = none ∧
    combineTitleDesc (readRaw .empty) (readRaw .empty) = none ∧
    captionWithFallback (readRaw .empty) (attrGet (some "Plan")) = some "Plan" := by decide

/-! ## tie to the source -/

/-- every `.text` read of an XML element in the package is protected against `None` (tested truthy before use,
`or`-ed with a fallback, used as a truth value only, or bound to a name used only so) — except the reviewed reads,
whose value reaches no accessor of the common interface -/
theorem xml_text_reads_guarded :
    ∀ r ∈ S2T.Gen.Iface.textReads, r.kind = ReadKind.unguarded → (r.file, r.fn, r.recv) ∈ reviewedUnguardedReads := by
  decide +kernel

/-- … the inventory is not empty: it sees guarded reads, `or`-defaults, and reads of dataclass fields named `text` -/
theorem xml_text_reads_nonempty :
    (S2T.Gen.Iface.textReads.any fun r => r.kind == ReadKind.guarded) = true ∧
    (S2T.Gen.Iface.textReads.any fun r => r.kind == ReadKind.orDefault) = true ∧
    (S2T.Gen.Iface.textReads.any fun r => r.kind == ReadKind.notElement) = true := by decide +kernel

end S2T.C04.OptText
