import S2T.Model.RegexInventory
import S2T.Gen.Regexes
/-!
# C01 (termination of the library's own pattern matching) — closed-world inventory of regular expressions

`S2T.Gen.Regexes.regexes` is regenerated on every run: every `re.<fn>(<constant>, …)` call of the package (AST)
plus every pattern compiled from package code while all modules are imported and the fixtures of the modules
with non-constant pattern expressions are extracted (`re._compile` hook), each with the parse tree of CPython's
own `re._parser`.  The theorems below are re-decided by the kernel on the current inventory:

* `regexes_reviewed` / `inventory_not_stale`: the patterns of the source are exactly the reviewed ones;
* `nested_reviewed`: a pattern with an unbounded repeat inside an unbounded repeat (the shape that can make a
  backtracking matcher exponential) is one of the nine read by hand (`reviewedNested`, with the reason);
* `flat_are_flat`: the others have star height ≤ 1 on the parse tree of the CURRENT pattern text;
* `dynamic_sites_reviewed`: the call sites with a non-constant pattern are the four known ones;
* `no_backrefs`: no pattern uses a back-reference (so each is a regular expression in the strict sense).

`nested_iff_starHeight`, `hasUnb_iff_starHeight`, `unbCount_pos_iff` hold for every syntax tree.
What is NOT proved: a bound on the running time of CPython's matcher.  That is attacked on every run by pumping
every unbounded repeat of every inventoried pattern (harness/props/c01.py: pattern level and through the
extractor for the files that have a carrier document).
-/
namespace S2T.C01.Regex
open S2T.Regex S2T.Gen.Regexes

theorem hasUnb_iff_starHeight (r : Re) : hasUnb r = true ↔ 1 ≤ starHeight r := by
  induction r with
  | eps | chr _ | zero _ | backref _ => simp [hasUnb, starHeight]
  | look _ _ r ih => simpa [hasUnb, starHeight] using ih
  | cat a b iha ihb | alt a b iha ihb =>
    simp only [hasUnb, starHeight, Bool.or_eq_true, iha, ihb]; omega
  | rep lo hi lz r ih =>
    simp only [hasUnb, starHeight, Bool.or_eq_true, ih]
    cases h : unbounded hi <;> simp
  | atomic r ih => simpa [hasUnb, starHeight] using ih

/-- `nested` is exactly "star height at least two", for every pattern -/
theorem nested_iff_starHeight (r : Re) : nested r = true ↔ 2 ≤ starHeight r := by
  induction r with
  | eps | chr _ | zero _ | backref _ => simp [nested, starHeight]
  | look _ _ r ih => simpa [nested, starHeight] using ih
  | cat a b iha ihb | alt a b iha ihb =>
    simp only [nested, starHeight, Bool.or_eq_true, iha, ihb]; omega
  | rep lo hi lz r ih =>
    simp only [nested, starHeight, Bool.or_eq_true, Bool.and_eq_true, ih, hasUnb_iff_starHeight]
    cases h : unbounded hi <;> simp <;> omega
  | atomic r ih => simpa [nested, starHeight] using ih

/-- a pattern has a pumping target iff it has an unbounded repeat -/
theorem unbCount_pos_iff (r : Re) : 1 ≤ unbCount r ↔ hasUnb r = true := by
  induction r with
  | eps | chr _ | zero _ | backref _ => simp [hasUnb, unbCount]
  | look _ _ r ih => simpa [hasUnb, unbCount] using ih
  | cat a b iha ihb | alt a b iha ihb =>
    simp only [hasUnb, unbCount, Bool.or_eq_true, ← iha, ← ihb]; omega
  | rep lo hi lz r ih =>
    simp only [hasUnb, unbCount, Bool.or_eq_true, ← ih]
    cases h : unbounded hi <;> simp
  | atomic r ih => simpa [hasUnb, unbCount] using ih

/-- closed world: every regular expression of the current source is a reviewed one -/
theorem regexes_reviewed : ∀ e ∈ regexes, e.key ∈ reviewedKeys := by decide +kernel

/-- and nothing is listed that no longer exists -/
theorem inventory_not_stale : ∀ k ∈ reviewedKeys, k ∈ regexes.map Entry.key := by decide +kernel

/-- nested unbounded repeats occur only in the patterns read by hand -/
theorem nested_reviewed : ∀ e ∈ regexes, nested e.re = true → e.key ∈ reviewedNested.map (·.1) := by decide +kernel

/-- the reviewed-as-flat patterns have star height ≤ 1 on the current parse tree -/
theorem flat_are_flat : ∀ e ∈ regexes, e.key ∈ reviewedFlat → starHeight e.re ≤ 1 := by decide +kernel

/-- so every pattern of the source is flat or hand-read (for the CURRENT inventory) -/
theorem every_pattern_flat_or_read (e : Entry) (he : e ∈ regexes) :
    starHeight e.re ≤ 1 ∨ e.key ∈ reviewedNested.map (·.1) := by
  by_cases h : nested e.re = true
  · exact Or.inr (nested_reviewed e he h)
  · left
    have h2 : ¬ 2 ≤ starHeight e.re := fun h' => h ((nested_iff_starHeight e.re).mpr h')
    omega

/-- call sites whose pattern is not a constant are the known ones -/
theorem dynamic_sites_reviewed : ∀ s ∈ dynamicSites, s ∈ reviewedDynamicSites.map (·.1) := by decide +kernel

theorem dynamic_sites_not_stale : ∀ s ∈ reviewedDynamicSites.map (·.1), s ∈ dynamicSites := by decide +kernel

def noBackref : Re → Bool
  | .backref _ => false
  | .look _ _ r | .atomic r | .rep _ _ _ r => noBackref r
  | .cat a b | .alt a b => noBackref a && noBackref b
  | _ => true

theorem no_backrefs : ∀ e ∈ regexes, noBackref e.re = true := by decide +kernel

/-! non-vacuity: the analysis flags the shapes it is meant to flag -/
-- (a+)+
example : nested (.rep 1 none false (.rep 1 none false (.chr "=61"))) = true := by decide
-- (?:[^<]+|<[^>]*>)+   (the shape of a link label that admits inline markup)
example : nested (.rep 1 none false (.alt (.rep 1 none false (.chr "[^ 3c]"))
    (.cat (.chr "=3c") (.cat (.rep 0 none false (.chr "[^ 3e]")) (.chr "=3e"))))) = true := by decide
example : nested (.cat (.rep 1 none false (.chr "[^ 3e]")) (.rep 0 none false (.chr "[^ 3c]"))) = false := by decide
example : ∃ e ∈ regexes, nested e.re = true := by decide +kernel

end S2T.C01.Regex
