import S2T.Lemmas.Loops
import S2T.Model.LoopInventory
import S2T.Gen.Loops
import S2T.Gen.C12Consts
import S2T.Props.C12_Witness
/-!
# C12 (first half) — every `while` loop of the library terminates, and the byte scanners are linear

* `loops_covered`: every `while` statement the translator finds in the CURRENT source
  (`S2T.Gen.Loops.whileLoops`: file, function, test, update set) is one whose key is listed in
  `provenLoops` (modelled in `S2T/Model/Loops.lean` by structural / well-founded recursion on the loop's
  own variant — Lean accepting those definitions is the termination proof) or in `assumedLoops`.
* `steps_*`: the number of iterations of each modelled loop is at most `input.length + 1`
  (for ALL inputs, all offsets / parameters).
* FALSE on the current source (kept visible, with counterexamples on the model):
  `steps (png carver) ≤ c·(len+1)` and `steps (slide-list re-walk) ≤ c·(len+1)`.
-/
namespace S2T.C12.Loops
open S2T.Loops

/-- closed world: every `while` loop found in the source is accounted for -/
theorem loops_covered :
    ∀ ℓ ∈ S2T.Gen.Loops.whileLoops, (ℓ.1, ℓ.2.1, ℓ.2.2.1, ℓ.2.2.2.1) ∈ knownKeys := by decide +kernel

/-- and nothing is listed that no longer exists (a stale excuse is also a broken tie) -/
theorem inventory_not_stale :
    ∀ k ∈ knownKeys, k ∈ S2T.Gen.Loops.whileLoops.map (fun ℓ => (ℓ.1, ℓ.2.1, ℓ.2.2.1, ℓ.2.2.2.1)) := by decide +kernel

/-- every directly self-recursive function found in the source is one whose variant was read -/
theorem recursion_covered :
    ∀ f ∈ S2T.Gen.Loops.recursiveFunctions, f ∈ recursiveByReading.map (·.1) := by decide +kernel

/-- the record layouts the models hard-wire are the ones the source declares -/
theorem layouts_ok :
    S2T.Gen.C12Consts.pptHeaderFmt = "<HHI" ∧ S2T.Gen.C12Consts.pptHeaderSize = 8 ∧
    S2T.Gen.C12Consts.xlsHeaderFmt = "<HHI" ∧ S2T.Gen.C12Consts.xlsHeaderSize = 8 ∧
    S2T.Gen.C12Consts.dibFmt = "<IiiHHII" ∧ S2T.Gen.C12Consts.filepassOp = "eq" ∧
    S2T.Gen.C12Consts.rtfUnicodePattern = "\\\\u(-?\\d+)\\??" ∧
    S2T.Gen.C12Consts.sofStops = [[217, 218], [217, 218], [217, 218]] ∧
    S2T.Gen.C12Consts.notes = [] := by decide

/-! ## linear step bounds (all inputs) -/

theorem steps_xlsFilepass (fp : Nat) (d : Bytes) : (xlsFilepass fp d 0).2 ≤ d.length + 1 := by
  have := xlsFilepass_steps_le fp d 0; omega

theorem steps_jpegDims (sof : List Nat) (d : Bytes) : (jpegDims sof d 2).2 ≤ d.length + 1 := by
  have := jpegDims_steps_le sof d 2; omega

theorem steps_pixelDims (sof : List Nat) (strict : Bool) (d : Bytes) : (pixelDims sof strict d).2.2 ≤ d.length + 1 := by
  unfold pixelDims
  have := sofScan_steps_le sof strict d 2
  repeat' split
  all_goals simp_all
  all_goals omega

theorem steps_pptIter (d : Bytes) (start : Nat) : (pptIter d start).2.1 ≤ d.length + 1 := by
  have := pptIter_steps_le d start; omega

theorem steps_xlsBlipScan (blip : List Nat) (d : Bytes) : (xlsBlipScan blip d 0).length ≤ d.length + 1 := by
  have := xlsBlipScan_steps_le blip d 0; omega

theorem steps_dibCarve (d : Bytes) : (dibCarve d 0).2 ≤ d.length + 1 := by
  have := dibCarve_steps_le d 0; omega

/-- one chunk walk is linear … -/
theorem steps_pngChunks (d : Bytes) (pos : Nat) : (pngChunks d pos).2 ≤ d.length + 1 := by
  have := pngChunks_steps_le d pos; omega

/-- … and so is the number of signatures tried … -/
theorem steps_pngCarve_outer (d : Bytes) : (pngCarve d 0).2.1 ≤ d.length + 1 := by
  have := pngCarve_outer_le d 0; omega

/-
FULL STATEMENT (false on the current source — every signature restarts a chunk walk):
  theorem steps_pngCarve_inner (d : Bytes) : (pngCarve d 0).2.2 ≤ c * (d.length + 1)      for a fixed c
What holds: the quadratic bound below.  Counterexamples: `pngCarve_inner_superlinear_*`.
-/
theorem steps_pngCarve_inner_partial (d : Bytes) : (pngCarve d 0).2.2 ≤ d.length * d.length := by
  have := pngCarve_inner_le d 0; simpa using this

/-- 30 signatures sharing a chain of 30 chunks: 844 bytes, 930 inner iterations (> len + 1);
    the evaluation itself is `S2T.C12.Witness.pngCarve_amplifier_30` -/
theorem pngCarve_inner_superlinear :
    ∃ d : Bytes, (pngCarve d 0).2.2 > d.length + 1 :=
  ⟨pngAmplifier 30 30, by rw [S2T.C12.Witness.pngCarve_amplifier_30.1, S2T.C12.Witness.pngCarve_amplifier_30.2]; decide⟩

theorem steps_removeIgnorable (pf : List Str) (t l : Str) :
    (removeIgnorable pf t l 0).2.1 + (removeIgnorable pf t l 0).2.2 ≤ 2 * (t.length + 1) := by
  have := removeIgnorable_steps_le pf t l 0; omega

/-- the output never grows -/
theorem out_removeIgnorable (pf : List Str) (t l : Str) : (removeIgnorable pf t l 0).1.length ≤ t.length := by
  have := removeIgnorable_out_le pf t l 0; omega

/-- for every classification of characters and every skip-destination oracle -/
theorem steps_rtfWalk (alpha digit : Nat → Bool) (sd : Str → Nat → Bool) (s : Str) (st : RtfState) :
    (rtfWalk alpha digit sd s 0 st).length ≤ s.length + 1 := by
  have := rtfWalk_length_le alpha digit sd s 0 st; omega

theorem steps_scanWhile (p : Nat → Bool) (s : Str) (j : Nat) (h : j ≤ s.length) : (scanWhile p s j).2 ≤ s.length + 1 := by
  have := scanWhile_steps p s j
  have := scanWhile_le p s j h
  omega
example : (0 : Nat) ≤ ([104, 105] : Str).length := by decide

theorem steps_trimBack (p : Nat → Bool) (w : List Nat) : (trimBack p w).2 ≤ w.length + 1 := by
  have := trimBack_steps_le p w; omega

theorem steps_popHeadings (lvl : Int) (st : List Int) : (popHeadings lvl st).2 ≤ st.length + 1 := by
  have := popHeadings_steps_le lvl st; omega

theorem steps_drainStack {α} (st : List α) : (drainStack st).2 = st.length ∧ (drainStack st).1 = [] := by
  induction st with
  | nil => simp [drainStack]
  | cons x xs ih => simp [drainStack, ih.1, ih.2]

theorem steps_popEnded (o : Nat) (st : List (Nat × Nat)) : (popEnded o st).2 ≤ st.length + 1 := by
  have := popEnded_steps_le o st; omega

theorem steps_popSqrtClose (st : List Bool) : (popSqrtClose st).2 ≤ st.length + 1 := by
  have := (popSqrtClose_steps_le st).1; omega

theorem steps_trimEmptyRows (rows : List (List Bool)) : (trimEmptyRows rows).2 ≤ rows.length + 1 := by
  have := trimEmptyRows_steps_le rows; omega

theorem steps_trailingNumeric (fl : List Bool) : (trailingNumeric fl).2 ≤ fl.length + 1 := by
  have := trailingNumeric_steps_le fl; omega

theorem steps_lookAhead (mb : Nat) (fl : List Bool) (blk : Nat) : (lookAhead mb fl blk).2 ≤ fl.length + 1 := by
  have := lookAhead_steps_le mb fl blk; omega

theorem steps_normalizeLoop (e : Nat) (m : List (List Char)) : (normalizeLoop e m).2 ≤ m.length + 1 := by
  have := normalizeLoop_steps_le e m; omega

/-- `_gf_mul` runs at most 8 iterations whatever its arguments -/
theorem steps_gfMul (a b : Nat) : (gfMul a b).2 ≤ 8 := by
  unfold gfMul
  exact gfMulLoop_steps_le 8 _ _ _ (by omega)

theorem steps_skipArchiveProps (d : Bytes) {q s} (h : skipArchiveProps d 0 = .ok (q, s)) : s ≤ d.length + 1 := by
  have := skipArchiveProps_steps_le d 0 h; omega
example : (skipArchiveProps [2, 1, 9, 0] 0).toOption = some (4, 2) := by decide +kernel

theorem steps_readName (d : Bytes) (pos : Nat) {nm p s} (h : readName d pos = .ok (nm, p, s)) : s ≤ d.length + 1 := by
  have := readName_steps_le d pos h; omega
example : (readName [97, 0, 0, 0] 0).toOption = some ([97], 4, 2) := by decide +kernel

theorem steps_filesInfo (fixed : Bool) (d : Bytes) {r} (h : parseFilesInfo fixed d 0 = .ok r) : r.steps ≤ d.length + 1 := by
  unfold parseFilesInfo at h
  split at h
  · cases h
  · rename_i n hn
    have := (filesInfoLoop_steps_le d _ _ _ _ _ _ _ h).1
    omega
example : (parseFilesInfo true [1, 0x11, 5, 0, 97, 0, 0, 0, 0] 0).toOption.map (·.steps) = some 2 := by decide +kernel

/-! ## the PPT slide-list walk -/

/-
FULL STATEMENT (false on the current source — `_iter_records` descends into containers and
`_extract_slide_list_texts` walks the payload of every SlideListWithText record again):
  theorem steps_slideList (d : Bytes) : (slideListCost slwt d).1 ≤ c * (d.length + 1)      for a fixed c
What holds: each single walk is linear (`steps_pptIter`).  Counterexample: `slideList_superlinear_*`.
-/
theorem slwt_constant : S2T.Gen.C12Consts.slideListWithText = 4080 := by decide

/-- 40 nested SlideListWithText containers: 320 bytes, 820 iterations (> 2·(len + 1)), 88 400 bytes copied -/
theorem slideList_superlinear :
    ∃ d : Bytes, (slideListCost S2T.Gen.C12Consts.slideListWithText d).1 > 2 * (d.length + 1) :=
  ⟨pptNest 40, by rw [slwt_constant, S2T.C12.Witness.slideList_nest_40.1, S2T.C12.Witness.slideList_nest_40.2]; decide⟩

/-! ## the 7z declared file count -/

/-
FULL STATEMENT (false on the unfixed source — `[False] * num_files` etc. are sized by a declared count):
  theorem filesInfo_alloc (d : Bytes) : filesInfoAlloc false d 0 ≤ c * (d.length + 1)
Repaired by fix-7z-file-count.patch; the theorem below is about the repaired code (`fixed = true`),
the counterexample about the code before the repair.
-/
theorem filesInfo_alloc_fixed (d : Bytes) (pos : Nat) : filesInfoAlloc true d pos ≤ 3 * d.length := by
  unfold filesInfoAlloc filesInfoCount
  split
  · simp
  · rename_i n hn
    split at hn
    · cases hn
    · rename_i m hm
      split at hn
      · cases hn
      · rename_i hle
        cases hn
        simp at hle
        have := readNumber_pos hm
        omega

/-- a 9-byte number declares 2^56 files: 3·2^56 list cells from a 10-byte section -/
theorem filesInfo_alloc_unfixed_counterexample :
    filesInfoAlloc false [0xFF, 0, 0, 0, 0, 0, 0, 0, 1, 0] 0 = 3 * 2 ^ 56 ∧
    filesInfoAlloc true [0xFF, 0, 0, 0, 0, 0, 0, 0, 1, 0] 0 = 0 := by decide +kernel

end S2T.C12.Loops
