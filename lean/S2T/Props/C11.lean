import S2T.Lemmas.ZipBomb
import S2T.Lemmas.ZipBombFloat
import S2T.Gen.ZipBomb
import S2T.Gen.ZipOpenSites
import S2T.Props.C11_Src
import S2T.Props.C11_Fields
/-!
# C11 — ZIP-container bomb guard decides exactly and runs before any read

Model: `S2T.ZipBomb` (`validate_zipfile`, `open_zipfile`, `validate_zip_bytesio`,
`ZipContext.__init__`).  Quantifiers: every limit setting `lim : Limits` (non-negative int
limits, ratio limits as exact fractions), every list of entries `(file_size, compress_size,
is_dir)` of any length with unbounded sizes, every behaviour `z : ZipOpen` of the third-party
`zipfile.ZipFile` constructor, every initial stream position.

The ratio clauses are decided *exactly* (`size·den > num·csize`).  That is the behaviour of the
source with `fix-exact-ratio.patch`; on the unpatched source the quotient is first rounded to a
double, which for sizes beyond 2^53/limit accepts ratios that exceed the limit — see
`float_counterexample` below and `S2T.Lemmas.ZipBombFloat` for when the two agree.
-/
namespace S2T.C11
open S2T.ZipBomb

/-! ## The predicate is decided exactly -/

/-- **C11 (exactness, accept side).** The guard accepts exactly the containers that are not bombs. -/
theorem accept_iff (lim : Limits) (es : List Entry) :
    validate lim (some es) = .ok () ↔ ¬ Bomb lim es := by
  unfold validate Bomb
  by_cases hlen : es.length > lim.maxEntries
  · simp [hlen]
  · simp only [hlen, ↓reduceIte, false_or]
    cases hl : loop lim 0 0 es with
    | error r =>
      have := (loop_error_iff lim es 0 0 (Nat.zero_le _)).mp ⟨r, hl⟩
      simp only [Nat.zero_add] at this
      simp only [reduceCtorEq, false_iff, Classical.not_not]
      by_cases hall : ∀ e ∈ files es, ¬ EntryBad lim e
      · right; left
        exact Nat.lt_of_not_le (fun hle => this ⟨hall, hle⟩)
      · left
        simp only [Classical.not_forall, Classical.not_not] at hall
        obtain ⟨e, he, hb⟩ := hall
        exact ⟨e, ((mem_files e es).mp he).1, ((mem_files e es).mp he).2, hb⟩
    | ok p =>
      obtain ⟨hall, htot, hp⟩ := (loop_ok_iff lim es 0 0 p (Nat.zero_le _)).mp hl
      simp only [Nat.zero_add] at htot hp
      subst hp
      have hnobad : ¬ ∃ e ∈ es, e.isDir = false ∧ EntryBad lim e := by
        intro ⟨e, he, hd, hb⟩
        exact hall e ((mem_files e es).mpr ⟨he, hd⟩) hb
      have hnotot : ¬ totalU es > lim.maxTotal := by omega
      simp only [hnobad, hnotot, false_or]
      unfold finish ratioExceeds
      by_cases hu : totalU es > 0
      · have hc : totalC es > 0 := by
          unfold totalC; apply sumC_pos
          · intro e he hz; exact hall e he (Or.inr (Or.inl hz))
          · exact hu
        have hc' : ¬ (totalC es = 0) := by omega
        simp only [hu, ↓reduceIte, beq_iff_eq, hc', decide_eq_true_eq, hc, true_and]
        split <;> simp [*]
      · have hu0 : totalU es = 0 := by omega
        simp [hu0]

/-- **C11 (exactness, reject side).** The guard raises the ZIP-bomb error exactly when the entry
    count, a single or the total uncompressed size, or a per-entry or total compression ratio
    exceeds its limit, or a non-empty entry claims zero compressed size — boundary values
    included (all inequalities are the strict ones of `Bomb`). -/
theorem C11_exact (lim : Limits) (es : List Entry) :
    (∃ r, validate lim (some es) = .error r) ↔ Bomb lim es := by
  have h := accept_iff lim es
  cases hv : validate lim (some es) with
  | ok u =>
    cases u
    rw [hv] at h
    have hn : ¬ Bomb lim es := h.mp rfl
    simp [hn]
  | error r =>
    rw [hv] at h
    have hb : Bomb lim es := Classical.not_not.mp (fun hn => absurd (h.mpr hn) (by simp))
    simp [hb]

/-! ## Directory entry = the NAME ends with '/'; no other field of a record is consulted
(`Props/C11_Fields.lean`: `dir_is_trailing_slash`, `is_directory_src`, `C11_other_fields_ignored(_src)`) -/

/-- **C11 (a file member counts whatever its attributes say).** A record whose name does not end with
    '/' and which violates a per-entry limit makes every container that holds it a bomb — for every value
    of the external attributes (MS-DOS directory bit 0x10, unix `S_IFDIR` mode), creating system, flag
    bits, compression method, extra field, CRC, date and comment. -/
theorem C11_file_counted_whatever_attrs (lim : Limits) (pre post : List CdRecord) (r : CdRecord)
    (hn : nameIsDir r.filename = false) (hb : EntryBad lim (Entry.ofRecord r)) :
    ∃ reason, validate lim (some ((pre ++ r :: post).map Entry.ofRecord)) = .error reason := by
  rw [C11_exact]
  right; left
  exact ⟨Entry.ofRecord r, by simp, hn, hb⟩

/-- … and its size counts towards the totals: two containers that differ only in fields other than
    (file_size, compress_size, trailing slash of the name) are both bombs or both not. -/
theorem C11_bomb_depends_on_core_only (lim : Limits) (rs rs' : List CdRecord)
    (h : rs.map S2T.C11.Fields.core = rs'.map S2T.C11.Fields.core) :
    Bomb lim (rs.map Entry.ofRecord) ↔ Bomb lim (rs'.map Entry.ofRecord) := by
  rw [← C11_exact, ← C11_exact, S2T.C11.Fields.C11_other_fields_ignored lim rs rs' h]

/-- attributes of `ZipInfo` / `ZipFile` objects the guard module may consult -/
def allowedZipAttrs : List String := ["infolist", "is_dir", "filename", "file_size", "compress_size", "close"]

/-- **generated from the AST of the current `zip_bomb.py`**: no function of the guard module touches any
    other attribute of a `ZipInfo` / `ZipFile` (external_attr, create_system, flag_bits, compress_type,
    extra, CRC, date_time, comment, namelist, NameToInfo, …), by attribute access or `getattr`/`hasattr`. -/
theorem C11_fields_consulted :
    S2T.Gen.ZipBomb.zipAttrsConsulted.all (fun p => allowedZipAttrs.contains p.2) = true := by decide

example : nameIsDir S2T.C11.Fields.dosDirFile.filename = false
    ∧ EntryBad ⟨5, 10000, 1000, ⟨200, 1⟩, ⟨500, 1⟩⟩ (Entry.ofRecord S2T.C11.Fields.dosDirFile) := by
  refine ⟨by decide, Or.inl (by decide)⟩

/-- a container whose central directory cannot be listed is rejected with the same error -/
theorem C11_inspect_failure (lim : Limits) : validate lim none = .error .inspectFailed := rfl

/-- the last raise of `validate_zipfile` (`total_compressed <= 0`) can never fire: a positive
    total with zero compressed total needs an entry the per-entry clause has already rejected. -/
theorem loop_never_total_zero (lim : Limits) : ∀ (es : List Entry) (tu tc : Nat),
    loop lim tu tc es ≠ .error .totalZeroCompressed := by
  intro es
  induction es with
  | nil => intro tu tc; simp [loop]
  | cons e es ih =>
    intro tu tc
    unfold loop
    cases hs : step lim tu tc e with
    | error r =>
      intro h
      have hr : r = .totalZeroCompressed := by injection h
      subst hr
      unfold step at hs
      repeat (first | (split at hs) | cases hs)
    | ok q => exact ih _ _

theorem total_zero_unreachable (lim : Limits) (infos : Option (List Entry)) :
    validate lim infos ≠ .error .totalZeroCompressed := by
  cases infos with
  | none => simp [validate]
  | some es =>
    unfold validate
    by_cases hlen : es.length > lim.maxEntries
    · simp [hlen]
    · simp only [hlen, ↓reduceIte]
      cases hl : loop lim 0 0 es with
      | error r =>
        intro h
        have hr : r = .totalZeroCompressed := by injection h
        subst hr
        exact loop_never_total_zero lim es 0 0 hl
      | ok p =>
        obtain ⟨hall, _, hp⟩ := (loop_ok_iff lim es 0 0 p (Nat.zero_le _)).mp hl
        subst hp
        simp only [Nat.zero_add]
        unfold finish
        by_cases hu : totalU es > 0
        · have hc : totalC es > 0 := by
            unfold totalC; apply sumC_pos
            · intro e he hz; exact hall e he (Or.inr (Or.inl hz))
            · exact hu
          have hc' : ¬ (totalC es = 0) := by omega
          simp only [hu, ↓reduceIte, beq_iff_eq, hc']
          split
          · intro h; cases h
          · intro h; cases h
        · simp [hu]

/-! ## Directory entries are ignored -/

/-- the loop over all entries equals the loop over the non-directory entries -/
theorem loop_files (lim : Limits) (es : List Entry) : ∀ tu tc, loop lim tu tc es = loop lim tu tc (files es) := by
  induction es with
  | nil => intro tu tc; rfl
  | cons e es ih =>
    intro tu tc
    by_cases hd : e.isDir = true
    · rw [files_cons_dir e es hd]
      simp only [loop, step_dir lim tu tc e hd]
      exact ih tu tc
    · have hd' : e.isDir = false := by simpa using hd
      rw [files_cons_file e es hd']
      unfold loop
      cases step lim tu tc e with
      | error r => rfl
      | ok q => exact ih _ _

/-- **C11 (directories).** Whatever sizes directory entries claim, they do not influence the
    verdict: rewriting the directory entries by any `f` that keeps them directories changes nothing. -/
theorem C11_dirs_ignored (lim : Limits) (es : List Entry) (f : Entry → Entry)
    (hf : ∀ e, e.isDir = true → (f e).isDir = true) :
    validate lim (some (es.map (fun e => if e.isDir then f e else e))) = validate lim (some es) := by
  have hfiles : files (es.map (fun e => if e.isDir then f e else e)) = files es := by
    induction es with
    | nil => rfl
    | cons e es ih =>
      by_cases hd : e.isDir = true
      · simp only [List.map_cons, hd, ↓reduceIte]
        rw [files_cons_dir _ _ (hf e hd), files_cons_dir e es hd]; exact ih
      · have hd' : e.isDir = false := by simpa using hd
        simp only [List.map_cons, hd', Bool.false_eq_true, ↓reduceIte]
        rw [files_cons_file e _ hd', files_cons_file e es hd', ih]
  unfold validate
  simp only [List.length_map]
  rw [loop_files lim (es.map _), hfiles, ← loop_files lim es]

/-- … and below the entry-count limit the verdict is that of the container without its directory
    entries.  (Directory entries *do* count towards `max_entries`: `len(infos)` is taken before the
    loop — see `count_includes_dirs`.) -/
theorem C11_dirs_dropped (lim : Limits) (es : List Entry) (h : es.length ≤ lim.maxEntries) :
    validate lim (some es) = validate lim (some (files es)) := by
  have h2 : (files es).length ≤ lim.maxEntries := Nat.le_trans (List.length_filter_le _ _) h
  unfold validate
  have e1 : ¬ es.length > lim.maxEntries := by omega
  have e2 : ¬ (files es).length > lim.maxEntries := by omega
  simp only [e1, e2, ↓reduceIte]
  rw [loop_files lim es]

/-- boundary of the entry count, any limits: a container of directory entries only is accepted
    exactly up to `max_entries` records -/
theorem entry_count_boundary (lim : Limits) (es : List Entry) (h : ∀ e ∈ es, e.isDir = true) :
    validate lim (some es) = .ok () ↔ es.length ≤ lim.maxEntries := by
  rw [accept_iff]
  have hf : files es = [] := by
    unfold files
    rw [List.filter_eq_nil_iff]
    intro e he; simp [h e he]
  unfold Bomb totalU totalC
  rw [hf]
  simp only [List.map_nil, List.sum_nil, gt_iff_lt, Nat.not_lt_zero, false_and, or_false]
  constructor
  · intro hn; exact Nat.le_of_not_lt (fun hlt => hn (Or.inl hlt))
  · intro hle hb
    rcases hb with hb | ⟨e, he, hd, _⟩
    · omega
    · rw [h e he] at hd; cases hd

/-- the entry count is the number of central-directory records, directories included -/
theorem count_includes_dirs :
    ∃ lim es, Bomb lim es ∧ ¬ Bomb lim (files es) :=
  ⟨⟨1, 10, 10, ⟨2, 1⟩, ⟨2, 1⟩⟩, [⟨0, 0, true⟩, ⟨1, 1, false⟩],
    by unfold Bomb; left; decide,
    by rw [← accept_iff]; decide⟩

/-! ## The validating helper preserves the caller's stream position -/

/-- **C11 (position).** `validate_zip_bytesio` leaves the stream where it found it — on
    acceptance, on rejection and when `zipfile` itself raises; wherever zipfile left the position. -/
theorem C11_position (lim : Limits) (s : Stream) (z : ZipOpen) :
    (validateZipBytesio lim s z).stream.pos = s.pos := by
  unfold validateZipBytesio
  cases z.infolist with
  | none => rfl
  | some infos =>
    simp only
    cases validate lim infos <;> rfl

/-- its verdict is the guard's verdict -/
theorem bytesio_verdict (lim : Limits) (s : Stream) (z : ZipOpen) (infos : Option (List Entry))
    (hz : z.infolist = some infos) :
    (validateZipBytesio lim s z).result = (match validate lim infos with
      | .ok () => .ok () | .error r => .error (.bomb r)) := by
  unfold validateZipBytesio
  rw [hz]
  simp only
  cases validate lim infos <;> rfl

/-! ## Validation precedes every member read -/

/-- **C11 (no handle without validation).** `open_zipfile` hands out a `ZipFile` exactly when the
    constructor succeeded and the guard accepted; on rejection the object is closed again. -/
theorem C11_open_guarded (lim : Limits) (s : Stream) (z : ZipOpen) :
    ((∃ h, (openZipfile lim s z).result = .ok h) ↔
      ∃ infos, z.infolist = some infos ∧ validate lim infos = .ok ()) ∧
    (∀ r, (openZipfile lim s z).result = .error (.bomb r) → (openZipfile lim s z).trace.getLast? = some .close) := by
  unfold openZipfile
  cases hz : z.infolist with
  | none => simp
  | some infos =>
    simp only
    cases hv : validate lim infos with
    | error r => simp [hv]
    | ok u => cases u; simp [hv]

/-- in a trace, every `read` has a successful `validate` somewhere before it -/
def ReadsAfterValidate (tr : List Event) : Prop :=
  ∀ pre post, tr = pre ++ Event.read :: post → Event.validate true ∈ pre

/-- **C11 (order).** A `ZipContext` session — constructor, any number of member reads, close —
    validates before the first read; when the guard rejects (or zipfile raises) there is no read at all. -/
theorem C11_context_order (lim : Limits) (s : Stream) (z : ZipOpen) (reads : Nat) :
    ReadsAfterValidate (zipContextSession lim s z reads).trace ∧
    ((zipContextSession lim s z reads).result ≠ .ok () → Event.read ∉ (zipContextSession lim s z reads).trace) := by
  unfold zipContextSession openZipfile
  cases hz : z.infolist with
  | none =>
    simp only [ReadsAfterValidate]
    refine ⟨?_, by simp⟩
    intro pre post h
    have : Event.read ∈ [Event.seek 0, Event.seek 0] := by rw [h]; simp
    simp at this
  | some infos =>
    simp only
    cases hv : validate lim infos with
    | error r =>
      simp only [ReadsAfterValidate]
      refine ⟨?_, by simp⟩
      intro pre post h
      have : Event.read ∈ [Event.seek 0, Event.seek 0, Event.construct, Event.validate false, Event.close] := by
        rw [h]; simp
      simp at this
    | ok u =>
      cases u
      simp only [ReadsAfterValidate]
      refine ⟨?_, by simp⟩
      intro pre post h
      -- the first four events are not reads, so `pre` contains them
      match pre, h with
      | [], h => simp at h
      | [_], h => simp at h
      | [_, _], h => simp at h
      | [_, _, _], h => simp at h
      | a :: b :: c :: d :: rest, h =>
        simp only [List.cons_append, List.cons.injEq] at h
        obtain ⟨_, _, _, h4, _⟩ := h
        simp [← h4]

/-- meaning of the runtime monitor: if it accepts a log, every member read of a container was
    preceded by a successful validation of (a container with) the same bytes. -/
theorem monitor_sound : ∀ (tr : List Mon) (okd : List Nat), validatedBeforeRead okd tr = true →
    ∀ pre k post, tr = pre ++ Mon.read k :: post → k ∈ okd ∨ Mon.validated k true ∈ pre := by
  intro tr
  induction tr with
  | nil => intro okd _ pre k post h; simp at h
  | cons ev tr ih =>
    intro okd hacc pre k post h
    cases pre with
    | nil =>
      simp only [List.nil_append, List.cons.injEq] at h
      obtain ⟨h1, _⟩ := h
      subst h1
      simp only [validatedBeforeRead, Bool.and_eq_true] at hacc
      left; simpa using hacc.1
    | cons p pre =>
      simp only [List.cons_append, List.cons.injEq] at h
      obtain ⟨h1, h2⟩ := h
      subst h1
      cases ev with
      | construct k' =>
        simp only [validatedBeforeRead] at hacc
        rcases ih okd hacc pre k post h2 with h | h
        · left; exact h
        · right; exact List.mem_cons_of_mem _ h
      | read k' =>
        simp only [validatedBeforeRead, Bool.and_eq_true] at hacc
        rcases ih okd hacc.2 pre k post h2 with h | h
        · left; exact h
        · right; exact List.mem_cons_of_mem _ h
      | validated k' b =>
        cases b with
        | false =>
          simp only [validatedBeforeRead] at hacc
          rcases ih okd hacc pre k post h2 with h | h
          · left; exact h
          · right; exact List.mem_cons_of_mem _ h
        | true =>
          simp only [validatedBeforeRead] at hacc
          rcases ih (k' :: okd) hacc pre k post h2 with h | h
          · rcases List.mem_cons.mp h with h | h
            · right; subst h; simp
            · left; exact h
          · right; exact List.mem_cons_of_mem _ h

/-! ## Closed world: every place of the package that opens a ZIP container -/

/-- files whose raw `zipfile.ZipFile(...)` calls *are* the sanctioned guard (they must be followed by
    `validate_zipfile`) -/
def guardFiles : List (List Char) := ["sharepoint2text/parsing/extractors/util/zip_bomb.py".toList]
/-- generic archives (.zip/.tar/.7z) are not ZIP-container *documents*; their confinement and cost
    are C09/C12 -/
def archiveFiles : List (List Char) := ["sharepoint2text/parsing/extractors/archive_extractor.py".toList]

/-- a site is accounted for: it is a validating call; or a raw open inside the guard module that
    is immediately validated; or a raw open / `load_workbook` that a validating call dominates in its
    function; or one whose every caller is so dominated; or it sits in a private function nothing
    refers to (dead code).  The archive extractor is outside the property. -/
def siteOk (s : Site) : Bool :=
  match s.kind with
  | .openZipfile | .validateBytesio => true
  | .zipContext => s.dominated
  | .rawZipFile =>
    (guardFiles.contains s.file && s.guardFollows) || archiveFiles.contains s.file
      || s.dominated || s.funcRefs == 0 || s.callersDominated
  | .loadWorkbook => s.dominated || s.funcRefs == 0 || s.callersDominated

/-- **C11 (closed world).** Every call in the package that opens a ZIP container is accounted for. -/
theorem C11_sites_guarded : S2T.Gen.ZipOpenSites.sites.all siteOk = true := by decide +kernel

/-- the guard module really contains the two validating openers, and every container extractor
    family appears in the inventory (the inventory is not empty for the wrong reason) -/
theorem sites_nonempty :
    (S2T.Gen.ZipOpenSites.sites.filter (fun s => guardFiles.contains s.file && s.guardFollows)).length = 2
    ∧ (S2T.Gen.ZipOpenSites.sites.filter (fun s => s.kind == .zipContext || s.kind == .validateBytesio)).length ≥ 9 := by
  decide +kernel

theorem gen_site_notes_empty : S2T.Gen.ZipOpenSites.notes = [] := by decide
theorem gen_limit_notes_empty : S2T.Gen.ZipBomb.notes = [] := by decide

/-- the defaults are the documented ones (50 000 entries, 4 GiB total, 1 GiB per entry, total ratio
    200, entry ratio 500) -/
theorem C11_defaults : S2T.Gen.ZipBomb.defaultLimits =
    { maxEntries := 50000, maxTotal := 4 * 1024 * 1024 * 1024, maxSingle := 1024 * 1024 * 1024,
      totalRatio := ⟨200, 1⟩, entryRatio := ⟨500, 1⟩ } := by decide +kernel

/-- **C11 on the current source.** -/
theorem C11_default_exact (es : List Entry) :
    (∃ r, validate S2T.Gen.ZipBomb.defaultLimits (some es) = .error r) ↔ Bomb S2T.Gen.ZipBomb.defaultLimits es :=
  C11_exact _ es

/-! ## The float comparison of the unpatched source

`validateF rnd` is `validate_zipfile` as the source without `fix-exact-ratio.patch` computes it:
`ratio = size / compressed` rounded to a double by `rnd`, then `ratio > limit`.  The only thing
assumed of CPython's division is `Rounding`: monotone, exact on the limit and on the next double. -/

/-- **C11 (float = exact, any limits).** If both ratio limits pass the decidable arithmetic test
    `FloatOk` (against the size bound checked before the respective ratio test), rounding the
    quotient never changes the verdict — for every container. -/
theorem C11_float_exact (rnd : Rat → Rat) (lim : Limits) (en tn : Ratio)
    (hE : FloatOk lim.maxSingle lim.entryRatio en = true) (hT : FloatOk lim.maxTotal lim.totalRatio tn = true)
    (hrE : Rounding rnd lim.entryRatio.toRat en.toRat) (hrT : Rounding rnd lim.totalRatio.toRat tn.toRat)
    (infos : Option (List Entry)) : validateF rnd lim infos = validate lim infos :=
  validateF_eq rnd lim en tn hE hT hrE hrT infos

/-- the default limits (with their successor doubles, generated by `math.nextafter`) pass the test -/
theorem gen_float_ok :
    FloatOk S2T.Gen.ZipBomb.defaultLimits.maxSingle S2T.Gen.ZipBomb.defaultLimits.entryRatio S2T.Gen.ZipBomb.entryRatioNext = true
    ∧ FloatOk S2T.Gen.ZipBomb.defaultLimits.maxTotal S2T.Gen.ZipBomb.defaultLimits.totalRatio S2T.Gen.ZipBomb.totalRatioNext = true := by
  decide +kernel

open S2T.Gen.ZipBomb in
/-- **C11 (float = exact, default limits).** With `DEFAULT_ZIP_BOMB_LIMITS` the unpatched float
    guard and the exact guard give the same verdict on every container: the patch changes nothing
    for default-configured callers, and `C11_default_exact` holds for the unpatched source as well. -/
theorem C11_default_float_exact (rnd : Rat → Rat)
    (hrE : Rounding rnd defaultLimits.entryRatio.toRat entryRatioNext.toRat)
    (hrT : Rounding rnd defaultLimits.totalRatio.toRat totalRatioNext.toRat)
    (infos : Option (List Entry)) : validateF rnd defaultLimits infos = validate defaultLimits infos :=
  C11_float_exact rnd defaultLimits entryRatioNext totalRatioNext gen_float_ok.1 gen_float_ok.2 hrE hrT infos

/-- limits under which the unpatched source is *not* exact: per-entry sizes up to 2^62 allowed -/
def bigLimits : Limits :=
  { S2T.Gen.ZipBomb.defaultLimits with maxSingle := 2 ^ 62, maxTotal := 2 ^ 63, totalRatio := ⟨10 ^ 9, 1⟩ }
/-- one entry of 500·2^45 + 1 bytes claiming 2^45 compressed bytes: ratio 500 + 2^-45 > 500 -/
def floatWitness : List Entry := [⟨500 * 2 ^ 45 + 1, 2 ^ 45, false⟩]

/-- **Counterexample (unpatched source).** Full statement that fails without the patch:
    `∀ rnd lim infos, Rounding … → validateF rnd lim infos = validate lim infos`.
    With per-entry sizes beyond 2^53/limit allowed, a rounding that satisfies everything assumed of
    float division accepts a container whose entry ratio exceeds the limit; `FloatOk` is exactly
    what excludes it.  Reproduced on the real code: `validate_zipfile` (unpatched) accepts
    `file_size = 500·2^45+1, compress_size = 2^45` under `max_entry_compression_ratio = 500.0`. -/
theorem float_rounding_counterexample :
    let rnd := roundDown bigLimits.entryRatio.toRat S2T.Gen.ZipBomb.entryRatioNext.toRat
    Rounding rnd bigLimits.entryRatio.toRat S2T.Gen.ZipBomb.entryRatioNext.toRat
    ∧ validateF rnd bigLimits (some floatWitness) = .ok ()
    ∧ validate bigLimits (some floatWitness) = .error .entryRatio
    ∧ FloatOk bigLimits.maxSingle bigLimits.entryRatio S2T.Gen.ZipBomb.entryRatioNext = false := by
  refine ⟨roundDown_rounding _ _, ?_, ?_, ?_⟩ <;> decide +kernel

/-- the exact test of the model is the comparison of the rationals `size/csize > num/den` -/
theorem ratio_test_meaning (a b : Nat) (L : Ratio) (hb : 0 < b) (hd : 0 < L.den) :
    ratioExceeds a b L = true ↔ L.toRat < (a : Rat) / (b : Rat) := ratioExceeds_iff_rat a b L hb hd

/-! ## Non-vacuity and boundary values (default limits) -/
section examples
open S2T.Gen.ZipBomb

-- exactly at a limit: accepted; one above: rejected
example : validate defaultLimits (some [⟨1073741824, 1073741824, false⟩]) = .ok () := by decide +kernel
example : validate defaultLimits (some [⟨1073741825, 1073741825, false⟩]) = .error .entryTooLarge := by decide +kernel
example : validate defaultLimits (some [⟨500, 1, false⟩, ⟨1, 1000, false⟩]) = .ok () := by decide +kernel
example : validate defaultLimits (some [⟨501, 1, false⟩, ⟨1, 1000, false⟩]) = .error .entryRatio := by decide +kernel
example : validate defaultLimits (some [⟨400, 1, false⟩, ⟨0, 1, false⟩]) = .ok () := by decide +kernel
example : validate defaultLimits (some [⟨401, 1, false⟩, ⟨0, 1, false⟩]) = .error .totalRatio := by decide +kernel
example : validate defaultLimits (some (List.replicate 4 ⟨1073741824, 1073741824, false⟩)) = .ok () := by decide +kernel
example : validate defaultLimits (some (⟨1, 1, false⟩ :: List.replicate 4 ⟨1073741824, 1073741824, false⟩))
    = .error .totalTooLarge := by decide +kernel
example : validate defaultLimits (some [⟨1, 0, false⟩]) = .error .entryZeroCompressed := by decide +kernel
example : validate defaultLimits (some [⟨0, 0, false⟩]) = .ok () := by decide +kernel
example : validate defaultLimits (some [⟨99999999999, 0, true⟩, ⟨5, 5, false⟩]) = .ok () := by decide +kernel
example (es : List Entry) (h : ∀ e ∈ es, e.isDir = true) :
    validate defaultLimits (some es) = .ok () ↔ es.length ≤ 50000 := entry_count_boundary _ es h
-- `Bomb` is satisfiable and refutable
example : Bomb defaultLimits [⟨501, 1, false⟩] := by
  unfold Bomb; right; left; exact ⟨_, List.mem_singleton.mpr rfl, rfl, by unfold EntryBad; decide⟩
example : ¬ Bomb defaultLimits [⟨200, 1, false⟩, ⟨7, 7, true⟩] := by rw [← accept_iff]; decide +kernel
-- the hypothesis of `C11_dirs_ignored` is satisfiable by a non-trivial rewrite
example : ∀ e : Entry, e.isDir = true → (({ e with fileSize := 2 ^ 64, compressSize := 0 } : Entry)).isDir = true :=
  fun _ h => h
-- the monitor accepts a validated read and rejects an unvalidated one
example : validatedBeforeRead [] [.construct 7, .validated 7 true, .construct 7, .read 7] = true := by decide
example : validatedBeforeRead [] [.construct 7, .read 7, .validated 7 true] = false := by decide
example : validatedBeforeRead [] [.construct 7, .validated 7 false, .read 7] = false := by decide
example : validatedBeforeRead [] [.validated 8 true, .read 7] = false := by decide
-- `Rounding` is satisfiable: by exact arithmetic, and by a rounding that really moves values
example (L Lp : Rat) : Rounding (fun x => x) L Lp := ⟨fun _ _ h => h, rfl, rfl⟩
example : Rounding (roundDown 500 (500 + 1 / 2 ^ 44)) 500 (500 + 1 / 2 ^ 44) := roundDown_rounding _ _
example : roundDown 500 (500 + 1 / 2 ^ 44) (500 + 1 / 2 ^ 45) = 500 := by decide +kernel
example : ratioExceeds 501 1 ⟨500, 1⟩ = true ∧ (0 < 1) ∧ (0 < (⟨500, 1⟩ : Ratio).den) := by decide
end examples

/-! ## The translated source function itself (end to end)

`Props/C11_Src.lean` proves the `validate_zipfile` re-translated from `zip_bomb.py` on every run equal
to the hand model; composed with `accept_iff`, exactness is a statement about the function **as the
source has it now**: it returns exactly for the central directories that are not bombs, and whatever it
raises is `ExtractionZipBombError`, raised for a bomb. -/
section src
open S2T.Py S2T.Gen.PyZipBomb S2T.C11.Src


theorem floatSafe_defaults : FloatSafe S2T.Gen.ZipBomb.defaultLimits := by
  have h : (2:Nat) ^ 33 ≤ 2 ^ 1023 := Nat.pow_le_pow_right (by decide) (by decide)
  constructor <;> (simp only [fmax]; exact Nat.lt_of_lt_of_le (by decide) h)

/-- **C11 at the source level (exactness).** -/
theorem C11_src_exact (lim : Limits) (src : Option Py.Str) (infos : List ZipInfo) (hs : FloatSafe lim) :
    (validate_zipfile ⟨pure infos⟩ lim src = .ok () ↔ ¬ Bomb lim (infos.map entryOf)) ∧
    (∀ e, validate_zipfile ⟨pure infos⟩ lim src = .error e →
        e.cls = "ExtractionZipBombError" ∧ Bomb lim (infos.map entryOf)) := by
  rw [validate_zipfile_eq lim src infos hs]
  have ha := accept_iff lim (infos.map entryOf)
  cases hv : validate lim (some (infos.map entryOf)) with
  | ok u =>
    cases u
    rw [hv] at ha
    refine ⟨by simpa using ha, ?_⟩
    intro e he; simp [lift, pure, Except.pure] at he
  | error r =>
    rw [hv] at ha
    have hb : Bomb lim (infos.map entryOf) := by
      have : ¬ ¬ Bomb lim (infos.map entryOf) := fun h => by simpa using ha.mpr h
      exact Classical.not_not.mp this
    refine ⟨?_, ?_⟩
    · simp [lift, throw, throwThe, MonadExceptOf.throw, hb]
    · intro e he
      simp only [lift_error, Except.error.injEq] at he
      subst he
      exact ⟨rfl, hb⟩

/-- **C11 on the current source, documented defaults.** -/
theorem C11_src_default_exact (src : Option Py.Str) (infos : List ZipInfo) :
    validate_zipfile ⟨pure infos⟩ S2T.Gen.ZipBomb.defaultLimits src = .ok ()
      ↔ ¬ Bomb S2T.Gen.ZipBomb.defaultLimits (infos.map entryOf) :=
  (C11_src_exact _ src infos floatSafe_defaults).1

/-- **C11 at the source level (directories, names, order of attributes do not matter).** Two central
    directories whose file entries have the same sizes get the same verdict from the translated function,
    whatever the entry names are. -/
theorem C11_src_names_ignored (lim : Limits) (src src' : Option Py.Str) (infos infos' : List ZipInfo)
    (hs : FloatSafe lim) (h : infos.map entryOf = infos'.map entryOf) :
    validate_zipfile ⟨pure infos⟩ lim src = validate_zipfile ⟨pure infos'⟩ lim src' := by
  rw [validate_zipfile_eq lim src infos hs, validate_zipfile_eq lim src' infos' hs, h]

/-! ### Non-vacuity of the source-level statements -/
example : validate_zipfile ⟨pure [⟨"a".toList, 10, 1, false⟩, ⟨"d/".toList, 0, 0, true⟩]⟩
    S2T.Gen.ZipBomb.defaultLimits none = .ok () := by decide +kernel
example : Bomb S2T.Gen.ZipBomb.defaultLimits ([⟨"a".toList, 600, 1, false⟩].map entryOf) := by
  have h := C11_src_default_exact none [⟨"a".toList, 600, 1, false⟩]
  have hne : validate_zipfile ⟨pure [⟨"a".toList, 600, 1, false⟩]⟩ S2T.Gen.ZipBomb.defaultLimits none ≠ .ok () := by
    decide +kernel
  exact Classical.not_not.mp (fun hnb => hne (h.mpr hnb))
example : ([⟨"a".toList, 600, 1, false⟩] : List ZipInfo).map entryOf
    = [⟨"other-name".toList, 600, 1, false⟩].map entryOf := rfl

end src

end S2T.C11
