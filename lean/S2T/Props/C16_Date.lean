import S2T.Model.MailDate
import S2T.Gen.Mail
/-!
# C16 (part) — the ISO date is the date-time the Date header denotes, offset exactly as written

`parse_email_message` returns `parsedate_to_datetime(decode_header_value(message.get("Date"))).isoformat()`.
For every date, time of day and zone (RFC 5322 years, i.e. >= 1900):

* the canonical header `Www, DD Mon YYYY HH:MM:SS ±HHMM` yields `YYYY-MM-DDTHH:MM:SS±HH:MM` with the SAME local time
  and the SAME offset (`C16_date_exact`, `C16_date_offset_as_written`) — no conversion to another zone;
* the zone `-0000` ("UTC, nothing known about the local zone", what `email.utils.formatdate()` writes) yields the
  naive ISO text without any offset (`C16_date_minus_zero_naive`), and that text differs from the one of `+0000`
  (`C16_date_zero_zones_differ`);
* the ISO text loses nothing: it determines all fields and the offset (`C16_date_iso_injective`);
* a value `datetime` rejects is rejected, never replaced (`C16_date_rejects`).

Tie to the current source (`tools/gen/mail.py`, re-decided on every run): the expression bound to
`EmailMetadata(date=…)` in both extractors, the run-time identity of the functions it names, and the result of the
running `parse_email_message` on canonical Date headers (`-0000`, `+0000`, non-zero offsets, leap day, the year
window 0068/0069) — recomputed here with the model (`gen_date_probe`).
-/
namespace S2T.C16.Date
open S2T.MailDate

/-! ## Tie to the current source -/

/-- the date of the result is, in the mbox extractor, the stdlib's `parsedate_to_datetime` of the decoded `Date`
    header printed by `isoformat()` — no other parser in front of it, nothing after it; in the .eml extractor
    mailparser's `date` printed by `isoformat()` (or empty when there is none) -/
theorem gen_date :
    S2T.Gen.Mail.dateExprs =
      [("mbox", ["parsedate_to_datetime(decode_header_value(message.get('Date'))).isoformat()"]),
       ("eml", ["''", "mail.date.isoformat()"])] ∧
    S2T.Gen.Mail.dateCallees =
      [("parsedate_to_datetime", "email.utils.parsedate_to_datetime"),
       ("decode_header_value", "sharepoint2text.parsing.extractors.mail.mbox_email_extractor.decode_header_value")] := by
  decide

/-- the running `parse_email_message` agrees with the model on every probe header (at least 6 of them, `-0000` and
    `+0000` among them) -/
theorem gen_date_probe :
    (S2T.Gen.Mail.dateProbe.all fun p =>
      match isoOfHeader p.1.toList with
      | .ok r => r == p.2.toList
      | .error _ => false) = true ∧
    6 ≤ S2T.Gen.Mail.dateProbe.length ∧
    (S2T.Gen.Mail.dateProbe.map (·.1)).contains "Fri, 05 Jan 2024 10:00:00 -0000" = true ∧
    (S2T.Gen.Mail.dateProbe.map (·.1)).contains "Fri, 05 Jan 2024 10:00:00 +0000" = true := by
  decide +kernel

/-! ## Theorems -/

private theorem digitVal_digit : ∀ k, k < 10 → digitVal? (digit k) = some k := by decide

private theorem num2_pad (n : Nat) (h : n < 100) : num2 (digit (n / 10)) (digit (n % 10)) = some n := by
  have h1 := digitVal_digit (n / 10) (by omega)
  have h2 := digitVal_digit (n % 10) (by omega)
  simp [num2, h1, h2]; omega

private theorem num4_pad (n : Nat) (h : n < 10000) :
    num4 (digit (n / 1000)) (digit (n / 100 % 10)) (digit (n / 10 % 10)) (digit (n % 10)) = some n := by
  have h1 := num2_pad (n / 100) (by omega)
  have h2 := num2_pad (n % 100) (by omega)
  have e1 : n / 100 / 10 = n / 1000 := by omega
  have e2 : n / 100 % 10 = n / 100 % 10 := rfl
  have e3 : n % 100 / 10 = n / 10 % 10 := by omega
  have e4 : n % 100 % 10 = n % 10 := by omega
  rw [e1] at h1; rw [e3, e4] at h2
  simp [num4, h1, h2]; omega

private theorem monthOf_chars : ∀ m, m < 13 → 1 ≤ m →
    monthOf (monthChars m).1 (monthChars m).2.1 (monthChars m).2.2 = some m := by decide

private theorem zoneOf_text_none : zoneOf '-' 0 0 = some none := by decide

/-- reading the canonical form gives back exactly what was written: date, time of day and the zone AS WRITTEN
    (`-0000` = no zone information, distinct from `+0000`) -/
theorem C16_date_parse_render (w1 w2 w3 : Char) (s : Stamp) (h : WF s) (hy : 1900 ≤ s.year) : parseCanonical (render w1 w2 w3 s) = some s := by
  obtain ⟨y, mo, d, hh, mi, sec, z⟩ := s
  obtain ⟨⟨hy1, hy2, hm1, hm2, hd1, hd2, hh1, hmi, hs⟩, hz⟩ := h
  simp only at hy1 hy2 hm1 hm2 hd1 hd2 hh1 hmi hs hz
  have hd3 : d < 100 := by
    have : daysIn y mo ≤ 31 := by unfold daysIn; split <;> (try split) <;> omega
    omega
  have nd := num2_pad d hd3
  have nh := num2_pad hh (by omega)
  have nmi := num2_pad mi (by omega)
  have ns := num2_pad sec (by omega)
  have ny := num4_pad y (by omega)
  have nm := monthOf_chars mo (by omega) hm1
  have hyr : yearOf y = y := by simp only at hy; unfold yearOf; split <;> (try split) <;> omega
  cases z with
  | none =>
    have n00 : num2 '0' '0' = some 0 := by decide
    simp [render, parseCanonical, pad2, pad4, zoneText, nd, nh, nmi, ns, ny, nm, n00, zoneOf, hyr]
  | some z =>
    have hz' : z.natAbs < 1440 := hz
    have hA : z.natAbs / 60 < 100 := by omega
    have hB : z.natAbs % 60 < 60 := by omega
    have hAB : 60 * (z.natAbs / 60) + z.natAbs % 60 = z.natAbs := by omega
    simp only [render, zoneText]
    generalize z.natAbs / 60 = A at *
    generalize z.natAbs % 60 = B at *
    have nzh := num2_pad A (by omega)
    have nzm := num2_pad B (by omega)
    simp [parseCanonical, pad2, pad4, nd, nh, nmi, ns, ny, nm, nzh, nzm, hyr]
    by_cases hneg : z < 0
    · have hne : ¬ (A = 0 ∧ B = 0) := by omega
      have hval : -(60 * (A : Int) + (B : Int)) = z := by omega
      simp [hneg, zoneOf, hne, hval]
    · have hval : 60 * (A : Int) + (B : Int) = z := by omega
      simp [hneg, zoneOf, hval]

/-- the ISO text determines the date, the time of day and the offset (or its absence) -/
theorem C16_date_iso_roundtrip (s : Stamp) (h : WF s) : parseIso (iso s) = some s := by
  obtain ⟨y, mo, d, hh, mi, sec, z⟩ := s
  obtain ⟨⟨hy1, hy2, hm1, hm2, hd1, hd2, hh1, hmi, hs⟩, hz⟩ := h
  simp only at hy1 hy2 hm1 hm2 hd1 hd2 hh1 hmi hs hz
  have hd3 : d < 100 := by
    have : daysIn y mo ≤ 31 := by unfold daysIn; split <;> (try split) <;> omega
    omega
  have nd := num2_pad d hd3
  have nmo := num2_pad mo (by omega)
  have nh := num2_pad hh (by omega)
  have nmi := num2_pad mi (by omega)
  have ns := num2_pad sec (by omega)
  have ny := num4_pad y (by omega)
  cases z with
  | none => simp [iso, isoLocal, isoOffset, parseIso, parseIsoLocal, pad2, pad4, nd, nmo, nh, nmi, ns, ny]
  | some z =>
    have hz' : z.natAbs < 1440 := hz
    have hA : z.natAbs / 60 < 100 := by omega
    have hB : z.natAbs % 60 < 60 := by omega
    have hAB : 60 * (z.natAbs / 60) + z.natAbs % 60 = z.natAbs := by omega
    simp only [iso, isoLocal, isoOffset]
    generalize z.natAbs / 60 = A at *
    generalize z.natAbs % 60 = B at *
    have nzh := num2_pad A (by omega)
    have nzm := num2_pad B (by omega)
    simp [parseIso, parseIsoLocal, pad2, pad4, nd, nmo, nh, nmi, ns, ny, nzh, nzm]
    by_cases hneg : z < 0
    · have hval : -(60 * (A : Int) + (B : Int)) = z := by omega
      simp [hneg, offsetOf, hval]
    · have hval : 60 * (A : Int) + (B : Int) = z := by omega
      simp [hneg, offsetOf, hval]

theorem C16_date_iso_injective (a b : Stamp) (ha : WF a) (hb : WF b) (h : iso a = iso b) : a = b := by
  have h1 := C16_date_iso_roundtrip a ha
  have h2 := C16_date_iso_roundtrip b hb
  rw [h] at h1
  rw [h1] at h2
  exact Option.some.inj h2

theorem C16_date_exact (w1 w2 w3 : Char) (s : Stamp) (h : WF s) (hy : 1900 ≤ s.year) :
    isoOfHeader (render w1 w2 w3 s) = .ok (iso s) := by
  simp [isoOfHeader, C16_date_parse_render w1 w2 w3 s h hy, isoChecked, h.1, h.2]

theorem C16_date_minus_zero_naive (w1 w2 w3 : Char) (s : Stamp) (h : WF s) (hy : 1900 ≤ s.year) (hz : s.zone = none) :
    isoOfHeader (render w1 w2 w3 s) = .ok (isoLocal s) ∧ (isoLocal s).length = 19 := by
  rw [C16_date_exact w1 w2 w3 s h hy]
  simp [iso, hz, isoOffset, isoLocal, pad2, pad4]

theorem C16_date_offset_as_written (w1 w2 w3 : Char) (s : Stamp) (h : WF s) (hy : 1900 ≤ s.year) (z : Int) (hz : s.zone = some z) :
    isoOfHeader (render w1 w2 w3 s) =
      .ok (isoLocal s ++ [if z < 0 then '-' else '+'] ++ pad2 (z.natAbs / 60) ++ [':'] ++ pad2 (z.natAbs % 60)) := by
  rw [C16_date_exact w1 w2 w3 s h hy]
  simp [iso, hz, isoOffset]

theorem C16_date_zero_zones_differ (s : Stamp) : iso { s with zone := some 0 } ≠ iso { s with zone := none } := by
  intro h
  have := congrArg List.length h
  simp [iso, isoOffset, isoLocal, pad2, pad4] at this

theorem C16_date_tuple (y mo d h mi sec : Nat) (z : Int) :
    ofTuple y mo d h mi sec (some (60 * z)) = isoChecked ⟨y, mo, d, h, mi, sec, some z⟩ ∧
    ofTuple y mo d h mi sec none = isoChecked ⟨y, mo, d, h, mi, sec, none⟩ := by
  constructor
  · simp [ofTuple]
  · simp [ofTuple]

theorem C16_date_rejects (s : Stamp) : (isoChecked s).isOk = true ↔ WF s := by
  unfold isoChecked WF
  by_cases h1 : FieldsOk s <;> by_cases h2 : ZoneOk s.zone <;> simp [h1, h2, Except.isOk, Except.toBool]

/-- the hypotheses are satisfiable: a leap day with the zone `-0000`, and a negative half-hour offset -/
example : WF ⟨2024, 2, 29, 23, 59, 59, none⟩ ∧ 1900 ≤ (⟨2024, 2, 29, 23, 59, 59, none⟩ : Stamp).year := by decide
example : isoOfHeader (render 'T' 'h' 'u' ⟨2024, 2, 29, 23, 59, 59, none⟩) = .ok "2024-02-29T23:59:59".toList := by rfl
example : isoOfHeader (render 'T' 'h' 'u' ⟨2024, 2, 29, 23, 59, 59, some (-210)⟩) = .ok "2024-02-29T23:59:59-03:30".toList := by
  rfl
example : render 'F' 'r' 'i' ⟨2024, 1, 5, 10, 0, 0, none⟩ = "Fri, 05 Jan 2024 10:00:00 -0000".toList := by decide
/-- `datetime` refuses the 30th of February and an offset of 24 hours -/
example : isoOfHeader "Fri, 30 Feb 2024 10:00:00 +0000".toList = .error .fieldRange := by rfl
example : isoOfHeader "Fri, 05 Jan 2024 10:00:00 +2400".toList = .error .zoneRange := by rfl

end S2T.C16.Date
