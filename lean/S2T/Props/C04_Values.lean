import S2T.Model.IfaceLength
import S2T.Gen.IfaceTotal
/-!
# C04 (values as the file spells them) — accessors that CONVERT a stored value when called never raise

An extractor may store an attribute of the file verbatim and convert it only when the caller asks
(`OpenDocumentImage.get_metadata()`: `svg:width="2.5cm"` → pixels).  The file decides the string: any unit, any
number of digits, any garbage.  For EVERY string, every host float arithmetic and every list of convertible units:

* the conversion returns `None` or an `int` and never raises, PROVIDED a unit without conversion ends in
  `return None` and a non-finite value is excluded before `int(round(..))` (`length_never_raises`); both provisos are
  facts about the source, regenerated on every run (`length_cfg_current`);
* without the first proviso a well-formed length with an unknown unit (`12em`) raises `KeyError`, without the second
  a 400-digit length raises `OverflowError` (counterexample theorems; the second one is the behaviour of the library
  before `fix-odf-length-overflow.patch`);
* `get_metadata()` reports a width / height that is `None` or positive.

Tie to the source: `partial_ops_accounted` — the inventory of EVERY operation that can raise inside the accessors of
data_types and the functions they call (subscripts, int / float / round, next / max / min without default, pop,
match.group, division, codecs, raise), regenerated from the AST, contains no operation without a guard the source
shows, except the reviewed ones below.  A new lookup, conversion or division in an accessor breaks it.
-/
namespace S2T.C04.Values
open S2T.Iface.Length
open S2T.Gen

private theorem mem_takeWhile {α} (p : α → Bool) (l : List α) (a : α) (h : a ∈ l.takeWhile p) : p a = true := by
  induction l with
  | nil => simp at h
  | cons x xs ih =>
    by_cases hx : p x = true
    · simp only [List.takeWhile_cons, hx, if_true, List.mem_cons] at h
      rcases h with rfl | h
      · exact hx
      · exact ih h
    · simp [hx] at h

private theorem tail_sound (cl : Classes) (d : List Char) (f : Option (List Char)) (r : List Char) (p : Parsed)
    (h : parseTail cl d f r = some p) : p.intDigits = d ∧ p.fracDigits = f ∧ ∀ c ∈ p.unit, asciiAlpha c = true := by
  unfold parseTail at h
  simp only at h
  split at h
  · injection h with h
    subst h
    exact ⟨rfl, rfl, fun c hc => mem_takeWhile _ _ c hc⟩
  · cases h

/-- whatever the regular expression accepts: group 1 is a non-empty digit string with an optional `.digits` part
    (so `float(match.group(1))` cannot raise), group 2 consists of ASCII letters only -/
theorem parse_sound (cl : Classes) (s : List Char) (p : Parsed) (h : parseLength cl s = some p) :
    p.intDigits ≠ [] ∧ (∀ c ∈ p.intDigits, cl.digit c = true)
    ∧ (∀ f, p.fracDigits = some f → f ≠ [] ∧ ∀ c ∈ f, cl.digit c = true)
    ∧ (∀ c ∈ p.unit, asciiAlpha c = true) := by
  unfold parseLength at h
  simp only at h
  split at h
  · cases h
  · rename_i hd
    split at h
    · split at h
      · cases h
      · rename_i hf
        obtain ⟨h1, h2, h3⟩ := tail_sound _ _ _ _ _ h
        refine ⟨?_, ?_, ?_, h3⟩
        · rw [h1]; intro e; simp [e] at hd
        · rw [h1]; exact fun c hc => mem_takeWhile _ _ c hc
        · intro f hf'
          rw [h2] at hf'
          injection hf' with hf'
          subst hf'
          exact ⟨by intro e; simp [e] at hf, fun c hc => mem_takeWhile _ _ c hc⟩
    · obtain ⟨h1, h2, h3⟩ := tail_sound _ _ _ _ _ h
      refine ⟨?_, ?_, ?_, h3⟩
      · rw [h1]; intro e; simp [e] at hd
      · rw [h1]; exact fun c hc => mem_takeWhile _ _ c hc
      · intro f hf'; rw [h2] at hf'; cases hf'

/-- the shape of the current source: unknown units fall through to `return None`, non-finite values are excluded -/
def Total (cfg : Cfg) : Prop := cfg.unknown = .returnsNone ∧ cfg.finiteGuard = true

/-- MAIN: for every string the file may spell, every host arithmetic and every unit list, the conversion returns
    (`None` or an int) — it never raises -/
theorem length_never_raises (cl : Classes) (cfg : Cfg) (hc : Total cfg) (h : Host) (len : Option (List Char)) :
    ∃ r, lengthToPx cl cfg h len = .ok r := by
  obtain ⟨hu, hf⟩ := hc
  unfold lengthToPx
  cases len with
  | none => exact ⟨none, rfl⟩
  | some s =>
    simp only
    split
    · exact ⟨none, rfl⟩
    · split
      · exact ⟨none, rfl⟩
      · rename_i p _
        by_cases hfin : h.finite p = true
        · by_cases hm : cfg.units.contains (unitOf p) = true
          · exact ⟨some (h.px p (unitOf p)), by
              simp only [hf, hfin, hm, Bool.not_true, Bool.and_false, Bool.false_eq_true, ↓reduceIte]⟩
          · have hm' : cfg.units.contains (unitOf p) = false := Bool.eq_false_iff.mpr hm
            exact ⟨none, by
              simp only [hf, hfin, hm', hu, Bool.not_true, Bool.and_false, Bool.false_eq_true, ↓reduceIte]⟩
        · simp only [Bool.not_eq_true] at hfin
          simp only [hf, hfin, Bool.not_false, Bool.and_true]
          exact ⟨none, rfl⟩

example : Total ⟨[['p', 'x'], ['c', 'm']], .returnsNone, true⟩ := ⟨rfl, rfl⟩

/-- a well-formed length whose unit has no conversion is `None` (not an error, not a number) -/
theorem length_unknown_unit_is_none (cl : Classes) (cfg : Cfg) (hc : Total cfg) (h : Host) (s : List Char) (p : Parsed)
    (hs : s ≠ []) (hp : parseLength cl s = some p) (hu : cfg.units.contains (unitOf p) = false) :
    lengthToPx cl cfg h (some s) = .ok none := by
  obtain ⟨hk, hf⟩ := hc
  have hs' : s.isEmpty = false := by cases s <;> simp_all
  unfold lengthToPx
  simp only [hs', hp, hu, hk, hf]
  by_cases hfin : h.finite p = true <;> simp [hfin]

/-- a length the expression does not accept, an empty or an absent attribute is `None` -/
theorem length_unparsed_is_none (cl : Classes) (cfg : Cfg) (h : Host) (s : List Char) (hp : parseLength cl s = none) :
    lengthToPx cl cfg h (some s) = .ok none ∧ lengthToPx cl cfg h none = .ok none := by
  refine ⟨?_, rfl⟩
  unfold lengthToPx
  simp only [hp]
  split <;> rfl

/-- `get_metadata()` of the image never raises, whatever the two attributes hold … -/
theorem image_dims_never_raise (cl : Classes) (cfg : Cfg) (hc : Total cfg) (h : Host) (w ht : Option (List Char)) :
    ∃ r, imageDims cl cfg h w ht = .ok r := by
  obtain ⟨a, ha⟩ := length_never_raises cl cfg hc h w
  obtain ⟨b, hb⟩ := length_never_raises cl cfg hc h ht
  exact ⟨(reportDim a, reportDim b), by simp [imageDims, ha, hb]⟩

/-- … and a width / height it reports is positive -/
theorem image_dims_positive (cl : Classes) (cfg : Cfg) (h : Host) (w ht : Option (List Char)) (a b : Option Int)
    (hr : imageDims cl cfg h w ht = .ok (a, b)) : (∀ n, a = some n → n > 0) ∧ (∀ n, b = some n → n > 0) := by
  have key : ∀ (r : Option Int) n, reportDim r = some n → n > 0 := by
    intro r n hn
    unfold reportDim at hn
    split at hn
    · split at hn
      · injection hn with hn; omega
      · cases hn
    · cases hn
  unfold imageDims at hr
  split at hr
  · cases hr
  · split at hr
    · cases hr
    · injection hr with hr
      injection hr with h1 h2
      exact ⟨fun n hn => key _ n (h1 ▸ hn), fun n hn => key _ n (h2 ▸ hn)⟩

/-! ## what happens without the two provisos -/

def asciiClasses : Classes := ⟨fun c => c == ' ' || c == '\t' || c == '\n', fun c => decide ('0' ≤ c) && decide (c ≤ '9')⟩
def anyHost : Host := ⟨fun _ => true, fun _ _ => 16⟩
def overflowHost : Host := ⟨fun p => decide (p.intDigits.length < 300), fun _ _ => 16⟩
def tableUnits : List (List Char) := [['i', 'n'], ['c', 'm'], ['m', 'm'], ['p', 't'], ['p', 'c']]

/-
FULL-STRENGTH STATEMENT for a lookup `TABLE[unit]` (false):
  theorem lookup_never_raises (cl h len) : ∃ r, lengthToPx cl ⟨units, .raises, true⟩ h len = .ok r
-/
/-- with a raising lookup the conversion returns exactly for the lengths whose unit is in the table -/
theorem length_lookup_partial (cl : Classes) (units : List (List Char)) (h : Host) (s : List Char) (p : Parsed)
    (hp : parseLength cl s = some p) (hu : units.contains (unitOf p) = true) :
    ∃ r, lengthToPx cl ⟨units, .raises, true⟩ h (some s) = .ok r := by
  unfold lengthToPx
  simp only [hp, hu]
  split
  · exact ⟨none, rfl⟩
  · by_cases hfin : h.finite p = true <;> simp [hfin]

example : parseLength asciiClasses ['2', '.', '5', 'c', 'm'] = some ⟨['2'], some ['5'], ['c', 'm']⟩ := by decide

/-- counterexample: `svg:width="12em"` — the expression accepts it, the unit is not in the table: `KeyError`
    escapes `get_metadata()`; the fall-through form answers `None` -/
theorem unknown_unit_lookup_counterexample :
    lengthToPx asciiClasses ⟨tableUnits, .raises, true⟩ anyHost (some ['1', '2', 'e', 'm']) = .error .keyError
    ∧ imageDims asciiClasses ⟨tableUnits, .raises, true⟩ anyHost (some ['1', '2', 'e', 'm']) (some ['3', '.', '5', 'e', 'm']) = .error .keyError
    ∧ lengthToPx asciiClasses ⟨tableUnits, .returnsNone, true⟩ anyHost (some ['1', '2', 'e', 'm']) = .ok none
    ∧ lengthToPx asciiClasses ⟨tableUnits, .raises, true⟩ anyHost (some ['2', '.', '5', 'c', 'm']) = .ok (some 16) := by decide

/-- counterexample (the library before fix-odf-length-overflow.patch): a length of 400 digits is accepted by the
    expression, `float` makes it `inf`, `int(round(inf))` raises `OverflowError`; the guarded form answers `None` -/
theorem non_finite_counterexample :
    lengthToPx asciiClasses ⟨[['p', 'x'], ['c', 'm']], .returnsNone, false⟩ overflowHost (some (List.replicate 400 '9' ++ ['c', 'm'])) = .error .overflowError
    ∧ lengthToPx asciiClasses ⟨[['p', 'x'], ['c', 'm']], .returnsNone, true⟩ overflowHost (some (List.replicate 400 '9' ++ ['c', 'm'])) = .ok none := by
  decide +kernel

/-! ## tie to the current source -/

/-- the cross-checks of the generator (AST classification against calling the function) found nothing -/
theorem gen_notes_empty : IfaceTotal.notes = [] := by decide

/-- the current `_odf_length_to_px`: a unit without conversion falls through to `return None`, a non-finite value
    is excluded before `int(round(..))` — the provisos of `length_never_raises` -/
theorem length_cfg_current : IfaceTotal.lengthUnknownUnit = .returnsNone ∧ IfaceTotal.lengthFiniteGuard = true := by decide

/-- the configuration the driver runs the model with is the generated one, and it is total -/
def currentCfg : Cfg :=
  ⟨IfaceTotal.lengthUnits.map String.toList, (if IfaceTotal.lengthUnknownUnit = .returnsNone then .returnsNone else .raises), IfaceTotal.lengthFiniteGuard⟩

theorem current_cfg_total : Total currentCfg := ⟨by decide, by decide⟩

/-- the expression the scanner models -/
theorem length_pattern_current :
    IfaceTotal.lengthPattern = "^\\s*(\\d+(?:\\.\\d+)?)\\s*([a-zA-Z]+)?\\s*$" ∧ IfaceTotal.lengthFlags = 32 := by decide

/-- `_odf_length_to_px` is reachable from the accessors (so its inventory rows are part of `partial_ops_accounted`) -/
theorem length_in_closure : IfaceTotal.accessorClosure.contains "_odf_length_to_px" = true := by decide

/-- operations without a syntactic guard that were read and found safe (function, expression):
    * DocContent `units[-1]`: the loop runs over `self.images if units else []`;
    * DocxContent `self.paragraphs[para_idx]`: `para_idx` ranges over `range(heading_idx + 1, end_idx + 1)` with
      `end_idx ≤ len(self.paragraphs) - 1`; `next_heading_for_index[paragraph_index]`: a list built with one entry
      per paragraph, indexed by the enumerate index of the same list;
    * RtfContent `images_by_page[page]` / `tables_by_page[page]`: the key is inserted by the statement before. -/
def reviewed : List (String × String) := [
  ("DocContent.iterate_units", "units[-1]"),
  ("DocxContent.iterate_units", "next_heading_for_index[paragraph_index]"),
  ("DocxContent.iterate_units", "self.paragraphs[para_idx]"),
  ("RtfContent.iterate_units", "images_by_page[page]"),
  ("RtfContent.iterate_units", "tables_by_page[page]")]

def accounted (o : IfaceTotal.PartialOp) : Bool := o.guard != .unguarded || reviewed.contains (o.fn, o.expr)

/-- CLOSED WORLD: every operation that can raise inside an accessor of data_types (or a function it calls) is
    guarded in the source or one of the reviewed five -/
theorem partial_ops_accounted : IfaceTotal.partialOps.all accounted = true := by decide +kernel

/-- the inventory is not empty (the scan sees the conversions of `_odf_length_to_px`) -/
theorem partial_ops_seen :
    (IfaceTotal.partialOps.filter (fun o => o.fn == "_odf_length_to_px" && o.kind == .convert)).length ≥ 2 := by decide +kernel

end S2T.C04.Values
