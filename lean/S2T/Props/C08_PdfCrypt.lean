import S2T.Model.PdfCrypt
import S2T.Gen.PdfCrypt
/-!
# C08 (part) — an empty-password PDF gets AES whatever its crypt filters are called, in every process history

"a PDF encrypted with the empty user password extracts the same content as its unencrypted original" needs, on pypdf's
fallback provider, that the library has patched AES into pypdf before the first AES stream / string of the document is
decrypted.  The patch is process-wide and sticky, so a wrong condition in front of it is masked by any earlier AES
document.  Proved here, for EVERY `/Encrypt` dictionary (any crypt filter names, any number of filters, `/Identity`,
differing `/StmF` `/StrF` `/EFF`, unused decoy filters, stray `/CF` below V4) and EVERY history of documents read before:

* `C08_pdf_aes_ready`            with the generated code facts (`CodeOk`) every supported document is ready after open;
* `C08_pdf_aes_history`          … after any history, and the verdict is the one of a fresh process;
* `C08_pdf_aes_names_irrelevant` consistent (injective, `/Identity`-respecting) renaming of the filters changes nothing;
* the counterexample theorems: a guard that looks at a NAMED filter (`/StdCF`) leaves a `/DocCF` AES-128 document
  without AES in a fresh process and is masked by one earlier `/StdCF` document; a marker that is not in pypdf's
  message, or an incomplete patch, lose V5.

`CodeOk Gen.code` is re-decided on every run from the current source.
-/
namespace S2T.C08.PdfCrypt
open S2T.PdfCrypt

abbrev KC : OpenCode := S2T.Gen.PdfCrypt.code

theorem gen_pdfcrypt_notes_empty : S2T.Gen.PdfCrypt.notes = [] := by decide

/-- the reader `read_pdf` decrypts comes from the analysed opener, and nobody else constructs a PdfReader or patches -/
theorem gen_pdfcrypt_sites :
    (S2T.Gen.PdfCrypt.opener != "" && S2T.Gen.PdfCrypt.readerCtorSites == [S2T.Gen.PdfCrypt.opener]
      && S2T.Gen.PdfCrypt.patchSites.contains S2T.Gen.PdfCrypt.opener) = true := by decide

/-- the code facts under which the statement holds: the DependencyError handler retries on pypdf's actual message,
    the patch binds every AES entry point pypdf holds, and some call of the patch after the open is reached whenever
    the reader is encrypted — whatever the opaque parts of its path condition evaluate to -/
def CodeOk (c : OpenCode) : Bool :=
  c.handlerFires && c.patchComplete && c.postGuards.any (·.impliedByEnc)

theorem gen_code_ok : CodeOk KC = true := by decide

theorem Guard.implied_sound (g : Guard) (ρ : Nat → Bool) :
    (g.impliedByEnc = true → g.eval true ρ = true) ∧ (g.refutedByEnc = true → g.eval true ρ = false) := by
  induction g with
  | enc => simp [Guard.impliedByEnc, Guard.refutedByEnc, Guard.eval]
  | const b => cases b <;> simp [Guard.impliedByEnc, Guard.refutedByEnc, Guard.eval]
  | atom i => simp [Guard.impliedByEnc, Guard.refutedByEnc]
  | not g ih =>
    simp only [Guard.impliedByEnc, Guard.refutedByEnc, Guard.eval]
    exact ⟨fun h => by simp [ih.2 h], fun h => by simp [ih.1 h]⟩
  | and a b iha ihb =>
    simp only [Guard.impliedByEnc, Guard.refutedByEnc, Guard.eval, Bool.and_eq_true, Bool.or_eq_true]
    refine ⟨fun h => ⟨iha.1 h.1, ihb.1 h.2⟩, fun h => ?_⟩
    rcases h with h | h
    · simp [iha.2 h]
    · simp [ihb.2 h]
  | or a b iha ihb =>
    simp only [Guard.impliedByEnc, Guard.refutedByEnc, Guard.eval, Bool.and_eq_true, Bool.or_eq_true]
    refine ⟨fun h => ?_, fun h => by simp [iha.2 h.1, ihb.2 h.2]⟩
    rcases h with h | h
    · exact Or.inl (iha.1 h)
    · exact Or.inr (ihb.1 h)

private theorem post_fires {c : OpenCode} (hc : CodeOk c = true) (ρ : Nat → Bool) :
    (c.postGuards.any (·.eval true ρ) && c.patchComplete) = true := by
  simp only [CodeOk, Bool.and_eq_true, List.any_eq_true] at hc
  obtain ⟨⟨_, hp⟩, g, hg, hi⟩ := hc
  simp only [Bool.and_eq_true, List.any_eq_true]
  exact ⟨⟨g, hg, (Guard.implied_sound g ρ).1 hi⟩, hp⟩

/-- every encrypted document pypdf supports leaves `_open_pdf_reader` with AES installed — in ANY process state, for ANY
    crypt-filter dictionary, whatever the opaque guard parts say -/
theorem C08_pdf_open_installs {c : OpenCode} (hc : CodeOk c = true) (ρ : Doc → Nat → Bool) (p : Proc) (e : EncryptDict)
    (hs : e.supported = true) : openReader c ρ p (some e) = .ok ⟨true⟩ := by
  have hpost := post_fires hc (ρ (some e))
  have hc' := hc
  simp only [CodeOk, Bool.and_eq_true] at hc'
  have hh : (c.handlerFires && c.patchComplete) = true := by simp [hc'.1.1, hc'.1.2]
  simp only [openReader, hs, Bool.not_true, Bool.false_eq_true, if_false, hh, if_true]
  by_cases h : (e.openNeedsAes && !p.aes) = true
  · simp only [h, if_true, hpost]
  · simp [h, hpost]

/-- … hence it is ready: whichever of its streams / strings / embedded files use AES can be decrypted -/
theorem C08_pdf_aes_ready {c : OpenCode} (hc : CodeOk c = true) (ρ : Doc → Nat → Bool) (p : Proc) (d : Doc)
    (hs : ∀ e, d = some e → e.supported = true) : ready c ρ p d = true := by
  cases d with
  | none => simp [ready, openReader]
  | some e => simp [ready, C08_pdf_open_installs hc ρ p e (hs e rfl)]

/-- … after any history of documents (supported or not, encrypted or not), and so the verdict in a used process is the
    verdict of a fresh one -/
theorem C08_pdf_aes_history {c : OpenCode} (hc : CodeOk c = true) (ρ : Doc → Nat → Bool) (hist : List Doc) (d : Doc)
    (hs : ∀ e, d = some e → e.supported = true) :
    ready c ρ (runHistory c ρ Proc.fresh hist) d = true ∧ ready c ρ (runHistory c ρ Proc.fresh hist) d = ready c ρ Proc.fresh d := by
  rw [C08_pdf_aes_ready hc ρ _ d hs, C08_pdf_aes_ready hc ρ _ d hs]
  exact ⟨rfl, rfl⟩

example : (⟨4, [("DocCF", .aesv2)], some "DocCF", some "DocCF", none⟩ : EncryptDict).supported = true
    ∧ (⟨4, [("DocCF", .aesv2)], some "DocCF", some "DocCF", none⟩ : EncryptDict).needsAes = true := by decide

/-! ### the names of the filters do not matter -/

private theorem lookup_rename (f : String → String) (hf : ∀ a b, f a = f b → a = b) (n : String) :
    ∀ cf : List (String × Cfm), (cf.map (fun x => (f x.1, x.2))).lookup (f n) = cf.lookup n
  | [] => rfl
  | (k, v) :: r => by
    simp only [List.map_cons, List.lookup_cons]
    by_cases h : n = k
    · subst h; simp
    · have : f n ≠ f k := fun hh => h (hf _ _ hh)
      simp [beq_eq_false_iff_ne.mpr this, beq_eq_false_iff_ne.mpr h, lookup_rename f hf n r]

private theorem resolve_rename (f : String → String) (hf : ∀ a b, f a = f b → a = b) (hid : ∀ a, f a = "Identity" ↔ a = "Identity")
    (e : EncryptDict) (n : Option String) : (e.rename f).resolve (n.map f) = e.resolve n := by
  cases n with
  | none => rfl
  | some n =>
    simp only [EncryptDict.resolve, Option.map_some, EncryptDict.rename, hid n]
    split
    · rfl
    · rw [lookup_rename f hf n e.cf]

/-- renaming the crypt filters consistently (injectively, keeping the predefined `/Identity`) changes neither the methods
    in use nor, therefore, whether the document needs AES / is supported: `/StdCF` is just a name -/
theorem C08_pdf_aes_names_irrelevant (f : String → String) (hf : ∀ a b, f a = f b → a = b)
    (hid : ∀ a, f a = "Identity" ↔ a = "Identity") (e : EncryptDict) :
    (e.rename f).methods = e.methods ∧ (e.rename f).needsAes = e.needsAes ∧ (e.rename f).supported = e.supported := by
  have hm : (e.rename f).methods = e.methods := by
    have h1 := resolve_rename f hf hid e e.stmF
    have h2 := resolve_rename f hf hid e e.strF
    have h3 := resolve_rename f hf hid e e.effOrStm
    have he : (e.rename f).effOrStm = e.effOrStm.map f := by
      show (match e.eff.map f with | some x => some x | none => e.stmF.map f) = _
      simp only [EncryptDict.effOrStm]
      cases e.eff <;> rfl
    have hs : (e.rename f).stmF = e.stmF.map f := rfl
    have hr : (e.rename f).strF = e.strF.map f := rfl
    have hv : (e.rename f).v = e.v := rfl
    simp only [EncryptDict.methods, hv, hs, hr, he, h1, h2, h3]
  refine ⟨hm, ?_, ?_⟩
  · simp only [EncryptDict.needsAes, hm]; rfl
  · simp only [EncryptDict.supported, hm]

example : (fun s => if s = "Identity" then s else "x" ++ s) "StdCF" = "xStdCF" := by decide

/-! ### what goes wrong otherwise (the class of changes this part is about) -/

/-- a guard that asks whether the filter NAMED `/StdCF` is an AES filter -/
def stdcfIsAes : Doc → Nat → Bool
  | some e, 0 => (match e.cf.lookup "StdCF" with | some .aesv2 | some .aesv3 => true | _ => false)
  | _, _ => false

def namedFilterCode : OpenCode := { KC with postGuards := [.and .enc (.atom 0)] }
def docCF : EncryptDict := ⟨4, [("DocCF", .aesv2)], some "DocCF", some "DocCF", none⟩
def stdCF : EncryptDict := ⟨4, [("StdCF", .aesv2)], some "StdCF", some "StdCF", none⟩

/-- `if reader.is_encrypted and <StdCF is AES>: patch()` — rejected by `CodeOk`; a legal AES-128 document whose filter is
    called `/DocCF` is NOT ready in a fresh process, although the same document renamed to `/StdCF` is, and although it IS
    ready once any `/StdCF` AES document has been read before (the sticky process-wide patch masks the defect) -/
theorem C08_pdf_named_filter_guard_counterexample :
    CodeOk namedFilterCode = false
    ∧ ready namedFilterCode stdcfIsAes Proc.fresh (some docCF) = false
    ∧ ready namedFilterCode stdcfIsAes Proc.fresh (some stdCF) = true
    ∧ ready namedFilterCode stdcfIsAes (runHistory namedFilterCode stdcfIsAes Proc.fresh [some stdCF]) (some docCF) = true := by
  decide

/-- a handler whose marker is not part of pypdf's message, or a patch that leaves one of pypdf's AES bindings alone, loses
    every V5 (AES-256) document in a fresh process -/
theorem C08_pdf_handler_counterexample :
    let v5 : EncryptDict := ⟨5, [("StdCF", .aesv3)], some "StdCF", some "StdCF", none⟩
    CodeOk { KC with retryMarker := "AES support" } = false
    ∧ ready { KC with retryMarker := "AES support" } (fun _ _ => false) Proc.fresh (some v5) = false
    ∧ CodeOk { KC with patchBindings := KC.patchBindings.drop 1 } = false
    ∧ ready { KC with patchBindings := KC.patchBindings.drop 1 } (fun _ _ => false) Proc.fresh (some v5) = false := by
  decide

end S2T.C08.PdfCrypt
