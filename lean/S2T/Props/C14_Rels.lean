import S2T.Props.C14_Parts
import S2T.Model.ImageRels
import S2T.Gen.ImageRels
/-!
# C14 — the image path follows the relationship of the right KIND, whatever else the relationships part lists

The guards are read off the current source (`S2T.Gen.ImageRels`: needle, lower-cased or not).  For these guards:

* `gen_*_guard_exact` (decided over namespace × kind of the standard's inventory): the substring test is true exactly
  for the kind the loop is after (`drawing` among the worksheet kinds — in particular NOT for `vmlDrawing`, which
  differs from `drawing` only by the capital D; `image` among the drawing / main-document kinds);
* `pick_first_eq_spec`, `rid_lookup_eq_spec`, `pick_skips_siblings`: hence for EVERY relationships part whose Type
  URIs are of the inventory — any number of sibling relationships, in any order, in any of the namespaces — the first
  loop picks the first relationship whose kind is `drawing`, and the Id ↦ Target dictionary is that of the `image`
  relationships;
* `lowered_sheet_guard_counterexample`: lower-casing the Type before the test (as DOCX / PPTX do for their kinds) is
  NOT exact for `drawing`: a worksheet with cell comments lists `vmlDrawing` and it would be taken as the drawing.
-/
namespace S2T.C14.Rels
open S2T.Spec.Opc S2T.Images

/-! ## generated facts about the current source -/

theorem gen_rel_notes_empty : S2T.Gen.ImageRels.notes = [] := by decide

/-- the three relationship-type tests of the image functions have the modelled shape
    (`"<literal>" in <type>[.lower()]` guarding the dictionary assignment / `not in … : continue`) -/
theorem gen_rel_guards_found :
    S2T.Gen.ImageRels.xlsx_sheet_guard.isSome = true ∧ S2T.Gen.ImageRels.xlsx_image_guard.isSome = true
    ∧ S2T.Gen.ImageRels.docx_image_guard.isSome = true := by decide

/-- the guards of the current source -/
def sheetGuard : RelGuard := guardOf ("drawing", false) S2T.Gen.ImageRels.xlsx_sheet_guard
def imageGuard : RelGuard := guardOf ("image", false) S2T.Gen.ImageRels.xlsx_image_guard
def docxGuard : RelGuard := guardOf ("image", true) S2T.Gen.ImageRels.docx_image_guard

theorem gen_sheet_guard_exact : guardExactOn sheetGuard "drawing".toList sheetRelKinds = true := by decide +kernel
theorem gen_image_guard_exact : guardExactOn imageGuard "image".toList drawingRelKinds = true := by decide +kernel
theorem gen_docx_guard_exact : guardExactOn docxGuard "image".toList documentRelKinds = true := by decide +kernel

/-! ## for every relationships part -/

/-- an exact guard decides the kind of every Type URI of the inventory -/
theorem exact_on_inventory {g : RelGuard} {kind : Str} {kinds : List Str} (h : guardExactOn g kind kinds = true)
    {t : Str} (ht : InInventory kinds t) : g.holds t = (relKind t == kind) := by
  obtain ⟨ns, hns, k, hk, rfl⟩ := ht
  have h1 := (List.all_eq_true.mp h) ns hns
  have h2 := (List.all_eq_true.mp h1) k hk
  simp only [Bool.and_eq_true, beq_iff_eq] at h2
  rw [h2.1, h2.2]

/-- XLSX first loop: the relationship taken as the sheet's drawing is the first one of kind `kind` -/
theorem pick_first_eq_spec {g : RelGuard} {kind : Str} {kinds : List Str} (h : guardExactOn g kind kinds = true)
    (rels : List Rel) (hr : ∀ r ∈ rels, InInventory kinds r.type) :
    pickFirstTarget g rels = specFirstTarget kind rels := by
  induction rels with
  | nil => rfl
  | cons r rs ih =>
    have hr0 := exact_on_inventory h (hr r (by simp))
    have ih' := ih (fun x hx => hr x (by simp [hx]))
    unfold pickFirstTarget specFirstTarget at *
    simp only [List.find?_cons, hr0]
    cases relKind r.type == kind <;> simp_all

/-- XLSX second loop: the Id ↦ Target dictionary is that of the relationships of kind `kind` -/
theorem rid_lookup_eq_spec {g : RelGuard} {kind : Str} {kinds : List Str} (h : guardExactOn g kind kinds = true)
    (rels : List Rel) (hr : ∀ r ∈ rels, InInventory kinds r.type) (id : Str) :
    ridLookup g rels id = specRidLookup kind rels id := by
  have : rels.filter (fun r => g.holds r.type) = rels.filter (fun r => relKind r.type == kind) :=
    List.filter_congr (fun r hm => exact_on_inventory h (hr r hm))
  simp only [ridLookup, specRidLookup, this]

/-- **siblings do not matter**: whatever relationships of OTHER kinds are listed in front of the designated one (and
    whatever follows it), the designated relationship is the one that is taken -/
theorem pick_skips_siblings {g : RelGuard} {kind : Str} {kinds : List Str} (h : guardExactOn g kind kinds = true)
    (pre post : List Rel) (d : Rel) (hd : InInventory kinds d.type) (hk : relKind d.type = kind)
    (hpre : ∀ r ∈ pre, InInventory kinds r.type ∧ relKind r.type ≠ kind) :
    pickFirstTarget g (pre ++ d :: post) = some d.target := by
  induction pre with
  | nil =>
    have := exact_on_inventory h hd
    simp [pickFirstTarget, this, hk]
  | cons r rs ih =>
    have hr := hpre r (by simp)
    have h0 : g.holds r.type = false := by
      rw [exact_on_inventory h hr.1]; simpa using hr.2
    have ih' := ih (fun x hx => hpre x (by simp [hx]))
    simpa [pickFirstTarget, List.find?_cons, h0] using ih'

/-- with the guards of the current source -/
theorem xlsx_sheet_drawing_is_first_drawing_rel (rels : List Rel) (hr : ∀ r ∈ rels, InInventory sheetRelKinds r.type) :
    pickFirstTarget sheetGuard rels = specFirstTarget "drawing".toList rels :=
  pick_first_eq_spec gen_sheet_guard_exact rels hr

theorem xlsx_image_rels_by_kind (rels : List Rel) (hr : ∀ r ∈ rels, InInventory drawingRelKinds r.type) (id : Str) :
    ridLookup imageGuard rels id = specRidLookup "image".toList rels id :=
  rid_lookup_eq_spec gen_image_guard_exact rels hr id

theorem docx_image_rels_by_kind {t : Str} (ht : InInventory documentRelKinds t) :
    docxGuard.holds t = (relKind t == "image".toList) :=
  exact_on_inventory gen_docx_guard_exact ht

/-- the worksheet relationship parts of a package, as the positional model of `Props/C14_Parts` receives them:
    `sheetRelsOf parts` is what the source computes, and it is the specification's reading of the parts -/
def sheetRelsOf (g : RelGuard) (parts : Str → Option (List Rel)) : SheetRels :=
  fun n => (parts n).map (pickFirstTarget g)

theorem xlsx_sheet_rels_from_parts (parts : Str → Option (List Rel))
    (hp : ∀ n rels, parts n = some rels → ∀ r ∈ rels, InInventory sheetRelKinds r.type) :
    sheetRelsOf sheetGuard parts = fun n => (parts n).map (specFirstTarget "drawing".toList) := by
  funext n
  unfold sheetRelsOf
  rcases hn : parts n with _ | rels
  · rfl
  · simp only [Option.map_some]
    rw [xlsx_sheet_drawing_is_first_drawing_rel rels (hp n rels hn)]

/-! ## hypotheses are satisfiable; the variant that is wrong -/

def nsT : Str := "http://schemas.openxmlformats.org/officeDocument/2006/relationships".toList
def relVml : Rel := ⟨"rId1".toList, relType nsT "vmlDrawing".toList, "../drawings/vmlDrawing1.vml".toList⟩
def relDrw : Rel := ⟨"rId2".toList, relType nsT "drawing".toList, "../drawings/drawing1.xml".toList⟩
def relCmt : Rel := ⟨"rId3".toList, relType nsT "comments".toList, "../comments1.xml".toList⟩

example : ∀ r ∈ [relVml, relDrw, relCmt], InInventory sheetRelKinds r.type := by
  intro r hr
  simp only [List.mem_cons, List.mem_nil_iff, or_false] at hr
  rcases hr with rfl | rfl | rfl
  · exact ⟨nsT, by decide, "vmlDrawing".toList, by decide, rfl⟩
  · exact ⟨nsT, by decide, "drawing".toList, by decide, rfl⟩
  · exact ⟨nsT, by decide, "comments".toList, by decide, rfl⟩

/-- a worksheet with cell comments AND pictures, the legacy VML drawing listed first: the drawing part is taken -/
theorem vml_first_drawing_taken :
    pickFirstTarget sheetGuard [relVml, relDrw, relCmt] = some "../drawings/drawing1.xml".toList := by decide +kernel

/-- lower-casing the Type before the test is not exact for `drawing`: `vmldrawing` contains it, and the VML part is
    taken as the sheet's drawing (the pictures of the sheet are then lost) -/
theorem lowered_sheet_guard_counterexample :
    pickFirstTarget ⟨"drawing".toList, true⟩ [relVml, relDrw, relCmt] = some "../drawings/vmlDrawing1.vml".toList
    ∧ specFirstTarget "drawing".toList [relVml, relDrw, relCmt] = some "../drawings/drawing1.xml".toList
    ∧ guardExactOn ⟨"drawing".toList, true⟩ "drawing".toList sheetRelKinds = false := by decide +kernel

/-- a needle that is too short is not exact either (`draw` would also hit a hypothetical sibling … here: `vmlDrawing`
    is safe only because of the capital D) -/
theorem suffix_test_would_be_exact :
    (relNamespaces.all fun ns => sheetRelKinds.all fun k => (relKind (relType ns k) == "drawing".toList) == (k == "drawing".toList)) = true := by
  decide +kernel

end S2T.C14.Rels
