import S2T.Model.ArchiveChain
import S2T.Gen.C12Consts
import S2T.Props.C12_Limits
/-!
# C12 — archives: duplicate member names, 7z coder chains

"archive members above the per-member limit are skipped without being decompressed into memory or onto disk":

* the member loops of ZIP and TAR test the size of ONE entry and then fetch a payload.  Fetched through the entry's own
  handle, the payload is the tested entry's (`by_handle_within_limit`, `by_handle_total_le_payload`); fetched through
  the entry's NAME it is the payload of the LAST entry of that name — the same thing when names are distinct
  (`by_name_eq_by_handle_of_distinct`: why archives with unique names never show the difference), an oversize member
  otherwise (`by_name_counterexample`).  The translator reads from the current source which of the two the loops do
  (`gen_zip_reads_by_handle`, `gen_tar_reads_by_handle`).
* a 7z folder is decoded by a CHAIN of stages.  If `max_output` reaches every stage, every stage's output is within it
  (`chain_every_stage_bounded`), hence within what the wanted members need (`chain_within_needed`); if it reaches only
  the stage whose output is returned, single-coder folders behave the same (`chain_last_only_single`) and a
  filter <- LZMA2 folder decodes everything (`chain_last_only_counterexample`).  `gen_sz_bound_reaches_every_stage`
  re-decides on every run that the current source hands the bound on unchanged at every site.
-/
namespace S2T.C12.Archive
open S2T.Limits S2T.ArcChain S2T.Gen.C12Consts

/-! ## named entries -/

/-- read through the tested entry's own handle: every byte string read is within the per-member limit -/
theorem by_handle_within_limit (k : Kind) (limit : Nat) (es : List Entry) (h : Faithful es) :
    ∀ n ∈ loopDelivered Ops.documented k .handle limit es, n ≤ limit := by
  intro n hn
  simp only [loopDelivered, loopDeliveredIn, List.mem_filterMap] at hn
  obtain ⟨e, he, hd⟩ := hn
  split at hd
  · simp at hd
  · rename_i hs
    simp at hd
    have hle : ¬ e.declared > limit := by
      intro hgt
      exact hs ((S2T.C12.Limits.member_skipped_iff k limit e.declared).mpr hgt)
    have := h e he
    omega
example : Faithful [⟨0, 5, 5⟩, ⟨0, 11534336, 11534336⟩, ⟨1, 7, 3⟩] := by
  intro e he; simp at he; rcases he with rfl | rfl | rfl <;> simp

/-- … and the bytes read in total never exceed the archive's payload (no entry is read twice) -/
theorem by_handle_total_le_payload (k : Kind) (limit : Nat) (es : List Entry) (h : Faithful es) :
    (loopDelivered Ops.documented k .handle limit es).sum ≤ payload es := by
  unfold loopDelivered
  generalize es = all at h ⊢
  -- `all` plays no role for `.handle`
  suffices H : ∀ (l : List Entry), (∀ e ∈ l, e.delivers ≤ e.declared) →
      (loopDeliveredIn all Ops.documented k .handle limit l).sum ≤ payload l from H all h
  intro l hl
  induction l with
  | nil => simp [loopDeliveredIn, payload]
  | cons e rest ih =>
    have ih' := ih (fun x hx => hl x (by simp [hx]))
    have he := hl e (by simp)
    simp only [loopDeliveredIn, payload, List.filterMap_cons, List.map_cons, List.sum_cons] at *
    split
    · omega
    · rename_i n hn
      split at hn
      · simp at hn
      · simp at hn; subst hn; simp only [List.sum_cons]; omega

private theorem find?_unique {p : Entry → Bool} (l : List Entry) (e : Entry) (he : e ∈ l) (hp : p e = true)
    (hu : ∀ x ∈ l, p x = true → x = e) : l.find? p = some e := by
  induction l with
  | nil => simp at he
  | cons a rest ih =>
    by_cases ha : p a = true
    · have := hu a (by simp) ha
      subst this
      simp [List.find?, ha]
    · have hne : a ≠ e := fun h => ha (h ▸ hp)
      have he' : e ∈ rest := by
        rcases List.mem_cons.mp he with h | h
        · exact absurd h.symm hne
        · exact h
      simp only [List.find?, Bool.not_eq_true] at ha ⊢
      rw [ha]
      exact ih he' (fun x hx => hu x (by simp [hx]))

/-- with pairwise distinct names a name resolves to the entry itself … -/
theorem resolveLast_of_distinct (es : List Entry) (h : NamesDistinct es) (e : Entry) (he : e ∈ es) :
    resolveLast es e.name = some e := by
  unfold resolveLast
  apply find?_unique _ e (by simpa using he) (by simp)
  intro x hx hpx
  have hx' : x ∈ es := by simpa using hx
  exact h x hx' e he (by simpa using hpx)

/-- … so reading by name and reading by handle are the same loop: archives with unique member names (every archive a
    well-behaved writer produces) cannot tell the two apart -/
theorem by_name_eq_by_handle_of_distinct (o : Ops) (k : Kind) (limit : Nat) (es : List Entry) (h : NamesDistinct es) :
    loopDelivered o k .name limit es = loopDelivered o k .handle limit es := by
  unfold loopDelivered
  suffices H : ∀ l : List Entry, (∀ e ∈ l, e ∈ es) →
      loopDeliveredIn es o k .name limit l = loopDeliveredIn es o k .handle limit l from H es (fun _ h => h)
  intro l hl
  induction l with
  | nil => rfl
  | cons e rest ih =>
    have ih' := ih (fun x hx => hl x (by simp [hx]))
    simp only [loopDeliveredIn, List.filterMap_cons] at *
    rw [resolveLast_of_distinct es h e (hl e (by simp)), ih']
    rfl
example : NamesDistinct [⟨0, 5, 5⟩, ⟨1, 11534336, 11534336⟩] := by
  intro x hx y hy hn; simp at hx hy; rcases hx with rfl | rfl <;> rcases hy with rfl | rfl <;> simp_all

/-
FULL STATEMENT for a loop that reads by name (false): every byte string read is within the limit.
-/
/-- two entries named alike, the first within the limit, the last 11 MiB: the loop tests the first (5 bytes) and
    inflates the last; the second entry itself is skipped, as it should be -/
theorem by_name_counterexample :
    let es : List Entry := [⟨0, 5, 5⟩, ⟨0, 11534336, 11534336⟩]
    loopDelivered Ops.documented .zip .name maxMemorySize es = [11534336] ∧ 11534336 > maxMemorySize ∧
    loopDelivered Ops.documented .zip .handle maxMemorySize es = [5] ∧ Faithful es := by
  refine ⟨by decide, by decide, by decide, ?_⟩
  intro e he; simp at he; rcases he with rfl | rfl <;> simp

/-- the other order: the in-limit entry comes last — by name it is read once per entry of that name that passes the test
    (here: once), by handle once; k in-limit entries of one name read the last one k times -/
theorem by_name_multiplied :
    loopDelivered Ops.documented .tar .name 1000 [⟨0, 1, 1⟩, ⟨0, 2, 2⟩, ⟨0, 1000, 1000⟩] = [1000, 1000, 1000] := by decide

/-- the ZIP loop of the current source reads through the ZipInfo it tested -/
theorem gen_zip_reads_by_handle : ReadBy.ofString zipReadBy = .handle ∧ zipReadSites ≠ [] := by decide

/-- the TAR loop of the current source hands the TarInfo it tested to `extractfile` -/
theorem gen_tar_reads_by_handle : ReadBy.ofString tarReadBy = .handle ∧ tarReadSites ≠ [] := by decide

/-- on the operators and read sites of the current source: every ZIP / TAR payload read is within the default limit,
    whatever the names of the entries -/
theorem named_members_within_default_limit (es : List Entry) (h : Faithful es) :
    ∀ o, Ops.ofSites limitSites = some o →
      (∀ n ∈ loopDelivered o .zip (ReadBy.ofString zipReadBy) configMaxMemorySize es, n ≤ 10 * 2 ^ 20) ∧
      (∀ n ∈ loopDelivered o .tar (ReadBy.ofString tarReadBy) configMaxMemorySize es, n ≤ 10 * 2 ^ 20) := by
  intro o ho
  rw [S2T.C12.Limits.gen_ops_documented] at ho
  cases ho
  rw [gen_zip_reads_by_handle.1, gen_tar_reads_by_handle.1]
  have hz := by_handle_within_limit .zip configMaxMemorySize es h
  have ht := by_handle_within_limit .tar configMaxMemorySize es h
  simp only [configMaxMemorySize] at hz ht
  exact ⟨fun n hn => by simpa using hz n hn, fun n hn => by simpa using ht n hn⟩

/-- 7z: members are written to / read back from the temp directory by NAME, but only members that passed the size
    filter are ever written, so whatever a read-back finds under a name is within the limit -/
theorem sevenzip_read_back_within_limit (limit : Nat) (es : List Entry) :
    ∀ n ∈ readBack Ops.documented limit es, n ≤ limit := by
  intro n hn
  simp only [readBack, List.mem_filterMap] at hn
  obtain ⟨e, _, hd⟩ := hn
  cases hr : resolveLast (es.filter fun e => !memberSkipped Ops.documented .sevenZip limit e.declared) e.name with
  | none => simp [hr] at hd
  | some x =>
    simp [hr] at hd
    subst hd
    have hx := List.mem_of_find?_eq_some hr
    simp only [List.mem_reverse, List.mem_filter, Bool.not_eq_true'] at hx
    have : ¬ x.declared > limit := by
      intro hgt
      have := (S2T.C12.Limits.member_skipped_iff .sevenZip limit x.declared).mpr hgt
      simp [this] at hx
    omega

/-! ## coder chains -/

private theorem cut_le (m n : Nat) : cut (some m) n ≤ m := by simp [cut]; omega

private theorem chainGo_all_le (m len : Nat) (stages : List Stage) (i inp : Nat) :
    ∀ n ∈ chainGo Policy.all (some m) len i inp stages, n ≤ m := by
  induction stages generalizing i inp with
  | nil => simp [chainGo]
  | cons s rest ih =>
    intro n hn
    simp only [chainGo, Policy.all, ↓reduceIte] at hn
    cases s with
    | decoder real =>
      simp only [stageOut, List.mem_cons] at hn
      rcases hn with rfl | hn
      · exact cut_le _ _
      · exact ih _ _ n hn
    | filter =>
      simp only [stageOut, List.mem_cons] at hn
      rcases hn with rfl | hn
      · exact cut_le _ _
      · exact ih _ _ n hn
    | unsupported => simp [stageOut] at hn

/-- the bound reaches every stage ⇒ EVERY stage's output is within it — for every chain (any length, any mix of
    decoders, filters and unsupported coders), whatever the streams would expand to -/
theorem chain_every_stage_bounded (m : Nat) (stages : List Stage) (packed : Nat) :
    ∀ n ∈ chainOutputs Policy.all (some m) stages packed, n ≤ m :=
  chainGo_all_le m _ stages 0 packed

/-- … with the bound `extractall` computes (`_needed_output`): every stage's output is within the declared sizes of the
    members up to the last WANTED one; a folder without a wanted member is not decoded at all
    (`Limits.sevenzip_fixed_skips_unwanted_folder`) -/
theorem chain_within_needed (f : SzFolder) (m : Nat) (hm : neededOutput f 0 none = some m) (stages : List Stage) (packed : Nat) :
    ∀ n ∈ chainOutputs Policy.all (some m) stages packed, n ≤ m ∧ m ≤ (f.map (·.declared)).sum := by
  intro n hn
  refine ⟨chain_every_stage_bounded m stages packed n hn, ?_⟩
  have := S2T.C12.Limits.neededOutput_le f 0 none (by simp) m hm
  simpa using this
example : neededOutput [⟨23, true⟩, ⟨12582912, false⟩] 0 none = some 23 := by decide

/-- a small wanted member in front of a skipped one: no stage yields more than the small member -/
theorem chain_small_before_skipped (small big : Nat) (stages : List Stage) (packed : Nat) :
    neededOutput [⟨small, true⟩, ⟨big, false⟩] 0 none = some small ∧
    ∀ n ∈ chainOutputs Policy.all (some small) stages packed, n ≤ small := by
  refine ⟨by simp [neededOutput], chain_every_stage_bounded small stages packed⟩

/-- one coder per folder (every archive a default 7-Zip run writes): bounding only the returned stage is the same -/
theorem chain_last_only_single (m : Option Nat) (s : Stage) (packed : Nat) :
    chainOutputs Policy.lastOnly m [s] packed = chainOutputs Policy.all m [s] packed := by
  simp [chainOutputs, chainGo, Policy.lastOnly, Policy.all]

/-
FULL STATEMENT for a source that bounds only the returned stage (false): every stage's output ≤ max_output.
-/
/-- BCJ <- LZMA2 (7-Zip `-mf=BCJ`), note.txt 23 bytes + big.txt 12 MiB, 23 bytes needed: the LZMA2 stage yields the
    whole folder, the filter stage cuts it to 23 — the RESULT is the same, the memory is not -/
theorem chain_last_only_counterexample :
    chainOutputs Policy.lastOnly (some 23) [.decoder 12582935, .filter] 2047 = [12582935, 23] ∧
    chainOutputs Policy.all (some 23) [.decoder 12582935, .filter] 2047 = [23, 23] := by decide

/-- the same through a filter the library refuses (Delta, ARM, …): the decoder stage has run before the refusal -/
theorem chain_last_only_unsupported_counterexample :
    chainOutputs Policy.lastOnly (some 23) [.decoder 12582935, .unsupported] 2047 = [12582935] ∧
    chainOutputs Policy.all (some 23) [.decoder 12582935, .unsupported] 2047 = [23] := by decide

/-- every site the bound passes through in the current source — extractall, the loop over the coders, every return of
    `_apply_decoder`, both lzma calls — hands it on unchanged -/
theorem gen_sz_bound_reaches_every_stage : szStageBoundSites.all (·.2) = true ∧ szStageBoundSites.length ≥ 6 := by decide

/-- on the current source: every stage of every chain is within `max_output` -/
theorem chain_gen_every_stage_bounded (m : Nat) (stages : List Stage) (packed : Nat) :
    ∀ n ∈ chainOutputs (Policy.ofSites szStageBoundSites) (some m) stages packed, n ≤ m := by
  have : Policy.ofSites szStageBoundSites = Policy.all := by
    funext i n; simp [Policy.ofSites, Policy.all, gen_sz_bound_reaches_every_stage.1]
  rw [this]
  exact chain_every_stage_bounded m stages packed

end S2T.C12.Archive
