import S2T.Model.ArchiveHistory
import S2T.Gen.ModState
/-!
# C10 (process history) — a member comes out as itself whatever was read before in the process

`Props/C10.lean` proves the statement for ONE call of `read_archive` (a function of the archive and its path).
The module keeps state between calls; this part proves that the state is unobservable:

* `prog_memo` / `C10_history_free`: for EVERY history of earlier reads (any archives, any container types, any
  order of cache questions, any eviction policy) a read run against the store those reads left behind returns what
  it returns in a fresh process;
* `tar_prog_pure`, `zip_prog_pure`, `seven_prog_pure`: the member loops, written with the cache questions where the
  source has them, ARE the pure model of `ArchiveLoop.lean` when the router answers — so the single-call theorems
  of `Props/C10.lean` (right bytes, own label `archive!/member`, order, isolation) hold after any history
  (composed in `Props/C10.lean`, section `history`);
* the tie (`archive_*` theorems): decided on the CURRENT source from the generated inventory `S2T.Gen.ModState` —
  in archive_extractor.py and util/sevenzip.py the only things that outlive a call are the three `lru_cache`s and
  the `_config` object rebound by `configure_archive_extraction`; every module-level container is a filled constant
  table that is only read.  A new cell (a result cache, a remembered path, a "seen" set) breaks these theorems;
* `entry_cache_history_dependent`: why the inventory must be closed — a cache of finished member results keyed by
  (member name, bytes) labels a member of a later archive with the path of the archive it was first seen in.
-/
namespace S2T.C10History
open S2T.SevenZip (Bytes Str)
open S2T.ArchiveLoop S2T.History S2T.ArchiveHistory S2T.Gen.ModState

/-! ## memo tables -/

private theorem lookup_mem {κ ν} [BEq κ] [LawfulBEq κ] (tbl : List (κ × ν)) (k : κ) (v : ν)
    (h : tbl.lookup k = some v) : (k, v) ∈ tbl := by
  induction tbl with
  | nil => simp [List.lookup] at h
  | cons e es ih =>
    obtain ⟨k', v'⟩ := e
    by_cases hk : k == k'
    · simp only [List.lookup, hk] at h
      have : k = k' := by simpa using hk
      subst this
      cases h; exact List.mem_cons_self
    · have hk' : (k == k') = false := by simpa using hk
      simp only [List.lookup, hk'] at h
      exact List.mem_cons_of_mem _ (ih h)

/-- a cache hit returns what a miss would compute, and the table stays sound (store, re-order, evict) -/
theorem memoGet_spec {κ ν} [BEq κ] [LawfulBEq κ] (f : κ → ν) (keep : κ × ν → Bool) (tbl : List (κ × ν))
    (hs : MemoSound f tbl) (k : κ) : (memoGet f keep tbl k).1 = f k ∧ MemoSound f (memoGet f keep tbl k).2 := by
  unfold memoGet
  cases h : tbl.lookup k with
  | none =>
    refine ⟨rfl, ?_⟩
    intro kv hkv
    rcases List.mem_cons.mp hkv with rfl | hm
    · rfl
    · exact hs kv (List.mem_filter.mp hm).1
  | some v =>
    have hv := hs (k, v) (lookup_mem tbl k v h)
    refine ⟨hv, ?_⟩
    intro kv hkv
    rcases List.mem_cons.mp hkv with rfl | hm
    · exact hv
    · exact hs kv (List.mem_filter.mp hm).1

/-! ## any program over the caches -/

/-- **the store is unobservable**: run against any sound store, a read returns its fresh-process result and leaves a
    sound store -/
theorem prog_memo {ε ρ α} (R : Router ε ρ) (p : Prog ε α) (st : Store ε) (hs : StoreSound R st) :
    (runMemo R p st).1 = runPure R p ∧ StoreSound R (runMemo R p st).2 := by
  induction p generalizing st with
  | ret a => exact ⟨rfl, hs⟩
  | askSup k g ih =>
    obtain ⟨hv, hs'⟩ := memoGet_spec R.supported R.keepSup st.sup hs.1 k
    simp only [runMemo, runPure]
    rw [hv]
    exact ih _ _ ⟨hs', hs.2⟩
  | askExt k g ih =>
    obtain ⟨hv, hs'⟩ := memoGet_spec R.getExt R.keepExt st.ext hs.2 k
    simp only [runMemo, runPure]
    rw [hv]
    exact ih _ _ ⟨hs.1, hs'⟩

theorem empty_sound {ε ρ} (R : Router ε ρ) : StoreSound R Store.empty := by
  constructor
  · intro kv h; simp [Store.empty] at h
  · intro kv h; simp [Store.empty] at h

/-- the store after a history of reads -/
def afterReads {ε ρ α} (R : Router ε ρ) (st : Store ε) (hist : List (Prog ε α)) : Store ε :=
  after (fun st q => runMemo R q st) st hist

theorem afterReads_sound {ε ρ α} (R : Router ε ρ) (hist : List (Prog ε α)) (st : Store ε) (hs : StoreSound R st) :
    StoreSound R (afterReads R st hist) := by
  induction hist generalizing st with
  | nil => exact hs
  | cons q qs ih => exact ih _ (prog_memo R q st hs).2

/-- **C10 (history free)**: whatever archives were read before in the process — any number, any container type, any
    members, fully or partially (a prefix of a read asks a prefix of its questions: also a program) — a read returns
    what it returns in a fresh process -/
theorem C10_history_free {ε ρ α β} (R : Router ε ρ) (hist : List (Prog ε β)) (p : Prog ε α) :
    (runMemo R p (afterReads R Store.empty hist)).1 = runPure R p :=
  (prog_memo R p _ (afterReads_sound R hist _ (empty_sound R))).1

/-- … and the outputs of a whole batch are the fresh-process outputs, read by read -/
theorem C10_batch_outputs {ε ρ α} (R : Router ε ρ) (reads : List (Prog ε α)) (st : Store ε) (hs : StoreSound R st) :
    outputs (fun st q => runMemo R q st) st reads = reads.map (runPure R) := by
  induction reads generalizing st with
  | nil => rfl
  | cons q qs ih =>
    simp only [outputs, List.map_cons]
    rw [(prog_memo R q st hs).1, ih _ (prog_memo R q st hs).2]

/-! ## the module's loops are the pure model when the router answers -/

theorem runPure_bind {ε ρ α β} (R : Router ε ρ) (p : Prog ε α) (f : α → Prog ε β) :
    runPure R (p.bind f) = runPure R (f (runPure R p)) := by
  induction p with
  | ret a => rfl
  | askSup k g ih => simp only [Prog.bind, runPure]; exact ih _
  | askExt k g ih => simp only [Prog.bind, runPure]; exact ih _

section loops
variable {ε ρ : Type} (R : Router ε ρ) (c : Consts)

theorem shouldSkip_prog_pure (filename basename : Str) :
    runPure R (shouldSkipP R c filename basename) = shouldSkip (envOf R c) filename basename := by
  unfold shouldSkipP shouldSkip envOf
  cases h1 : (basename.head? == some 46 || (s "__MACOSX/").isPrefixOf filename) with
  | true => simp only [if_true, runPure, Bool.true_or]
  | false =>
    simp only [Bool.false_eq_true, if_false, runPure, Bool.false_or]
    cases hs : R.supported basename with
    | false => simp only [Bool.not_false, if_true, runPure, Bool.true_or]
    | true =>
      simp only [Bool.not_true, Bool.false_eq_true, if_false, Bool.false_or]
      cases hn : c.nested.any (fun e => e.isSuffixOf (R.lower basename)) with
      | true => simp only [if_true, runPure, Bool.true_or]
      | false => simp only [Bool.false_eq_true, if_false, runPure, Bool.false_or]

theorem processEntry_prog_pure (ap : Option Str) (filename : Str) (data : Bytes) (basename : Str) :
    runPure R (processEntryP R c ap filename data basename) = processEntry (envOf R c) ap filename data basename := by
  unfold processEntryP processEntry envOf
  by_cases h : data.length > c.maxArchiveFileSize
  · simp [h, runPure]
  · simp [h, runPure]

theorem tar_prog_pure (ap : Option Str) (ms : List TarMember) :
    runPure R (readTarP R c ap ms) = readTar (envOf R c) ap ms := by
  induction ms with
  | nil => rfl
  | cons m rest ih =>
    unfold readTarP readTar
    by_cases hreg : m.isReg = true
    · simp only [hreg, Bool.not_true, Bool.false_eq_true, if_false, runPure_bind, shouldSkip_prog_pure]
      by_cases hsk : shouldSkip (envOf R c) m.name (baseName m.name) = true
      · simp only [hsk, if_true]; exact ih
      · simp only [hsk, Bool.false_eq_true, if_false]
        have hc : (envOf R c).consts.maxMemorySize = c.maxMemorySize := rfl
        rw [hc]
        by_cases hbig : m.size > c.maxMemorySize
        · simp only [hbig, if_true]; exact ih
        · simp only [hbig, if_false]
          cases m.read with
          | data b => simp only [runPure_bind, processEntry_prog_pure, ih, runPure]
          | noFile => exact ih
          | raised => exact ih
    · have hreg' : m.isReg = false := by simpa using hreg
      simp only [hreg', Bool.not_false, if_true]; exact ih

theorem zipScan_prog_pure (infos : List ZipInfo) :
    runPure R (zipScanP R c infos) = zipScan (envOf R c) infos := by
  induction infos with
  | nil => rfl
  | cons i rest ih =>
    unfold zipScanP zipScan
    by_cases hd : i.isDir = true
    · simp only [hd, if_true]; exact ih
    · simp only [hd, Bool.false_eq_true, if_false]
      by_cases he : i.flagBits &&& 1 ≠ 0
      · rw [if_pos he, if_pos he]; rfl
      · rw [if_neg he, if_neg he]
        simp only [runPure_bind, shouldSkip_prog_pure]
        by_cases hsk : shouldSkip (envOf R c) i.filename (baseName i.filename) = true
        · simp only [hsk, if_true]; exact ih
        · simp only [hsk, Bool.false_eq_true, if_false, runPure_bind, ih]
          cases zipScan (envOf R c) rest <;> rfl

theorem zipLoop_prog_pure (ap : Option Str) (l : List ZipInfo) :
    runPure R (zipLoopP R c ap l) = zipLoop (envOf R c) ap l := by
  induction l with
  | nil => rfl
  | cons i rest ih =>
    unfold zipLoopP zipLoop
    have hc : (envOf R c).consts.maxMemorySize = c.maxMemorySize := rfl
    rw [hc]
    by_cases hbig : i.fileSize > c.maxMemorySize
    · simp only [hbig, if_true]; exact ih
    · simp only [hbig, if_false]
      cases i.read with
      | data b => simp only [runPure_bind, processEntry_prog_pure, ih, runPure]
      | runtimeError => rfl
      | badZip => rfl
      | otherExc => rfl

theorem zip_prog_pure (ap : Option Str) (infos : List ZipInfo) :
    runPure R (readZipP R c ap infos) = readZip (envOf R c) ap infos := by
  unfold readZipP readZip
  rw [runPure_bind, zipScan_prog_pure]
  cases zipScan (envOf R c) infos with
  | error e => rfl
  | ok l => exact zipLoop_prog_pure R c ap l

open S2T.SevenZip in
theorem sevenFilter_prog_pure (fs : List FileInfo) (i : Nat) :
    runPure R (sevenFilterP R c fs i) = sevenFilter (envOf R c) fs i := by
  induction fs generalizing i with
  | nil => rfl
  | cons f rest ih =>
    unfold sevenFilterP sevenFilter
    by_cases hd : f.isDirectory = true
    · simp only [hd, if_true]; exact ih _
    · simp only [hd, Bool.false_eq_true, if_false, runPure_bind, shouldSkip_prog_pure]
      by_cases hsk : shouldSkip (envOf R c) f.filename (baseName f.filename) = true
      · simp only [hsk, if_true]; exact ih _
      · simp only [hsk, Bool.false_eq_true, if_false]
        have hc : (envOf R c).consts.maxMemorySize = c.maxMemorySize := rfl
        rw [hc]
        by_cases hbig : f.uncompressed > c.maxMemorySize
        · simp only [hbig, if_true]; exact ih _
        · simp only [hbig, if_false, runPure_bind, ih, runPure]

open S2T.SevenZip in
theorem sevenLoop_prog_pure (ap : Option Str) (writes : List (Str × Bytes)) (fs : List FileInfo) :
    runPure R (sevenLoopP R c ap writes fs) = sevenLoop (envOf R c) ap writes fs := by
  induction fs with
  | nil => rfl
  | cons f rest ih =>
    unfold sevenLoopP sevenLoop
    cases readBack writes f.filename with
    | none => exact ih
    | some b => simp only [runPure_bind, processEntry_prog_pure, ih, runPure]

open S2T.SevenZip in
theorem seven_prog_pure (ap : Option Str) (file : Bytes) (parse : Bytes → Except Err S2T.SevenZip.R)
    (needsPw : S2T.SevenZip.R → Bool)
    (extract : Bytes → S2T.SevenZip.R → Option (List Nat) → Except Err (List (Str × Bytes))) :
    runPure R (read7zP R c ap file parse needsPw extract) = read7z (envOf R c) ap file parse needsPw extract := by
  unfold read7zP read7z
  have hc : (envOf R c).consts.max7zFileSize = c.max7zFileSize := rfl
  rw [hc]
  by_cases hbig : file.length > c.max7zFileSize
  · simp only [hbig, if_true, runPure]
  · simp only [hbig, if_false]
    cases parse file with
    | error e => cases e <;> rfl
    | ok r =>
      by_cases hpw : needsPw r = true
      · simp only [hpw, if_true, runPure]
      · simp only [hpw, Bool.false_eq_true, if_false, runPure_bind, sevenFilter_prog_pure]
        cases extract file r (some ((sevenFilter (envOf R c) r.files 0).map (·.1))) with
        | error e => rfl
        | ok writes => simp only [runPure_bind, sevenLoop_prog_pure, runPure]

end loops


/-! ## the hypotheses are satisfiable, the history matters for the store and not for the result -/

/-- a router: names ending in `t` are supported, the extractor is identified by the length of the base name, a
    result is its label; the caches evict everything older on every store -/
def exRouter : Router Nat Str :=
  { supported := fun b => b.getLast? == some 116, getExt := fun b => b.length, isReadArchive := fun e => e == 0,
    run := fun _ _ p => ([p], false), lower := id, keepSup := fun _ => false, keepExt := fun _ => false }

def exConsts : Consts :=
  { signatures := [], tarMagicOffset := 257, tarMagic := [117, 115, 116, 97, 114], nested := [s ".zip"],
    maxArchiveFileSize := 100, maxMemorySize := 50, max7zFileSize := 1000 }

def exMember : TarMember := { name := s "docs/a.txt", isReg := true, size := 2, read := .data [104, 105] }

/-- the same member read first under `v1.tar`, then under `v2.zip`-like path `v2.tar`: the second read finds both
    caches filled (the store is NOT the empty one) and still labels the member with its own archive -/
example :
    let first := readTarP exRouter exConsts (some (s "v1.tar")) [exMember]
    let st := afterReads exRouter Store.empty [first]
    st.sup = [(s "a.txt", true)] ∧ st.ext = [(s "a.txt", 5)]
    ∧ (runMemo exRouter (readTarP exRouter exConsts (some (s "v2.tar")) [exMember]) st).1 = [s "v2.tar!/docs/a.txt"] := by
  decide

/-! ## what an unreviewed cell does -/

/-- a process-wide cache of finished member results keyed by (member name, bytes): the member `readme.txt` of the
    archive read second, under `v2.tar`, comes out labelled with the archive it was first seen in -/
theorem entry_cache_history_dependent :
    ∃ (a b name : Str) (data : Bytes),
      (entryCached (entryCached [] (some a) name data).2 (some b) name data).1 ≠ (entryCached [] (some b) name data).1 :=
  ⟨s "v1.zip", s "v2.tar", s "readme.txt", [104, 105], by decide⟩

/-- … while on its own, or read again under the SAME path, it is labelled correctly: single-archive cases cannot
    see such a cell -/
theorem entry_cache_same_path_silent (a name : Str) (data : Bytes) (tbl₀ : List ((Str × Bytes) × List Str))
    (h : tbl₀ = []) :
    (entryCached (entryCached tbl₀ (some a) name data).2 (some a) name data).1 = [fullPath (some a) name] := by
  subst h
  simp [entryCached, List.lookup]

/-! ## the tie: the cells that outlive a read, decided on the current source -/

/-- the files an archive read runs through before it reaches the member extractors -/
def archiveFiles : List String :=
  ["parsing/extractors/archive_extractor.py", "parsing/extractors/util/sevenzip.py"]

def inArchive (f : String) : Bool := archiveFiles.contains f

/-- the memoised functions the model's `Store` / `Prog` account for (`_get_router_functions` is nullary: its one
    value is the pair of router functions, the `Router` of the model) -/
def reviewedMemos : List (String × String × String) :=
  [("parsing/extractors/archive_extractor.py", "_get_file_extractor_cached", "lru_cache"),
   ("parsing/extractors/archive_extractor.py", "_get_router_functions", "lru_cache"),
   ("parsing/extractors/archive_extractor.py", "_is_supported_file_cached", "lru_cache")]

/-- the one global that is rebound: by the explicit settings call, never by a read (limits = `Consts`) -/
def reviewedRebinds : List (String × String × String) :=
  [("parsing/extractors/archive_extractor.py", "configure_archive_extraction", "_config")]

/-- every module- / class-level container of the archive files is a filled table without inner containers … -/
theorem archive_tables_are_constants :
    (mutables.filter (fun m => inArchive m.1)).all (fun m => !m.2.2.2) = true := by decide

/-- … that is only ever read: no write, alias, hand-over or return of such an object anywhere in these files -/
theorem archive_tables_never_escape : escapes.filter (fun e => inArchive e.1) = [] := by decide

theorem archive_memos_reviewed : (memos.filter (fun m => inArchive m.1)).all reviewedMemos.contains = true := by decide

theorem archive_rebinds_reviewed : (rebinds.filter (fun m => inArchive m.1)).all reviewedRebinds.contains = true := by
  decide

theorem archive_no_mutable_defaults : mutableDefaults.filter (fun m => inArchive m.1) = [] := by decide

theorem archive_no_attr_stores : attrStores.filter (fun m => inArchive m.1) = [] := by decide

theorem archive_modstate_clean : notes = [] := by decide

end S2T.C10History
