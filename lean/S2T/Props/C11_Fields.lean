import S2T.Props.C11_Src
/-!
# C11 (fields) — a *directory entry* is a record whose NAME ends with '/', and nothing else of a
central-directory record reaches the guard

`S2T.ZipBomb.CdRecord` is a whole central-directory record as `zipfile` hands it out (a `ZipInfo`):
name, the two sizes, and every other field (external attributes with the MS-DOS directory bit and
the unix mode, creating system, versions, flag bits, compression method, CRC, DOS date/time, disk
number, extra field, comment).  The guard's model `validate` works on `Entry.ofRecord r =
(file_size, compress_size, name ends with '/')`.  The theorems tie that projection to the SOURCE:
`S2T.Gen.PyZipBomb._is_directory` / `validate_zipfile` are re-translated from the current text of
`zip_bomb.py` on every run; a guard that starts to read another attribute of the `ZipInfo` does not
translate (`C11_Src.gen_py_notes_empty`) or no longer equals the name test (`is_directory_src`).

ASSUMPTION (standard library, checked on every run by the harness on every generated name and on
every forged real ZIP): `ZipInfo.is_dir()` is `self.filename.endswith('/')` (`zipInfoOf`), and
`zipfile` parses name / sizes of a central-directory record as written.
-/
namespace S2T.C11.Fields
open S2T.Py S2T.ZipBomb S2T.Gen.PyZipBomb S2T.C11.Src

/-- the `ZipInfo` the translated functions see for a record: `is_dir()` is CPython's
    `filename.endswith('/')` -/
def zipInfoOf (r : CdRecord) : ZipInfo := ⟨r.filename, r.fileSize, r.compressSize, endswith r.filename "/".toList⟩

/-- `nameIsDir` is "the name is `p ++ "/"`" -/
theorem nameIsDir_iff (n : List Char) : nameIsDir n = true ↔ ∃ p, n = p ++ ['/'] := by
  unfold nameIsDir
  constructor
  · intro h
    have h' : n.getLast? = some '/' := by simpa using h
    obtain ⟨p, hp⟩ := List.getLast?_eq_some_iff.mp h'
    exact ⟨p, hp⟩
  · rintro ⟨p, rfl⟩
    simp

/-- … which is Python's `name.endswith("/")` of the translator's prelude -/
theorem nameIsDir_eq_endswith (n : List Char) : nameIsDir n = endswith n "/".toList := by
  have h1 := nameIsDir_iff n
  cases hd : nameIsDir n with
  | true =>
    obtain ⟨p, rfl⟩ := h1.mp hd
    simp [endswith]
  | false =>
    cases he : endswith n "/".toList with
    | false => rfl
    | true =>
      exfalso
      have hs : ['/'] <:+ n := by simpa [endswith] using he
      obtain ⟨p, hp⟩ := hs
      have : nameIsDir n = true := h1.mpr ⟨p, hp.symm⟩
      rw [hd] at this; cases this

/-- **the model's notion of "directory entry"**: exactly the records whose name ends with '/',
    whatever the external attributes (MS-DOS directory bit, unix mode), creating system, flags,
    method, extra, CRC, date or comment say. -/
theorem dir_is_trailing_slash (r : CdRecord) :
    (Entry.ofRecord r).isDir = true ↔ ∃ p, r.filename = p ++ ['/'] := nameIsDir_iff r.filename

/-- **tie to the source**: the translated `_is_directory` of the current `zip_bomb.py`, applied to the
    `ZipInfo` of a record, is the name test — for every value of every other field. -/
theorem is_directory_src (r : CdRecord) : _is_directory (zipInfoOf r) = nameIsDir r.filename := by
  rw [is_directory_eq, nameIsDir_eq_endswith]; rfl

/-- two records with the same name are both directories or both not (source level) -/
theorem is_directory_name_only (r r' : CdRecord) (h : r.filename = r'.filename) :
    _is_directory (zipInfoOf r) = _is_directory (zipInfoOf r') := by
  rw [is_directory_src, is_directory_src, h]

theorem entryOf_zipInfoOf (r : CdRecord) : entryOf (zipInfoOf r) = Entry.ofRecord r := by
  simp [entryOf, zipInfoOf, Entry.ofRecord, nameIsDir_eq_endswith]

/-- **the translated `validate_zipfile` on whole records is the hand model on their projections** -/
theorem validate_zipfile_records (lim : Limits) (src : Option Str) (rs : List CdRecord) (hs : FloatSafe lim) :
    validate_zipfile ⟨pure (rs.map zipInfoOf)⟩ lim src = lift id (validate lim (some (rs.map Entry.ofRecord))) := by
  rw [validate_zipfile_eq lim src _ hs, List.map_map]
  congr 3
  apply List.map_congr_left
  intro r _
  exact entryOf_zipInfoOf r

/-- what the verdict may depend on -/
def core (r : CdRecord) : Nat × Nat × Bool := (r.fileSize, r.compressSize, nameIsDir r.filename)

theorem ofRecord_core (r : CdRecord) : Entry.ofRecord r = ⟨(core r).1, (core r).2.1, (core r).2.2⟩ := rfl

/-- **C11 (no other field matters), model.** Containers whose records agree on
    (file_size, compress_size, name ends with '/') get the same verdict and the same reason. -/
theorem C11_other_fields_ignored (lim : Limits) (rs rs' : List CdRecord) (h : rs.map core = rs'.map core) :
    validate lim (some (rs.map Entry.ofRecord)) = validate lim (some (rs'.map Entry.ofRecord)) := by
  have e : ∀ l : List CdRecord, l.map Entry.ofRecord = (l.map core).map (fun c => (⟨c.1, c.2.1, c.2.2⟩ : Entry)) := by
    intro l; rw [List.map_map]; rfl
  rw [e rs, e rs', h]

/-- **C11 (no other field matters), source.** The same for the translated `validate_zipfile`. -/
theorem C11_other_fields_ignored_src (lim : Limits) (src : Option Str) (rs rs' : List CdRecord)
    (hs : FloatSafe lim) (h : rs.map core = rs'.map core) :
    validate_zipfile ⟨pure (rs.map zipInfoOf)⟩ lim src = validate_zipfile ⟨pure (rs'.map zipInfoOf)⟩ lim src := by
  rw [validate_zipfile_records lim src rs hs, validate_zipfile_records lim src rs' hs,
    C11_other_fields_ignored lim rs rs' h]

/-- a file member that carries the MS-DOS directory bit, a unix directory mode and "created on
    MS-DOS": still a file for the guard -/
def dosDirFile : CdRecord :=
  { filename := "word/document.xml".toList, fileSize := 1001, compressSize := 1001, externalAttr := 1106051088,   -- 0x41ED0010 = (S_IFDIR|0o755) <<< 16 ||| 0x10
   
    internalAttr := 0, createSystem := 0, createVersion := 20, extractVersion := 20, flagBits := 0,
    compressType := 8, crc := 0, dosDate := 33, dosTime := 0, volume := 0, extra := [], comment := [] }

example : _is_directory (zipInfoOf dosDirFile) = false := by rw [is_directory_src]; decide
/-- the same member as an ordinary archiver writes it -/
def plainFile : CdRecord :=
  { dosDirFile with
    externalAttr := 0, createSystem := 3, flagBits := 2048, compressType := 0, crc := 7, extra := [1, 0, 0, 0],
    comment := [47] }
example : core dosDirFile = core plainFile := by decide
example : validate ⟨5, 10000, 1000, ⟨200, 1⟩, ⟨500, 1⟩⟩ (some ([dosDirFile].map Entry.ofRecord)) = .error .entryTooLarge := by
  decide

end S2T.C11.Fields
