import S2T.Lemmas.HtmlSkip
import S2T.Gen.HtmlSkip
import S2T.Props.C17_Src
import S2T.Props.C17_Life
import S2T.Props.C17_Charset
/-!
# C17 — Removed markup is removed completely and takes nothing else with it

Objects: `Ev` = the handler calls `html.parser.HTMLParser` makes; `run T D st evs` = the model of
`_HtmlTreeBuilder` / `_XhtmlTextExtractor` (skip gate parametrised by the tables `T` and by the
class-specific rest of the handlers `D`); `Doc` = flat sequence of visible items and removed
elements whose content `junk : List Ev` is ANY event sequence that does not close the element
itself (`JunkOk`: start/end tags of the same name balanced).  See `Spec/HtmlDoc.lean`.

Full-strength statement (proved below for the gate as it is in the source now):

    ∀ T D doc st, DocOk T doc → Clean st →
      run T D st (events doc) = { st with down := D.feed st.down (downEvents doc) }

i.e. the class-specific part of the parser (tree builder, text/table collector) receives exactly the
calls of the visible items, in order, and nothing of any removed element / comment; and the gate is
back outside afterwards, so whatever follows is treated the same way.  Quantifiers: every table
pair, every downstream, every document (any length, any junk), every clean start state.

The same statement for the gate BEFORE the repair (`Legacy.run`: counter moved by every start and
end tag) is false — `legacy_cex_*` — and holds only under `LegacyItemOk` (`legacy_partial`).
-/
namespace S2T.C17
open S2T.HtmlSkip

section generic
variable {σ : Type} (T : Tables) (D : Down σ)

/-- **C17 (main).** For every document and every clean start state, the rest of the parser sees
    exactly the visible items' calls; the gate state is unchanged. -/
theorem gate_passes_exactly_visible (doc : Doc) (st : St σ) (hd : DocOk T doc = true) (hc : Clean st) :
    run T D st (events doc) = { st with down := D.feed st.down (downEvents doc) } :=
  run_doc T D doc st hd hc

/-- **C17 (takes nothing else with it).** Parsing a document leaves the parser in exactly the state
    that parsing the same document with every removed element and comment deleted leaves it in. -/
theorem removed_transparent (doc : Doc) (st : St σ) (hd : DocOk T doc = true) (hc : Clean st) :
    run T D st (events doc) = run T D st (events (strip doc)) := by
  rw [run_doc T D doc st hd hc, run_doc T D (strip doc) st (strip_ok T doc hd) hc, strip_downEvents]

/-- **C17 (visible).** The character data that gets through is the visible text, in order and
    multiplicity. -/
theorem kept_eq_visible (doc : Doc) (hd : DocOk T doc = true) :
    dataOf (run T logDown (init []) (events doc)).down = visibleData doc := by
  rw [run_doc T logDown doc (init []) hd ⟨rfl, rfl⟩]
  simp only [init, logDown_feed, List.nil_append]
  exact dataOf_downEvents doc

/-- **C17 (hidden).** A string inside a removed element or comment never gets through — unless the
    same string is also visible text somewhere in the document. -/
theorem hidden_not_kept (doc : Doc) (hd : DocOk T doc = true) (s : Str)
    (_ : s ∈ hiddenData doc) (hv : s ∉ visibleData doc) :
    DEv.data s ∉ (run T logDown (init []) (events doc)).down := by
  intro hm
  apply hv
  rw [← kept_eq_visible T doc hd]
  simp only [dataOf, List.mem_flatMap]
  exact ⟨.data s, hm, by simp⟩

/-- **C17 before the repair (partial).** The old gate is right on documents whose removed elements
    have content balanced over all tag names and whose empty removed elements are self-closing. -/
theorem legacy_partial (doc : Doc) (st : St σ) (hd : doc.all (LegacyItemOk T) = true)
    (h0 : st.skipDepth = 0) :
    Legacy.run T D st (events doc) = { st with down := D.feed st.down (downEvents doc) } :=
  legacy_run_doc T D doc st hd h0

end generic

/-! ## The tables of the current source -/
open S2T.Gen.HtmlSkip

/-- the translator found every table to be the literal the source shows, and the MHTML / MSG paths
    to use the HTML builder itself -/
theorem gen_notes_empty : notes = [] := by decide

/-- `REMOVE_TAGS` is exactly the list of the property statement; `_VOID_TAGS` agrees with the HTML
    standard on those names (`embed` is void, the other six are not) -/
theorem gen_html_tables_match : TablesMatchSpec htmlTables = true := by decide +kernel
theorem gen_epub_tables_match : TablesMatchSpec epubTables = true := by decide +kernel

/-- closed world: the only `HTMLParser` hooks the two classes override are the modelled ones, and
    only the modelled methods mention the gate's fields -/
theorem gen_overrides_modelled :
    (htmlOverrides ++ epubOverrides).all (fun n =>
      ["handle_starttag".toList, "handle_endtag".toList, "handle_startendtag".toList,
       "handle_data".toList, "handle_comment".toList].contains n) = true := by decide +kernel
theorem gen_skip_touch_modelled :
    (htmlSkipTouch ++ epubSkipTouch).all (fun n =>
      ["__init__".toList, "handle_starttag".toList, "handle_endtag".toList,
       "handle_startendtag".toList, "handle_data".toList].contains n) = true := by decide +kernel

/-- state of `_HtmlTreeBuilder()` / `_XhtmlTextExtractor()` after `feed` of the events -/
def htmlRun (evs : List Ev) : St Tree.State :=
  run htmlTables (Tree.down htmlVoid) (init Tree.initState) evs
def epubRun (evs : List Ev) : St Epub.State :=
  run epubTables (Epub.down epubBlock) (init Epub.initState) evs

/-- **C17 for `_HtmlTreeBuilder`** (HTML, MHTML, MSG body): for every document in the property's own
    grammar (`SpecDocOk` does not mention the library tables) the node tree is built from exactly
    the visible items. -/
theorem C17_html (doc : Doc) (h : SpecDocOk doc = true) :
    htmlRun (events doc) =
      init ((Tree.down htmlVoid).feed Tree.initState (downEvents doc)) := by
  have hd : DocOk htmlTables doc = true := by rw [specDocOk_iff _ gen_html_tables_match]; exact h
  exact run_doc htmlTables (Tree.down htmlVoid) doc (init Tree.initState) hd ⟨rfl, rfl⟩

/-- **C17 for `_XhtmlTextExtractor`** (EPUB chapters). -/
theorem C17_epub (doc : Doc) (h : SpecDocOk doc = true) :
    epubRun (events doc) =
      init ((Epub.down epubBlock).feed Epub.initState (downEvents doc)) := by
  have hd : DocOk epubTables doc = true := by rw [specDocOk_iff _ gen_epub_tables_match]; exact h
  exact run_doc epubTables (Epub.down epubBlock) doc (init Epub.initState) hd ⟨rfl, rfl⟩

/-- the tree / the collected text of a document equals that of the document with the removed
    elements and comments deleted -/
theorem C17_html_transparent (doc : Doc) (h : SpecDocOk doc = true) :
    htmlRun (events doc) = htmlRun (events (strip doc)) := by
  have hd : DocOk htmlTables doc = true := by rw [specDocOk_iff _ gen_html_tables_match]; exact h
  exact removed_transparent htmlTables _ doc _ hd ⟨rfl, rfl⟩
theorem C17_epub_transparent (doc : Doc) (h : SpecDocOk doc = true) :
    epubRun (events doc) = epubRun (events (strip doc)) := by
  have hd : DocOk epubTables doc = true := by rw [specDocOk_iff _ gen_epub_tables_match]; exact h
  exact removed_transparent epubTables _ doc _ hd ⟨rfl, rfl⟩

/-- **C17 (visible / hidden) on the current tables**, both machines. -/
theorem C17_visible (doc : Doc) (h : SpecDocOk doc = true) :
    dataOf (run htmlTables logDown (init []) (events doc)).down = visibleData doc ∧
    dataOf (run epubTables logDown (init []) (events doc)).down = visibleData doc := by
  constructor
  · exact kept_eq_visible _ doc (by rw [specDocOk_iff _ gen_html_tables_match]; exact h)
  · exact kept_eq_visible _ doc (by rw [specDocOk_iff _ gen_epub_tables_match]; exact h)

theorem C17_hidden (doc : Doc) (h : SpecDocOk doc = true) (s : Str)
    (hs : s ∈ hiddenData doc) (hv : s ∉ visibleData doc) :
    DEv.data s ∉ (run htmlTables logDown (init []) (events doc)).down ∧
    DEv.data s ∉ (run epubTables logDown (init []) (events doc)).down := by
  constructor
  · exact hidden_not_kept _ doc (by rw [specDocOk_iff _ gen_html_tables_match]; exact h) s hs hv
  · exact hidden_not_kept _ doc (by rw [specDocOk_iff _ gen_epub_tables_match]; exact h) s hs hv

/-! ## Counterexamples for the gate before the repair (all four replayed on the real code by the
harness: they fail on the unrepaired source and hold on the repaired one) -/

private def p : Str := "p".toList
private def para (s : String) : List Item := [.open_ p [], .text s.toList, .close p]

/-- `<p>a</p><noscript><img src=x></noscript><p>b</p>` -/
def wVoidChild : Doc :=
  para "a" ++ [.removed "noscript".toList [] [.start "img".toList [("src".toList, some "x".toList)]]] ++ para "b"
/-- `<p>a</p><object><param name=a><embed src=b></object><p>b</p>` -/
def wObjectParam : Doc :=
  para "a" ++ [.removed "object".toList [] [.start "param".toList [("name".toList, some "a".toList)],
                                            .start "embed".toList [("src".toList, some "b".toList)]]] ++ para "b"
/-- `<p>a</p><embed src=x><p>b</p>` -/
def wBareEmbed : Doc :=
  para "a" ++ [.removedEmpty "embed".toList [("src".toList, some "x".toList)] false] ++ para "b"
/-- `<p>a</p><noscript></div>leak</noscript><p>b</p>` -/
def wStrayEnd : Doc :=
  para "a" ++ [.removed "noscript".toList [] [.end_ "div".toList, .data "leak".toList]] ++ para "b"

private def legacyKept (doc : Doc) : List Str :=
  dataOf (Legacy.run htmlTables logDown (init []) (events doc)).down

/-- void child: everything after the removed element is lost -/
theorem legacy_cex_void_child :
    SpecDocOk wVoidChild = true ∧ visibleData wVoidChild = ["a".toList, "b".toList] ∧
    legacyKept wVoidChild = ["a".toList] := by decide +kernel
theorem legacy_cex_object_param :
    SpecDocOk wObjectParam = true ∧ visibleData wObjectParam = ["a".toList, "b".toList] ∧
    legacyKept wObjectParam = ["a".toList] := by decide +kernel
/-- a removable void element hides the rest of the document -/
theorem legacy_cex_bare_embed :
    SpecDocOk wBareEmbed = true ∧ visibleData wBareEmbed = ["a".toList, "b".toList] ∧
    legacyKept wBareEmbed = ["a".toList] := by decide +kernel
/-- a stray end tag inside a removed element lets its text out -/
theorem legacy_cex_stray_end :
    SpecDocOk wStrayEnd = true ∧ "leak".toList ∈ hiddenData wStrayEnd ∧
    legacyKept wStrayEnd = ["a".toList, "leak".toList, "b".toList] := by decide +kernel

/-! ## Non-vacuity -/
example : Clean (init Tree.initState) := ⟨rfl, rfl⟩
example : Clean (init Epub.initState) := ⟨rfl, rfl⟩
example : DocOk htmlTables wVoidChild = true ∧ DocOk epubTables wStrayEnd = true := by decide +kernel
example : SpecDocOk (wVoidChild ++ wObjectParam ++ wBareEmbed ++ wStrayEnd) = true := by decide +kernel
/-- junk with nested removable elements, a nested same-name element, a self-closing same-name form,
    comments, CDATA, void and unclosed tags, stray end tags -/
def wRich : Doc :=
  para "a" ++
  [.removed "object".toList [("data".toList, some "x".toList)]
     [.start "param".toList [], .start "object".toList [], .data "h1".toList, .startend "object".toList [],
      .start "noscript".toList [], .end_ "object".toList, .end_ "span".toList, .comment "c".toList,
      .unknownDecl "CDATA[ x ".toList, .start "script".toList [], .data "h2".toList, .startend "br".toList []],
   .comment "top".toList, .removedEmpty "script".toList [] true, .close "noscript".toList] ++ para "b"
example : SpecDocOk wRich = true ∧ hiddenData wRich = ["h1".toList, "c".toList, "CDATA[ x ".toList, "h2".toList, "top".toList]
    ∧ "h1".toList ∉ visibleData wRich := by decide +kernel
example : dataOf (run htmlTables logDown (init []) (events wRich)).down = ["a".toList, "b".toList] := by
  decide +kernel
-- `legacy_partial`'s hypothesis is satisfiable by a document with a (balanced) removed element
example : ([.text "a".toList, .removed "script".toList [] [.data "x".toList],
            .removed "noscript".toList [] [.start p [], .data "y".toList, .end_ p],
            .removedEmpty "embed".toList [] true, .text "b".toList] : Doc).all (LegacyItemOk htmlTables) = true := by
  decide +kernel
-- and is violated by each witness
example : wVoidChild.all (LegacyItemOk htmlTables) = false ∧ wBareEmbed.all (LegacyItemOk htmlTables) = false
    ∧ wStrayEnd.all (LegacyItemOk htmlTables) = false := by decide +kernel

end S2T.C17
