import S2T.Model.HtmlCharset
/-!
# C17 (encoding prescan) — OPEN finding `html.charset-sniffed-in-removed-content`

`read_html` looks for `<meta … charset=…>` with a byte regex in the first 8 KiB of the file before anything is parsed,
so the regex also sees the CONTENT of comments and of removed elements.  A comment / script / noscript that mentions a
`<meta charset=…>` therefore changes how every visible non-ASCII character of the document is decoded: the removed
markup does take something else with it.  The full-strength statement

  `sniff (pre ++ hidden ++ post) = sniff (pre ++ post)`   for every comment / removed element `hidden`

is FALSE on the current source (`charset_cex_comment`, `charset_cex_script`, `charset_cex_noscript`; replayed on the
real code by the harness witness `charset-in-comment`).  What holds is the partial statement below.
-/
namespace S2T.C17.Charset
open S2T.HtmlCharset

/-- no `<meta` (any case) anywhere in the text -/
def NoMeta (t : List Char) : Prop := ∀ i, startsCI kwMeta (t.drop i) = false

theorem search_none_of_noMeta : ∀ t, NoMeta t → search t = none := by
  intro t
  induction t with
  | nil => intro _; rfl
  | cons c r ih =>
    intro h
    have h0 : startsCI kwMeta (c :: r) = false := by simpa using h 0
    have hr : NoMeta r := fun i => by simpa using h (i + 1)
    simp [search, h0, ih hr]

/-- PARTIAL: removing a comment / removed element `hidden` leaves the sniffed encoding alone when neither the document
    nor the document without it mentions `<meta` at all (then nothing is sniffed and UTF-8 is used).  This is the only
    exclusion-free class: as soon as a `<meta` occurs in `hidden` the counterexamples below apply, and one in `pre`
    can have its attribute run extended into `hidden` (`charset_cex_run_into_comment`). -/
theorem charset_partial (pre hidden post : List Char)
    (h1 : NoMeta (pre ++ hidden ++ post)) (h2 : NoMeta (pre ++ post)) :
    search (pre ++ hidden ++ post) = search (pre ++ post) := by
  rw [search_none_of_noMeta _ h1, search_none_of_noMeta _ h2]

/-- `NoMeta` is decidable by looking at every suffix -/
theorem noMeta_of_check (t : List Char)
    (h : (List.range (t.length + 1)).all (fun i => !startsCI kwMeta (t.drop i)) = true) : NoMeta t := by
  intro i
  by_cases hi : i < t.length + 1
  · have := List.all_eq_true.mp h i (List.mem_range.mpr hi)
    simpa using this
  · have : t.drop i = [] := List.drop_eq_nil_of_le (by omega)
    rw [this]; rfl

-- the hypotheses of `charset_partial` are satisfiable by a document with a comment and a removed element
example : NoMeta ("<p>caf\xc3\xa9".toList ++ "<!-- x --><script>y</script>".toList ++ "</p>".toList) ∧
    NoMeta ("<p>caf\xc3\xa9".toList ++ "</p>".toList) :=
  ⟨noMeta_of_check _ (by decide +kernel), noMeta_of_check _ (by decide +kernel)⟩

def wPre : List Char := "<html><head>".toList
def wPost : List Char := "</head><body><p>caf\xc3\xa9</p></body></html>".toList

/-- a comment that mentions a meta declaration decides the encoding of the whole document -/
theorem charset_cex_comment :
    sniff (wPre ++ "<!-- <meta charset=\"latin-1\"> -->".toList ++ wPost) = some "latin-1".toList ∧
    sniff (wPre ++ wPost) = none := by decide +kernel

/-- so does a script whose text contains one -/
theorem charset_cex_script :
    sniff (wPre ++ "<script>var m = '<meta charset=\"latin-1\">';</script>".toList ++ wPost) = some "latin-1".toList ∧
    sniff (wPre ++ wPost) = none := by decide +kernel

/-- and a (void) child of a noscript element -/
theorem charset_cex_noscript :
    sniff (wPre ++ "<noscript><META http-equiv=x content='text/html; charset=cp1252'></noscript>".toList ++ wPost)
      = some "cp1252".toList ∧ sniff (wPre ++ wPost) = none := by decide +kernel

/-- the attribute run of a visible, unterminated `<meta` extends into a following comment -/
theorem charset_cex_run_into_comment :
    sniff ("<meta name=a ".toList ++ "<!-- charset=koi8-r -->".toList ++ "<p>x</p>".toList) = some "koi8-r".toList ∧
    sniff ("<meta name=a ".toList ++ "<p>x</p>".toList) = none := by decide +kernel

end S2T.C17.Charset
