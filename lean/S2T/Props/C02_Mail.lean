import S2T.Model.C02Mail
import S2T.Lemmas.OoxmlWords
import S2T.Gen.C02Mail
import S2T.Gen.Ooxml
/-!
# C02 (part 'mail') — the text/plain body of an e-mail

For every body (any number of lines; every line = leading blanks, words, trailing blanks - which covers soft-wrapped
format=flowed lines with or without DelSp, space-stuffed lines, the signature separator, fixed bodies with stray
blanks) and EVERY Content-Type parameter list, the words of `get_full_text()` are exactly the words of the lines, in
order: two words the source separates by a blank and a line break are never one word.  `gen_body_reads` re-decides on
every run that the body path of the current source reads nothing of a part but its payload, type, charset, file name
and Content-Disposition - a new parameter read (`get_param("format")`, `get_param("delsp")`, …) breaks it.
-/
namespace S2T.C02.Mail
open S2T.C02.Ooxml

/-! ## Tie to the current source -/

theorem gen_notes_empty : S2T.Gen.C02Mail.notes = [] := by decide

/-- the functions of the mbox body path -/
theorem gen_body_callees : S2T.Gen.C02Mail.bodyCallees = ["_is_attachment_part", "_iter_message_parts", "get_body_content"] := by
  decide

/-- everything the body path calls on a message part / on the payload: transfer decoding, charset decoding (with the
    utf-8 fallback), type, charset, multipart test, and the two attachment tests.  No `get_param`, no `get_params`, no
    `replace` / `split` / `rstrip` of the decoded text. -/
theorem gen_body_reads : S2T.Gen.C02Mail.bodyReads =
    [("decode", ""), ("decode", "utf-8"), ("get", "Content-Disposition"), ("get_content_charset", ""),
     ("get_content_type", ""), ("get_filename", ""), ("get_payload", ""), ("is_multipart", "")] := by
  decide

/-- `EmailContent.__post_init__` strips subject and plain body and does nothing else -/
theorem gen_post_init : S2T.Gen.C02Mail.postInit = [("subject", "strip"), ("body_plain", "strip")] := by decide

/-! ## Fidelity -/

variable {ws : Char → Bool}

/-- a word: not empty, no white space in it -/
def IsWord (ws : Char → Bool) (w : Str) : Prop := w ≠ [] ∧ ∀ c ∈ w, ws c = false

def LineOk (ws : Char → Bool) (l : Line) : Prop := AllWs ws l.pre ∧ AllWs ws l.trail ∧ ∀ w ∈ l.words, IsWord ws w

private theorem flatMap_words_tokens (l : List Str) (h : ∀ w ∈ l, IsWord ws w) : l.flatMap (words ws) = l := by
  induction l with
  | nil => rfl
  | cons w r ih =>
    have hw := h w (by simp)
    simp only [List.flatMap_cons, words_token w hw.1 hw.2, ih (fun x hx => h x (by simp [hx]))]
    rfl

theorem words_lineText (hsp : ws ' ' = true) (l : Line) (h : LineOk ws l) : words ws (lineText l) = l.words := by
  obtain ⟨hp, ht, hwds⟩ := h
  have hsep : AllWs ws [' '] := by intro c hc; simp at hc; subst hc; exact hsp
  rw [lineText, List.append_assoc, words_allws_append _ _ hp, words_append_allws _ _ ht,
    words_join _ (by simp) hsep, flatMap_words_tokens _ hwds]

/-- the words of the body text are the words of its lines, in order -/
theorem body_words (hsp : ws ' ' = true) (nl : Str) (hne : nl ≠ []) (hnl : AllWs ws nl) (ls : List Line)
    (h : ∀ l ∈ ls, LineOk ws l) : words ws (renderBody nl ls) = ls.flatMap (·.words) := by
  rw [renderBody, words_join _ hne hnl]
  induction ls with
  | nil => rfl
  | cons l r ih =>
    simp only [List.map_cons, List.flatMap_cons, words_lineText hsp l (h l (by simp)),
      ih (fun x hx => h x (by simp [hx]))]

/-- **Mail body fidelity.**  For every body, every Content-Type parameter list and every HTML alternative: the words
    of `get_full_text()` are the words of the body lines, each once, in order, never fused across a line break
    (soft or hard), and nothing of the HTML alternative - provided the body has a word at all (else the HTML body is
    the documented fallback). -/
theorem C02_mail_fidelity (hsp : ws ' ' = true) (nl : Str) (hnn : nl ≠ []) (hnl : AllWs ws nl) (params : List (Str × Str))
    (html : Str) (ls : List Line) (h : ∀ l ∈ ls, LineOk ws l) (hne : ls.flatMap (·.words) ≠ []) :
    words ws (fullText ws params (renderBody nl ls) html) = ls.flatMap (·.words) := by
  have hb : words ws (strip ws (renderBody nl ls)) = ls.flatMap (·.words) := by
    rw [words_strip ws (fun _ hc => hc), body_words hsp nl hnn hnl ls h]
  have hn : (strip ws (renderBody nl ls)).isEmpty = false := by
    cases hs : strip ws (renderBody nl ls) with
    | nil => rw [hs] at hb; exact absurd hb.symm hne
    | cons _ _ => rfl
  simp only [fullText, bodyPlain, hn, Bool.false_eq_true, if_false]
  rw [words_strip ws (fun _ hc => hc)]
  exact hb

/-- the parameters are not read: any two parameter lists give the same full text -/
theorem C02_mail_params_irrelevant (ws : Char → Bool) (p q : List (Str × Str)) (payload html : Str) :
    fullText ws p payload html = fullText ws q payload html := rfl

/-- the hypotheses are satisfiable non-trivially: a format=flowed; delsp=no body with a soft-wrapped first line,
    a space-stuffed second line and the signature separator -/
example : let ls : List Line := [⟨[], ["A1".toList, "B2".toList], [' ']⟩, ⟨[' '], ["From".toList, "C3".toList], []⟩,
                                 ⟨[], ["--".toList], [' ']⟩]
    (∀ l ∈ ls, LineOk S2T.Gen.Ooxml.isPySpace l) ∧
    words S2T.Gen.Ooxml.isPySpace (fullText S2T.Gen.Ooxml.isPySpace [("format".toList, "flowed".toList), ("delsp".toList, "no".toList)]
      (renderBody ['\r', '\n'] ls) []) = ["A1".toList, "B2".toList, "From".toList, "C3".toList, "--".toList] := by
  refine ⟨?_, by decide +kernel⟩
  intro l hl
  simp only [List.mem_cons, List.not_mem_nil, or_false] at hl
  rcases hl with rfl | rfl | rfl <;> refine ⟨?_, ?_, ?_⟩ <;> simp [AllWs, IsWord] <;> decide

end S2T.C02.Mail
