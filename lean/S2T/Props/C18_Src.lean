import S2T.Lemmas.PySharePoint
import S2T.Gen.PyClient
/-!
# C18 (source tie) — the translated filter functions of `sharepoint_io/client.py` ARE the hand model `S2T.SP`

`S2T.Gen.PyClient` is regenerated from the current text of `client.py` on every run (`tools/gen/pyfun_paths.py`,
construct by construct).  For every filter object, every file-metadata object, every `str.lower`,
`fnmatch.fnmatch` and `datetime.fromisoformat` (fields of `SpEnv`, universally quantified):

* `SharePointFileMetadata.get_full_path`  = `FileMeta.fullPath`             (`get_full_path_eq`)
* `_parse_iso_datetime`                   = `parseIso Cfg.fixed`            (`parse_iso_datetime_eq`): the `Z`
  rewrite, the cut at the first `.`, the time-zone search (`+`, else `-`), the digit test and the padding of the
  fraction — every branch, every string;
* `FileFilter.matches`                    = `matchesF Cfg.fixed`            (`matches_eq`): both date blocks (inclusive
  lower, exclusive upper bound), the extension test, the pattern test, in this order, and it never raises;
* `FileFilter.get_target_folders`         = the `folder_paths` field        (`get_target_folders_eq`).

Hypotheses, all about the environment (what the functions do outside them is stated as well):
* `IsoRaisesValueError`: `datetime.fromisoformat` raises nothing but `ValueError` — any other exception is
  outside the `except (ValueError, AttributeError)` clause and propagates;
* `WholeSecond` / `DatesOk`: what `fromisoformat` returns for the fraction-free string has no microseconds.
  Outside it source and model DIFFER (`comma_fraction_counterexample`): a finding about the model, which adds the
  fraction where the source replaces the microseconds.
* datetimes are aware instants (`S2T.Py.DateTime`, µs since the epoch): a naive bound compared with an aware
  timestamp raises `TypeError` in Python and is outside the model `S2T.SP` as well.

`matches_eq` is proved by PEELING: the code after the first date block of a filter is the whole function of the
same filter without creation bounds (`matches_no_created`), and so on (`matches_no_dates`) — so the proof never
spells the shape of a block out; each block is then a handful of small Boolean leaves.
-/
set_option linter.unusedSimpArgs false
namespace S2T.C18.Src
open S2T.Py S2T.SP S2T.Gen.PyClient

/-- the translator understood every construct of the whitelisted functions -/
theorem gen_py_notes_empty : S2T.Gen.PyClient.notes = [] := by decide

/-- the functions this file ties (a renamed / removed function breaks this) -/
theorem gen_py_translated : S2T.Gen.PyClient.translated =
    ["SharePointFileMetadata.get_full_path", "_parse_iso_datetime", "FileFilter.matches",
     "FileFilter.get_target_folders"] := by decide

/-! ## `_parse_iso_datetime` -/

/-- the model's `iso` parameter read off the environment: `datetime.fromisoformat` as µs since the epoch,
    `none` when it raises -/
def isoOf (env : SpEnv) : Py.Str → Option Int := fun s =>
  match env.fromisoformat s with
  | .ok d => some d.us
  | .error _ => none

/-- `datetime.fromisoformat` raises nothing but `ValueError` (documented) -/
def IsoRaisesValueError (env : SpEnv) : Prop :=
  ∀ s e, env.fromisoformat s = .error e → (e.isa "ValueError" || e.isa "AttributeError") = true

/-- the string `_parse_iso_datetime` hands to `fromisoformat` after cutting a fraction out (`none`: no `.`) -/
def dotArg (s0 : Py.Str) : Option Py.Str :=
  let s := if s0.getLast? = some 'Z' then s0.dropLast ++ "+00:00".toList else s0
  if s.contains '.' then
    let rest := (s.dropWhile (· ≠ '.')).drop 1
    some (s.takeWhile (· ≠ '.') ++ (match tzIndex rest with | some i => rest.drop i | none => []))
  else none

/-- what `fromisoformat` returns for the fraction-free string has no microseconds of its own -/
def WholeSecond (env : SpEnv) (s0 : Py.Str) : Prop :=
  ∀ a d, dotArg s0 = some a → env.fromisoformat a = .ok d → d.us % 1000000 = 0

/-- monad plumbing and Boolean facts the leaves of `parse_iso_datetime_eq` reduce with (no arithmetic, no
    unfolding of the model's digit functions) -/
macro "py_iso_simp" "[" ts:Lean.Parser.Tactic.simpLemma,* "]" : tactic => `(tactic| (
  simp +instances only [$ts,*, isoOf, Cfg.fixed, M.pure_def, M.throw_def, M.ok_bind', M.error_bind', M.tryCatch_ok',
    M.tryCatch_error', truthy_list, List.isEmpty_cons, List.isEmpty_nil, Bool.not_false, Bool.not_true, Bool.and_true,
    Bool.true_and, Bool.and_false, Bool.false_and, Bool.not_not, Bool.false_eq_true, if_true, if_false, ite_true,
    ite_false, Option.map_some, Option.map_none, ascii_and_isdigit, isdigit_and_ascii, slice_to_six, reduceCtorEq,
    List.all_nil, decide_true, decide_false]
  try rfl))

/-- leaf of `parse_iso_datetime_eq`: `fromisoformat ARG` raised / returned, the fraction `F` is empty / a run of
    digits / something else -/
macro "py_iso_case" env:ident hV:ident hW:ident F:term:max ARG:term:max : tactic => `(tactic| (
  rcases hi : SpEnv.fromisoformat $env $ARG with e | d
  · have hve := $hV _ _ hi
    py_iso_simp [hi, hve]
  · rcases hf : ($F : Py.Str) with _ | ⟨c, f'⟩
    · py_iso_simp [hi, hf]
    · rcases hd : (c :: f').all isAsciiDigit
      · py_iso_simp [hi, hf, hd]
      · have hw := $hW _ _ rfl hi
        have hk := microOf_lt _ hd
        have hint := intOfStr_padded $env _ hd
        simp +instances only [hf]
        -- the value of the fraction stays opaque (unfolding it makes the definitional checks explode)
        generalize microOf (c :: f') = m at hk hint ⊢
        py_iso_simp [hi, hd, hint, dtReplace_whole _ _ hk hw]))

/-- the body of `_parse_iso_datetime` after the `Z` rewrite, `s` being the string it then works on -/
macro "py_iso_body" env:ident hV:ident hW:ident s:ident : tactic => `(tactic| (
  rcases hdot : List.contains $s '.'
  · rcases hi : SpEnv.fromisoformat $env $s with e | d
    all_goals (
      try have hve := $hV _ _ hi
      try simp only [Bool.or_eq_true] at hve
      simp +instances only [strContainsChar, hdot, Bool.false_eq_true, if_false]
      simp +instances [hi, isoOf, EarlyReturn.runK, EarlyReturnT.return, *]
      try rfl)
  · simp +instances only [strContainsChar, hdot, splitOnce_of_contains _ _ hdot, unpack2_pair, if_true,
      M.ok_bind] at $hW:ident ⊢
    generalize List.takeWhile (· ≠ '.') $s = base at $hW:ident ⊢
    generalize List.drop 1 (List.dropWhile (· ≠ '.') $s) = rest at $hW:ident ⊢
    rcases hp : rest.findIdx? (· == '+') with _ | ip <;> rcases hm : rest.findIdx? (· == '-') with _ | im
    · simp +instances only [tzIndex, hp, hm, strFindChar_none _ _ hp, strFindChar_none _ _ hm, List.append_nil,
        show ((-1 : Int) == -1) = true from rfl, show ((-1 : Int) != -1) = false from rfl,
        show decide ((-1 : Int) < 0) = true from rfl, show decide ((-1 : Int) ≥ 0) = false from rfl,
        show decide ((-1 : Int) ≤ -1) = true from rfl, show decide ((-1 : Int) > -1) = false from rfl,
        show decide ((0 : Int) > -1) = true from rfl, show decide ((0 : Int) ≤ -1) = false from rfl, if_true,
        Bool.false_eq_true, if_false] at $hW:ident ⊢
      py_iso_case $env $hV $hW rest base
    · simp +instances only [tzIndex, hp, hm, strFindChar_none _ _ hp, strFindChar_some _ _ _ hm, natCast_beq_neg_one,
        natCast_bne_neg_one, pSlice_to_nat, pSlice_from_nat, natCast_lt_zero, natCast_ge_zero, zero_le_natCast,
        zero_gt_natCast, decide_true, decide_false,
        show ((-1 : Int) == -1) = true from rfl, show decide ((-1 : Int) < 0) = true from rfl,
        show decide ((-1 : Int) ≤ -1) = true from rfl, show decide ((0 : Int) > -1) = true from rfl,
        if_true, Bool.false_eq_true, if_false] at $hW:ident ⊢
      py_iso_case $env $hV $hW (rest.take im) (base ++ rest.drop im)
    · simp +instances only [tzIndex, hp, hm, strFindChar_some _ _ _ hp, natCast_beq_neg_one,
        natCast_bne_neg_one, pSlice_to_nat, pSlice_from_nat, natCast_lt_zero, natCast_ge_zero, zero_le_natCast,
        zero_gt_natCast, decide_true, decide_false, if_true, Bool.false_eq_true, if_false] at $hW:ident ⊢
      py_iso_case $env $hV $hW (rest.take ip) (base ++ rest.drop ip)
    · simp +instances only [tzIndex, hp, hm, strFindChar_some _ _ _ hp, natCast_beq_neg_one,
        natCast_bne_neg_one, pSlice_to_nat, pSlice_from_nat, natCast_lt_zero, natCast_ge_zero, zero_le_natCast,
        zero_gt_natCast, decide_true, decide_false, if_true, Bool.false_eq_true, if_false] at $hW:ident ⊢
      py_iso_case $env $hV $hW (rest.take ip) (base ++ rest.drop ip)))

/-- **`_parse_iso_datetime` is `parseIso`** (fixed configuration: fractions are kept), for every string -/
theorem parse_iso_datetime_eq (env : SpEnv) (s0 : Py.Str) (hV : IsoRaisesValueError env) (hW : WholeSecond env s0) :
    _parse_iso_datetime env s0 = pure ((parseIso Cfg.fixed (isoOf env) s0).map DateTime.mk) := by
  have hZ : endswith s0 "Z".toList = decide (s0.getLast? = some 'Z') := endswith_singleton _ _
  unfold WholeSecond dotArg at hW
  unfold _parse_iso_datetime parseIso
  by_cases hz : s0.getLast? = some 'Z'
  · simp only [hZ, hz, decide_true, if_true, slice_dropLast] at hW ⊢
    generalize s0.dropLast ++ "+00:00".toList = s at hW ⊢
    py_iso_body env hV hW s
  · simp only [hZ, hz, decide_false, Bool.false_eq_true, if_false] at hW ⊢
    py_iso_body env hV hW s0


/-! ## `SharePointFileMetadata.get_full_path`, `FileFilter.get_target_folders` -/

/-- the model's `FileMeta` of a metadata object (`parent_path = None` is the model's empty parent) -/
def metaOf (fm : SpFileMeta) : FileMeta :=
  { name := fm.name, id := fm.id, created := fm.created, modified := fm.lastModified, parent := fm.parentPath.getD [] }

/-- **`get_full_path` is `FileMeta.fullPath`** (never raises: the f-string is only reached with a parent) -/
theorem get_full_path_eq (fm : SpFileMeta) :
    SharePointFileMetadata.get_full_path fm = pure (metaOf fm).fullPath := by
  obtain ⟨name, id, created, modified, parent⟩ := fm
  rcases parent with _ | _ | ⟨c, r⟩ <;>
  simp +instances [SharePointFileMetadata.get_full_path, FileMeta.fullPath, metaOf]

/-- `get_target_folders` returns the `folder_paths` field itself -/
theorem get_target_folders_eq (f : FileFilter) : FileFilter.get_target_folders f = f.folderPaths := by
  simp [FileFilter.get_target_folders, Id.run, pure]

/-! ## `FileFilter.matches` -/

/-- the model's `Filter` of a `FileFilter` object (datetimes as µs since the epoch) -/
def filterOf (f : FileFilter) : Filter :=
  { createdAfter := f.createdAfter.map (·.us), createdBefore := f.createdBefore.map (·.us),
    modifiedAfter := f.modifiedAfter.map (·.us), modifiedBefore := f.modifiedBefore.map (·.us),
    patterns := f.pathPatterns, extensions := f.extensions }

/-- the date strings of a metadata object parse within the model's assumptions -/
def DatesOk (env : SpEnv) (fm : SpFileMeta) : Prop :=
  (∀ s, fm.created = some s → WholeSecond env s) ∧ (∀ s, fm.lastModified = some s → WholeSecond env s)

/-- no date bound at all: extensions and patterns only -/
theorem matches_no_dates (env : SpEnv) (f : FileFilter) (fm : SpFileMeta)
    (h : f.createdAfter = none ∧ f.createdBefore = none ∧ f.modifiedAfter = none ∧ f.modifiedBefore = none) :
    FileFilter.matches env f fm
      = pure (matchesF Cfg.fixed (isoOf env) env.lower env.fnmatch (filterOf f) (metaOf fm)) := by
  obtain ⟨ca, cb, ma, mb, folders, pats, exts⟩ := f
  obtain ⟨name, id, created, modified, parent⟩ := fm
  obtain ⟨rfl, rfl, rfl, rfl⟩ := h
  unfold FileFilter.matches
  rcases exts with _ | ⟨e, es⟩ <;> rcases pats with _ | ⟨p, ps⟩ <;>
  simp +instances [get_full_path_eq, matchesF, dateOk, extOk, patOk, filterOf, metaOf, endswith] <;>
  (repeat' split) <;> (first | (simp_all; done) | (simp_all; grind) | grind)


/-- the leaves of a date block: the two bounds absent / present, the raw string absent / empty / there, its parse
    failing / succeeding (`hp`: what `_parse_iso_datetime` returns for that string); the continuation has
    already been replaced by its value, so every leaf is a small Boolean identity -/
macro "py_date_block" env:ident a:ident b:ident raw:ident hp:ident : tactic => `(tactic| (
  rcases $raw:ident with _ | s
  · rcases $a:ident with _ | a <;> rcases $b:ident with _ | b <;>
    simp +instances [matchesF, dateOk, filterOf, metaOf, M.ite_ok]
  · simp +instances only [unwrap_some, M.ok_bind', M.pure_def, $hp:ident _ rfl, matchesF, dateOk, filterOf, metaOf]
    generalize parseIso Cfg.fixed (isoOf $env) s = P
    rcases $a:ident with _ | a <;> rcases $b:ident with _ | b <;> rcases s with _ | ⟨c, r⟩ <;> rcases P with _ | t <;>
    simp +instances [M.ite_ok] <;>
    grind))

/-- what makes a date block without bounds disappear, however its test is written (`if a or b`, `is not None`, …) -/
macro "py_dead_block" "at" h:ident : tactic => `(tactic| (
  dsimp +instances only at $h:ident ⊢
  try simp +instances only [truthy_none, Option.isSome_none, Option.isNone_none, Bool.or_self, Bool.or_false,
    Bool.false_or, Bool.and_false, Bool.false_and, Bool.not_true, Bool.not_false, Bool.false_eq_true,
    Bool.true_eq_false, if_false, if_true, ne_eq, not_true_eq_false, not_false_eq_true, reduceCtorEq, decide_false,
    decide_true, or_self, or_false, false_or, and_false, false_and] at $h:ident ⊢))

/-- no creation bound: the modification block, then extensions and patterns (PEELING: what follows the block is
    the function of the filter without any date bound) -/
theorem matches_no_created (env : SpEnv) (f : FileFilter) (fm : SpFileMeta) (hV : IsoRaisesValueError env)
    (hD : DatesOk env fm) (h : f.createdAfter = none ∧ f.createdBefore = none) :
    FileFilter.matches env f fm
      = pure (matchesF Cfg.fixed (isoOf env) env.lower env.fnmatch (filterOf f) (metaOf fm)) := by
  obtain ⟨ca, cb, ma, mb, folders, pats, exts⟩ := f
  obtain ⟨name, id, created, modified, parent⟩ := fm
  obtain ⟨rfl, rfl⟩ := h
  have hp2 : ∀ s, modified = some s → _ := fun s h => parse_iso_datetime_eq env s hV (hD.2 s h)
  have hK := matches_no_dates env ⟨none, none, none, none, folders, pats, exts⟩ ⟨name, id, created, modified, parent⟩
    ⟨rfl, rfl, rfl, rfl⟩
  unfold FileFilter.matches at hK ⊢
  py_dead_block at hK
  simp +instances only [hK]
  clear hK
  py_date_block env ma mb modified hp2

/-- no modification bound (the same, for a source that tests the modification date first) -/
theorem matches_no_modified (env : SpEnv) (f : FileFilter) (fm : SpFileMeta) (hV : IsoRaisesValueError env)
    (hD : DatesOk env fm) (h : f.modifiedAfter = none ∧ f.modifiedBefore = none) :
    FileFilter.matches env f fm
      = pure (matchesF Cfg.fixed (isoOf env) env.lower env.fnmatch (filterOf f) (metaOf fm)) := by
  obtain ⟨ca, cb, ma, mb, folders, pats, exts⟩ := f
  obtain ⟨name, id, created, modified, parent⟩ := fm
  obtain ⟨rfl, rfl⟩ := h
  have hp1 : ∀ s, created = some s → _ := fun s h => parse_iso_datetime_eq env s hV (hD.1 s h)
  have hK := matches_no_dates env ⟨none, none, none, none, folders, pats, exts⟩ ⟨name, id, created, modified, parent⟩
    ⟨rfl, rfl, rfl, rfl⟩
  unfold FileFilter.matches at hK ⊢
  py_dead_block at hK
  simp +instances only [hK]
  clear hK
  py_date_block env ca cb created hp1

/-- **`FileFilter.matches` is `matchesF`** (fixed configuration) at the model's view of the filter and of the
    metadata object: for every filter, every metadata object whose date strings parse within the model's
    assumptions (`DatesOk`), every `str.lower`, `fnmatch.fnmatch` and `datetime.fromisoformat` that raises only
    `ValueError`.  It never raises. -/
theorem matches_eq (env : SpEnv) (f : FileFilter) (fm : SpFileMeta) (hV : IsoRaisesValueError env)
    (hD : DatesOk env fm) :
    FileFilter.matches env f fm
      = pure (matchesF Cfg.fixed (isoOf env) env.lower env.fnmatch (filterOf f) (metaOf fm)) := by
  obtain ⟨ca, cb, ma, mb, folders, pats, exts⟩ := f
  obtain ⟨name, id, created, modified, parent⟩ := fm
  have hp1 : ∀ s, created = some s → _ := fun s h => parse_iso_datetime_eq env s hV (hD.1 s h)
  have hp2 : ∀ s, modified = some s → _ := fun s h => parse_iso_datetime_eq env s hV (hD.2 s h)
  first
  | -- the creation block comes first: what follows it is the function of the filter without creation bounds
    (have hK := matches_no_created env ⟨none, none, ma, mb, folders, pats, exts⟩ ⟨name, id, created, modified, parent⟩
      hV hD ⟨rfl, rfl⟩
     unfold FileFilter.matches at hK ⊢
     py_dead_block at hK
     simp +instances only [hK]
     clear hK
     py_date_block env ca cb created hp1)
  | -- the modification block comes first
    (have hK := matches_no_modified env ⟨ca, cb, none, none, folders, pats, exts⟩ ⟨name, id, created, modified, parent⟩
      hV hD ⟨rfl, rfl⟩
     unfold FileFilter.matches at hK ⊢
     py_dead_block at hK
     simp +instances only [hK]
     clear hK
     py_date_block env ma mb modified hp2)

/-! ## the hypotheses are satisfiable, and what happens outside `WholeSecond` (finding about the MODEL) -/

/-- a toy standard library: `fromisoformat` knows one timestamp, everything else is a `ValueError` -/
def toyEnv : SpEnv :=
  { lower := id, fnmatch := fun a p => a == p,
    fromisoformat := fun s => if s = "2024-01-15T10:00:00+00:00".toList then pure ⟨1705312800000000⟩ else throw pValueError,
    isdigitOther := fun _ => false, intOther := fun _ => throw pValueError }

example : IsoRaisesValueError toyEnv := by
  intro s e h
  simp only [toyEnv] at h
  split at h
  · cases h
  · cases h; rfl

example : ∀ s, WholeSecond toyEnv s := by
  intro s a d _ h
  simp only [toyEnv] at h
  split at h
  · cases h; decide
  · cases h

/-- `datetime.fromisoformat` of Python ≥ 3.11 also accepts a COMMA as decimal mark.  For `…T10:00:00,25.5Z` the source
    cuts `.5` out, parses `…T10:00:00,25+00:00` (250000 µs) and then REPLACES the microseconds by 500000; the hand
    model ADDS the fraction to what `iso` returned (750000 µs).  The model is exact only when `iso`'s answer has no
    microseconds of its own — the hypothesis `WholeSecond`.  (The real function answers `….500000`, reproduced.) -/
def commaEnv : SpEnv :=
  { lower := id, fnmatch := fun _ _ => true, fromisoformat := fun _ => pure ⟨250000⟩,
    isdigitOther := fun _ => false, intOther := fun _ => throw pValueError }

theorem comma_fraction_counterexample :
    _parse_iso_datetime commaEnv "T,25.5Z".toList = .ok (some ⟨500000⟩)
    ∧ (parseIso Cfg.fixed (isoOf commaEnv) "T,25.5Z".toList).map DateTime.mk = some ⟨750000⟩
    ∧ ¬ WholeSecond commaEnv "T,25.5Z".toList := by
  refine ⟨by decide +kernel, by decide +kernel, ?_⟩
  intro h
  have := h "T,25+00:00".toList ⟨250000⟩ (by decide +kernel) rfl
  revert this
  decide

end S2T.C18.Src
