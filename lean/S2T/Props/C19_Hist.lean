import S2T.Model.OmmlHist
import S2T.Gen.OmmlState
import S2T.Gen.Omml
/-!
# C19 (histories) — the conversion is a function of the TREE it is given, whatever was converted before

"Converting any OMML formula tree … is deterministic": `xml.etree.ElementTree` elements are mutable objects, so the
statement has to hold along every HISTORY on one object — convert, edit the tree in place, convert the same root (or
any element below it) again: each conversion returns what the conversion of a fresh copy of the tree, as it is at that
moment, returns (`S2T.OmmlHist.fresh`).

* `S2T.Gen.OmmlState` is regenerated on every run from the current text of `util/omml_to_latex.py`
  (`tools/gen/omml_state.py`): the closed-world list `channels` of everything by which one call could influence a later
  one or see more than the value of its argument (writes / aliases / non-read uses of module-level containers, non-plain
  module-level objects such as weak dictionaries, `global`/`nonlocal`, ANY decorator, non-constant defaults, attribute /
  subscript stores and mutating methods on anything but per-call local containers — in particular on the argument
  element —, classes, calls of anything but the module's own functions, pure builtins and methods of values).
  `gen_channels_empty` re-decides that the list is empty.
* `C19_history_free`: ANY implementation whose only memory between calls are the cells of that inventory returns, along
  every history of conversions and in-place edits (any tree, any paths, any edits, any length), exactly the outputs of
  converting fresh copies.  The theorem is stated over `Store S2T.Gen.OmmlState.channels`, so it breaks the moment the
  source acquires a channel.
* `S2T.C19.C19_function_of_tree` (in `Props/C19.lean`, it needs the source tie `C19_Src`): the function TRANSLATED from the source (`S2T.Gen.PyOmml.omml_to_latex`, every ElementTree
  element) returns the same string for two elements with the same abstraction — equal in tag / `m:val` / text / children,
  different in identity, tails, foreign attributes: nothing else of the object is an input.
* `C19_history_model`: along every history the demanded outputs are the model's `omml tables` of the edited tree — the
  function all other C19 theorems are about; `memo_history_counterexample`: what `channels = []` excludes.
-/
namespace S2T.C19.Hist
open S2T.Omml S2T.OmmlHist

/-- the inventory translator understood the file -/
theorem gen_state_notes_empty : S2T.Gen.OmmlState.notes = [] := by decide

/-- **no inter-call channel in the current source**: no module-level container is written, aliased or passed on, no
    non-plain module-level object, no `global`, no decorator, no non-constant default, no attribute / subscript store or
    mutating method on anything but a per-call local container (so the ARGUMENT tree is not modified either), no class,
    no foreign call -/
theorem gen_channels_empty : S2T.Gen.OmmlState.channels = [] := by decide

/-- the module-level containers that exist are plain dict / list / set literals (read-only by `gen_channels_empty`) -/
theorem gen_cells_plain :
    S2T.Gen.OmmlState.cells.all (fun c => ["dict", "list", "set"].contains c.2) = true := by decide

/-- the file imports ElementTree only (no `weakref`, `functools`, `threading`, `copy`, …) -/
theorem gen_imports : S2T.Gen.OmmlState.imports = ["xml.etree.ElementTree"] := by decide

/-! ## general: a store without cells is unobservable -/

theorem store_eq {chans : List String} {ν : Type} (h : chans = []) (g g' : Store chans ν) : g = g' := by
  subst h
  funext c
  exact absurd c.2 (by simp)

/-- **history freedom, generic**: an implementation that threads a store with no cells returns, along every history,
    the outputs of converting fresh copies (with the store it started from) -/
theorem history_free_of_no_channels {chans : List String} {ν : Type} (h : chans = [])
    (impl : Store chans ν → Xml → Str × Store chans ν) (g : Store chans ν) (t : Xml) (steps : List Step) :
    runHist impl g t steps = fresh (fun x => (impl g x).1) t steps := by
  induction steps generalizing t with
  | nil => rfl
  | cons s r ih =>
    cases s with
    | edit p e => simp only [runHist, fresh]; exact ih _
    | conv p =>
      simp only [runHist, fresh]
      cases subAt p t with
      | none => exact ih _
      | some x =>
        simp only []
        rw [store_eq h (impl g x).2 g, ih]

/-- **C19 (histories) on the current source**: whatever an implementation keeps in the inter-call channels found in
    `omml_to_latex.py` — there are none —, every conversion of every history of conversions and in-place edits on one
    element object returns what it returns for a fresh copy of the tree as it is at that moment -/
theorem C19_history_free {ν : Type}
    (impl : Store S2T.Gen.OmmlState.channels ν → Xml → Str × Store S2T.Gen.OmmlState.channels ν)
    (g : Store S2T.Gen.OmmlState.channels ν) (t : Xml) (steps : List Step) :
    runHist impl g t steps = fresh (fun x => (impl g x).1) t steps :=
  history_free_of_no_channels gen_channels_empty impl g t steps

/-- the model of the source as such an implementation: it ignores the store -/
def modelImpl {σ : Type} (g : σ) (x : Xml) : Str × σ := (omml S2T.Gen.Omml.tables x, g)

/-- **C19 (histories), model**: along every history the outputs are `omml tables` of the element at the path in the
    edited tree — the function `C19_balanced`, `C19_runs`, `C19_form_*` speak about (any store type) -/
theorem C19_history_model {σ : Type} (g : σ) (t : Xml) (steps : List Step) :
    runHist modelImpl g t steps = fresh (omml S2T.Gen.Omml.tables) t steps := by
  induction steps generalizing t with
  | nil => rfl
  | cons s r ih =>
    cases s with
    | edit p e => simp only [runHist, fresh]; exact ih _
    | conv p =>
      simp only [runHist, fresh]
      cases subAt p t with
      | none => exact ih _
      | some x => simp only [modelImpl]; rw [ih]

/-! ## Non-vacuity and what the hypothesis excludes -/
section examples
open S2T.Gen.Omml

def R (s : String) : Xml := .node true "r".toList none [] [.node true n_t none s.toList []]
def E (n : Str) (ks : List Xml) : Xml := .node true n none [] ks

/-- `x^2`, then the exponent becomes `α`, a run `+y` is appended, the exponent element is removed -/
def exTree : Xml := E "oMath".toList [E n_sSup [E n_e [R "x"], E n_sup [R "2"]]]
def exSteps : List Step :=
  [.conv [], .edit [0, 1, 0, 0] (.setText "α".toList), .conv [], .edit [] (.insert 9 (R "+y")), .conv [],
   .conv [0, 1], .edit [0] (.remove 1), .conv []]

example : fresh (omml tables) exTree exSteps
    = ["x^{2}".toList, "x^{\\alpha}".toList, "x^{\\alpha}+y".toList, "\\alpha".toList, "x^{}+y".toList] := by
  decide +kernel

/-- an n-ary operator whose `m:chr` is added, changed and dropped in place -/
def exNary : Xml := E "oMath".toList [E n_nary [E n_naryPr [], E n_sub [R "i"], E n_e [R "a"]]]
example : fresh (omml tables) exNary
    [.conv [], .edit [0, 0] (.insert 0 (.node true n_chr (some ['∫']) [] [])), .conv [],
     .edit [0, 0, 0] (.setVal none), .conv [], .edit [0, 0, 0] (.setTag false n_chr), .conv []]
    = ["\\sum_{i} a".toList, "\\int_{i} a".toList, "\\sum_{i} a".toList, "\\sum_{i} a".toList] := by
  decide +kernel

/-- **`channels = []` is needed**: an implementation with ONE cell that remembers its first answer (a memo keyed by
    the element object) returns the stale string after an in-place edit -/
theorem memo_history_counterexample :
    runHist (memoImpl (omml tables)) none exTree exSteps
      = ["x^{2}".toList, "x^{2}".toList, "x^{2}".toList, "x^{2}".toList, "x^{2}".toList]
    ∧ runHist (memoImpl (omml tables)) none exTree exSteps ≠ fresh (omml tables) exTree exSteps := by
  decide +kernel

end examples

end S2T.C19.Hist
