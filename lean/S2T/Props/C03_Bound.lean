import S2T.Lemmas.UnitsBound
import S2T.Gen.Units
import S2T.Gen.UnitsBound
/-!
# C03, part "Bound" — where unit boundaries come from when the units are cut out of one shared carrier

Two readers build their unit sequence from a carrier that all units share:

* **mbox**: the byte string of the mailbox; the boundaries are the "From " separator lines *of the stored file*.
  Stated against the WRITER (`mboxWrite`): a mailbox written from messages whose own lines are not separator lines —
  that is what mboxo / mboxrd quoting guarantees, a quoted line `>From …` included — reads back as exactly those
  messages, in order (`mbox_mirrors_written_messages`); a line is a separator only if it literally starts with
  "From " (`from_line_needs_prefix`, `quoted_from_line_is_body`), so no body line of any other shape moves a
  boundary.  The tie to the source is `mbox_reader_splits_raw_bytes`: in the CURRENT `read_mbox_format_mail` the bytes
  handed to `_split_mbox_messages` are `file_like.read()` itself, the loop runs over the split and yields
  `parse_email_message(message_from_bytes(item))` per item — there is no stage that rewrites the mailbox before it is
  cut (`mbox_prenormalise_counterexample`: undoing mboxrd quoting at that stage cuts a message in two).
* **pdf** (and every other page / sheet / slide / chapter loop): unit k is built from part k alone
  (`mirror_pdf`).  The tie is `unit_loops_carry_only_counters`: in the current source the only things an iteration
  of a unit-building loop hands to the next one are the result list and running counters; a memo table keyed by a
  partial identity of the page (`pdf_memo_exact`: harmless iff equal keys imply equal pages;
  `pdf_memo_partial_key_counterexample`: two pages sharing the keyed object but not the rest get the first one's text)
  is not among them.
-/
namespace S2T.C03.Bound
open S2T.Units

/-! ## A. Generated facts about the current source -/

/-- kinds of loop-carried state the model accounts for: the result list (`append`) and running counters
(`x += …` / `…, x = f(…, x)`: image / chapter / message numbering) -/
def allowedLoopKinds : List String := ["append", "counter"]

/-- closed world: no unit-building loop of the current source (read_pdf, read_xlsx / _read_content_from_workbook,
read_ods, read_odp, read_pptx, read_epub, read_mbox_format_mail, _split_mbox_messages,
_build_slides_from_text_blocks) carries anything else from one page / sheet / slide / chapter / message to the next —
no memo table, no "previous unit" variable, no shared buffer, and no module-level name written from inside the loop
(those are listed with kind `module-state:…`) -/
theorem unit_loops_carry_only_counters : ∀ e ∈ S2T.Gen.UnitsBound.loopState, e.2.2 ∈ allowedLoopKinds := by decide

/-- memoised functions in the unit-building modules (pdf, xlsx, ods, odp, pptx, epub, mbox, ppt, rtf, ODF helpers,
data_types) that the model accounts for: both map a member PATH to a MIME type — their whole argument is the key and no
document content goes in or out -/
def allowedMemoFunctions : List (String × String × String) :=
  [("_shared.py", "guess_content_type", "path: str"), ("epub_extractor.py", "_guess_content_type", "path: str")]

/-- closed world: no other function of those modules carries a memoising decorator (`lru_cache`, `cache`,
`cached_property`, anything named *cache* / *memo*) — in particular none that takes a page, a sheet, a slide, a chapter
or a message -/
theorem memo_functions_accounted : ∀ f ∈ S2T.Gen.UnitsBound.memoFunctions, f ∈ allowedMemoFunctions := by decide

/-- writes to module-level state (state that outlives one document) the model accounts for: the pypdf char-map patch
bookkeeping (users counter + saved originals, restored on exit) and the TrueType analysis cache, whose key is the
complete font program (`_FONT_CACHE[font_data]`) — a function of its key alone -/
def allowedModuleWrites : List (String × String × String × String) :=
  [("pdf_extractor.py", "_patched_build_char_map", "_CHAR_MAP_PATCH_ORIGINALS", "method:append"),
   ("pdf_extractor.py", "_patched_build_char_map", "_CHAR_MAP_PATCH_ORIGINALS", "method:pop"),
   ("pdf_extractor.py", "_patched_build_char_map", "_CHAR_MAP_PATCH_USERS", "write"),
   ("pdf_extractor.py", "_ttf_parse_font", "_FONT_CACHE", "subscript-store")]

/-- closed world: no other function of the unit-building modules writes a module-level name — no table, memo or
"last document" variable through which the units of one document could depend on a document read before it -/
theorem module_writes_accounted : ∀ w ∈ S2T.Gen.UnitsBound.moduleWrites, w ∈ allowedModuleWrites := by decide

/-- the data flow of `read_mbox_format_mail` in the current source: the raw bytes are split, the split is iterated,
each item is parsed — nothing rewrites the mailbox before the boundaries are cut, nothing filters the split -/
theorem mbox_reader_splits_raw_bytes :
    S2T.Gen.UnitsBound.mboxChain =
      [("split-arg", "p0.read()"), ("loop-iter", "_split_mbox_messages(p0.read())"),
       ("unit", "parse_email_message(email.message_from_bytes(ITEM))")] := by decide

/-! ## B. mbox: messages mirror what the writer stored -/

/-- a separator line literally starts with "From " -/
theorem from_line_needs_prefix (c : Str) (h : isFromLine c = true) : ∃ r, c = 'F' :: 'r' :: 'o' :: 'm' :: ' ' :: r := by
  unfold isFromLine at h
  split at h
  · exact ⟨_, rfl⟩
  · exact absurd h (by simp)

/-- … so a line with anything in front of "From " — mboxrd's `>From …`, `>>From …`, an indented or re-cased line — is
message text, whatever follows (an address, a date, four digits) -/
theorem quoted_from_line_is_body (x : Char) (c : Str) (hx : x ≠ 'F') : isFromLine (x :: c) = false := by
  cases h : isFromLine (x :: c) with
  | false => rfl
  | true =>
    obtain ⟨r, hr⟩ := from_line_needs_prefix _ h
    exact absurd (List.cons.inj hr).1 hx

/-- the split of a well-formed mailbox is exactly the list of stored message texts, in file order: one piece per
separator line, every message line in the piece of its own message and in no other -/
theorem mbox_split_of_written (ms : List MboxMsg) (h : MboxWellFormed ms) :
    mboxGo (rawLines (mboxWrite ms) []) none = ms.map mboxMsgText := by
  rw [rawLines_mboxWrite ms h, mboxGo_mboxAllLines ms h none]
  rfl

/-- the reader: one result per stored message with content, in file order, each parsed from that message's own text -/
theorem mbox_mirrors_written_messages {α} (parse : Str → α) (ms : List MboxMsg) (h : MboxWellFormed ms) :
    mboxRead parse (mboxWrite ms) = (((ms.map mboxMsgText).map rstripCRLF).filter (· ≠ [])).map parse := by
  unfold mboxRead mboxSplit
  rw [mbox_split_of_written ms h]

/-- … in particular as many results as messages when no message is empty -/
theorem mbox_count {α} (parse : Str → α) (ms : List MboxMsg) (h : MboxWellFormed ms)
    (hne : ∀ m ∈ ms, rstripCRLF (mboxMsgText m) ≠ []) : (mboxRead parse (mboxWrite ms)).length = ms.length := by
  rw [mbox_mirrors_written_messages parse ms h, List.length_map, List.filter_eq_self.mpr, List.length_map, List.length_map]
  intro x hx
  obtain ⟨y, hy, rfl⟩ := List.mem_map.mp hx
  obtain ⟨m, hm, rfl⟩ := List.mem_map.mp hy
  simpa using hne m hm

/-- a two-message mboxrd mailbox whose first message has the body line ">From now on … 2024" -/
def rdMailbox : List MboxMsg :=
  [⟨"From a@x Mon Jan  1 00:00:00 2024".toList, ["Subject: 1".toList, [], "Hi".toList, ">From now on room 2024".toList, "bye".toList]⟩,
   ⟨"From b@x Tue Jan  2 00:00:00 2024".toList, ["Subject: 2".toList, [], "second".toList]⟩]

/-- the hypotheses are satisfiable by exactly the kind of mailbox mboxrd quoting produces -/
theorem rdMailbox_wellFormed : MboxWellFormed rdMailbox := by
  intro m hm
  simp only [rdMailbox, List.mem_cons, List.not_mem_nil, or_false] at hm
  rcases hm with rfl | rfl <;> decide

example : mboxRead id (mboxWrite rdMailbox)
    = ["Subject: 1\n\nHi\n>From now on room 2024\nbye".toList, "Subject: 2\n\nsecond".toList] := by decide

/-- undoing the quoting on the WHOLE mailbox before the split (instead of per message after it) cuts message 1 at its
quoted line: three pieces for two messages, "bye" is no longer in message 1 -/
theorem mbox_prenormalise_counterexample :
    let pre : Str → Str := fun d => ((((rawLines d []).map (·.1)).map unquoteRdLine).map (· ++ ['\n'])).flatten
    mboxReadPre pre id (mboxWrite rdMailbox)
      = ["Subject: 1\n\nHi".toList, "bye".toList, "Subject: 2\n\nsecond".toList] := by decide

/-! ## C. pdf: unit k is built from page k alone, whatever objects the pages share -/

/-- `read_pdf` + `PdfContent.iterate_units`: unit k carries number k and the text / image / table counts that `mk`
gives for the k-th page of the reader — for any `mk`, in particular one that depends on the whole page (its content
streams AND its own or inherited resources) -/
theorem mirror_pdf {π} (mk : π → Page) (pages : List π) (i : Nat) (h : i < pages.length) :
    (pdfUnits (pdfExtract mk pages))[i]? =
      some { number := 1 + i, text := (mk pages[i]).text, nImages := (mk pages[i]).nImages, nTables := (mk pages[i]).nTables } := by
  unfold pdfUnits pdfExtract
  rw [enumUnits_get _ 1 _ i (by simpa using h)]
  simp

theorem count_pdf {π} (mk : π → Page) (pages : List π) : (pdfUnits (pdfExtract mk pages)).length = pages.length := by
  unfold pdfUnits pdfExtract
  rw [enumUnits_length, List.length_map]

/-- a memo table in the page loop is invisible exactly when equal keys imply equal extraction results -/
theorem pdf_memo_exact {π κ} [DecidableEq κ] (key : π → κ) (mk : π → Page)
    (hk : ∀ p q, key p = key q → mk p = mk q) (pages : List π) :
    pdfExtractMemo key mk pages [] = pdfExtract mk pages :=
  pdfExtractMemo_eq key mk hk pages [] (fun _ _ h => by simp at h)

/-- pages as (content-stream id, resources id); the text depends on both -/
def demoMk (p : Nat × Nat) : Page := { text := (if p.2 = 0 then "Alpha" else "Beta").toList }

/-- the hypothesis of `pdf_memo_exact` holds for the full identity of the page … -/
example : ∀ p q : Nat × Nat, id p = id q → demoMk p = demoMk q := fun p q h => by
  have : p = q := h
  rw [this]

/-- … and fails for a key that leaves out part of what the text depends on (here: the resources, as when an inline or
inherited /Resources dictionary contributes nothing to the key): page 2 gets the text of page 1 -/
theorem pdf_memo_partial_key_counterexample :
    ((pdfExtractMemo (fun p : Nat × Nat => p.1) demoMk [(7, 0), (7, 1)] []).map (·.text)
      = ["Alpha".toList, "Alpha".toList])
    ∧ ((pdfExtract demoMk [(7, 0), (7, 1)]).map (·.text) = ["Alpha".toList, "Beta".toList]) := by decide

end S2T.C03.Bound
