import S2T.Lemmas.PySheetsXlsx
import S2T.Props.C13_Src
import S2T.Gen.PyXlsxSheet
import S2T.Gen.C02Sheets
/-!
# C02 'sheets' (source tie) — the translated `_format_sheet_as_text` IS the hand model `Xlsx.formatSheet`

`S2T.Gen.PyXlsxSheet._format_sheet_as_text` is regenerated from the current text of `xlsx_extractor.py` on every run
(`tools/gen/pyfun_sheets.py`): `max(len(row) for …)`, `[0] * num_cols`, the row loop with its comprehension over
`range(num_cols)` (padding with `None`), the width loop over `enumerate(…)` with the in-place store
`col_widths[i] = len(val)`, and the nested `"\n".join(" ".join(val.rjust(col_widths[i]) …) …)`.

`format_sheet_as_text_eq`: for every list of rows (any lengths, ragged) and every behaviour of
`_format_value_for_display` (parameter `env.formatValue`, may raise) that answers `""` for `None` (what the generator
`C02Sheets` checks on the real function), the translated function formats the cells row by row, left to right (the
first exception is the function's), and returns `Xlsx.formatSheet Gen.C02Sheets.xlsx` of the display strings — the
function all `xlsx_*` theorems of `Props/C02_Sheets.lean` are about.  The guarded `row[i]`, `col_widths[i]` reads and the
store never raise `IndexError`: inside the equation.

ODS: `ods_sheet_text` — `OdsSheet.text` of the translated `_extract_sheet` (equation `C13.Src.extract_sheet_spec`) is the
C02 text model `Ods.textOfRows Gen.C02Sheets.ods` of the display texts of the raw rows (trailing rows / columns without
data trimmed, the non-empty texts of a row joined by the generated cell separator, the lines by the line separator),
provided `_extract_cell_value` answers `None` exactly with an empty display text (`CellValueOk`: the C02 model reads "no
data" off the display text, the source off the typed value).
-/
set_option linter.unusedSimpArgs false
namespace S2T.C02.SheetsSrc
open S2T.Py S2T.Py.Sheets S2T.Py.Sheets.XlsxSpec S2T.Tables S2T.Gen.PyXlsxSheet
open S2T.C02.Sheets.Xlsx (padRow formatSheet)
open S2T.Py.Sheets.OdsSpec (PRow rawOf dispRows PairsOk)

/-- the translator understood every construct of the whitelisted functions -/
theorem gen_py_notes_empty : S2T.Gen.PyXlsxSheet.notes = [] := by decide

/-- the function this file ties is translated -/
theorem gen_py_translated : "_format_sheet_as_text" ∈ S2T.Gen.PyXlsxSheet.translated := by decide

/-- `max(len(row) for row in all_rows)` as the hand model computes it -/
def numCols {α} (rows : List (List α)) : Nat := rows.foldl (fun m r => max m r.length) 0

theorem foldl_max_len (l : List (List Val)) (x : Int) (m : Nat) (hx : x = (m : Int)) :
    (l.map fun r => len r).foldl max x = ((l.foldl (fun m r => max m r.length) m : Nat) : Int) := by
  induction l generalizing x m with
  | nil => simpa using hx
  | cons r rs ih =>
    rw [List.map_cons, List.foldl_cons, List.foldl_cons]
    exact ih _ _ (by subst hx; simp [len]; omega)

theorem maxOf_lens (rows : VGrid) (h : rows ≠ []) : maxOf (rows.map fun r => len r) = Except.ok ((numCols rows : Nat) : Int) := by
  cases rows with
  | nil => exact absurd rfl h
  | cons r rs =>
    simp only [List.map_cons, maxOf, M.pure_def, numCols, List.foldl_cons]
    rw [foldl_max_len rs (len r) (max 0 r.length) (by simp [len])]

theorem le_numCols {α} (rows : List (List α)) (r : List α) (h : r ∈ rows) : r.length ≤ numCols rows := by
  have key : ∀ (rows : List (List α)) (m : Nat), m ≤ rows.foldl (fun m r => max m r.length) m ∧
      ∀ r ∈ rows, r.length ≤ rows.foldl (fun m r => max m r.length) m := by
    intro rows
    induction rows with
    | nil => intro m; exact ⟨Nat.le_refl _, fun _ h => by cases h⟩
    | cons a rs ih =>
      intro m
      obtain ⟨h1, h2⟩ := ih (max m a.length)
      refine ⟨by simp only [List.foldl_cons]; omega, ?_⟩
      intro r hr
      simp only [List.foldl_cons]
      rcases List.mem_cons.mp hr with rfl | hr
      · omega
      · exact h2 r hr
  exact (key rows 0).2 r h

/-- one formatted row: the cells of the row, then `_format_value_for_display(None)` for the missing columns -/
theorem fmt_row_eq (env : XlsxEnv) (hnone : env.formatValue Val.none = Except.ok []) (n : Nat) (row : List Val)
    (hle : row.length ≤ n) (G : Int → M Py.Str)
    (hG1 : ∀ (i : Nat) (hi : i < row.length), G (i : Int) = env.formatValue row[i])
    (hG2 : ∀ (i : Nat), row.length ≤ i → G (i : Int) = env.formatValue Val.none) :
    (rangeI 0 (n : Int)).mapM G = row.mapM env.formatValue >>= fun d => Except.ok (padRow n d) := by
  rw [rangeI_zero, List.mapM_map, Int.toNat_natCast]
  have hsplit : List.range n = List.range' 0 row.length ++ List.range' (0 + row.length) (n - row.length) := by
    rw [List.range_eq_range', List.range'_append_1]; congr 1; omega
  rw [hsplit, List.mapM_append]
  simp only [Function.comp_def, Nat.zero_add]
  rw [mapM_range_eq row env.formatValue (fun k => G (k : Int)) 0 (fun i hi => by simpa using hG1 i hi)]
  refine bind_congr_ok (fun d hd => ?_)
  have hlen := mapM_length _ _ _ hd
  rw [mapM_ok (fun _ => ([] : Py.Str)) _ _ (fun i hi => by
    rw [List.mem_range'_1] at hi
    rw [hG2 i hi.1, hnone])]
  simp [padRow, hlen, List.map_const']

theorem foldl_widen_pairs (ys : List (List Py.Str)) (cw : List Int) (acc : List (List Py.Str)) :
    ys.foldl (fun s fr => (widen s.1 fr, s.2 ++ [fr])) (cw, acc) = (ys.foldl widen cw, acc ++ ys) := by
  induction ys generalizing cw acc with
  | nil => simp
  | cons y r ih => simp [ih, List.append_assoc]

theorem numCols_of_lengths {α β} (a : List (List α)) (b : List (List β)) (h : a.map List.length = b.map List.length) :
    numCols a = numCols b := by
  have e1 : numCols a = (a.map List.length).foldl max 0 := by simp [numCols, List.foldl_map]
  have e2 : numCols b = (b.map List.length).foldl max 0 := by simp [numCols, List.foldl_map]
  rw [e1, e2, h]

theorem format_sheet_as_text_eq (env : XlsxEnv) (hnone : env.formatValue Val.none = Except.ok []) (rows : VGrid) :
    _format_sheet_as_text env rows =
      rows.mapM (·.mapM env.formatValue) >>= fun disp => pure (formatSheet S2T.Gen.C02Sheets.xlsx disp) := by
  unfold _format_sheet_as_text
  simp +instances only [M.pure_def, bind_pure_comp, pure_bind, bind_assoc, M.ok_bind]
  by_cases h0 : rows = []
  · subst h0; rfl
  have ht : (!truthy rows) = false := by simp [truthy_list, h0]
  simp only [ht, Bool.false_eq_true, if_false, maxOf_lens rows h0, M.ok_bind]
  rw [show repeatList [(0 : Int)] ((numCols rows : Nat) : Int) = List.replicate (numCols rows) 0 by simp [repeatList]]
  generalize hn : numCols rows = n
  -- the row loop: format the row (effects), widen the column widths (pure on widths of length n)
  -- (the loop state in the model's order `(col_widths, formatted_rows)` or the other way round)
  first
    | rw [forIn_mapM_fold_inv (fun s : List Int × List (List Py.Str) => s.1.length = n)
        (fun row => row.mapM env.formatValue >>= fun d => Except.ok (padRow n d))
        (fun s fr => (widen s.1 fr, s.2 ++ [fr])) rows]
    | (rw [forIn_conj (fun (s : List (List Py.Str) × List Int) => (s.2, s.1)) (fun (t : List Int × List (List Py.Str)) => (t.2, t.1))
        (fun _ => rfl)]
       rw [forIn_mapM_fold_inv (fun s : List Int × List (List Py.Str) => s.1.length = n)
        (fun row => row.mapM env.formatValue >>= fun d => Except.ok (padRow n d))
        (fun s fr => (widen s.1 fr, s.2 ++ [fr])) rows])
  rotate_left
  · intro row hrow s hs
    have hle : row.length ≤ n := hn ▸ le_numCols rows row hrow
    rw [fmt_row_eq env hnone n row hle]
    rotate_left
    · intro i hi
      have h1 : ((i : Int) < len row) := by simp only [len]; omega
      have h1' : ¬ (len row ≤ (i : Int)) := by omega
      simp [h1, h1', listGetItem_natCast _ _ hi]
    · intro i hi
      have h1 : ¬ ((i : Int) < len row) := by simp only [len]; omega
      have h1' : len row ≤ (i : Int) := by omega
      simp [h1, h1']
    simp only [bind_assoc, M.ok_bind]
    refine bind_congr_ok (fun d hd => ?_)
    have hlen : (padRow n d).length ≤ s.1.length := by
      have := mapM_length _ _ _ hd
      simp [padRow, hs]; omega
    rw [forIn_widen (padRow n d) _ _ s.1 hlen]
    · rfl
    · intro i v cw hi
      rw [listGetItem_natCast _ _ hi]
      simp only [M.ok_bind]
      by_cases hgt : len v > cw[i]
      · simp [hgt, setItem_natCast _ _ hi]
      · simp [hgt]
  · intro row _ s y hs _
    simp [widen_length, hs]
  · simp
  rw [mapM_then_map]
  simp only [bind_assoc, M.ok_bind]
  refine bind_congr_ok (fun disp hd => ?_)
  have hlens := mapM_mapM_lengths _ _ _ hd
  have hn' : numCols disp = n := by rw [numCols_of_lengths disp rows hlens, hn]
  rw [foldl_widen_pairs]
  simp only [List.nil_append]
  generalize hfrs : disp.map (padRow n) = frs
  have hrowlen : ∀ row ∈ frs, row.length = n := by
    intro row hrow
    rw [← hfrs] at hrow
    obtain ⟨d, hdm, rfl⟩ := List.mem_map.mp hrow
    have : d.length ≤ n := hn' ▸ le_numCols disp d hdm
    simp [padRow]; omega
  rw [mapM_ok (fun row => strJoin " ".toList (row.zipIdx.map (fun vi => S2T.Rtf.rjust (S2T.Rtf.colWidth frs vi.2) vi.1)))]
  rotate_left
  · intro row hrow
    rw [mapM_ok (fun x => rjust x.2 ((S2T.Rtf.colWidth frs x.1.toNat : Nat) : Int))]
    · simp only [M.ok_bind, map_enumerate_zipIdx, rjust, Int.toNat_natCast]
    · intro x hx
      obtain ⟨j, hj, hrj⟩ := mem_enumerate hx
      have hjn : j < n := by
        have : j < row.length := by
          rcases Nat.lt_or_ge j row.length with h | h
          · exact h
          · rw [List.getElem?_eq_none h] at hrj; cases hrj
        rw [hrowlen row hrow] at this; exact this
      have hw := widths_getElem frs n j hjn
      have hlt : j < (frs.foldl widen (List.replicate n (0 : Int))).length := by
        rw [foldl_widen_length]; simpa using hjn
      rw [hj, listGetItem_natCast _ _ hlt]
      rw [List.getElem?_eq_getElem hlt] at hw
      simp only [Option.some.injEq] at hw
      simp [hw]
  have hn'' : List.foldl (fun m (r : List Tok.Str) => max m r.length) 0 disp = n := hn'
  simp only [M.ok_bind, formatSheet, hn'', hfrs, strJoin_eq_join]
  rfl

/-- the hypothesis is satisfiable, and the function really formats: two ragged rows -/
example : _format_sheet_as_text ⟨fun _ => [], fun v => match v with | .str s => pure s | _ => pure []⟩
    [[.str "ab".toList, .none], [.str "c".toList, .str "d".toList, .str "e".toList]]
    = .ok "ab    \n c d e".toList := by decide +kernel

/-- outside the hypothesis (a display function that shows `None` as text) the padding cells are not empty: the hand
    model pads with `""` -/
theorem format_none_counterexample :
    _format_sheet_as_text ⟨fun _ => [], fun v => match v with | .str s => pure s | _ => pure "-".toList⟩
      [[.str "a".toList], [.str "b".toList, .str "c".toList]] = .ok "a -\nb c".toList
    ∧ formatSheet S2T.Gen.C02Sheets.xlsx [["a".toList], ["b".toList, "c".toList]] = "a  \nb c".toList := by
  constructor <;> decide +kernel

/-! ## ODS `sheet.text` -/

/-- `_extract_cell_value` answers `None` exactly with an empty display text -/
def CellValueOk (env : OdsEnv) : Prop :=
  ∀ cell v, env.extractCellValue cell = Except.ok v → (v.1 = Val.none ↔ v.2 = [])

example : CellValueOk { S2T.C13.Src.exEnv with
    extractCellValue := fun c => pure (if c.text = [] then (Val.none, []) else (Val.str c.text, c.text)) } := by
  intro cell v h
  simp only [M.pure_def, Except.ok.injEq] at h
  subst h
  by_cases ht : cell.text = [] <;> simp [ht]

/-- **C02 source tie (ODS text).**  The text of a returned sheet is the C02 model's `textOfRows` of the display rows -/
theorem ods_sheet_text (env : OdsEnv) (hcv : CellValueOk env) (ctx : OdsCtx) (table : Node) (n ic : Int)
    (sheet : OdsSheet) (k : Int) (h : S2T.Gen.PyOdsSheet._extract_sheet env ctx table n ic = .ok (sheet, k)) :
    ∃ rows, S2T.C13.Src.odsParse env table = .ok rows ∧
      sheet.text = S2T.C02.Sheets.Ods.textOfRows S2T.Gen.C02Sheets.ods (dispRows (rawOf S2T.Gen.Tables.odsCaps rows)) := by
  rw [S2T.C13.Src.extract_sheet_spec] at h
  cases hp : S2T.C13.Src.odsParse env table with
  | error e => rw [hp] at h; cases h
  | ok rows =>
    rw [hp] at h
    cases hi : env.extractImages ctx table ic with
    | error e => simp [hi] at h
    | ok im =>
      simp [hi] at h
      refine ⟨rows, rfl, ?_⟩
      rw [← h.1]
      have hvals := S2T.Py.Sheets.OdsSpec.parseRows_values env _ _ _ _ table rows hp
      have hok : PairsOk (rawOf S2T.Gen.Tables.odsCaps rows) :=
        S2T.Py.Sheets.OdsSpec.pairsOk_rawOf _ rows (fun r hr c hc => by
          obtain ⟨cell, hcell⟩ := hvals r hr c hc
          exact hcv cell _ hcell)
      exact S2T.Py.Sheets.OdsSpec.text_eq S2T.Gen.C02Sheets.ods rfl rfl _ hok

end S2T.C02.SheetsSrc
