import S2T.Props.C12_Loops
import S2T.Props.C12_Limits
import S2T.Props.C12_Amplify
import S2T.Props.C12_Xml
import S2T.Props.C12_LoopsSrc
import S2T.Props.C12_Archive
import S2T.Props.C12_History
import S2T.Props.C12_Inflate
import S2T.Props.C12_Cost
/-!
# C12 — extraction cost is bounded by the input; explicit limits hold

STATEMENT (fixed): for any input that passes the size and bomb guards, peak additional memory and run
time stay within a fixed multiple of the (uncompressed) input size, irrespective of repeat counts, declared
dimensions, nesting depth, property counts or entity tricks inside it.  The explicit limits hold exactly:
read_file refuses a file larger than max_file_size (0 disables the check), a 7z archive above 100 MB is
refused, and archive members above the per-member limit are skipped without being decompressed into
memory or onto disk.

Parts:
* `Props/C12_Loops.lean`   (namespace `S2T.C12.Loops`):  closed-world inventory of every `while` loop and
  self-recursive function, termination (the models are accepted by Lean without fuel), linear step bounds,
  counterexamples for the PNG carver and the PPT slide-list walk, the 7z declared-file-count bound.
* `Props/C12_Witness.lean` (namespace `S2T.C12.Witness`): the slow kernel evaluations of the witnesses.
* `Props/C12_Limits.lean`  (namespace `S2T.C12.Limits`): exact limit theorems over the translated operators
  and constants, archive members read / decoded / written (TAR: link members — what the loop tests is the size in
  the member's own header, what it reads is what `extractfile` delivers; bound under the member-type guard read from
  the source, counterexamples without it), ODS expansion incl. repeat independence of every kind of empty run
  (empty cells, empty rows, covered cells), XML parse sites.
* `Props/C12_Amplify.lean` (namespace `S2T.C12.Amplify`): two mechanisms whose output follows a NUMBER written in the
  input — ODF `text:s text:c="N"` and the XLSX rectangle spanned by the used cells — with unboundedness theorems
  (for every multiple K an input exceeding it), partial bounds and kernel-evaluated bounded witnesses.
* `Props/C12_Xml.lean`     (namespace `S2T.C12.Xml`): "entity tricks" — XML parts with internal entities behind any BOM /
  leading whitespace, through the chain of parser calls GENERATED from the current source (keywords against the
  installed defusedxml's defaults, `except` handlers, stripped data): text ≤ part size for every part under every
  chain of refusing parsers, every generated stage refuses, unboundedness + witnesses for a chain with one lenient stage.

* `Props/C12_History.lean` (namespace `S2T.C12.History`): histories call / resize / consume of `read_file` on one path: comparison and
  read in the same activation ⇒ every read within the limit in every history; comparison at the call and read at consumption ⇒ unbounded;
  the activations of the current source are generated (tools/gen/c12_sites.py).
* `Props/C12_Cost.lean` (namespace `S2T.C12.Cost`): cost of a whole archive — forward-only stream law (stored order = one pass for every member list,
  every step back costs the prefix again, descending-order witness) and nests of archives (skip filter: 1 document for every fan-out / depth; recursion: ≥ fan^depth).
* `Props/C12_Inflate.lean` (namespace `S2T.C12.Inflate`): compressed streams whose trailer understates them (multi-member gzip, ISIZE mod 2^32):
  trailer guard + one-shot inflation is unbounded, a bounded read is exact; closed-world inventory of every container opener / decompression
  call of archive_extractor.py (generated).
* `Props/C12_Archive.lean` (namespace `S2T.C12.Archive`): archives whose member NAMES repeat (the size tested and the payload
  read belong to the same entry iff the payload is fetched through the entry's own handle; by name it is the LAST entry of
  that name — equal for distinct names, an oversize member otherwise; the read sites of the ZIP / TAR loops are generated)
  and 7z folders with a coder CHAIN (filter <- LZMA/LZMA2): every stage's output is within `max_output`, hence within what the
  wanted members need, iff the bound reaches every stage (sites generated); counterexamples for a bound on the returned stage only.

WHAT NO THEOREM HERE SPEAKS ABOUT (run-time quantities, partial by nature): peak RSS and wall time
themselves, the behaviour of `lzma` / `zlib` / `olefile.get_metadata()` / `pypdf` / `defusedxml` on
hostile input.  The cost notions that ARE proved are iteration counts, bytes copied, list cells
allocated, members decoded / written.
-/
namespace S2T.C12
open S2T.Limits S2T.Gen.C12Consts

/-- the three explicit limits of the statement, on the operators and constants of the current source -/
theorem explicit_limits :
    (∀ (limit : Int) (size : Nat), (do let o ← Ops.ofSites limitSites; pure (readFileRejects o limit size)) = some true
        ↔ (limit > 0 ∧ (size : Int) > limit)) ∧
    (∀ size : Nat, (do let o ← Ops.ofSites limitSites; pure (sevenZipRejects o max7zFileSize size)) = some true
        ↔ size > 100 * 2 ^ 20) ∧
    (∀ (k : Kind) (declared : Nat), (do let o ← Ops.ofSites limitSites; pure (memberSkipped o k configMaxMemorySize declared)) = some true
        ↔ declared > 10 * 2 ^ 20) := by
  rw [S2T.C12.Limits.gen_ops_documented]
  refine ⟨?_, ?_, ?_⟩
  · intro limit size
    simpa using S2T.C12.Limits.read_file_limit limit size
  · intro size
    simpa using S2T.C12.Limits.sevenzip_limit size
  · intro k declared
    have := S2T.C12.Limits.member_skipped_iff k configMaxMemorySize declared
    simp only [configMaxMemorySize] at this ⊢
    simpa using this

/-- TAR: on the guard table, comparison operators and event order of the current source, no byte string read from a
    member's handle exceeds the per-member limit in force by default — for every member list, links included -/
theorem tar_members_within_default_limit (ms : List TarMember) (h : TarFaithful ms) :
    ∀ o, Ops.ofSites limitSites = some o →
      ∀ n ∈ tarLoopDelivered o (acceptOfTable tarGuardAccepts) (eventBefore tarLoopEvents "size-test" "read") configMaxMemorySize ms,
        n ≤ 10 * 2 ^ 20 := by
  intro o ho n hn
  have := S2T.C12.Limits.tar_gen_delivered_within_limit configMaxMemorySize ms h o ho n hn
  simpa [configMaxMemorySize] using this

end S2T.C12
