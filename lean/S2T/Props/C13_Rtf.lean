import S2T.Lemmas.TablesRtfFinal
import S2T.Gen.TablesRtf
/-!
# C13 for RTF — `_RtfParser._extract_tables` / `_extract_table_cells` / `_strip_rtf_simple`

A source document is an abstract value: leading paragraphs, then tables (rows of cells, a cell = its paragraphs),
each followed by paragraphs (`docOf`).  `docRtf` writes it in the token language word processors write
(`\trowd \cellxN… \pard\intbl text \par text \cell … \row`, non-ASCII characters as `\uN?`).  The extractor is the
model `extractTables` (regular expressions as matchers for exactly the patterns of the current source, tied by
`gen_rtf_patterns`).  What must come back: `tableSpec t` for every table, in order — the grid of the table's own rows ×
own cells, cell (i,j) = the paragraphs of source cell (i,j) joined by newlines (`C13_rtf_cell_at`); for an r × c table
that is exactly r × c (`C13_rtf_rect`).

Full statement (false on the current code, kept visible):
  theorem C13_rtf (lead ts …) : extractTables P (docRtf (docOf lead ts)) = ts.map (fun tp => tableSpec tp.1)
Two tables come back as ONE table unless the text between them is long enough for the row-grouping heuristic
(more than `rawGap` = 100 characters of RTF and more than `textGap` = 20 characters of text).  Open known finding
`rtf.adjacent-tables-merged`; `C13_rtf_partial` has the exact excluding hypothesis (`Separated`, exact by
`C13_rtf_separated_exact`), `C13_rtf_behaviour` says what comes back for ANY gaps, `C13_rtf_counterexample_adjacent`
is the committed witness.  Further open findings with counterexample theorems: a table inside a cell
(`\nestcell … \nestrow`), 64 hexadecimal digits in a cell, backslash / braces in a cell.
-/
namespace S2T.C13.Rtf
open S2T.Tables S2T.Tables.Rtf
open S2T.HtmlSkip (Str)

/-! ## the tie to the source -/

theorem gen_rtf_notes_empty : S2T.Gen.TablesRtf.notes = [] := by decide
/-- the patterns (text and flags) of the current source are the ones the matchers of the model were written for -/
theorem gen_rtf_patterns : S2T.Gen.TablesRtf.patterns = expectedPatterns := by decide
/-- `SPECIAL_CHARS` starts with `par ↦ "\n"`, no keyword of it is or starts with `trowd / cellx / pard / intbl`,
    and the raw-gap literal is at least 1 -/
theorem gen_rtf_params_ok : paramsOk S2T.Gen.TablesRtf.params = true := by decide
/-- `[a-z]` under IGNORECASE matches exactly the code points `isCtlAlpha` accepts -/
theorem gen_rtf_ctl_alpha :
    S2T.Gen.TablesRtf.ctlAlpha = (List.range 8500).filter (fun n => isCtlAlpha (Char.ofNat n)) := by decide +kernel
/-- `\s` (= `str.isspace`, what `strip()` removes) matches exactly the code points `isPySpace` accepts -/
theorem gen_rtf_spaces :
    S2T.Gen.TablesRtf.spaces = (List.range 12300).filter (fun n => isPySpace (Char.ofNat n)) := by decide +kernel
/-- `\w` and `\d` on ASCII -/
theorem gen_rtf_ascii_classes :
    S2T.Gen.TablesRtf.asciiWord.toList = ((List.range 128).map Char.ofNat).filter (isWord S2T.Gen.TablesRtf.params) ∧
    S2T.Gen.TablesRtf.asciiDigits.toList = ((List.range 128).map Char.ofNat).filter isDigit := by
  constructor <;> decide +kernel
theorem gen_rtf_ignorable : S2T.Gen.TablesRtf.ignorable.map String.toList = ignorablePrefixes := by decide

/-! ## hypotheses, as decidable checks -/

/-- a table of the theorems: at least one row, every row at least one cell, every cell plain paragraphs -/
def tableOk (t : RTable) : Bool := !t.isEmpty && t.all (fun r => !r.isEmpty && r.all plainCell)

theorem tableOk_iff {t : RTable} (h : tableOk t = true) : TableOk t := by
  simp only [tableOk, Bool.and_eq_true, Bool.not_eq_true', List.all_eq_true] at h
  refine ⟨by intro he; subst he; simp at h, ?_⟩
  intro r hr
  obtain ⟨h1, h2⟩ := h.2 r hr
  exact ⟨by intro he; subst he; simp at h1, h2⟩

/-- the document: tables ok, the text around them free of backslash and braces -/
def docOk (lead : List Str) (ts : List (RTable × List Str)) : Bool :=
  lead.all plainText && ts.all (fun tp => tableOk tp.1 && tp.2.all plainText)

/-- all the gaps of `gtsOf g ts` make the row-grouping heuristic start a new table -/
def sepFrom (P : Params) : Str → List (RTable × List Str) → Bool
  | _, [] => true
  | g, tp :: rest => breaks P g && sepFrom P (gapAfter tp.2) rest

/-- the exact excluding hypothesis: the text between any two consecutive tables is more than `rawGap` characters of
    RTF and, stripped, more than `textGap` characters of text -/
def Separated (P : Params) : List (RTable × List Str) → Bool
  | [] => true
  | tp :: rest => sepFrom P (gapAfter tp.2) rest

/-! ## cells and shape -/

/-- the cells of a written row: as many as the row has, cell j = the text of source cell j -/
theorem C13_rtf_cells (P : Params) (hP : paramsOk P = true) (r : RRow) (hne : r ≠ []) (hr : ∀ c ∈ r, plainCell c = true) :
    extractCells P (rowRtf r) = r.map cellSpec := by
  simp only [paramsOk, Bool.and_eq_true] at hP
  exact extractCells_row P hP.1 r hne hr

/-- cell (i, j) of the grid is the text of source cell (i, j) -/
theorem C13_rtf_cell_at (t : RTable) (i j : Nat) :
    ((gridSpec t)[i]?.bind (fun (row : List Str) => row[j]?)) = (t[i]?.bind (fun (row : RRow) => row[j]?)).map cellSpec := by
  simp only [gridSpec, List.getElem?_map]
  cases t[i]? with
  | none => rfl
  | some row => simp [List.getElem?_map]

/-- an r × c table comes back r × c (`_save_table` pads only ragged tables) -/
theorem C13_rtf_rect (t : RTable) (c : Nat) (h : ∀ r ∈ t, r.length = c) :
    tableSpec t = gridSpec t ∧ (tableSpec t).length = t.length ∧ ∀ row ∈ tableSpec t, row.length = c := by
  have h1 : tableSpec t = gridSpec t := by
    apply saveTable_rect _ c
    intro r hr
    simp only [gridSpec, List.mem_map] at hr
    obtain ⟨x, hx, rfl⟩ := hr
    simpa using h x hx
  refine ⟨h1, by simp [h1, gridSpec], ?_⟩
  intro row hrow
  rw [h1] at hrow
  simp only [gridSpec, List.mem_map] at hrow
  obtain ⟨x, hx, rfl⟩ := hrow
  simpa using h x hx

/-! ## what comes back, for any text between the tables -/

theorem docOk_parts {lead : List Str} {ts : List (RTable × List Str)} (h : docOk lead ts = true) :
    (∀ p ∈ lead, plainText p = true) ∧ ∀ tp ∈ ts, TableOk tp.1 ∧ ∀ p ∈ tp.2, plainText p = true := by
  simp only [docOk, Bool.and_eq_true, List.all_eq_true] at h
  exact ⟨h.1, fun tp htp => ⟨tableOk_iff (h.2 tp htp).1, (h.2 tp htp).2⟩⟩

theorem gtsOf_props (P : Params) : ∀ (ts : List (RTable × List Str)) (g : Str),
    (∀ tp ∈ ts, TableOk tp.1 ∧ ∀ p ∈ tp.2, plainText p = true) → QuietGap P g → StartsNl g →
    (∀ gt ∈ gtsOf g ts, QuietGap P gt.1 ∧ StartsNl gt.1 ∧ TableOk gt.2) ∧
      (Quiet P sTrowd (tailOf g ts) [] ∧ Quiet P sRow (tailOf g ts) []) ∧ StartsNl (tailOf g ts)
  | [], g, _, hq, hn => by
    refine ⟨by simp [gtsOf], ⟨?_, ?_⟩, ?_⟩
    · exact quiet_append _ _ _ _ _ (hq _).1 (quiet_noBs _ _ _ _ (noBs_of_all _ (by decide)))
    · exact quiet_append _ _ _ _ _ (hq _).2 (quiet_noBs _ _ _ _ (noBs_of_all _ (by decide)))
    · obtain ⟨t, rfl⟩ := hn; exact ⟨t ++ ['}'], rfl⟩
  | tp :: rest, g, h, hq, hn => by
    have ih := gtsOf_props P rest (gapAfter tp.2) (fun x hx => h x (List.mem_cons_of_mem _ hx))
      (quietGap_after P tp.2 (h tp List.mem_cons_self).2) ⟨_, rfl⟩
    refine ⟨?_, ih.2⟩
    intro gt hgt
    simp only [gtsOf, List.mem_cons] at hgt
    rcases hgt with rfl | hgt
    · exact ⟨hq, hn, (h tp List.mem_cons_self).1⟩
    · exact ih.1 gt hgt

/-- RTF, every document of plain tables and plain text, ANY text between the tables: `_extract_tables` returns what
    `groupTables` says — the tables in order, each cell in place, a table glued to its predecessor exactly where the
    text between them does not satisfy the heuristic (`breaks`) -/
theorem C13_rtf_behaviour (P : Params) (hP : paramsOk P = true) (lead : List Str) (tp : RTable × List Str)
    (rest : List (RTable × List Str)) (hd : docOk lead (tp :: rest) = true) :
    extractTables P (docRtf (docOf lead (tp :: rest))) = groupTables P [] (gtsOf (header ++ parasRtf lead) (tp :: rest)) := by
  obtain ⟨hlead, hts⟩ := docOk_parts hd
  have hne : ∀ x ∈ tp :: rest, x.1 ≠ [] := fun x hx => (hts x hx).1.1
  rw [docRtf_docOf, text_as_body (tp :: rest) _ hne]
  have hp := gtsOf_props P rest (gapAfter tp.2) (fun x hx => hts x (List.mem_cons_of_mem _ hx))
    (quietGap_after P tp.2 (hts tp List.mem_cons_self).2) ⟨_, rfl⟩
  exact extractTables_tables P hP _ tp.1 (gtsOf (gapAfter tp.2) rest) _ (quietGap_first P lead hlead)
    (hts tp List.mem_cons_self).1 hp.1 hp.2.1 hp.2.2

/-! ## the partial theorem and its exactness -/

theorem allBreak_gtsOf (P : Params) : ∀ (ts : List (RTable × List Str)) (g : Str),
    (gtsOf g ts).all (fun gt => breaks P gt.1) = sepFrom P g ts
  | [], _ => rfl
  | tp :: rest, g => by simp [gtsOf, sepFrom, allBreak_gtsOf P rest]

theorem group_all_break (P : Params) : ∀ (gts : List GT) (cur : Grid), cur.isEmpty = false →
    (∀ gt ∈ gts, gt.2 ≠ []) → gts.all (fun gt => breaks P gt.1) = true →
    groupTables P cur gts = saveTable cur :: gts.map (fun gt => tableSpec gt.2)
  | [], cur, hc, _, _ => by simp [groupTables, hc]
  | gt :: rest, cur, hc, hne, hb => by
    simp only [List.all_cons, Bool.and_eq_true] at hb
    simp only [groupTables, hc, hb.1, Bool.not_false, Bool.and_self, if_true, List.map_cons]
    rw [group_all_break P rest _ (gridSpec_ne (hne gt List.mem_cons_self))
      (fun x hx => hne x (List.mem_cons_of_mem _ hx)) hb.2]
    rfl

theorem gtsOf_tables : ∀ (ts : List (RTable × List Str)) (g : Str), (gtsOf g ts).map (·.2) = ts.map (·.1)
  | [], _ => rfl
  | tp :: rest, g => by simp [gtsOf, gtsOf_tables rest]

/-- RTF, PARTIAL: when the text between consecutive tables satisfies the heuristic, every table comes back, in
    source order, none lost, merged or invented, every cell in place -/
theorem C13_rtf_partial (P : Params) (hP : paramsOk P = true) (lead : List Str) (ts : List (RTable × List Str))
    (hne : ts ≠ []) (hd : docOk lead ts = true) (hs : Separated P ts = true) :
    extractTables P (docRtf (docOf lead ts)) = ts.map (fun tp => tableSpec tp.1) := by
  cases ts with
  | nil => exact absurd rfl hne
  | cons tp rest =>
    rw [C13_rtf_behaviour P hP lead tp rest hd]
    obtain ⟨_, hts⟩ := docOk_parts hd
    simp only [gtsOf, groupTables, List.isEmpty_nil, Bool.not_true, Bool.false_and, Bool.false_eq_true, if_false,
      List.nil_append]
    rw [group_all_break P _ _ (gridSpec_ne (hts tp List.mem_cons_self).1.1) ?_ (by rw [allBreak_gtsOf]; exact hs)]
    · have := gtsOf_tables rest (gapAfter tp.2)
      simp only [List.map_cons, tableSpec]
      congr 1
      have h2 : (gtsOf (gapAfter tp.2) rest).map (fun gt => saveTable (gridSpec gt.2)) =
          ((gtsOf (gapAfter tp.2) rest).map (·.2)).map (fun t => saveTable (gridSpec t)) := by simp
      rw [h2, this]; simp
    · intro gt hgt
      have : gt.2 ∈ (gtsOf (gapAfter tp.2) rest).map (·.2) := List.mem_map.mpr ⟨gt, hgt, rfl⟩
      rw [gtsOf_tables] at this
      obtain ⟨x, hx, he⟩ := List.mem_map.mp this
      rw [← he]; exact (hts x (List.mem_cons_of_mem _ hx)).1.1

/-- … with the patterns, `SPECIAL_CHARS` and the two literals of the current source -/
theorem C13_rtf_gen (lead : List Str) (ts : List (RTable × List Str)) (hne : ts ≠ []) (hd : docOk lead ts = true)
    (hs : Separated S2T.Gen.TablesRtf.params ts = true) :
    extractTables S2T.Gen.TablesRtf.params (docRtf (docOf lead ts)) = ts.map (fun tp => tableSpec tp.1) :=
  C13_rtf_partial _ gen_rtf_params_ok lead ts hne hd hs

theorem group_length (P : Params) : ∀ (gts : List GT) (cur : Grid), cur.isEmpty = false → (∀ gt ∈ gts, gt.2 ≠ []) →
    (groupTables P cur gts).length = 1 + (gts.filter (fun gt => breaks P gt.1)).length
  | [], cur, hc, _ => by simp [groupTables, hc]
  | gt :: rest, cur, hc, hne => by
    simp only [groupTables, hc, Bool.not_false, Bool.true_and, List.filter_cons]
    have hr := fun x hx => hne x (List.mem_cons_of_mem _ hx)
    split
    · rw [List.length_cons, group_length P rest _ (gridSpec_ne (hne gt List.mem_cons_self)) hr]
      simp; omega
    · have hc' : (cur ++ gridSpec gt.2).isEmpty = false := by
        cases cur with
        | nil => simp at hc
        | cons a b => rfl
      rw [group_length P rest _ hc' hr]

/-- the hypothesis is exact: as many tables come back as the document has if and only if the tables are `Separated`
    (otherwise fewer: some table has been glued to its predecessor) -/
theorem C13_rtf_separated_exact (P : Params) (hP : paramsOk P = true) (lead : List Str) (ts : List (RTable × List Str))
    (hne : ts ≠ []) (hd : docOk lead ts = true) :
    (extractTables P (docRtf (docOf lead ts))).length = ts.length ↔ Separated P ts = true := by
  cases ts with
  | nil => exact absurd rfl hne
  | cons tp rest =>
    rw [C13_rtf_behaviour P hP lead tp rest hd]
    obtain ⟨_, hts⟩ := docOk_parts hd
    have hne' : ∀ gt ∈ gtsOf (gapAfter tp.2) rest, gt.2 ≠ [] := by
      intro gt hgt
      have : gt.2 ∈ (gtsOf (gapAfter tp.2) rest).map (·.2) := List.mem_map.mpr ⟨gt, hgt, rfl⟩
      rw [gtsOf_tables] at this
      obtain ⟨x, hx, he⟩ := List.mem_map.mp this
      rw [← he]; exact (hts x (List.mem_cons_of_mem _ hx)).1.1
    simp only [gtsOf, groupTables, List.isEmpty_nil, Bool.not_true, Bool.false_and, Bool.false_eq_true, if_false,
      List.nil_append]
    rw [group_length P _ _ (gridSpec_ne (hts tp List.mem_cons_self).1.1) hne']
    have hl : (gtsOf (gapAfter tp.2) rest).length = rest.length := by
      have := congrArg List.length (gtsOf_tables rest (gapAfter tp.2)); simpa using this
    have hfilter := List.length_filter_eq_length_iff (p := fun (gt : GT) => breaks P gt.1)
      (l := gtsOf (gapAfter tp.2) rest)
    have hsep : Separated P (tp :: rest) = true ↔ ∀ gt ∈ gtsOf (gapAfter tp.2) rest, breaks P gt.1 = true := by
      simp only [Separated, ← allBreak_gtsOf, List.all_eq_true]
    rw [hsep, ← hfilter, hl]
    simp only [List.length_cons]
    omega

/-! ## non-vacuity -/

private def longPara : Str :=
  "between the tables there is a paragraph that is clearly longer than one hundred and twenty characters, so that the row grouping heuristic sees a break here.".toList

example : docOk ["before".toList]
      [([[["a".toList], ["b c".toList, "Ünï €".toList]], [["1".toList], []]], [longPara]),
       ([[["x-y".toList]]], ["after".toList])] = true
    ∧ Separated S2T.Gen.TablesRtf.params
      [([[["a".toList], ["b c".toList, "Ünï €".toList]], [["1".toList], []]], [longPara]),
       ([[["x-y".toList]]], ["after".toList])] = true := by
  constructor <;> decide +kernel

/-! ## counterexamples (open known findings) -/

/-- `rtf.adjacent-tables-merged`: a 2 × 2 table, the paragraph "between", a 2 × 1 table come back as ONE 4 × 2 table -/
theorem C13_rtf_counterexample_adjacent :
    extractTables S2T.Gen.TablesRtf.params (docRtf (docOf ["before".toList]
      [([[["a".toList], ["b".toList]], [["c".toList], ["d".toList]]], ["between".toList]),
       ([[["e".toList]], [["f".toList]]], ["after".toList])]))
      = [[["a".toList, "b".toList], ["c".toList, "d".toList], ["e".toList, []], ["f".toList, []]]]
    ∧ Separated S2T.Gen.TablesRtf.params
      [([[["a".toList], ["b".toList]], [["c".toList], ["d".toList]]], ["between".toList]),
       ([[["e".toList]], [["f".toList]]], ["after".toList])] = false := by
  constructor <;> decide +kernel

/-- `rtf.nested-table-flattened`: a 1 × 2 table whose first cell holds the paragraph A, a 1 × 2 table (x, y) and the
    paragraph A2, written with `\nestcell … {\*\nesttableprops\trowd … \nestrow}`: the inner table is not returned,
    its cells land in the outer cell, and the `\trowd` of the nested table properties invents a second row -/
theorem C13_rtf_counterexample_nested :
    extractTables S2T.Gen.TablesRtf.params
      ("{\\rtf1\\ansi \\trowd\\cellx100\\cellx200 \\pard\\intbl A\\par \\pard\\intbl\\itap2 x\\nestcell y\\nestcell {\\*\\nesttableprops\\trowd\\cellx50\\cellx100\\nestrow}{\\nonesttables\\par}\\pard\\intbl A2\\cell \\pard\\intbl B\\cell \\row\n}").toList
      = [[["A\nx y A2".toList, "B".toList], ["A2".toList, "B".toList]]] := by decide +kernel

/-- `rtf.cell-hex-run-dropped`: a cell holding 64 hexadecimal digits (a SHA-256 digest) comes back empty -/
theorem C13_rtf_counterexample_hex :
    extractTables S2T.Gen.TablesRtf.params (docRtf (docOf []
      [([[["0123456789abcdef0123456789abcdef0123456789abcdef0123456789abcdef".toList]]], [])])) = [[[[]]]] := by
  decide +kernel

/-- `rtf.cell-backslash-brace-mangled`: the cell `C:\temp` (written `C:\\temp`) comes back as `C:\`,
    the cell `a{b}` (written `a\{b\}`) as `a\b\` -/
theorem C13_rtf_counterexample_backslash :
    extractTables S2T.Gen.TablesRtf.params (docRtf (docOf []
      [([[["C:\\temp".toList], ["a{b}".toList]]], [])])) = [[["C:\\".toList, "a\\b\\".toList]]] := by
  decide +kernel

end S2T.C13.Rtf
