import S2T.Model.ArchiveAttrs
import S2T.Lemmas.Archive
import S2T.Gen.Router
import S2T.Gen.Archive
import S2T.Gen.ArchiveAttrs
/-!
# C09 (entry attributes cannot redirect I/O) — part of `Props/C09.lean`

"member names (absolute, dot-dot, drive or backslash forms, links, devices) cannot redirect I/O".  In a 7z archive a
link / device / fifo / reparse point is an ordinary entry whose ATTRIBUTE WORD says so and whose data is the link
target (a host path); in a ZIP it is `external_attr` (st_mode << 16) + `create_system`; in a TAR the typeflag.  The
model keeps exactly one bit of the 7z word (`AttrEntry.toRaw`); these theorems say what follows — for every header,
every attribute word, every consumer and host — and tie that to the CURRENT source by inventories the kernel
re-decides on every run: the source reads no other bit of the word and no node-kind metadata of ZIP / TAR members.
-/
namespace S2T.C09.Attrs
open S2T.Archive S2T.Router

/-! ## the tie to the source -/

theorem gen_attr_notes_empty : S2T.Gen.ArchiveAttrs.notes = [] := by decide

/-- what the 7z reader may do with an attribute word: store it, hand the list / the word on to `_build_file_list` /
    `FileInfo(...)`, and test FILE_ATTRIBUTE_DIRECTORY in `_build_file_list` -/
def attrUseAllowed (s : String) : Bool :=
  "store:".toList.isPrefixOf s.toList
    || s == "pass:_build_file_list:FileInfo"
    || s == "pass:_parse_files_info:self._build_file_list"
    || s == "test:_build_file_list:attributes[i] & 16"

/-- closed world: every occurrence of an attribute word in util/sevenzip.py is a store, a hand-over to
    `_build_file_list` / `FileInfo`, or the test `attributes[i] & 0x10`; archive_extractor.py never touches one.  (A
    new `attributes >> 16`, `& 0x8000`, `& 0x400`, `stat.S_ISLNK(...)` on the word, `file_info.attributes` … breaks
    this.) -/
theorem attr_word_dir_bit_only :
    (S2T.Gen.ArchiveAttrs.attrUsesSevenZip.all attrUseAllowed
      && S2T.Gen.ArchiveAttrs.attrUsesExtractor.isEmpty) = true := by decide +kernel

/-- … and the directory bit is still tested (the model's `dirBit`) -/
theorem attr_dir_bit_tested :
    S2T.Gen.ArchiveAttrs.attrUsesSevenZip.contains "test:_build_file_list:attributes[i] & 16" = true := by decide +kernel

/-- the `FileInfo` fields the model's `FileInfo` carries (`emptyFile` is the index set `_empty_file_indices`;
    `crc` / `folder_index` are bookkeeping of the decoder, C10) -/
def fileInfoModelled : List String := ["filename", "uncompressed", "is_directory", "crc", "folder_index"]

/-- no code reads `FileInfo.attributes`, and `FileInfo` has no computed property (such as `is_symlink`, `unix_mode`):
    every field / property of `FileInfo` read in the two files is one the model has -/
theorem fileinfo_reads_modelled :
    (S2T.Gen.ArchiveAttrs.fileInfoReads.all fileInfoModelled.contains
      && S2T.Gen.ArchiveAttrs.fileInfoProps.isEmpty
      && S2T.Gen.ArchiveAttrs.fileInfoFields.all (fun f => fileInfoModelled.contains f || f == "attributes")) = true := by decide +kernel

/-- ZIP: the member loop reads of a `ZipInfo` exactly the fields of the model's `ZipMember` (`filename`, `is_dir()`,
    `flag_bits`, `file_size`): not `external_attr`, `create_system`, `extra`, … -/
theorem zip_info_reads_modelled :
    S2T.Gen.ArchiveAttrs.zipInfoReads.all ["filename", "is_dir", "flag_bits", "file_size"].contains = true := by decide +kernel

/-- TAR: the member loop reads of a `TarInfo` exactly the fields of the model's `TarMember` (`name`, `isreg()`, `size`):
    not `linkname`, `type`, `mode`, `devmajor`, … (the kind guard itself: `Filter.tar_kind_guard_regular_only`) -/
theorem tar_info_reads_modelled :
    S2T.Gen.ArchiveAttrs.tarInfoReads.all ["name", "isreg", "size"].contains = true := by decide +kernel

/-- nowhere in the two files is node-kind / recreation metadata read (external_attr, create_system, linkname,
    devmajor, uid, issym, …) -/
theorem no_node_kind_metadata_read :
    (S2T.Gen.ArchiveAttrs.metaReadsExtractor.isEmpty && S2T.Gen.ArchiveAttrs.metaReadsSevenZip.isEmpty) = true := by decide +kernel

/-! ## what follows in the model, for every attribute word -/

/-- `dirBit` looks at bit 4 only: two words that agree there are the same to the reader -/
theorem dirBit_congr (a b : Nat) (h : a &&& 0x10 = b &&& 0x10) : dirBit a = dirBit b := by
  simp [dirBit, h]

/-- the unix extension never reaches the directory bit: whatever `st_mode` (symbolic link, fifo, device, socket,
    directory, setuid …) an entry declares, it is to the reader what its Windows bits `w` alone say -/
theorem dirBit_unixAttr (stMode w : Nat) : dirBit (unixAttr stMode w) = dirBit w := by
  apply dirBit_congr
  apply Nat.eq_of_testBit_eq
  intro i
  simp only [unixAttr, Nat.testBit_and, Nat.testBit_or, Nat.testBit_shiftLeft]
  by_cases hi : i = 4
  · subst hi
    have h1 : Nat.testBit 32768 4 = false := by decide
    have h2 : Nat.testBit 16 4 = true := by decide
    simp [h1, h2]
  · have h16 : Nat.testBit 0x10 i = false := by
      rw [show (0x10 : Nat) = 2 ^ 4 from rfl, Nat.testBit_two_pow]; simp; omega
    simp [h16]

example : dirBit (unixAttr 0o120777 0x20) = false ∧ dirBit (unixAttr 0o040755 0x10) = true ∧ dirBit 0x400 = false
    ∧ dirBit 0xFFFFFFFF = true := by decide

/-- The attribute words are irrelevant to a run beyond FILE_ATTRIBUTE_DIRECTORY: two headers whose entries agree in
    name, emptyStream flag and directory bit — whatever unix modes, reparse / device / hidden / read-only bits they
    declare — give the same events, the same results and the same outcome, for every consumer and host. -/
theorem C09_7z_attributes_irrelevant (T : Tables) (nested : List Str) (env : Env) (lim : Limits) (cwd base : Str)
    (a b : SevenZA) (c : Consumer)
    (hlen : a.entries.length = b.entries.length)
    (hent : ∀ i (ha : i < a.entries.length) (hb : i < b.entries.length),
      a.entries[i].name = b.entries[i].name ∧ a.entries[i].emptyStream = b.entries[i].emptyStream
        ∧ a.entries[i].attributes &&& 0x10 = b.entries[i].attributes &&& 0x10)
    (hs : a.fileSizes = b.fileSizes) (he : a.emptyFiles = b.emptyFiles) (hf : a.folders = b.folders)
    (hd : a.folderData = b.folderData) :
    run7z T nested env lim cwd base a.toSevenZ c = run7z T nested env lim cwd base b.toSevenZ c := by
  have : a.toSevenZ = b.toSevenZ := by
    simp only [SevenZA.toSevenZ, hs, he, hf, hd]
    congr 1
    apply List.ext_getElem (by simp [hlen])
    intro i h1 h2
    simp only [List.length_map] at h1 h2
    obtain ⟨hn, hes, hbit⟩ := hent i h1 h2
    simp [AttrEntry.toRaw, hn, hes, dirBit_congr _ _ hbit]
  rw [this]

/-- in particular an entry flagged as a symbolic link (or fifo, device, socket, setuid file) by the unix extension is
    to the whole run what the same entry is without the extension: a regular member whose data is written as DATA -/
theorem C09_7z_unix_mode_irrelevant (T : Tables) (nested : List Str) (env : Env) (lim : Limits) (cwd base : Str)
    (pre suf : List AttrEntry) (name : Str) (es : Bool) (stMode w : Nat)
    (sizes : List Nat) (efs : List Bool) (folders : List Nat) (fd : List (Option (List Nat))) (c : Consumer) :
    run7z T nested env lim cwd base (SevenZA.toSevenZ ⟨pre ++ ⟨name, es, unixAttr stMode w⟩ :: suf, sizes, efs, folders, fd⟩) c
      = run7z T nested env lim cwd base (SevenZA.toSevenZ ⟨pre ++ ⟨name, es, w⟩ :: suf, sizes, efs, folders, fd⟩) c := by
  simp [SevenZA.toSevenZ, AttrEntry.toRaw, dirBit_unixAttr stMode w]

/-- every node a run creates is a directory or a regular file: the events of every run (any header, attribute words,
    consumer, host) are `mkdtemp`, `mkdir`, `write`, `probe`, `read`, `rmtree` — the `Ev` type has no constructor for
    creating a link, fifo or device, and the acceptor the REAL traces are fed to rejects every such event -/
theorem confined_rejects_node_creation (cfg : Cfg) (what p : Str) (rest : List FsEvent) (pre : List FsEvent) :
    confined cfg (pre ++ FsEvent.other what p :: rest) = false := by
  cases h : confined cfg (pre ++ FsEvent.other what p :: rest) with
  | false => rfl
  | true =>
    obtain ⟨live', hl⟩ := confinedFrom_suffix cfg [] pre _ h
    simp [confinedFrom, stepOk] at hl

end S2T.C09.Attrs
