/-!
# C12 — cost of a whole archive: stored order vs. processing order on a forward-only stream; nests of archives

Two abstract cost laws behind the archive oracles of harness/props/c12.py (`archive_order`, `nested_archive`); the laws are
about every member list / every depth, the oracles observe the real `read_archive` (bytes read from the input, rewinds,
documents and characters handed back).  NOT tied to the source by translation: the processing order and the nested-member
filter of the current source are observed, on every run, by the oracles only.

* a compressed tarball is a forward-only stream: reaching the member (s, e) from position `pos` inflates `e - pos` bytes when
  `pos ≤ s` and `e` bytes (from the start again) when `s < pos`.
  `stored_order_linear`: processing the members in stored order costs at most one pass, for every member list.
  `step_back_costs_prefix`: every step back costs the whole prefix again.
  `descending_quadratic_witness`: 20 members of 512 bytes processed in descending order inflate 107 520 bytes (10 240 in stored order).
* a nest of archives with fan-out f and depth d: `skip_nested_constant` (a filter that skips members that are archives hands
  one document to the extractors whatever f, d), `recurse_exponential` (without it at least f^d).
-/
namespace S2T.C12.Cost

/-- bytes inflated when the members `(start, end)` are fetched in the given order from a forward-only stream at `pos` -/
def passCost : Nat → List (Nat × Nat) → Nat
  | _, [] => 0
  | pos, (s, e) :: r => (if s < pos then e else e - pos) + passCost e r

/-- the order in which the archive stores its members: every member starts at or after the end of the one before -/
def Stored : Nat → List (Nat × Nat) → Prop
  | _, [] => True
  | pos, (s, e) :: r => pos ≤ s ∧ s ≤ e ∧ Stored e r

theorem stored_order_linear (T : Nat) : ∀ (l : List (Nat × Nat)) (pos : Nat), Stored pos l → (∀ m ∈ l, m.2 ≤ T) → pos ≤ T →
    passCost pos l + pos ≤ T := by
  intro l
  induction l with
  | nil => intro pos _ _ h; simpa [passCost] using h
  | cons m r ih =>
    intro pos hs hT hp
    obtain ⟨s, e⟩ := m
    obtain ⟨h1, h2, h3⟩ := hs
    have he : e ≤ T := hT (s, e) (by simp)
    have := ih e h3 (fun m hm => hT m (by simp [hm])) he
    have hlt : ¬ s < pos := by omega
    simp only [passCost, hlt, if_false]
    omega

theorem step_back_costs_prefix (pos s e : Nat) (r : List (Nat × Nat)) (h : s < pos) :
    passCost pos ((s, e) :: r) = e + passCost e r := by
  simp [passCost, h]

/-- k members of m bytes, last one first -/
def descending : Nat → Nat → List (Nat × Nat)
  | 0, _ => []
  | k + 1, m => (k * m, (k + 1) * m) :: descending k m

def ascending (k m : Nat) : List (Nat × Nat) := (descending k m).reverse

theorem descending_quadratic_witness :
    passCost (20 * 512) (descending 20 512) = 107520 ∧ passCost 0 (ascending 20 512) = 10240 := by
  decide

/-- documents handed to extractors from a uniform nest: an archive holds one document and `fan` archives of the next level -/
def nestUnits (recurse : Bool) (fan : Nat) : Nat → Nat
  | 0 => 1
  | d + 1 => if recurse then fan * nestUnits recurse fan d + 1 else 1

theorem skip_nested_constant (fan d : Nat) : nestUnits false fan d = 1 := by
  cases d <;> simp [nestUnits]

theorem recurse_exponential (fan : Nat) : ∀ d, fan ^ d ≤ nestUnits true fan d := by
  intro d
  induction d with
  | zero => simp [nestUnits]
  | succ d ih =>
    have : fan * fan ^ d ≤ fan * nestUnits true fan d := Nat.mul_le_mul_left fan ih
    simp only [nestUnits, if_true]
    rw [Nat.pow_succ, Nat.mul_comm]
    omega

theorem nest_witness : nestUnits true 3 4 = 121 ∧ nestUnits false 3 4 = 1 := by decide

end S2T.C12.Cost
