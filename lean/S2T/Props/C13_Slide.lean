import S2T.Lemmas.TablesSlide
import S2T.Gen.Tables
import S2T.Gen.TablesSlide
/-!
# C13, slide level — which tables of a slide come back, and in which order

Statement (fixed): "… tables arrive in source order and none is lost, merged with a neighbour or
invented."

`Props/C13.lean` proves the per-table part for PPTX and ODP (`_extract_table_from_graphic_frame`,
`_extract_table` on one written table).  This file proves the slide level for the code that exists:

* PPTX `_process_slide_from_context`: first `p:spTree`; all `p:sp`, `p:pic`, `p:graphicFrame` of it at
  any depth; `_get_shape_position`; ONE stable sort by position `(y, x)`; a table per graphic frame whose
  `_extract_table_from_graphic_frame` result is truthy.
* ODP `_extract_slide`: the `draw:frame` children of the page; stable sort by
  `(_parse_odf_length_to_px(svg:y), _parse_odf_length_to_px(svg:x))`; the first `table:table` child of a
  frame; `_extract_table` result truthy.

What "source order" means here, as the code defines it and as these theorems state it: the reading order
of the slide — top to bottom, then left to right, by the written offsets; frames at the same position in
document order; frames without a position last (PPTX) / first (ODP: missing = 0).  If the frames are written
in reading order, that is document order (`…_source_order`).

A written slide is an abstract value (`Shape` / `OdpItem`): frames holding tables (with a position), other
shapes (any element without a graphic frame inside: text boxes, placeholders, pictures, connectors), groups of
shapes to any depth.  `list.sort` is assumed to be THE stable sort by key (`sortBy`, proved sorted + stable +
a permutation below).  ODP: `lenPx` (a float in the code) is a parameter into any linear order; float
rounding is not modelled.  One instance, `lenPxQ signed`, is `_parse_odf_length_to_px` in exact arithmetic; with it the
order by TRUE offsets is proved under `SignsAgree` only (offsets with a minus sign are read as 0 on the current
source: `C13_slide_odp_negative_counterexample`).
-/
namespace S2T.C13.Slide
open S2T.Tables S2T.Tables.Slide
open S2T.HtmlSkip (Str)

/-! ## the tie to the source -/

theorem gen_slide_notes_empty : S2T.Gen.TablesSlide.notes = [] := by decide
theorem gen_slide_pptx_ok : S2T.Gen.TablesSlide.pptx.ok S2T.Gen.Tables.pptx = true := by decide +kernel
theorem gen_slide_odp_ok : S2T.Gen.TablesSlide.odp.ok S2T.Gen.Tables.odp = true := by decide +kernel
/-- the default positions of `_get_shape_position` the statements below mention -/
theorem gen_slide_defaults :
    S2T.Gen.TablesSlide.pptx.noPos = (999999999, 999999999) ∧ S2T.Gen.TablesSlide.pptx.excPos = (999999999, 999999999)
    ∧ S2T.Gen.TablesSlide.pptx.titlePos = (0, 0) ∧ S2T.Gen.TablesSlide.pptx.footerPos = (999999998, 0)
    ∧ S2T.Gen.TablesSlide.pptx.bodyBase = 1 ∧ S2T.Gen.TablesSlide.pptx.bodyX = 0 := by decide

/-! ## the sort (`list.sort(key=…)` as the stable insertion sort `sortBy`) -/

/-- Python's `<` on `(y, x)`: top first, then left -/
theorem C13_slide_posLt (a b : Int × Int) : posLt a b = true ↔ a.1 < b.1 ∨ (a.1 = b.1 ∧ a.2 < b.2) := by
  simp [posLt, lexLt, intLt]

/-- none lost, none invented, none duplicated: the sorted list is a permutation -/
theorem C13_sort_perm {α κ : Type} (lt : κ → κ → Bool) (key : α → κ) (l : List α) : (sortBy lt key l).Perm l :=
  sortBy_perm lt key l

/-- ascending: nothing stands behind something with a larger key -/
theorem C13_sort_sorted {α κ : Type} (lt : κ → κ → Bool) (key : α → κ) (h : LinOrd lt) (l : List α) :
    (sortBy lt key l).Pairwise (fun a b => lt (key b) (key a) = false) :=
  sortBy_sorted lt key h l

/-- stable: elements none of which is `<` another (equal keys) keep their document order -/
theorem C13_sort_stable {α κ : Type} (lt : κ → κ → Bool) (key : α → κ) (h : LinOrd lt) (p : α → Bool) (l : List α)
    (hp : ∀ a b, p a = true → p b = true → lt (key a) (key b) = false) :
    (sortBy lt key l).filter p = l.filter p :=
  sortBy_stable lt key h p l hp

example : ∀ a b : Int, (a == 2) = true → (b == 2) = true → intLt a b = false := by
  intro a b ha hb
  simp_all [intLt]

/-- … for the elements at one position `k` -/
theorem C13_sort_stable_key {α κ : Type} [DecidableEq κ] (lt : κ → κ → Bool) (key : α → κ) (h : LinOrd lt) (k : κ) (l : List α) :
    (sortBy lt key l).filter (fun a => decide (key a = k)) = l.filter (fun a => decide (key a = k)) := by
  apply sortBy_stable lt key h
  intro a b ha hb
  rw [decide_eq_true_eq] at ha hb
  rw [ha, hb]
  exact h.irrefl k

/-- stable, strongest form: the other elements of the list never change the relative order of a selection -/
theorem C13_sort_filter {α κ : Type} (lt : κ → κ → Bool) (key : α → κ) (h : LinOrd lt) (p : α → Bool) (l : List α) :
    (sortBy lt key l).filter p = sortBy lt key (l.filter p) :=
  sortBy_filter lt key h p l

/-- a list written in key order is returned as written -/
theorem C13_sort_sorted_id {α κ : Type} (lt : κ → κ → Bool) (key : α → κ) (l : List α)
    (hl : l.Pairwise (fun a b => lt (key b) (key a) = false)) : sortBy lt key l = l :=
  sortBy_of_sorted lt key l hl

theorem C13_linOrd_pos : LinOrd posLt := linOrd_pos
theorem C13_linOrd_rat_pair : LinOrd (lexLt ratLt) := linOrd_rat.lex

example : LinOrd intLt := linOrd_int
example : ([3, 1, 2] : List Int).Pairwise (fun a b => intLt b a = false) → False := by decide
example : ([1, 2, 2, 3] : List Int).Pairwise (fun a b => intLt b a = false) := by decide

/-- `int(str(i)) == i` for the decimal rendering of the written offsets -/
theorem C13_slide_offset_roundtrip (i : Int) : pyInt? (decInt i) = some i := pyInt_decInt i

/-! ## PPTX -/

/-- for EVERY slide tree (well-formed or not): `p:sp` and `p:pic` elements never add, remove or reorder a
    table — `PptxSlide.tables` is determined by the graphic frames of the first shape tree alone: their
    truthy table results, the frames stably sorted by `_get_shape_position` -/
theorem C13_slide_pptx_any_tree (T : PptxTags) (S : SlideTags) (root : Node) :
    slideTables T S root =
      match (iter S.spTree root).head? with
      | none => []
      | some tree => (sortBy posLt (shapePosition S) (iter S.graphicFrame tree)).filterMap (frameGrid T) :=
  slideTables_frames T S root

/-- `_get_shape_position` on a written frame is the written position `(y, x)`; a frame written without
    `p:xfrm` gets the "no position" default -/
theorem C13_slide_pptx_position (T : PptxTags) (S : SlideTags) (hS : S.ok T = true) (f : Frame) :
    shapePosition S (f.node T S) = f.pos?.getD S.noPos :=
  shapePosition_frame T S hS f

/-- … which is (999999999, 999999999) on the current source -/
theorem C13_slide_pptx_default_position (f : Frame) (h : f.pos? = none) :
    shapePosition S2T.Gen.TablesSlide.pptx (f.node S2T.Gen.Tables.pptx S2T.Gen.TablesSlide.pptx) = (999999999, 999999999) := by
  rw [shapePosition_frame _ _ gen_slide_pptx_ok, Frame.position, h]
  rfl

example : (Frame.table none [[[[.run ['a']]]]]).pos? = none := rfl

/-! Full statement (false on the current code for the known reason, kept visible):
  `slideTables T S (slideRoot T S shapes) = (sortBy posLt (Frame.position S) (framesL shapes)).filterMap Frame.grid`
`_extract_table_from_graphic_frame` strips every cell text: open finding `pptx.cell-outer-whitespace-stripped`
(counterexample theorem `C13_pptx_counterexample` in `Props/C13.lean`, per frame; `C13_slide_pptx_counterexample`
below, on a slide). -/

/-- PPTX, every written slide (any number of frames, text shapes, pictures, groups to any depth; tables of any
    size): what the code returns — exactly the tables with at least one row, each as its grid with stripped
    cell texts, the frames in position order `(y, x)`, ties in document order -/
theorem C13_slide_pptx_stripped (T : PptxTags) (S : SlideTags) (hS : S.ok T = true) (shapes : List Shape)
    (hc : cleanL S shapes = true) :
    slideTables T S (slideRoot T S shapes) =
      (sortBy posLt (Frame.position S) (framesL shapes)).filterMap Frame.gridStripped :=
  slide_tables T S hS shapes hc

/-- every cell text of every table frame without outer white space (the hypothesis `PptxTrimmed` of
    `C13_grid_pptx_partial`, for all tables of the slide) -/
def PptxTrimmed (fs : List Frame) : Prop :=
  ∀ pos t, Frame.table pos t ∈ fs → ∀ row ∈ t, ∀ cell ∈ row, pyStrip (pptxCellSpec cell) = pptxCellSpec cell

/-- PPTX, every written slide whose cell texts have no outer white space: the slide's tables come back with
    every cell (i, j) holding exactly the text of source cell (i, j), in position order, ties in document order,
    tables without rows dropped, nothing else lost or invented -/
theorem C13_slide_pptx_partial (T : PptxTags) (S : SlideTags) (hS : S.ok T = true) (shapes : List Shape)
    (hc : cleanL S shapes = true) (ht : PptxTrimmed (framesL shapes)) :
    slideTables T S (slideRoot T S shapes) =
      (sortBy posLt (Frame.position S) (framesL shapes)).filterMap Frame.grid := by
  rw [slide_tables T S hS shapes hc]
  have hmem : ∀ f ∈ sortBy posLt (Frame.position S) (framesL shapes), f ∈ framesL shapes :=
    fun f hf => (sortBy_perm _ _ _).mem_iff.mp hf
  generalize sortBy posLt (Frame.position S) (framesL shapes) = l at hmem
  induction l with
  | nil => rfl
  | cons f r ih =>
    have e : f.gridStripped = f.grid := by
      cases f with
      | chart pos => rfl
      | table pos t =>
        simp only [Frame.gridStripped, Frame.grid]
        split
        · rfl
        · congr 1
          apply List.map_congr_left
          intro row hrow
          apply List.map_congr_left
          intro cell hcell
          exact ht pos t (hmem _ (by simp)) row hrow cell hcell
    simp only [List.filterMap_cons, e, ih (fun g hg => hmem g (by simp [hg]))]

theorem C13_slide_pptx_gen (shapes : List Shape) (hc : cleanL S2T.Gen.TablesSlide.pptx shapes = true)
    (ht : PptxTrimmed (framesL shapes)) :
    slideTables S2T.Gen.Tables.pptx S2T.Gen.TablesSlide.pptx (slideRoot S2T.Gen.Tables.pptx S2T.Gen.TablesSlide.pptx shapes) =
      (sortBy posLt (Frame.position S2T.Gen.TablesSlide.pptx) (framesL shapes)).filterMap Frame.grid :=
  C13_slide_pptx_partial _ _ gen_slide_pptx_ok shapes hc ht

/-- a slide with a picture, a connector, a chart, a group holding a table frame, two table frames at the same
    position and one without position -/
def exampleSlide : List Shape :=
  [.other (picNode S2T.Gen.TablesSlide.pptx (some (5, 5))),
   .frame (.table (some (3000, 10)) [[[[.run ['l', 'a', 't', 'e']]]]]),
   .group [.other (elem (pNs ++ ['c', 'x', 'n', 'S', 'p']) []), .frame (.table (some (1000, 500)) [[[[.run ['g']]], []]])],
   .frame (.chart (some (0, 0))),
   .frame (.table (some (1000, 20)) [[[[.run ['a', ' ', 'b'], .br, .field ['1']]]]]),
   .frame (.table (some (1000, 20)) []),
   .frame (.table none [[[[.run ['n', 'o']]]]]),
   .frame (.table (some (-5, 7)) [[]])]

example : cleanL S2T.Gen.TablesSlide.pptx exampleSlide = true := by decide +kernel

example : PptxTrimmed (framesL exampleSlide) := by
  intro pos t hm row hrow cell hcell
  simp only [exampleSlide, framesL, Shape.frames, List.cons_append, List.nil_append, List.append_nil, List.mem_cons,
    List.not_mem_nil, or_false, Frame.table.injEq, reduceCtorEq, false_or] at hm
  rcases hm with ⟨_, rfl⟩ | ⟨_, rfl⟩ | ⟨_, rfl⟩ | ⟨_, rfl⟩ | ⟨_, rfl⟩ | ⟨_, rfl⟩
  all_goals
    simp only [List.mem_cons, List.not_mem_nil, or_false] at hrow
  all_goals try subst hrow
  all_goals
    simp only [List.mem_cons, List.not_mem_nil, or_false] at hcell
  · subst hcell; decide
  · rcases hcell with rfl | rfl <;> decide
  · subst hcell; decide
  · subst hcell; decide

/-- the example slide: (−5, 7) first, then the three frames at y = 1000 by x (the one with no rows dropped),
    then y = 3000, then the frame without position; the chart gives nothing -/
example : (sortBy posLt (Frame.position S2T.Gen.TablesSlide.pptx) (framesL exampleSlide)).filterMap Frame.grid
    = [[[]], [[['a', ' ', 'b', Char.ofNat 11, '1']]], [[['g'], []]], [[['l', 'a', 't', 'e']]], [[['n', 'o']]]] := by
  decide +kernel

/-- explicit order facts for the frames as they are visited (`out`): a permutation of the slide's frames (none
    lost, none invented); positions ascending in `(y, x)`; frames at the same position in document order -/
theorem C13_slide_pptx_order (S : SlideTags) (shapes : List Shape) :
    let out := sortBy posLt (Frame.position S) (framesL shapes)
    out.Perm (framesL shapes)
    ∧ out.Pairwise (fun a b => ¬ ((b.position S).1 < (a.position S).1
        ∨ ((b.position S).1 = (a.position S).1 ∧ (b.position S).2 < (a.position S).2)))
    ∧ ∀ p : Int × Int, out.filter (fun f => decide (f.position S = p)) = (framesL shapes).filter (fun f => decide (f.position S = p)) := by
  refine ⟨sortBy_perm _ _ _, ?_, fun p => C13_sort_stable_key posLt _ linOrd_pos p _⟩
  have := sortBy_sorted posLt (Frame.position S) linOrd_pos (framesL shapes)
  apply List.Pairwise.imp _ this
  intro a b h
  rw [← C13_slide_posLt]
  have h' : posLt (Frame.position S b) (Frame.position S a) = false := h
  simp [h']

/-- none lost, none invented, none merged: the returned tables are, up to order, exactly the grids of the source
    tables that have at least one row -/
theorem C13_slide_pptx_perm (T : PptxTags) (S : SlideTags) (hS : S.ok T = true) (shapes : List Shape)
    (hc : cleanL S shapes = true) :
    (slideTables T S (slideRoot T S shapes)).Perm ((framesL shapes).filterMap Frame.gridStripped) := by
  rw [slide_tables T S hS shapes hc]
  exact (sortBy_perm _ _ _).filterMap _

/-- "source order": if the frames are written in reading order (positions non-decreasing in document order),
    the tables arrive in document order -/
theorem C13_slide_pptx_source_order (T : PptxTags) (S : SlideTags) (hS : S.ok T = true) (shapes : List Shape)
    (hc : cleanL S shapes = true)
    (hord : (framesL shapes).Pairwise (fun a b => posLt (b.position S) (a.position S) = false)) :
    slideTables T S (slideRoot T S shapes) = (framesL shapes).filterMap Frame.gridStripped := by
  rw [slide_tables T S hS shapes hc, sortBy_of_sorted posLt _ _ hord]

example : (framesL [.frame (.table (some (10, 0)) [[[[.run ['a']]]]]), .frame (.chart (some (10, 0))),
      .group [.frame (.table (some (10, 5)) [[[[.run ['b']]]]])], .frame (.table none [[]])]).Pairwise
    (fun a b => posLt (b.position S2T.Gen.TablesSlide.pptx) (a.position S2T.Gen.TablesSlide.pptx) = false) := by
  decide +kernel

/-- what "source order" does NOT mean: two frames written bottom-first come back top-first (on the model; the
    harness replays the same slide on the real code) -/
theorem C13_slide_pptx_reading_order_example :
    slideTables S2T.Gen.Tables.pptx S2T.Gen.TablesSlide.pptx
      (slideRoot S2T.Gen.Tables.pptx S2T.Gen.TablesSlide.pptx
        [.frame (.table (some (2000, 0)) [[[[.run ['1', 's', 't']]]]]),
         .frame (.table (some (1000, 0)) [[[[.run ['2', 'n', 'd']]]]])])
      = [[[['2', 'n', 'd']]], [[['1', 's', 't']]]] := by
  rw [slide_tables _ _ gen_slide_pptx_ok _ rfl]
  decide +kernel

/-- counterexample to the full statement on a slide (the known stripping finding): the cell " a" of the only
    table of the slide comes back as "a" -/
theorem C13_slide_pptx_counterexample :
    slideTables S2T.Gen.Tables.pptx S2T.Gen.TablesSlide.pptx
      (slideRoot S2T.Gen.Tables.pptx S2T.Gen.TablesSlide.pptx [.frame (.table (some (0, 0)) [[[[.run [' ', 'a']]]]])])
      = [[[['a']]]]
    ∧ (Frame.table (some (0, 0)) [[[[.run [' ', 'a']]]]]).grid = some [[[' ', 'a']]] := by
  constructor
  · rw [slide_tables _ _ gen_slide_pptx_ok _ rfl]
    decide +kernel
  · decide +kernel

/-! ## ODP -/

/-- ODP, every written page (frames with tables / text boxes / images, other page children; any `svg:y`,
    `svg:x` strings, present or not; ANY reading `lenPx` of a length string into ANY linear order): the slide's
    tables are exactly the tables with at least one row, each as its grid (cell (i, j) = text of source cell
    (i, j)), the frames in `(lenPx y, lenPx x)` order, ties in document order -/
theorem C13_slide_odp {K : Type} [DecidableEq K] (T : OdfTags) (D : OdpSlideTags) (hD : D.ok T = true)
    (lenPx : Option Str → K) (lt : K → K → Bool) (items : List OdpItem) (hok : items.all (OdpItem.ok T D) = true) :
    odpSlideTables T D lenPx lt (pageNode T D items) =
      (sortBy (lexLt lt) (OdpFrame.key lenPx) (items.filterMap OdpItem.frame?)).filterMap OdpFrame.grid :=
  odp_slide_tables T D hD lenPx lt items hok

theorem C13_slide_odp_gen {K : Type} [DecidableEq K] (lenPx : Option Str → K) (lt : K → K → Bool) (items : List OdpItem)
    (hok : items.all (OdpItem.ok S2T.Gen.Tables.odp S2T.Gen.TablesSlide.odp) = true) :
    odpSlideTables S2T.Gen.Tables.odp S2T.Gen.TablesSlide.odp lenPx lt (pageNode S2T.Gen.Tables.odp S2T.Gen.TablesSlide.odp items) =
      (sortBy (lexLt lt) (OdpFrame.key lenPx) (items.filterMap OdpItem.frame?)).filterMap OdpFrame.grid :=
  odp_slide_tables _ _ gen_slide_odp_ok lenPx lt items hok

/-- a page with a text box, two table frames (the second written above the first), a table without rows and
    a custom shape -/
def examplePage : List OdpItem :=
  [.frame ⟨some ['1', 'c', 'm'], some ['1', 'c', 'm'], .other [elem drawTextBox []]⟩,
   .frame ⟨some ['1', '0', 'c', 'm'], some ['2', 'c', 'm'],
     .table (1, [[[⟨['h'], []⟩]], [[⟨['a'], []⟩], [⟨['b'], [.tab ['c']]⟩]]])⟩,
   .frame ⟨some ['1', 'i', 'n'], none, .table (0, [[[⟨['t', 'o', 'p'], []⟩]]])⟩,
   .frame ⟨none, none, .table (0, [])⟩,
   .other (elem (drawNs ++ ['c', 'u', 's', 't', 'o', 'm', '-', 's', 'h', 'a', 'p', 'e']) [])]

example : examplePage.all (OdpItem.ok S2T.Gen.Tables.odp S2T.Gen.TablesSlide.odp) = true := by decide +kernel

/-- order facts (for a linear order on the keys): permutation, ascending, ties in document order -/
theorem C13_slide_odp_order {K : Type} [DecidableEq K] (lenPx : Option Str → K) (lt : K → K → Bool) (h : LinOrd lt)
    (items : List OdpItem) :
    let fs := items.filterMap OdpItem.frame?
    let out := sortBy (lexLt lt) (OdpFrame.key lenPx) fs
    out.Perm fs
    ∧ out.Pairwise (fun a b => lexLt lt (b.key lenPx) (a.key lenPx) = false)
    ∧ ∀ k : K × K, out.filter (fun f => decide (f.key lenPx = k)) = fs.filter (fun f => decide (f.key lenPx = k)) :=
  ⟨sortBy_perm _ _ _, sortBy_sorted _ _ h.lex _, fun k => C13_sort_stable_key _ _ h.lex k _⟩

example : LinOrd ratLt := linOrd_rat

/-- none lost, none invented -/
theorem C13_slide_odp_perm {K : Type} [DecidableEq K] (T : OdfTags) (D : OdpSlideTags) (hD : D.ok T = true)
    (lenPx : Option Str → K) (lt : K → K → Bool) (items : List OdpItem) (hok : items.all (OdpItem.ok T D) = true) :
    (odpSlideTables T D lenPx lt (pageNode T D items)).Perm ((items.filterMap OdpItem.frame?).filterMap OdpFrame.grid) := by
  rw [odp_slide_tables T D hD lenPx lt items hok]
  exact (sortBy_perm _ _ _).filterMap _

/-- "source order": frames written in reading order come back in document order -/
theorem C13_slide_odp_source_order {K : Type} [DecidableEq K] (T : OdfTags) (D : OdpSlideTags) (hD : D.ok T = true)
    (lenPx : Option Str → K) (lt : K → K → Bool) (items : List OdpItem) (hok : items.all (OdpItem.ok T D) = true)
    (hord : (items.filterMap OdpItem.frame?).Pairwise (fun a b => lexLt lt (b.key lenPx) (a.key lenPx) = false)) :
    odpSlideTables T D lenPx lt (pageNode T D items) = (items.filterMap OdpItem.frame?).filterMap OdpFrame.grid := by
  rw [odp_slide_tables T D hD lenPx lt items hok, sortBy_of_sorted _ _ _ hord]

example : (([.frame ⟨some ['1', 'c', 'm'], some ['2', 'c', 'm'], .table (0, [[[⟨['a'], []⟩]]])⟩,
      .frame ⟨some ['1', 'c', 'm'], some ['2', 'c', 'm'], .other []⟩,
      .frame ⟨some ['1', 'i', 'n'], none, .table (0, [[[⟨['b'], []⟩]]])⟩] : List OdpItem).filterMap OdpItem.frame?).Pairwise
    (fun a b => lexLt ratLt (b.key (lenPxQ false)) (a.key (lenPxQ false)) = false) := by decide +kernel

/-- the example page under the exact-arithmetic reading of the lengths: "1in" (96 px) is above "10cm" -/
theorem C13_slide_odp_example :
    odpSlideTables S2T.Gen.Tables.odp S2T.Gen.TablesSlide.odp (lenPxQ false) ratLt
      (pageNode S2T.Gen.Tables.odp S2T.Gen.TablesSlide.odp examplePage)
      = [[[['t', 'o', 'p']]], [[['h']], [['a'], ['b', '\t', 'c']]]] := by
  rw [odp_slide_tables _ _ gen_slide_odp_ok _ _ _ (by decide +kernel)]
  decide +kernel

/-! ### the sign of an offset

Full statement (false on the current code, kept visible): the tables of a page arrive in the order of the TRUE
offsets of their frames — `lenPxQ true`, the value of the ODF length with its sign:
  `odpSlideTables T D (lenPxQ false) ratLt (pageNode T D items)
     = (sortBy (lexLt ratLt) (OdpFrame.key (lenPxQ true)) (items.filterMap OdpItem.frame?)).filterMap OdpFrame.grid`
`_ODF_LENGTH_RE` has no sign in front of the digits, so `svg:y="-1cm"` (a frame that starts above the slide; what
LibreOffice writes for it) does not match and is read as 0: all frames with a negative offset tie with each other
and with offset 0 and stay in document order.  Finding `odp.negative-offset-sorted-as-zero`; repair = `-?` in the
expression (then `S2T.Gen.TablesSlide.odpLengthSigned` becomes `true` and the model reads the sign). -/

/-- the exact excluding hypothesis: on the frames of the page the reader in use gives the signed values
    (no negative offset, or a reader that knows the sign) -/
def SignsAgree (signed : Bool) (fs : List OdpFrame) : Prop :=
  ∀ f ∈ fs, f.key (lenPxQ signed) = f.key (lenPxQ true)

theorem C13_slide_odp_signed_partial (T : OdfTags) (D : OdpSlideTags) (hD : D.ok T = true) (signed : Bool)
    (items : List OdpItem) (hok : items.all (OdpItem.ok T D) = true)
    (hs : SignsAgree signed (items.filterMap OdpItem.frame?)) :
    odpSlideTables T D (lenPxQ signed) ratLt (pageNode T D items) =
      (sortBy (lexLt ratLt) (OdpFrame.key (lenPxQ true)) (items.filterMap OdpItem.frame?)).filterMap OdpFrame.grid := by
  rw [odp_slide_tables T D hD _ _ items hok]
  rw [sortBy_congr (lexLt ratLt) (OdpFrame.key (lenPxQ signed)) (OdpFrame.key (lenPxQ true)) _ hs]

/-- with a reader that knows the sign there is nothing to exclude -/
theorem C13_slide_odp_signed_fixed (fs : List OdpFrame) : SignsAgree true fs := fun _ _ => rfl

example : SignsAgree false (examplePage.filterMap OdpItem.frame?) := by
  intro f hf
  simp only [examplePage, List.filterMap_cons, OdpItem.frame?, List.filterMap_nil, List.mem_cons, List.not_mem_nil,
    or_false] at hf
  rcases hf with rfl | rfl | rfl | rfl <;> decide +kernel

/-- two tables, the first in the file at y = −1 cm, the second at y = −2 cm (higher on the slide) -/
def negativePage : List OdpItem :=
  [.frame ⟨some ['-', '1', 'c', 'm'], none, .table (0, [[[⟨['l', 'o', 'w'], []⟩]]])⟩,
   .frame ⟨some ['-', '2', 'c', 'm'], none, .table (0, [[[⟨['h', 'i', 'g', 'h'], []⟩]]])⟩]

/-- counterexample to the full statement: with the unsigned reader both offsets are 0 and the tables stay in
    document order; by their true offsets the second table comes first (and does, with the signed reader) -/
theorem C13_slide_odp_negative_counterexample :
    odpSlideTables S2T.Gen.Tables.odp S2T.Gen.TablesSlide.odp (lenPxQ false) ratLt
        (pageNode S2T.Gen.Tables.odp S2T.Gen.TablesSlide.odp negativePage) = [[[['l', 'o', 'w']]], [[['h', 'i', 'g', 'h']]]]
    ∧ (sortBy (lexLt ratLt) (OdpFrame.key (lenPxQ true)) (negativePage.filterMap OdpItem.frame?)).filterMap OdpFrame.grid
        = [[[['h', 'i', 'g', 'h']]], [[['l', 'o', 'w']]]]
    ∧ odpSlideTables S2T.Gen.Tables.odp S2T.Gen.TablesSlide.odp (lenPxQ true) ratLt
        (pageNode S2T.Gen.Tables.odp S2T.Gen.TablesSlide.odp negativePage) = [[[['h', 'i', 'g', 'h']]], [[['l', 'o', 'w']]]] := by
  refine ⟨?_, by decide +kernel, ?_⟩
  · rw [odp_slide_tables _ _ gen_slide_odp_ok _ _ _ (by decide +kernel)]
    decide +kernel
  · rw [odp_slide_tables _ _ gen_slide_odp_ok _ _ _ (by decide +kernel)]
    decide +kernel

end S2T.C13.Slide
