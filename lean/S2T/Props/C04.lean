import S2T.Lemmas.Iface
import S2T.Props.C04_Copies
import S2T.Gen.Iface
import S2T.Props.C04_Src
import S2T.Props.C04_Streams
import S2T.Props.C04_StreamSites
import S2T.Props.C04_OptText
import S2T.Props.C04_Values
/-!
# C04 — every result honours the common interface, for any input

Statement (fixed): every yielded result, and every unit, image and table reachable from it, honours the common
interface whatever the input was: text accessors return str that is well-formed Unicode (encodable as UTF-8),
unit and image numbers are positive integers, get_bytes() returns a readable binary stream positioned at 0 whose
length equals the reported size, get_dim() equals the shape of get_table(), and get_metadata() reports file name,
extension and folder derived from the path argument (all None when no path was given).  Calling these accessors
never raises, and the textual document properties stored in the file are reported unchanged in the metadata object.

What is proved here, clause by clause (models in `S2T/Model/Iface.lean`; inventories regenerated from the source
into `S2T/Gen/Iface.lean` on every run, so the `decide`d statements are re-decided when the source changes):

* (i)   `get_dim() = shape(get_table())` for the two ways the six table classes compute them, all tables;
* (ii)  every constructor call site of the package gives a unit / image number that is a 1-based enumerate
        variable, a counter incremented before use, `nonneg + 1`, a copy of such a field, a positive constant
        (or `None` where the interface allows it) — and each of those forms is ≥ 1 for all runs;
* (iii) `get_bytes()` is at position 0, holds exactly `size_bytes` bytes for what the constructor sites build,
        also after the caller consumed a previously returned (shared) stream;
* (iv)  `populate_from_path`: nothing for `None`; name / suffix / parent of `PurePosixPath` otherwise, with
        their characteristic properties (incl. `archive!/member`);
* (v)   the RTF `\uN` decoding with the surrogate repair yields well-formed text for all inputs; the unrepaired
        decoding (the code before `fix-rtf-surrogates.patch`) does not — counterexample theorem;
* (vi)  the OOXML / ODF document-property readers are the identity on the element text.

Not theorems (only tied by the correspondence / the oracle of `harness/props/c04.py`): that no accessor of the 47
classes raises on the objects the 21 extractors really build, and that fields hold values of their declared types.
-/
namespace S2T.C04
open S2T.Iface

/-! ## (i) tables -/

/-- the shape of a table: number of rows, and the length of a longest row (0 for no rows) -/
def IsShape {α : Type} (t : List (List α)) (d : Dim) : Prop :=
  d.rows = t.length ∧ (∀ r ∈ t, r.length ≤ d.columns) ∧ (t = [] → d.columns = 0) ∧ (t ≠ [] → ∃ r ∈ t, r.length = d.columns)

/-- `get_dim()` is the shape of `get_table()` for the classes whose table is `self.data`, any rows (ragged included) -/
theorem C04_dim_is_shape {α : Type} (data : List (List α)) : IsShape data (dimOfData data) :=
  ⟨rfl, maxLen_ge data, fun h => by subst h; rfl, maxLen_attained data⟩

/-- the shape is unique: whatever satisfies the specification is what `get_dim()` returns -/
theorem C04_shape_unique {α : Type} (t : List (List α)) (d : Dim) (h : IsShape t d) : d = dimOfData t := by
  obtain ⟨h1, h2, h3, h4⟩ := h
  cases d with | mk r c =>
  simp only [dimOfData, Dim.mk.injEq]
  refine ⟨h1, ?_⟩
  by_cases ht : t = []
  · subst ht; exact h3 rfl
  · obtain ⟨r1, hr1, hl1⟩ := h4 ht
    obtain ⟨r2, hr2, hl2⟩ := maxLen_attained t ht
    have a := maxLen_ge t r1 hr1
    have b := h2 r2 hr2
    simp only at hl1 b
    omega

example : IsShape [[1], [2, 3, 4], []] (⟨3, 3⟩ : Dim) := by
  refine ⟨rfl, by decide, by decide, fun _ => ⟨[2, 3, 4], by decide, rfl⟩⟩

theorem C04_dim_empty {α : Type} : dimOfData ([] : List (List α)) = ⟨0, 0⟩ := rfl

/-- a rectangular table with `c` columns reports `(len, c)` -/
theorem C04_dim_rect {α : Type} (t : List (List α)) (c : Nat) (h : ∀ r ∈ t, r.length = c) (hne : t ≠ []) :
    dimOfData t = ⟨t.length, c⟩ := by
  simp [dimOfData, maxLen_rect t c h hne]

example : (∀ r ∈ [[1, 2, 3], [4, 5, 6]], r.length = 3) ∧ [[1, 2, 3], [4, 5, 6]] ≠ ([] : List (List Nat)) := by decide
example : dimOfData [[1], [2, 3, 4], []] = ⟨3, 3⟩ := by decide

/-- `XlsSheet.get_table()` is rectangular: the header row and one row per record, each as long as the header -/
theorem C04_xls_table_rect {κ ν : Type} [DecidableEq κ] (first : List (κ × ν)) (rest : List (List (κ × ν))) :
    (xlsGetTable (first :: rest)).length = rest.length + 2 ∧
    ∀ r ∈ xlsGetTable (first :: rest), r.length = first.length := by
  refine ⟨by simp [xlsGetTable], ?_⟩
  intro r hr
  unfold xlsGetTable at hr
  simp only [List.mem_cons, List.mem_map] at hr
  rcases hr with h | ⟨row, _, h⟩
  · rw [h]; simp
  · rw [← h]; simp

/-- `XlsSheet.get_dim()` for any records: `(0,0)` without data, else `(records + 1, keys of the first record)` -/
theorem C04_xls_dim {κ ν : Type} [DecidableEq κ] (data : List (List (κ × ν))) :
    IsShape (xlsGetTable data) (xlsGetDim data) ∧
    (data = [] → xlsGetDim data = ⟨0, 0⟩) ∧
    (∀ first rest, data = first :: rest → xlsGetDim data = ⟨rest.length + 2, first.length⟩) := by
  refine ⟨C04_dim_is_shape _, fun h => by subst h; rfl, ?_⟩
  intro first rest h
  subst h
  have hr := C04_xls_table_rect first rest
  have hne : xlsGetTable (first :: rest) ≠ [] := by simp [xlsGetTable]
  rw [xlsGetDim, C04_dim_rect _ first.length hr.2 hne, hr.1]

example : xlsGetDim [[("a", 1), ("b", 2)], [("b", 5)]] = ⟨3, 2⟩ := by decide

/-- every table class of `data_types` is one of the two modelled forms (a new class breaks this) -/
theorem C04_table_classes_modelled :
    ∀ e ∈ S2T.Gen.Iface.accessors, e.1 = Role.table → (tableKind e.2.1).isSome = true := by decide

/-- every class implementing a protocol defines every accessor of that protocol itself -/
theorem C04_accessors_complete :
    ∀ e ∈ S2T.Gen.Iface.accessors, ∀ a ∈ requiredAccessors e.1, a ∈ e.2.2 := by decide

theorem C04_inventory_notes_empty : S2T.Gen.Iface.notes = [] := by decide

/-! ## (ii) unit and image numbers are positive -/

/-- what the accessors report: `image_number` is always a stored field; an image's `unit_number` is a stored
field, a stored field passed only when positive, or `None`; a unit's `unit_number` is a stored field or a positive constant -/
theorem C04_reported_numbers :
    (∀ ic ∈ S2T.Gen.Iface.imageClasses,
      (match ic.imageNumber with | .field _ => true | _ => false) = true ∧
      (match ic.unitNumber with | .field _ | .fieldIfPos _ | .none => true | _ => false) = true) ∧
    (∀ u ∈ S2T.Gen.Iface.unitClasses, (match u.2 with | .field _ => true | .const k => decide (1 ≤ k) | _ => false) = true) := by
  decide

/-- every constructor / `dataclasses.replace` call site of the package sets each such field by an expression of
an accepted kind (1-based enumerate, counter incremented before use, `nonneg + 1`, copy of a number field, positive
constant, modelled helper, `None` only for an image's optional unit number) -/
theorem C04_number_sites_ok : ∀ s ∈ S2T.Gen.Iface.numberSites, siteOk s = true := by decide +kernel

/-- the values of the accepted kinds, for all runs: a 1-based `enumerate` variable -/
theorem C04_enumerate_positive {α : Type} (start : Nat) (xs : List α) (h : 1 ≤ start) :
    ∀ p ∈ enumerateFrom start xs, 1 ≤ p.1 :=
  fun p hp => Nat.le_trans h (enumerateFrom_ge xs start p hp)

/-- … it numbers consecutively from `start` -/
theorem C04_enumerate_consecutive {α : Type} (start : Nat) (xs : List α) :
    (enumerateFrom start xs).map (·.1) = List.range' start xs.length := enumerateFrom_fst xs start

/-- … a counter started at `c ≥ 0` and incremented before each use, whatever elements are skipped -/
theorem C04_counter_positive {α : Type} (keep : α → Bool) (c : Nat) (xs : List α) :
    ∀ n ∈ counterLoop keep c xs, 1 ≤ n := fun n hn => by have := counterLoop_gt keep xs c n hn; omega

/-- … `_get_page_for_position` (1-based page of an RTF position) -/
theorem C04_page_positive (position : Nat) (breaks : List Nat) : 1 ≤ getPageForPosition position breaks 1 :=
  getPageForPosition_ge position breaks 1

/-- … a stored slide number reported only when positive (`PptImage`): never a non-positive unit number -/
theorem C04_report_if_pos (n m : Int) (h : reportIfPos n = some m) : 1 ≤ m := by
  unfold reportIfPos at h; split at h
  · cases h; omega
  · cases h

example : enumerateFrom 1 ['a', 'b'] = [(1, 'a'), (2, 'b')] := by decide
example : counterLoop (fun n => n % 2 == 0) 0 [1, 2, 3, 4] = [1, 2] := by decide

/-! ## (iii) `get_bytes()` -/

/-- position 0, for every image object in every state of its stored stream -/
theorem C04_bytes_at_zero (im : Image) : (getBytes im).1.pos = 0 := by
  unfold getBytes; cases im.payload <;> rfl

/-- the stream holds exactly `size_bytes` bytes for everything the constructor sites build -/
theorem C04_bytes_length (kind : PayloadKind) (v : Option (List Nat)) :
    (getBytes (mkImage kind v)).1.content.length = (mkImage kind v).sizeBytes := by
  cases v with
  | none => rfl
  | some b => cases kind <;> rfl

/-- reading the returned stream yields the whole payload -/
theorem C04_bytes_read_all (im : Image) : ((getBytes im).1.read).1 = payloadBytes im.payload := by
  unfold getBytes; cases h : im.payload <;> simp [Stream.read, Stream.seek0, payloadBytes]

/-- after the caller consumed any part of a previously returned stream, `get_bytes()` is at 0 with the same content -/
theorem C04_bytes_after_read (im : Image) (k : Nat) : (getBytes (consume im k)).1 = (getBytes im).1 := by
  unfold getBytes consume; cases h : im.payload <;> simp [Stream.seek0, h]

/-- `get_bytes()` changes neither the reported size nor the payload -/
theorem C04_bytes_pure (im : Image) :
    (getBytes im).2.sizeBytes = im.sizeBytes ∧ payloadBytes (getBytes im).2.payload = payloadBytes im.payload := by
  unfold getBytes; cases h : im.payload <;> simp [payloadBytes, Stream.seek0, h]

/-- every constructor call site of a size-reporting image class sets `size_bytes = len(payload)` of the payload
it stores, copies both from one image, or sets neither -/
theorem C04_size_sites_ok :
    ∀ s ∈ S2T.Gen.Iface.sizeSites, (match s.kind with | .other _ => false | _ => true) = true := by decide

/-- the payload field of every image class is `bytes` or a stored stream (the two forms `getBytes` models) -/
theorem C04_payload_kinds : ∀ ic ∈ S2T.Gen.Iface.imageClasses, ic.payloadKind ≠ PayloadKind.otherKind := by decide

example : (getBytes (consume (mkImage .stream (some [1, 2, 3])) 2)).1 = ⟨[1, 2, 3], 0⟩ := by decide

/-! ## (iii-b) pictures of the legacy PPT / XLS streams (OfficeArt BLIP records) -/

/-- the constants of the modelled pipeline are the ones of the current source (record types, metafile / DIB types,
secondary-UID instances, file signatures in the order `detect_image_type` tries them) -/
theorem C04_blip_constants :
    S2T.Gen.Iface.blipTypes = blipTypes ∧ S2T.Gen.Iface.blipEmf = blipEmf ∧ S2T.Gen.Iface.blipWmf = blipWmf ∧
    S2T.Gen.Iface.blipDib = blipDib ∧ S2T.Gen.Iface.blipSecondUid = blipSecondUid ∧
    S2T.Gen.Iface.imageSignatures = imageSignatures := by decide

/-- wrapping a DIB: the BMP file is the DIB behind a 14-byte `BM` header — 14 bytes longer than what was in the record -/
theorem C04_wrap_dib_length (d b : List Nat) (h : wrapDibAsBmp d = some b) :
    b.length = d.length + 14 ∧ b.drop 14 = d ∧ b.take 2 = [0x42, 0x4D] := by
  unfold wrapDibAsBmp at h
  split at h
  · cases h
  · split at h
    · cases h
    · simp only at h
      split at h
      · cases h
      · cases h
        refine ⟨by simp [le32], by simp [le32], by simp [le32]⟩

/-- what a record's stored payload is: the bytes behind the BLIP header, or (DIB records the sniffer does not know)
their BMP wrapping; never empty -/
theorem C04_blip_payload_cases (r : BlipRec) (ct : String) (p : List Nat) (h : blipPayload r = some (ct, p)) :
    p ≠ [] ∧ (p = r.data.drop (blipHeaderSize r.inst) ∨
      (r.recType = blipDib ∧ wrapDibAsBmp (r.data.drop (blipHeaderSize r.inst)) = some p)) := by
  unfold blipPayload at h
  split at h
  · cases h
  · simp only at h
    split at h
    · cases h
    · rename_i hlen
      have hne : r.data.drop (blipHeaderSize r.inst) ≠ [] := by
        intro e
        have := congrArg List.length e
        simp only [List.length_drop, List.length_nil] at this
        omega
      split at h
      · cases h; exact ⟨hne, Or.inl rfl⟩
      · split at h
        · cases h; exact ⟨hne, Or.inl rfl⟩
        · split at h
          · cases h; exact ⟨hne, Or.inl rfl⟩
          · split at h
            · rename_i hd
              cases hw : wrapDibAsBmp (r.data.drop (blipHeaderSize r.inst)) with
              | none => rw [hw] at h; cases h
              | some b =>
                rw [hw] at h
                simp only [Option.map_some, Option.some.injEq, Prod.mk.injEq] at h
                obtain ⟨_, rfl⟩ := h
                have := (C04_wrap_dib_length _ _ hw).1
                refine ⟨?_, Or.inr ⟨hd, rfl⟩⟩
                intro e; rw [e] at this; simp at this
            · cases h

private theorem blipAux_ok (recs : List BlipRec) : ∀ (seen : List (List Nat)) (n : Nat), ∀ bi ∈ blipImagesAux seen n recs,
    n + 1 ≤ bi.index ∧ ∃ r ∈ recs, ∃ p, blipPayload r = some (bi.contentType, p) ∧ bi.image = mkImage .bytes (some p) := by
  induction recs with
  | nil => intro seen n bi h; simp [blipImagesAux] at h
  | cons r rs ih =>
    intro seen n bi h
    unfold blipImagesAux at h
    split at h
    · obtain ⟨a, r', hr', hp⟩ := ih seen n bi h
      exact ⟨a, r', List.mem_cons_of_mem _ hr', hp⟩
    · rename_i ct p hp
      split at h
      · obtain ⟨a, r', hr', hp'⟩ := ih seen n bi h
        exact ⟨a, r', List.mem_cons_of_mem _ hr', hp'⟩
      · rcases List.mem_cons.mp h with rfl | h'
        · exact ⟨Nat.le_refl _, r, List.mem_cons_self, p, hp, rfl⟩
        · obtain ⟨a, r', hr', hp'⟩ := ih (p :: seen) (n + 1) bi h'
          exact ⟨by omega, r', List.mem_cons_of_mem _ hr', hp'⟩

/-- every picture the loop stores, for every record sequence: its number is ≥ 1, `get_bytes()` is at position 0
and holds exactly `size_bytes` bytes — the payload of one of the records **as stored** (after the DIB wrapping) -/
theorem C04_blip_images_ok (recs : List BlipRec) : ∀ bi ∈ blipImages recs,
    1 ≤ bi.index ∧ (getBytes bi.image).1.pos = 0 ∧ (getBytes bi.image).1.content.length = bi.image.sizeBytes ∧
    ∃ r ∈ recs, ∃ p, blipPayload r = some (bi.contentType, p) ∧ (getBytes bi.image).1.content = p := by
  intro bi h
  obtain ⟨hi, r, hr, p, hp, him⟩ := blipAux_ok recs [] 0 bi h
  refine ⟨by omega, C04_bytes_at_zero _, ?_, r, hr, p, hp, ?_⟩
  · rw [him]; exact C04_bytes_length .bytes (some p)
  · rw [him]; rfl

private theorem blipAux_indices (recs : List BlipRec) : ∀ (seen : List (List Nat)) (n : Nat),
    (blipImagesAux seen n recs).map (·.index) = List.range' (n + 1) (blipImagesAux seen n recs).length := by
  induction recs with
  | nil => intro seen n; simp [blipImagesAux]
  | cons r rs ih =>
    intro seen n
    unfold blipImagesAux
    split
    · exact ih seen n
    · split
      · exact ih seen n
      · simp only [List.map_cons, List.length_cons, List.range'_succ, ih]

/-- the pictures are numbered 1, 2, 3, … without gaps (skipped and duplicate records take no number) -/
theorem C04_blip_indices_consecutive (recs : List BlipRec) :
    (blipImages recs).map (·.index) = List.range' 1 (blipImages recs).length := blipAux_indices recs [] 0

/-- a 2×2 24-bpp DIB behind a 17-byte BLIP header (the shape no fixture has) -/
def dibWitness : BlipRec :=
  ⟨0xF01F, 0x7A8, List.replicate 17 0x11 ++ [40, 0, 0, 0, 2, 0, 0, 0, 2, 0, 0, 0, 1, 0, 24, 0] ++ List.replicate 24 0 ++ List.replicate 16 7⟩

/-- why the size must be taken from the payload AS STORED: for a DIB record the bytes in the record are 14 fewer
than what `get_bytes()` returns (a `size_bytes` recorded before the wrapping would be wrong by 14) -/
theorem C04_blip_raw_size_counterexample :
    (dibWitness.data.drop (blipHeaderSize dibWitness.inst)).length = 56 ∧
    (blipImages [dibWitness]).map (fun bi => (bi.index, bi.contentType, bi.image.sizeBytes)) = [(1, "image/bmp", 70)] := by decide

example : (blipImages [⟨0xF01E, 0x6E0, List.replicate 17 0 ++ [0x89, 0x50, 0x4E, 0x47, 0x0D, 0x0A, 0x1A, 0x0A, 1]⟩,
    ⟨0xF01E, 0x6E0, List.replicate 17 1 ++ [0x89, 0x50, 0x4E, 0x47, 0x0D, 0x0A, 0x1A, 0x0A, 1]⟩,
    ⟨0xF01A, 0x3D4, List.replicate 17 0 ++ [1, 2, 3]⟩]).map (fun bi => (bi.index, bi.contentType, bi.image.sizeBytes)) =
    [(1, "image/png", 9), (2, "image/x-emf", 3)] := by decide

/-! ## (iv) metadata from the path -/

/-- no path: nothing is set (all five fields stay `None` on a fresh metadata object) -/
theorem C04_path_none (host : Host) : populateFromPath host {} none = {} ∧
    ∀ m, populateFromPath host m none = m := ⟨rfl, fun _ => rfl⟩

/-- a path: file name, extension and folder are pathlib's `name`, `suffix`, `parent`; when the host does not have
the path (or cannot probe it) `file_path` / `folder_path` are the path and its parent as given -/
theorem C04_path_fields (host : Host) (m : FileMeta) (s : Str) :
    let r := populateFromPath host m (some s)
    r.filename = some (parsePath s).name ∧ r.fileExtension = some (parsePath s).suffix ∧
    (host (parsePath s).str = none → r.filePath = some (parsePath s).str) ∧
    (host (parsePath s).parent.str = none → r.folderPath = some (parsePath s).parent.str) ∧
    r.detectedEncoding = m.detectedEncoding := by
  refine ⟨rfl, rfl, ?_, ?_, rfl⟩ <;> (intro h; simp [populateFromPath, h])

/-- the file name never contains a separator -/
theorem C04_name_no_slash (s : Str) : '/' ∉ (parsePath s).name := name_no_slash s

/-- the file name is the last component: for `<anything>/m` (so for `archive.zip!/dir/m` too) it is `m` -/
theorem C04_name_last_component (pre m : Str) (h1 : '/' ∉ m) (h2 : m ≠ []) (h3 : m ≠ ['.']) :
    (parsePath (pre ++ '/' :: m)).name = m := by
  rw [name_eq_relName]
  rcases splitRoot_keeps_last pre m h1 with h | ⟨pre', h⟩
  · rw [h]; exact relName_single m h1 h2 h3
  · rw [h]; exact relName_last pre' m h1 h2 h3

/-- … and a bare relative name is its own file name -/
theorem C04_name_bare (m : Str) (h1 : '/' ∉ m) (h2 : m ≠ []) (h3 : m ≠ ['.']) : (parsePath m).name = m := by
  rw [name_eq_relName]
  have : (splitRoot m).2 = m := by
    cases m with
    | nil => rfl
    | cons a r =>
      have : a ≠ '/' := fun e => h1 (by simp [e])
      simp [splitRoot, this]
  rw [this]; exact relName_single m h1 h2 h3

example : '/' ∉ "b.txt".toList ∧ "b.txt".toList ≠ [] ∧ "b.txt".toList ≠ ['.'] := by decide

/-- the extension: empty, or the part of the name from its last dot — which is neither the first nor the last
character of the name — so it starts with a dot, has at least one more character and no second dot -/
theorem C04_suffix_spec (name : Str) :
    suffixOf name = [] ∨
    (∃ stem, stem ≠ [] ∧ name = stem ++ suffixOf name) ∧ (suffixOf name).head? = some '.' ∧
      2 ≤ (suffixOf name).length ∧ '.' ∉ (suffixOf name).tail := by
  unfold suffixOf
  cases h : rfindDot name with
  | none => left; rfl
  | some i =>
    simp only
    split
    · rename_i hi
      right
      have sp := rfindDot_spec name i h
      refine ⟨⟨name.take i, ?_, (List.take_append_drop i name).symm⟩, sp.2.1, ?_, sp.2.2⟩
      · intro e
        have : (name.take i).length = 0 := by rw [e]; rfl
        rw [List.length_take] at this
        omega
      · rw [List.length_drop]; omega
    · left; rfl

/-- the separator `str()` puts between the parent's components and the name -/
def sepAfter : List Str → Str
  | [] => []
  | _ => ['/']

/-- `str(parent)` and the name make up `str(path)` again -/
theorem C04_parent_and_name (tail : List Str) (h : tail ≠ []) :
    joinSlash tail = joinSlash tail.dropLast ++ sepAfter tail.dropLast ++ tail.getLast?.getD [] := by
  induction tail with
  | nil => exact absurd rfl h
  | cons x xs ih =>
    cases xs with
    | nil => simp [joinSlash, sepAfter]
    | cons y ys =>
      have ih' := ih (by simp)
      have e1 : (x :: y :: ys).dropLast = x :: (y :: ys).dropLast := by simp [List.dropLast]
      have e2 : (x :: y :: ys).getLast? = (y :: ys).getLast? := by simp [List.getLast?_cons_cons]
      rw [e1, e2]
      cases hd : (y :: ys).dropLast with
      | nil =>
        rw [hd] at ih'
        simp only [joinSlash, sepAfter, List.nil_append] at ih' ⊢
        rw [ih']; simp
      | cons z zs =>
        rw [hd] at ih'
        simp only [joinSlash, sepAfter] at ih' ⊢
        rw [ih']; simp

example : (parsePath "a.zip!/dir/b.tar.gz".toList).name = "b.tar.gz".toList ∧
    (parsePath "a.zip!/dir/b.tar.gz".toList).suffix = ".gz".toList ∧
    (parsePath "a.zip!/dir/b.tar.gz".toList).parent.str = "a.zip!/dir".toList := by decide
example : (parsePath "//a//b/./c/".toList).str = "//a/b/c".toList ∧ (parsePath "///a".toList).str = "/a".toList ∧
    (parsePath "".toList).str = ".".toList ∧ (parsePath ".hidden".toList).suffix = [] ∧
    (parsePath "x.".toList).suffix = [] := by decide

/-! ### (iv-b) a history of calls in one process -/

/-- every call of a history is answered from the host as it is at that call and from that call's path argument:
nothing an earlier call saw or computed is carried over -/
theorem C04_path_history (calls : List PathCall) (i : Nat) (h : i < calls.length) :
    (runPathCalls calls)[i]? = some (populateFromPath calls[i].host {} calls[i].path) := by
  simp [runPathCalls, h]

/-- … so the answer to a call does not depend on what was called before it -/
theorem C04_path_history_independent (pre pre' : List PathCall) (c : PathCall) :
    (runPathCalls (pre ++ [c])).getLast? = (runPathCalls (pre' ++ [c])).getLast? := by
  simp [runPathCalls]

/-- tie of that shape to the source: no function reachable from `populate_from_path` is decorated (memoised,
wrapped) or writes module-level state -/
theorem C04_path_stateless :
    ∀ f ∈ S2T.Gen.Iface.stateSites, f.onMetadataPath = true → f.decorators = [] ∧ f.globalsWritten = [] := by decide

/-- … `populate_from_path` itself is in that inventory -/
theorem C04_path_inventory_nonempty :
    (S2T.Gen.Iface.stateSites.any fun f => f.name == "populate_from_path" && f.onMetadataPath) = true := by decide

/-- … and no memoised function of the package asks the file system or the working directory (its value is a
function of its arguments, so remembering it cannot make a result depend on an earlier call) -/
theorem C04_memo_host_free :
    ∀ f ∈ S2T.Gen.Iface.stateSites, f.decorators ≠ [] → f.touchesHost = false ∧ f.onMetadataPath = false := by decide

/-- … and every function of the package that writes module-level state is one of the reviewed ones (a new
hand-written cache or remembered directory anywhere in the package breaks this), none of which consults the host -/
theorem C04_state_writers_reviewed :
    ∀ f ∈ S2T.Gen.Iface.stateSites, f.globalsWritten ≠ [] →
      (f.file, f.name) ∈ reviewedStateWriters ∧ f.touchesHost = false ∧ f.onMetadataPath = false := by decide

/-- model of the defect class this excludes: the folder looked up through a process-wide cache keyed by the parent string -/
def populateCached (cache : List (Str × Str)) (host : Host) (s : Str) : FileMeta × List (Str × Str) :=
  let p := parsePath s
  let key := p.parent.str
  match cache.find? (·.1 == key) with
  | some e => ({ populateFromPath host {} (some s) with folderPath := some e.2 }, cache)
  | none =>
    let v := (host key).getD key
    ({ populateFromPath host {} (some s) with folderPath := some v }, (key, v) :: cache)

/-- the same relative path under two working directories: the cached variant reports the FIRST directory for the
second call, the code as modelled reports the folder of the file it was given -/
theorem C04_path_cached_counterexample :
    let h1 : Host := fun s => if s = "data".toList then some "/w/first/data".toList else if s = "data/r.txt".toList then some "/w/first/data/r.txt".toList else none
    let h2 : Host := fun s => if s = "data".toList then some "/w/second/data".toList else if s = "data/r.txt".toList then some "/w/second/data/r.txt".toList else none
    let (_, c1) := populateCached [] h1 "data/r.txt".toList
    (populateCached c1 h2 "data/r.txt".toList).1.folderPath = some "/w/first/data".toList ∧
    (populateFromPath h2 {} (some "data/r.txt".toList)).folderPath = some "/w/second/data".toList ∧
    (populateFromPath h2 {} (some "data/r.txt".toList)).filePath = some "/w/second/data/r.txt".toList := by decide

/-! ## (v) well-formed Unicode -/

/-- the surrogate repair yields text encodable as UTF-8, for every string of code points -/
theorem C04_combine_wellFormed (l : CPs) (h : ∀ c ∈ l, c < 0x110000) : wellFormed (combineSurrogates l) = true :=
  combine_wellFormed l h

/-- the repair leaves well-formed text alone (it removes or alters nothing that was fine) -/
theorem C04_combine_identity (l : CPs) (h : wellFormed l = true) : combineSurrogates l = l := combine_id l h

/-- a high surrogate followed by a low one becomes the one character UTF-16 means by them -/
theorem C04_combine_pair (c d : Nat) (rest : CPs) (hc : isHigh c = true) (hd : isLow d = true) :
    combineSurrogates (c :: d :: rest) = (0x10000 + (c - 0xD800) * 0x400 + (d - 0xDC00)) :: combineSurrogates rest := by
  rw [combineSurrogates, if_pos (by simp [hc, hd])]

example : isHigh 0xD83D = true ∧ isLow 0xDE00 = true ∧ combineSurrogates [0xD83D, 0xDE00] = [0x1F600] := by decide
example : (∀ c ∈ [0x41, 0xD83D, 0xD83D, 0xDE00, 0xDC00, 0x10FFFF], c < 0x110000) ∧
    combineSurrogates [0x41, 0xD83D, 0xD83D, 0xDE00, 0xDC00, 0x10FFFF] = [0x41, 0xFFFD, 0x1F600, 0xFFFD, 0x10FFFF] := by decide
example : wellFormed [0x41, 0x1F600, 0xFFFD] = true := by decide
example : (∀ u ∈ [0x41, 0xD83D], u < 65536) ∧ decodeUtf16Replace [0x41, 0xD83D] true = [0x41, 0xFFFD] ∧
    decodeUtf16Replace [0x41] true = [0x41, 0xFFFD] := by decide
example : reportIfPos 3 = some 3 ∧ reportIfPos 0 = none := by decide

/-- RTF `\uN` (any signed parameters): the fixed decoding is well-formed for all inputs -/
theorem C04_rtf_units_wellFormed (units : List Int) : wellFormed (decodeUnits units) = true := by
  apply combine_wellFormed
  intro c hc
  simp only [decodeUnitsRaw, List.mem_map] at hc
  obtain ⟨n, _, rfl⟩ := hc
  have := uParamToUnit_lt n; omega

/-- the escape passes of the fixed `_strip_rtf_simple` (`\uN` → repair → `\'hh`) are well-formed for every text
of code points, whatever counts as a decimal digit -/
theorem C04_rtf_escapes_wellFormed (dig : DigitVal) (text : CPs) (h : ∀ c ∈ text, c < 0x110000) :
    wellFormed (decodeEscapes dig text) = true := by
  unfold decodeEscapes
  apply subHex_wellFormed
  apply combine_wellFormed
  exact subUnicode_bound dig 0x110000 (by decide) text h

/-- `bytes.decode("utf-16-le", "replace")` (legacy PPT/DOC text, and the codec the repair uses) is well-formed -/
theorem C04_utf16_replace_wellFormed (units : List Nat) (odd : Bool) (h : ∀ u ∈ units, u < 65536) :
    wellFormed (decodeUtf16Replace units odd) = true := by
  unfold decodeUtf16Replace
  rw [wellFormed_append, combine_wellFormed units (fun c hc => by have := h c hc; omega)]
  simp only [Bool.true_and]
  generalize (odd && !(match units.getLast? with | some u => isHigh u | none => false)) = b
  cases b <;> decide

/-- what every later stage does to the text (strip, split, join, substitute ASCII): well-formedness is kept by
taking sub-sequences and by concatenation -/
theorem C04_wellFormed_closed (a b : CPs) :
    (wellFormed (a ++ b) = (wellFormed a && wellFormed b)) ∧ (a.Sublist b → wellFormed b = true → wellFormed a = true) :=
  ⟨wellFormed_append a b, fun h hb => wellFormed_sublist h hb⟩

/-- the constants the RTF stripper inserts (SPECIAL_CHARS) are scalar values -/
theorem C04_rtf_constants_scalar : ∀ c ∈ S2T.Gen.Iface.rtfSpecialCodePoints, scalar c = true := by decide

/-
FULL-STRENGTH STATEMENT for the code BEFORE `fix-rtf-surrogates.patch` (false there):
  theorem C04_rtf_units_wellFormed_raw (units : List Int) : wellFormed (decodeUnitsRaw units) = true
-/
/-- the unrepaired decoding is well-formed exactly when no parameter denotes a surrogate code unit -/
theorem C04_rtf_units_raw_partial (units : List Int) (h : ∀ n ∈ units, isSurrogate (uParamToUnit n) = false) :
    wellFormed (decodeUnitsRaw units) = true := by
  simp only [wellFormed, decodeUnitsRaw, List.all_map, List.all_eq_true, Function.comp]
  intro n hn
  exact scalar_of_not_surrogate (by have := uParamToUnit_lt n; omega) (h n hn)

example : ∀ n ∈ [(233 : Int), -4000, 8364], isSurrogate (uParamToUnit n) = false := by decide

/-- counterexample on the model of the unfixed code: `{\rtf1 \u-10179?\u-8704?}` -/
theorem C04_rtf_raw_counterexample :
    decodeUnitsRaw [-10179, -8704] = [0xD83D, 0xDE00] ∧ wellFormed (decodeUnitsRaw [-10179, -8704]) = false ∧
    decodeUnits [-10179, -8704] = [0x1F600] := by decide

/-- … and through the escape pass on the document text itself -/
theorem C04_rtf_raw_counterexample_text :
    wellFormed (decodeEscapesRaw asciiDigit ("\\u-10179?\\u-8704?".toList.map Char.toNat)) = false ∧
    decodeEscapes asciiDigit ("\\u-10179?\\u-8704?".toList.map Char.toNat) = [0x1F600] := by decide

/-! ## (vi) document properties -/

/-- the reader puts the element text itself into the field (no trimming, no re-encoding), the default otherwise -/
theorem C04_md_passthrough (root : Xml) (tag dflt : String) :
    (∀ t, getElementText root tag = some t → readField root tag dflt = t) ∧
    (getElementText root tag = none → readField root tag dflt = dflt) := by
  constructor
  · intro t h; simp [readField, h]
  · intro h; simp [readField, h]

/-- … and the element read is the first child with that tag: its text comes out unchanged -/
theorem C04_md_first_child (tag t : String) (pre post ch : List Xml) (rt : String) (rtext : Option String)
    (hpre : ∀ c ∈ pre, (c.tag == tag) = false) (ht : t.isEmpty = false) (dflt : String) :
    readField (.node rt rtext (pre ++ Xml.node tag (some t) ch :: post)) tag dflt = t := by
  have hf : Xml.find (.node rt rtext (pre ++ Xml.node tag (some t) ch :: post)) tag = some (Xml.node tag (some t) ch) := by
    simp only [Xml.find, Xml.children]
    rw [List.find?_append]
    have : pre.find? (fun c => c.tag == tag) = none := by
      rw [List.find?_eq_none]; intro c hc; simp [hpre c hc]
    rw [this]; simp [Xml.tag]
  simp [readField, getElementText, hf, Xml.text, ht]

example : readField (.node "cp:coreProperties" none [.node "dc:creator" (some "me") [], .node "dc:title" (some " A  title ") []])
    "dc:title" = " A  title " := by decide

/-- every property reader found in the source (DOCX / PPTX core.xml, ODF meta.xml) assigns the element text as it is -/
theorem C04_md_rows_identity : ∀ r ∈ S2T.Gen.Iface.metadataMaps, r.post = Post.ident := by decide

/-- the elements that hold title, creator, subject, description and keywords in core.xml (Clark notation) and in
ODF meta.xml (prefixed, resolved by the reader's namespace map) -/
def expectedTags : List (String × List String) := [
  ("docx", ["{http://purl.org/dc/elements/1.1/}title", "{http://purl.org/dc/elements/1.1/}creator",
            "{http://purl.org/dc/elements/1.1/}subject", "{http://purl.org/dc/elements/1.1/}description",
            "{http://schemas.openxmlformats.org/package/2006/metadata/core-properties}keywords"]),
  ("pptx", ["{http://purl.org/dc/elements/1.1/}title", "{http://purl.org/dc/elements/1.1/}creator",
            "{http://purl.org/dc/elements/1.1/}subject", "{http://purl.org/dc/elements/1.1/}description",
            "{http://schemas.openxmlformats.org/package/2006/metadata/core-properties}keywords"]),
  ("odf", ["dc:title", "dc:creator", "dc:subject", "dc:description", "meta:keyword"])]

/-- title, author/creator, subject, keywords and description/comments are read, from the right element, by each
of the three reader families -/
theorem C04_md_rows_cover :
    ∀ e ∈ expectedTags, ∀ tag ∈ e.2,
      (S2T.Gen.Iface.metadataMaps.any fun r => r.fmt == e.1 && r.tag == tag) = true := by decide

end S2T.C04
