import S2T.Model.CoreDates
import S2T.Spec.C06Ambient
import S2T.Gen.Ambient
/-!
# C06 (ambient inputs) — the result does not depend on the wall clock

Two parts.  (1) A closed world of the places where the package reads anything that is not the input (clock, zone,
randomness, process identity, temporary names, file-system state): `ambient_reads_reviewed`.  (2) The one place where
a THIRD-PARTY parser reads the clock on the extractor's behalf: openpyxl substitutes the current time for dates the
core-properties part does not state.  `dates_stated` shows the XLSX metadata dates are what the package states — for
every package and every clock — provided the extractor's guard looks at the part openpyxl reads; `guard_mismatch_clock_dependent`
shows that this condition is necessary on every package where the two parts differ; the `*_tied` theorems decide the
condition on the current source and the installed openpyxl.
-/
namespace S2T.C06Ambient
open S2T.CoreDates S2T.Spec.C06Ambient S2T.Gen.Ambient

/-! ## the guard -/

/-- **C06 (clock, XLSX dates)**: if the guard looks at the part the library reads, the reported dates are the stated
    ones — whatever the clock says -/
theorem dates_stated (guardPart : Pkg → String) (libPart : String) (h : ∀ pkg, guardPart pkg = libPart)
    (pkg : Pkg) (now : String) : dates guardPart libPart pkg now = stated libPart pkg := by
  unfold dates dateGuard libProps stated
  rw [h pkg]
  cases hp : pkg libPart with
  | none => simp
  | some c =>
    cases hc : c.created <;> cases hm : c.modified <;> simp [hc, hm]

theorem dates_clock_free (guardPart : Pkg → String) (libPart : String) (h : ∀ pkg, guardPart pkg = libPart)
    (pkg : Pkg) (now₁ now₂ : String) : dates guardPart libPart pkg now₁ = dates guardPart libPart pkg now₂ := by
  rw [dates_stated guardPart libPart h, dates_stated guardPart libPart h]

/-- … and the condition is necessary: on ANY package where the guard's part states a creation date and the library's
    part does not exist, two different clocks give two different results -/
theorem guard_mismatch_clock_dependent (guardPart : Pkg → String) (libPart : String) (pkg : Pkg) (c : Core) (d : String)
    (hg : pkg (guardPart pkg) = some c) (hc : c.created = some d) (hl : pkg libPart = none)
    (now₁ now₂ : String) (hn : now₁ ≠ now₂) :
    dates guardPart libPart pkg now₁ ≠ dates guardPart libPart pkg now₂ := by
  unfold dates dateGuard libProps
  simp only [hg, hl, hc, Option.isSome_some, if_true]
  intro h
  exact hn (congrArg Prod.fst h)

/-- the same when the library's part exists but does not state the date (a stale docProps/core.xml) -/
theorem guard_mismatch_stale_clock_dependent (guardPart : Pkg → String) (libPart : String) (pkg : Pkg) (c c' : Core) (d : String)
    (hg : pkg (guardPart pkg) = some c) (hc : c.created = some d) (hl : pkg libPart = some c') (hc' : c'.created = none)
    (now₁ now₂ : String) (hn : now₁ ≠ now₂) :
    dates guardPart libPart pkg now₁ ≠ dates guardPart libPart pkg now₂ := by
  unfold dates dateGuard libProps
  simp only [hg, hl, hc, hc', Option.isSome_some, if_true, Option.getD_none]
  intro h
  exact hn (congrArg Prod.fst h)

/-- a guard that follows the package relationship to the core-properties part (System.IO.Packaging layout:
    `<guid>.psmdcp`, no docProps/core.xml): the reported dates are the time of the extraction -/
theorem relationship_guard_clock_dependent :
    ∃ (relTarget : Pkg → String) (pkg : Pkg),
      dates relTarget "docProps/core.xml" pkg "2026-01-01T00:00:00" ≠ dates relTarget "docProps/core.xml" pkg "2031-05-06T07:08:09" :=
  ⟨fun _ => "package/services/metadata/core-properties/0f5c.psmdcp",
   ofList [("package/services/metadata/core-properties/0f5c.psmdcp", ⟨some "2021-03-04T05:06:07", some "2021-03-05T08:09:10"⟩)],
   by decide⟩

/-! ## the tie, decided on the current source and the installed openpyxl -/

theorem ambient_translation_clean : notes = [] := by decide

/-- the guard reads exactly one part, named by a string literal, and it is the part openpyxl reads -/
theorem guard_reads_lib_part_tied : guardReads = [libCorePart] := by decide

/-- openpyxl reads the core properties through its constant ARC_CORE only -/
theorem lib_reads_by_constant_tied : libReadsByConstant = true := by decide

/-- every DocumentProperties field openpyxl fills from the clock is reported only under the guard for the element of
    the same name, and is read nowhere else in `_extract_metadata_from_workbook` -/
theorem now_fields_guarded_tied :
    libNowFields.all (fun f => guardedFields.any (fun g => g.2.1 == f && g.2.2 == f)) = true
      ∧ guardedFields.all (fun g => g.2.1 == g.2.2) = true ∧ unguardedNowUses = [] ∧ libNowFields ≠ [] := by decide

/-- hence, for the guard and the library part of the CURRENT source: the XLSX dates are the stated ones for every
    package and every clock -/
theorem C06_xlsx_dates_clock_free (pkg : Pkg) (now₁ now₂ : String) :
    dates (fun _ => guardReads.headD "") libCorePart pkg now₁ = dates (fun _ => guardReads.headD "") libCorePart pkg now₂ :=
  dates_clock_free _ _ (fun _ => by rw [guard_reads_lib_part_tied]; rfl) pkg now₁ now₂

/-- **C06 (ambient inputs sealed)**: every read of clock / zone / randomness / process identity / temporary names /
    file-system state in the package is a reviewed one -/
theorem ambient_reads_reviewed :
    ambientReads.all (fun r => reviewedAmbient.any (fun x => x.1 == r)) = true := by decide

/-! ## Non-vacuity -/
example : dates (fun _ => "docProps/core.xml") "docProps/core.xml"
    (ofList [("docProps/core.xml", ⟨some "2021-03-04T05:06:07", none⟩)]) "NOW" = ("2021-03-04T05:06:07", "") := by decide
example : libProps "docProps/core.xml" (ofList []) "NOW" = ("NOW", "NOW") := by decide
example : ambientReads.length ≥ 3 ∧ libNowFields.length = 2 := by decide

end S2T.C06Ambient
