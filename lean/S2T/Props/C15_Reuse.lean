import S2T.Model.Reuse
import S2T.Model.Cells
import S2T.Gen.SharedState
/-!
# C15 §11 — objects reused between extractions; module tables handed out by reference

* a reused object prepared by a TOTAL reset gives, for every history of documents (incl. documents that leave it in the
  middle of a removed element), the result of a fresh object (`reused_total_reset_history_independent`,
  generic form `S2T.Reuse.total_reset_forgets`);
* a reset that clears the output but not the skip depth does NOT: for EVERY later document with a text event and every
  earlier document that ends inside a removed element the later text is lost (`reused_partial_reset_drops_text`,
  counterexample `reused_partial_reset_depends_on_history`);
* a helper that updates the table it was given rewrites the module's table for the rest of the process
  (`table_by_reference_not_restored`) — a helper that copies first does not (`table_by_copy_restored`) and resolves the
  document at hand identically (`table_by_copy_same_lookup`);
* generated facts, re-decided from the current source on every run: the package binds NO stateful object (thread-local,
  parser / decoder / builder instance, instance of a class of the package, iterator, stream …) at module or class level
  outside the manual SharePoint setup script (`inventory_no_shared_stateful_objects`), and NO module-level container is
  passed to a function that mutates that parameter directly or through the functions it forwards it to
  (`inventory_no_global_passed_to_mutator`).
-/
namespace S2T.C15.Reuse
open S2T.Reuse

theorem reused_total_reset_history_independent (hist : List (List Ev)) (doc : List Ev) :
    (extract fullReset (after fullReset hist) doc).out = (run fresh doc).out := rfl

private theorem run_skip_pos_out (doc : List Ev) : ∀ (p : P), 0 < p.skip → (∀ e ∈ doc, e ≠ Ev.closeSkip) →
    (run p doc).out = p.out ∧ 0 < (run p doc).skip := by
  induction doc with
  | nil => intro p h _; exact ⟨rfl, h⟩
  | cons e es ih =>
    intro p h hne
    have hes : ∀ x ∈ es, x ≠ Ev.closeSkip := fun x hx => hne x (List.mem_cons_of_mem _ hx)
    cases e with
    | text n =>
      have hp : feed p (.text n) = p := by simp [feed]; omega
      show (run (feed p (.text n)) es).out = p.out ∧ 0 < (run (feed p (.text n)) es).skip
      rw [hp]; exact ih p h hes
    | openSkip =>
      have := ih (feed p .openSkip) (by simp [feed]) hes
      exact this
    | closeSkip => exact absurd rfl (hne .closeSkip (List.mem_cons_self ..))

/-- after ANY document that leaves the object inside a removed element (skip depth > 0), a later document without a matching
    end tag comes back EMPTY under the partial reset, whatever it contains -/
theorem reused_partial_reset_drops_text (left : P) (h : 0 < left.skip) (doc : List Ev) (hne : ∀ e ∈ doc, e ≠ Ev.closeSkip) :
    (extract partialReset left doc).out = [] := by
  have := run_skip_pos_out doc (partialReset left) (by simpa [partialReset] using h) hne
  simpa [extract, partialReset] using this.1

/-- Full-strength statement FALSE for the partial reset: truncated chapter `<script>` then a one-paragraph book -/
theorem reused_partial_reset_depends_on_history :
    (extract partialReset (after partialReset [[.text 7, .openSkip]]) [.text 1]).out = [] ∧ (run fresh [.text 1]).out = [1] := by
  decide

theorem table_by_reference_not_restored (t : Tbl) (k v : Nat) (h : t k ≠ v) : (byRef t true k v).1 k ≠ t k := by
  simp [byRef, upd]; exact fun e => h e.symm

theorem table_by_copy_restored (t : Tbl) (legacy : Bool) (k v : Nat) : (byCopy t legacy k v).1 = t := by
  cases legacy <;> rfl

theorem table_by_copy_same_lookup (t : Tbl) (legacy : Bool) (k v : Nat) : (byCopy t legacy k v).2 = (byRef t legacy k v).2 := by
  cases legacy <;> rfl

/-! ## generated facts from the current source -/
open S2T.Gen.SharedState

/-- no stateful object is bound at module / class level in the extraction code (run_test_setup.py is the manual SharePoint
    set-up script: it is never imported by the package) -/
theorem inventory_no_shared_stateful_objects : ∀ o ∈ sharedObjects, o.1 = "run_test_setup.py".toList := by decide +kernel

/-- no module-level container is handed to a function that mutates its parameter (directly or by forwarding) -/
theorem inventory_no_global_passed_to_mutator : aliasedMutations = [] := by decide +kernel

end S2T.C15.Reuse
