import S2T.Lemmas.SerialCodec
import S2T.Gen.SerialCodec
/-!
# C05, binary payloads of ANY size: the codec is size-independent

`to_json` writes a `bytes` / `io.BytesIO` leaf as the base64 text of the WHOLE payload and `from_json` decodes the
WHOLE text (`ser` / `deserValue` of `S2T/Model/Serial.lean` use `b64enc` / `b64dec`; `b64dec_enc` restores every
byte string).  Those theorems speak of all lists of bytes, but the correspondence can send only small payloads
through the model.  What makes the small cases stand for the large ones is proved here, for ALL payloads:

* `C05_codec_length`   the text has 4 characters per started group of 3 bytes — no size is special;
* `C05_codec_append`   the text of a payload is the concatenation of the texts of its pieces, for every split at a
  multiple of 3 bytes; hence (`C05_codec_window`, `C05_codec_suffix`) the text of ANY 3-aligned window of a payload of
  any size stands at 4/3 of its offset in the text of the whole, and the text of the remainder after a 3-aligned
  prefix is the tail of the text.  The harness checks these equations on the real `to_json` text of payloads up to
  12 MiB (windows across every power of two, across every integer constant of the source, random windows, the tail),
  each window against the model's `b64enc` (driver op `c05.b64`);
* `C05_codec_chunked_aligned` / `_short`  an encoder that goes through the payload in slices (`b64encChunked k`) is the
  model's encoder when `3 ∣ k`, and for payloads of at most one slice;
* `C05_codec_chunked_truncates`  for every other slice size and EVERY payload longer than one slice, the decoder
  CPython applies (stops after the first padded quad) restores exactly the first slice: the rest of the payload is
  lost (`C05_cex_chunked_encoder`: the concrete instance; the canonical decoder rejects the text).

Tie to the source (`S2T.Gen.SerialCodec`, regenerated on every run, re-decided by the kernel in
`gen_codec_sites_ok`): serialization.py imports no codec module but `base64`; the only functions that mention it are
the two encoders and the two decoders; each of them contains exactly one call `base64.b64encode(<whole payload>)` /
`base64.b64decode(<whole text>)`, outside any loop, and no control flow, no slice, no integer constant but 0 and no
call of another function of the module; they are called only by `_serialize_for_json` / `_deserialize_value` with the
value itself / the marker's item; cli.py and data_types.py do not encode on their own; no `len(..)` of a payload
occurs in serialization.py.  A closed-world inventory: a semantically harmless rewrite (slices of 3 MiB) is reported
as a broken obligation until the model is extended (`b64encChunked` is the extension for that case).
-/
namespace S2T.C05.Codec
open S2T.Serial S2T.Gen.SerialCodec

/-! ## the codec call sites of the current source -/

def encoders : List String := ["_bytes_to_base64", "_bytesio_to_base64"]
def decoders : List String := ["_base64_to_bytes", "_base64_to_bytesio"]

def fnOk (f : CodecFn) : Bool :=
  f.control == 0 && f.slices == 0 && f.ints.all (· == 0) && f.calls.isEmpty &&
  (if encoders.contains f.name then f.sites == [⟨"base64.b64encode", "whole", false⟩]
   else if decoders.contains f.name then f.sites == [⟨"base64.b64decode", "whole", false⟩]
   else false)

def callerOk (c : String × String × String) : Bool :=
  c.2.2 == "whole" &&
  ((c.1 == "_serialize_for_json" && encoders.contains c.2.1) || (c.1 == "_deserialize_value" && decoders.contains c.2.1))

def allowedImports : List String := ["base64", "dataclasses", "io", "sharepoint2text.parsing.extractors", "typing"]
def allowedLens : List (String × String) :=
  [("_deserialize_value", "args"), ("_unwrap_optional", "args"), ("_unwrap_optional", "non_none_args")]

def CodecOk (imps : List String) (fns : List CodecFn) (callers : List (String × String × String))
    (foreign lens : List (String × String)) (nts : List String) : Bool :=
  imps.all allowedImports.contains && fns.all fnOk
  && (encoders ++ decoders).all (fun n => (fns.map (·.name)).count n == 1)
  && callers.all callerOk && (encoders ++ decoders).all (fun n => callers.any (·.2.1 == n))
  && foreign.isEmpty && lens.all allowedLens.contains && nts.isEmpty

/-- every binary leaf goes, whole and exactly once, through `base64.b64encode` / `b64decode` (re-decided on every run) -/
theorem gen_codec_sites_ok : CodecOk imports codecFns codecCallers foreignMentions lenSites notes = true := by decide +kernel

/-- a helper that encodes slice by slice above a threshold is not in that class (the shape of the seeded change) -/
example : CodecOk imports
    (⟨"_b64encode_text", 2, 1, [], [], [⟨"base64.b64encode", "whole", false⟩, ⟨"base64.b64encode", "other:base64.b64encode(view[offset:offset + _B64_CHUNK_SIZE])", true⟩]⟩
      :: codecFns) codecCallers foreignMentions lenSites notes = false := by decide +kernel

/-! ## size independence of the model's codec (all payloads) -/

theorem C05_codec_length (bs : List Nat) : (b64enc bs).length = 4 * ((bs.length + 2) / 3) := b64enc_length bs

theorem C05_codec_append (xs ys : List Nat) (h : xs.length % 3 = 0) : b64enc (xs ++ ys) = b64enc xs ++ b64enc ys :=
  b64enc_append xs ys h

/-- the text of the remainder after a 3-aligned prefix is the tail of the text (padding included) -/
theorem C05_codec_suffix (xs ys : List Nat) (hx : xs.length % 3 = 0) :
    (b64enc (xs ++ ys)).drop (4 * (xs.length / 3)) = b64enc ys := by
  rw [b64enc_append xs ys hx]
  exact List.drop_left' (b64enc_length_aligned xs hx)

/-- the text of any 3-aligned window stands at 4/3 of its offset, whatever surrounds it -/
theorem C05_codec_window (xs ys zs : List Nat) (hx : xs.length % 3 = 0) (hy : ys.length % 3 = 0) :
    ((b64enc (xs ++ ys ++ zs)).drop (4 * (xs.length / 3))).take (4 * (ys.length / 3)) = b64enc ys := by
  rw [List.append_assoc, C05_codec_suffix xs (ys ++ zs) hx, b64enc_append ys zs hy]
  exact List.take_left' (b64enc_length_aligned ys hy)

example : ((b64enc ([1, 2, 3] ++ [4, 5, 6] ++ [7])).drop 4).take 4 = b64enc [4, 5, 6] := by decide

/-- decoding restores a payload assembled from pieces of any size -/
theorem C05_codec_restored (xs ys : List Nat) (hx : bytesOk xs = true) (hy : bytesOk ys = true) (h : xs.length % 3 = 0) :
    b64dec (b64enc xs ++ b64enc ys) = some (xs ++ ys) := by
  rw [← b64enc_append xs ys h]
  exact b64dec_enc _ (by simp [bytesOk] at hx hy ⊢; exact ⟨hx, hy⟩)

/-! ## encoding slice by slice -/

theorem C05_codec_chunked_aligned (k : Nat) (bs : List Nat) (hk : k % 3 = 0) : b64encChunked k bs = b64enc bs :=
  b64encChunked_aligned k bs hk

theorem C05_codec_chunked_short (k : Nat) (bs : List Nat) (h : bs.length ≤ k) : b64encChunked k bs = b64enc bs :=
  b64encChunked_short k bs h

private theorem b64decStop_padded (xs : List Nat) (t : List Char) (hb : bytesOk xs = true) (h : xs.length % 3 ≠ 0) :
    b64decStop (b64enc xs ++ t) = some xs := by
  fun_induction b64enc xs with
  | case1 => simp at h
  | case2 a =>
    simp [bytesOk] at hb
    have h1 := b64idx_c (a / 4) (by omega)
    have h2 := b64idx_c (a % 4 * 16) (by omega)
    simp [b64decStop, h1, h2]
    omega
  | case3 a b =>
    simp [bytesOk] at hb
    have h1 := b64idx_c (a / 4) (by omega)
    have h2 := b64idx_c (a % 4 * 16 + b / 16) (by omega)
    have h3 := b64idx_c (b % 16 * 4) (by omega)
    have n3 := b64c_ne_pad (b % 16 * 4) (by omega)
    simp [b64decStop, h1, h2, h3, n3]
    omega
  | case4 a b c rest ih =>
    simp [bytesOk] at hb
    have h1 := b64idx_c (a / 4) (by omega)
    have h2 := b64idx_c (a % 4 * 16 + b / 16) (by omega)
    have h3 := b64idx_c (b % 16 * 4 + c / 64) (by omega)
    have h4 := b64idx_c (c % 64) (by omega)
    have n3 := b64c_ne_pad (b % 16 * 4 + c / 64) (by omega)
    have n4 := b64c_ne_pad (c % 64) (by omega)
    have ih' := ih (by simp [bytesOk]; exact hb.2.2.2) (by simp only [List.length_cons] at h; omega)
    simp [b64decStop, h1, h2, h3, h4, n3, n4, ih']
    omega

/-- slices that are not a multiple of 3 bytes: WHATEVER the payload, as soon as it is longer than one slice the
restored payload is its first slice only -/
theorem C05_codec_chunked_truncates (k : Nat) (bs : List Nat) (hb : bytesOk bs = true) (hk : k % 3 ≠ 0) (hl : k < bs.length) :
    b64decStop (b64encChunked k bs) = some (bs.take k) ∧ bs.take k ≠ bs := by
  constructor
  · rw [b64encChunked]
    have : ¬ (k = 0 ∨ bs.length ≤ k) := by omega
    simp only [this, if_false]
    apply b64decStop_padded
    · simp [bytesOk] at hb ⊢
      intro x hx
      exact hb x (List.mem_of_mem_take hx)
    · rw [List.length_take, Nat.min_eq_left (by omega)]
      exact hk
  · intro h
    have := congrArg List.length h
    rw [List.length_take] at this
    omega

/-- the stopping decoder is the canonical one on what the current encoder writes: nothing is lost at any size -/
theorem C05_codec_stop_restores (bs : List Nat) (hb : bytesOk bs = true) : b64decStop (b64enc bs) = some bs :=
  b64decStop_enc bs hb

/-- the seeded shape, scaled down (slices of 4 bytes, payload of 5): text differs from the model's, is not canonical,
and CPython's decoder hands back 4 of the 5 bytes -/
theorem C05_cex_chunked_encoder :
    b64encChunked 4 [1, 2, 3, 4, 5] ≠ b64enc [1, 2, 3, 4, 5]
    ∧ b64dec (b64encChunked 4 [1, 2, 3, 4, 5]) = none
    ∧ b64decStop (b64encChunked 4 [1, 2, 3, 4, 5]) = some [1, 2, 3, 4] := by decide +kernel

end S2T.C05.Codec
