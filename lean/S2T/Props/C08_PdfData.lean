import S2T.Props.C20
/-!
# C08 (part) — the objects of an empty-password AES PDF decrypt to the objects of the original, whatever their length

"a PDF encrypted with the empty user password extracts the same content as its unencrypted original" needs more than
AES being installed (part `C08_PdfCrypt`): every string and stream of the document goes through the `CryptAES.decrypt`
the library patches into pypdf (IV split, CBC, PKCS#7 unpadding).  A plaintext whose length is a multiple of 16 carries a
WHOLE padding block, a plaintext shorter than a block is all in one block, an empty one is one block of padding: glue that
is right "for most lengths" changes the bytes of exactly those objects.  Proved here on the model of the glue
(`S2T.Aes.cryptAesDecrypt`, tied to the source by C20's translation `C20_Src` and correspondence) with the tables
generated from the current source (`C20_tables`), for EVERY document = list of objects of ANY lengths:

* `C08_pdf_aes_objects`       every object decrypts to the original object;
* `C08_pdf_aes_cipher_length` the stored object is IV ‖ ⌈(n+1)/16⌉ blocks — for n ≡ 0 (mod 16) one block more than the data;
* `C08_pdf_unpad_exact`       strict unpadding removes exactly the padding for every length;
* counterexample theorems for the class: an unpadding that only strips paddings shorter than a block
  (`lenientUnpad`) keeps 16 bytes of 0x10 on every plaintext of length ≡ 0 (mod 16) and is right on all other lengths —
  which is why the correspondence / oracle feed documents with uncompressed content streams of EVERY residue mod 16.
-/
namespace S2T.C08.PdfData
open S2T.Aes S2T.AesL S2T.Spec

abbrev T : Tables := S2T.Gen.Aes.tables

/-- one stored object of an AES-encrypted document: the IV the writer drew and the plaintext -/
structure Obj where
  iv : List Nat
  plain : List Nat

def Obj.Ok (o : Obj) : Prop := Block o.iv ∧ IsBytes o.plain

/-- every object of every document — strings, streams, of any length incl. 0, 1…15, 16, 32, … — that was encrypted as
    PDF 32000-1 §7.6.2 says (IV ‖ CBC(PKCS#7(plain))) comes back from the library's `CryptAES.decrypt` as it was -/
theorem C08_pdf_aes_objects {key : List Nat} (hk : KeyOk key) (doc : List Obj) (h : ∀ o ∈ doc, o.Ok) :
    ∀ o ∈ doc, ∃ c, cryptAesEncrypt T key o.iv o.plain = .ok c ∧ cryptAesDecrypt T key c = .ok o.plain := by
  intro o ho
  obtain ⟨c, h1, _, _, h4⟩ := S2T.C20.C20_src_wrapper hk (h o ho).1 (h o ho).2
  exact ⟨c, h1, h4⟩

/-- length of the stored object; for a plaintext of `16·k` bytes it is `16 + 16·k + 16`: a whole block of padding -/
theorem C08_pdf_aes_cipher_length {key : List Nat} (hk : KeyOk key) (o : Obj) (h : o.Ok) :
    ∃ c, cryptAesEncrypt T key o.iv o.plain = .ok c ∧ c.length = 16 + 16 * (o.plain.length / 16 + 1) ∧
      (o.plain.length % 16 = 0 → c.length = 16 + o.plain.length + 16) := by
  obtain ⟨c, h1, _, h3, _⟩ := S2T.C20.C20_src_wrapper hk h.1 h.2
  refine ⟨c, h1, h3, fun hm => ?_⟩
  rw [h3]; omega

/-- strict PKCS#7 unpadding (what `_pkcs7_unpad` is, `C20_Src.pkcs7_unpad_eq`) removes exactly the padding, for every length -/
theorem C08_pdf_unpad_exact (m : List Nat) : pkcs7Unpad (pkcs7Pad m 16) 16 = .ok m :=
  (S2T.C20.C20_pkcs7 m).1

example : (⟨List.replicate 16 7, List.replicate 32 65⟩ : Obj).Ok := by unfold Obj.Ok; decide
example : KeyOk (List.range 16) := by decide

/-! ### the class of defects: unpadding that is right for "most" lengths -/

/-- a lenient unpadding: well-formed padding SHORTER than a block is removed, anything else is handed back untouched -/
def lenientUnpad (data : List Nat) (blockSize : Nat) : List Nat :=
  match data.getLast? with
  | none => data
  | some padding =>
    if 0 < padding ∧ padding < blockSize ∧ data.drop (data.length - padding) = List.replicate padding padding
    then data.take (data.length - padding) else data

/-- … keeps the whole padding block of every plaintext whose length is a multiple of the block size -/
theorem C08_pdf_lenient_unpad_counterexample :
    lenientUnpad (pkcs7Pad (List.replicate 16 32) 16) 16 = List.replicate 16 32 ++ List.replicate 16 16 ∧
    pkcs7Unpad (pkcs7Pad (List.replicate 16 32) 16) 16 = .ok (List.replicate 16 32) :=
  ⟨by decide, C08_pdf_unpad_exact _⟩

/-- … and is indistinguishable from the strict one on a plaintext of any other length (here 15 and 17) -/
theorem C08_pdf_lenient_unpad_masked :
    lenientUnpad (pkcs7Pad (List.replicate 15 32) 16) 16 = List.replicate 15 32 ∧
    lenientUnpad (pkcs7Pad (List.replicate 17 32) 16) 16 = List.replicate 17 32 := by decide

end S2T.C08.PdfData
