/-
C06: the reviewed uses of process-global mutable state that are not plain reads, with the reason each
one cannot make an extraction depend on earlier extractions.  Everything the translator finds in the
current source (`S2T.Gen.ModState.escapes`) has to be here (`S2T.C06History.module_state_sealed`); the
run-time frame check of the harness allows exactly the `volatileCells` to change during an extraction.
-/
namespace S2T.Spec.C06Cells

inductive Why where
  | readOnlyCallee   -- handed to a package helper that only reads it (find(..., ns) / membership tests)
  | memo             -- cache whose entries are functions of their key; elements handed out are only read (History.memoGet)
  | balanced         -- pushed and popped again before the call returns (patch bookkeeping, C15)
  | lazyConst        -- filled once with a value that does not depend on any input
  deriving DecidableEq, Repr

/-- (file, function, kind, cell, why) -/
def reviewedEscapes : List ((String × String × String × String) × Why) := [
  (("parsing/extractors/open_office/odf_extractor.py", "_extract_metadata", "passed:extract_odf_metadata", "NS"), .readOnlyCallee),
  (("parsing/extractors/open_office/odf_extractor.py", "_get_text_recursive", "passed:element_text:skip_tags", "_TEXT_SKIP_TAGS"), .readOnlyCallee),
  (("parsing/extractors/open_office/odg_extractor.py", "_extract_metadata", "passed:extract_odf_metadata", "NS"), .readOnlyCallee),
  (("parsing/extractors/open_office/odg_extractor.py", "_get_text_recursive", "passed:element_text:skip_tags", "_TEXT_SKIP_TAGS"), .readOnlyCallee),
  (("parsing/extractors/open_office/odp_extractor.py", "_extract_metadata", "passed:extract_odf_metadata", "NS"), .readOnlyCallee),
  (("parsing/extractors/open_office/odp_extractor.py", "_get_text_recursive", "passed:element_text:skip_tags", "_TEXT_SKIP_TAGS"), .readOnlyCallee),
  (("parsing/extractors/open_office/ods_extractor.py", "_extract_metadata", "passed:extract_odf_metadata", "NS"), .readOnlyCallee),
  (("parsing/extractors/open_office/ods_extractor.py", "_get_text_recursive", "passed:element_text:skip_tags", "_TEXT_SKIP_TAGS"), .readOnlyCallee),
  (("parsing/extractors/open_office/odt_extractor.py", "_extract_metadata_from_context", "passed:extract_odf_metadata", "NS"), .readOnlyCallee),
  (("parsing/extractors/open_office/odt_extractor.py", "_get_text_recursive", "passed:element_text:skip_tags", "_TEXT_SKIP_TAGS"), .readOnlyCallee),
  (("parsing/extractors/pdf/_pypdf_aes_fallback.py", "_get_round_keys", "elem-alias:cached", "_ROUND_KEY_CACHE"), .memo),
  (("parsing/extractors/pdf/_pypdf_aes_fallback.py", "_get_round_keys", "mutate:move_to_end", "_ROUND_KEY_CACHE"), .memo),
  (("parsing/extractors/pdf/_pypdf_aes_fallback.py", "_get_round_keys", "mutate:popitem", "_ROUND_KEY_CACHE"), .memo),
  (("parsing/extractors/pdf/_pypdf_aes_fallback.py", "_get_round_keys", "store:[]", "_ROUND_KEY_CACHE"), .memo),
  (("parsing/extractors/pdf/pdf_extractor.py", "_patched_build_char_map", "mutate:append", "_CHAR_MAP_PATCH_ORIGINALS"), .balanced),
  (("parsing/extractors/pdf/pdf_extractor.py", "_patched_build_char_map", "mutate:pop", "_CHAR_MAP_PATCH_ORIGINALS"), .balanced),
  (("parsing/extractors/pdf/pdf_extractor.py", "_ttf_parse_font", "elem-return", "_FONT_CACHE"), .memo),
  (("parsing/extractors/pdf/pdf_extractor.py", "_ttf_parse_font", "store:[]", "_FONT_CACHE"), .memo),
  (("parsing/extractors/serialization.py", "_get_type_registry", "return", "_TYPE_REGISTRY"), .lazyConst),
  (("parsing/extractors/serialization.py", "_get_type_registry", "store:[]", "_TYPE_REGISTRY"), .lazyConst)
]

/-- module globals rebound inside functions: the archive configuration (only by the public
    `configure_archive_extraction`, never by an extraction) and the pypdf patch user count
    (incremented on entry, decremented on exit: C15) -/
def reviewedRebinds : List (String × String × String) := [
  ("parsing/extractors/archive_extractor.py", "configure_archive_extraction", "_config"),
  ("parsing/extractors/pdf/pdf_extractor.py", "_patched_build_char_map", "_CHAR_MAP_PATCH_USERS")
]

/-- memoised functions: each is a function of its arguments only (extension / file-name lookups) -/
def reviewedMemos : List (String × String × String) := [
  ("parsing/extractors/archive_extractor.py", "_get_file_extractor_cached", "lru_cache"),
  ("parsing/extractors/archive_extractor.py", "_get_router_functions", "lru_cache"),
  ("parsing/extractors/archive_extractor.py", "_is_supported_file_cached", "lru_cache"),
  ("parsing/extractors/epub_extractor.py", "_guess_content_type", "lru_cache"),
  ("parsing/extractors/open_office/_shared.py", "guess_content_type", "lru_cache")
]

/-- `setattr` on freshly built result / context objects (never on a module, class or function), and the
    AES / char-map patch sections of C15 -/
def reviewedAttrStores : List (String × String × String) := [
  ("parsing/extractors/ms_legacy/ppt_extractor.py", "_extract_metadata", "setattr(<object>)"),
  ("parsing/extractors/ms_legacy/rtf_extractor.py", "_RtfParser._extract_metadata", "setattr(self)"),
  ("parsing/extractors/ms_modern/docx_extractor.py", "_DocxContext._load_xml_files", "setattr(self)"),
  ("parsing/extractors/ms_modern/docx_extractor.py", "_extract_metadata_from_context", "setattr(<object>)"),
  ("parsing/extractors/ms_modern/docx_extractor.py", "_extract_sections_from_context", "setattr(<object>)"),
  ("parsing/extractors/pdf/_pypdf_aes_fallback.py", "patch_pypdf_fallback_aes", "setattr(self)"),
  ("parsing/extractors/pdf/pdf_extractor.py", "_patched_build_char_map", "setattr(<object>)")
]

/-- cells whose fingerprint may differ before/after an extraction (everything else is framed):
    the cells with a reviewed write + the memoised functions -/
def volatileCells : List String :=
  (reviewedEscapes.filter (fun e => e.2 != .readOnlyCallee)).map (fun e => e.1.2.2.2)
    ++ reviewedRebinds.map (fun r => r.2.2) ++ reviewedMemos.map (fun m => m.2.1)

/-- values bound at module / class level that are neither immutable by construction nor builtin containers
    (`S2T.Gen.ModCells.statefulCells`): (file, name, kind).  The two locks guard the reviewed cache / patch sections
    (acquired and released within one call: C15); nothing else may exist — in particular no one-shot iterator
    (`zip` / `map` / `filter` / generator), no open stream, no random generator, no instance with writable fields. -/
def reviewedStatefulCells : List (String × String × String) := [
  ("parsing/extractors/pdf/_pypdf_aes_fallback.py", "_ROUND_KEY_CACHE_LOCK", "lock"),
  ("parsing/extractors/pdf/pdf_extractor.py", "_CHAR_MAP_PATCH_LOCK", "lock")
]

end S2T.Spec.C06Cells
