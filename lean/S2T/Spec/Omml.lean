import S2T.Model.Omml
/-!
What C19 talks about, as decidable functions on trees and strings (core Lean only; the driver
evaluates them so the harness can see which generated trees satisfy the theorems' hypotheses).

* `allRuns x` — the text of every element named `t` below (and including) `x`, in document order.
* `shapeOk T x` — *schema order*: at every element, the runs found below it in document order are
  exactly the runs of the operands its template uses, taken in template order
  (`num, den` / `e, sup` / `e, sub` / `e, sub, sup` / `deg, e` / `sub, sup, e` / `fName, e` / `e` /
  all `m:e` children (`m:d`) / all `m:e` of all `m:mr` (`m:m`) / all children (anything else);
  nothing below a skipped property element or below an `m:t`).
* `quiet T x` — no radical whose rendered content is just an opening bracket (the documented
  "malformed sqrt" pattern, which deliberately swallows the bracket characters).
* `noBraces x` — no `{`/`}` in any run text or `m:val` attribute.
* `balanced s` — every prefix of `s` has at least as many `{` as `}` and the totals agree.
-/
namespace S2T.Omml

mutual
def allRuns : Xml → List Str
  | .node _ name _ text kids => (if name = n_t then [text] else []) ++ allRunsL kids
def allRunsL : List Xml → List Str
  | [] => []
  | k :: ks => allRuns k ++ allRunsL ks
end

/-- runs of the first child tagged `M_NS+n` (nothing when absent) -/
def opRuns (n : Str) (kids : List Xml) : List Str :=
  match kids.find? (isTag n) with
  | some k => allRuns k
  | none => []

/-- the runs the template of an element named `name` emits, in template order -/
def expectedRuns (T : Tables) (name : Str) (kids : List Xml) : List Str :=
  match kindOf T name (kids.find? (isTag n_mr)).isSome with
  | .skip => []
  | .text => []
  | .frac => opRuns n_num kids ++ opRuns n_den kids
  | .sup => opRuns n_e kids ++ opRuns n_sup kids
  | .sub => opRuns n_e kids ++ opRuns n_sub kids
  | .subsup => opRuns n_e kids ++ opRuns n_sub kids ++ opRuns n_sup kids
  | .rad => opRuns n_deg kids ++ opRuns n_e kids
  | .nary => opRuns n_sub kids ++ opRuns n_sup kids ++ opRuns n_e kids
  | .delim => allRunsL (kids.filter (isTag n_e))
  | .matrix => ((kids.filter (isTag n_mr)).map (fun r => allRunsL (r.kids.filter (isTag n_e)))).flatten
  | .func => opRuns n_fName kids ++ opRuns n_e kids
  | .bar => opRuns n_e kids
  | .acc => opRuns n_e kids
  | .other => allRunsL kids

mutual
def shapeOk (T : Tables) : Xml → Bool
  | .node _ name _ _ kids => shapeOkL T kids && decide (allRunsL kids = expectedRuns T name kids)
def shapeOkL (T : Tables) : List Xml → Bool
  | [] => true
  | k :: ks => shapeOk T k && shapeOkL T ks
end

/-- rendered content of an `m:rad` when nothing is pending -/
def radContent (T : Tables) (kids : List Xml) : Out :=
  match kids.find? (isTag n_e) with
  | some c => (proc T c []).1
  | none => []

mutual
def quiet (T : Tables) : Xml → Bool
  | .node _ name _ _ kids =>
    quietL T kids && !(kindOf T name (kids.find? (isTag n_mr)).isSome == .rad
      && T.opens.contains (render (strip T (radContent T kids))))
def quietL (T : Tables) : List Xml → Bool
  | [] => true
  | k :: ks => quiet T k && quietL T ks
end

def braceFree (s : Str) : Bool := s.all (fun c => c != '{' && c != '}')

mutual
def noBraces : Xml → Bool
  | .node _ _ val text kids =>
    braceFree text && (match val with | some v => braceFree v | none => true) && noBracesL kids
def noBracesL : List Xml → Bool
  | [] => true
  | k :: ks => noBraces k && noBracesL ks
end

/-- running brace depth; `none` as soon as a `}` has no open `{` before it -/
def walk : Str → Nat → Option Nat
  | [], d => some d
  | c :: r, d =>
    if c = '{' then walk r (d + 1)
    else if c = '}' then (match d with | 0 => none | d' + 1 => walk r d')
    else walk r d

def balanced (s : Str) : Bool := walk s 0 == some 0

/-- drop the characters `str.strip()` regards as blank -/
def nonWs (T : Tables) (s : Str) : Str := s.filter (fun c => !T.spaces.contains c.toNat)

/-- what the runs of a tree should contribute to the output: every run converted, in document order -/
def sourceText (T : Tables) (root : Xml) : Str := (allRunsL root.kids).flatMap (convert T)

end S2T.Omml
