/-
C06: the reviewed reads of ambient inputs (anything that is not the bytes or the path), with the reason each one
cannot reach an extraction result.  Everything the translator finds in the current source
(`S2T.Gen.Ambient.ambientReads`) has to be here (`S2T.C06Ambient.ambient_reads_reviewed`).
-/
namespace S2T.Spec.C06Ambient

inductive Why where
  | importTimeConstant   -- evaluated once at import, bounds a worker pool; not part of any result
  | privateTempDir       -- a private temporary directory; its (random) name never enters a result, removed on exit
  | existenceOfOwnFile   -- asks whether a file the extraction itself just wrote exists
  | loggedDuration       -- a time difference that only goes to the log
  | encryptOnly          -- on the encrypt path of the AES fallback, which extraction (decrypt only) never takes
  | notExtraction        -- SharePoint test-setup script, not reachable from any extractor
  deriving DecidableEq, Repr

/-- (file, function, kind, expression, why) -/
def reviewedAmbient : List ((String × String × String × String) × Why) := [
  (("parsing/extractors/archive_extractor.py", "<module>", "process", "os.cpu_count()"), .importTimeConstant),
  (("parsing/extractors/archive_extractor.py", "_extract_from_7z_optimized", "tempname", "tempfile.TemporaryDirectory()"), .privateTempDir),
  (("parsing/extractors/archive_extractor.py", "_process_7z_files_sequential", "fs", "os.path.exists(extracted_path)"), .existenceOfOwnFile),
  (("parsing/extractors/archive_extractor.py", "read_archive", "duration", "time.perf_counter()"), .loggedDuration),
  (("parsing/extractors/pdf/_pypdf_aes_fallback.py", "patch_pypdf_fallback_aes._cryptaes_encrypt", "random", "secrets.token_bytes(16)"), .encryptOnly),
  (("sharepoint_io/run_test_setup.py", "<module>", "clock", "datetime.now(timezone.utc)"), .notExtraction),
  (("sharepoint_io/run_test_setup.py", "_get_required_env", "process", "os.getenv(key)"), .notExtraction)
]

/-- value domains the observer-sequence generator has for accessor parameters (harness/props/c06_observe.py `param_domain`) -/
def exercisedKinds : List String := ["bool", "optbool", "optint", "optstr", "int", "str"]

/-- accessor parameters whose meaning is modelled (`S2T.ObserveArgs.text`) -/
def modelledParams : List (String × String × String) := [
  ("PptxContent", "get_full_text", "include_image_captions"),
  ("PptxContent", "iterate_units", "include_image_captions"),
  ("PptxSlide", "get_text", "include_image_captions")
]

end S2T.Spec.C06Ambient
