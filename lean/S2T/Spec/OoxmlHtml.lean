import S2T.Spec.OoxmlDoc
import S2T.Model.OoxmlHtml
/-
C02 (part "ooxml"), spec side for the HTML family (HTML, MHTML = the same HTML in a MIME wrapper, EPUB = the
same XHTML as a chapter): the renderer Doc → node tree and the expected text including the documented
decoration of `_process_node` ("- " bullets, " | " between the cells of a table row, padded to the
table's column count).  Inside headings and table cells the code flattens the subtree to plain text
(`_get_cell_text`, one blank around every block-level child): no decoration there, so the expected text
of those is the plain `lin`.
-/
namespace S2T.C02.Ooxml.Html
open S2T.C02.Ooxml
open S2T.HtmlSkip.Tree (Node)

/-- heading element for a level (clipped to h1 … h6) -/
def hTag : Nat → Str
  | 0 => "h1".toList
  | 1 => "h1".toList
  | 2 => "h2".toList
  | 3 => "h3".toList
  | 4 => "h4".toList
  | 5 => "h5".toList
  | _ => "h6".toList

def elem (tag : String) (attrs : List (Str × Str)) (text : Str) (kids : List Node) : Node :=
  .mk tag.toList attrs text kids []

mutual
def renderI : Inline → List Node
  | .text s => [elem "span" [] s []]
  | .tab => [elem "span" [] ['\t'] []]
  | .br => [.mk sBr [] [] [] []]
  | .link href xs => [elem "a" [("href".toList, href)] [] (renderIs xs)]
  | .ins xs => [elem "ins" [] [] (renderIs xs)]
  | .del _ => []                                   -- a tracked deletion is not exported
  | .ctl xs => renderIs xs                         -- content in place
  | .mark id => [elem "a" [("id".toList, id)] [] []]  -- empty anchor
  | .box bs => [elem "div" [("class".toList, "box".toList)] [] (renderBs bs)]
def renderIs : List Inline → List Node
  | [] => []
  | x :: r => renderI x ++ renderIs r
def renderB : Block → List Node
  | .para style xs => [elem "p" [("class".toList, style)] [] (renderIs xs)]
  | .heading level xs => [.mk (hTag level) [] [] (renderIs xs) []]
  | .list items => [elem "ul" [] [] (renderItems items)]
  | .table rows => [.mk sTable [] [] [elem "tbody" [] [] (renderRows rows)] []]
  | .ctl bs => renderBs bs
def renderBs : List Block → List Node
  | [] => []
  | b :: r => renderB b ++ renderBs r
def renderItems : List (List Block) → List Node
  | [] => []
  | it :: r => .mk sLi [] [] (renderBs it) [] :: renderItems r
def renderCells : List (List Block) → List Node
  | [] => []
  | c :: r => .mk sTd [] [] (renderBs c) [] :: renderCells r
def renderRows : List (List (List Block)) → List Node
  | [] => []
  | row :: r => .mk sTr [] [] (renderCells row) [] :: renderRows r
end

/-- the tree `_HtmlTreeBuilder` builds for the serialised document -/
def renderDoc (title : Str) (d : Doc) : Node :=
  .mk "root".toList [] [] [elem "html" [] [] [elem "head" [] [] [elem "title" [] title []],
    .mk sBody [] [] (renderBs d.body) []]] []

section
variable (ws : Char → Bool)

/-- one table row: the plain text of its cells, " | " between columns, padded to `n` columns -/
def hrow (n : Nat) (cells : List (List Block)) : Str :=
  join " | ".toList ((List.range n).map fun i => linBs fmtHtml ws (cells.getD i []))

def numCols (rows : List (List (List Block))) : Nat := rows.foldl (fun m r => max m r.length) 0

def hrows (n : Nat) : List (List (List Block)) → Str
  | [] => []
  | row :: r => (if row.isEmpty then [] else ' ' :: hrow ws n row ++ [' ']) ++ hrows n r

mutual
/-- expected text of `_process_node`, decoration included -/
def hlinI : Inline → Str
  | .text s => s
  | .tab => [' ']
  | .br => [' ']
  | .link _ xs => hlinIs xs
  | .ins xs => hlinIs xs
  | .del _ => []
  | .ctl xs => hlinIs xs
  | .mark _ => []
  | .box bs => ' ' :: hlinBs bs ++ [' ']
def hlinIs : List Inline → Str
  | [] => []
  | x :: r => hlinI x ++ hlinIs r
def hlinB : Block → Str
  | .para _ xs => ' ' :: hlinIs xs ++ [' ']
  | .heading _ xs => ' ' :: linIs fmtHtml ws xs ++ [' ']
  | .list items => ' ' :: hlinItems items ++ [' ']
  | .table rows => ' ' :: hrows ws (numCols rows) rows ++ [' ']
  | .ctl bs => hlinBs bs
def hlinBs : List Block → Str
  | [] => []
  | b :: r => hlinB b ++ hlinBs r
def hlinItems : List (List Block) → Str
  | [] => []
  | it :: r => ' ' :: '-' :: ' ' :: hlinBs it ++ ' ' :: hlinItems r
end

/-- expected words of `HtmlContent.get_full_text()` -/
def htmlWords (d : Doc) : List Str := words ws (hlinBs ws d.body)

end
end S2T.C02.Ooxml.Html
