/-
What a standard 7z packer WRITES for the header block of an archive — a specification, transcribed from
7-Zip's `7zFormat.txt` as embodied by the independent Python writer `harness/builders/sevenzip_writer.py`
(same grammar, same order of the optional parts, same option flags).  Core Lean only; shares nothing with
the model of the library's reader (`S2T/Model/SevenZip.lean`).

* bytes are `List Nat` (every element `< 256` for a well-formed layout), code points are `Nat`;
* `crc : Bytes → Nat` (CRC-32 of the start header and of the header block) is a PARAMETER of `archive`;
  the digests stored *inside* the header (pack streams, folders, files) are values carried by the layout;
* the layout is the one the layout theorems of `Props/C10.lean` use: the folders in archive order, each
  with its coder, its pack-stream size and the entries listed while it is current (its non-empty files with
  directories / empty files interleaved anywhere), then the trailing directories / empty files.
-/
namespace S2T.Spec.SevenZipWriter

abbrev Bytes := List Nat

/-! ### numbers -/

/-- the `k` low bytes of `n`, little endian -/
def le : Nat → Nat → Bytes
  | 0, _ => []
  | k + 1, n => n % 256 :: le k (n / 256)

/-- 7zFormat.txt `REAL_UINT64`: the first byte carries `k` leading one bits (= `k` extra bytes follow, little
    endian) and, below them, the bits of `n` above those `k` bytes.  All nine length classes. -/
def number (n : Nat) : Bytes :=
  if n < 2 ^ 7 then [n]
  else if n < 2 ^ 14 then (0x80 + n / 256 ^ 1) :: le 1 n
  else if n < 2 ^ 21 then (0xC0 + n / 256 ^ 2) :: le 2 n
  else if n < 2 ^ 28 then (0xE0 + n / 256 ^ 3) :: le 3 n
  else if n < 2 ^ 35 then (0xF0 + n / 256 ^ 4) :: le 4 n
  else if n < 2 ^ 42 then (0xF8 + n / 256 ^ 5) :: le 5 n
  else if n < 2 ^ 49 then (0xFC + n / 256 ^ 6) :: le 6 n
  else if n < 2 ^ 56 then (0xFE + n / 256 ^ 7) :: le 7 n
  else 0xFF :: le 8 n

/-! ### bit vectors: MSB first, the last byte padded with zero bits -/

/-- value of at most 8 bits, the first one weighing `m`, the next `m / 2`, … -/
def bitsByte : List Bool → Nat → Nat
  | [], _ => 0
  | b :: r, m => (if b then m else 0) + bitsByte r (m / 2)

def bitVector (bs : List Bool) : Bytes :=
  match bs with
  | [] => []
  | b :: r => bitsByte ((b :: r).take 8) 0x80 :: bitVector ((b :: r).drop 8)
termination_by bs.length
decreasing_by simp; omega

/-! ### names: UTF-16LE, terminated by 00 00 -/

/-- code units of one code point: itself in the BMP, a surrogate pair above it -/
def utf16Units (c : Nat) : List Nat :=
  if c < 0x10000 then [c] else [0xD800 + (c - 0x10000) / 0x400, 0xDC00 + (c - 0x10000) % 0x400]

def unitBytes (u : Nat) : Bytes := [u % 256, u / 256]

def nameBytes (name : List Nat) : Bytes := (name.flatMap utf16Units).flatMap unitBytes ++ [0, 0]

/-! ### the layout -/

inductive Method
  | copy
  | lzma (props : Bytes)          -- 5 property bytes
  | lzma2 (prop : Nat)            -- 1 property byte
deriving Repr, DecidableEq

/-- one entry of the archive.  `size = 0` with `isDir = false` is a 7z *empty file*. -/
structure EntrySpec where
  name : List Nat
  isDir : Bool
  size : Nat
  attrib : Nat := 0      -- written when `opts.attrs`
  mtime : Nat := 0       -- written when `opts.mtime`
  crc : Nat := 0         -- CRC-32 of the file's bytes (SubStreamsInfo digests)
deriving Repr, DecidableEq

/-- the entry has a data stream (`EmptyStream` bit clear) -/
def EntrySpec.hasStream (e : EntrySpec) : Bool := !e.isDir && e.size != 0
/-- `EmptyFile` bit -/
def EntrySpec.isEmptyFile (e : EntrySpec) : Bool := !e.isDir && e.size == 0

/-- one folder: one coder, one pack stream, and the entries listed while it is current -/
structure FolderSpec where
  method : Method
  packSize : Nat
  packCrc : Nat := 0     -- written when `opts.packCrc`
  crc : Nat := 0         -- CRC-32 of the unpacked folder, written when `opts.folderCrc`
  entries : List EntrySpec
deriving Repr, DecidableEq

structure Opts where
  packCrc : Bool := false            -- PackInfo digests
  folderCrc : Bool := false          -- UnpackInfo digests
  alwaysNumStreams : Bool := false   -- write NumUnpackStream even when every folder holds one file
  attrs : Bool := true
  mtime : Bool := false
  dummy : Nat := 0                   -- kDummy padding (number of zero bytes; 0 = no property)
  namesFirst : Bool := false         -- Names before EmptyStream / EmptyFile
deriving Repr, DecidableEq

structure Layout where
  packPos : Nat := 0
  folders : List FolderSpec
  tail : List EntrySpec              -- directories / empty files after the last non-empty file
  opts : Opts := {}
deriving Repr, DecidableEq

def Layout.entries (L : Layout) : List EntrySpec := L.folders.flatMap (·.entries) ++ L.tail

/-- sizes of the non-empty files of a folder = its substreams -/
def FolderSpec.sizes (f : FolderSpec) : List Nat := (f.entries.filter (·.hasStream)).map (·.size)
def FolderSpec.count (f : FolderSpec) : Nat := f.sizes.length
def FolderSpec.unpackSize (f : FolderSpec) : Nat := f.sizes.sum
def FolderSpec.fileCrcs (f : FolderSpec) : List Nat := (f.entries.filter (·.hasStream)).map (·.crc)

/-! ### streams info -/

/-- `kCRC`, AllAreDefined = 1, the digests -/
def digests (crcs : List Nat) : Bytes := [0x0A, 0x01] ++ crcs.flatMap (le 4)

/-- one coder: flags (id size | 0x20 if it has properties), id, [properties size, properties] -/
def coderBytes : Method → Bytes
  | .copy => [0x01, 0x00]
  | .lzma props => [0x23, 0x03, 0x01, 0x01] ++ number props.length ++ props
  | .lzma2 p => [0x21, 0x21] ++ number 1 ++ [p]

/-- a folder with one coder: NumCoders = 1, the coder; no bind pairs, one pack stream -/
def folderBytes (f : FolderSpec) : Bytes := number 1 ++ coderBytes f.method

def packInfo (L : Layout) : Bytes :=
  [0x06] ++ number L.packPos ++ number L.folders.length
    ++ [0x09] ++ L.folders.flatMap (fun f => number f.packSize)
    ++ (if L.opts.packCrc then digests (L.folders.map (·.packCrc)) else [])
    ++ [0x00]

def unpackInfo (L : Layout) : Bytes :=
  [0x07, 0x0B] ++ number L.folders.length ++ [0x00]
    ++ L.folders.flatMap folderBytes
    ++ [0x0C] ++ L.folders.flatMap (fun f => number f.unpackSize)
    ++ (if L.opts.folderCrc then digests (L.folders.map (·.crc)) else [])
    ++ [0x00]

/-- digests of SubStreamsInfo: one per stream whose CRC is not already known from its folder -/
def subCrcs (L : Layout) : List Nat :=
  L.folders.flatMap fun f => if L.opts.folderCrc && f.count == 1 then [] else f.fileCrcs

/-- NumUnpackStream is omitted when every folder holds exactly one file (unless the packer always writes it) -/
def writesNumStreams (L : Layout) : Bool := L.opts.alwaysNumStreams || L.folders.any (·.count != 1)
/-- substream sizes are written when some folder holds more than one file -/
def writesSubSizes (L : Layout) : Bool := L.folders.any (fun f => decide (f.count > 1))

def subStreamsBody (L : Layout) : Bytes :=
  (if writesNumStreams L then [0x0D] ++ L.folders.flatMap (fun f => number f.count) else [])
    ++ (if writesSubSizes L then [0x09] ++ L.folders.flatMap (fun f => f.sizes.dropLast.flatMap number) else [])
    ++ (if (subCrcs L).isEmpty then [] else digests (subCrcs L))
    ++ [0x00]

def subStreamsInfo (L : Layout) : Bytes := 0x08 :: subStreamsBody L

def streamsInfo (L : Layout) : Bytes := packInfo L ++ unpackInfo L ++ subStreamsInfo L ++ [0x00]

/-! ### files info -/

/-- one property of FilesInfo: id, size of the body, body -/
def prop (pid : Nat) (body : Bytes) : Bytes := pid :: (number body.length ++ body)

def emptyStreamVec (es : List EntrySpec) : List Bool := es.map (!·.hasStream)
def emptyFileVec (es : List EntrySpec) : List Bool := (es.filter (!·.hasStream)).map (·.isEmptyFile)

/-- body of `kNames`: External = 0, the names -/
def namesBody (es : List EntrySpec) : Bytes := 0 :: es.flatMap (fun e => nameBytes e.name)
/-- body of `kMTime`: AllAreDefined = 1, External = 0, 8 bytes each -/
def mtimeBody (es : List EntrySpec) : Bytes := [1, 0] ++ es.flatMap (fun e => le 8 e.mtime)
/-- body of `kWinAttributes`: AllAreDefined = 1, External = 0, 4 bytes each -/
def attrsBody (es : List EntrySpec) : Bytes := [1, 0] ++ es.flatMap (fun e => le 4 e.attrib)

def emptyProps (es : List EntrySpec) : Bytes :=
  (if (emptyStreamVec es).any id then
     prop 0x0E (bitVector (emptyStreamVec es))
       ++ (if (emptyFileVec es).any id then prop 0x0F (bitVector (emptyFileVec es)) else [])
   else [])

def otherProps (o : Opts) (es : List EntrySpec) : Bytes :=
  (if o.dummy ≠ 0 then prop 0x19 (List.replicate o.dummy 0) else [])
    ++ (if o.mtime then prop 0x14 (mtimeBody es) else [])
    ++ (if o.attrs then prop 0x15 (attrsBody es) else [])

def propsStream (o : Opts) (es : List EntrySpec) : Bytes :=
  (if o.namesFirst then prop 0x11 (namesBody es) ++ emptyProps es else emptyProps es ++ prop 0x11 (namesBody es))
    ++ otherProps o es

def filesInfo (L : Layout) : Bytes :=
  [0x05] ++ number L.entries.length ++ propsStream L.opts L.entries ++ [0x00]

/-! ### header and archive -/

/-- the header block: `kHeader`, [MainStreamsInfo], [FilesInfo], `kEnd` -/
def writeHeader (L : Layout) : Bytes :=
  [0x01]
    ++ (if L.folders ≠ [] then 0x04 :: streamsInfo L else [])
    ++ (if L.entries ≠ [] then filesInfo L else [])
    ++ [0x00]

def magic : Bytes := [0x37, 0x7A, 0xBC, 0xAF, 0x27, 0x1C]

/-- the 20 bytes the start-header CRC covers: NextHeaderOffset, NextHeaderSize, NextHeaderCRC -/
def startFields (crc : Bytes → Nat) (bodyLen : Nat) (hdr : Bytes) : Bytes :=
  le 8 bodyLen ++ le 8 hdr.length ++ le 4 (crc hdr)

/-- signature, version 0.4, start-header CRC, start header (32 bytes in all) -/
def startHeader (crc : Bytes → Nat) (bodyLen : Nat) (hdr : Bytes) : Bytes :=
  magic ++ [0x00, 0x04] ++ le 4 (crc (startFields crc bodyLen hdr)) ++ startFields crc bodyLen hdr

/-- the whole file: start header, `body` (everything between the start header and the header block: the pack
    streams), header block -/
def archive (crc : Bytes → Nat) (L : Layout) (body : Bytes) : Bytes :=
  startHeader crc body.length (writeHeader L) ++ body ++ writeHeader L

/-! ### well-formed layouts (decidable) -/

/-- a name a packer can store: non-empty, Unicode scalar values, no NUL -/
def nameOk (name : List Nat) : Bool :=
  !name.isEmpty && name.all fun c => c != 0 && decide (c < 0x110000) && !(decide (0xD800 ≤ c) && decide (c < 0xE000))

def entryOk (e : EntrySpec) : Bool :=
  nameOk e.name && decide (e.size < 2 ^ 64) && decide (e.attrib < 2 ^ 32) && decide (e.mtime < 2 ^ 64)
    && decide (e.crc < 2 ^ 32) && (!e.isDir || e.size == 0)

def methodOk : Method → Bool
  | .copy => true
  | .lzma props => props.length == 5 && props.all (decide <| · < 256)
  | .lzma2 p => decide (p < 256)

def folderOk (f : FolderSpec) : Bool :=
  methodOk f.method && decide (f.packSize < 2 ^ 64) && decide (f.packCrc < 2 ^ 32) && decide (f.crc < 2 ^ 32)
    && decide (f.count ≥ 1) && decide (f.unpackSize < 2 ^ 64) && f.entries.all entryOk

/-- `WellFormed L`: every folder holds at least one non-empty file and the sizes of its files add up to less
    than 2^64; the trailing entries have no stream; every entry has a storable name, a size / mtime < 2^64, an
    attribute / CRC < 2^32, directories have size 0; every number the header stores fits 64 bits (pack position,
    pack sizes, number of folders, and the byte sizes of the property bodies). -/
def wellFormed (L : Layout) : Bool :=
  L.folders.all folderOk && L.tail.all (fun e => entryOk e && !e.hasStream)
    && decide (L.packPos < 2 ^ 64) && decide (L.opts.dummy < 2 ^ 64)
    && decide ((namesBody L.entries).length < 2 ^ 60)

abbrev WellFormed (L : Layout) : Prop := wellFormed L = true

end S2T.Spec.SevenZipWriter
