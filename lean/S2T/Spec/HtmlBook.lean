import S2T.Spec.HtmlDoc
/-!
Spec side of C17 for HISTORIES of documents: the chapters of one EPUB (one `_XhtmlTextExtractor` per
content document, `epub_extractor._extract_chapter`), the files / mail bodies one process reads one after
the other (`read_html`, `read_mhtml`, `msg_email_extractor._html_to_text`: one `_HtmlTreeBuilder` each).

A content document may END inside a removed element (`Tail.unclosed`: the element is never closed —
a trailing `<object>` / `<iframe>` / `<noscript>` without end tag, a truncated chapter).  Such a tail hides
the rest of ITS document, as in browsers; it must not reach into the next document.

Two readers are modelled:
* `readBook`        — a NEW parser object per document (what the source does; `Gen/HtmlLife.lean` is the
                      inventory of construction / feed sites the current source really has);
* `Reuse.readBook`  — ONE parser object whose class-specific part is re-initialised between documents while the
                      gate fields (`skip_depth`, `_skip_tag`) survive (a `reset()` that forgets them).
-/
namespace S2T.HtmlSkip

/-- how a content document ends -/
inductive Tail
  | complete                                              -- every removed element is closed
  | unclosed (tag : Str) (attrs : Attrs) (junk : List Ev) -- `<tag …> junk` and then the document ends
  deriving DecidableEq

structure Chapter where
  doc : Doc
  tail : Tail

def Tail.events : Tail → List Ev
  | .complete => []
  | .unclosed t a junk => .start t a :: junk

/-- the handler calls for one content document -/
def Chapter.events (c : Chapter) : List Ev := S2T.HtmlSkip.events c.doc ++ c.tail.events

/-- an unclosed tail: removable, not void, and NO end tag in its content closes it -/
def TailOk (T : Tables) : Tail → Bool
  | .complete => true
  | .unclosed t _ junk => T.remove.contains t && !T.void.contains t && (bal t 0 junk).isSome

def ChapterOk (T : Tables) (c : Chapter) : Bool := DocOk T c.doc && TailOk T c.tail

def SpecTailOk : Tail → Bool
  | .complete => true
  | .unclosed t _ junk => specRemovable.contains t && !stdVoid.contains t && (bal t 0 junk).isSome

/-- the property's own reading of a content document, independent of the library's tables -/
def SpecChapterOk (c : Chapter) : Bool := SpecDocOk c.doc && SpecTailOk c.tail

/-- the chapter with every removed element / comment deleted (an unclosed tail is a removed element) -/
def Chapter.strip (c : Chapter) : Chapter := { doc := S2T.HtmlSkip.strip c.doc, tail := .complete }

/-- strings that must not appear: those of the removed elements and of the unclosed tail -/
def Tail.hiddenData : Tail → List Str
  | .complete => []
  | .unclosed _ _ junk => junk.flatMap (fun e => match e with
      | .data s => [s] | .comment s => [s] | .unknownDecl s => [s] | _ => [])

section readers
variable {σ : Type} (T : Tables) (D : Down σ)

/-- the reader of the source: a NEW parser (`init d0`) for every document -/
def readBook (d0 : σ) (book : List (List Ev)) : List (St σ) := book.map (run T D (init d0))

namespace Reuse
/-- ONE parser for all documents; between documents only the class-specific part is re-initialised -/
def readBook (d0 : σ) : St σ → List (List Ev) → List (St σ)
  | _, [] => []
  | st, evs :: r => let st' := run T D { st with down := d0 } evs; st' :: readBook d0 st' r
end Reuse
end readers

end S2T.HtmlSkip
