import S2T.Model.OoxmlText
/-
C02 (part "ooxml"), spec side: the abstract document, its reference linearisation (the ground truth
of "the visible body text, in order, with the boundaries the source has"), and the DOCX renderer.

A text leaf is an arbitrary string (it may itself contain whitespace, or none: two adjacent leaves
without a boundary between them form one word, as in the source).  Excluded material (tracked
deletions, reference marks, and everything outside the body: comments, notes, headers/footers, speaker
notes) is part of the document but not of `lin`.
-/
namespace S2T.C02.Ooxml

mutual
inductive Inline where
  | text (s : Str)                    -- a run of text
  | tab                               -- tab boundary
  | br                                -- line-break boundary
  | link (href : Str) (xs : List Inline)   -- hyperlink around inline content
  | ins (xs : List Inline)            -- tracked insertion (visible)
  | del (s : Str)                     -- tracked deletion (excluded)
  | ctl (xs : List Inline)            -- inline content control
  | mark (id : Str)                   -- footnote / endnote / comment reference mark (no text of its own)
  | box (bs : List Block)             -- text box anchored here
inductive Block where
  | para (style : Str) (xs : List Inline)              -- paragraph; the style is a property, not text
  | heading (level : Nat) (xs : List Inline)
  | list (items : List (List Block))                   -- list; an item holds blocks (nesting)
  | table (rows : List (List (List Block)))            -- rows → cells → blocks (nesting)
  | ctl (bs : List Block)                              -- block-level content control
end

/-- material outside the body -/
structure Outside where
  comments : List Block := []
  footnotes : List Block := []
  endnotes : List Block := []
  headers : List Block := []
  footers : List Block := []

structure Doc where
  body : List Block
  outside : Outside := {}

/-- what differs between the formats' own notion of "the source separates": in DOCX a text box floats (an
    empty one separates nothing); in HTML the box is a block element and always a boundary -/
structure Fmt where
  boxIsBoundary : Bool

def fmtDocx : Fmt := ⟨false⟩
def fmtHtml : Fmt := ⟨true⟩

section lin
variable (F : Fmt) (ws : Char → Bool)

mutual
/-- reference linearisation: leaves in document order; a paragraph (heading) is delimited by a space on
    both sides, a tab / line break is one space.  An empty text box separates nothing. -/
def linI : Inline → Str
  | .text s => s
  | .tab => [' ']
  | .br => [' ']
  | .link _ xs => linIs xs
  | .ins xs => linIs xs
  | .del _ => []
  | .ctl xs => linIs xs
  | .mark _ => []
  | .box bs =>
    let t := linBs bs
    if F.boxIsBoundary then ' ' :: t ++ [' '] else if nonblank ws t then t else []
def linIs : List Inline → Str
  | [] => []
  | x :: r => linI x ++ linIs r
def linB : Block → Str
  | .para _ xs => ' ' :: linIs xs ++ [' ']
  | .heading _ xs => ' ' :: linIs xs ++ [' ']
  | .list items => linCells items
  | .table rows => linRows rows
  | .ctl bs => linBs bs
def linBs : List Block → Str
  | [] => []
  | b :: r => linB b ++ linBs r
/-- cells of a row / items of a list: each is a block container -/
def linCells : List (List Block) → Str
  | [] => []
  | c :: r => linBs c ++ linCells r
def linRows : List (List (List Block)) → Str
  | [] => []
  | row :: r => linCells row ++ linRows r
end

/-- the ground truth of the property: the words of the body, in order -/
def bodyWords (d : Doc) : List Str := words ws (linBs F ws d.body)

end lin

/-! ### visible / excluded leaves (for the "nothing invented / nothing leaked" statements) -/
mutual
def leavesI : Inline → List Str
  | .text s => [s]
  | .tab => []
  | .br => []
  | .link _ xs => leavesIs xs
  | .ins xs => leavesIs xs
  | .del _ => []
  | .ctl xs => leavesIs xs
  | .mark _ => []
  | .box bs => leavesBs bs
def leavesIs : List Inline → List Str
  | [] => []
  | x :: r => leavesI x ++ leavesIs r
def leavesB : Block → List Str
  | .para _ xs => leavesIs xs
  | .heading _ xs => leavesIs xs
  | .list items => leavesCells items
  | .table rows => leavesRows rows
  | .ctl bs => leavesBs bs
def leavesBs : List Block → List Str
  | [] => []
  | b :: r => leavesB b ++ leavesBs r
def leavesCells : List (List Block) → List Str
  | [] => []
  | c :: r => leavesBs c ++ leavesCells r
def leavesRows : List (List (List Block)) → List Str
  | [] => []
  | row :: r => leavesCells row ++ leavesRows r
end

/-! ## DOCX renderer -/
namespace Docx

def o (name : String) : Tag := .other name.toList
def prop (name : String) (val : Str) : Xml := .node (o name) [("w:val".toList, val)] [] []

/-- the drawing that carries a text box: DrawingML shape in `mc:Choice`, VML copy in `mc:Fallback` -/
def boxRun (content : List Xml) : Xml :=
  el .wR [el .alt [
    el .choice [el (o "w:drawing") [el (o "wp:anchor") [el (o "a:graphic") [el (o "a:graphicData")
      [el (o "wps:wsp") [el (o "wps:txbx") [el .wTxbxContent content]]]]]]],
    el .fallback [el (o "w:pict") [el (o "v:shape") [el (o "v:textbox") [el .wTxbxContent content]]]]]]

def headingStyle (level : Nat) : Str := "Heading".toList ++ (toString level).toList

mutual
def renderI : Inline → Xml
  | .text s => el .wR [el (o "w:rPr") [], leaf .wT s]
  | .tab => el .wR [el .wTab []]
  | .br => el .wR [el .wBr []]
  | .link href xs => .node (o "w:hyperlink") [("w:anchor".toList, href)] [] (renderIs xs)
  | .ins xs => el (o "w:ins") (renderIs xs)
  | .del s => el (o "w:del") [el .wR [leaf (o "w:delText") s]]
  | .ctl xs => el .wSdt [el (o "w:sdtPr") [], el .wSdtContent (renderIs xs)]
  | .mark id => el .wR [.node (o "w:footnoteReference") [("w:id".toList, id)] [] []]
  | .box bs => boxRun (renderBs bs)
def renderIs : List Inline → List Xml
  | [] => []
  | x :: r => renderI x :: renderIs r
/-- a block is one or several body-level elements (a list is a sequence of paragraphs) -/
def renderB : Block → List Xml
  | .para style xs => [el .wP (el (o "w:pPr") [prop "w:pStyle" style] :: renderIs xs)]
  | .heading level xs => [el .wP (el (o "w:pPr") [prop "w:pStyle" (headingStyle level)] :: renderIs xs)]
  | .list items => renderItems items
  | .table rows => [el .wTbl (el (o "w:tblPr") [] :: renderRows rows)]
  | .ctl bs => [el .wSdt [el (o "w:sdtPr") [], el .wSdtContent (renderBs bs)]]
def renderBs : List Block → List Xml
  | [] => []
  | b :: r => renderB b ++ renderBs r
/-- list items: their blocks one after the other (numbering is a paragraph property in DOCX) -/
def renderItems : List (List Block) → List Xml
  | [] => []
  | it :: r => renderBs it ++ renderItems r
def renderCells : List (List Block) → List Xml
  | [] => []
  | c :: r => el .wTc (el (o "w:tcPr") [] :: renderBs c) :: renderCells r
def renderRows : List (List (List Block)) → List Xml
  | [] => []
  | row :: r => el .wTr (el (o "w:trPr") [] :: renderCells row) :: renderRows r
end

/-- `list(body)` of word/document.xml -/
def renderBody (d : Doc) : List Xml := renderBs d.body ++ [el (o "w:sectPr") []]

end Docx
end S2T.C02.Ooxml
