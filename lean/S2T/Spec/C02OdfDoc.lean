import S2T.Model.C02OdfXml
import S2T.Model.C02OdfRtf
/-
Abstract documents for C02 (part 'odf') and their renderers, written in Lean so that the renderer used in the
theorems is the renderer used by the correspondence (the driver emits `render d` and the harness packages it).

* `Inl` / `Blk`: inline and block content of an OpenDocument text / drawing: character data, `text:s` runs, tabs,
  line breaks, spans, hyperlinks, footnotes and endnotes, annotations (comments), bookmarks; paragraphs, headings and
  containers (lists and items, tables / header rows / rows / cells, sections, frames and text boxes, the
  tracked-changes store) in *arbitrary* nesting.
* `visible`, `bodyTokens`, `exclTexts`: what the property statement calls visible body text / excluded text.
* `Slide`/`Box` (ODP), `Sheet`/`Row`/`Cell` (ODS), `RInl`/`RPara`/`RDoc` (RTF).
Core Lean only (the driver links this file).
-/
namespace S2T.OdfDoc
open S2T.Tok S2T.OdfText

/-! ## names -/
def nsOffice := "urn:oasis:names:tc:opendocument:xmlns:office:1.0"
def nsText := "urn:oasis:names:tc:opendocument:xmlns:text:1.0"
def nsTable := "urn:oasis:names:tc:opendocument:xmlns:table:1.0"
def nsDraw := "urn:oasis:names:tc:opendocument:xmlns:drawing:1.0"
def nsXlink := "http://www.w3.org/1999/xlink"
def nsDc := "http://purl.org/dc/elements/1.1/"
def nsSvg := "urn:oasis:names:tc:opendocument:xmlns:svg-compatible:1.0"
def nsPres := "urn:oasis:names:tc:opendocument:xmlns:presentation:1.0"
def q (ns loc : String) : Str := ("{" ++ ns ++ "}" ++ loc).toList

def tS := q nsText "s"
def tTab := q nsText "tab"
def tLb := q nsText "line-break"
def aC := q nsText "c"
def tP := q nsText "p"
def tH := q nsText "h"
def tSpan := q nsText "span"
def tA := q nsText "a"
def tNote := q nsText "note"
def tNoteCit := q nsText "note-citation"
def tNoteBody := q nsText "note-body"
def tAnnot := q nsOffice "annotation"
def tCreator := q nsDc "creator"
def tBookmark := q nsText "bookmark"
def tTracked := q nsText "tracked-changes"

/-- the constants every ODF extractor module is expected to hold (ODF 1.2 names) -/
def stdFmt (skip : List Str) : Fmt := { space := tS, tab := tTab, lb := tLb, attrC := aC, skip := skip }

/-! ## decimal numerals -/

def digitsRev (n : Nat) : List Nat := if n < 10 then [n] else (n % 10) :: digitsRev (n / 10)
decreasing_by omega

def digitChar (d : Nat) : Char := Char.ofNat (48 + d)
/-- `str(n)` -/
def natToDec (n : Nat) : Str := (digitsRev n).reverse.map digitChar
/-- `str(i)` -/
def intToDec (i : Int) : Str := if i < 0 then '-' :: natToDec i.natAbs else natToDec i.natAbs

/-! ## inline and block content -/

inductive Inl where
  | text (s : Str)
  | sp (n : Nat)
  | tab
  | br
  | span (kids : List Inl)
  | link (href : Str) (kids : List Inl)
  | note (endnote : Bool) (cit : Str) (kids : List Inl)
  | annot (creator : Str) (kids : List Inl)
  | bookmark (name : Str)
  deriving Repr

inductive Kind where
  | list | item | table | headerRows | row | cell | section | frame | textBox
  | tracked | region | deletion | page | shape | group
  deriving DecidableEq, Repr

inductive Blk where
  | para (style : Str) (kids : List Inl)
  | heading (level : Nat) (kids : List Inl)
  | cont (k : Kind) (kids : List Blk)
  | comment (creator : Str) (kids : List Inl)     -- block-level `office:annotation` (a comment on a drawing page)
  deriving Repr

mutual
/-- the characters an inline item shows in the body -/
def visible : Inl → Str
  | .text s => s
  | .sp n => List.replicate n ' '
  | .tab => ['\t']
  | .br => ['\n']
  | .span ks => visibleL ks
  | .link _ ks => visibleL ks
  | .note _ _ _ => []
  | .annot _ _ => []
  | .bookmark _ => []
def visibleL : List Inl → Str
  | [] => []
  | i :: r => visible i ++ visibleL r
end

mutual
/-- text that the documentation keeps out of the default full text: note bodies and citations, comments -/
def exclInl : Inl → List Str
  | .span ks => exclInlL ks
  | .link _ ks => exclInlL ks
  | .note _ cit ks => cit :: visibleL ks :: exclInlL ks
  | .annot c ks => c :: visibleL ks :: exclInlL ks
  | _ => []
def exclInlL : List Inl → List Str
  | [] => []
  | i :: r => exclInl i ++ exclInlL r
end

mutual
/-- the paragraph texts of the body, document order (each paragraph / heading once) -/
def bodyTexts : Blk → List Str
  | .para _ ks => [visibleL ks]
  | .heading _ ks => [visibleL ks]
  | .cont k bs => if k = .tracked then [] else bodyTextsL bs
  | .comment _ _ => []
def bodyTextsL : List Blk → List Str
  | [] => []
  | b :: r => bodyTexts b ++ bodyTextsL r
end

mutual
/-- every paragraph text, tracked-changes store included -/
def allTexts : Blk → List Str
  | .para _ ks => [visibleL ks]
  | .heading _ ks => [visibleL ks]
  | .cont _ bs => allTextsL bs
  | .comment _ _ => []
def allTextsL : List Blk → List Str
  | [] => []
  | b :: r => allTexts b ++ allTextsL r
end

mutual
/-- excluded text: notes / comments anywhere, and everything inside the tracked-changes store -/
def exclTexts : Blk → List Str
  | .para _ ks => exclInlL ks
  | .heading _ ks => exclInlL ks
  | .cont k bs => if k = .tracked then allTextsL bs ++ exclTextsL bs else exclTextsL bs
  | .comment c ks => c :: visibleL ks :: exclInlL ks
def exclTextsL : List Blk → List Str
  | [] => []
  | b :: r => exclTexts b ++ exclTextsL r
end

/-- the body's token sequence (`p` = whitespace) -/
def bodyTokens (p : Char → Bool) (d : List Blk) : List Str := (bodyTextsL d).flatMap (tokens p)

/-! ## rendering to ElementTree shape -/

inductive Mix where
  | chars (s : Str)
  | el (x : Xml)

/-- mixed content → (leading text, child elements with their tails) -/
def pack : List Mix → Str × List Xml
  | [] => ([], [])
  | .chars s :: r => let te := pack r; (s ++ te.1, te.2)
  | .el x :: r => let te := pack r; ([], x.withTail te.1 :: te.2)

def leaf (tag : Str) (attrs : List (Str × Str)) : Xml := .node tag attrs [] [] []
def elem (tag : Str) (attrs : List (Str × Str)) (ms : List Mix) : Xml :=
  let te := pack ms; .node tag attrs te.1 [] te.2

mutual
def rInl : Inl → Mix
  | .text s => .chars s
  | .sp n => .el (leaf tS [(aC, natToDec n)])
  | .tab => .el (leaf tTab [])
  | .br => .el (leaf tLb [])
  | .span ks => .el (elem tSpan [(q nsText "style-name", "T1".toList)] (rInls ks))
  | .link h ks => .el (elem tA [(q nsXlink "href", h)] (rInls ks))
  | .note e cit ks =>
    .el (.node tNote [(q nsText "id", "ftn1".toList), (q nsText "note-class", (if e then "endnote" else "footnote").toList)] [] []
      [.node tNoteCit [] cit [] [], .node tNoteBody [] [] [] [elem tP [] (rInls ks)]])
  | .annot c ks =>
    .el (.node tAnnot [] [] [] [.node tCreator [] c [] [], elem tP [] (rInls ks)])
  | .bookmark n => .el (leaf tBookmark [(q nsText "name", n)])
def rInls : List Inl → List Mix
  | [] => []
  | i :: r => rInl i :: rInls r
end

def kindTag : Kind → Str
  | .list => q nsText "list"
  | .item => q nsText "list-item"
  | .table => q nsTable "table"
  | .headerRows => q nsTable "table-header-rows"
  | .row => q nsTable "table-row"
  | .cell => q nsTable "table-cell"
  | .section => q nsText "section"
  | .frame => q nsDraw "frame"
  | .textBox => q nsDraw "text-box"
  | .tracked => tTracked
  | .region => q nsText "changed-region"
  | .deletion => q nsText "deletion"
  | .page => q nsDraw "page"
  | .shape => q nsDraw "custom-shape"
  | .group => q nsDraw "g"

mutual
def rBlk : Blk → Xml
  | .para st ks => elem tP [(q nsText "style-name", st)] (rInls ks)
  | .heading lv ks => elem tH [(q nsText "outline-level", natToDec lv)] (rInls ks)
  | .cont k bs => .node (kindTag k) [] [] [] (rBlks bs)
  | .comment c ks => .node tAnnot [] [] [] [.node tCreator [] c [] [], elem tP [] (rInls ks)]
def rBlks : List Blk → List Xml
  | [] => []
  | b :: r => rBlk b :: rBlks r
end

/-- `office:text` of an ODT document -/
def renderOdt (d : List Blk) : Xml := .node (q nsOffice "text") [] [] [] (rBlks d)
/-- `office:drawing` of an ODG document -/
def renderOdg (d : List Blk) : Xml := .node (q nsOffice "drawing") [] [] [] (rBlks d)

/-! ## ODP -/

structure Box where
  y : Str
  x : Str
  paras : List (Str × List Inl)         -- (paragraph style name, content)
  deriving Repr

structure PSlide where
  boxes : List Box
  notes : List (List Inl)               -- speaker notes (excluded)
  deriving Repr

def rBox (b : Box) : Xml :=
  .node (q nsDraw "frame") [(q nsSvg "x", b.x), (q nsSvg "y", b.y)] [] []
    [.node (q nsDraw "text-box") [] [] [] (b.paras.map (fun sp => elem tP [(q nsText "style-name", sp.1)] (rInls sp.2)))]

def rSlide (s : PSlide) : Xml :=
  .node (q nsDraw "page") [] [] []
    (s.boxes.map rBox ++
      [.node (q nsPres "notes") [] [] []
        [.node (q nsDraw "frame") [] [] [] [.node (q nsDraw "text-box") [] [] [] (s.notes.map (fun n => elem tP [] (rInls n)))]]])

def renderOdp (d : List PSlide) : Xml := .node (q nsOffice "presentation") [] [] [] (d.map rSlide)

/-! ## ODS -/

structure Cell where
  rep : Nat
  paras : List (List Inl)
  comment : Option (List Inl)           -- cell comment (excluded)
  deriving Repr

structure Row where
  rep : Nat
  cells : List Cell
  deriving Repr

structure Sheet where
  name : Str
  rows : List Row
  deriving Repr

def rCell (c : Cell) : Xml :=
  .node (q nsTable "table-cell")
    ([(q nsOffice "value-type", "string".toList)] ++ (if c.rep = 1 then [] else [(q nsTable "number-columns-repeated", natToDec c.rep)])) [] []
    ((match c.comment with
      | some k => [.node tAnnot [] [] [] [elem tP [] (rInls k)]]
      | none => []) ++ c.paras.map (fun ks => elem tP [] (rInls ks)))

def rRow (r : Row) : Xml :=
  .node (q nsTable "table-row") (if r.rep = 1 then [] else [(q nsTable "number-rows-repeated", natToDec r.rep)]) [] [] (r.cells.map rCell)

def rSheet (s : Sheet) : Xml := .node (q nsTable "table") [(q nsTable "name", s.name)] [] [] (s.rows.map rRow)

def renderOds (d : List Sheet) : Xml := .node (q nsOffice "spreadsheet") [] [] [] (d.map rSheet)

def cellText (c : Cell) : Str := joinNl (c.paras.map visibleL)

/-- sheet name (documented decoration), then the cells row by row, repeats expanded -/
def sheetTokens (p : Char → Bool) (s : Sheet) : List Str :=
  tokens p s.name ++
    s.rows.flatMap (fun r => (List.replicate r.rep (r.cells.flatMap (fun c => (List.replicate c.rep (tokens p (cellText c))).flatten))).flatten)

end S2T.OdfDoc

/-! ## RTF documents -/
namespace S2T.RtfDoc
open S2T.Tok S2T.OdfDoc

inductive RInl where
  | text (s : Str)
  | tab
  | line
  | cell                                            -- `\cell`: end of a table cell
  | row                                             -- `\row`: end of a table row
  | fmt (word : Str) (param : Option Nat)           -- formatting control word, e.g. `\b`, `\fs24`
  | group (word : Str) (param : Option Nat) (kids : List RInl)   -- `{\word kids}` (a field is `{\field {\*\fldinst …}{\fldrslt …}}`)
  | dest (word : Str) (body : Str)                  -- `{\*\word body}`: ignorable destination (annotation, bookmark, field instruction, …)
  | pict (hex : Str)                                -- `{\pict hex}`: an inline picture (a destination without `\*`)
  deriving Repr

structure RPara where
  kids : List RInl
  pageBreakAfter : Bool
  deriving Repr

structure RDoc where
  fonts : List Str
  title : Str
  header : Option Str
  footer : Option Str
  paras : List RPara
  deriving Repr

/-- `\uN?` with N as a signed 16-bit number -/
def uEsc (v : Nat) : Str := "\\u".toList ++ intToDec (if v < 0x8000 then (v : Int) else (v : Int) - 65536) ++ ['?']

def escChar (c : Char) : Str :=
  if c = '\\' ∨ c = '{' ∨ c = '}' then ['\\', c]
  else if 32 ≤ c.toNat ∧ c.toNat < 127 then [c]
  else if c.toNat < 0x10000 then uEsc c.toNat
  else uEsc (0xD800 + (c.toNat - 0x10000) / 1024) ++ uEsc (0xDC00 + (c.toNat - 0x10000) % 1024)

def escText (s : Str) : Str := s.flatMap escChar

/-- `\word[param] ` (the delimiter space is part of the control word) -/
def ctl (w : Str) (param : Option Nat) : Str :=
  '\\' :: w ++ (match param with | some n => natToDec n | none => []) ++ [' ']

mutual
def rR : RInl → Str
  | .text s => escText s
  | .tab => ctl "tab".toList none
  | .line => ctl "line".toList none
  | .cell => ctl "cell".toList none
  | .row => ctl "row".toList none
  | .fmt w pr => ctl w pr
  | .group w pr ks => '{' :: ctl w pr ++ rRs ks ++ ['}']
  | .dest w body => "{\\*".toList ++ ctl w none ++ escText body ++ ['}']
  | .pict hex => '{' :: ctl "pict".toList none ++ hex ++ ['}']
def rRs : List RInl → Str
  | [] => []
  | i :: r => rR i ++ rRs r
end

mutual
def rVisible : RInl → Str
  | .text s => s
  | .tab => ['\t']
  | .line => ['\n']
  | .cell => ['\t']
  | .row => ['\n']
  | .fmt _ _ => []
  | .group _ _ ks => rVisibleL ks
  | .dest _ _ => []
  | .pict _ => []
def rVisibleL : List RInl → Str
  | [] => []
  | i :: r => rVisible i ++ rVisibleL r
end

def rPara (pp : RPara) : Str :=
  ctl "pard".toList none ++ ctl "plain".toList none ++ rRs pp.kids ++ ctl "par".toList none
    ++ (if pp.pageBreakAfter then ctl "page".toList none else [])

def rFont (ni : Str × Nat) : Str := '{' :: ctl "f".toList (some ni.2) ++ escText ni.1 ++ ";}".toList

def rHdr (w : String) : Option Str → Str
  | none => []
  | some s => '{' :: ctl w.toList none ++ escText s ++ ['}']

def prologue (d : RDoc) : Str :=
  '{' :: ctl "rtf".toList (some 1) ++ ctl "ansi".toList none ++ ctl "deff".toList (some 0)
    ++ ('{' :: ctl "fonttbl".toList none ++ d.fonts.zipIdx.flatMap rFont ++ ['}'])
    ++ ('{' :: ctl "info".toList none ++ ('{' :: ctl "title".toList none ++ escText d.title ++ ['}']) ++ ['}'])
    ++ rHdr "header" d.header ++ rHdr "footer" d.footer

def renderRtf (d : RDoc) : Str := prologue d ++ d.paras.flatMap rPara ++ ['}']

/-- the body paragraphs' visible texts -/
def paraTexts (d : RDoc) : List Str := d.paras.map (fun pp => rVisibleL pp.kids)

def rtfBodyTokens (p : Char → Bool) (d : RDoc) : List Str := (paraTexts d).flatMap (tokens p)

end S2T.RtfDoc
