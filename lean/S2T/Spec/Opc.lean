/-
Specification of OPC part-name resolution (ECMA-376 part 2 §8.3 / RFC 3986 §5.2 restricted to
path-only references), over `List Char`.  Core Lean only.

A relationship `Target` that is a relative reference is resolved against the directory of the
source part; a target that starts with `/` is taken from the package root.  Resolution is the
"merge" of RFC 3986 §5.2.3 followed by "remove_dot_segments" (§5.2.4), stated on the list of
`/`-separated segments:

* a `.` segment and an empty segment (doubled or leading `/`) disappear,
* a `..` segment removes the closest preceding surviving segment; at the root it disappears
  (RFC 3986 §5.2.4 step 2C: `/../x` ↦ `/x`),
* every other segment is kept.

The result is a ZIP member name: segments joined by `/`, no leading `/`.
The laws that pin this function down (`Props/C14`: `norm_noDots`, `norm_cancel`, `norm_skip`,
`norm_clean`) are proved there.
-/
namespace S2T.Spec.Opc

abbrev Str := List Char

def dot : Str := ['.']
def dotdot : Str := ['.', '.']

/-- `s.split("/")`: never empty (`"".split("/") = [""]`). -/
def splitSlash : Str → List Str
  | [] => [[]]
  | c :: r =>
    if c = '/' then [] :: splitSlash r
    else match splitSlash r with
      | [] => [[c]]            -- unreachable: `splitSlash` is never empty
      | s :: t => (c :: s) :: t

/-- `"/".join(segs)` -/
def joinSlash : List Str → Str
  | [] => []
  | [s] => s
  | s :: t => s ++ '/' :: joinSlash t

/-- remove_dot_segments over a segment list; `acc` is the output stack, top first. -/
def normSegs : List Str → List Str → List Str
  | acc, [] => acc.reverse
  | acc, s :: r =>
    if s = dotdot then normSegs acc.tail r
    else if s = [] ∨ s = dot then normSegs acc r
    else normSegs (s :: acc) r

def norm (segs : List Str) : List Str := normSegs [] segs

/-- a relative reference (does not start at the package root) -/
def isAbsolute (t : Str) : Bool := t.head? == some '/'

/-- The member name designated by `target` in a relationship whose source part lies in directory
    `sourceDir` (no trailing slash; `[]` = package root). -/
def opcResolve (sourceDir target : Str) : Str :=
  if isAbsolute target then joinSlash (norm (splitSlash target))
  else joinSlash (norm (splitSlash sourceDir ++ splitSlash target))

/-- a proper name segment -/
def isName (s : Str) : Bool := s ≠ [] && s ≠ dot && s ≠ dotdot

end S2T.Spec.Opc
