/-
C06: the reviewed uses of threads / processes / event loops in the package, with the reason each one cannot make the
thread schedule an input of an extraction result.  Everything the translator finds in the current source
(`S2T.Gen.Sched.concurrencyUses`) has to be here (`S2T.C06Sched.concurrency_uses_reviewed`).
-/
namespace S2T.Spec.C06Sched

inductive Why where
  | lockOnly   -- a mutual-exclusion lock around a process-global table; no work is handed to another thread, no result is collected
  deriving DecidableEq, Repr

/-- (file, function, expression, why) -/
def reviewedConcurrency : List ((String × String × String) × Why) := [
  (("parsing/extractors/pdf/_pypdf_aes_fallback.py", "<module>", "import threading"), .lockOnly),
  (("parsing/extractors/pdf/_pypdf_aes_fallback.py", "<module>", "threading.Lock"), .lockOnly),
  (("parsing/extractors/pdf/pdf_extractor.py", "<module>", "import threading"), .lockOnly),
  (("parsing/extractors/pdf/pdf_extractor.py", "<module>", "threading.Lock"), .lockOnly)
]

end S2T.Spec.C06Sched
