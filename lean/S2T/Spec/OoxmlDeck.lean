import S2T.Model.OoxmlPptx
/-
C02 (part "ooxml"), spec side for PPTX and XLSX: abstract slides / sheets, their rendering to what the
model reads, and the expected words.
-/
namespace S2T.C02.Ooxml.Pptx
open S2T.C02.Ooxml

inductive Run where
  | text (s : Str)      -- a:r with one a:t
  | br                  -- a:br (line break)
  | field (s : Str)     -- a:fld (slide number, date) with its cached text
  deriving Repr

/-- role of a shape; everything except `plain` is a placeholder (`p:ph type=…`) -/
inductive Role where
  | title | ctrTitle | body | subTitle | obj     -- visible placeholders
  | idxOnly                                      -- `<p:ph idx="n"/>` without a type: content placeholder
  | sldNum                                       -- slide number: kept (documented in the source)
  | unknown (ty : Str)                           -- any other placeholder type: kept as "other"
  | plain                                        -- text box without placeholder
  | footer | date | header                       -- `ftr` / `dt` / `hdr`: excluded from the text
  deriving Repr

inductive Body where
  | paras (ps : List (List Run))
  | table (rows : List (List (List (List Run))))     -- rows → cells → paragraphs → runs

structure PShape where
  role : Role
  pos : Option (Int × Int)      -- (y, x) when the shape has its own a:xfrm/a:off
  idx : Str                      -- p:ph idx attribute ("" when absent)
  body : Body

structure Slide where
  shapes : List PShape
  notes : List (List Run) := []          -- speaker notes (excluded)
  comments : List Str := []              -- slide comments (excluded)

def Role.ph (idx : Str) : Role → Option (Str × Str)
  | .title => some ("title".toList, idx)
  | .ctrTitle => some ("ctrTitle".toList, idx)
  | .body => some ("body".toList, idx)
  | .subTitle => some ("subTitle".toList, idx)
  | .obj => some ("obj".toList, idx)
  | .idxOnly => some ([], idx)
  | .sldNum => some ("sldNum".toList, idx)
  | .unknown ty => some (ty, idx)
  | .plain => none
  | .footer => some ("ftr".toList, idx)
  | .date => some ("dt".toList, idx)
  | .header => some ("hdr".toList, idx)

def Role.excluded : Role → Bool
  | .footer | .date | .header => true
  | _ => false

def o (name : String) : Tag := .other name.toList

def renderRun : Run → Xml
  | .text s => el .aR [el (o "a:rPr") [], leaf .aT s]
  | .br => el .aBr []
  | .field s => el .aFld [el (o "a:rPr") [], leaf .aT s]

def renderPara (rs : List Run) : Xml := el .aP (el (o "a:pPr") [] :: rs.map renderRun ++ [el (o "a:endParaRPr") []])

def renderTxBody (tag : String) (ps : List (List Run)) : Xml :=
  el (o tag) (el (o "a:bodyPr") [] :: el (o "a:lstStyle") [] :: ps.map renderPara)

def renderShape (s : PShape) : Shape :=
  match s.body with
  | .paras ps => { pos := s.pos, ph := s.role.ph s.idx, content := .text (some (renderTxBody "p:txBody" ps)) }
  | .table rows =>
    { pos := s.pos, ph := none,
      content := .frame (some (rows.map (fun row => row.map (fun c => some (renderTxBody "a:txBody" c))))) }

section
variable (ws : Char → Bool)

def linRun : Run → Str
  | .text s => s
  | .br => [' ']
  | .field s => s

def linRuns (rs : List Run) : Str := concat (rs.map linRun)

/-- paragraphs: each delimited by spaces -/
def linParas (ps : List (List Run)) : Str := concat (ps.map (fun p => ' ' :: linRuns p ++ [' ']))

/-- the words a shape contributes -/
def shapeWords (s : PShape) : List Str :=
  match s.body with
  | .paras ps => if s.role.excluded then [] else words ws (linParas ps)
  | .table rows => rows.flatMap (fun row => row.flatMap (fun c => words ws (linParas c)))

/-- expected words of a slide: the shapes in the order the format documents — text shapes before
    tables, then stably sorted by their (top, left) offset -/
def slideWords (C : Consts) (s : Slide) : List Str :=
  let sps := s.shapes.filter (fun x => match x.body with | .paras _ => true | .table _ => false)
  let frames := s.shapes.filter (fun x => match x.body with | .paras _ => false | .table _ => true)
  let sorted := (sps ++ frames).mergeSort (fun a b => posLe (position C (renderShape a)) (position C (renderShape b)))
  sorted.flatMap (shapeWords ws)

def renderSlide (s : Slide) : List Shape :=
  let sps := s.shapes.filter (fun x => match x.body with | .paras _ => true | .table _ => false)
  let frames := s.shapes.filter (fun x => match x.body with | .paras _ => false | .table _ => true)
  (sps ++ frames).map renderShape

def deckWords (C : Consts) (slides : List Slide) : List Str := slides.flatMap (slideWords ws C)

end
end S2T.C02.Ooxml.Pptx

namespace S2T.C02.Ooxml.Xlsx
open S2T.C02.Ooxml

/-- a sheet: its name and the grid of cell strings (`none` = empty cell) as openpyxl returns it
    (rows of equal length) -/
structure Sheet where
  name : Str
  rows : List (List Cell)

variable (ws : Char → Bool)

/-- the words of the used range of the grid, row by row -/
def gridWords (rows : List (List Cell)) : List Str :=
  rows.flatMap (fun r => r.flatMap (fun c => words ws (display c)))

end S2T.C02.Ooxml.Xlsx
