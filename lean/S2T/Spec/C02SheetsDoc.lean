import S2T.Spec.C02OdfDoc
import S2T.Model.C02SheetsXlsx
import S2T.Model.HtmlSkip
/-
Abstract documents of the C02 part 'sheets' and their renderers, written in Lean so that the renderer the theorems
are about is the renderer the correspondence uses (the driver emits `render d`, the harness packages it).

* ODP: decks of slides; a slide has positioned frames (text box with paragraphs / lists / comments in any nesting, a
  table, or an image), shapes with text outside frames, and speaker notes.
Inline content (`Inl`: text, `text:s`, tab, line break, span, link, annotation, bookmark), `visibleL` and the element
builders are those of the 'odf' part's spec (imported read-only).  Core Lean only (the driver links this file).
-/
namespace S2T.C02.Sheets
open S2T.Tok S2T.OdfText S2T.OdfDoc

/-! ## ODP -/

inductive Role where
  | title | body | other
  deriving DecidableEq, Repr

/-- paragraph style names as Impress writes them (and some a template could use); `variant` picks one -/
def titleStyles : List Str := ["Title", "TitleText", "Sub_Title1"].map String.toList
def bodyStyles : List Str := ["BodyText", "Body", "Text_20_Body"].map String.toList
def otherStyles : List Str := ["P1", "", "Standard", "Outline1"].map String.toList

def styleOf (r : Role) (variant : Nat) : Str :=
  match r with
  | .title => titleStyles.getD (variant % 3) []
  | .body => bodyStyles.getD (variant % 3) []
  | .other => otherStyles.getD (variant % 4) []

structure Para where
  role : Role
  variant : Nat
  kids : List Inl
  deriving Repr

inductive GKind where
  | list | item | section
  deriving DecidableEq, Repr

/-- content of a text box: paragraphs, containers (outline lists) in any nesting, comments -/
inductive TB where
  | para (p : Para)
  | group (k : GKind) (kids : List TB)
  | comment (creator : Str) (kids : List Inl)      -- `office:annotation` with its own paragraph
  deriving Repr

inductive FrameBody where
  | textBox (content : List TB)
  | table (rows : List (List (List (List Inl))))   -- rows of cells of paragraphs; goes to `slide.tables`
  | image (href : Str)
  deriving Repr

inductive LUnit where
  | cm | inch | mm | pt | pc | px
  deriving DecidableEq, Repr

def unitStr : LUnit → Str
  | .cm => ['c', 'm'] | .inch => ['i', 'n'] | .mm => ['m', 'm']
  | .pt => ['p', 't'] | .pc => ['p', 'c'] | .px => ['p', 'x']

structure Frame where
  y : Nat
  x : Nat
  body : FrameBody
  deriving Repr

structure DSlide where
  unit : LUnit                      -- the length unit of this slide's positions
  frames : List Frame               -- in file order (NOT sorted)
  shapes : List (List Para)         -- text of `draw:custom-shape` children of the page (outside frames)
  notes : List (List Inl)           -- speaker notes
  deriving Repr

def gkindTag : GKind → Str
  | .list => q nsText "list"
  | .item => q nsText "list-item"
  | .section => q nsText "section"

def rPara (p : Para) : Xml := elem tP [(q nsText "style-name", styleOf p.role p.variant)] (rInls p.kids)

mutual
def rTB : TB → Xml
  | .para p => rPara p
  | .group k kids => .node (gkindTag k) [] [] [] (rTBs kids)
  | .comment c ks => .node tAnnot [] [] [] [.node tCreator [] c [] [], elem tP [] (rInls ks)]
def rTBs : List TB → List Xml
  | [] => []
  | b :: r => rTB b :: rTBs r
end

def rCellP (ks : List Inl) : Xml := elem tP [] (rInls ks)
def rTCell (c : List (List Inl)) : Xml := .node (q nsTable "table-cell") [] [] [] (c.map rCellP)
def rTRow (r : List (List (List Inl))) : Xml := .node (q nsTable "table-row") [] [] [] (r.map rTCell)

def rFrameBody : FrameBody → Xml
  | .textBox c => .node (q nsDraw "text-box") [] [] [] (rTBs c)
  | .table rows => .node (q nsTable "table") [] [] [] (rows.map rTRow)
  | .image h => .node (q nsDraw "image") [(q nsXlink "href", h)] [] [] []

def lenStr (u : LUnit) (n : Nat) : Str := natToDec n ++ unitStr u

def rFrame (u : LUnit) (f : Frame) : Xml :=
  .node (q nsDraw "frame") [(q nsSvg "x", lenStr u f.x), (q nsSvg "y", lenStr u f.y)] [] [] [rFrameBody f.body]

def rShape (ps : List Para) : Xml := .node (q nsDraw "custom-shape") [] [] [] (ps.map rPara)

def rNotes (ns : List (List Inl)) : Xml :=
  .node (q nsPres "notes") [] [] []
    [.node (q nsDraw "frame") [] [] [] [.node (q nsDraw "text-box") [] [] [] (ns.map rCellP)]]

def rSlide (s : DSlide) : Xml :=
  .node (q nsDraw "page") [] [] [] (s.frames.map (rFrame s.unit) ++ s.shapes.map rShape ++ [rNotes s.notes])

def renderOdp (d : List DSlide) : Xml := .node (q nsOffice "presentation") [] [] [] (d.map rSlide)

/-! ### what the property says about a deck -/

mutual
/-- the paragraphs of a text box in document order (comments are not slide text) -/
def tbParas : TB → List Para
  | .para p => [p]
  | .group _ kids => tbParasL kids
  | .comment _ _ => []
def tbParasL : List TB → List Para
  | [] => []
  | b :: r => tbParas b ++ tbParasL r
end

def frameParasD (f : Frame) : List Para :=
  match f.body with
  | .textBox c => tbParasL c
  | _ => []

/-- reading order of frames: top to bottom, then left to right (documented) -/
def posLe (a b : Frame) : Bool := decide (a.y < b.y) || (decide (a.y = b.y) && decide (a.x ≤ b.x))

structure Buckets where
  title : Option Str := none
  body : List Str := []
  other : List Str := []
  deriving Repr, DecidableEq

/-- the documented buckets: the first title-styled paragraph is the title, body-styled paragraphs are body text,
    everything else (later title-styled paragraphs included) is other text; order is preserved within a bucket -/
def bucket : List (Role × Str) → Buckets → Buckets
  | [], b => b
  | (r, t) :: rest, b =>
    if r = .title ∧ b.title = none then bucket rest { b with title := some t }
    else if r = .body then bucket rest { b with body := b.body ++ [t] }
    else bucket rest { b with other := b.other ++ [t] }

def Buckets.texts (b : Buckets) : List Str := b.title.toList ++ b.body ++ b.other

/-- the non-blank paragraph texts of the slide's frames, frames in reading order -/
def slideEntries (p : Char → Bool) (s : DSlide) : List (Role × Str) :=
  (((sortBy posLe s.frames).flatMap frameParasD).map (fun pa => (pa.role, visibleL pa.kids))).filter (fun e => !blank p e.2)

/-- the slide's text pieces in documented order: title, body, other -/
def slideTexts (p : Char → Bool) (s : DSlide) : List Str := (bucket (slideEntries p s) {}).texts

/-- tokens of the frames' text (what the code delivers, see `odp_tokens`) -/
def deckTokens (p : Char → Bool) (d : List DSlide) : List Str := d.flatMap (fun s => (slideTexts p s).flatMap (tokens p))

/-- tokens of all visible slide text: frames, then the shapes outside frames (the property's ground truth) -/
def shapeTexts (s : DSlide) : List Str := s.shapes.flatMap (fun ps => ps.map (fun pa => visibleL pa.kids))
def fullDeckTokens (p : Char → Bool) (d : List DSlide) : List Str :=
  d.flatMap (fun s => (slideTexts p s ++ shapeTexts s).flatMap (tokens p))

mutual
def tbExcl : TB → List Str
  | .para p => exclInlL p.kids
  | .group _ kids => tbExclL kids
  | .comment c ks => c :: visibleL ks :: exclInlL ks
def tbExclL : List TB → List Str
  | [] => []
  | b :: r => tbExcl b ++ tbExclL r
end

/-- excluded text: speaker notes, comments (block and inline) -/
def deckExcl (d : List DSlide) : List Str :=
  d.flatMap (fun s => s.notes.map visibleL ++ s.frames.flatMap (fun f => match f.body with
    | .textBox c => tbExclL c
    | _ => []))

/-- the cell texts of the tables in frames (reported through `slide.tables`, not the text) -/
def tableTexts (d : List DSlide) : List Str :=
  d.flatMap (fun s => s.frames.flatMap (fun f => match f.body with
    | .table rows => rows.flatMap (fun r => r.flatMap (fun c => c.map visibleL))
    | _ => []))

/-! ## ODS -/

inductive VKind where
  | float | currency | percentage | date | time | boolean
  deriving DecidableEq, Repr

def vkindName : VKind → Str
  | .float => "float".toList | .currency => "currency".toList | .percentage => "percentage".toList
  | .date => "date".toList | .time => "time".toList | .boolean => "boolean".toList

/-- the attribute that carries the typed value of a kind (ODF 1.2 §19.385 ff.) -/
def vkindAttr : VKind → Str
  | .float | .currency | .percentage => q nsOffice "value"
  | .date => q nsOffice "date-value"
  | .time => q nsOffice "time-value"
  | .boolean => q nsOffice "boolean-value"

structure OCell where
  rep : Nat                          -- table:number-columns-repeated
  typed : Option (VKind × Str)       -- a typed cell and its value attribute (may be empty: then the paragraphs count)
  paras : List (List Inl)            -- the cell's paragraphs (what a spreadsheet shows for a string cell)
  comment : Option (List Inl)        -- cell comment (excluded)
  deriving Repr

structure ORow where
  rep : Nat                          -- table:number-rows-repeated
  cells : List OCell
  deriving Repr

structure OSheet where
  name : Str
  headerRows : List ORow             -- rows inside table:table-header-rows (print-repeat rows)
  rows : List ORow
  deriving Repr

def repAttr (name : Str) (n : Nat) : List (Str × Str) := if n = 1 then [] else [(name, natToDec n)]

def rOCell (c : OCell) : Xml :=
  .node (q nsTable "table-cell")
    ((match c.typed with
      | some (k, v) => [(q nsOffice "value-type", vkindName k), (vkindAttr k, v)]
      | none => [(q nsOffice "value-type", "string".toList)]) ++ repAttr (q nsTable "number-columns-repeated") c.rep) [] []
    ((match c.comment with
      | some k => [.node tAnnot [] [] [] [elem tP [] (rInls k)]]
      | none => []) ++ c.paras.map rCellP)

def rORow (r : ORow) : Xml :=
  .node (q nsTable "table-row") (repAttr (q nsTable "number-rows-repeated") r.rep) [] [] (r.cells.map rOCell)

def rOSheet (s : OSheet) : Xml :=
  .node (q nsTable "table") [(q nsTable "name", s.name)] [] []
    ((if s.headerRows = [] then [] else [.node (q nsTable "table-header-rows") [] [] [] (s.headerRows.map rORow)])
      ++ s.rows.map rORow)

def renderOds (d : List OSheet) : Xml := .node (q nsOffice "spreadsheet") [] [] [] (d.map rOSheet)

/-- what the cell shows: the documented rule "typed values when available, falling back to text content" -/
def cellShown (c : OCell) : Str :=
  match c.typed with
  | some (_, v) => if v ≠ [] then v else joinNl (c.paras.map visibleL)
  | none => joinNl (c.paras.map visibleL)

def rowTokens (p : Char → Bool) (r : ORow) : List Str :=
  (List.replicate r.rep (r.cells.flatMap (fun c => (List.replicate c.rep (tokens p (cellShown c))).flatten))).flatten

/-- sheet name (documented decoration), then the cells row by row, repeats expanded -/
def sheetTokens (p : Char → Bool) (s : OSheet) : List Str := tokens p s.name ++ s.rows.flatMap (rowTokens p)

/-- the property's ground truth: the header rows are rows of the sheet -/
def fullSheetTokens (p : Char → Bool) (s : OSheet) : List Str :=
  tokens p s.name ++ (s.headerRows ++ s.rows).flatMap (rowTokens p)

/-- excluded: cell comments (and inline annotations) -/
def sheetExcl (s : OSheet) : List Str :=
  (s.headerRows ++ s.rows).flatMap (fun r => r.cells.flatMap (fun c =>
    (match c.comment with | some k => [visibleL k] | none => []) ++ c.paras.flatMap exclInlL))


/-! ## HTML pages with removed elements (rendered to text; judged by the token oracle, no theorem here:
    the builder / walker theorems are the 'ooxml' part's and C17's) -/
namespace Html

inductive HInl where
  | text (s : Str)
  | el (tag : Nat) (kids : List HInl)               -- an inline element (b / i / span / em / a)
  | removed (tag : Nat) (hidden : Str) (wrap : Bool) -- an element of REMOVE_TAGS with hidden text inside (unless void)
  deriving Repr

def inlineTags : List Str := ["b", "i", "span", "em", "a"].map String.toList
def blockTags : List Str := ["p", "div", "h2"].map String.toList

def escape (s : Str) : Str :=
  s.flatMap (fun c => if c = '&' then "&amp;".toList else if c = '<' then "&lt;".toList else if c = '>' then "&gt;".toList else [c])

def openTag (t : Str) : Str := '<' :: t ++ ['>']
def closeTag (t : Str) : Str := '<' :: '/' :: t ++ ['>']

mutual
/-- `remove` = REMOVE_TAGS (sorted), `void` = _VOID_TAGS of the current source -/
def rInl (remove void : List Str) : HInl → Str
  | .text s => escape s
  | .el t kids => let tag := inlineTags.getD (t % inlineTags.length) []; openTag tag ++ rInls remove void kids ++ closeTag tag
  | .removed t hidden wrap =>
    let tag := remove.getD (t % remove.length) []
    if void.contains tag then '<' :: tag ++ " src=\"x.bin\">".toList
    else if tag = "script".toList ∨ tag = "style".toList then openTag tag ++ hidden ++ closeTag tag     -- CDATA content
    else openTag tag ++ (if wrap then "<b>".toList ++ escape hidden ++ "</b>".toList else escape hidden) ++ closeTag tag
def rInls (remove void : List Str) : List HInl → Str
  | [] => []
  | i :: r => rInl remove void i ++ rInls remove void r
end

mutual
def visInl : HInl → Str
  | .text s => s
  | .el _ kids => visInls kids
  | .removed _ _ _ => []
def visInls : List HInl → Str
  | [] => []
  | i :: r => visInl i ++ visInls r
end

mutual
def hiddenInl (remove void : List Str) : HInl → List Str
  | .text _ => []
  | .el _ kids => hiddenInls remove void kids
  | .removed t hidden _ => if void.contains (remove.getD (t % remove.length) []) then [] else [hidden]
def hiddenInls (remove void : List Str) : List HInl → List Str
  | [] => []
  | i :: r => hiddenInl remove void i ++ hiddenInls remove void r
end

/-- a page: blocks `(block tag index, inline content)` -/
def renderPage (remove void : List Str) (blocks : List (Nat × List HInl)) : Str :=
  "<html><head><title>T0</title></head><body>".toList
    ++ blocks.flatMap (fun b => let tag := blockTags.getD (b.1 % blockTags.length) []
        openTag tag ++ rInls remove void b.2 ++ closeTag tag ++ ['\n'])
    ++ "</body></html>".toList

def pageTokens (p : Char → Bool) (blocks : List (Nat × List HInl)) : List Str :=
  blocks.flatMap (fun b => tokens p (visInls b.2))

end Html

/-! ## XLSX -/
namespace XlsxDoc
open S2T.C02.Sheets.Xlsx

structure XSheet where
  name : Str
  rows : List (List XCell)                   -- the grid as openpyxl returns it
  deriving Repr

/-- what a cell shows: in the first row `str(value)` (the documented header names), else the display format -/
def shown (first : Bool) (c : XCell) : Str := if first then (match c with | .empty => [] | c => pyStr c) else display c

def gridTokens (p : Char → Bool) : List (List XCell) → List Str
  | [] => []
  | f :: rest => f.flatMap (fun c => tokens p (shown true c)) ++ rest.flatMap (fun r => r.flatMap (fun c => tokens p (shown false c)))

/-- sheet name (documented decoration), then the cell display texts in row-major order -/
def sheetTokens (p : Char → Bool) (s : XSheet) : List Str := tokens p s.name ++ gridTokens p s.rows

/-- the first used row has no empty cell inside the used width -/
def firstRowFull (p : Char → Bool) (rows : List (List XCell)) : Bool :=
  match trimRows p rows with
  | [] => true
  | first :: rest => decide (width p (first :: rest) ≤ first.length) && (first.take (width p (first :: rest))).all (nonEmpty p)

/-! rendering one worksheet part (inline strings, numbers, booleans; an empty cell is a `<c r="…"/>` element) -/

def colName (i : Nat) : Str :=
  if i < 26 then [Char.ofNat (65 + i)] else [Char.ofNat (65 + (i / 26 - 1) % 26), Char.ofNat (65 + i % 26)]

def xmlEsc (s : Str) : Str :=
  s.flatMap (fun c => if c = '&' then "&amp;".toList else if c = '<' then "&lt;".toList else if c = '>' then "&gt;".toList else [c])

def rXCell (r : Nat) (ci : XCell × Nat) : Str :=
  let ref := "r=\"".toList ++ colName ci.2 ++ natDec (r + 1) ++ "\"".toList
  match ci.1 with
  | .empty => "<c ".toList ++ ref ++ "/>".toList
  | .str s => "<c ".toList ++ ref ++ " t=\"inlineStr\"><is><t xml:space=\"preserve\">".toList ++ xmlEsc s ++ "</t></is></c>".toList
  | .int i => "<c ".toList ++ ref ++ "><v>".toList ++ intDec i ++ "</v></c>".toList
  | .bool b => "<c ".toList ++ ref ++ " t=\"b\"><v>".toList ++ (if b then ['1'] else ['0']) ++ "</v></c>".toList
  | .float repr _ => "<c ".toList ++ ref ++ "><v>".toList ++ repr ++ "</v></c>".toList

def renderSheetXml (rows : List (List XCell)) : Str :=
  "<worksheet xmlns=\"http://schemas.openxmlformats.org/spreadsheetml/2006/main\"><sheetData>".toList
    ++ rows.zipIdx.flatMap (fun ri => "<row r=\"".toList ++ natDec (ri.2 + 1) ++ "\">".toList
        ++ ri.1.zipIdx.flatMap (rXCell ri.2) ++ "</row>".toList)
    ++ "</sheetData></worksheet>".toList

end XlsxDoc

/-! ## EPUB chapters, rendered to the handler calls `HTMLParser.feed` makes (and to XHTML text for the real parser) -/
namespace EpubDoc
open S2T.HtmlSkip (Ev)
abbrev HT := S2T.HtmlSkip.Tables

/-- hidden content of a removed element: text, a nested element of the SAME name (the skip counter), another element -/
inductive Hid where
  | text (s : Str)
  | same (s : Str)
  | other (tag : Nat) (s : Str)
  deriving Repr

inductive EInl where
  | text (s : Str)
  | el (tag : Nat) (kids : List EInl)            -- inline element (b / i / span / em / a)
  | removed (tag : Nat) (hidden : List Hid)      -- an element of REMOVE_TAGS
  | br
  deriving Repr

structure EBlk where
  tag : Nat                                      -- index into `blockTags`
  kids : List EInl
  deriving Repr

structure Chapter where
  title : Str                                    -- <title> (not chapter text)
  blocks : List EBlk
  deriving Repr

def inlineTags : List Str := ["b", "i", "span", "em", "a"].map String.toList
def blockTags : List Str := ["p", "div", "h1", "li", "blockquote", "section"].map String.toList
def inlineTag (t : Nat) : Str := inlineTags.getD (t % 5) []
def blockTag (t : Nat) : Str := blockTags.getD (t % 6) []
def sBr : Str := "br".toList
def sTitle : Str := "title".toList

/-- the removed tag an index denotes (`remove` = REMOVE_TAGS of the source, sorted) -/
def removeTag (remove : List Str) (t : Nat) : Str := remove.getD (t % remove.length) []

def evHid (tag : Str) : Hid → List Ev
  | .text s => [Ev.data s]
  | .same s => [Ev.start tag [], Ev.data s, Ev.end_ tag]
  | .other t s => [Ev.start (inlineTag t) [], Ev.data s, Ev.end_ (inlineTag t)]

mutual
def evInl (T : HT) : EInl → List Ev
  | .text s => [Ev.data s]
  | .el t kids => Ev.start (inlineTag t) [] :: (evInls T kids ++ [Ev.end_ (inlineTag t)])
  | .removed t hid =>
    let tag := removeTag T.remove t
    if T.void.contains tag then [Ev.start tag []]
    else Ev.start tag [] :: (hid.flatMap (evHid tag) ++ [Ev.end_ tag])
  | .br => [Ev.startend sBr []]
def evInls (T : HT) : List EInl → List Ev
  | [] => []
  | i :: r => evInl T i ++ evInls T r
end

def evBlk (T : HT) (b : EBlk) : List Ev := Ev.start (blockTag b.tag) [] :: (evInls T b.kids ++ [Ev.end_ (blockTag b.tag)])

/-- the handler calls for one chapter document -/
def chapterEvs (T : HT) (c : Chapter) : List Ev :=
  [Ev.start sTitle [], Ev.data c.title, Ev.end_ sTitle] ++ c.blocks.flatMap (evBlk T)

mutual
/-- visible text of inline content (`<br/>` is a line break) -/
def vis : EInl → Str
  | .text s => s
  | .el _ kids => visL kids
  | .removed _ _ => []
  | .br => ['\n']
def visL : List EInl → Str
  | [] => []
  | i :: r => vis i ++ visL r
end

def hidText : Hid → Str
  | .text s => s
  | .same s => s
  | .other _ s => s

mutual
def hiddenOf : EInl → List Str
  | .el _ kids => hiddenOfL kids
  | .removed _ hid => hid.map hidText
  | _ => []
def hiddenOfL : List EInl → List Str
  | [] => []
  | i :: r => hiddenOf i ++ hiddenOfL r
end

/-! XHTML text of the same chapter (what the real parser is fed) -/
def xesc (s : Str) : Str := Html.escape s

def xHid (tag : Str) (cdata : Bool) : Hid → Str
  | .text s => if cdata then s else xesc s
  | .same s => if cdata then s else Html.openTag tag ++ xesc s ++ Html.closeTag tag
  | .other t s => if cdata then s else Html.openTag (inlineTag t) ++ xesc s ++ Html.closeTag (inlineTag t)

mutual
def xInl (T : HT) : EInl → Str
  | .text s => xesc s
  | .el t kids => Html.openTag (inlineTag t) ++ xInls T kids ++ Html.closeTag (inlineTag t)
  | .removed t hid =>
    let tag := removeTag T.remove t
    if T.void.contains tag then '<' :: tag ++ " src=\"x.bin\">".toList
    else
      let cdata := tag = "script".toList ∨ tag = "style".toList
      Html.openTag tag ++ hid.flatMap (xHid tag cdata) ++ Html.closeTag tag
  | .br => "<br/>".toList
def xInls (T : HT) : List EInl → Str
  | [] => []
  | i :: r => xInl T i ++ xInls T r
end

def chapterXhtml (T : HT) (c : Chapter) : Str :=
  "<head><title>".toList ++ xesc c.title ++ "</title></head><body>".toList
    ++ c.blocks.flatMap (fun b => Html.openTag (blockTag b.tag) ++ xInls T b.kids ++ Html.closeTag (blockTag b.tag))
    ++ "</body>".toList

end EpubDoc

end S2T.C02.Sheets
