/-!
# FIPS-197 (AES) and SP 800-38A (ECB, CBC) — specification, transcribed from the standards

Nothing here looks at the Python source.  Bytes are `Nat`s (< 256), the state is the flat
16-byte list `in[r + 4c] = s[r,c]` (FIPS-197 §3.4), a word is a list of 4 bytes.

* GF(2⁸): §4.2 — multiplication of polynomials over GF(2) modulo m(x) = x⁸+x⁴+x³+x+1.
* S-box: §5.1.1 — multiplicative inverse (b²⁵⁴) followed by the affine transformation (5.1/5.2).
* ShiftRows (5.3), MixColumns (5.6) as matrix product, KeyExpansion (Fig. 11), Cipher (Fig. 5),
  InvCipher (Fig. 12), InvShiftRows (5.8), InvMixColumns (5.10), InvSubBytes (§5.3.2).
* ECB / CBC: SP 800-38A §6.1, §6.2, over lists of 16-byte blocks.

Validated in the kernel against FIPS-197 Appendix C.1–C.3, Appendix A/B and SP 800-38A F.1/F.2
in `S2T/Lemmas/AesKat.lean`.
-/
namespace S2T.Spec.Fips197

/-! ## GF(2⁸) -/

/-- product of the polynomials `a` and `b` over GF(2) (`b` of degree < 8): ⊕ over the set bits i of b of a·xⁱ -/
def clmul (a b : Nat) : Nat :=
  (List.range 8).foldl (fun p i => if b.testBit i then p ^^^ (a <<< i) else p) 0

/-- remainder modulo m(x) = x⁸+x⁴+x³+x+1 = 0x11B of a polynomial of degree ≤ 14 -/
def reduce (p : Nat) : Nat :=
  [14, 13, 12, 11, 10, 9, 8].foldl (fun p k => if p.testBit k then p ^^^ (0x11B <<< (k - 8)) else p) p

/-- the product a • b in GF(2⁸) (§4.2) -/
def gmul (a b : Nat) : Nat := reduce (clmul a b)

/-- `strict x k = k x`; written as a match so that kernel evaluation computes `x` once. -/
def strict {α} (x : Nat) (k : Nat → α) : α := match x with | 0 => k 0 | n + 1 => k (n + 1)

theorem strict_eq {α} (x : Nat) (k : Nat → α) : strict x k = k x := by cases x <;> rfl

/-- b²⁵⁴ = b² • b⁴ • … • b¹²⁸, the multiplicative inverse for b ≠ 0, and 0 for b = 0 (§5.1.1).
    That it is the inverse is theorem `gmul_ginv` in `Lemmas/Aes.lean` (all 255 cases). -/
def ginv (a : Nat) : Nat :=
  strict (gmul a a) fun a2 => strict (gmul a2 a2) fun a4 => strict (gmul a4 a4) fun a8 =>
  strict (gmul a8 a8) fun a16 => strict (gmul a16 a16) fun a32 => strict (gmul a32 a32) fun a64 =>
  strict (gmul a64 a64) fun a128 =>
  strict (gmul a2 a4) fun b => strict (gmul b a8) fun b => strict (gmul b a16) fun b =>
  strict (gmul b a32) fun b => strict (gmul b a64) fun b => gmul b a128

/-- rotate a byte left by n bits -/
def rotl8 (x n : Nat) : Nat := ((x <<< n) ||| (x >>> (8 - n))) &&& 0xFF

/-- affine transformation (5.2): b'ᵢ = bᵢ ⊕ b₍ᵢ₊₄₎ ⊕ b₍ᵢ₊₅₎ ⊕ b₍ᵢ₊₆₎ ⊕ b₍ᵢ₊₇₎ ⊕ cᵢ, c = 0x63 -/
def affine (b : Nat) : Nat := b ^^^ rotl8 b 1 ^^^ rotl8 b 2 ^^^ rotl8 b 3 ^^^ rotl8 b 4 ^^^ 0x63

/-- inverse of the affine transformation (§5.3.2): b'ᵢ = b₍ᵢ₊₂₎ ⊕ b₍ᵢ₊₅₎ ⊕ b₍ᵢ₊₇₎ ⊕ dᵢ, d = 0x05 -/
def invAffine (b : Nat) : Nat := rotl8 b 1 ^^^ rotl8 b 3 ^^^ rotl8 b 6 ^^^ 0x05

def sbox (a : Nat) : Nat := affine (ginv a)
def invSbox (a : Nat) : Nat := ginv (invAffine a)

/-- Rcon[i] = x^(i-1) (first byte of the round constant word, §5.2); index 0 is not used. -/
def rcon : Nat → Nat
  | 0 => 0
  | 1 => 1
  | i + 1 => gmul (rcon i) 2

/-! ## transformations of the state (flat list, index r + 4c) -/

def subBytes (s : List Nat) : List Nat := s.map sbox
def invSubBytes (s : List Nat) : List Nat := s.map invSbox

/-- (5.3)  s'[r,c] = s[r, (c + r) mod 4] -/
def shiftRows (s : List Nat) : List Nat :=
  (List.range 16).map fun i => s.getD (i % 4 + 4 * ((i / 4 + i % 4) % 4)) 0

/-- (5.8)  s'[r, (c + r) mod 4] = s[r,c],  i.e.  s'[r,c] = s[r, (c - r) mod 4] -/
def invShiftRows (s : List Nat) : List Nat :=
  (List.range 16).map fun i => s.getD (i % 4 + 4 * ((i / 4 + 4 - i % 4) % 4)) 0

/-- the matrix of (5.6) -/
def mixMatrix : List (List Nat) := [[2, 3, 1, 1], [1, 2, 3, 1], [1, 1, 2, 3], [3, 1, 1, 2]]
/-- the matrix of (5.10) -/
def invMixMatrix : List (List Nat) :=
  [[0x0e, 0x0b, 0x0d, 0x09], [0x09, 0x0e, 0x0b, 0x0d], [0x0d, 0x09, 0x0e, 0x0b], [0x0b, 0x0d, 0x09, 0x0e]]

/-- row • column over GF(2⁸) -/
def dot (row col : List Nat) : Nat := (List.zipWith (fun m a => gmul a m) row col).foldl (· ^^^ ·) 0

/-- every column of the state is multiplied by the matrix `M` -/
def matColumns (M : List (List Nat)) (s : List Nat) : List Nat :=
  (List.range 4).flatMap fun c => M.map fun row => dot row ((s.drop (4 * c)).take 4)

def mixColumns (s : List Nat) : List Nat := matColumns mixMatrix s
def invMixColumns (s : List Nat) : List Nat := matColumns invMixMatrix s

def addRoundKey (s k : List Nat) : List Nat := List.zipWith (· ^^^ ·) s k

/-! ## key expansion (Fig. 11) -/

def rotWord (w : List Nat) : List Nat := w.drop 1 ++ w.take 1
def subWord (w : List Nat) : List Nat := w.map sbox
def xorWords (a b : List Nat) : List Nat := List.zipWith (· ^^^ ·) a b

/-- one step of the `while i < Nb*(Nr+1)` loop: append w[i] -/
def expandStep (nk : Nat) (w : List (List Nat)) (i : Nat) : List (List Nat) :=
  let temp := w.getD (i - 1) []
  let temp :=
    if i % nk = 0 then xorWords (subWord (rotWord temp)) [rcon (i / nk), 0, 0, 0]
    else if nk > 6 ∧ i % nk = 4 then subWord temp
    else temp
  w ++ [xorWords (w.getD (i - nk) []) temp]

def Nk (key : List Nat) : Nat := key.length / 4
def Nr (key : List Nat) : Nat := Nk key + 6

/-- the key schedule: 4·(Nr+1) words -/
def keyExpansion (key : List Nat) : List (List Nat) :=
  let nk := Nk key
  let w0 := (List.range nk).map fun i => (key.drop (4 * i)).take 4
  (List.range' nk (4 * (Nr key + 1) - nk)).foldl (expandStep nk) w0

/-- round key `r` = words w[4r .. 4r+3] -/
def roundKey (w : List (List Nat)) (r : Nat) : List Nat := ((w.drop (4 * r)).take 4).flatten

/-! ## Cipher (Fig. 5) and InvCipher (Fig. 12), for a round-key function `rk` -/

def cipherRK (rk : Nat → List Nat) (nr : Nat) (inp : List Nat) : List Nat :=
  let s := addRoundKey inp (rk 0)
  let s := (List.range' 1 (nr - 1)).foldl
    (fun s r => addRoundKey (mixColumns (shiftRows (subBytes s))) (rk r)) s
  addRoundKey (shiftRows (subBytes s)) (rk nr)

def invCipherRK (rk : Nat → List Nat) (nr : Nat) (inp : List Nat) : List Nat :=
  let s := addRoundKey inp (rk nr)
  let s := (List.range' 1 (nr - 1)).reverse.foldl
    (fun s r => invMixColumns (addRoundKey (invSubBytes (invShiftRows s)) (rk r))) s
  addRoundKey (invSubBytes (invShiftRows s)) (rk 0)

/-- AES-128/192/256 encryption of one block under `key` (16/24/32 bytes) -/
def aesEnc (key blk : List Nat) : List Nat := cipherRK (roundKey (keyExpansion key)) (Nr key) blk
def aesDec (key blk : List Nat) : List Nat := invCipherRK (roundKey (keyExpansion key)) (Nr key) blk

/-! ## SP 800-38A modes over lists of blocks -/

def ecbEncrypt (key : List Nat) (blocks : List (List Nat)) : List (List Nat) := blocks.map (aesEnc key)
def ecbDecrypt (key : List Nat) (blocks : List (List Nat)) : List (List Nat) := blocks.map (aesDec key)

/-- C₁ = CIPH(P₁ ⊕ IV), Cⱼ = CIPH(Pⱼ ⊕ Cⱼ₋₁) -/
def cbcEncrypt (key : List Nat) : List Nat → List (List Nat) → List (List Nat)
  | _, [] => []
  | prev, p :: rest =>
    let c := aesEnc key (xorWords p prev)
    c :: cbcEncrypt key c rest

/-- P₁ = CIPH⁻¹(C₁) ⊕ IV, Pⱼ = CIPH⁻¹(Cⱼ) ⊕ Cⱼ₋₁ -/
def cbcDecrypt (key : List Nat) : List Nat → List (List Nat) → List (List Nat)
  | _, [] => []
  | prev, c :: rest => xorWords (aesDec key c) prev :: cbcDecrypt key c rest

/-! ## PKCS#7 (RFC 5652 §6.3) for block size `k` -/

def pkcs7Pad (k : Nat) (m : List Nat) : List Nat :=
  let p := k - m.length % k
  m ++ List.replicate p p

end S2T.Spec.Fips197
