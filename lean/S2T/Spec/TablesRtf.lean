import S2T.Model.TablesRtf
/-!
Spec side of C13 for RTF: what a source document is (paragraphs and tables; a table = rows of cells, a cell =
its paragraphs), what `iterate_tables()` must return for it, and how it is written down as RTF text — the token
language `\trowd \cellxN… \pard\intbl <text> \par <text> \cell … \row` that word processors write (one `\cellx` per
cell, `\intbl` paragraphs, `\par` between the paragraphs of a cell, characters above 127 as `\uN?` with signed 16 bit
numbers, characters above U+FFFF as two such escapes).
-/
namespace S2T.Tables.Rtf
open S2T.HtmlSkip (Str)
open S2T.Tables

abbrev RCell := List Str            -- paragraphs
abbrev RRow := List RCell
abbrev RTable := List RRow

inductive RBlk where
  | para (text : Str)
  | table (t : RTable)

/-! ## what must come back -/

/-- text of a cell: its paragraphs, one per line -/
def cellSpec (c : RCell) : Str := joinWith ['\n'] c

/-- the grid of a table: own rows × own cells -/
def gridSpec (t : RTable) : Grid := t.map (fun row => row.map cellSpec)

/-- RTF tables are returned rectangular (`_save_table`): a ragged table comes back with its short rows filled up
    with empty cells; for an r × c table this is the identity (`saveTable_rect`) -/
def tableSpec (t : RTable) : Grid := saveTable (gridSpec t)

def RBlk.tables : RBlk → List Grid
  | .para _ => []
  | .table t => [tableSpec t]

/-! ## writing -/

def digitChar (d : Nat) : Char := Char.ofNat (48 + d)

/-- decimal digits of `n` (fuel = n + 1 suffices) -/
def toDecAux : Nat → Nat → Str
  | 0, _ => []
  | fuel + 1, n => if n < 10 then [digitChar n] else toDecAux fuel (n / 10) ++ [digitChar (n % 10)]
def toDec (n : Nat) : Str := toDecAux (n + 1) n

/-- `\uN?` for one UTF-16 code unit, N signed 16 bit -/
def escUnit (u : Nat) : Str :=
  if u < 32768 then '\\' :: 'u' :: (toDec u ++ ['?']) else '\\' :: 'u' :: '-' :: (toDec (65536 - u) ++ ['?'])

def escChar (c : Char) : Str :=
  if c == '\\' || c == '{' || c == '}' then ['\\', c]
  else if c.toNat < 128 then [c]
  else if c.toNat < 65536 then escUnit c.toNat
  else escUnit (0xD800 + (c.toNat - 0x10000) / 1024) ++ escUnit (0xDC00 + (c.toNat - 0x10000) % 1024)

def esc (s : Str) : Str := s.flatMap escChar

def sPar : Str := "\\par ".toList
def sCellEnd : Str := "\\cell ".toList
def sCellStart : Str := "\\pard\\intbl ".toList

def cellxs : Nat → Nat → Str
  | _, 0 => []
  | i, n + 1 => "\\cellx".toList ++ toDec (1500 * (i + 1)) ++ cellxs (i + 1) n

def cellRtf (c : RCell) : Str := sCellStart ++ joinWith sPar (c.map esc) ++ sCellEnd

def rowRtf (r : RRow) : Str :=
  "\\trowd".toList ++ cellxs 0 r.length ++ [' '] ++ r.flatMap cellRtf ++ "\\row".toList

def tableRtf (t : RTable) : Str := t.flatMap (fun r => rowRtf r ++ ['\n'])

def paraRtf (s : Str) : Str := "\\pard ".toList ++ esc s ++ "\\par\n".toList

def RBlk.rtf : RBlk → Str
  | .para s => paraRtf s
  | .table t => tableRtf t

def header : Str := "{\\rtf1\\ansi\\deff0 {\\fonttbl{\\f0 Times New Roman;}}\n".toList

def docRtf (doc : List RBlk) : Str := header ++ doc.flatMap RBlk.rtf ++ ['}']

/-! ## row layouts: every separator the format allows between the table tokens

A control word ends at a space (which belongs to it), at the next backslash or brace, or at a line end; CR / LF between
tokens mean nothing, and any run of tokens may stand in a group.  A `RowLayout` names what the writer puts into every
slot of a row; `RowLayout.default` is the layout of `rowRtf` followed by a line end (`rowRtfL_default`). -/

structure RowLayout where
  /-- behind `\trowd` (more row-definition control words) -/
  defsOpen : Str
  /-- between two `\cellxN` -/
  cellxSep : Str
  /-- behind the last `\cellxN` -/
  defsClose : Str
  /-- in front of the paragraphs of a cell (`\pard\intbl` + delimiter); ending in `{` it opens a group that is closed
      in front of `\cell` -/
  cellOpen : Str
  /-- between the paragraphs of a cell -/
  par : Str
  /-- in front of the whole cell: empty, or `{` — a group around the cell INCLUDING its `\cell` (`{\pard\intbl a\cell}`,
      so that a brace follows `\cell`) -/
  cellWrap : Str
  /-- `\cell` and what follows it -/
  cellEnd : Str
  /-- in front of `\trowd`: empty, or `{` (closed behind `\row`) -/
  rowOpen : Str
  /-- between the last cell and `\row`: nothing, `\pard\intbl`, or the row definition once more (`\trowd\cellxN…`, as
      Word writes it: two `\trowd` in front of one `\row`) -/
  beforeRow : Str
  /-- behind `\row` (and the closing brace) -/
  rowEnd : Str

def RowLayout.default : RowLayout :=
  { defsOpen := [], cellxSep := [], defsClose := [' '], cellOpen := sCellStart, par := sPar, cellWrap := [], cellEnd := sCellEnd,
    rowOpen := [], beforeRow := [], rowEnd := ['\n'] }

def closeOf (s : Str) : Str := if s.getLast? == some '{' then ['}'] else []

def cellxsL (sep : Str) : Nat → Nat → Str
  | _, 0 => []
  | i, n + 1 => "\\cellx".toList ++ toDec (1500 * (i + 1)) ++ ((if n = 0 then [] else sep) ++ cellxsL sep (i + 1) n)

def cellRtfL (L : RowLayout) (c : RCell) : Str :=
  L.cellWrap ++ L.cellOpen ++ joinWith L.par (c.map esc) ++ closeOf L.cellOpen ++ L.cellEnd ++ closeOf L.cellWrap

def rowRtfL (L : RowLayout) (r : RRow) : Str :=
  L.rowOpen ++ "\\trowd".toList ++ L.defsOpen ++ cellxsL L.cellxSep 0 r.length ++ L.defsClose ++ r.flatMap (cellRtfL L) ++ L.beforeRow ++
    "\\row".toList ++ closeOf L.rowOpen ++ L.rowEnd

abbrev LTable := List (RowLayout × RRow)

def tableRtfL (t : LTable) : Str := t.flatMap (fun lr => rowRtfL lr.1 lr.2)

inductive LBlk where
  | para (text : Str)
  | table (t : LTable)

def LBlk.rtf : LBlk → Str
  | .para s => paraRtf s
  | .table t => tableRtfL t

def LBlk.tables : LBlk → List Grid
  | .para _ => []
  | .table t => [tableSpec (t.map (·.2))]

def docRtfL (doc : List LBlk) : Str := header ++ doc.flatMap LBlk.rtf ++ ['}']

/-! ## the cell texts the theorems speak about -/

/-- a character that the written form carries as itself or as one `\\uN?`: not a backslash or brace (open finding
    `rtf.cell-backslash-brace-mangled`), no white space other than the plain space, inside the BMP -/
def plainChar (c : Char) : Bool :=
  c != '\\' && c != '{' && c != '}' && (c == ' ' || !isPySpace c) && c.toNat < 65536

/-- no 64 hexadecimal digits in a row (open finding `rtf.cell-hex-run-dropped`) -/
def hexRunFree : Str → Bool
  | [] => true
  | c :: r => (((c :: r).takeWhile isHex).length < 64) && hexRunFree r

def noDoubleSpace : Str → Bool
  | a :: b :: r => !(a == ' ' && b == ' ') && noDoubleSpace (b :: r)
  | _ => true

/-- a paragraph of a cell as the theorems take it: not empty, plain characters, words separated by single spaces,
    no space at either end (the extractor normalises white space inside a cell) -/
def plainPara (p : Str) : Bool :=
  !p.isEmpty && p.all plainChar && p.head? != some ' ' && p.getLast? != some ' ' && noDoubleSpace p && hexRunFree p

def plainCell (c : RCell) : Bool := c.all plainPara

/-- text between tables: any characters but backslash and braces, inside the BMP -/
def plainText (s : Str) : Bool := s.all (fun c => c != '\\' && c != '{' && c != '}' && c.toNat < 65536)

end S2T.Tables.Rtf
