import S2T.Model.Tables
/-!
Spec side of C13: what a source document *is* as far as tables are concerned, what
`iterate_tables()` must return for it, and how it is written down in each format (`render`).

A block is a paragraph or a table; a table is a list of rows, a row a list of cells, a cell a
list of blocks (so tables inside cells, to any depth).  `hdr` is the number of leading header
rows (written as `table:table-header-rows` / `<thead>` where the format has such a wrapper).

What the property asks for (`Blk.tables`): the tables in document order (a table before the
tables inside its cells), each one as the grid `rows × cells` of *its own* rows and cells, the
text of a cell being the text of all paragraphs inside that cell, in order.
-/
namespace S2T.Tables
open S2T.HtmlSkip (Str)

inductive Blk (α : Type) where
  | para (a : α)
  | tbl (hdr : Nat) (rows : List (List (List (Blk α))))

abbrev Rows (α : Type) := List (List (List (Blk α)))

section fold
variable {α β : Type}

mutual
/-- structural fold that also hands the original rows to the table case -/
def Blk.fold (fp : α → β) (ft : Nat → Rows α → List (List (List β)) → β) : Blk α → β
  | .para a => fp a
  | .tbl h rows => ft h rows (foldRows fp ft rows)
def foldRows (fp : α → β) (ft : Nat → Rows α → List (List (List β)) → β) : Rows α → List (List (List β))
  | [] => []
  | r :: rs => foldRow fp ft r :: foldRows fp ft rs
def foldRow (fp : α → β) (ft : Nat → Rows α → List (List (List β)) → β) : List (List (Blk α)) → List (List β)
  | [] => []
  | c :: cs => foldCell fp ft c :: foldRow fp ft cs
def foldCell (fp : α → β) (ft : Nat → Rows α → List (List (List β)) → β) : List (Blk α) → List β
  | [] => []
  | b :: bs => Blk.fold fp ft b :: foldCell fp ft bs
end

end fold

/-- flatten three levels -/
def flat3 {γ : Type} (rows : List (List (List (List γ)))) : List γ :=
  rows.flatMap (fun row => row.flatMap (fun cell => cell.flatMap id))

/-- all paragraphs of a block in document order (those of nested tables included) -/
def Blk.paraList {α : Type} : Blk α → List α :=
  Blk.fold (fun a => [a]) (fun _ _ sub => flat3 sub)

/-- paragraphs of a cell -/
def cellParas {α : Type} (cell : List (Blk α)) : List α := cell.flatMap Blk.paraList

/-- a table as the property wants it back: own rows × own cells, `cellText` of each cell -/
def gridOf {α : Type} (cellText : List α → Str) (rows : Rows α) : Grid :=
  rows.map (fun row => row.map (fun cell => cellText (cellParas cell)))

/-- the tables of a block in document order: a table, then the tables inside its cells -/
def Blk.tables {α : Type} (cellText : List α → Str) : Blk α → List Grid :=
  Blk.fold (fun _ => []) (fun _ rows sub => gridOf cellText rows :: flat3 sub)

/-- every table has a row and every row a cell (tables 1..R × 1..C) -/
def Blk.proper {α : Type} : Blk α → Bool :=
  Blk.fold (fun _ => true) (fun _ rows sub =>
    !rows.isEmpty && rows.all (fun row => !row.isEmpty) && sub.all (fun row => row.all (fun cell => cell.all id)))

/-- no table inside a cell -/
def Blk.flat {α : Type} : Blk α → Bool
  | .para _ => true
  | .tbl _ rows => rows.all (fun row => row.all (fun cell => cell.all (fun b => match b with | .para _ => true | .tbl _ _ => false)))

/-! ## Rendering into an element tree -/

/-- the structural vocabulary of one format -/
structure XT where
  tbl : Str
  tr : Str
  tc : Str
  p : Str
  wrapHdr : Option Str       -- wrapper element of the header rows
  wrapBody : Option Str      -- wrapper element of the other rows
  tblPre : List Node         -- children of a table before its rows (tblPr, tblGrid, table-column …)
  trPre : List Node          -- children of a row before its cells (trPr)
  tcPre : List Node          -- children of a cell before its content (tcPr)

def elem (tag : Str) (kids : List Node) : Node := .mk tag [] [] kids []

def wrap (w : Option Str) (l : List Node) : List Node :=
  match w with
  | none => l
  | some t => if l.isEmpty then [] else [elem t l]

def tcNode (X : XT) (content : List Node) : Node := elem X.tc (X.tcPre ++ content)
def trNode (X : XT) (cells : List Node) : Node := elem X.tr (X.trPre ++ cells)
def tblNode (X : XT) (h : Nat) (rows : List Node) : Node :=
  elem X.tbl (X.tblPre ++ wrap X.wrapHdr (rows.take h) ++ wrap X.wrapBody (rows.drop h))

/-- a block as an element (`pn` writes a paragraph) -/
def Blk.render {α : Type} (X : XT) (pn : α → Node) : Blk α → Node :=
  Blk.fold pn (fun h _ sub => tblNode X h (sub.map (fun row => trNode X (row.map (tcNode X)))))

/-! ## DOCX -/

/-- a WordprocessingML paragraph: its runs -/
abbrev DocxPara := List Str

def docxXT (T : DocxTags) (noise : List Node × List Node × List Node) : XT :=
  { tbl := T.tbl, tr := T.tr, tc := T.tc, p := T.p, wrapHdr := none, wrapBody := none,
    tblPre := noise.1, trPre := noise.2.1, tcPre := noise.2.2 }

def wNs : Str := "{http://schemas.openxmlformats.org/wordprocessingml/2006/main}".toList

/-- `<w:p><w:pPr/><w:r><w:t>run</w:t></w:r>…</w:p>` -/
def docxParaNode (T : DocxTags) (runs : DocxPara) : Node :=
  elem T.p (elem (wNs ++ "pPr".toList) [] :: runs.map (fun s => elem (wNs ++ "r".toList) [.mk T.t [] s [] []]))

/-- tblPr + tblGrid, trPr, tcPr -/
def docxNoise : List Node × List Node × List Node :=
  ([elem (wNs ++ "tblPr".toList) [], elem (wNs ++ "tblGrid".toList) [elem (wNs ++ "gridCol".toList) []]],
   [elem (wNs ++ "trPr".toList) [elem (wNs ++ "tblHeader".toList) []]],
   [elem (wNs ++ "tcPr".toList) [elem (wNs ++ "tcW".toList) []]])

/-- `<w:body> blocks <w:sectPr/></w:body>` -/
def docxBody (T : DocxTags) (doc : List (Blk DocxPara)) : Node :=
  elem (wNs ++ "body".toList)
    (doc.map (Blk.render (docxXT T docxNoise) (docxParaNode T)) ++ [elem (wNs ++ "sectPr".toList) []])

/-- text of a DOCX cell: its paragraphs (runs concatenated) joined by newlines -/
def docxCellSpec (ps : List DocxPara) : Str := joinWith ['\n'] (ps.map (fun runs => runs.flatMap id))

/-! ## ODF text documents / presentations -/

/-- inline content of a `text:p` -/
inductive OdfPiece where
  | span (s : Str) (tail : Str)     -- <text:span>s</text:span>tail
  | spaces (tail : Str)             -- <text:s/>tail
  | tab (tail : Str)
  | lineBreak (tail : Str)

/-- a `text:p`: leading text and inline pieces -/
structure OdfPara where
  lead : Str
  pieces : List OdfPiece

def textNs : Str := "{urn:oasis:names:tc:opendocument:xmlns:text:1.0}".toList
def tableNs : Str := "{urn:oasis:names:tc:opendocument:xmlns:table:1.0}".toList

def spanTag : Str := textNs ++ "span".toList
def officeText : Str := "{urn:oasis:names:tc:opendocument:xmlns:office:1.0}text".toList
def colTag : Str := tableNs ++ "table-column".toList

def OdfPiece.node (T : OdfTags) : OdfPiece → Node
  | .span s tl => .mk spanTag [] s [] tl
  | .spaces tl => .mk T.s [] [] [] tl
  | .tab tl => .mk T.tab [] [] [] tl
  | .lineBreak tl => .mk T.lineBreak [] [] [] tl

def OdfPiece.text : OdfPiece → Str
  | .span s tl => s ++ tl
  | .spaces tl => ' ' :: tl
  | .tab tl => '\t' :: tl
  | .lineBreak tl => '\n' :: tl

def odfParaNode (T : OdfTags) (p : OdfPara) : Node := .mk T.p [] p.lead (p.pieces.map (OdfPiece.node T)) []
def OdfPara.text (p : OdfPara) : Str := p.lead ++ p.pieces.flatMap OdfPiece.text

def odfCellSpec (ps : List OdfPara) : Str := joinWith ['\n'] (ps.map OdfPara.text)

def odfXT (T : OdfTags) : XT :=
  { tbl := T.table, tr := T.row, tc := T.cell, p := T.p, wrapHdr := some T.headerRows, wrapBody := none,
    tblPre := [elem colTag []], trPre := [], tcPre := [] }

/-- `<office:text> blocks </office:text>` -/
def odtBody (T : OdfTags) (doc : List (Blk OdfPara)) : Node :=
  elem officeText (doc.map (Blk.render (odfXT T) (odfParaNode T)))

/-! ## PPTX (a `a:tbl` cannot contain a table) -/

inductive PptxPiece where
  | run (s : Str)      -- <a:r><a:rPr/><a:t>s</a:t></a:r>
  | field (s : Str)    -- <a:fld><a:t>s</a:t></a:fld>
  | br                 -- <a:br/>

abbrev PptxPara := List PptxPiece
abbrev PptxTable := List (List (List PptxPara))

def aNs : Str := "{http://schemas.openxmlformats.org/drawingml/2006/main}".toList
def pGraphicFrame : Str := "{http://schemas.openxmlformats.org/presentationml/2006/main}graphicFrame".toList
def pNvPr : Str := "{http://schemas.openxmlformats.org/presentationml/2006/main}nvGraphicFramePr".toList
def aGraphic : Str := aNs ++ "graphic".toList
def aTblPr : Str := aNs ++ "tblPr".toList
def aTblGrid : Str := aNs ++ "tblGrid".toList
def aBodyPr : Str := aNs ++ "bodyPr".toList
def aTcPr : Str := aNs ++ "tcPr".toList
def aPPr : Str := aNs ++ "pPr".toList
def aRPr : Str := aNs ++ "rPr".toList

def PptxPiece.node (T : PptxTags) : PptxPiece → Node
  | .run s => elem T.r [elem aRPr [], .mk T.t [] s [] []]
  | .field s => elem T.fld [.mk T.t [] s [] []]
  | .br => elem T.br []

def PptxPiece.text : PptxPiece → Str
  | .run s => s
  | .field s => s
  | .br => [Char.ofNat 11]

def pptxParaNode (T : PptxTags) (p : PptxPara) : Node :=
  elem T.p (elem aPPr [] :: p.map (PptxPiece.node T))

def pptxCellNode (T : PptxTags) (cell : List PptxPara) : Node :=
  elem T.tc [elem T.txBody (elem aBodyPr [] :: cell.map (pptxParaNode T)), elem aTcPr []]

/-- `<p:graphicFrame><p:nvGraphicFramePr/><a:graphic><a:graphicData uri=…><a:tbl>…` -/
def pptxFrame (T : PptxTags) (t : PptxTable) : Node :=
  elem pGraphicFrame
    [elem pNvPr [],
     elem aGraphic
       [.mk T.graphicData [(sUri, T.tableUri)] []
          [elem T.tbl (elem aTblPr [] :: elem aTblGrid [] ::
             t.map (fun row => elem T.tr (row.map (pptxCellNode T))))] []]]

def pptxCellSpec (cell : List PptxPara) : Str :=
  joinWith ['\n'] (cell.map (fun p => p.flatMap PptxPiece.text))

/-! ## ODP (no tables inside cells) -/

abbrev OdpTable := Nat × List (List (List OdfPara))   -- header-row count, rows

/-- rows of paragraphs as rows of blocks -/
def toBlkRows {α : Type} (rows : List (List (List α))) : Rows α :=
  rows.map (fun row => row.map (fun cell => cell.map Blk.para))

def odpTableNode (T : OdfTags) (t : OdpTable) : Node :=
  Blk.render (odfXT T) (odfParaNode T) (.tbl t.1 (toBlkRows t.2))

/-! ## HTML (dict tree of `_HtmlTreeBuilder`) -/

def hP : Str := "p".toList
def hB : Str := "b".toList
def hTable : Str := "table".toList
def hThead : Str := "thead".toList
def hTbody : Str := "tbody".toList
def hTr : Str := "tr".toList
def hTd : Str := "td".toList
def hRoot : Str := "root".toList
def hHtml : Str := "html".toList
def hHead : Str := "head".toList
def hBody : Str := "body".toList

/-- `<p>lead<b>b1</b>t1<b>b2</b>t2…</p>` -/
structure HPara where
  lead : Str
  pieces : List (Str × Str)

def hParaNode (p : HPara) : Node :=
  .mk hP [] p.lead (p.pieces.map (fun bt => .mk hB [] bt.1 [] bt.2)) []
def HPara.text (p : HPara) : Str := p.lead ++ p.pieces.flatMap (fun bt => bt.1 ++ bt.2)

def htmlXT : XT :=
  { tbl := hTable, tr := hTr, tc := hTd, p := hP, wrapHdr := some hThead, wrapBody := some hTbody,
    tblPre := [], trPre := [], tcPre := [] }

/-- `root > html > (head, body > blocks)` as `_HtmlTreeBuilder` builds it for a written page -/
def htmlRoot (doc : List (Blk HPara)) : Node :=
  .mk hRoot [] [] [elem hHtml [elem hHead [], elem hBody (doc.map (Blk.render htmlXT hParaNode))]] []

def sp : Str := [' ']

/-- all text of a block as `_get_cell_text` sees it: line-ending elements (paragraphs, rows, cells,
    nested tables) kept apart by spaces -/
def Blk.hraw : Blk HPara → Str :=
  Blk.fold HPara.text (fun _ _ sub =>
    sub.flatMap (fun row => sp ++ row.flatMap (fun cell => sp ++ cell.flatMap (fun b => sp ++ b ++ sp) ++ sp) ++ sp))

def hcellRaw (cell : List (Blk HPara)) : Str := cell.flatMap (fun b => sp ++ b.hraw ++ sp)

/-- text of an HTML cell: its content with white space normalised (`strip`, runs collapsed) -/
def hcellText (cell : List (Blk HPara)) : Str := reSubWs (pyStrip (hcellRaw cell))

def Blk.htables : Blk HPara → List Grid :=
  Blk.fold (fun _ => []) (fun _ rows sub => rows.map (fun row => row.map hcellText) :: flat3 sub)

/-- every row has a cell (`_extract_table` drops cell-less rows) -/
def Blk.rowsProper {α : Type} : Blk α → Bool :=
  Blk.fold (fun _ => true) (fun _ rows sub =>
    rows.all (fun row => !row.isEmpty) && sub.all (fun row => row.all (fun cell => cell.all id)))

end S2T.Tables
