import S2T.Model.Serial
/-!
# What C05 says, as decidable predicates / spec functions over the value universe

* `SchemaOk`     — well-formedness of the class table the theorems need (re-decided on the generated schema).
* `WellTyped`    — the value fits the type hints *as far as the deserialiser looks at them*, and is as its
                    constructor leaves it (`__post_init__` fixpoint).  Positions the deserialiser does not
                    traverse are unconstrained.
* `canon`        — the object `from_json(to_json(v))` is supposed to be: `v` itself except that tuples/sets are
                    lists, `bytearray` is `bytes`, dict keys are `str(key)`, and positions the deserialiser does
                    not traverse (a list below an untyped position, …) stay in serialised form.
* `isJson`       — what `json.dumps` accepts and `json.loads` gives back unchanged.
* `noForeign`    — no value of a type unknown to the serialiser (timedelta, Decimal, …) anywhere.
* `dropBinary`   — the value with exactly its binary leaves replaced by `None`.
Core Lean only.
-/
namespace S2T.Serial

def isMarker (s : Str) : Bool := markers.contains s

def nodupStr : List Str → Bool
  | [] => true
  | x :: xs => !xs.contains x && nodupStr xs

def classOk (c : Class) : Bool :=
  nodupStr c.fieldNames
  && c.fieldNames.all (fun n => !isMarker n)
  && !c.name.isEmpty

def SchemaOk (S : Schema) : Bool := S.all classOk

def bytesOk (bs : List Nat) : Bool := bs.all (· < 256)

/-- a strip field holds a `str` that `strip()` leaves alone (what `__post_init__` guarantees after construction) -/
def stripStable (strip? : List Str) (n : Str) (v : PyVal) : Bool :=
  if strip?.contains n then
    match v with
    | .str s => strip s == s
    | _ => false
  else true

mutual
def WellTyped (S : Schema) : Ty → PyVal → Bool
  | _, .none => true
  | _, .bool _ => true
  | _, .int _ => true
  | _, .float _ => true
  | _, .foreign _ => true
  | ty, .str _ =>
      match unwrapOpt ty with
      | .bytes => false | .bytearray => false | .bytesio => false     -- a str there is taken for base64
      | _ => true
  | ty, .bytes bs => (match unwrapOpt ty with | .dict _ _ => false | _ => bytesOk bs)
  | ty, .bytearray bs => (match unwrapOpt ty with | .dict _ _ => false | _ => bytesOk bs)
  | ty, .bytesio bs => (match unwrapOpt ty with | .dict _ _ => false | _ => bytesOk bs)
  | ty, .list xs => (match unwrapOpt ty with | .list t => WellTypedList S t xs | _ => true)
  | ty, .tuple xs => (match unwrapOpt ty with | .list t => WellTypedList S t xs | _ => true)
  | ty, .set xs => (match unwrapOpt ty with | .list t => WellTypedList S t xs | _ => true)
  | ty, .dict kvs =>
      match unwrapOpt ty with
      | .dict _ vt => WellTypedVals S vt kvs            -- keys are free: content
      | .cls _ => false                                  -- a plain dict there is taken for constructor kwargs
      | _ => kvs.all (fun kv => !isMarker (keyStr kv.1)) -- untyped position: THE exclusion (see `C05_roundtrip_partial`)
  | ty, .obj c fs =>
      match unwrapOpt ty with
      | .dict _ _ => false
      | _ =>
        match S.find c with
        | none => false
        | some C => !C.abstract && (fs.map (·.1) == C.fieldNames) && WellTypedFields S C fs
def WellTypedList (S : Schema) (t : Ty) : List PyVal → Bool
  | [] => true
  | x :: xs => WellTyped S t x && WellTypedList S t xs
def WellTypedVals (S : Schema) (t : Ty) : List (Key × PyVal) → Bool
  | [] => true
  | (_, v) :: r => WellTyped S t v && WellTypedVals S t r
def WellTypedFields (S : Schema) (C : Class) : List (Str × PyVal) → Bool
  | [] => true
  | (n, v) :: r => WellTyped S ((C.fieldTy n).getD .any) v && stripStable C.strip n v && WellTypedFields S C r
end

mutual
/-- the object the round trip is supposed to give back -/
def canon (S : Schema) : Ty → PyVal → PyVal
  | _, .none => .none
  | _, .bool b => .bool b
  | _, .int i => .int i
  | _, .float t => .float t
  | _, .str s => .str s
  | _, .foreign n => .foreign n
  | _, .bytes b => .bytes b
  | _, .bytearray b => .bytes b
  | _, .bytesio b => .bytesio b
  | ty, .list xs => (match unwrapOpt ty with | .list t => .list (canonList S t xs) | _ => .list (serList true xs))
  | ty, .tuple xs => (match unwrapOpt ty with | .list t => .list (canonList S t xs) | _ => .list (serList true xs))
  | ty, .set xs => (match unwrapOpt ty with | .list t => .list (canonList S t xs) | _ => .list (serList true xs))
  | ty, .dict kvs =>
      match unwrapOpt ty with
      | .dict _ vt => .dict (normKeys (canonKVs S vt kvs))
      | _ => .dict (normKeys (serKVs true kvs))
  | _, .obj c fs =>
      match S.find c with
      | some C => .obj c (canonFields S C fs)
      | none => ser true (.obj c fs)
def canonList (S : Schema) (t : Ty) : List PyVal → List PyVal
  | [] => []
  | x :: xs => canon S t x :: canonList S t xs
def canonKVs (S : Schema) (t : Ty) : List (Key × PyVal) → List (Key × PyVal)
  | [] => []
  | (k, v) :: r => (.str (keyStr k), canon S t v) :: canonKVs S t r
def canonFields (S : Schema) (C : Class) : List (Str × PyVal) → List (Str × PyVal)
  | [] => []
  | (n, v) :: r => (n, canon S ((C.fieldTy n).getD .any) v) :: canonFields S C r
end

def keysNodup : List (Key × PyVal) → Bool
  | [] => true
  | (k, _) :: r => !(r.map (·.1)).contains k && keysNodup r

mutual
/-- accepted by `json.dumps` (default encoder) and returned unchanged by `json.loads` -/
def isJson : PyVal → Bool
  | .none => true | .bool _ => true | .int _ => true | .float _ => true | .str _ => true
  | .list xs => isJsonList xs
  | .dict kvs => isJsonKVs kvs && keysNodup kvs
  | _ => false
def isJsonList : List PyVal → Bool
  | [] => true
  | x :: xs => isJson x && isJsonList xs
def isJsonKVs : List (Key × PyVal) → Bool
  | [] => true
  | (k, v) :: r => (match k with | .str _ => true | _ => false) && isJson v && isJsonKVs r
end

mutual
def noForeign : PyVal → Bool
  | .foreign _ => false
  | .list xs => noForeignList xs
  | .tuple xs => noForeignList xs
  | .set xs => noForeignList xs
  | .dict kvs => noForeignKVs kvs
  | .obj _ fs => noForeignFields fs
  | _ => true
def noForeignList : List PyVal → Bool
  | [] => true
  | x :: xs => noForeign x && noForeignList xs
def noForeignKVs : List (Key × PyVal) → Bool
  | [] => true
  | (_, v) :: r => noForeign v && noForeignKVs r
def noForeignFields : List (Str × PyVal) → Bool
  | [] => true
  | (_, v) :: r => noForeign v && noForeignFields r
end

mutual
/-- exactly the binary leaves become `None`; nothing else changes -/
def dropBinary : PyVal → PyVal
  | .bytes _ => .none
  | .bytearray _ => .none
  | .bytesio _ => .none
  | .list xs => .list (dropBinaryList xs)
  | .tuple xs => .tuple (dropBinaryList xs)
  | .set xs => .set (dropBinaryList xs)
  | .dict kvs => .dict (dropBinaryKVs kvs)
  | .obj c fs => .obj c (dropBinaryFields fs)
  | .none => .none
  | .bool b => .bool b
  | .int i => .int i
  | .float t => .float t
  | .str s => .str s
  | .foreign n => .foreign n
def dropBinaryList : List PyVal → List PyVal
  | [] => []
  | x :: xs => dropBinary x :: dropBinaryList xs
def dropBinaryKVs : List (Key × PyVal) → List (Key × PyVal)
  | [] => []
  | (k, v) :: r => (k, dropBinary v) :: dropBinaryKVs r
def dropBinaryFields : List (Str × PyVal) → List (Str × PyVal)
  | [] => []
  | (n, v) :: r => (n, dropBinary v) :: dropBinaryFields r
end

/-- class name of a dataclass instance -/
def className : PyVal → Option Str
  | .obj c _ => some c
  | _ => none

end S2T.Serial
