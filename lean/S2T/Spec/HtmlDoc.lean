import S2T.Model.HtmlSkip
/-!
Spec side of C17: what an HTML document *is* as far as removed markup is concerned.

A document is a flat sequence of items.  Visible markup is not required to be well nested
(`open_` and `close` are separate items, so unclosed, stray and mis-nested visible tags are all
documents); a removed element is one item that owns everything between its start tag and the
end tag that closes it.  Its content `junk` is an arbitrary sequence of parser events — text,
void tags, self-closing forms, other removable elements, unbalanced end tags of other names,
comments, CDATA, … — with the one restriction that defines "its content": start/end tags of the
*same* name are balanced inside it, i.e. no end tag inside the content closes the element itself
(`JunkOk`).
-/
namespace S2T.HtmlSkip

inductive Item
  | text (s : Str)                                        -- visible character data
  | open_ (tag : Str) (attrs : Attrs)                     -- `<tag …>` of a tag that is not removed (void or not)
  | close (tag : Str)                                     -- `</tag>` outside any removed element (any name)
  | selfclosed (tag : Str) (attrs : Attrs)                -- `<tag …/>` of a tag that is not removed
  | removed (tag : Str) (attrs : Attrs) (junk : List Ev)  -- `<tag …> junk </tag>`, tag removable and not void
  | removedEmpty (tag : Str) (attrs : Attrs) (selfClosing : Bool)
      -- `<tag …/>` of a removable tag (selfClosing) or `<tag …>` of a removable void tag (`<embed>`)
  | comment (s : Str)
  | decl (s : Str)
  | pi (s : Str)
  | unknownDecl (s : Str)                                 -- `<![CDATA[ … ]]>` and friends

abbrev Doc := List Item

/-- the handler calls `HTMLParser` makes for an item -/
def Item.events : Item → List Ev
  | .text s => [.data s]
  | .open_ t a => [.start t a]
  | .close t => [.end_ t]
  | .selfclosed t a => [.startend t a]
  | .removed t a junk => .start t a :: (junk ++ [.end_ t])
  | .removedEmpty t a sc => if sc then [.startend t a] else [.start t a]
  | .comment s => [.comment s]
  | .decl s => [.decl s]
  | .pi s => [.pi s]
  | .unknownDecl s => [.unknownDecl s]

def events (doc : Doc) : List Ev := doc.flatMap Item.events

/-- what must reach the class-specific part of the handlers: exactly the visible items -/
def Item.downEvents : Item → List DEv
  | .text s => [.data s]
  | .open_ t a => [.start t a]
  | .close t => [.end_ t]
  | .selfclosed t a => [.start t a, .end_ t]
  | _ => []

def downEvents (doc : Doc) : List DEv := doc.flatMap Item.downEvents

/-- the document with every removed element, comment, declaration deleted -/
def Item.isVisible : Item → Bool
  | .text _ | .open_ _ _ | .close _ | .selfclosed _ _ => true
  | _ => false

def strip (doc : Doc) : Doc := doc.filter Item.isVisible

/-- same-name nesting depth inside a removed `tag`, starting at `k` extra open elements of that
    name; `none` when an end tag would close the removed element itself. -/
def bal (tag : Str) : Nat → List Ev → Option Nat
  | k, [] => some k
  | k, .start t _ :: r => if t = tag then bal tag (k + 1) r else bal tag k r
  | k, .end_ t :: r =>
    if t = tag then (match k with | 0 => none | k' + 1 => bal tag k' r) else bal tag k r
  | k, _ :: r => bal tag k r

/-- `junk` is the content of one removed `tag` element -/
def JunkOk (tag : Str) (junk : List Ev) : Bool := bal tag 0 junk == some 0

/-- every-tag nesting depth (what the counter before the repair tracked) -/
def balAll : Nat → List Ev → Option Nat
  | k, [] => some k
  | k, .start _ _ :: r => balAll (k + 1) r
  | k, .end_ _ :: r => (match k with | 0 => none | k' + 1 => balAll k' r)
  | k, _ :: r => balAll k r

def ItemOk (T : Tables) : Item → Bool
  | .text _ => true
  | .open_ t _ => !T.remove.contains t
  | .close _ => true
  | .selfclosed t _ => !T.remove.contains t
  | .removed t _ junk => T.remove.contains t && !T.void.contains t && JunkOk t junk
  | .removedEmpty t _ sc => T.remove.contains t && (sc || T.void.contains t)
  | _ => true

def DocOk (T : Tables) (doc : Doc) : Bool := doc.all (ItemOk T)

def dataOfEv : Ev → List Str
  | .data s => [s]
  | _ => []

def Item.visibleData : Item → List Str
  | .text s => [s]
  | _ => []

/-- strings inside removed elements and comments -/
def Item.hiddenData : Item → List Str
  | .removed _ _ junk => junk.flatMap (fun e => match e with
      | .data s => [s] | .comment s => [s] | .unknownDecl s => [s] | _ => [])
  | .comment s => [s]
  | _ => []

def visibleData (doc : Doc) : List Str := doc.flatMap Item.visibleData
def hiddenData (doc : Doc) : List Str := doc.flatMap Item.hiddenData

def dataOf (l : List DEv) : List Str := l.flatMap (fun e => match e with | .data s => [s] | _ => [])

/-- the removable element names the property statement lists -/
def specRemovable : List Str :=
  ["script".toList, "style".toList, "noscript".toList, "iframe".toList, "object".toList,
   "embed".toList, "applet".toList]

/-- void elements of the HTML standard (§13.1.2) plus the obsolete `param` -/
def stdVoid : List Str :=
  ["area".toList, "base".toList, "br".toList, "col".toList, "embed".toList, "hr".toList,
   "img".toList, "input".toList, "link".toList, "meta".toList, "param".toList, "source".toList,
   "track".toList, "wbr".toList]

/-- the property's own reading of an item, independent of the library's tables -/
def SpecItemOk : Item → Bool
  | .text _ => true
  | .open_ t _ => !specRemovable.contains t
  | .close _ => true
  | .selfclosed t _ => !specRemovable.contains t
  | .removed t _ junk => specRemovable.contains t && !stdVoid.contains t && JunkOk t junk
  | .removedEmpty t _ sc => specRemovable.contains t && (sc || stdVoid.contains t)
  | _ => true

def SpecDocOk (doc : Doc) : Bool := doc.all SpecItemOk

/-- the library tables say what the property statement says -/
def TablesMatchSpec (T : Tables) : Bool :=
  specRemovable.all T.remove.contains && T.remove.all specRemovable.contains
  && specRemovable.all (fun t => T.void.contains t == stdVoid.contains t)

end S2T.HtmlSkip
