import S2T.Py.Paths
import S2T.Py.Records
import S2T.Model.Units
/-!
# Python prelude, units part (`tools/gen/pyfun_units.py`): generators over stored lists, dataclass records,
# `str` methods of the unit code, proof-carrying narrowing, dictionaries keyed by ints

Core Lean only.  Everything here lives in the namespace `S2T.Py.Units`.  Same status as
`S2T/Py/Prelude.lean`: TRUSTED hand models of CPython behaviour, used as the primitive operations of the
translated methods `S2T/Gen/PyUnits.lean`.

## TRUSTED

* `str.strip / lstrip / rstrip / split() / splitlines() / lower()` and `a in b` on strings are NOT re-modelled: the
  translator maps them to the definitions `S2T.Units.strip … isInfixB` the hand model `S2T/Model/Units.lean` uses,
  at the tables of the environment (`Env.tables`; the generated instance `S2T.Gen.Units.tables` is read from the
  running interpreter and tied by the C03 correspondence run).  `sep.join(xs)` is `S2T.Py.strJoin`
  (`S2T/Lemmas/PyUnits.lean` proves `strJoin "\n" = S2T.Units.joinNl`).
* `enumerate(xs, start=k)` (`enumerateFrom`): the pairs `(k, x₀), (k+1, x₁), …`.
* dataclasses are structures GENERATED from `dataclasses.fields` of the running class (one Lean field per
  dataclass field, same name; defaults = the dataclass defaults); a field whose annotation the translator
  cannot map is `Opaque` (it can be copied, nothing else).  `Cls(f=e, …)` is a structure instance;
  `dataclasses.replace(x, f=e)` is `{ x with f := e }`.
* `io.BytesIO(x.getvalue()) if x is not None else None` on such an `Opaque` stream field is `Opaque.copyStream x`, an
  unspecified function of the old value (accepted by the translator in exactly this shape only).
* a `typing.Protocol` parameter (`units: Iterable[UnitInterface]`) is a type variable with a type-class
  constraint whose methods are the translated methods of the implementing classes (static dispatch on the
  element type = dynamic dispatch on a list whose elements have one class).
* narrowing WITHOUT a possible exception: inside `if x:` / `if x is not None:` / `x and …` the use of an
  `Optional` value is `getT x h` / `getS x h`, and `xs[-1]`, `xs[0]`, `xs.pop()` on a list known to be non-empty
  are `lastNE xs h`, `firstNE xs h`, `popNE xs h`, where `h` is the hypothesis of the dominating test (a Lean
  proof term: the kernel checks that the test really implies it).  Nothing is assumed: where no such
  hypothesis is in scope the raising forms of `S2T/Py/Paths.lean` are used.
* `x or d` with `x : Optional[T]`, `d : T` (`orD`).
* `dict` with hashable non-string keys (`int`, tuples): association list in insertion order with unique keys
  (`dContains`, `dGetD`, `dGet?`, `dGetItem` (`KeyError`), `dSet` overwrite-or-append, `dSetDefault`).
* `while xs and …: xs.pop()` is well-founded recursion on `xs.length` (`while_pop_decreasing`, proved).
-/
namespace S2T.Py.Units
open S2T.Py

/-- what the translated unit methods ask the interpreter: the character tables behind the `str` methods
(parameters of the hand model, too) and `str(x)` of an object of unknown type -/
structure Env where
  tables : S2T.Units.Tables
  /-- `str(x)` for an object that is not a `str` (cells of a spreadsheet) -/
  strOfAny : Any → Str

/-- a field whose Python type the translator does not map: the value can be stored and copied, nothing else -/
structure Opaque where
  id : Nat := 0
  deriving DecidableEq, Repr, Inhabited

/-- `io.BytesIO(x.getvalue()) if x is not None else None` for a stream field the translator keeps `Opaque`: a fresh
stream with the content of the old one (or `None`).  Which opaque value that is, is left UNSPECIFIED (a Lean `opaque`
constant, no axiom): a theorem can only use that it is a function of the old value. -/
opaque Opaque.copyStream : Opaque → Opaque

/-! ## enumerate -/

/-- `enumerate(xs, start=k)` -/
def enumerateFrom {α} (k : Int) : List α → List (Int × α)
  | [] => []
  | x :: r => (k, x) :: enumerateFrom (k + 1) r

/-! ## `x or d` on an Optional -/

/-- `x or d` where `x` may be `None` and `d` is a plain value -/
def orD {α} [Truthy α] (x : Option α) (d : α) : α :=
  match x with
  | some v => if truthy v then v else d
  | none => d

/-- `str(x)` where `x` is an object: a `str` is itself -/
def strOf (env : Env) : Any → Str
  | Any.str s => s
  | a => env.strOfAny a

/-! ## narrowing carried by the hypothesis of the dominating test (no exception possible) -/

/-- inside `if x:` -/
def getT {α} [Truthy α] (o : Option α) (h : truthy o = true) : α :=
  match o, h with
  | some a, _ => a

/-- inside `if x is not None:` -/
def getS {α} (o : Option α) (h : o.isSome = true) : α :=
  match o, h with
  | some a, _ => a

/-- after / in the `else` of `if x is None:` -/
def getN {α} (o : Option α) (h : ¬ (o.isNone = true)) : α :=
  match o, h with
  | some a, _ => a
  | none, h => absurd rfl h

/-- in the `else` of `if not x:` -/
def getNT {α} [Truthy α] (o : Option α) (h : ¬ ((!truthy o) = true)) : α :=
  match o, h with
  | some a, _ => a
  | none, h => absurd (by simp [truthy]) h

/-- `xs[-1]` where `xs` is known to be non-empty -/
def lastNE {α} (xs : List α) (h : truthy xs = true) : α :=
  xs.getLast (by intro e; subst e; simp [truthy] at h)

/-- `xs[0]` where `xs` is known to be non-empty -/
def firstNE {α} (xs : List α) (h : truthy xs = true) : α :=
  xs.head (by intro e; subst e; simp [truthy] at h)

/-- `xs[-1]` after `if not xs: return …` -/
def lastNT {α} (xs : List α) (h : ¬ ((!truthy xs) = true)) : α :=
  xs.getLast (by intro e; subst e; simp [truthy] at h)

/-- `xs[0]` after `if not xs: return …` -/
def firstNT {α} (xs : List α) (h : ¬ ((!truthy xs) = true)) : α :=
  xs.head (by intro e; subst e; simp [truthy] at h)

/-- the list after `xs.pop()` where `xs` is known to be non-empty -/
def popNE {α} (xs : List α) (_h : truthy xs = true) : List α := xs.dropLast

/-- `a and b` where `b` is only evaluated (and only makes sense) when `a` holds -/
theorem dand_left {a : Bool} {b : a = true → Bool} (h : (if h1 : a = true then b h1 else false) = true) : a = true := by
  split at h
  · assumption
  · cases h

theorem while_pop_decreasing {α} (xs : List α) (h : truthy xs = true) : (popNE xs h).length < xs.length := by
  cases xs with
  | nil => simp [truthy] at h
  | cons x r => simp [popNE]

/-! ## references to the elements of a local list of objects

`for u in units: … matched = u … matched.images.append(x)` changes an object that the list `units` holds.  Lists
are values here, so a variable that holds such an element is translated as its INDEX in the list (`Option Nat`
when it may be `None`); reading an attribute goes through the list (`derefOpt`), `ref.attr.append(x)` re-binds the
list (`refModifyOpt`).  The translator accepts this only while the list is neither re-bound nor popped. -/

def attributeError : Exc := ⟨"AttributeError", ["AttributeError", "Exception", "BaseException"], "", 0⟩
/-- marker: an index that does not point into the list any more (cannot happen while the list only grows); it
matches no `except` clause, so an equivalence theorem can only hold if it never occurs -/
def danglingRef : Exc := ⟨"<dangling reference>", [], "", 0⟩

/-- `for u in xs` together with the position of `u` -/
def withIndex {α} (xs : List α) : List (α × Nat) := xs.zipIdx
/-- `xs[-1]` as a reference (`IndexError` on an empty list) -/
def refLast {α} (xs : List α) : M Nat := if xs.isEmpty then throw pIndexError else pure (xs.length - 1)
/-- `xs[0]` as a reference -/
def refFirst {α} (xs : List α) : M Nat := if xs.isEmpty then throw pIndexError else pure 0
/-- `next((u for u in reversed(xs) if p(u)), …)`: the position of the last element satisfying `p` -/
def refFindLast {α} (p : α → Bool) (xs : List α) : Option Nat :=
  (xs.zipIdx.reverse.find? (fun q => p q.1)).map (·.2)
def deref {α} (xs : List α) (i : Nat) : M α :=
  match xs[i]? with
  | some a => pure a
  | none => throw danglingRef
/-- `r.attr` where `r` may be `None` (`AttributeError`) -/
def derefOpt {α} (xs : List α) (r : Option Nat) : M α :=
  match r with
  | none => throw attributeError
  | some i => deref xs i
/-- the list after an in-place change of the element `i` points to -/
def refModify {α} (xs : List α) (i : Nat) (f : α → α) : M (List α) :=
  if i < xs.length then pure (xs.modify i f) else throw danglingRef
def refModifyOpt {α} (xs : List α) (r : Option Nat) (f : α → α) : M (List α) :=
  match r with
  | none => throw attributeError
  | some i => refModify xs i f
/-- `r or d` on references (an object is always truthy) -/
def refOr (r : Option Nat) (d : M Nat) : M Nat :=
  match r with
  | some i => pure i
  | none => d

/-! ## dictionaries with any hashable key -/

def dGet? {κ β} [BEq κ] (d : List (κ × β)) (k : κ) : Option β := d.lookup k
def dContains {κ β} [BEq κ] (d : List (κ × β)) (k : κ) : Bool := (d.lookup k).isSome
def dGetD {κ β} [BEq κ] (d : List (κ × β)) (k : κ) (dflt : β) : β := (d.lookup k).getD dflt
def dKeyError : Exc := ⟨"KeyError", ["KeyError", "LookupError", "Exception", "BaseException"], "", 0⟩
def dGetItem {κ β} [BEq κ] (d : List (κ × β)) (k : κ) : M β :=
  match d.lookup k with
  | some v => pure v
  | none => throw dKeyError
/-- `d[k] = v`: overwrite in place, or append -/
def dSet {κ β} [BEq κ] (k : κ) (v : β) : List (κ × β) → List (κ × β)
  | [] => [(k, v)]
  | (k', v') :: r => if k' == k then (k, v) :: r else (k', v') :: dSet k v r
/-- the dictionary after `d.setdefault(k, v)` -/
def dSetDefault {κ β} [BEq κ] (d : List (κ × β)) (k : κ) (v : β) : List (κ × β) :=
  if dContains d k then d else dSet k v d

end S2T.Py.Units
