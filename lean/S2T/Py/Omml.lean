import S2T.Py.Paths
import S2T.Model.Omml
/-!
# Python prelude, OMML part (`tools/gen/pyfun_omml.py`): `xml.etree.ElementTree` elements, closures over a
# mutated list, a few more `str` operations

Core Lean only.  Every declaration of this file lives in the namespace `S2T.Py.Omml`.  Same status as
`S2T/Py/Prelude.lean` / `Paths.lean`: TRUSTED hand models of CPython behaviour, used as the primitive operations of the
translated functions of `S2T/Gen/PyOmml.lean`.

## TRUSTED

* `xml.etree.ElementTree.Element` → `Xml` (`tag`, `attrib` = association list with unique keys, `text`, `tail`,
  `children`).  Every node is an element with a `str` tag (comments / processing instructions, whose `tag` is a
  function object, are not modelled: `ET.fromstring` drops them).
  - `for child in elem` / `list(elem)` → `Xml.iter` (the direct children, document order);
  - `elem.tag`, `elem.text` (`None`-able), `elem.get(k)` / `elem.get(k, d)` (`dict.get` on `attrib`: `Xml.get?`, `Xml.getD`);
  - `elem.find(p)` / `elem.findall(p)` for a path `p` that is a CONSTANT at translation time and lies in the ElementPath
    subset `step(/step)*`, `step` = `{uri}local` or `local` without any of ``/ [ ] ( ) @ ! = : * . { } ' "`` and blanks in
    `local` and without `}` / a lone `*` in `uri`.  The translator (not Lean) splits the constant into its steps (`Path`);
    `Xml.findall e ⟨s₁, [s₂, …]⟩` is `xml.etree.ElementPath.iterfind`: start with `[e]`, for every step replace the current
    list by the DIRECT children with exactly that tag of its members (document order, `e.tag == step`); `find` is its first
    element.  Any other path is refused by the translator (a note).
* `x or d` for a `None`-able `x` and a default of the same type (`orOpt`: `d` when `x` is `None` or falsy).
* iteration over a `str` (`strIter`: its characters as one-character strings).
* `sub in s` on strings (`strContains`: substring test, true for the empty `sub`), `s.partition(sep)` (`partition`:
  `ValueError` for an empty separator, `(s, "", "")` when `sep` does not occur, split at the FIRST occurrence otherwise),
  `s.strip()` (`strip`: the code points with `str.isspace()` are the table argument — the generated
  `S2T.Gen.Omml.spaces`, read from the running interpreter), `s * n` (`strRepeat`).
* a `dict` all of whose keys are one-character strings, represented by the generated table `List (Char × β)`
  (`GREEK_TO_LATEX` ↦ `S2T.Gen.Omml.greek`): `k in d` (`cdictContains`), `d[k]` (`cdictGetItem`, `KeyError`); the lookup is
  the hand model's `S2T.Omml.lookup` (REUSED).

## closures (translator rule, see `tools/gen/pyfun_omml.py`)

A nested `def g(...)` that reads / mutates in place a list local `L` of the enclosing function is emitted as a top-level
definition `f.g (params) (L : List _) : M (result × List _)` (state passing); a call `g(a)` is the statement
`let py_c ← f.g a L; L := py_c.2` placed before the statement that contains the call, the call itself is `py_c.1`.
A recursive `g` is defined by WELL-FOUNDED recursion on the size of its element parameter (`termination_by sizeOf elem`);
the decreasing proofs are found by `py_omml_decreasing` from `find`/`findall`/`iter` returning descendants
(`Xml.sizeOf_find_lt`, `Xml.sizeOf_lt_of_mem_findall`, `Xml.sizeOf_lt_of_mem_iter`).  No fuel.

`while L and REST: BODY` where `BODY` pops `L` exactly once, unconditionally, and does not otherwise change it is an
auxiliary definition by well-founded recursion on `L.length` (`py_pop_decreasing`).
-/
namespace S2T.Py.Omml
open S2T.Py

/-! ## ElementTree elements -/

/-- `xml.etree.ElementTree.Element` -/
structure Xml where
  tag : Str
  attrib : List (Str × Str)
  text : Option Str
  tail : Option Str
  children : List Xml

instance : Inhabited Xml := ⟨⟨[], [], none, none, []⟩⟩

/-- a constant ElementPath of the shape `step(/step)*`, split into its steps by the translator -/
structure Path where
  first : Str
  rest : List Str

/-- `for child in elem` -/
def Xml.iter (e : Xml) : List Xml := e.children

/-- one ElementPath child step: the direct children with exactly this tag, of every element of the list -/
def stepAll (xs : List Xml) (t : Str) : List Xml :=
  xs.flatMap (fun x => x.children.filter (fun c => c.tag == t))

/-- `elem.findall(path)` (`ElementPath.iterfind`) -/
def Xml.findall (e : Xml) (p : Path) : List Xml := p.rest.foldl stepAll (stepAll [e] p.first)

/-- `elem.find(path)`: the first match or `None` -/
def Xml.find (e : Xml) (p : Path) : Option Xml := (e.findall p).head?

/-- `elem.get(key)` -/
def Xml.get? (e : Xml) (k : Str) : Option Str := S2T.Omml.lookup k e.attrib
/-- `elem.get(key, default)` -/
def Xml.getD (e : Xml) (k : Str) (d : Str) : Str := (S2T.Omml.lookup k e.attrib).getD d

/-! ## values -/

/-- `x or d` for a `None`-able `x` -/
def orOpt {α} [Truthy α] (x : Option α) (d : α) : α :=
  match x with
  | some v => if truthy v then v else d
  | none => d

/-- `for ch in s` on a `str`: one-character strings -/
def strIter (s : Str) : List Str := s.map (fun c => [c])

/-- `sub in s` on strings -/
def strContains : Str → Str → Bool
  | [], sub => sub.isEmpty
  | c :: r, sub => sub.isPrefixOf (c :: r) || strContains r sub

/-- `(before, after)` of the first occurrence of a non-empty `sep` -/
def partitionAux (sep : Str) : Str → Option (Str × Str)
  | [] => none
  | c :: r =>
    if sep.isPrefixOf (c :: r) then some ([], (c :: r).drop sep.length)
    else (partitionAux sep r).map (fun p => (c :: p.1, p.2))

/-- `s.partition(sep)` -/
def partition (s sep : Str) : M (Str × Str × Str) :=
  if sep.isEmpty then throw pValueError
  else match partitionAux sep s with
    | some (a, b) => pure (a, sep, b)
    | none => pure (s, [], [])

/-- `s.strip()`; `spaces` = the code points `c` with `chr(c).isspace()` -/
def strip (spaces : List Nat) (s : Str) : Str :=
  let sp : Char → Bool := fun c => spaces.contains c.toNat
  ((s.dropWhile sp).reverse.dropWhile sp).reverse

/-- `s * n` -/
def strRepeat (s : Str) (n : Int) : Str := (List.replicate n.toNat s).flatten

/-- `k in d` for a dict whose keys are one-character strings -/
def cdictContains {β} (d : List (Char × β)) (k : Str) : Bool :=
  match k with
  | [c] => (S2T.Omml.lookup c d).isSome
  | _ => false

/-- `d[k]` for a dict whose keys are one-character strings -/
def cdictGetItem {β} (d : List (Char × β)) (k : Str) : M β :=
  match k with
  | [c] => match S2T.Omml.lookup c d with
    | some v => pure v
    | none => throw keyError
  | _ => throw keyError

/-! ## termination of closures that recurse over the tree -/

theorem Xml.sizeOf_lt_of_mem_children {e c : Xml} (h : c ∈ e.children) : sizeOf c < sizeOf e := by
  cases e with
  | mk t a tx tl ch =>
    have : sizeOf c < sizeOf ch := List.sizeOf_lt_of_mem h
    simp only [Xml.mk.sizeOf_spec]
    omega

theorem Xml.sizeOf_lt_of_mem_iter {e c : Xml} (h : c ∈ e.iter) : sizeOf c < sizeOf e :=
  Xml.sizeOf_lt_of_mem_children h

theorem sizeOf_lt_of_mem_stepAll {xs : List Xml} {t : Str} {c : Xml} {n : Nat}
    (hx : ∀ x ∈ xs, sizeOf x ≤ n) (h : c ∈ stepAll xs t) : sizeOf c < n := by
  simp only [stepAll, List.mem_flatMap, List.mem_filter] at h
  obtain ⟨x, hx1, hc, _⟩ := h
  have := Xml.sizeOf_lt_of_mem_children hc
  have := hx x hx1
  omega

theorem sizeOf_lt_of_mem_foldl_stepAll {ts : List Str} {xs : List Xml} {c : Xml} {n : Nat}
    (hx : ∀ x ∈ xs, sizeOf x < n) (h : c ∈ ts.foldl stepAll xs) : sizeOf c < n := by
  induction ts generalizing xs with
  | nil => exact hx c h
  | cons t ts ih =>
    refine ih (xs := stepAll xs t) ?_ h
    intro x hx'
    exact sizeOf_lt_of_mem_stepAll (fun y hy => Nat.le_of_lt (hx y hy)) hx'

/-- everything `findall` returns is a proper descendant -/
theorem Xml.sizeOf_lt_of_mem_findall {e c : Xml} {p : Path} (h : c ∈ e.findall p) : sizeOf c < sizeOf e := by
  refine sizeOf_lt_of_mem_foldl_stepAll (xs := stepAll [e] p.first) ?_ h
  intro x hx
  exact sizeOf_lt_of_mem_stepAll (xs := [e]) (by simp) hx

/-- what `find` returns is `None` or a proper descendant -/
theorem Xml.sizeOf_find_lt (e : Xml) (p : Path) : sizeOf (e.find p) < 1 + sizeOf e := by
  unfold Xml.find
  rcases h : (e.findall p).head? with _ | c
  · show 1 < 1 + sizeOf e
    have : 0 < sizeOf e := by cases e; simp only [Xml.mk.sizeOf_spec]; omega
    omega
  · have := Xml.sizeOf_lt_of_mem_findall (List.mem_of_mem_head? h)
    simp only [Option.some.sizeOf_spec]; omega

/-- decreasing proofs of a closure recursing on `elem.find(..)`, on a child (`for c in elem`), on a member of
    `elem.findall(..)`, or on a member of `x.findall(..)` for such an `x` (any nesting depth) -/
macro "py_omml_decreasing" : tactic => `(tactic| (
  simp_wf
  first
  | exact Xml.sizeOf_find_lt _ _
  | (try simp only [Option.some.sizeOf_spec]
     first
     | exact Nat.add_lt_add_left (Xml.sizeOf_find_lt _ _) 1
     | (repeat (first
          | (have := Xml.sizeOf_lt_of_mem_iter ‹_ ∈ Xml.iter _›; clear ‹_ ∈ Xml.iter _›)
          | (have := Xml.sizeOf_lt_of_mem_findall ‹_ ∈ Xml.findall _ _›; clear ‹_ ∈ Xml.findall _ _›))
        omega))))

/-! ## termination of `while L and …: … L.pop() …` -/

theorem dropLast_length_lt {α} {l : List α} (h : truthy l = true) : l.dropLast.length < l.length := by
  cases l with
  | nil => simp [truthy] at h
  | cons a r => simp [List.length_dropLast]

macro "py_pop_decreasing " h:ident : tactic => `(tactic| (
  simp_wf
  have py_lt := dropLast_length_lt $h
  simp only [List.length_dropLast] at py_lt ⊢
  omega))

end S2T.Py.Omml
