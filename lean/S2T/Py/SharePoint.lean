import S2T.Py.Paths
import S2T.Model.SharePoint
/-!
# Python prelude, fourth part (`tools/gen/pyfun_paths.py`): `sharepoint_io/client.py` filters

Core Lean only.  TRUSTED, like `S2T/Py/Prelude.lean`.

* `datetime` → `DateTime`: an AWARE datetime as microseconds since the epoch (the representation of the hand
  model `S2T.SP`); always truthy; `<`, `≤`, `>`, `≥` compare instants.  (Comparing an aware with a naive
  datetime raises `TypeError` in Python; naive datetimes are outside the model — hypothesis of `S2T.SP`.)
  `d.replace(microsecond=k)`: `ValueError` unless `0 ≤ k < 10^6`, else the same second with `k` microseconds.
* `a, b = xs` on a list (`unpack2`): `ValueError` unless `len(xs) == 2`.
* `s.isascii()` (`strIsAscii`: every code point < 128).
* `s.isdigit()` and `int(s)`: EXACT on strings of ASCII digits (`S2T.SP.isAsciiDigit`, `S2T.SP.digitsVal` —
  the definitions of the hand model, REUSED): `"".isdigit()` is false, `int("")` raises `ValueError`;
  on any other string they are parameters (`SpEnv.isdigitOther`, `SpEnv.intOther`): Unicode digits, signs,
  blanks, underscores are not modelled.
* parameters (`SpEnv`): `str.lower`, `fnmatch.fnmatch`, `datetime.fromisoformat` (may raise).
* records: `SpFileMeta` (`SharePointFileMetadata`), `FileFilter` — the dataclass fields the filter reads.
-/
namespace S2T.Py

structure DateTime where
  /-- microseconds since the epoch -/
  us : Int
  deriving DecidableEq, Repr, Inhabited

instance : Truthy DateTime := ⟨fun _ => true⟩
instance : LT DateTime := ⟨fun a b => a.us < b.us⟩
instance : LE DateTime := ⟨fun a b => a.us ≤ b.us⟩
instance (a b : DateTime) : Decidable (a < b) := inferInstanceAs (Decidable (a.us < b.us))
instance (a b : DateTime) : Decidable (a ≤ b) := inferInstanceAs (Decidable (a.us ≤ b.us))

/-- `d.replace(microsecond=k)` -/
def dtReplaceMicrosecond (d : DateTime) (k : Int) : M DateTime :=
  if 0 ≤ k ∧ k < 1000000 then pure ⟨d.us - d.us % 1000000 + k⟩ else throw pValueError

/-- `a, b = xs` -/
def unpack2 {α} : List α → M (α × α)
  | [a, b] => pure (a, b)
  | _ => throw pValueError

/-- `s.isascii()` -/
def strIsAscii (s : Str) : Bool := s.all (fun c => decide (c.toNat < 128))

/-- `sharepoint_io.client.SharePointFileMetadata` (fields the filter reads) -/
structure SpFileMeta where
  name : Str
  id : Str
  created : Option Str
  lastModified : Option Str
  parentPath : Option Str
  deriving Inhabited

/-- `sharepoint_io.client.FileFilter` -/
structure FileFilter where
  createdAfter : Option DateTime
  createdBefore : Option DateTime
  modifiedAfter : Option DateTime
  modifiedBefore : Option DateTime
  folderPaths : List Str
  pathPatterns : List Str
  extensions : List Str
  deriving Inhabited

/-- what `client.py`'s filter code asks of the standard library -/
structure SpEnv where
  /-- `str.lower` -/
  lower : Str → Str
  /-- `fnmatch.fnmatch(name, pattern)` -/
  fnmatch : Str → Str → Bool
  /-- `datetime.fromisoformat` -/
  fromisoformat : Str → M DateTime
  /-- `str.isdigit` on strings that are not all ASCII -/
  isdigitOther : Str → Bool
  /-- `int(s)` on strings that are not a non-empty run of ASCII digits -/
  intOther : Str → M Int

/-- `s.isdigit()` -/
def SpEnv.isdigit (env : SpEnv) (s : Str) : Bool :=
  if strIsAscii s then !s.isEmpty && s.all S2T.SP.isAsciiDigit else env.isdigitOther s

/-- `int(s)` -/
def SpEnv.intOfStr (env : SpEnv) (s : Str) : M Int :=
  if !s.isEmpty && s.all S2T.SP.isAsciiDigit then pure (S2T.SP.digitsVal s 0 : Nat) else env.intOther s

end S2T.Py
