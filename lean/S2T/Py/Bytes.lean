import S2T.Py.Prelude
/-!
# Python prelude, part 2: non-negative ints, bit operations, lists / bytes, indexing, slices, ranges

Used by the translations produced by `tools/gen/pyfun_aes.py` (`S2T/Gen/PyAes.lean`).  Core Lean only.

## TRUSTED — hand models of CPython behaviour (tied to the implementation only by the C20 correspondence
## runs, which exercise every one of them through the real module functions; not proved)

values
* a Python `int` that the whitelist declares non-negative (`NAT`: every `int` annotation of
  `_pypdf_aes_fallback.py`, every non-negative literal of that module, `len(...)`, elements of `bytes`) → `Nat`.
  `& | ^ << >> + * // %` of non-negative ints are non-negative and are the `Nat` operations
  `&&& ||| ^^^ <<< >>> + * / %` (`//`, `%` by a variable divisor: `natFloorDiv` / `natMod`, `ZeroDivisionError`).
  `a - b` is NOT closed: it is translated as `Int` subtraction of the casts; an `Int` meets a `Nat` only
  through a cast `Nat → Int` (comparisons, indices, slice bounds, `range` bounds, repeat counts).
* `list[int]`, `tuple[int, ...]` → `List Nat`; `bytes`, `bytearray`, `memoryview` → `List Nat` whose elements
  are < 256 by construction (`bytesOfList` / `bytesOfInts` is where CPython checks it: `ValueError`); the
  equivalence theorems carry `IsBytes` for `bytes` PARAMETERS.  `list[bytes]`, `list[list[int]]` → `List (List Nat)`.
* truthiness of a non-negative int: `≠ 0`.

operations
* `l[i]` (`getItem`), `l[i] = v` (`setItem`): Python index resolution (`i < 0` counts from the end), `IndexError`;
  `bytearray[i] = v` (`bytearraySetItem`): first `ValueError` unless `0 ≤ v < 256`, then `IndexError`.
* `l[a:b]`, `l[a:]`, `l[:b]`, `l[:]` (`slice`; bounds `None` or any int, clamped like CPython, step 1 only);
  `ba[a:b] = v` on a bytearray (`setSlice`: replaces `ba[a:max(a,b)]` by `v`, the length may change).
* `range(n)`, `range(a, b)` of non-negative ints (`rangeN`), of ints (`rangeI`), `range(a, b, s)` with a non-zero
  literal step (`rangeStep`), with a variable non-negative step (`rangeStepN`, `ValueError` for step 0).
* `l + m` (`++`), `l * n` / `n * l` (`repeatList`, `n ≤ 0` gives `[]`), `l.append(x)` (`l ++ [x]`),
  `l.extend(m)` (`l ++ m`), `zip` (`List.zip`), `list(x)` / `tuple(x)` / `memoryview(x)` (copies / views of
  immutable data: the identity on the model value), `bytearray(n)` (`List.replicate n 0`),
  `a, b, c, d = l` (`let [a, b, c, d] := l | throw unpackError`: `ValueError` on a length mismatch).
* a generator function is translated to the list of the values it yields (accepted by the translator only when
  every operation that can raise is evaluated before the first `yield`).
* `while v:` with `v >>= k` / `v //= k` as its only assignment to `v`: well-founded recursion on `v`
  (`while_shr_decreasing`, `while_div_decreasing` are the termination arguments — proved below, not trusted).
-/
namespace S2T.Py

def indexError : Exc := ⟨"IndexError", ["IndexError", "LookupError", "Exception", "BaseException"], "", 0⟩
def valueError : Exc := ⟨"ValueError", ["ValueError", "Exception", "BaseException"], "", 0⟩
/-- `a, b = l` with `len(l) ≠ 2`: a `ValueError` raised by the unpacking itself -/
def unpackError : Exc := valueError

instance : Truthy Nat := ⟨fun n => n != 0⟩

/-! ## `//`, `%` on non-negative ints -/

def natFloorDiv (a b : Nat) : M Nat := if b = 0 then throw zeroDivisionError else pure (a / b)
def natMod (a b : Nat) : M Nat := if b = 0 then throw zeroDivisionError else pure (a % b)

/-! ## indexing -/

/-- Python index resolution for a sequence of length `n`: `none` = `IndexError` -/
def normIndex (n : Nat) (i : Int) : Option Nat :=
  if 0 ≤ i then (if i.toNat < n then some i.toNat else none)
  else if 0 ≤ i + (n : Int) then some (i + (n : Int)).toNat else none

/-- `l[i]` -/
def getItem {α} (l : List α) (i : Int) : M α :=
  match normIndex l.length i with
  | some k => match l[k]? with
    | some a => pure a
    | none => throw indexError
  | none => throw indexError

/-- `l[i] = v` on a list -/
def setItem {α} (l : List α) (i : Int) (v : α) : M (List α) :=
  match normIndex l.length i with
  | some k => pure (l.set k v)
  | none => throw indexError

/-- `ba[i] = v` on a bytearray: the value is checked before the index -/
def bytearraySetItem (l : List Nat) (i : Int) (v : Nat) : M (List Nat) :=
  if 256 ≤ v then throw valueError else setItem l i v

/-! ## slices (step 1) -/

/-- a slice bound clamped into `0 .. n` -/
def clampIndex (n : Nat) (i : Int) : Nat :=
  if i < 0 then (i + (n : Int)).toNat else min i.toNat n

def sliceLo (n : Nat) : Option Int → Nat
  | none => 0
  | some i => clampIndex n i
def sliceHi (n : Nat) : Option Int → Nat
  | none => n
  | some i => clampIndex n i

/-- `l[lo:hi]` -/
def slice {α} (l : List α) (lo hi : Option Int) : List α :=
  (l.drop (sliceLo l.length lo)).take (sliceHi l.length hi - sliceLo l.length lo)

/-- `ba[lo:hi] = v` on a bytearray -/
def setSlice {α} (l : List α) (lo hi : Option Int) (v : List α) : List α :=
  l.take (sliceLo l.length lo) ++ v ++ l.drop (max (sliceLo l.length lo) (sliceHi l.length hi))

/-! ## ranges -/

/-- `range(a, b)` on non-negative ints -/
def rangeN (a b : Nat) : List Nat := List.range' a (b - a)
/-- `range(a, b)` on ints -/
def rangeI (a b : Int) : List Int := (List.range (b - a).toNat).map (fun (k : Nat) => a + (k : Int))
/-- `range(a, b, s)`, `s ≠ 0` -/
def rangeStep (a b s : Int) : List Int :=
  if 0 < s then (List.range (((b - a) + s - 1) / s).toNat).map (fun (k : Nat) => a + (k : Int) * s)
  else if s < 0 then (List.range (((a - b) + (-s) - 1) / (-s)).toNat).map (fun (k : Nat) => a + (k : Int) * s)
  else []
/-- `range(a, b, s)` on non-negative ints, variable `s` -/
def rangeStepN (a b s : Nat) : M (List Nat) :=
  if s = 0 then throw valueError else pure (List.range' a ((b - a + s - 1) / s) s)

/-! ## list construction -/

/-- `l * n` -/
def repeatList {α} (l : List α) (n : Int) : List α := (List.replicate n.toNat l).flatten
/-- `bytes(l)` for a list of non-negative ints -/
def bytesOfList (l : List Nat) : M (List Nat) := if l.all (fun b => decide (b < 256)) then pure l else throw valueError
/-- `bytes(l)` for a list of ints -/
def bytesOfInts (l : List Int) : M (List Nat) :=
  if l.all (fun b => decide (0 ≤ b ∧ b < 256)) then pure (l.map Int.toNat) else throw valueError
/-- `bytearray(n)` -/
def bytearrayZeros (n : Nat) : List Nat := List.replicate n 0

/-! ## termination arguments of translated `while` loops -/

theorem while_shr_decreasing {b k : Nat} (hb : b ≠ 0) (hk : 0 < k) : b >>> k < b := by
  rw [Nat.shiftRight_eq_div_pow]
  exact Nat.div_lt_self (by omega) (Nat.one_lt_two_pow (by omega))

theorem while_div_decreasing {b k : Nat} (hb : b ≠ 0) (hk : 1 < k) : b / k < b :=
  Nat.div_lt_self (by omega) hk

theorem truthy_nat (n : Nat) : truthy n = (n != 0) := rfl

/-- closes `v >>> k < v` / `v / k < v` from the loop test `h` (`v`, `v != 0`, `v > 0`, … is true) -/
macro "py_while_decreasing" h:ident : tactic => `(tactic| (
  first
    | exact S2T.Py.while_shr_decreasing (by (try simp [S2T.Py.truthy_nat] at $h:ident) <;> omega) (by decide)
    | exact S2T.Py.while_div_decreasing (by (try simp [S2T.Py.truthy_nat] at $h:ident) <;> omega) (by decide)))

end S2T.Py
