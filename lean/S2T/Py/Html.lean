import S2T.Py.Paths
import S2T.Model.HtmlSkip
/-!
# Python prelude, HTML part (`tools/gen/pyfun_html.py`): objects with identity, parser records

Core Lean only.  Same status as `S2T/Py/Prelude.lean`: TRUSTED hand models of CPython behaviour, used as the
primitive operations of the translated handler methods `S2T/Gen/PyHtmlTree.lean`, `S2T/Gen/PyEpubXhtml.lean`.
Every declaration of this file lives in `S2T.Py.Html`.

## TRUSTED

* **Objects with identity** (`Heap`, `Ref`, `alloc`, `deref`, `store`).  `_HtmlTreeBuilder` keeps its nodes — the
  dicts `{"tag", "attrs", "children", "text", "tail"}` — in several places at once (`self.stack`, the `children`
  list of the parent, `self.last_closed`) and updates them through any of these names, so a node cannot be a
  Lean value.  A dict literal with exactly these keys is an ALLOCATION in the heap held by the parser record
  (`alloc`: the new address is the length of the heap, nothing is ever freed), a variable / list element / field
  holding such a dict is an address (`Ref`), `d["key"]` reads the object at the address (`deref`), `d["key"] += e`
  and `d["key"].append(e)` replace the object at the address (`store`).  Python has no dangling references;
  `deref` of an address outside the heap throws the marker `danglingRef`, which no `except` clause matches, so an
  equivalence theorem can only hold if it never fires.
* the lists `children`, `self.stack` are VALUES (lists of addresses); the translator accepts an in-place
  mutation of a list held in a field / in a heap object only when that list provably has no second name (bound
  to fresh lists only; when it is stored into another container — `self.tables.append(self._current_table)` —
  the field must be re-bound to a fresh list before anything else happens: a MOVE).
* `{k: v for k, v in pairs}` (`dictOfPairs`): insertions in order, a repeated key overwrites the value and keeps
  the position of the first insertion — REUSES `S2T.HtmlSkip.Tree.dictSet` of the hand model.
* `s.strip()` (`strStrip`) and `s.split()` (`strSplitWs`) without arguments: white space is
  `S2T.HtmlSkip.Epub.isPySpace`; `strSplitWs` IS `S2T.HtmlSkip.Epub.pySplit` — both REUSED from the hand model (tied
  to the real `str.split` by the C17 correspondence run).
* records: `TreeBuilder` (`_HtmlTreeBuilder`: its own fields + the heap of its nodes), `XhtmlExtractor`
  (`_XhtmlTextExtractor`).  `html.parser.HTMLParser`'s own state (`rawdata`, `lasttag`, `cdata_elem`, …) is not part
  of the records: no handler reads or writes it.
-/
namespace S2T.Py.Html
open S2T.Py

/-- the address of an object (the definitions below say `Nat`, so that `omega` sees the order on addresses) -/
abbrev Ref := Nat
/-- the objects allocated so far; the address of an object is its position -/
abbrev Heap (α : Type) := List α

/-- marker: an address outside the heap was dereferenced (cannot happen in Python) -/
def danglingRef : Exc := ⟨"<dangling reference>", [], "", 0⟩

/-- evaluation of an object literal: (address of the new object, heap after the allocation) -/
def alloc {α} (h : Heap α) (o : α) : Nat × Heap α := (h.length, h ++ [o])
/-- the object at an address -/
def deref {α} (h : Heap α) (r : Nat) : M α :=
  match h[r]? with
  | some o => pure o
  | none => throw danglingRef
/-- replace the object at an address (emitted only after a successful `deref` of the same address) -/
def store {α} (h : Heap α) (r : Nat) (o : α) : Heap α := h.set r o

/-- the dict `{"tag": …, "attrs": …, "children": …, "text": …, "tail": …}` of `_HtmlTreeBuilder` -/
structure NodeObj where
  tag : Str
  attrs : List (Str × Str)
  children : List Nat
  text : Str
  tail : Str
  deriving Inhabited, Repr, DecidableEq

/-- `_HtmlTreeBuilder`: the fields `__init__` assigns, and the heap its node dicts live in -/
structure TreeBuilder where
  heap : Heap NodeObj
  root : Nat
  stack : List Nat
  skipDepth : Int
  skipTag : Option Str
  lastClosed : Option Nat
  deriving Inhabited, Repr

/-- `_XhtmlTextExtractor`: the fields `__init__` assigns -/
structure XhtmlExtractor where
  textParts : List Str
  skipDepth : Int
  skipTag : Option Str
  inBlock : Bool
  tables : List (List (List Str))
  currentTable : List (List Str)
  currentRow : List Str
  currentCell : List Str
  inTable : Bool
  inCell : Bool
  title : Str
  inTitle : Bool
  deriving Inhabited, Repr

/-- `{k: v for k, v in pairs}` -/
def dictOfPairs (l : List (Str × Str)) : List (Str × Str) :=
  l.foldl (fun d kv => S2T.HtmlSkip.Tree.dictSet d kv.1 kv.2) []

/-- `s.strip()` -/
def strStrip (s : Str) : Str :=
  ((s.dropWhile S2T.HtmlSkip.Epub.isPySpace).reverse.dropWhile S2T.HtmlSkip.Epub.isPySpace).reverse

/-- `s.split()` -/
def strSplitWs (s : Str) : List Str := S2T.HtmlSkip.Epub.pySplit s

end S2T.Py.Html
