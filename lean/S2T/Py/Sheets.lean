import S2T.Py.Bytes
import S2T.Py.Records
import S2T.Model.Tables
import S2T.Model.C02OdfRtf
/-!
# Python prelude for the sheet shaping code (`tools/gen/pyfun_sheets.py`)

Primitive operations of the translations `S2T/Gen/PyOdsSheet.lean` and `S2T/Gen/PyXlsxSheet.lean`, on top of
`S2T/Py/Prelude.lean`, `Bytes.lean` (`rangeI`, `rangeStep`, `repeatList`, `setItem`) and `Paths.lean`
(`listGetItem`, `listAppend`, `listPop`, `strJoin`, `pSlice`).  Core Lean only.  Every declaration of this file is in
the namespace `S2T.Py.Sheets`.

## TRUSTED — hand models of CPython / stdlib behaviour (tied to the implementation by the C13 / C02 correspondence
## runs through the hand models that use the same definitions; not proved)

values
* `typing.Any` (a cell value) → `S2T.Tables.Val`, the value type of the C13 hand models: `None`, `str`, `int`,
  `float` (opaque, its `repr`), `bool`, a `datetime` / `date` / `time` (its `isoformat()`), any other object (its
  `str()`).  `None` / `str` / `int` / `bool` embed by the constructors.  `x is None` is `x == Val.none`.
* `isinstance(x, C)` on such a value (`isInstance`, classes `Cls`): `bool` is a subclass of `int`; a `Val.dt` is an
  instance of the three datetime classes of `_DATETIME_TYPES` TOGETHER (the hand models do not distinguish them, and
  the translator only accepts a test against datetime classes that is then used for `.isoformat()`); `None` and
  `Val.other` are instances of none of the classes that can be named.
* `x.m()` on an `Any` that an `isinstance(x, str)` test dominates: `asStr x`; on one that a test against the datetime
  classes dominates: `dtIso x`.  Both raise the marker `notThatType` on another value — it matches no `except`
  clause, so an equivalence theorem can only hold if it never fires (like `unwrap`).
* `xml.etree.ElementTree.Element` → `S2T.Tables.Node` (REUSED): `elem.get(k, d)` (`elemGetD`), `elem.findall(path, NS)`
  = `S2T.Tables.findall tag` with the Clark-notation tag an existing generator resolved from the same literal.
* dataclasses `OdsSheet`, `XlsxSheet`, an openpyxl workbook as the mapping `wb[name]` (association list), opaque `OpenDocumentAnnotation` / `OpenDocumentImage` / `_OdsContext`, openpyxl's worksheet
  reduced to the answer of `iter_rows(values_only=True)`.

operations
* `s.strip()` = `S2T.Tables.pyStrip` (REUSED), `s.rjust(n)` = `S2T.Rtf.rjust` (REUSED; a width ≤ 0 pads nothing),
  `f"{i}"` of an int = decimal digits (`intStr`), `enumerate(xs)`, `sum(ints)`, `max(xs)` / `min(xs)` of a non-empty
  list of ints (`ValueError` on an empty one), `{k: v for …}` = insertion of the pairs in order, a later value for
  an existing key overwrites in place (`dictOfPairs` / `dictSet`, the recursion of the dict model `S2T.Tables.Xls.dictSet`), a list
  comprehension whose element or condition may raise (`filterMapM`: left to right, stops at the first exception).
* `while TEST: BODY` → `whileM measure test body state`: **well-founded recursion on `measure state`, no fuel**.
  The translator picks the measure (the length of the one list the body only pops); an iteration that does not
  decrease it raises the marker `whileNoProgress`, so the choice of the measure is not trusted: an equivalence
  theorem proves that the marker never fires.

parameters (fields of `OdsEnv` / `XlsxEnv`, universally quantified in the theorems): `int(s)` of a string,
`_extract_cell_value`, `_extract_annotations`, `_extract_images` (each returns or raises), `str(x)` of an `Any`,
`_format_value_for_display`.
-/
namespace S2T.Py.Sheets
open S2T.Py S2T.Tables

/-! ## markers -/

/-- a value narrowed by `isinstance` was not of that class (never raised if the narrowing is right) -/
def notThatType : Exc := ⟨"<isinstance-narrowed value of another type>", [], "", 0⟩
/-- an iteration of a translated `while` did not decrease the measure the translator chose -/
def whileNoProgress : Exc := ⟨"<while: the chosen measure did not decrease>", [], "", 0⟩
/-- `max()` / `min()` of an empty sequence -/
def emptySeqError : Exc := ⟨"ValueError", ["ValueError", "Exception", "BaseException"], "", 0⟩

/-! ## `Any` -/

inductive Cls | str | bool | int | float | datetime | date | time
  deriving DecidableEq, Repr

/-- `isinstance(v, c)` -/
def isInst : Val → Cls → Bool
  | .str _, .str => true
  | .bool _, .bool => true
  | .bool _, .int => true
  | .int _, .int => true
  | .flt _, .float => true
  | .dt _, .datetime => true
  | .dt _, .date => true
  | .dt _, .time => true
  | _, _ => false

/-- `isinstance(v, (c1, c2, …))` -/
def isInstance (v : Val) (cs : List Cls) : Bool := cs.any (isInst v)

/-- the `str` a narrowed value is -/
def asStr : Val → M Str
  | .str s => pure s
  | _ => throw notThatType

/-- `v.isoformat()` of a narrowed datetime-like value -/
def dtIso : Val → M Str
  | .dt iso => pure iso
  | _ => throw notThatType

/-! ## elements, records -/

/-- `elem.get(k, d)` -/
def elemGetD (n : Node) (k d : Str) : Str := (n.get k).getD d

/-- `_OdsContext`: passed on to `_extract_images` only -/
structure OdsCtx where
  id : Nat
  deriving Inhabited

/-- `OpenDocumentAnnotation` (opaque here) -/
structure Annot where
  id : Nat
  deriving DecidableEq, Repr, Inhabited

/-- `OpenDocumentImage` (opaque here) -/
structure Image where
  id : Nat
  deriving DecidableEq, Repr, Inhabited

/-- `data_types.OdsSheet` -/
structure OdsSheet where
  name : Str
  data : List (List Val)
  text : Str
  annotations : List Annot
  images : List Image
  deriving Inhabited

/-- an openpyxl worksheet: `list(ws.iter_rows(values_only=True))` -/
structure Worksheet where
  rows : List (List Val)
  deriving Inhabited

/-- `data_types.XlsxSheet` -/
structure XlsxSheet where
  name : Str
  data : List (List Val)
  text : Str
  images : List Image
  deriving Inhabited

/-- what `_extract_sheet` calls and does not define -/
structure OdsEnv where
  /-- `int(s)` -/
  intOfStr : Str → M Int
  /-- `_extract_cell_value(cell)`: `(typed_value, display_text)` -/
  extractCellValue : Node → M (Val × Str)
  /-- `_extract_annotations(cell)` -/
  extractAnnotations : Node → M (List Annot)
  /-- `_extract_images(ctx, table, image_counter)` -/
  extractImages : OdsCtx → Node → Int → M (List Image × Int)

/-- what the XLSX shaping functions call and do not define -/
structure XlsxEnv where
  /-- `str(x)` -/
  strOf : Val → Str
  /-- `_format_value_for_display(x)` -/
  formatValue : Val → M Str

/-! ## strings, ints, lists -/

/-- `f"{i}"` -/
def intStr (i : Int) : Str := (toString i).toList

/-- `s.rjust(w)` -/
def rjust (s : Str) (w : Int) : Str := S2T.Rtf.rjust w.toNat s

def enumFrom {α} : Nat → List α → List (Int × α)
  | _, [] => []
  | k, x :: r => ((k : Int), x) :: enumFrom (k + 1) r

/-- `enumerate(xs)` -/
def enumerate {α} (xs : List α) : List (Int × α) := enumFrom 0 xs

/-- `sum(xs)` -/
def sumInt (xs : List Int) : Int := xs.foldl (· + ·) 0

/-- `max(xs)` -/
def maxOf : List Int → M Int
  | [] => throw emptySeqError
  | x :: r => pure (r.foldl max x)

/-- `min(xs)` -/
def minOf : List Int → M Int
  | [] => throw emptySeqError
  | x :: r => pure (r.foldl min x)

/-- `d[k] = v` (the recursion of the hand model `S2T.Tables.Xls.dictSet`, for any value type) -/
def dictSet {β} (d : List (Str × β)) (k : Str) (v : β) : List (Str × β) :=
  match d with
  | [] => [(k, v)]
  | (k', v') :: r => if k = k' then (k, v) :: r else (k', v') :: dictSet r k v

/-- `{k: v for …}` from the pairs in evaluation order -/
def dictOfPairs {β} (ps : List (Str × β)) : List (Str × β) := ps.foldl (fun d kv => dictSet d kv.1 kv.2) []

/-- `[e for x in xs if c]` when `c` / `e` may raise: `f x = none` drops `x` -/
def filterMapM {α β} (f : α → M (Option β)) : List α → M (List β)
  | [] => pure []
  | x :: r => do
    let y ← f x
    let ys ← filterMapM f r
    pure (match y with | some b => b :: ys | none => ys)

/-! ## `while` -/

/-- `while test: body` on the state `s`: well-founded recursion on `measure s` -/
def whileM {σ} (measure : σ → Nat) (test : σ → M Bool) (body : σ → M σ) (s : σ) : M σ :=
  match test s with
  | .error e => .error e
  | .ok false => .ok s
  | .ok true =>
    match body s with
    | .error e => .error e
    | .ok s' => if measure s' < measure s then whileM measure test body s' else .error whileNoProgress
termination_by measure s

end S2T.Py.Sheets
