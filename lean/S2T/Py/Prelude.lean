import S2T.Model.Router
import S2T.Model.Archive
import S2T.Model.ZipBomb
/-!
# Python prelude for the function-level translator (`tools/gen/pyfun.py`)

The translated functions (`S2T/Gen/Py*.lean`) are Lean `do` blocks in `Except Exc` (or `Id`)
whose primitive operations are the definitions of this file.  Core Lean only.

## TRUSTED — hand models of CPython / stdlib behaviour (tied to the implementation only by the
## existing correspondence runs of C07 / C09 / C11, not proved)

values
* `str`  → `Str = List Char`; `int` → `Int` (unbounded); `bool` → `Bool`; `None`-able → `Option`;
  tuples → products; `dict` → association list with unique keys in insertion order
  (`S2T.Router.lookup`); `set`/`frozenset` → list without duplicates (only `in` and pure `any`/`all`
  are translated on sets, so iteration order cannot be observed).
* truthiness (`Truthy`): `False`, `0`, `""`, `None`, empty list are false.
* `x or y`, `x and y` on values of one type (`orV`, `andV`).

builtins / methods
* `len` (`len`), `int(x)` on an int (`intOfInt`), `bool(x)` (truthiness), `callable(f)` on a bound
  method (always true), `x / y` on ints (`truediv`: `ZeroDivisionError`, `OverflowError` when the
  correctly rounded quotient is not a finite double; the float value itself is opaque, `FloatV`),
* `str.endswith` / `str.startswith` with a string or a tuple of strings, `s[n:]` for a constant `n ≥ 0`,
  `a + b` on strings,
* `dict.get(k, d)`, `dict.get(k)`, `k in dict`, `dict[k]` (`KeyError`), iteration over a dict / `.keys()`
  / `.items()`, `x in frozenset`,
* `float.as_integer_ratio()` / `int.as_integer_ratio()` on a *finite* ratio limit (`Ratio`): total.
  (inf/nan limits are outside the model — this is the hypothesis `S2T.ZipBomb` states.)
* `posixpath`: `splitext` (extension part = `S2T.Router.splitextExt`), `splitdrive` (never a drive),
  `isabs`, `join` (two arguments), `abspath` (cwd from `Env`), `basename`, `dirname`, `sep`
  — all REUSED from `S2T.Router` / `S2T.Archive`, not re-defined.
* `importlib.import_module(p)` succeeds and `getattr(module, name)` returns "the function `name` of
  module `p`", represented by the pair `(p, name)` (`Extractor`); `f is g` on such values is `==`.
* `functools.lru_cache` is transparent (the decorated functions are pure in their argument and `Env`).

parameters (`Env`), not modelled: `str.lower`, `mimetypes.guess_type`, `os.getcwd()`;
`zf.infolist()` is a field of the `ZipFile` argument (its result or the exception it raises).

exceptions: `Exc` carries the class name, the names of its base classes (for `except` matching) and
WHICH `raise` statement of WHICH function fired (`func`, `site` = ordinal of the `raise` statement in
the function, source order).  Exception *messages* and the other constructor arguments are not
modelled (dropped by the translator).
-/
namespace S2T.Py

abbrev Str := S2T.Router.Str

/-! ## exceptions -/

structure Exc where
  /-- `type(e).__name__` -/
  cls : String
  /-- names of `type(e).__mro__` (without `object`) -/
  mro : List String
  /-- function containing the `raise` statement (`""`: raised by a prelude primitive) -/
  func : String
  /-- ordinal of the `raise` statement inside `func` (source order, from 0) -/
  site : Nat
  deriving DecidableEq, Repr

abbrev M := Except Exc

/-- `isinstance(e, C)` by class name -/
def Exc.isa (e : Exc) (c : String) : Bool := e.mro.contains c

def zeroDivisionError : Exc := ⟨"ZeroDivisionError", ["ZeroDivisionError", "ArithmeticError", "Exception", "BaseException"], "", 0⟩
def overflowError : Exc := ⟨"OverflowError", ["OverflowError", "ArithmeticError", "Exception", "BaseException"], "", 0⟩
def keyError : Exc := ⟨"KeyError", ["KeyError", "LookupError", "Exception", "BaseException"], "", 0⟩
/-- marker: a possibly-`None` value reached a place where the translator needs the non-`None`
    type.  Python's behaviour there is not modelled; it matches no `except` clause, so it always
    surfaces in the result and an equivalence theorem can only hold if it never occurs. -/
def noneUsedAsValue : Exc := ⟨"<None used as a value>", [], "", 0⟩

def unwrap {α} : Option α → M α
  | some a => pure a
  | none => throw noneUsedAsValue

/-! ## truthiness, `or`, `and` -/

class Truthy (α : Type) where
  truthy : α → Bool
export Truthy (truthy)

instance : Truthy Bool := ⟨id⟩
instance : Truthy Int := ⟨fun n => n != 0⟩
instance {α} : Truthy (List α) := ⟨fun l => !l.isEmpty⟩
instance {α} [Truthy α] : Truthy (Option α) := ⟨fun o => match o with | none => false | some a => truthy a⟩

/-- `x or y` -/
def orV {α} [Truthy α] (x y : α) : α := if truthy x then x else y
/-- `x and y` -/
def andV {α} [Truthy α] (x y : α) : α := if truthy x then y else x

/-! ## int / float -/

def len {α} (l : List α) : Int := (l.length : Int)
def intOfInt (n : Int) : Int := n

/-- a Python float that is only ever formatted into a message: the exact quotient, no operations -/
structure FloatV where
  num : Int
  den : Int

/-- `a / b` on ints: `ZeroDivisionError`; `OverflowError` ("integer division result too large for a
    float") iff the round-half-even quotient is ≥ 2^1024, i.e. `|a| ≥ |b|·(2^1024 − 2^970)`. -/
def floatOverflowBound : Nat := 2 ^ 1024 - 2 ^ 970
def TruedivOverflows (a b : Int) : Prop := a.natAbs ≥ b.natAbs * floatOverflowBound
instance (a b : Int) : Decidable (TruedivOverflows a b) := inferInstanceAs (Decidable (_ ≥ _))
def truediv (a b : Int) : M FloatV :=
  if b = 0 then throw zeroDivisionError
  else if TruedivOverflows a b then throw overflowError
  else pure ⟨a, b⟩

/-- `limit.as_integer_ratio()` of a finite limit -/
def asIntegerRatio (r : S2T.ZipBomb.Ratio) : Int × Int := ((r.num : Int), (r.den : Int))

/-! ## str -/

def endswith (s suf : Str) : Bool := suf.isSuffixOf s
def startswith (s pre : Str) : Bool := pre.isPrefixOf s
def endswithAny (s : Str) (sufs : List Str) : Bool := sufs.any (fun x => x.isSuffixOf s)
def startswithAny (s : Str) (pres : List Str) : Bool := pres.any (fun x => x.isPrefixOf s)
/-- `s[n:]`, `n ≥ 0` -/
def sliceFrom {α} (s : List α) (n : Nat) : List α := s.drop n

/-! ## dict (association list, unique keys), set (list) -/

def dictGetD {β} (d : List (Str × β)) (k : Str) (dflt : β) : β := (S2T.Router.lookup k d).getD dflt
def dictGet? {β} (d : List (Str × β)) (k : Str) : Option β := S2T.Router.lookup k d
def dictContains {β} (d : List (Str × β)) (k : Str) : Bool := (S2T.Router.lookup k d).isSome
def dictGetItem {β} (d : List (Str × β)) (k : Str) : M β :=
  match S2T.Router.lookup k d with
  | some v => pure v
  | none => throw keyError
def dictKeys {β} (d : List (Str × β)) : List Str := d.map (·.1)
def setContains (s : List Str) (k : Str) : Bool := s.contains k

/-! ## posixpath (reused models) -/

/-- `os.path.splitext`: `(root, ext)` with `root + ext == p`; `ext` is `S2T.Router.splitextExt`. -/
def splitext (p : Str) : Str × Str :=
  let e := S2T.Router.splitextExt p
  (p.take (p.length - e.length), e)
/-- `posixpath.splitdrive`: there are no drives -/
def splitdrive (p : Str) : Str × Str := ([], p)
def isabs (p : Str) : Bool := S2T.Archive.isAbs p
def join (a b : Str) : Str := S2T.Archive.join a b
def basename (p : Str) : Str := S2T.Archive.basename p
def dirname (p : Str) : Str := S2T.Archive.dirname p
def sep : Str := ['/']

/-! ## environment (parameters, not modelled) -/

structure Env where
  /-- `str.lower` -/
  lower : Str → Str
  /-- `mimetypes.guess_type` -/
  guessType : Str → Option Str × Option Str
  /-- `os.getcwd()` -/
  cwd : Str

def abspath (env : Env) (p : Str) : Str := S2T.Archive.abspath env.cwd p

/-! ## records of third-party objects -/

/-- `zipfile.ZipInfo`: the attributes the translated functions read -/
structure ZipInfo where
  filename : Str
  fileSize : Nat
  compressSize : Nat
  isDir : Bool

/-- `zipfile.ZipFile`: `infolist()` returns the list or raises -/
structure ZipFile where
  infolist : M (List ZipInfo)

instance : Inhabited ZipInfo := ⟨⟨[], 0, 0, false⟩⟩

/-! ## lazy import -/

/-- the function `name` of module `path` -/
abbrev Extractor := Str × Str
structure Module where
  path : Str
def importModule (p : Str) : Module := ⟨p⟩
def moduleGetattr (m : Module) (name : Str) : Extractor := (m.path, name)

end S2T.Py
