import S2T.Py.Paths
import S2T.Model.Iface
/-!
# Python prelude, third part (`tools/gen/pyfun_paths.py`): objects of unknown type, dataclass records,
# `pathlib.Path`

Core Lean only.  TRUSTED, like `S2T/Py/Prelude.lean`.

* `typing.Any` → `Any`: `None`, a `str`, an `int`, a `bool`, or some other object (identified by a number).
  The translator embeds `str` / `int` / `bool` / `None` / optional values into it where a list holds objects
  of several types (`Any.str`, `Any.int`, `Any.bool`, `Any.ofOption`); the embeddings are injective.
* `max((… for …), default=d)` / `min(…)` on ints (`maxD`, `minD`).
* dataclasses are structures holding the fields the translated accessors read; `Cls(f=e, …)` is a structure
  instance (missing keywords = the dataclass' constant defaults, read from the running class);
  `self.f = e` in a method is a functional update and the method returns the updated record.
  `TableDim` (`rows`, `columns`), `DataTable` (`data` of TableData / XlsxSheet / OdsSheet / OdtTable / RtfTable),
  `XlsSheet` (`data`: list of dicts), `S2T.Iface.FileMeta` (`FileMetadataInterface`, REUSED from the hand model).
* `pathlib.Path` on POSIX is the hand model `S2T.Iface.PurePath` (`Path(s)` = `parsePath`, `.name`, `.suffix`,
  `.parent`, `str(p)`) — REUSED, tied to the real `pathlib` by the C04 correspondence run.
  `p.exists()` / `p.resolve()` are the operating system: fields of `FsEnv` (they may raise), functions of `str(p)`.
-/
namespace S2T.Py

/-- a Python object as far as the table accessors look at it -/
inductive Any where
  | none
  | str (s : Str)
  | int (n : Int)
  | bool (b : Bool)
  | other (id : Nat)
  deriving DecidableEq, Repr, Inhabited

/-- an optional object is an object (`None` is one) -/
def Any.ofOption : Option Any → Any
  | Option.none => Any.none
  | some a => a

/-- `max(xs, default=d)` -/
def maxD (xs : List Int) (d : Int) : Int :=
  match xs with
  | [] => d
  | x :: r => r.foldl max x

/-- `min(xs, default=d)` -/
def minD (xs : List Int) (d : Int) : Int :=
  match xs with
  | [] => d
  | x :: r => r.foldl min x

/-- `data_types.TableDim` -/
structure TableDim where
  rows : Int
  columns : Int
  deriving DecidableEq, Repr, Inhabited

/-- the table classes whose accessors read `self.data` (a list of rows of objects) -/
structure DataTable where
  data : List (List Any)
  deriving Inhabited

/-- `data_types.XlsSheet`: `data` is a list of records (dict: header ↦ value) -/
structure XlsSheet where
  data : List (List (Str × Any))
  deriving Inhabited

/-- the file system as `pathlib.Path.exists` / `.resolve` see it, as functions of `str(path)` -/
structure FsEnv where
  pathExists : Str → M Bool
  pathResolve : Str → M S2T.Iface.PurePath

instance : Inhabited S2T.Iface.PurePath := ⟨⟨[], []⟩⟩
instance : Inhabited S2T.Iface.FileMeta := ⟨{}⟩

end S2T.Py
