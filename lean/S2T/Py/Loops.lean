import S2T.Py.Bytes
import S2T.Model.Loops
/-!
# Python prelude, part 4: `while` loops as step functions (`tools/gen/pyfun_loops.py`, `S2T/Gen/PyLoops.lean`)

A `while` statement of the library is translated, from its AST, into ONE function

    step (env : Env) (ora : State → Nat → Bool) (s : State) : M (Step State Ret)

on the loop's local state (`State`: the locals assigned in the body that are live at the loop head or after the
loop; `Env`: the locals the loop only reads): evaluate the test, run the body once.  The result says how the
iteration ended (`Step`).  `Step.toOption` is the `Option State` reading (`none` = the loop is left).

`run step m h s` iterates `step` from `s` by WELL-FOUNDED recursion on the measure `m`, given the proof `h` that every
`next` step decreases it — there is no fuel anywhere; `h` is the per-loop VARIANT theorem of
`Props/C12_LoopsSrc.lean`.  It returns the final state, the value of a `return` inside the loop, and the number of
executions of the loop body (the quantity the step-count theorems of `Props/C12_Loops.lean` bound).

## TRUSTED — hand models of CPython / stdlib behaviour used by the translated loop bodies (tied to the
## implementation by the C12 loop correspondence, which runs the real functions; not proved)

* `int.from_bytes(b, "big" | "little")` (`fromBytes`; never raises on bytes, any length), `signed=True`
  (`fromBytesSigned`, two's complement on `len(b)` bytes).
* `struct.unpack(fmt, b)` / `Struct.unpack_from(b, offset)` for formats `<` / `>` followed by codes out of `BHIQbhiq`
  (`unpackU` / `unpackFromU`: all codes unsigned, values as `Nat`; `unpackI` / `unpackFromI`: values as `Int`).
  `struct.error` when the length is not `calcsize(fmt)`, resp. when fewer than `calcsize(fmt)` bytes follow the
  offset (negative offsets count from the end).  A format outside that grammar, or a signed code given to the `U`
  variants, yields the marker `badFormat`, which no `except` clause matches (like `noneUsedAsValue`): an
  equivalence theorem can only hold if it never fires.
* `bytes.find(pat, start)` (`bytesFind`: smallest index `≥ start` (negative `start` counts from the end) at which
  `pat` occurs, else `-1`), `bytes.startswith`, `abs`, `a << n` with an `int` count (`shl`: `ValueError` for a
  negative count), `x or None` (`orNone`).
* the 7z header stream (`self._stream`, a `BytesIO`): the readers `_read_uint8`, `_read_uint32`, `_read_number`,
  `_read_bytes(n)` are NOT translated; their calls inside a translated loop are the hand models `S2T.Loops.readU8`,
  `readU32`, `readNumber`, `readBytes` (REUSED: the functions the C12 theorems about 7z headers are stated on) applied
  to the stream's buffer and the position, which the translation threads through the loop as an extra state field
  (`szReadU8` …: `Bad7zFile` raised in `_read_bytes`, `OverflowError` from `BytesIO.read`).
* OPAQUE values: an expression the translator does not look into (a call of a function that is not translated, an
  attribute of such a value, …) has type `Opaque = Unit`; it may be stored in opaque locals, passed to opaque
  calls and dropped.  A CONDITION on an opaque value is an ORACLE bit `ora s k` (`s` = the state at the start of
  the iteration, `k` = the ordinal of the condition in the loop): every theorem quantifies over ALL oracles, i.e.
  over every possible answer at every state.  Assumed: an opaque call returns (an exception raised by it leaves
  the loop and the function) and does not mutate a tracked value (tracked values are ints, bytes, tuples and
  un-aliased local lists, never passed to an opaque call).
-/
set_option linter.unusedVariables false
namespace S2T.Py.Loops

/-! ## how one iteration ends -/

inductive Step (σ ρ : Type) where
  /-- the body ran to its end (or `continue`): next iteration from this state -/
  | next (s : σ)
  /-- the loop test was false: the loop is left, the state is unchanged -/
  | stop
  /-- `break` inside the body, with the state at that point -/
  | brk (s : σ)
  /-- `return v` inside the body -/
  | ret (r : ρ)
deriving Repr, DecidableEq

/-- `some s'` = one more iteration from `s'`; `none` = the loop exits (test false / `break` / `return`) -/
def Step.toOption {σ ρ} : Step σ ρ → Option σ
  | .next s => some s
  | _ => none

structure Outcome (σ ρ : Type) where
  /-- the loop's locals when it is left -/
  final : σ
  /-- value of a `return` executed inside the loop -/
  result : Option ρ
  /-- number of executions of the loop body (a body left by `break` / `return` counts) -/
  steps : Nat
deriving Repr, DecidableEq

def Outcome.bump {σ ρ} (o : Outcome σ ρ) : Outcome σ ρ := { o with steps := o.steps + 1 }

/-- iterate `step` from `s`; well-founded on `m` by the variant proof `h` -/
def run {σ ρ} (step : σ → M (Step σ ρ)) (m : σ → Nat)
    (h : ∀ s s', step s = Except.ok (Step.next s') → m s' < m s) (s : σ) : M (Outcome σ ρ) :=
  match hs : step s with
  | .error e => .error e
  | .ok .stop => .ok ⟨s, none, 0⟩
  | .ok (.brk s') => .ok ⟨s', none, 1⟩
  | .ok (.ret r) => .ok ⟨s, some r, 1⟩
  | .ok (.next s') =>
    match run step m h s' with
    | .error e => .error e
    | .ok o => .ok o.bump
termination_by m s
decreasing_by exact h s s' hs

section
variable {σ ρ : Type} {step : σ → M (Step σ ρ)} {m : σ → Nat}
  {h : ∀ s s', step s = Except.ok (Step.next s') → m s' < m s} {s : σ}

theorem run_error {e} (hs : step s = .error e) : run step m h s = .error e := by
  rw [run]; split <;> simp_all
theorem run_stop (hs : step s = .ok .stop) : run step m h s = .ok ⟨s, none, 0⟩ := by
  rw [run]; split <;> simp_all
theorem run_brk {s'} (hs : step s = .ok (.brk s')) : run step m h s = .ok ⟨s', none, 1⟩ := by
  rw [run]; split <;> simp_all
theorem run_ret {r} (hs : step s = .ok (.ret r)) : run step m h s = .ok ⟨s, some r, 1⟩ := by
  rw [run]; split <;> simp_all
theorem run_next {s'} (hs : step s = .ok (.next s')) :
    run step m h s = (match run step m h s' with | .error e => .error e | .ok o => .ok o.bump) := by
  rw [run]; split <;> simp_all
end

/-! ## indexing and slicing with non-negative (`Nat`-typed) indices — proved equal to the general forms -/

/-- `l[i]` for `i ≥ 0` -/
def getItemN {α} (l : List α) (i : Nat) : M α :=
  match l[i]? with
  | some a => pure a
  | none => throw indexError

theorem getItemN_eq {α} (l : List α) (i : Nat) : getItemN l i = getItem l (i : Int) := by
  unfold getItemN getItem normIndex
  by_cases h : i < l.length
  · simp [h]
  · simp [h]

/-- `l[a:b]` for `a, b ≥ 0` -/
def sliceN {α} (l : List α) (a b : Nat) : List α := (l.drop a).take (b - a)

theorem clamp_nat (n a : Nat) : clampIndex n (a : Int) = min a n := by
  unfold clampIndex
  have : ¬ ((a : Int) < 0) := by omega
  simp [this]

theorem sliceN_eq {α} (l : List α) (a b : Nat) : sliceN l a b = slice l (some (a : Int)) (some (b : Int)) := by
  simp only [sliceN, slice, sliceLo, sliceHi, clamp_nat]
  by_cases ha : a ≤ l.length
  · rw [Nat.min_eq_left ha]
    by_cases hb : b ≤ l.length
    · rw [Nat.min_eq_left hb]
    · rw [Nat.min_eq_right (show l.length ≤ b by omega)]
      rw [List.take_of_length_le (by simp; omega), List.take_of_length_le (by simp)]
  · rw [Nat.min_eq_right (show l.length ≤ a by omega), List.drop_of_length_le (Nat.le_refl _),
      List.drop_of_length_le (show l.length ≤ a by omega)]
    simp

theorem drop_eq_slice {α} (l : List α) (a : Nat) : l.drop a = slice l (some (a : Int)) none := by
  simp only [slice, sliceLo, sliceHi, clamp_nat]
  by_cases ha : a ≤ l.length
  · rw [Nat.min_eq_left ha, List.take_of_length_le (by simp)]
  · rw [Nat.min_eq_right (show l.length ≤ a by omega), List.drop_of_length_le (Nat.le_refl _),
      List.drop_of_length_le (show l.length ≤ a by omega)]
    simp

theorem take_eq_slice {α} (l : List α) (b : Nat) : l.take b = slice l none (some (b : Int)) := by
  simp only [slice, sliceLo, sliceHi, clamp_nat, List.drop_zero, Nat.sub_zero]
  by_cases hb : b ≤ l.length
  · rw [Nat.min_eq_left hb]
  · rw [Nat.min_eq_right (by omega), List.take_of_length_le (Nat.le_refl _), List.take_of_length_le (by omega)]

/-! ## opaque values -/

abbrev Opaque := Unit
/-- an opaque call: its (tracked) arguments are still evaluated, in order, for their exceptions -/
@[inline] def opq {α} (_ : α) : Opaque := ()

/-! ## ints from bytes -/

/-- little-endian value of a byte string -/
def leNat : List Nat → Nat
  | [] => 0
  | b :: rest => b + 256 * leNat rest
/-- big-endian value of a byte string -/
def beNat (l : List Nat) : Nat := l.foldl (fun acc b => acc * 256 + b) 0

/-- `int.from_bytes(b, "big")` (`big = true`) / `"little"` -/
def fromBytes (big : Bool) (b : List Nat) : Nat := if big then beNat b else leNat b

/-- two's complement reading of `v < 256 ^ size` -/
def toSigned (size : Nat) (v : Nat) : Int :=
  if 2 * v < 256 ^ size then (v : Int) else (v : Int) - ((256 ^ size : Nat) : Int)

/-- `int.from_bytes(b, order, signed=True)` -/
def fromBytesSigned (big : Bool) (b : List Nat) : Int := toSigned b.length (fromBytes big b)

/-! ## struct -/

def structError : Exc := ⟨"struct.error", ["struct.error", "Exception", "BaseException"], "", 0⟩
/-- marker: a struct format outside the modelled grammar (or a signed code where the translation typed the
    fields as non-negative).  Matches no `except` clause. -/
def badFormat : Exc := ⟨"<unmodelled struct format>", [], "", 0⟩

/-- (size in bytes, signed) of a format code -/
def codeOf : Char → Option (Nat × Bool)
  | 'B' => some (1, false) | 'H' => some (2, false) | 'I' => some (4, false) | 'Q' => some (8, false)
  | 'b' => some (1, true) | 'h' => some (2, true) | 'i' => some (4, true) | 'q' => some (8, true)
  | _ => none

/-- `(big-endian?, fields)`; standard sizes, no alignment (`<` / `>` only) -/
def parseFmt (fmt : String) : Option (Bool × List (Nat × Bool)) :=
  match fmt.toList with
  | '<' :: cs => (cs.mapM codeOf).map (fun fs => (false, fs))
  | '>' :: cs => (cs.mapM codeOf).map (fun fs => (true, fs))
  | _ => none

def calcsize (fs : List (Nat × Bool)) : Nat := (fs.map (·.1)).sum

def decodeFields (big : Bool) : List (Nat × Bool) → List Nat → List Int
  | [], _ => []
  | (sz, sg) :: fs, d =>
    (if sg then toSigned sz (fromBytes big (d.take sz)) else (fromBytes big (d.take sz) : Int))
      :: decodeFields big fs (d.drop sz)

/-- `struct.unpack(fmt, b)` -/
def unpackI (fmt : String) (b : List Nat) : M (List Int) :=
  match parseFmt fmt with
  | none => throw badFormat
  | some (big, fs) => if b.length = calcsize fs then pure (decodeFields big fs b) else throw structError

/-- the `size` bytes `unpack_from(d, off)` reads, or `none` (`struct.error`) -/
def windowAt (d : List Nat) (off : Int) (size : Nat) : Option (List Nat) :=
  let o : Int := if off < 0 then off + (d.length : Int) else off
  if o < 0 ∨ (d.length : Int) - o < (size : Int) then none else some ((d.drop o.toNat).take size)

/-- `struct.Struct(fmt).unpack_from(d, off)` / `struct.unpack_from(fmt, d, off)` -/
def unpackFromI (fmt : String) (d : List Nat) (off : Int) : M (List Int) :=
  match parseFmt fmt with
  | none => throw badFormat
  | some (big, fs) =>
    match windowAt d off (calcsize fs) with
    | none => throw structError
    | some w => pure (decodeFields big fs w)

def allUnsigned (fmt : String) : Bool :=
  match parseFmt fmt with
  | none => false
  | some (_, fs) => fs.all (fun f => !f.2)

/-- `struct.unpack` of a format whose codes are all unsigned: the values as non-negative ints -/
def unpackU (fmt : String) (b : List Nat) : M (List Nat) :=
  if allUnsigned fmt then (unpackI fmt b).map (·.map Int.toNat) else throw badFormat

def unpackFromU (fmt : String) (d : List Nat) (off : Int) : M (List Nat) :=
  if allUnsigned fmt then (unpackFromI fmt d off).map (·.map Int.toNat) else throw badFormat

/-! ## bytes methods, small builtins -/

/-- does `pat` occur in `d` at index `i` -/
def occursAt (pat d : List Nat) (i : Nat) : Bool := (d.drop i).take pat.length == pat && i + pat.length ≤ d.length

/-- smallest `j` with `i ≤ j`, `j + len(pat) ≤ len(d)` and `pat` at `j`; searched over the `fuel + 1` candidates from `i` -/
def findGo (pat d : List Nat) : Nat → Nat → Option Nat
  | 0, i => if occursAt pat d i then some i else none
  | fuel + 1, i => if occursAt pat d i then some i else findGo pat d fuel (i + 1)

/-- `d.find(pat, start)` -/
def bytesFind (d pat : List Nat) (start : Int) : Int :=
  let i : Nat := if start < 0 then (start + (d.length : Int)).toNat else start.toNat
  if i > d.length then -1
  else match findGo pat d (d.length - i) i with
    | some j => (j : Int)
    | none => -1

/-- `d.startswith(pat)` on bytes -/
def bytesStartswith (d pat : List Nat) : Bool := pat.isPrefixOf d

/-- `a << n` for a non-negative `a` and an `int` count -/
def shl (a : Nat) (n : Int) : M Nat := if n < 0 then throw valueError else pure (a <<< n.toNat)

/-- `xs.pop()`: `(last element, the list without it)`; `IndexError` on an empty list -/
def listPop {α} (l : List α) : M (α × List α) :=
  match l.getLast? with
  | some a => pure (a, l.dropLast)
  | none => throw indexError

/-! ## the 7z header stream: the hand-modelled readers as primitives -/

/-- `raise Bad7zFile(…)` inside `_read_bytes` (short read) -/
def bad7zFile : Exc := ⟨"Bad7zFile", ["Bad7zFile", "Exception", "BaseException"], "_read_bytes", 0⟩

def szLift {α} : Except S2T.Loops.SzErr α → M α
  | .ok a => pure a
  | .error .bad7z => throw bad7zFile
  | .error .overflow => throw overflowError

/-- `self._read_uint8()` at position `pos` of the buffer `d`: the value and the new position -/
def szReadU8 (d : List Nat) (pos : Nat) : M (S2T.Loops.Rd Nat) := szLift (S2T.Loops.readU8 d pos)
def szReadU32 (d : List Nat) (pos : Nat) : M (S2T.Loops.Rd Nat) := szLift (S2T.Loops.readU32 d pos)
def szReadNumber (d : List Nat) (pos : Nat) : M (S2T.Loops.Rd Nat) := szLift (S2T.Loops.readNumber d pos)
def szReadBytes (d : List Nat) (pos : Nat) (n : Nat) : M (S2T.Loops.Rd (List Nat)) := szLift (S2T.Loops.readBytes d pos n)

/-- `x or None` -/
def orNone {α} [Truthy α] (x : α) : Option α := if truthy x then some x else none

end S2T.Py.Loops
