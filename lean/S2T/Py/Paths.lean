import S2T.Py.Prelude
/-!
# Python prelude, second part (`tools/gen/pyfun_paths.py`): lists, slices, `str.split` / `str.join`

Core Lean only.  Same status as `S2T/Py/Prelude.lean`: TRUSTED hand models of CPython behaviour, used
as the primitive operations of the translated functions `S2T/Gen/Py*.lean`.

## TRUSTED

* `s.split(c)` for a one-character separator `c` (`splitOn`): never empty, `"".split(c) = [""]`, empty
  segments are kept.  `S2T/Lemmas/PyPaths.lean` proves `splitOn '/' = S2T.Spec.Opc.splitSlash`
  (= `S2T.Iface.splitSlash`), the definition the C14 / C04 hand models use and the C14 correspondence
  run ties to the real `str.split`.
* `s.split(c, 1)` (`splitOnce`): one or two pieces, split at the FIRST `c`.
* `sep.join(xs)` (`strJoin`); `strJoin "/" = S2T.Spec.Opc.joinSlash` is proved in the same file.
* `xs.append(x)` (`listAppend`), `xs.pop()` (`listPop`: last element, `IndexError` on an empty list),
  `xs[i]` (`listGetItem`: negative `i` counts from the end, `IndexError` outside).
  Lists are VALUES here; the translator only accepts in-place mutation of a local list that provably
  has no alias (bound to fresh lists only, never stored, passed on or iterated while mutated).
* `x[a:b]` on `str` / `list` (`slice`, any bound missing or negative, CPython's clamping rule).
* `c in s` for a one-character `c` (`strContainsChar`), `s.find(c)` (`strFindChar`, `-1` when absent).
* records: `EpubContext` (`_EpubContext`: the one attribute `resolve_href` reads).
-/
namespace S2T.Py

def pIndexError : Exc := ⟨"IndexError", ["IndexError", "LookupError", "Exception", "BaseException"], "", 0⟩
def pValueError : Exc := ⟨"ValueError", ["ValueError", "Exception", "BaseException"], "", 0⟩

/-! ## str.split / str.join -/

/-- `s.split(c)` for a one-character separator -/
def splitOn (c : Char) : Str → List Str
  | [] => [[]]
  | x :: r =>
    if x = c then [] :: splitOn c r
    else match splitOn c r with
      | [] => [[x]]            -- unreachable: `splitOn` is never empty
      | s :: t => (x :: s) :: t

/-- `s.split(c, 1)`: `[s]` without a `c`, else `[before the first c, after it]` -/
def splitOnce (c : Char) (s : Str) : List Str :=
  if s.contains c then [s.takeWhile (· ≠ c), (s.dropWhile (· ≠ c)).drop 1] else [s]

/-- `sep.join(xs)` -/
def strJoin (sep : Str) : List Str → Str
  | [] => []
  | [s] => s
  | s :: t => s ++ sep ++ strJoin sep t

/-- `c in s` for a one-character string `c` -/
def strContainsChar (s : Str) (c : Char) : Bool := s.contains c

/-- `s.find(c)` for a one-character string `c`: index of the first occurrence, `-1` when absent -/
def strFindChar (s : Str) (c : Char) : Int :=
  match s.findIdx? (· == c) with
  | some i => (i : Int)
  | none => -1

/-! ## lists -/

/-- `xs.append(x)` (the list after the call) -/
def listAppend {α} (xs : List α) (x : α) : List α := xs ++ [x]

/-- `xs.pop()`: (the list after the call, the removed last element) -/
def listPop {α} : List α → M (List α × α)
  | [] => throw pIndexError
  | x :: r => pure ((x :: r).dropLast, (x :: r).getLast (by simp))

/-- index normalisation of `xs[i]` -/
def listGetItem {α} (xs : List α) (i : Int) : M α :=
  let j : Int := if i < 0 then i + xs.length else i
  if j < 0 then throw pIndexError
  else match xs[j.toNat]? with
    | some a => pure a
    | none => throw pIndexError

/-- CPython's `PySlice_AdjustIndices` for step 1: a bound `i` of a sequence of length `n` -/
def pClampIndex (n : Nat) (i : Int) : Nat :=
  if i < 0 then (i + n).toNat else min i.toNat n

/-- `x[a:b]` (`none` = bound omitted) -/
def pSlice {α} (xs : List α) (lo hi : Option Int) : List α :=
  let n := xs.length
  let a := match lo with | none => 0 | some i => pClampIndex n i
  let b := match hi with | none => n | some i => pClampIndex n i
  (xs.take b).drop a

/-! ## records -/

/-- `epub_extractor._EpubContext`: `_opf_dir` (`""` or a directory ending in `/`) -/
structure EpubContext where
  opfDir : Str

instance : Inhabited EpubContext := ⟨⟨[]⟩⟩

end S2T.Py
