import S2T.Drv.Util
import S2T.Gen.Router
namespace S2T.Drv.C07
open Lean S2T.Drv S2T.Router

/-- op `c07.route`: {"pl": lowered path, "mime": str|null} ↦ {"sup": bool, "ext": "module:function" | "ERR:formatNotSupported", "ft": str|null} -/
def route (j : Json) : Except String Json := do
  let pl ← getStr j "pl"
  let mime ← getOptStr j "mime"
  let T := S2T.Gen.Router.tables
  let m := mime.map chars
  let sup := isSupported T (chars pl) m
  let ext := match getExtractor T (chars pl) m with
    | .ok (md, fn) => str md ++ ":" ++ str fn
    | .error .formatNotSupported => "ERR:formatNotSupported"
  let ft := match fileTypeFromExt T (chars pl) with
    | some t => Json.str (str t)
    | none => Json.null
  return Json.mkObj [("sup", Json.bool sup), ("ext", Json.str ext), ("ft", ft)]

def handle (op : String) (j : Json) : Option (Except String Json) :=
  match op with
  | "c07.route" => some (route j)
  | _ => none

end S2T.Drv.C07
