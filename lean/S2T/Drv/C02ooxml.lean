import S2T.Drv.Util
import S2T.Model.OoxmlDocx
import S2T.Model.OoxmlHtml
import S2T.Model.OoxmlPptx
import S2T.Spec.OoxmlDoc
import S2T.Spec.OoxmlHtml
import S2T.Spec.OoxmlDeck
import S2T.Gen.Ooxml
import S2T.Gen.HtmlSkip
namespace S2T.Drv.C02ooxml
open Lean S2T.Drv S2T.C02.Ooxml
open S2T.HtmlSkip.Tree (Node)

/-! Wire formats.
inline : ["t",s] | ["tab"] | ["br"] | ["link",href,[inline…]] | ["ins",[inline…]] | ["del",s] | ["ctl",[inline…]]
       | ["mark",id] | ["box",[block…]]
block  : ["p",style,[inline…]] | ["h",level,[inline…]] | ["list",[[block…]…]] | ["table",[[[block…]…]…]] | ["ctl",[block…]]
xml    : {"t": name, "a": [[k,v]…], "x": text, "k": [xml…]}   name = "#ctor" for a classified tag, else the name
node   : {"tag","attrs":{…},"text","children":[…],"tail"}       (the dict of `_HtmlTreeBuilder`)
-/

def ws : Char → Bool := S2T.Gen.Ooxml.isPySpace

def arrOf (j : Json) : Except String (List Json) := do
  let a ← j.getArr?
  return a.toList

def strAt (a : List Json) (i : Nat) : Except String Str :=
  match a[i]? with
  | some (Json.str s) => .ok (chars s)
  | _ => .error s!"string expected at position {i}"

def jsonAt (a : List Json) (i : Nat) : Except String Json :=
  match a[i]? with
  | some j => .ok j
  | none => .error s!"element expected at position {i}"

mutual
partial def parseInline (j : Json) : Except String Inline := do
  let a ← arrOf j
  let k ← strAt a 0
  match str k with
  | "t" => return .text (← strAt a 1)
  | "tab" => return .tab
  | "br" => return .br
  | "link" => return .link (← strAt a 1) (← parseInlines (← jsonAt a 2))
  | "ins" => return .ins (← parseInlines (← jsonAt a 1))
  | "del" => return .del (← strAt a 1)
  | "ctl" => return .ctl (← parseInlines (← jsonAt a 1))
  | "mark" => return .mark (← strAt a 1)
  | "box" => return .box (← parseBlocks (← jsonAt a 1))
  | other => throw s!"unknown inline kind {other}"
partial def parseInlines (j : Json) : Except String (List Inline) := do
  (← arrOf j).mapM parseInline
partial def parseBlock (j : Json) : Except String Block := do
  let a ← arrOf j
  let k ← strAt a 0
  match str k with
  | "p" => return .para (← strAt a 1) (← parseInlines (← jsonAt a 2))
  | "h" =>
    let lv ← (← jsonAt a 1).getNat?
    return .heading lv (← parseInlines (← jsonAt a 2))
  | "list" => return .list (← (← arrOf (← jsonAt a 1)).mapM parseBlocks)
  | "table" =>
    let rows ← arrOf (← jsonAt a 1)
    return .table (← rows.mapM (fun r => do (← arrOf r).mapM parseBlocks))
  | "ctl" => return .ctl (← parseBlocks (← jsonAt a 1))
  | other => throw s!"unknown block kind {other}"
partial def parseBlocks (j : Json) : Except String (List Block) := do
  (← arrOf j).mapM parseBlock
end

def tagName : Tag → String
  | .alt => "#alt" | .fallback => "#fallback"
  | .other n => str n
  | t => match S2T.Gen.Ooxml.tagNames.find? (fun p => p.1 == t) with
    | some _ => "#" ++ (match t with
        | .wP => "wP" | .wR => "wR" | .wT => "wT" | .wTab => "wTab" | .wBr => "wBr" | .wCr => "wCr"
        | .wTbl => "wTbl" | .wTr => "wTr" | .wTc => "wTc" | .wSdt => "wSdt" | .wSdtContent => "wSdtContent"
        | .wCustomXml => "wCustomXml" | .wTxbxContent => "wTxbxContent" | .choice => "choice"
        | .oMath => "oMath" | .oMathPara => "oMathPara"
        | .aP => "aP" | .aR => "aR" | .aFld => "aFld" | .aT => "aT" | .aBr => "aBr"
        | _ => "?")
    | none => "#?"

mutual
partial def jXml : Xml → Json
  | .node t a x k =>
    Json.mkObj [("t", Json.str (tagName t)),
      ("a", Json.arr (a.map (fun kv => Json.arr #[jStr kv.1, jStr kv.2])).toArray),
      ("x", jStr x), ("k", Json.arr (k.map jXml).toArray)]
end

def classify (name : Str) : Tag := classifyWith S2T.Gen.Ooxml.tagNames name

partial def parseXml (j : Json) : Except String Xml := do
  let t ← getStr j "t"
  let x ← getStr j "x"
  let a ← getArr j "a"
  let attrs ← a.toList.mapM (fun kv => do
    let p ← arrOf kv
    return ((← strAt p 0), (← strAt p 1)))
  let k ← getArr j "k"
  let kids ← k.toList.mapM parseXml
  return .node (classify (chars t)) attrs (chars x) kids

partial def jNode : Node → Json
  | .mk t a tx ch tl =>
    Json.mkObj [("tag", jStr t), ("attrs", Json.mkObj (a.map (fun kv => (str kv.1, jStr kv.2)))),
                ("text", jStr tx), ("children", Json.arr (ch.map jNode).toArray), ("tail", jStr tl)]

partial def parseNode (j : Json) : Except String Node := do
  let t ← getStr j "tag"
  let tx ← getStr j "text"
  let tl ← getStr j "tail"
  let ch ← getArr j "children"
  let kids ← ch.toList.mapM parseNode
  return .mk (chars t) [] (chars tx) kids (chars tl)

def jStrs (l : List Str) : Json := Json.arr (l.map jStr).toArray

/-- op `c02ooxml.docx`: {"doc":[block…]} ↦ rendered body children, model text, legacy-model text, expected words -/
def docxOp (j : Json) : Except String Json := do
  let body ← parseBlocks (← j.getObjVal? "doc")
  let d : Doc := { body := body }
  let kids := Docx.renderBody d
  return Json.mkObj [
    ("xml", Json.arr (kids.map jXml).toArray),
    ("text", jStr (Docx.fullText ws kids)),
    ("legacy", jStr (Docx.Legacy.fullText ws kids)),
    ("words", jStrs (bodyWords fmtDocx ws d)),
    ("out_words", jStrs (words ws (Docx.fullText ws kids)))]

/-- op `c02ooxml.docx_walk`: {"kids":[xml…]} (children of w:body, Clark names) ↦ model text -/
def docxWalkOp (j : Json) : Except String Json := do
  let k ← getArr j "kids"
  let kids ← k.toList.mapM parseXml
  return Json.mkObj [("text", jStr (Docx.fullText ws kids)), ("legacy", jStr (Docx.Legacy.fullText ws kids))]

/-- downstream events of a node tree (what `HTMLParser` reports for its serialisation) -/
partial def nodeEvents (void : List Str) : Node → List S2T.HtmlSkip.DEv
  | .mk t a tx ch tl =>
    let attrs := a.map (fun kv => (kv.1, some kv.2))
    if void.contains t then [.start t attrs] ++ (if tl.isEmpty then [] else [.data tl])
    else [.start t attrs] ++ (if tx.isEmpty then [] else [.data tx]) ++ (ch.flatMap (nodeEvents void)) ++ [.end_ t]
      ++ (if tl.isEmpty then [] else [.data tl])

def jTable (t : List (List Str)) : Json := Json.arr (t.map jStrs).toArray

/-- op `c02ooxml.html`: {"doc":[block…],"title":s} ↦ rendered tree, model text (HTML walker), model text and tables of
    the EPUB event machine on the same markup, expected words -/
def htmlOp (j : Json) : Except String Json := do
  let body ← parseBlocks (← j.getObjVal? "doc")
  let title ← getStr j "title"
  let d : Doc := { body := body }
  let root := Html.renderDoc (chars title) d
  let T := S2T.Gen.Ooxml.html
  -- EPUB machine (C17's model) on the events of the html element
  let htmlNode := match root with | .mk _ _ _ (h :: _) _ => h | n => n
  let evs := nodeEvents S2T.Gen.HtmlSkip.epubVoid htmlNode
  let D := S2T.HtmlSkip.Epub.down S2T.Gen.HtmlSkip.epubBlock
  let st := S2T.HtmlSkip.Down.feed D S2T.HtmlSkip.Epub.initState evs
  return Json.mkObj [
    ("tree", jNode root),
    ("text", jStr (Html.fullText T ws root)),
    ("words", jStrs (Html.htmlWords ws d)),
    ("plain_words", jStrs (bodyWords fmtHtml ws d)),
    ("epub_text", jStr (Html.Epub.getText ws st.textParts)),
    ("epub_tables", Json.arr (st.tables.map jTable).toArray)]

/-- op `c02ooxml.html_walk`: {"tree": node} (the real builder's tree) ↦ model text -/
def htmlWalkOp (j : Json) : Except String Json := do
  let root ← parseNode (← j.getObjVal? "tree")
  return Json.mkObj [("text", jStr (Html.fullText S2T.Gen.Ooxml.html ws root))]

/-- op `c02ooxml.epub_text`: {"parts":[s…]} ↦ `get_text()` -/
def epubTextOp (j : Json) : Except String Json := do
  let a ← getArr j "parts"
  let parts ← a.toList.mapM (fun x => do return chars (← x.getStr?))
  return Json.mkObj [("text", jStr (Html.Epub.getText ws parts))]

def parseRun (j : Json) : Except String Pptx.Run := do
  let a ← arrOf j
  let k ← strAt a 0
  match str k with
  | "t" => return .text (← strAt a 1)
  | "br" => return .br
  | "fld" => return .field (← strAt a 1)
  | other => throw s!"unknown run kind {other}"

def parseParas (j : Json) : Except String (List (List Pptx.Run)) := do
  (← arrOf j).mapM (fun p => do (← arrOf p).mapM parseRun)

def parseRole (r : String) (ty : Str) : Except String Pptx.Role :=
  match r with
  | "title" => .ok .title | "ctrTitle" => .ok .ctrTitle | "body" => .ok .body | "subTitle" => .ok .subTitle
  | "obj" => .ok .obj | "idxOnly" => .ok .idxOnly | "sldNum" => .ok .sldNum | "unknown" => .ok (.unknown ty)
  | "plain" => .ok .plain | "footer" => .ok .footer | "date" => .ok .date | "header" => .ok .header
  | other => .error s!"unknown role {other}"

def parsePos (j : Json) : Except String (Option (Int × Int)) :=
  match j.getObjVal? "pos" with
  | .ok (Json.arr a) =>
    match a[0]?, a[1]? with
    | some y, some x => do return some ((← y.getInt?), (← x.getInt?))
    | _, _ => .error "pos: two integers expected"
  | _ => .ok none

def parseShape (j : Json) : Except String Pptx.PShape := do
  let role ← parseRole (← getStr j "role") (chars ((getStr j "ty").toOption.getD ""))
  let idx ← getStr j "idx"
  let pos ← parsePos j
  match j.getObjVal? "table" with
  | .ok (Json.arr rows) =>
    let rows ← rows.toList.mapM (fun r => do (← arrOf r).mapM parseParas)
    return { role := role, pos := pos, idx := chars idx, body := .table rows }
  | _ =>
    let ps ← parseParas (← j.getObjVal? "paras")
    return { role := role, pos := pos, idx := chars idx, body := .paras ps }

def jShapeBody (s : Pptx.PShape) : Json :=
  match s.body with
  | .paras ps => Json.mkObj [("txBody", jXml (Pptx.renderTxBody "p:txBody" ps))]
  | .table rows => Json.mkObj [("cells", Json.arr (rows.map (fun row =>
      Json.arr (row.map (fun c => jXml (Pptx.renderTxBody "a:txBody" c))).toArray)).toArray)]

/-- op `c02ooxml.pptx`: {"slides":[{"shapes":[shape…]}…]} ↦ per input shape its rendered text body, model text, expected words -/
def pptxOp (j : Json) : Except String Json := do
  let sl ← getArr j "slides"
  let slides ← sl.toList.mapM (fun s => do
    let shapes ← (← getArr s "shapes").toList.mapM parseShape
    return ({ shapes := shapes } : Pptx.Slide))
  let C := S2T.Gen.Ooxml.pptx
  return Json.mkObj [
    ("bodies", Json.arr (slides.map (fun s => Json.arr (s.shapes.map jShapeBody).toArray)).toArray),
    ("text", jStr (Pptx.fullText C ws (slides.map Pptx.renderSlide))),
    ("slide_texts", jStrs (slides.map (fun s => Pptx.baseText C ws (Pptx.renderSlide s)))),
    ("words", jStrs (Pptx.deckWords ws C slides))]

/-- op `c02ooxml.pptx_walk`: {"txBody": xml} ↦ `_extract_text_from_paragraphs` -/
def pptxWalkOp (j : Json) : Except String Json := do
  let x ← parseXml (← j.getObjVal? "txBody")
  return Json.mkObj [("text", jStr (Pptx.parasText x))]

def parseCell : Json → Except String Xlsx.Cell
  | Json.null => .ok none
  | Json.str s => .ok (some (chars s))
  | _ => .error "cell: string or null expected"

/-- op `c02ooxml.xlsx`: {"sheets":[{"name":s,"rows":[[cell…]…]}…]} ↦ model text, per-sheet text, words of the grid -/
def xlsxOp (j : Json) : Except String Json := do
  let sh ← getArr j "sheets"
  let sheets ← sh.toList.mapM (fun s => do
    let name ← getStr s "name"
    let rows ← (← getArr s "rows").toList.mapM (fun r => do (← arrOf r).mapM parseCell)
    return (chars name, rows))
  return Json.mkObj [
    ("text", jStr (Xlsx.fullText ws sheets)),
    ("sheet_texts", jStrs (sheets.map (fun s => Xlsx.formatSheet (Xlsx.allRows ws s.2)))),
    ("all_rows", Json.arr (sheets.map (fun s => Json.arr ((Xlsx.allRows ws s.2).map (fun r =>
        Json.arr (r.map (fun c => match c with | some t => jStr t | none => Json.null)).toArray)).toArray)).toArray)]

def handle (op : String) (j : Json) : Option (Except String Json) :=
  match op with
  | "c02ooxml.docx" => some (docxOp j)
  | "c02ooxml.docx_walk" => some (docxWalkOp j)
  | "c02ooxml.html" => some (htmlOp j)
  | "c02ooxml.html_walk" => some (htmlWalkOp j)
  | "c02ooxml.epub_text" => some (epubTextOp j)
  | "c02ooxml.pptx" => some (pptxOp j)
  | "c02ooxml.pptx_walk" => some (pptxWalkOp j)
  | "c02ooxml.xlsx" => some (xlsxOp j)
  | _ => none

end S2T.Drv.C02ooxml
