import S2T.Drv.Util
import S2T.Gen.SharePoint
import S2T.Model.SharePointRaw
namespace S2T.Drv.C18
open Lean S2T.Drv S2T.SP

def urlT : UrlT :=
  { tokenUrl := S2T.Gen.SharePoint.tokenUrl, siteUrl := S2T.Gen.SharePoint.siteUrl,
    rootPre := S2T.Gen.SharePoint.rootPre, rootPost := S2T.Gen.SharePoint.rootPost,
    itemA := S2T.Gen.SharePoint.itemA, itemB := S2T.Gen.SharePoint.itemB, itemC := S2T.Gen.SharePoint.itemC,
    pathA := S2T.Gen.SharePoint.pathA, pathB := S2T.Gen.SharePoint.pathB }

def optStr (j : Json) (k : String) : Except String (Option Str) := do
  return (← getOptStr j k).map chars

def optInt (j : Json) (k : String) : Except String (Option Int) :=
  match j.getObjVal? k with
  | .ok .null => .ok none
  | .ok v => some <$> v.getInt?
  | .error _ => .ok none

def strArr (j : Json) (k : String) : Except String (List Str) := do
  let a ← getArr j k
  a.toList.mapM (fun x => chars <$> x.getStr?)

/-- a facet as the harness saw it: `null` = member missing, else `{"cc": n | null, "extra": bool}` -/
def parseFacet (j : Json) (k : String) : Except String Facet :=
  match j.getObjVal? k with
  | .ok .null => .ok .absent
  | .error _ => .ok .absent
  | .ok v => do
    let cc ← match v.getObjVal? "cc" with
      | .ok .null => pure none
      | .ok n => some <$> n.getNat?
      | .error _ => pure none
    return .obj cc ((v.getObjValAs? Bool "extra").toOption.getD false)

def flag (j : Json) (k : String) : Bool := (j.getObjValAs? Bool k).toOption.getD false

/-- a RAW item: the members present and the facet shapes; what it IS is decided by the model (`classify`) -/
def parseRaw (j : Json) : Except String RawItem := do
  if !(flag j "dict") then return { isDict := false }
  let id ← match j.getObjVal? "id" with
    | .ok (.str s) => pure (if s.isEmpty then RawId.falsy else RawId.str (chars s))
    | .ok .null => pure (if flag j "hasId" then RawId.falsy else RawId.absent)
    | .error _ => pure RawId.absent
    | .ok _ => throw "raw item: id"
  let o ← j.getObjVal? "opt"
  let size ← match o.getObjVal? "size" with
    | .ok .null => pure none
    | .ok n => some <$> n.getNat?
    | .error _ => pure none
  return { isDict := true, name := ← optStr j "name", id := id, folder := ← parseFacet j "folder", file := ← parseFacet j "file",
           created := ← optStr j "created", modified := ← optStr j "modified",
           opt := { size := size, webUrl := flag o "webUrl", downloadUrl := flag o "downloadUrl", parentRef := flag o "parentRef",
                    fileSystemInfo := flag o "fileSystemInfo", listItem := flag o "listItem", extraFacet := flag o "extraFacet" } }

def parseItem (j : Json) : Except String Item := do
  match ← getStr j "t" with
  | "raw" => return classify (← parseRaw j)
  | "file" => return .file ⟨chars (← getStr j "name"), chars (← getStr j "id"), ← optStr j "created", ← optStr j "modified"⟩
  | "folder" => return .folder (chars (← getStr j "name")) (← optStr j "id")
  | "other" => return .other
  | x => throw s!"item kind {x}"

def parseBody (j : Json) : Except String Body := do
  match ← getStr j "t" with
  | "notjson" => return .notJson
  | "nonobj" => return .nonObject
  | "obj" =>
    let items ← (← getArr j "value").toList.mapM parseItem
    return .obj { accessToken := ← optStr j "token", id := ← optStr j "id", value := items,
                  next := (← optStr j "next").map Url.raw,
                  hasFolder := match j.getObjVal? "folder" with | .ok (.bool b) => b | _ => false }
  | x => throw s!"body kind {x}"

def parseOutcome (j : Json) : Except String Outcome := do
  match ← getStr j "t" with
  | "resp" => return .resp (← getNat j "status") (← parseBody (← j.getObjVal? "body"))
  | "http" => return .httpError (← getNat j "code")
  | "url" => return .urlError
  | x => throw s!"outcome kind {x}"

def parseFilter (j : Json) : Except String Filter := do
  return { createdAfter := ← optInt j "ca", createdBefore := ← optInt j "cb",
           modifiedAfter := ← optInt j "ma", modifiedBefore := ← optInt j "mb",
           patterns := ← strArr j "pats", extensions := ← strArr j "exts" }

def jOpt : Option Str → Json
  | none => Json.null
  | some s => jStr s

def jMeta (m : FileMeta) : Json :=
  Json.mkObj [("name", jStr m.name), ("id", jStr m.id), ("created", jOpt m.created),
              ("modified", jOpt m.modified), ("parent", jStr m.parent)]

def isByPath : Url → Bool
  | .byPath _ _ => true
  | _ => false

def jRes (r : R (List FileMeta)) (partialOut : List FileMeta := []) : Json :=
  let (x, s) := r
  let tail := [("partial", Json.arr (partialOut.map jMeta).toArray),
               ("paths", Json.arr ((s.log.reverse.filter (fun p => isByPath p.2)).map (fun p => jStr (p.2.render urlT))).toArray),
               ("opened", Json.num (JsonNumber.fromNat s.opened)), ("closed", Json.num (JsonNumber.fromNat s.closed)),
               ("reqs", Json.num (JsonNumber.fromNat s.log.length)),
               ("last", match s.log with | (_, u) :: _ => jStr (u.render urlT) | [] => Json.null)]
  match x with
  | .ok fs => Json.mkObj ([("res", Json.str "ok"), ("files", Json.arr (fs.map jMeta).toArray)] ++ tail)
  | .error (.request st u) =>
    Json.mkObj ([("res", Json.str "err"), ("kind", Json.str "request"),
                 ("status", match st with | some n => Json.num (JsonNumber.fromNat n) | none => Json.null),
                 ("url", jStr (u.render urlT))] ++ tail)
  | .error .auth => Json.mkObj ([("res", Json.str "err"), ("kind", Json.str "auth")] ++ tail)
  | .error (.other n) => Json.mkObj ([("res", Json.str "err"), ("kind", Json.str ("other:" ++ n))] ++ tail)
  | .error .outOfFuel => Json.mkObj ([("res", Json.str "err"), ("kind", Json.str "fuel")] ++ tail)

/-- op `c18.run`: one client, a sequence of calls against a table-driven transport with per-index faults -/
def run (j : Json) : Except String Json := do
  let table ← (← getArr j "table").toList.mapM (fun e => do
    let a ← e.getArr?
    if h : a.size = 2 then
      let k ← a[0].getStr?
      let o ← parseOutcome a[1]
      return (chars k, o)
    else throw "table entry")
  let faults ← (← getArr j "faults").toList.mapM (fun e => do
    let a ← e.getArr?
    if h : a.size = 2 then
      let k ← a[0].getNat?
      let o ← parseOutcome a[1]
      return (k, o)
    else throw "fault entry")
  let fuel ← getNat j "fuel"
  let t : Transport := fun i u =>
    match faults.lookup i with
    | some o => o
    | none => match table.lookup (u.render urlT) with
      | some o => o
      | none => .httpError 404
  let calls ← getArr j "calls"
  let mut s : St := {}
  let mut outs : Array Json := #[]
  for c in calls do
    let (r, part) ← match ← getStr c "kind" with
      | "all" => pure (listAll .fixed t fuel s, [])
      | "filtered" => do
        let fj ← c.getObjVal? "filter"
        let f ← parseFilter fj
        let folders ← match fj.getObjVal? "folders" with
          | .ok (.arr a) => a.toList.mapM (fun x => chars <$> x.getStr?)
          | _ => pure []
        -- the generator: what it yielded before it ended; `toR` = the consumer `list(...)`
        let g := listFilteredL .fixed t isoStrict asciiLower globMatch f folders fuel s
        pure (g.toR, g.1.out)
      | x => throw s!"call kind {x}"
    outs := outs.push (jRes r (match r.1 with | .ok _ => [] | .error _ => part))
    s := r.2
  return Json.mkObj [("calls", Json.arr outs)]

/-- op `c18.match`: `FileFilter.matches` on one metadata record -/
def matchOp (j : Json) : Except String Json := do
  let f ← parseFilter (← j.getObjVal? "filter")
  let m ← j.getObjVal? "meta"
  let fm : FileMeta := { name := chars (← getStr m "name"), id := [], created := ← optStr m "created",
                         modified := ← optStr m "modified", parent := chars (← getStr m "parent") }
  return Json.mkObj [("match", Json.bool (matchesF .fixed isoStrict asciiLower globMatch f fm)),
                     ("full", jStr fm.fullPath)]

/-- op `c18.parse`: `_parse_iso_datetime` as µs since the epoch -/
def parseOp (j : Json) : Except String Json := do
  let s ← getStr j "s"
  return Json.mkObj [("ts", match parseIso .fixed isoStrict (chars s) with
    | some t => Json.num (JsonNumber.fromInt t)
    | none => Json.null)]

/-- op `c18.quote`: `quote(path.strip("/"), safe="/")` and the stripped path -/
def quoteOp (j : Json) : Except String Json := do
  let s ← getStr j "s"
  return Json.mkObj [("strip", jStr (stripSlash (chars s))), ("q", jStr (quote (stripSlash (chars s))))]

def handle (op : String) (j : Json) : Option (Except String Json) :=
  match op with
  | "c18.quote" => some (quoteOp j)
  | "c18.run" => some (run j)
  | "c18.match" => some (matchOp j)
  | "c18.parse" => some (parseOp j)
  | _ => none

end S2T.Drv.C18
