import S2T.Drv.Util
import S2T.Drv.C13
import S2T.Model.TablesSlide
import S2T.Gen.Tables
import S2T.Gen.TablesSlide
namespace S2T.Drv.C13Slide
open Lean S2T.Drv S2T.Tables S2T.Tables.Slide
open S2T.Drv.C13 (parseNode nodeJson gridsJson elemStr elemJ parseList parsePptxPiece parseOdfPara)
open S2T.HtmlSkip (Str)

/-! Wire format (on top of the one of `Drv/C13.lean`).
pos    : null | [y, x]                       (ints)
shape  : ["frame", pos, pptx-table] | ["chart", pos] | ["sp", pos, null | [type, idx], text] | ["pic", pos]
       | ["cxn"] | ["group", [shape…]]
item   : ["frame", y, x, ["t", hdr, rows]] | ["frame", y, x, ["o", [node…]]] | ["other", node]     (y, x : null | string)
-/

def T := S2T.Gen.Tables.pptx
def S := S2T.Gen.TablesSlide.pptx
def TO := S2T.Gen.Tables.odp
def D := S2T.Gen.TablesSlide.odp
/-- the length reader of the current source (signed or not) -/
def lenPx := lenPxQ S2T.Gen.TablesSlide.odpLengthSigned

def jInt (i : Int) : Json := Json.num (JsonNumber.fromInt i)
def posJson (p : Int × Int) : Json := Json.arr #[jInt p.1, jInt p.2]

def parsePos (j : Json) : Except String (Option (Int × Int)) :=
  match j with
  | .null => .ok none
  | _ => do
    let a ← j.getArr?
    return some ((← (← elemJ a 0).getInt?), (← (← elemJ a 1).getInt?))

def parseOptStr (j : Json) : Except String (Option Str) :=
  match j with
  | .null => .ok none
  | _ => do return some (chars (← j.getStr?))

partial def parseShape (j : Json) : Except String Shape := do
  let a ← j.getArr?
  let k ← elemStr a 0
  match str k with
  | "frame" =>
    let t ← parseList (parseList (parseList (parseList parsePptxPiece))) (← elemJ a 2)
    return .frame (.table (← parsePos (← elemJ a 1)) t)
  | "chart" => return .frame (.chart (← parsePos (← elemJ a 1)))
  | "sp" =>
    let ph ← (match (← elemJ a 2) with
      | .null => pure none
      | p => do
        let q ← p.getArr?
        pure (some ((← elemStr q 0), (← elemStr q 1))))
    return .other (spNode T S (← parsePos (← elemJ a 1)) ph (← elemStr a 3))
  | "pic" => return .other (picNode S (← parsePos (← elemJ a 1)))
  | "cxn" => return .other (elem (pNs ++ "cxnSp".toList) [])
  | "group" => return .group (← parseList parseShape (← elemJ a 1))
  | other => throw s!"unknown shape kind {other}"

def optGridsJson (gs : List Grid) : Json := gridsJson gs

/-- op `c13.slide.render`, fmt pptx: the written slide, what the property wants back, what the theorems promise -/
def renderPptx (j : Json) : Except String Json := do
  let shapes ← parseList parseShape (← j.getObjVal? "shapes")
  let fs := framesL shapes
  let sorted := sortBy posLt (Frame.position S) fs
  let root := slideRoot T S shapes
  let kids : List Node := match (iter S.spTree root).head? with
    | some t => t.kids
    | none => []
  return Json.mkObj [
    ("tree", nodeJson root),
    ("kids", Json.arr (kids.map nodeJson).toArray),
    ("clean", Json.bool (cleanL S shapes)),
    ("spec", gridsJson (sorted.filterMap Frame.grid)),
    ("spec_stripped", gridsJson (sorted.filterMap Frame.gridStripped)),
    ("positions", Json.arr (sorted.map (fun f => posJson (f.position S))).toArray),
    ("model", gridsJson (slideTables T S root))]

def parseOdpItem (j : Json) : Except String OdpItem := do
  let a ← j.getArr?
  let k ← elemStr a 0
  match str k with
  | "frame" =>
    let y ← parseOptStr (← elemJ a 1)
    let x ← parseOptStr (← elemJ a 2)
    let c ← (← elemJ a 3).getArr?
    let ck ← elemStr c 0
    match str ck with
    | "t" =>
      let h ← (← elemJ c 1).getNat?
      let rows ← parseList (parseList (parseList parseOdfPara)) (← elemJ c 2)
      return .frame ⟨y, x, .table (h, rows)⟩
    | "o" => return .frame ⟨y, x, .other (← parseList parseNode (← elemJ c 1))⟩
    | other => throw s!"unknown frame content {other}"
  | "other" => return .other (← parseNode (← elemJ a 1))
  | other => throw s!"unknown page item {other}"

def ratJson (r : Rat) : Json := Json.arr #[jInt r.num, Json.num (JsonNumber.fromNat r.den)]

/-- op `c13.slide.render`, fmt odp -/
def renderOdp (j : Json) : Except String Json := do
  let items ← parseList parseOdpItem (← j.getObjVal? "items")
  let fs := items.filterMap OdpItem.frame?
  let sorted := sortBy (lexLt ratLt) (OdpFrame.key lenPx) fs
  let page := pageNode TO D items
  return Json.mkObj [
    ("tree", nodeJson page),
    ("ok", Json.bool (items.all (OdpItem.ok TO D))),
    ("spec", gridsJson (sorted.filterMap OdpFrame.grid)),
    ("keys", Json.arr (sorted.map (fun f => Json.arr #[ratJson (f.key lenPx).1, ratJson (f.key lenPx).2])).toArray),
    ("model", gridsJson (odpSlideTables TO D lenPx ratLt page))]

def render (j : Json) : Except String Json := do
  match (← getStr j "fmt") with
  | "pptx" => renderPptx j
  | "odp" => renderOdp j
  | other => throw s!"unknown format {other}"

/-- op `c13.slide.pptx`: `PptxSlide.tables` of the model for a slide root element, and the entries of
    `shape_elements` after the sort as (kind, position, the element's `vid` attribute if it has one) -/
def pptx (j : Json) : Except String Json := do
  let root ← parseNode (← j.getObjVal? "tree")
  let sorted : List Entry := match (iter S.spTree root).head? with
    | none => []
    | some tree => sortBy posLt (·.pos) (collectShapes S tree)
  let kindStr : Kind → String
    | .sp => "sp"
    | .pic => "pic"
    | .graphicFrame => "graphicFrame"
  return Json.mkObj [
    ("tables", gridsJson (slideTables T S root)),
    ("order", Json.arr (sorted.map (fun s => Json.arr #[Json.str (kindStr s.kind), posJson s.pos,
      match s.elem.get "vid".toList with | some v => jStr v | none => Json.null])).toArray)]

/-- op `c13.slide.pos`: `_get_shape_position` of the model for one element -/
def pos (j : Json) : Except String Json := do
  let e ← parseNode (← j.getObjVal? "tree")
  return Json.mkObj [("pos", posJson (shapePosition S e)), ("raised", Json.bool (shapePos? S e).isNone)]

/-- op `c13.slide.odp`: `OdpSlide.tables` of the model for a `draw:page` element (lengths in exact arithmetic) -/
def odp (j : Json) : Except String Json := do
  let page ← parseNode (← j.getObjVal? "tree")
  let sorted := sortBy (lexLt ratLt) (odpKey D lenPx) (findall D.frame page)
  return Json.mkObj [
    ("tables", gridsJson (odpSlideTables TO D lenPx ratLt page)),
    ("keys", Json.arr (sorted.map (fun f => Json.arr #[ratJson (odpKey D lenPx f).1, ratJson (odpKey D lenPx f).2])).toArray)]

/-- op `c13.slide.lenpx`: `_parse_odf_length_to_px` in exact arithmetic -/
def lenpx (j : Json) : Except String Json := do
  let v ← parseOptStr ((j.getObjVal? "v").toOption.getD Json.null)
  return Json.mkObj [("px", ratJson (lenPx v))]

def handle (op : String) (j : Json) : Option (Except String Json) :=
  match op with
  | "c13.slide.render" => some (render j)
  | "c13.slide.pptx" => some (pptx j)
  | "c13.slide.pos" => some (pos j)
  | "c13.slide.odp" => some (odp j)
  | "c13.slide.lenpx" => some (lenpx j)
  | _ => none

end S2T.Drv.C13Slide
