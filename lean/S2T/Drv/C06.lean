import S2T.Drv.Util
import S2T.Model.Observe
import S2T.Model.InputStream
import S2T.Model.History
import S2T.Spec.C06Cells
import S2T.Model.CoreDates
import S2T.Model.ObserveArgs
import S2T.Gen.Ambient
namespace S2T.Drv.C06
open Lean S2T.Drv S2T.Observe S2T.InputStream

def parseOp (j : Json) : Except String Op := do
  let a ← j.getArr?
  let name ← (a[0]?.getD Json.null).getStr?
  match name with
  | "getBytes" => pure .getBytes
  | "read" => do let k ← (a[1]?.getD Json.null).getNat?; pure (.read k)
  | "readAll" => pure .readAll
  | "seek" => do let k ← (a[1]?.getD Json.null).getNat?; pure (.seek k)
  | "tell" => pure .tell
  | "getvalue" => pure .getvalue
  | "toJson" => pure .toJson
  | _ => .error s!"bad op {name}"

def ansJson : Ans → Json
  | .bytes b => Json.mkObj [("bytes", jNats b)]
  | .pos p => Json.mkObj [("pos", Json.num (JsonNumber.fromNat p))]
  | .json b => Json.mkObj [("json", jNats b)]

/-- op `c06.stream` {"content":[..], "ops":[["getBytes"],["read",3],…]} ↦ {"answers":[…], "pos": final} -/
def streamOp (j : Json) : Except String Json := do
  let content ← natArr j "content"
  let opsJ ← getArr j "ops"
  let ops ← opsJ.toList.mapM parseOp
  let (as, s) := run ⟨content, 0⟩ ops
  return Json.mkObj [("answers", Json.arr (as.map ansJson).toArray), ("pos", Json.num (JsonNumber.fromNat s.pos))]

def natsOf (j : Json) : Except String (List Nat) := do
  let a ← j.getArr?
  a.toList.mapM (fun x => x.getNat?)

def parseInOp (j : Json) : Except String InOp := do
  let a ← j.getArr?
  let name ← (a[0]?.getD Json.null).getStr?
  let arg := a[1]?.getD Json.null
  match name with
  | "read" => do let k ← arg.getNat?; pure (.read k)
  | "readinto" => do let k ← arg.getNat?; pure (.readinto k)
  | "readAll" => pure .readAll
  | "readline" => pure .readline
  | "seek" => do let k ← arg.getNat?; pure (.seek k)
  | "tell" => pure .tell
  | "getvalue" => pure .getvalue
  | "getbuffer" => pure .getbuffer
  | "seekable" => pure .seekable
  | "readable" => pure .readable
  | "write" => do let b ← natsOf arg; pure (.write b)
  | "writelines" => do let b ← natsOf arg; pure (.writelines b)
  | "truncate" => if arg.isNull then pure (.truncate none) else do let k ← arg.getNat?; pure (.truncate (some k))
  | _ => .error s!"bad input op {name}"

/-- op `c06.instream` {"content":[..], "ops":[["seek",3],["write",[1,2]],["truncate",null],…]}
    ↦ {"states":[{"content":[…],"pos":n} after every op], "readonly":[bool per op]} -/
def inStreamOp (j : Json) : Except String Json := do
  let content ← natArr j "content"
  let opsJ ← getArr j "ops"
  let ops ← opsJ.toList.mapM parseInOp
  let rec go (s : Stream) : List InOp → List Json
    | [] => []
    | op :: rest =>
      let s' := inStep s op
      Json.mkObj [("content", jNats s'.content), ("pos", Json.num (JsonNumber.fromNat s'.pos))] :: go s' rest
  return Json.mkObj [("states", Json.arr (go ⟨content, 0⟩ ops).toArray),
                     ("readonly", Json.arr (ops.map (fun o => Json.bool (readOnly o))).toArray)]

/-- op `c06.overlay` {"table":[[k,v],…], "docs":[{"decls":[[k,v],…],"uses":[k,…]},…], "alias":bool}
    ↦ {"outputs":[[v,…] per doc]} — keys/values are numbers, the default of key k is k+1000000 -/
def overlayOp (j : Json) : Except String Json := do
  let pairs (x : Json) : Except String (List (Nat × Nat)) := do
    let a ← x.getArr?
    a.toList.mapM (fun p => do
      let q ← natsOf p
      match q with
      | [k, v] => pure (k, v)
      | _ => .error "pair expected")
  let tbl ← pairs (← j.getObjVal? "table")
  let docsJ ← getArr j "docs"
  let docs ← docsJ.toList.mapM (fun d => do
    let decls ← pairs (← d.getObjVal? "decls")
    let uses ← natArr d "uses"
    pure (⟨decls, uses⟩ : S2T.History.Doc Nat Nat))
  let alias ← getBool j "alias"
  let run := if alias then S2T.History.overlayAlias (· + 1000000) else S2T.History.overlayCopy (· + 1000000)
  let outs := S2T.History.outputs run tbl docs
  return Json.mkObj [("outputs", Json.arr (outs.map jNats).toArray)]

/-- op `c06.cells` ↦ {"volatile":[cell names the frame check lets change]} -/
def cellsOp : Except String Json :=
  return Json.mkObj [("volatile", Json.arr (S2T.Spec.C06Cells.volatileCells.map Json.str).toArray)]

/-- op `c06.coredates` {"parts":[[name, created|null, modified|null],…], "now": "…"} ↦ {"created","modified"}: what the
    model of the CURRENT source reports (the guard reads the part named by the literal the translator found, openpyxl
    reads its ARC_CORE) -/
def coreDatesOp (j : Json) : Except String Json := do
  let partsJ ← getArr j "parts"
  let parts ← partsJ.toList.mapM (fun p => do
    let a ← p.getArr?
    let name ← (a[0]?.getD Json.null).getStr?
    let opt (x : Json) : Except String (Option String) := if x.isNull then pure none else some <$> x.getStr?
    let c ← opt (a[1]?.getD Json.null)
    let m ← opt (a[2]?.getD Json.null)
    pure (name, (⟨c, m⟩ : S2T.CoreDates.Core)))
  let now ← getStr j "now"
  let guardPart := S2T.Gen.Ambient.guardReads.headD "<none>"
  let d := S2T.CoreDates.dates (fun _ => guardPart) S2T.Gen.Ambient.libCorePart (S2T.CoreDates.ofList parts) now
  return Json.mkObj [("created", Json.str d.1), ("modified", Json.str d.2)]

/-- op `c06.slidetext` {"base": "…", "formulas": [[is_display, latex],…], "descs": ["…"], "flags": [bool,…]}
    ↦ {"texts": [get_text(flag) per flag]} -/
def slideTextOp (j : Json) : Except String Json := do
  let base ← getStr j "base"
  let fJ ← getArr j "formulas"
  let formulas ← fJ.toList.mapM (fun f => do
    let a ← f.getArr?
    let d ← (a[0]?.getD Json.null).getBool?
    let l ← (a[1]?.getD Json.null).getStr?
    pure (d, l))
  let dJ ← getArr j "descs"
  let descs ← dJ.toList.mapM (fun d => d.getStr?)
  let flJ ← getArr j "flags"
  let flags ← flJ.toList.mapM (fun d => d.getBool?)
  let s : S2T.ObserveArgs.Slide := ⟨base, formulas, descs⟩
  return Json.mkObj [("texts", Json.arr (flags.map (fun f => Json.str (S2T.ObserveArgs.text s f))).toArray)]

def handle (op : String) (j : Json) : Option (Except String Json) :=
  match op with
  | "c06.coredates" => some (coreDatesOp j)
  | "c06.slidetext" => some (slideTextOp j)
  | "c06.stream" => some (streamOp j)
  | "c06.instream" => some (inStreamOp j)
  | "c06.overlay" => some (overlayOp j)
  | "c06.cells" => some cellsOp
  | _ => none

end S2T.Drv.C06
