import S2T.Drv.Util
import S2T.Model.Observe
namespace S2T.Drv.C06
open Lean S2T.Drv S2T.Observe

def parseOp (j : Json) : Except String Op := do
  let a ← j.getArr?
  let name ← (a[0]?.getD Json.null).getStr?
  match name with
  | "getBytes" => pure .getBytes
  | "read" => do let k ← (a[1]?.getD Json.null).getNat?; pure (.read k)
  | "readAll" => pure .readAll
  | "seek" => do let k ← (a[1]?.getD Json.null).getNat?; pure (.seek k)
  | "tell" => pure .tell
  | "getvalue" => pure .getvalue
  | "toJson" => pure .toJson
  | _ => .error s!"bad op {name}"

def ansJson : Ans → Json
  | .bytes b => Json.mkObj [("bytes", jNats b)]
  | .pos p => Json.mkObj [("pos", Json.num (JsonNumber.fromNat p))]
  | .json b => Json.mkObj [("json", jNats b)]

/-- op `c06.stream` {"content":[..], "ops":[["getBytes"],["read",3],…]} ↦ {"answers":[…], "pos": final} -/
def streamOp (j : Json) : Except String Json := do
  let content ← natArr j "content"
  let opsJ ← getArr j "ops"
  let ops ← opsJ.toList.mapM parseOp
  let (as, s) := run ⟨content, 0⟩ ops
  return Json.mkObj [("answers", Json.arr (as.map ansJson).toArray), ("pos", Json.num (JsonNumber.fromNat s.pos))]

def handle (op : String) (j : Json) : Option (Except String Json) :=
  match op with
  | "c06.stream" => some (streamOp j)
  | _ => none

end S2T.Drv.C06
