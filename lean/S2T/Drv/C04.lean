import S2T.Drv.Util
import S2T.Model.Iface
import S2T.Model.IfaceStreams
namespace S2T.Drv.C04
open Lean S2T.Drv S2T.Iface

def jDim (d : Dim) : Json := Json.mkObj [("rows", d.rows), ("columns", d.columns)]

def natRows (j : Json) (k : String) : Except String (List (List Nat)) := do
  let a ← getArr j k
  a.toList.mapM fun r => do
    let cells ← r.getArr?
    cells.toList.mapM (fun x => x.getNat?)

/-- op `c04.dim`: {"rows": [[cell ids]]} ↦ get_dim of a class whose table is `self.data` -/
def opDim (j : Json) : Except String Json := do
  let rows ← natRows j "rows"
  return jDim (dimOfData rows)

/-- op `c04.xls`: {"data": [[[key, value-id], …], …]} ↦ XlsSheet.get_table / get_dim -/
def opXls (j : Json) : Except String Json := do
  let a ← getArr j "data"
  let data ← a.toList.mapM fun row => do
    let ps ← row.getArr?
    ps.toList.mapM fun p => do
      let kv ← p.getArr?
      match kv.toList with
      | [k, v] => do return ((← k.getStr?), (← v.getNat?))
      | _ => throw "pair expected"
  let table := xlsGetTable data
  let jt := Json.arr (table.map fun r => Json.arr (r.map fun c =>
    match c with
    | .key k => Json.mkObj [("k", Json.str k)]
    | .val v => Json.mkObj [("v", v)]
    | .none => Json.null).toArray).toArray
  return Json.mkObj [("table", jt), ("dim", jDim (xlsGetDim data))]

def getOptNats (j : Json) (k : String) : Except String (Option (List Nat)) :=
  match j.getObjVal? k with
  | .ok .null => .ok none
  | .ok v => do
    let a ← v.getArr?
    some <$> a.toList.mapM (fun x => x.getNat?)
  | .error _ => .ok none

/-- op `c04.bytes`: {"kind": "stream"|"bytes", "data": [byte]|null, "consume": k}
↦ first get_bytes (pos, len), reported size, then the caller reads k bytes, second get_bytes (pos, same content) -/
def opBytes (j : Json) : Except String Json := do
  let kind ← getStr j "kind"
  let pk ← match kind with
    | "stream" => pure PayloadKind.stream
    | "bytes" => pure PayloadKind.bytes
    | _ => throw "kind"
  let data ← getOptNats j "data"
  let k ← getNat j "consume"
  let im := mkImage pk data
  let (s1, im1) := getBytes im
  let im2 := consume im1 k
  let (s2, _) := getBytes im2
  return Json.mkObj [("pos1", s1.pos), ("len1", s1.content.length), ("size", im.sizeBytes),
    ("pos2", s2.pos), ("same", Json.bool (s2.content == s1.content)), ("read", jNats (s1.read).1)]

def jOptStr : Option Str → Json
  | none => Json.null
  | some s => jStr s

/-- op `c04.path`: {"path": str|null, "host_file": str|null, "host_folder": str|null}: the host's answers for
`str(p)` and `str(p.parent)` (null = not there) ↦ the four fields + str(p), str(parent) -/
def opPath (j : Json) : Except String Json := do
  let path ← getOptStr j "path"
  let hf ← getOptStr j "host_file"
  let hd ← getOptStr j "host_folder"
  match path with
  | none =>
    let m := populateFromPath (fun _ => none) {} none
    return Json.mkObj [("filename", jOptStr m.filename), ("file_extension", jOptStr m.fileExtension),
      ("file_path", jOptStr m.filePath), ("folder_path", jOptStr m.folderPath)]
  | some s =>
    let p := parsePath (chars s)
    -- the host is asked about the file first, then about the folder (two separate probes, like the code)
    let mf := populateFromPath (fun _ => hf.map chars) {} (some (chars s))
    let md := populateFromPath (fun _ => hd.map chars) {} (some (chars s))
    return Json.mkObj [("filename", jOptStr mf.filename), ("file_extension", jOptStr mf.fileExtension),
      ("file_path", jOptStr mf.filePath), ("folder_path", jOptStr md.folderPath),
      ("str", jStr p.str), ("parent", jStr p.parent.str)]

/-- op `c04.blips`: {"records": [{"type": n, "inst": n, "data": [byte]}]} ↦ the pictures the PPT / XLS BLIP loop
stores: [{"index", "ct", "payload", "size", "pos", "len"}] (pos / len: of the stream `get_bytes()` returns) -/
def opBlips (j : Json) : Except String Json := do
  let a ← getArr j "records"
  let recs ← a.toList.mapM fun r => do
    return ({ recType := (← getNat r "type"), inst := (← getNat r "inst"), data := (← natArr r "data") } : BlipRec)
  let out := (blipImages recs).map fun bi =>
    let s := (getBytes bi.image).1
    Json.mkObj [("index", bi.index), ("ct", Json.str bi.contentType), ("payload", jNats s.content),
      ("size", bi.image.sizeBytes), ("pos", s.pos), ("len", s.content.length)]
  return Json.mkObj [("images", Json.arr out.toArray)]

/-- op `c04.pathseq`: {"calls": [{"path": str|null, "host_file": str|null, "host_folder": str|null}]}: a history of
calls in one process, each with the host's answers AT THAT CALL ↦ the four fields per call -/
def opPathSeq (j : Json) : Except String Json := do
  let a ← getArr j "calls"
  let calls ← a.toList.mapM fun c => do
    let path ← getOptStr c "path"
    let hf ← getOptStr c "host_file"
    let hd ← getOptStr c "host_folder"
    -- the host at this call: answers for str(p) and str(p.parent) (the two strings the code probes)
    let host : Host := match path with
      | none => fun _ => none
      | some s =>
        let p := parsePath (chars s)
        fun q => if q = p.parent.str then hd.map chars else if q = p.str then hf.map chars else none
    return ({ host := host, path := path.map chars } : PathCall)
  let out := (runPathCalls calls).map fun m =>
    Json.mkObj [("filename", jOptStr m.filename), ("file_extension", jOptStr m.fileExtension),
      ("file_path", jOptStr m.filePath), ("folder_path", jOptStr m.folderPath)]
  return Json.mkObj [("results", Json.arr out.toArray)]

def digTable (j : Json) : Except String DigitVal := do
  let a ← match j.getObjVal? "digits" with
    | .ok v => v.getArr?
    | .error _ => pure #[]
  let ps ← a.toList.mapM fun p => do
    let kv ← p.getArr?
    match kv.toList with
    | [k, v] => do return ((← k.getNat?), (← v.getNat?))
    | _ => throw "pair expected"
  return fun c => match asciiDigit c with
    | some v => some v
    | none => (ps.find? (·.1 == c)).map (·.2)

/-- op `c04.collect`: {"kind": "stream"|"bytes", "sources": [{"t": "none"} | {"t": "fresh", "data": [byte]} |
{"t": "cached", "key": n, "data": [byte]}], "order": [image index], "close": image index | null}: the images a
constructor loop builds from the sources; the caller collects `get_bytes()` of ALL of them, closes the stream of image
`close` (if given), then reads the streams in `order` ↦ per read `{"pos", "data"}` or null (raised), the reported
sizes, and whether the handles are pairwise distinct objects -/
def opCollect (j : Json) : Except String Json := do
  let kind ← getStr j "kind"
  let pk ← match kind with
    | "stream" => pure PayloadKind.stream
    | "bytes" => pure PayloadKind.bytes
    | _ => throw "kind"
  let a ← getArr j "sources"
  let srcs ← a.toList.mapM fun s => do
    let t ← getStr s "t"
    match t with
    | "none" => pure Source.none
    | "fresh" => return Source.fresh (← natArr s "data")
    | "cached" => return Source.cached (← getNat s "key") (← natArr s "data")
    | _ => throw "source kind"
  let order ← natArr j "order"
  let (ims, w0) := buildImages pk World.empty [] srcs
  let (hs, w1) := collect w0 ims
  let w2 := match j.getObjVal? "close" with
    | .ok v => match v.getNat? with
      | .ok k => match hs[k]? with
        | some (some h) => closeCell w1 h
        | _ => w1
      | .error _ => w1
    | .error _ => w1
  let step := fun (acc : List Json × World) (i : Nat) =>
    match hs[i]? with
    | some (some h) =>
      let (o, w') := readCell acc.2 h
      match o with
      | some (p, d) => (acc.1 ++ [Json.mkObj [("pos", p), ("data", jNats d)]], w')
      | none => (acc.1 ++ [Json.null], w')
    | _ => (acc.1 ++ [Json.null], acc.2)
  let reads := (order.foldl step ([], w2)).1
  let ids := hs.filterMap id
  return Json.mkObj [("reads", Json.arr reads.toArray), ("sizes", jNats (ims.map (·.sizeBytes))),
    ("raised", Json.bool (hs.any Option.isNone)), ("distinct", Json.bool (ids.eraseDups.length == ids.length))]

def handle (op : String) (j : Json) : Option (Except String Json) :=
  match op with
  | "c04.collect" => some (opCollect j)
  | "c04.dim" => some (opDim j)
  | "c04.xls" => some (opXls j)
  | "c04.bytes" => some (opBytes j)
  | "c04.path" => some (opPath j)
  | "c04.blips" => some (opBlips j)
  | "c04.pathseq" => some (opPathSeq j)
  | "c04.combine" => some do
      let cps ← natArr j "cps"
      return Json.mkObj [("cps", jNats (combineSurrogates cps)), ("wf", Json.bool (wellFormed (combineSurrogates cps)))]
  | "c04.uparam" => some do
      let n ← getInt j "n"
      return Json.mkObj [("unit", uParamToUnit n)]
  | "c04.escapes" => some do
      let cps ← natArr j "cps"
      let dig ← digTable j
      let fixed ← getBool j "fixed"
      let out := if fixed then decodeEscapes dig cps else decodeEscapesRaw dig cps
      return Json.mkObj [("cps", jNats out), ("wf", Json.bool (wellFormed out))]
  | "c04.utf16" => some do
      let units ← natArr j "units"
      let odd ← getBool j "odd"
      return Json.mkObj [("cps", jNats (decodeUtf16Replace units odd))]
  | "c04.page" => some do
      let pos ← getNat j "pos"
      let bps ← natArr j "breaks"
      return Json.mkObj [("page", getPageForPosition pos bps 1)]
  | "c04.readfield" => some do
      let a ← getArr j "children"
      let tag ← getStr j "tag"
      let dflt ← getStr j "default"
      let ch ← a.toList.mapM fun p => do
        let kv ← p.getArr?
        match kv.toList with
        | [k, .null] => do return Xml.node (← k.getStr?) none []
        | [k, v] => do return Xml.node (← k.getStr?) (some (← v.getStr?)) []
        | _ => throw "pair expected"
      return Json.mkObj [("value", Json.str (readField (.node "root" none ch) tag dflt))]
  | _ => none

end S2T.Drv.C04
