import S2T.Drv.Util
import S2T.Model.C02Plain
import S2T.Gen.C02Odf
/-! Line-protocol handler of the C02 'plain' part (ops `c02plain.*`). JSON / hex decoding only; all logic is in
`S2T.Model.C02Plain`. -/
namespace S2T.Drv.C02plain
open Lean S2T.Drv S2T.Tok S2T.Plain

def T := S2T.Gen.C02Odf.tables

def hexDigit (n : Nat) : Char := if n < 10 then Char.ofNat (48 + n) else Char.ofNat (87 + n)
def toHex (b : ByteArray) : String :=
  String.ofList (b.data.toList.flatMap (fun x => [hexDigit (x.toNat / 16), hexDigit (x.toNat % 16)]))
def hexVal (c : Char) : Option Nat :=
  if '0' ≤ c ∧ c ≤ '9' then some (c.toNat - 48) else if 'a' ≤ c ∧ c ≤ 'f' then some (c.toNat - 87) else none
def ofHexAux : List Char → ByteArray → Except String ByteArray
  | [], acc => .ok acc
  | [_], _ => .error "odd hex length"
  | a :: b :: r, acc =>
    match hexVal a, hexVal b with
    | some x, some y => ofHexAux r (acc.push (x * 16 + y).toUInt8)
    | _, _ => .error "bad hex digit"
def ofHex (s : String) : Except String ByteArray := ofHexAux s.toList ByteArray.empty

def codecOf : String → Except String Codec
  | "ascii" => .ok .ascii
  | "utf_8" => .ok .utf8
  | "latin_1" => .ok .latin1
  | s => .error ("codec not modelled: " ++ s)

def verdictOf (j : Json) : Except String (Option Verdict) := do
  match j.getObjVal? "det" with
  | .ok .null => return none
  | .ok d => return some ⟨← codecOf (← getStr d "codec"), ← getNat d "sig_len"⟩
  | .error _ => return none

/-- marker the driver answers with when the model takes the `errors="replace"` fallback (a parameter of the model) -/
def fallbackMark : Str := "\u0000<fallback>".toList

def answer (content : ByteArray) (v : Option Verdict) : List (String × Json) :=
  let r := detectAndDecode (fun _ => v) (fun _ => fallbackMark) content
  if r.1 = fallbackMark then [("fallback", Json.bool true)]
  else [("text", jStr (S2T.Rtf.plainFullText T.isWs r.1)),
        ("tokens", Json.arr ((tokens T.isWs r.1).map jStr).toArray),
        ("encoding", Json.str (match r.2 with | .ascii => "ascii" | .utf8 => "utf_8" | .latin1 => "latin_1"))]

/-- a text written by the Lean writer (`renderText`) and read back through the model with the detector's verdict -/
def opFile (j : Json) : Except String Json := do
  let s := chars (← getStr j "text")
  let c ← codecOf (← getStr j "codec")
  let sig ← getBool j "sig"
  match renderText c sig s with
  | none => return Json.mkObj [("unrepresentable", Json.bool true)]
  | some b =>
    let v ← verdictOf j
    return Json.mkObj ([("hex", Json.str (toHex b)), ("size", Json.num (JsonNumber.fromNat b.size)),
      ("src_tokens", Json.arr ((tokens T.isWs s).map jStr).toArray)] ++ answer b v)

/-- arbitrary bytes (malformed sequences, foreign signatures) through the model with the detector's verdict -/
def opBytes (j : Json) : Except String Json := do
  let b ← ofHex (← getStr j "hex")
  let v ← verdictOf j
  return Json.mkObj (answer b v)

def handle (op : String) (j : Json) : Option (Except String Json) :=
  match op with
  | "c02plain.file" => some (opFile j)
  | "c02plain.bytes" => some (opBytes j)
  | _ => none

end S2T.Drv.C02plain
