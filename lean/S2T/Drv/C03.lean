import S2T.Drv.Util
import S2T.Gen.Units
import S2T.Model.UnitsCarrier
namespace S2T.Drv.C03
open Lean S2T.Drv S2T.Units

def T : Tables := S2T.Gen.Units.tables

/-- strings go back as arrays of code points: the harness reads the driver's output with
`str.splitlines()`, which would break a line at a raw U+0085 / U+2028 / U+001C inside a JSON string -/
def jS (l : List Char) : Json := jNats (l.map Char.toNat)

def strArr (j : Json) (k : String) : Except String (List Str) := do
  let a ← getArr j k
  a.toList.mapM (fun x => chars <$> x.getStr?)

def optInt (j : Json) (k : String) : Except String (Option Int) :=
  match j.getObjVal? k with
  | .ok .null => .ok none
  | .ok v => some <$> v.getInt?
  | .error _ => .ok none

def optStrJ (v : Json) : Except String (Option Str) :=
  match v with
  | .null => .ok none
  | v => (fun s => some (chars s)) <$> v.getStr?

def natOr0 (j : Json) (k : String) : Nat := (j.getObjValAs? Nat k).toOption.getD 0
def strOrEmpty (j : Json) (k : String) : Str := chars ((j.getObjValAs? String k).toOption.getD "")

def jUnit (u : DUnit) : Json :=
  Json.mkObj [("n", Json.num (JsonNumber.fromNat u.number)), ("t", jS u.text),
    ("p", Json.arr (u.path.map jS).toArray),
    ("l", match u.level with | some l => Json.num (JsonNumber.fromInt l) | none => Json.null),
    ("ni", Json.num (JsonNumber.fromNat u.nImages)), ("nt", Json.num (JsonNumber.fromNat u.nTables))]

def jUnits (us : List DUnit) (full : Str) : Json :=
  Json.mkObj [("units", Json.arr (us.map jUnit).toArray), ("full", jS full)]

def optIntArr (j : Json) (k : String) : Except String (List (Option Int)) := do
  let a ← getArr j k
  a.toList.mapM (fun x => match x with | .null => .ok none | v => some <$> v.getInt?)

def pptSlideOf (x : Json) : Except String PptSlide := do
  let n ← getNat x "number"
  let title ← optStrJ ((x.getObjVal? "title").toOption.getD Json.null)
  let body ← strArr x "body"
  let other ← strArr x "other"
  return { number := n, title, body, other }

/-- op `c03.units`: one result object (dataclass fields relevant to units) ↦ its units and full text -/
def units (j : Json) : Except String Json := do
  let fmt ← getStr j "fmt"
  match fmt with
  | "plain" | "html" | "odg" | "odf" =>
    let c ← getStr j "content"
    return jUnits (singleUnits T (chars c)) (singleFullText T (chars c))
  | "email" =>
    let e : Email := { bodyPlain := chars (← getStr j "plain"), bodyHtml := chars (← getStr j "html") }
    return jUnits (emailUnits e) (emailFullText T e)
  | "pdf" =>
    let ps ← (← getArr j "pages").toList.mapM (fun x => do
      return ({ text := chars (← getStr x "text"), nImages := natOr0 x "ni", nTables := natOr0 x "nt" } : Page))
    return jUnits (pdfUnits ps) (pdfFullText T ps)
  | "xls" | "xlsx" | "ods" =>
    let ss ← (← getArr j "sheets").toList.mapM (fun x => do
      return ({ name := chars (← getStr x "name"), text := chars (← getStr x "text") } : Sheet))
    match fmt with
    | "xls" => return jUnits (xlsUnits T ss) (xlsFullText T (strOrEmpty j "full_text"))
    | "xlsx" => return jUnits (xlsxUnits T ss) (xlsxFullText T ss)
    | _ => return jUnits (odsUnits T ss) (odsFullText T ss)
  | "ppt" | "odp" =>
    let ss ← (← getArr j "slides").toList.mapM pptSlideOf
    if fmt = "ppt" then return jUnits (pptUnits ss) (pptFullText T ss)
    else return jUnits (odpUnits ss) (odpFullText T ss)
  | "pptx" =>
    let cap := (j.getObjValAs? Bool "captions").toOption.getD false
    let ss ← (← getArr j "slides").toList.mapM (fun x => do
      let fs ← (← getArr x "formulas").toList.mapM (fun f => do
        return (chars (← getStr f "latex"), ← getBool f "display"))
      return ({ number := ← getNat x "number", baseText := chars (← getStr x "base"), formulas := fs,
                imageDescs := ← strArr x "descs" } : PptxSlide))
    return jUnits (pptxUnits T ss cap) (pptxFullText T ss cap)
  | "epub" =>
    let cs ← (← getArr j "chapters").toList.mapM (fun x => do
      return ({ number := ← getNat x "number", text := chars (← getStr x "text") } : Chapter))
    return jUnits (epubUnits cs) (epubFullText T cs)
  | "rtf" =>
    let r : Rtf := { pages := ← strArr j "pages", fullText := chars (← getStr j "full_text"),
                     paragraphs := ← strArr j "paragraphs", imagePages := ← optIntArr j "image_pages",
                     tablePages := ← optIntArr j "table_pages" }
    return jUnits (rtfUnits T r) (rtfFullText T r)
  | "doc" =>
    let tbs ← (← getArr j "tables").toList.mapM (fun x => do
      let a ← x.getArr?
      a.toList.mapM (fun c => chars <$> c.getStr?))
    let d : Doc := { mainText := chars (← getStr j "main_text"), title := chars (← getStr j "title"), tables := tbs }
    return jUnits (docUnits T d) (docFullText T d)
  | "odt" =>
    let ps ← (← getArr j "paragraphs").toList.mapM (fun x => do
      return ({ text := chars (← getStr x "text"), outline := ← optInt x "outline", style := strOrEmpty x "style" } : OdtPara))
    let o : Odt := { paragraphs := ps, title := chars (← getStr j "title"), fullText := chars (← getStr j "full_text"),
                     nTables := natOr0 j "n_tables", nImages := natOr0 j "n_images" }
    return jUnits (odtUnits T o) (odtFullText o)
  | "docx" =>
    let ps ← (← getArr j "paragraphs").toList.mapM (fun x => do
      return ({ text := chars (← getStr x "text"), level := ← optInt x "level", pageBreak := ← getBool x "pb",
                nImages := natOr0 x "ni", nTables := natOr0 x "nt" } : DocxPara))
    let d : Docx := { paragraphs := ps, fullText := chars (← getStr j "full_text"), title := chars (← getStr j "title"),
                      nImages := natOr0 j "n_images", nTables := natOr0 j "n_tables" }
    return jUnits (docxUnits T d) (docxFullText d)
  | _ => throw s!"c03.units: unknown fmt {fmt}"

/-- op `c03.pptx_order` -/
def pptxOrder (j : Json) : Except String Json := do
  let rels ← (← getArr j "rels").toList.mapM (fun x => do
    return ({ id := chars (← getStr x "id"), target := chars (← getStr x "target"), typeLower := chars (← getStr x "type") } : Rel))
  let ids ← (← getArr j "ids").toList.mapM optStrJ
  -- the numeric `id` attribute of each entry (optional in the request; the model takes it and ignores it)
  let nums ← match j.getObjVal? "num_ids" with
    | .ok v => do (← v.getArr?).toList.mapM optStrJ
    | .error _ => pure (ids.map (fun _ => none))
  if nums.length ≠ ids.length then throw "c03.pptx_order: num_ids / ids length mismatch"
  let order := slideOrderE rels ((nums.zip ids).map (fun p => { numId := p.1, rid := p.2 }))
  let slides := pptxExtract (fun _ => { number := 0 }) order
  return Json.mkObj [("order", Json.arr (order.map jS).toArray), ("numbers", jNats (slides.map (·.number)))]

def jOptNat : Option Nat → Json
  | some n => Json.num (JsonNumber.fromNat n)
  | none => Json.null

def blockOf (x : Json) : Except String Block := do
  let tt := (x.getObjValAs? Nat "tt").toOption
  return { text := chars (← getStr x "text"), ttype := tt, isTitle := ← getBool x "it", isBody := ← getBool x "ib",
           isNotes := ← getBool x "in" }

def jSlide (s : PptSlide) : Json :=
  Json.mkObj [("number", Json.num (JsonNumber.fromNat s.number)),
    ("title", match s.title with | some t => jS t | none => Json.null),
    ("body", Json.arr (s.body.map jS).toArray), ("other", Json.arr (s.other.map jS).toArray),
    ("notes", Json.arr (s.notes.map jS).toArray)]

/-- op `c03.ppt_list`: records of one SlideListWithText container -/
def pptList (j : Json) : Except String Json := do
  let recs ← (← getArr j "recs").toList.mapM (fun x => do
    let k ← getStr x "k"
    match k with
    | "p" => return PRec.persist
    | "h" => return PRec.header (← getNat x "t")
    | "t" => return PRec.text (chars (← getStr x "s"))
    | _ => throw "bad record kind")
  let slides := parseSlideList T recs [] none false false
  return Json.mkObj [("slides", Json.arr (slides.map (fun bs => Json.arr (bs.map (fun b =>
    Json.mkObj [("text", jS b.text), ("tt", jOptNat b.ttype), ("it", Json.bool b.isTitle), ("ib", Json.bool b.isBody),
                ("in", Json.bool b.isNotes)])).toArray)).toArray)]

/-- op `c03.ppt_doc` -/
def pptDoc (j : Json) : Except String Json := do
  let blocks (k : String) : Except String (List (List Block)) := do
    (← getArr j k).toList.mapM (fun s => do (← s.getArr?).toList.mapM blockOf)
  let slides := pptParseDocument T (← blocks "list") (← blocks "cont") (← strArr j "raw")
  return Json.mkObj [("slides", Json.arr (slides.map jSlide).toArray),
    ("units", Json.arr ((pptUnits slides).map jUnit).toArray)]

/-- op `c03.epub`: which spine items yield a chapter ↦ the chapter numbers -/
def epub (j : Json) : Except String Json := do
  let kept ← (← getArr j "kept").toList.mapM (fun x => x.getBool?)
  let chs := epubChapters (kept.map (fun b => if b then some [] else none))
  return Json.mkObj [("numbers", jNats (chs.map (·.number)))]

/-- op `c03.mbox` (bytes as latin-1 text) -/
def mbox (j : Json) : Except String Json := do
  let d ← getStr j "data"
  return Json.mkObj [("msgs", Json.arr ((mboxSplit (chars d)).map jS).toArray)]

/-- op `c03.rtf_pages` -/
def rtfPages (j : Json) : Except String Json := do
  let ps ← strArr j "pieces"
  return Json.mkObj [("pages", Json.arr ((rtfFlushPages T ps).map jS).toArray)]

/-- op `c03.rtf_extract`: the scanner's event stream (code units / code points; -1 = explicit page break) ↦
`self.pages` and the returned body text -/
def rtfExtract (j : Json) : Except String Json := do
  let a ← getArr j "evs"
  let evs ← a.toList.mapM (fun x => do
    let n ← x.getInt?
    if n < 0 then return RtfEv.brk else return RtfEv.ch n.toNat)
  return Json.mkObj [("pages", Json.arr ((rtfExtractPages T evs).map jS).toArray), ("text", jNats (rtfExtractText evs))]

/-- op `c03.combine`: `_combine_surrogates` on code points -/
def combine (j : Json) : Except String Json := do
  return Json.mkObj [("out", jNats (combineSur (← natArr j "codes")))]

/-- op `c03.odp_classify`: the paragraphs of a slide's text boxes in frame order ↦ title / body_text / other_text -/
def odpClassifyOp (j : Json) : Except String Json := do
  let ps ← (← getArr j "paras").toList.mapM (fun x => do
    return ({ style := chars (← getStr x "style"), text := chars (← getStr x "text") } : S2T.Units.Carrier.OdpPara))
  let a := S2T.Units.Carrier.odpClassify T ps
  return Json.mkObj [("title", match a.title with | some t => jS t | none => Json.null),
    ("body", Json.arr (a.body.map jS).toArray), ("other", Json.arr (a.other.map jS).toArray)]

def handle (op : String) (j : Json) : Option (Except String Json) :=
  match op with
  | "c03.odp_classify" => some (odpClassifyOp j)
  | "c03.units" => some (units j)
  | "c03.pptx_order" => some (pptxOrder j)
  | "c03.ppt_list" => some (pptList j)
  | "c03.ppt_doc" => some (pptDoc j)
  | "c03.epub" => some (epub j)
  | "c03.mbox" => some (mbox j)
  | "c03.rtf_pages" => some (rtfPages j)
  | "c03.rtf_extract" => some (rtfExtract j)
  | "c03.combine" => some (combine j)
  | _ => none

end S2T.Drv.C03
