import S2T.Drv.Util
import S2T.Gen.Aes
namespace S2T.Drv.C20
open Lean S2T.Drv S2T.Aes

def T : Tables := S2T.Gen.Aes.tables

/-- {"ok": [...]} | {"err": "ValueError"} -/
def res (r : Except Exc (List Nat)) : Json :=
  match r with
  | .ok l => Json.mkObj [("ok", jNats l)]
  | .error .valueError => Json.mkObj [("err", Json.str "ValueError")]

def jNatss (l : List (List Nat)) : Json := Json.arr (l.map jNats).toArray

/-- op `c20.ecb`: {"enc": bool, "key": [..], "data": [..]} -/
def ecb (j : Json) : Except String Json := do
  let enc ← getBool j "enc"
  let key ← natArr j "key"
  let data ← natArr j "data"
  return res (if enc then aesEcbEncrypt T key data else aesEcbDecrypt T key data)

/-- op `c20.cbc`: {"enc": bool, "key", "iv", "data"} -/
def cbc (j : Json) : Except String Json := do
  let enc ← getBool j "enc"
  let key ← natArr j "key"
  let iv ← natArr j "iv"
  let data ← natArr j "data"
  return res (if enc then aesCbcEncrypt T key iv data else aesCbcDecrypt T key iv data)

/-- op `c20.crypt`: {"enc": bool, "key", "iv" (enc only), "data"} — the patched `CryptAES` -/
def crypt (j : Json) : Except String Json := do
  let enc ← getBool j "enc"
  let key ← natArr j "key"
  let data ← natArr j "data"
  if enc then
    let iv ← natArr j "iv"
    return res (cryptAesEncrypt T key iv data)
  else
    return res (cryptAesDecrypt T key data)

/-- op `c20.expand`: {"key"} ↦ {"ok": [[16 bytes] …]} | {"err"} -/
def expand (j : Json) : Except String Json := do
  let key ← natArr j "key"
  return match expandKey T key with
    | .ok rks => Json.mkObj [("ok", jNatss rks)]
    | .error .valueError => Json.mkObj [("err", Json.str "ValueError")]

/-- op `c20.block`: {"enc", "key", "block"} — `_aes_(en|de)crypt_block(block, _expand_key(key))` -/
def block (j : Json) : Except String Json := do
  let enc ← getBool j "enc"
  let key ← natArr j "key"
  let b ← natArr j "block"
  return res (match expandKey T key with
    | .error e => .error e
    | .ok rks => if enc then encryptBlock T b rks else decryptBlock T b rks)

/-- op `c20.round`: {"fn": name, "state": [16], "rk": [16]} ↦ {"ok": state'} -/
def round (j : Json) : Except String Json := do
  let fn ← getStr j "fn"
  let s ← natArr j "state"
  let rk ← natArr j "rk"
  let out ← match fn with
    | "sub_bytes" => pure (subBytes T s)
    | "inv_sub_bytes" => pure (invSubBytes T s)
    | "shift_rows" => pure (shiftRows s)
    | "inv_shift_rows" => pure (invShiftRows s)
    | "mix_columns" => pure (mixColumns T s)
    | "inv_mix_columns" => pure (invMixColumns T s)
    | "add_round_key" => pure (addRoundKey s rk)
    | "rot_word" => pure (rotWord s)
    | "sub_word" => pure (subWord T s)
    | _ => throw s!"unknown round function {fn}"
  return Json.mkObj [("ok", jNats out)]

/-- op `c20.pad`: {"unpad": bool, "data", "bs"} -/
def pad (j : Json) : Except String Json := do
  let un ← getBool j "unpad"
  let data ← natArr j "data"
  let bs ← getNat j "bs"
  return res (if un then pkcs7Unpad data bs else .ok (pkcs7Pad data bs))

/-- op `c20.chunks`: {"data", "size"} -/
def chunksOp (j : Json) : Except String Json := do
  let data ← natArr j "data"
  let size ← getNat j "size"
  return Json.mkObj [("ok", jNatss (chunks data size))]

/-- op `c20.gf`: {"a", "b"} ↦ {"xtime": _xtime(a), "mul": _gf_mul(a, b)} -/
def gf (j : Json) : Except String Json := do
  let a ← getNat j "a"
  let b ← getNat j "b"
  return Json.mkObj [("xtime", Json.num (JsonNumber.fromNat (xtime a))), ("mul", Json.num (JsonNumber.fromNat (gfMul a b)))]

/-- op `c20.build`: {"m", "n"} ↦ {"mul": _build_mul_table(m), "rcon": _build_rcon(n)} -/
def build (j : Json) : Except String Json := do
  let m ← getNat j "m"
  let n ← getNat j "n"
  return Json.mkObj [("mul", jNats (buildMulTable m)), ("rcon", jNats (buildRcon n))]

/-- op `c20.cache`: {"keys": [[..] …]} — `_get_round_keys` called for each key in turn on an initially empty
    cache ↦ per call: the answer and the keys cached afterwards (oldest first) -/
def cache (j : Json) : Except String Json := do
  let ks ← getArr j "keys"
  let keys ← ks.toList.mapM (fun k => do let a ← k.getArr?; a.toList.mapM (fun x => x.getNat?))
  let (outs, _) := keys.foldl (fun (acc : List Json × Cache) key =>
    let (r, c) := getRoundKeys T S2T.Gen.Aes.cacheMax acc.2 key
    let rj := match r with
      | .ok rks => Json.mkObj [("ok", jNatss rks), ("cached", jNatss (c.map (·.1)))]
      | .error .valueError => Json.mkObj [("err", Json.str "ValueError"), ("cached", jNatss (c.map (·.1)))]
    (acc.1 ++ [rj], c)) ([], [])
  return Json.mkObj [("calls", Json.arr outs.toArray)]

def handle (op : String) (j : Json) : Option (Except String Json) :=
  match op with
  | "c20.ecb" => some (ecb j)
  | "c20.cbc" => some (cbc j)
  | "c20.crypt" => some (crypt j)
  | "c20.expand" => some (expand j)
  | "c20.block" => some (block j)
  | "c20.round" => some (round j)
  | "c20.pad" => some (pad j)
  | "c20.chunks" => some (chunksOp j)
  | "c20.gf" => some (gf j)
  | "c20.build" => some (build j)
  | "c20.cache" => some (cache j)
  | _ => none

end S2T.Drv.C20
