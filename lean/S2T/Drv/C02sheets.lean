import S2T.Drv.Util
import S2T.Drv.C02odf
import S2T.Spec.C02SheetsDoc
import S2T.Model.C02SheetsOdp
import S2T.Model.C02SheetsOds
import S2T.Model.C02SheetsXlsx
import S2T.Gen.C02Sheets
import S2T.Gen.HtmlSkip
import S2T.Gen.Ooxml
import S2T.Model.OoxmlHtml
/-! Line-protocol handler of the C02 'sheets' part (ops `c02sheets.*`).  JSON decoding only; all logic is in
`S2T.Model.C02Sheets*` / `S2T.Spec.C02SheetsDoc`. -/
namespace S2T.Drv.C02sheets
open Lean S2T.Drv S2T.Tok S2T.OdfText S2T.OdfDoc S2T.C02.Sheets
open S2T.Drv.C02odf (gStr gStrD gArr gArrD xmlOfJson jsonOfXml inlOfJson jStrs)

def TP := S2T.Gen.C02Sheets.odp
def TS := S2T.Gen.C02Sheets.ods

def inls (j : Json) (k : String) : Except String (List Inl) := (gArrD j k).mapM inlOfJson

def roleOf : String → Except String Role
  | "title" => .ok .title | "body" => .ok .body | "other" => .ok .other
  | s => .error s!"unknown role {s}"

def paraOfJson (j : Json) : Except String Para := do
  return { role := ← roleOf (← getStr j "role"), variant := (getNat j "v").toOption.getD 0, kids := ← inls j "c" }

partial def tbOfJson (j : Json) : Except String TB := do
  match ← getStr j "k" with
  | "p" => return .para (← paraOfJson j)
  | "g" =>
    let k ← match ← getStr j "t" with
      | "list" => pure GKind.list | "item" => pure GKind.item | "section" => pure GKind.section
      | s => throw s!"unknown group {s}"
    return .group k (← (gArrD j "c").mapM tbOfJson)
  | "ann" => return .comment (gStrD j "cr") (← inls j "c")
  | s => throw s!"unknown text-box item {s}"

def frameOfJson (j : Json) : Except String Frame := do
  let body ← match ← getStr j "k" with
    | "tb" => FrameBody.textBox <$> (gArrD j "c").mapM tbOfJson
    | "table" => FrameBody.table <$> (gArrD j "rows").mapM (fun r => do
        (← r.getArr?).toList.mapM (fun c => do (← c.getArr?).toList.mapM (fun p => do (← p.getArr?).toList.mapM inlOfJson)))
    | "img" => pure (FrameBody.image (gStrD j "h"))
    | s => throw s!"unknown frame kind {s}"
  return { y := ← getNat j "y", x := ← getNat j "x", body := body }

def unitOfStr : String → Except String LUnit
  | "cm" => .ok .cm | "in" => .ok .inch | "mm" => .ok .mm | "pt" => .ok .pt | "pc" => .ok .pc | "px" => .ok .px
  | s => .error s!"unknown unit {s}"

def slideOfJson (j : Json) : Except String DSlide := do
  return { unit := ← unitOfStr (← getStr j "unit"), frames := ← (gArrD j "frames").mapM frameOfJson,
           shapes := ← (gArrD j "shapes").mapM (fun s => do (← s.getArr?).toList.mapM paraOfJson),
           notes := ← (gArrD j "notes").mapM (fun n => inls n "c") }

/-- op `c02sheets.odp`: {"slides"} ↦ rendered tree, model text, the spec's tokens (frames / all), excluded texts -/
def opOdp (j : Json) : Except String Json := do
  let d ← (← gArr j "slides").mapM slideOfJson
  let x := renderOdp d
  return Json.mkObj [("xml", jsonOfXml x), ("text", jStr (Odp.fullText TP x)), ("tokens", jStrs (deckTokens TP.isWs d)),
    ("full", jStrs (fullDeckTokens TP.isWs d)), ("excl", jStrs (deckExcl d)), ("tables", jStrs (tableTexts d))]

def kindOfStr : String → Except String VKind
  | "float" => .ok .float | "currency" => .ok .currency | "percentage" => .ok .percentage
  | "date" => .ok .date | "time" => .ok .time | "boolean" => .ok .boolean
  | s => .error s!"unknown value kind {s}"

def cellOfJson (j : Json) : Except String OCell := do
  let com ← match j.getObjVal? "com" with
    | .ok (.arr a) => some <$> a.toList.mapM inlOfJson
    | _ => pure none
  let typed ← match j.getObjVal? "typed" with
    | .ok (.arr a) => match a.toList with
      | [k, v] => do pure (some (← kindOfStr (← k.getStr?), chars (← v.getStr?)))
      | _ => throw "typed: [kind, value] expected"
    | _ => pure none
  return { rep := (getNat j "rep").toOption.getD 1, typed := typed,
           paras := ← (gArrD j "paras").mapM (fun pj => inls pj "c"), comment := com }

def rowOfJson (j : Json) : Except String ORow := do
  return { rep := (getNat j "rep").toOption.getD 1, cells := ← (gArrD j "cells").mapM cellOfJson }

def sheetOfJson (j : Json) : Except String OSheet := do
  return { name := gStrD j "name", headerRows := ← (gArrD j "hrows").mapM rowOfJson, rows := ← (gArrD j "rows").mapM rowOfJson }

def jOds (r : Except Ods.OdsErr Str) : Json :=
  match r with
  | .ok s => Json.mkObj [("text", jStr s)]
  | .error .valueError => Json.mkObj [("err", "ValueError")]

/-- op `c02sheets.ods`: {"sheets"} ↦ rendered tree, model text, tokens (as delivered / with header rows), excluded -/
def opOds (j : Json) : Except String Json := do
  let d ← (← gArr j "sheets").mapM sheetOfJson
  let x := renderOds d
  return (jOds (Ods.fullText TS x)).mergeObj (Json.mkObj [("xml", jsonOfXml x),
    ("tokens", jStrs (d.flatMap (S2T.C02.Sheets.sheetTokens TS.isWs))), ("full", jStrs (d.flatMap (fullSheetTokens TS.isWs))),
    ("excl", jStrs (d.flatMap sheetExcl))])

/-- op `c02sheets.xml`: {"fmt", "tree"} ↦ the model on an arbitrary element tree -/
def opXml (j : Json) : Except String Json := do
  let x ← xmlOfJson (← j.getObjVal? "tree")
  match ← getStr j "fmt" with
  | "odp" => return Json.mkObj [("text", jStr (Odp.fullText TP x))]
  | "ods" => return jOds (Ods.fullText TS x)
  | "odp-walk" => return Json.mkObj [("paras", Json.arr ((Odp.iterParas TP x).map (fun e => jStr (elemText TP.isWs TP.fmt e))).toArray),
      ("pruned", Json.arr ((Odp.pruned TP x).map (fun e => jStr (elemText TP.isWs TP.fmt e))).toArray)]
  | f => throw s!"unknown fmt {f}"

partial def hinlOfJson (j : Json) : Except String Html.HInl := do
  match ← getStr j "k" with
  | "t" => return .text (← gStr j "s")
  | "el" => return .el ((getNat j "tag").toOption.getD 0) (← (gArrD j "c").mapM hinlOfJson)
  | "rm" => return .removed ((getNat j "tag").toOption.getD 0) (gStrD j "hid") ((getBool j "wrap").toOption.getD false)
  | s => throw s!"unknown html inline {s}"

/-- op `c02sheets.html`: {"blocks": [{"tag": n, "c": [inl]}]} ↦ the rendered page, its visible tokens, the hidden texts -/
def opHtml (j : Json) : Except String Json := do
  let bs ← (← gArr j "blocks").mapM (fun b => do
    return ((getNat b "tag").toOption.getD 0, ← (gArrD b "c").mapM hinlOfJson))
  let rm := S2T.Gen.C02Sheets.htmlRemove
  let vd := S2T.Gen.C02Sheets.htmlVoid
  return Json.mkObj [("html", jStr (Html.renderPage rm vd bs)), ("tokens", jStrs (Html.pageTokens TP.isWs bs)),
    ("hidden", jStrs (bs.flatMap (fun b => Html.hiddenInls rm vd b.2))),
    ("remove", jStrs rm), ("void", jStrs (rm.filter vd.contains))]

def TX := S2T.Gen.C02Sheets.xlsx

def xcellOfJson (j : Json) : Except String Xlsx.XCell :=
  match j with
  | .null => .ok .empty
  | _ =>
    match j.getObjVal? "s", j.getObjVal? "i", j.getObjVal? "b", j.getObjVal? "f" with
    | .ok (.str v), _, _, _ => .ok (.str (chars v))
    | _, .ok v, _, _ => do return .int (← v.getInt?)
    | _, _, .ok (.bool b), _ => .ok (.bool b)
    | _, _, _, .ok (.str r) => .ok (.float (chars r) (match j.getObjVal? "w" with
        | .ok w => w.getInt?.toOption
        | .error _ => none))
    | _, _, _, _ => .error "unknown xlsx cell"

/-- op `c02sheets.xlsx`: {"sheets":[{"name","rows":[[cell|null]]}]} ↦ the Lean-rendered worksheet parts, the model text,
    the tokens as delivered and the property's tokens -/
def opXlsx (j : Json) : Except String Json := do
  let sheets ← (← gArr j "sheets").mapM (fun sj => do
    let rows ← (gArrD sj "rows").mapM (fun r => do (← r.getArr?).toList.mapM xcellOfJson)
    return ({ name := gStrD sj "name", rows := rows } : XlsxDoc.XSheet))
  return Json.mkObj [("sheet_xml", jStrs (sheets.map (fun s => XlsxDoc.renderSheetXml s.rows))), ("names", jStrs (sheets.map (·.name))),
    ("text", jStr (Xlsx.fullText TX (sheets.map (fun s => (s.name, s.rows))))),
    ("tokens", jStrs (sheets.flatMap (fun s => tokens TX.isWs s.name ++ (Xlsx.allRows TX s.rows).flatMap (fun r => r.flatMap (tokens TX.isWs))))),
    ("grid", jStrs (sheets.flatMap (XlsxDoc.sheetTokens TX.isWs))),
    ("full_rows", Json.arr (sheets.map (fun s => Json.bool (XlsxDoc.firstRowFull TX.isWs s.rows))).toArray)]

open S2T.C02.Sheets.EpubDoc in
def hidOfJson (j : Json) : Except String Hid := do
  match ← getStr j "k" with
  | "t" => return .text (← gStr j "s")
  | "same" => return .same (← gStr j "s")
  | "other" => return .other ((getNat j "tag").toOption.getD 0) (← gStr j "s")
  | s => throw s!"unknown hidden item {s}"

open S2T.C02.Sheets.EpubDoc in
partial def einlOfJson (j : Json) : Except String EInl := do
  match ← getStr j "k" with
  | "t" => return .text (← gStr j "s")
  | "el" => return .el ((getNat j "tag").toOption.getD 0) (← (gArrD j "c").mapM einlOfJson)
  | "rm" => return .removed ((getNat j "tag").toOption.getD 0) (← (gArrD j "hid").mapM hidOfJson)
  | "br" => return .br
  | s => throw s!"unknown epub inline {s}"

def jEv : S2T.HtmlSkip.Ev → Json
  | .start t _ => Json.arr #["start", jStr t]
  | .end_ t => Json.arr #["end", jStr t]
  | .startend t _ => Json.arr #["startend", jStr t]
  | .data s => Json.arr #["data", jStr s]
  | _ => Json.arr #["other"]

open S2T.C02.Sheets.EpubDoc in
/-- op `c02sheets.epub`: {"chapters":[{"title","blocks":[{"tag","c":[inl]}]}]} ↦ per chapter the XHTML text, the handler
    calls the model assumes, the model's chapter text; the model's full text; the spec's words and hidden texts -/
def opEpub (j : Json) : Except String Json := do
  let T := S2T.Gen.HtmlSkip.epubTables
  let B := S2T.Gen.HtmlSkip.epubBlock
  let ws := S2T.Gen.Ooxml.isPySpace
  let cs ← (← gArr j "chapters").mapM (fun cj => do
    let bs ← (gArrD cj "blocks").mapM (fun b => do
      return ({ tag := (getNat b "tag").toOption.getD 0, kids := ← (gArrD b "c").mapM einlOfJson } : EBlk))
    return ({ title := gStrD cj "title", blocks := bs } : Chapter))
  let text (c : Chapter) : Str :=
    S2T.C02.Ooxml.Html.Epub.getText ws
      (S2T.HtmlSkip.run T (S2T.HtmlSkip.Epub.down B) (S2T.HtmlSkip.init S2T.HtmlSkip.Epub.initState) (chapterEvs T c)).down.textParts
  return Json.mkObj [("xhtml", jStrs (cs.map (chapterXhtml T))), ("texts", jStrs (cs.map text)),
    ("evs", Json.arr (cs.map (fun c => Json.arr ((chapterEvs T c).map jEv).toArray)).toArray),
    ("text", jStr (S2T.C02.Ooxml.strip ws (S2T.C02.Ooxml.join ['\n'] (cs.map text)))),
    ("tokens", jStrs (cs.flatMap (fun c => c.blocks.flatMap (fun b => S2T.C02.Ooxml.words ws (visL b.kids))))),
    ("hidden", jStrs (cs.flatMap (fun c => c.blocks.flatMap (fun b => hiddenOfL b.kids)))),
    ("remove", jStrs T.remove), ("void", jStrs (T.remove.filter T.void.contains))]

def handle (op : String) (j : Json) : Option (Except String Json) :=
  match op with
  | "c02sheets.odp" => some (opOdp j)
  | "c02sheets.ods" => some (opOds j)
  | "c02sheets.xml" => some (opXml j)
  | "c02sheets.html" => some (opHtml j)
  | "c02sheets.xlsx" => some (opXlsx j)
  | "c02sheets.epub" => some (opEpub j)
  | _ => none

end S2T.Drv.C02sheets
