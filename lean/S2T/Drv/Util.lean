import Lean.Data.Json
/-! Line-protocol helpers shared by the per-property driver handlers. -/
namespace S2T.Drv
open Lean

def getStr (j : Json) (k : String) : Except String String := j.getObjValAs? String k
def getNat (j : Json) (k : String) : Except String Nat := j.getObjValAs? Nat k
def getInt (j : Json) (k : String) : Except String Int := j.getObjValAs? Int k
def getBool (j : Json) (k : String) : Except String Bool := j.getObjValAs? Bool k
def getArr (j : Json) (k : String) : Except String (Array Json) := do
  let v ← j.getObjVal? k
  v.getArr?
def getOptStr (j : Json) (k : String) : Except String (Option String) :=
  match j.getObjVal? k with
  | .ok .null => .ok none
  | .ok v => (some <$> v.getStr?)
  | .error _ => .ok none
def chars (s : String) : List Char := s.toList
def str (l : List Char) : String := String.ofList l
def natArr (j : Json) (k : String) : Except String (List Nat) := do
  let a ← getArr j k
  a.toList.mapM (fun x => x.getNat?)
def jNats (l : List Nat) : Json := Json.arr (l.map (fun n => Json.num (JsonNumber.fromNat n))).toArray
def jStr (l : List Char) : Json := Json.str (str l)

end S2T.Drv
