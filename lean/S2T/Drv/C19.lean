import S2T.Drv.Util
import S2T.Spec.Omml
import S2T.Gen.Omml
import S2T.Model.OmmlHist
namespace S2T.Drv.C19
open Lean S2T.Drv S2T.Omml S2T.OmmlHist

/-- {"m": bool, "n": local name, "v": str|null, "t": str, "k": [children]} ↦ `Xml` -/
partial def toXml (j : Json) : Except String Xml := do
  let m ← getBool j "m"
  let n ← getStr j "n"
  let v ← getOptStr j "v"
  let t ← getStr j "t"
  let ks ← getArr j "k"
  let kids ← ks.toList.mapM toXml
  return Xml.node m (chars n) (v.map chars) (chars t) kids

/-- op `c19.conv`: {"tree": node} ↦ {"out": omml_to_latex(tree), "runs": run-flagged output characters,
    "src": converted runs in document order, "shape"/"quiet"/"nobr": hypotheses, "bal": balanced(out)} -/
def conv (j : Json) : Except String Json := do
  let tj ← j.getObjVal? "tree"
  let x ← toXml tj
  let T := S2T.Gen.Omml.tables
  let o := ommlOut T x
  return Json.mkObj [
    ("out", jStr (render o)),
    ("runs", jStr (runsOf o)),
    ("src", jStr (sourceText T x)),
    ("shape", Json.bool (shapeOkL T x.kids)),
    ("quiet", Json.bool (quietL T x.kids)),
    ("nobr", Json.bool (noBracesL x.kids)),
    ("bal", Json.bool (balanced (render o)))]

/-- op `c19.greek`: {"s": str} ↦ {"out": convert_greek_and_symbols(s)} -/
def greek (j : Json) : Except String Json := do
  let s ← getStr j "s"
  return Json.mkObj [("out", jStr (convert S2T.Gen.Omml.tables (chars s)))]

/-- one step of a history: {"op": "conv"|"text"|"val"|"tag"|"ins"|"del"|"kids", "p": [child indices], …} -/
def toStep (j : Json) : Except String Step := do
  let op ← getStr j "op"
  let p ← natArr j "p"
  match op with
  | "conv" => return .conv p
  | "text" => return .edit p (.setText (chars (← getStr j "s")))
  | "val" => return .edit p (.setVal ((← getOptStr j "v").map chars))
  | "tag" => return .edit p (.setTag (← getBool j "m") (chars (← getStr j "n")))
  | "ins" => return .edit p (.insert (← getNat j "i") (← toXml (← j.getObjVal? "x")))
  | "del" => return .edit p (.remove (← getNat j "i"))
  | "kids" => return .edit p (.setKids (← (← getArr j "k").toList.mapM toXml))
  | _ => throw s!"unknown history step {op}"

/-- op `c19.hist`: {"tree": node, "steps": [step]} ↦ {"outs": the conversions the property demands along the history
    (`S2T.OmmlHist.fresh (omml tables)`), "final": the tree after all edits re-encoded} -/
partial def xmlJson : Xml → Json
  | .node m n v t k => Json.mkObj [("m", Json.bool m), ("n", jStr n), ("v", match v with | some s => jStr s | none => Json.null),
      ("t", jStr t), ("k", Json.arr (k.map xmlJson).toArray)]

def hist (j : Json) : Except String Json := do
  let x ← toXml (← j.getObjVal? "tree")
  let steps ← (← getArr j "steps").toList.mapM toStep
  let outs := fresh (omml S2T.Gen.Omml.tables) x steps
  let fin := steps.foldl (fun t s => match s with | .edit q e => editAt q e t | .conv _ => t) x
  return Json.mkObj [("outs", Json.arr (outs.map jStr).toArray), ("final", xmlJson fin)]

def handle (op : String) (j : Json) : Option (Except String Json) :=
  match op with
  | "c19.conv" => some (conv j)
  | "c19.greek" => some (greek j)
  | "c19.hist" => some (hist j)
  | _ => none

end S2T.Drv.C19
