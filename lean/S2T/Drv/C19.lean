import S2T.Drv.Util
import S2T.Spec.Omml
import S2T.Gen.Omml
namespace S2T.Drv.C19
open Lean S2T.Drv S2T.Omml

/-- {"m": bool, "n": local name, "v": str|null, "t": str, "k": [children]} ↦ `Xml` -/
partial def toXml (j : Json) : Except String Xml := do
  let m ← getBool j "m"
  let n ← getStr j "n"
  let v ← getOptStr j "v"
  let t ← getStr j "t"
  let ks ← getArr j "k"
  let kids ← ks.toList.mapM toXml
  return Xml.node m (chars n) (v.map chars) (chars t) kids

/-- op `c19.conv`: {"tree": node} ↦ {"out": omml_to_latex(tree), "runs": run-flagged output characters,
    "src": converted runs in document order, "shape"/"quiet"/"nobr": hypotheses, "bal": balanced(out)} -/
def conv (j : Json) : Except String Json := do
  let tj ← j.getObjVal? "tree"
  let x ← toXml tj
  let T := S2T.Gen.Omml.tables
  let o := ommlOut T x
  return Json.mkObj [
    ("out", jStr (render o)),
    ("runs", jStr (runsOf o)),
    ("src", jStr (sourceText T x)),
    ("shape", Json.bool (shapeOkL T x.kids)),
    ("quiet", Json.bool (quietL T x.kids)),
    ("nobr", Json.bool (noBracesL x.kids)),
    ("bal", Json.bool (balanced (render o)))]

/-- op `c19.greek`: {"s": str} ↦ {"out": convert_greek_and_symbols(s)} -/
def greek (j : Json) : Except String Json := do
  let s ← getStr j "s"
  return Json.mkObj [("out", jStr (convert S2T.Gen.Omml.tables (chars s)))]

def handle (op : String) (j : Json) : Option (Except String Json) :=
  match op with
  | "c19.conv" => some (conv j)
  | "c19.greek" => some (greek j)
  | _ => none

end S2T.Drv.C19
