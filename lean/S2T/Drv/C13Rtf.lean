import S2T.Drv.C13
import S2T.Spec.TablesRtf
import S2T.Gen.TablesRtf
namespace S2T.Drv.C13Rtf
open Lean S2T.Drv S2T.Tables S2T.Tables.Rtf
open S2T.HtmlSkip (Str)
open S2T.Drv.C13 (gridJson gridsJson parseList parseStr elemStr elemJ)

/-! Wire format: block = ["p", text] | ["t", [[[paragraph…]…]…]] -/

def P : Params := S2T.Gen.TablesRtf.params

def parseBlk (j : Json) : Except String RBlk := do
  let a ← j.getArr?
  let k ← elemStr a 0
  match str k with
  | "p" => return .para (← elemStr a 1)
  | "t" => return .table (← parseList (parseList (parseList parseStr)) (← elemJ a 1))
  | other => throw s!"unknown rtf block {other}"

def layStr (j : Json) (k : String) (dflt : Str) : Except String Str :=
  match j.getObjVal? k with
  | .ok v => do return chars (← v.getStr?)
  | .error _ => return dflt

/-- a row layout: an object with the slots of `harness/builders/c13r.py` (a missing slot = the default) -/
def parseLayout (j : Json) : Except String RowLayout := do
  let D := RowLayout.default
  if j.isNull then return D
  return { defsOpen := ← layStr j "defs_open" D.defsOpen, cellxSep := ← layStr j "cellx_sep" D.cellxSep,
           defsClose := ← layStr j "defs_close" D.defsClose, cellOpen := ← layStr j "cell_open" D.cellOpen,
           par := ← layStr j "par" D.par, cellWrap := ← layStr j "cell_wrap" D.cellWrap, cellEnd := ← layStr j "cell_end" D.cellEnd,
           rowOpen := ← layStr j "row_open" D.rowOpen, beforeRow := ← layStr j "before_row" D.beforeRow, rowEnd := ← layStr j "row_end" D.rowEnd }

/-- block = ["p", text] | ["t", rows] | ["tl", rows, [layout…]] (one layout per row) -/
def parseLBlk (j : Json) : Except String LBlk := do
  let a ← j.getArr?
  let k ← elemStr a 0
  match str k with
  | "p" => return .para (← elemStr a 1)
  | "t" =>
    let rows ← parseList (parseList (parseList parseStr)) (← elemJ a 1)
    return .table (rows.map (fun r => (RowLayout.default, r)))
  | "tl" =>
    let rows ← parseList (parseList (parseList parseStr)) (← elemJ a 1)
    let lays ← parseList parseLayout (← elemJ a 2)
    if lays.length != rows.length then throw "tl: one layout per row expected"
    return .table (lays.zip rows)
  | other => throw s!"unknown rtf block {other}"

def text (j : Json) : Except String Str := do return chars (← getStr j "text")

def handle (op : String) (j : Json) : Option (Except String Json) :=
  match op with
  | "c13.rtf.tables" => some (do return Json.mkObj [("tables", gridsJson (extractTables P (← text j)))])
  | "c13.rtf.cells" => some (do return Json.mkObj [("cells", Json.arr ((extractCells P (← text j)).map jStr).toArray)])
  | "c13.rtf.strip" => some (do return Json.mkObj [("text", jStr (stripSimple P (← text j)))])
  | "c13.rtf.rows" => some (do
      return Json.mkObj [("rows", Json.arr ((tableRows P (← text j)).map (fun r => jNats [r.1, r.2.1])).toArray)])
  | "c13.rtf.render" => some (do
      let doc ← parseList parseBlk (← j.getObjVal? "blocks")
      return Json.mkObj [("text", jStr (docRtf doc)), ("spec", gridsJson (doc.flatMap RBlk.tables))])
  | "c13.rtf.renderl" => some (do
      let doc ← parseList parseLBlk (← j.getObjVal? "blocks")
      return Json.mkObj [("text", jStr (docRtfL doc)), ("spec", gridsJson (doc.flatMap LBlk.tables))])
  | _ => none

end S2T.Drv.C13Rtf
