import S2T.Drv.C13
import S2T.Spec.TablesRtf
import S2T.Gen.TablesRtf
namespace S2T.Drv.C13Rtf
open Lean S2T.Drv S2T.Tables S2T.Tables.Rtf
open S2T.HtmlSkip (Str)
open S2T.Drv.C13 (gridJson gridsJson parseList parseStr elemStr elemJ)

/-! Wire format: block = ["p", text] | ["t", [[[paragraph…]…]…]] -/

def P : Params := S2T.Gen.TablesRtf.params

def parseBlk (j : Json) : Except String RBlk := do
  let a ← j.getArr?
  let k ← elemStr a 0
  match str k with
  | "p" => return .para (← elemStr a 1)
  | "t" => return .table (← parseList (parseList (parseList parseStr)) (← elemJ a 1))
  | other => throw s!"unknown rtf block {other}"

def text (j : Json) : Except String Str := do return chars (← getStr j "text")

def handle (op : String) (j : Json) : Option (Except String Json) :=
  match op with
  | "c13.rtf.tables" => some (do return Json.mkObj [("tables", gridsJson (extractTables P (← text j)))])
  | "c13.rtf.cells" => some (do return Json.mkObj [("cells", Json.arr ((extractCells P (← text j)).map jStr).toArray)])
  | "c13.rtf.strip" => some (do return Json.mkObj [("text", jStr (stripSimple P (← text j)))])
  | "c13.rtf.rows" => some (do
      return Json.mkObj [("rows", Json.arr ((tableRows P (← text j)).map (fun r => jNats [r.1, r.2.1])).toArray)])
  | "c13.rtf.render" => some (do
      let doc ← parseList parseBlk (← j.getObjVal? "blocks")
      return Json.mkObj [("text", jStr (docRtf doc)), ("spec", gridsJson (doc.flatMap RBlk.tables))])
  | _ => none

end S2T.Drv.C13Rtf
