import S2T.Drv.Util
import S2T.Model.Patch
import S2T.Model.Cache
import S2T.Model.CacheConc
import S2T.Model.AesPatch
import S2T.Model.TempScope
namespace S2T.Drv.C15
open Lean S2T.Drv

/-! ### patch / restore section -/
open S2T.Patch in
/-- what the harness can see of a program counter: the kind of observable event executed there -/
def kindOf : S2T.Patch.Pc → String
  | .probe => "read" | .acqIn => "acq" | .save => "read" | .wrap => "write" | .relIn => "rel"
  | .body => "body" | .acqOut => "acq" | .restore => "write" | .relOut => "rel"
  | .done => "done" | .testIn => "silent" | .incr => "silent" | .decr => "silent" | .testOut => "silent"

open S2T.Patch in
def key (s : St) : St := { s with obs := [] }

open S2T.Patch in
/-- one coarse turn with its observation: (kind, state after) ; kind = "blocked" when the acquire cannot proceed,
    "done" when the thread is finished or does not exist -/
def turnObs (s : St) (t : Nat) : String × St :=
  let pc := pcOf s t
  let s' := turn s t
  if pc == .done then ("done", s)
  else if key s' == key s then ("blocked", s)
  else (kindOf pc, s')

open S2T.Patch in
def legacyKind : Pc → String
  | .probe => "read" | .save => "read" | .wrap => "write" | .body => "body" | .restore => "write" | _ => "done"

open S2T.Patch in
def runTrace (legacy : Bool) (s : St) : List Nat → List (Nat × String × Nat) → List (Nat × String × Nat) × St
  | [], acc => (acc.reverse, s)
  | t :: r, acc =>
    if legacy then
      let pc := pcOf s t
      let s' := Legacy.step s t
      runTrace legacy s' r ((t, legacyKind pc, s'.F) :: acc)
    else
      let (k, s') := turnObs s t
      runTrace legacy s' r ((t, k, s'.F) :: acc)

open S2T.Patch in
def patchRun (j : Json) : Except String Json := do
  let k ← getNat j "k"
  let sched ← natArr j "sched"
  let legacy := (getBool j "legacy").toOption.getD false
  let (tr, s) := runTrace legacy (init k) sched []
  return Json.mkObj [
    ("trace", Json.arr (tr.map (fun (t, kd, f) => Json.arr #[Json.num (JsonNumber.fromNat t), Json.str kd, Json.num (JsonNumber.fromNat f)])).toArray),
    ("F", Json.num (JsonNumber.fromNat s.F)),
    ("users", Json.num (JsonNumber.fromInt s.users)),
    ("saved", jNats s.saved),
    ("locked", Json.bool s.lock.isSome),
    ("allDone", Json.bool (allDone s)),
    ("obs", Json.arr (s.obs.map (fun (t, d) => jNats [t, d])).toArray)]

open S2T.Patch in
/-- depth-first walk of the coarse-turn state graph of `k` threads; emits schedules (reversed paths) that
    together traverse every edge; blocked turns are inserted where they occur. -/
def dfs (k : Nat) : Nat → St → List Nat → (List St × List (List Nat)) → (List St × List (List Nat))
  | 0, _, path, acc => (acc.1, path.reverse :: acc.2)
  | fuel + 1, s, path, acc =>
    let ts := List.range k
    let blocked := ts.filter (fun t => (turnObs s t).1 == "blocked")
    let path := blocked.reverse ++ path
    let en := ts.filter (fun t => key (turn s t) != key s)
    if en.isEmpty then (acc.1, path.reverse :: acc.2)
    else en.foldl (fun acc t =>
      let s' := turn s t
      if acc.1.contains (key s') then (acc.1, (t :: path).reverse :: acc.2)
      else dfs k fuel s' (t :: path) (key s' :: acc.1, acc.2)) acc

open S2T.Patch in
/-- extend a schedule until every thread is done (lowest enabled thread first) -/
def complete (k : Nat) : Nat → St → List Nat → List Nat
  | 0, _, acc => acc.reverse
  | fuel + 1, s, acc =>
    match (List.range k).find? (fun t => key (turn s t) != key s) with
    | none => acc.reverse
    | some t => complete k fuel (turn s t) (t :: acc)

open S2T.Patch in
def patchCover (j : Json) : Except String Json := do
  let k ← getNat j "k"
  let (vis, scheds) := dfs k (k * 12 + 4) (init k) [] ([key (init k)], [])
  let full := scheds.reverse.map (fun p =>
    let s := p.foldl turn (init k)
    p ++ complete k (k * 12 + 4) s [])
  return Json.mkObj [("states", Json.num (JsonNumber.fromNat vis.length)),
                     ("schedules", Json.arr (full.map jNats).toArray)]

open S2T.Patch in
def patchSignature (_j : Json) : Except String Json := do
  let sched := List.replicate 12 0
  let (tr, _) := runTrace false (init 1) sched []
  return Json.mkObj [("events", Json.arr ((tr.filter (fun x => x.2.1 != "done")).map (fun x => Json.str x.2.1)).toArray)]

/-! ### LRU cache (`_get_round_keys`) -/
open S2T.Cache in
def lru (j : Json) : Except String Json := do
  let cap ← getNat j "cap"
  let keys ← natArr j "keys"
  let bad ← natArr j "bad"
  let f : Nat → Except Unit Nat := fun k => if bad.contains k then .error () else .ok (k + 1000)
  let rec go (c : Cache Nat Nat) : List Nat → List Json → List Json
    | [], acc => acc.reverse
    | k :: r, acc =>
      let hit := (find? k c).isSome
      let (res, c') := lruGet cap f c k
      let o := Json.mkObj [
        ("res", match res with | .ok v => Json.num (JsonNumber.fromNat v) | .error _ => Json.str "err"),
        ("hit", Json.bool hit),
        ("order", jNats (c'.map (·.1)))]
      go c' r (o :: acc)
  return Json.mkObj [("steps", Json.arr (go [] keys []).toArray)]

/-! ### `_get_round_keys` called by several threads (`S2T.CacheConc`) -/
open S2T.Cache S2T.CacheConc in
/-- what the harness sees of a thread between two turns: the event it is paused before -/
def pendingOf : S2T.CacheConc.Pc → String
  | .lookup => "acq" | .touch => "touch" | .expand => "gate" | .store => "acq" | .evict => "evict" | .done => "done"

open S2T.Cache S2T.CacheConc in
def lruConc (j : Json) : Except String Json := do
  let cap ← getNat j "cap"
  let pre ← natArr j "pre"
  let keys ← natArr j "keys"
  let sched ← natArr j "sched"
  let bad ← natArr j "bad"
  let legacy := (getBool j "legacy").toOption.getD false
  let f : Nat → Except Unit Nat := fun k => if bad.contains k then .error () else .ok (k + 1000)
  let c0 := lruRun cap f [] pre
  let stepf := if legacy then Legacy.step cap f else Fixed.step cap f
  let rec go (s : St Nat Nat Unit) : List Nat → List Json → List Json × St Nat Nat Unit
    | [], acc => (acc.reverse, s)
    | t :: r, acc =>
      let s' := stepf s t
      let pend := match s'.thr[t]? with | some x => pendingOf x.pc | none => "done"
      go s' r (Json.arr #[Json.num (JsonNumber.fromNat t), Json.str pend, jNats (s'.cache.map (·.1))] :: acc)
  let (tr, s) := go (init c0 keys) sched []
  let resJ : Option (Res Nat Unit) → Json
    | none => Json.null
    | some (.ok v) => Json.num (JsonNumber.fromNat v)
    | some (.err _) => Json.str "err"
    | some .keyError => Json.str "keyerror"
  return Json.mkObj [("trace", Json.arr tr.toArray), ("results", Json.arr ((results s).map resJ).toArray),
                     ("order0", jNats (c0.map (·.1))), ("allDone", Json.bool (allDone s))]

/-! ### font cache (`_ttf_get_glyph_features`)  parse k = k, feat k p gids = gids (the glyphs asked for) -/
open S2T.Cache in
def font (j : Json) : Except String Json := do
  let calls ← getArr j "calls"
  let legacy := (getBool j "legacy").toOption.getD false
  let cs ← calls.toList.mapM (fun c => do
    let f ← getNat c "font"
    let g ← natArr c "gids"
    pure (f, g))
  if legacy then
    let rec goL (c : Cache Nat (List Nat)) : List (Nat × List Nat) → List Json → List Json
      | [], acc => acc.reverse
      | (k, g) :: r, acc =>
        let (v, c') := FontLegacy.get (fun _ gids => gids) c k g
        goL c' r (jNats v :: acc)
    return Json.mkObj [("results", Json.arr (goL [] cs []).toArray)]
  else
    let rec goF (c : Cache Nat Nat) : List (Nat × List Nat) → List Json → List Json
      | [], acc => acc.reverse
      | (k, g) :: r, acc =>
        let (v, c') := FontFixed.get (fun k => k) (fun _ _ gids => gids) c k g
        goF c' r (jNats v :: acc)
    -- which font's analysis answers each call (`parse k = k`): the harness reads it off the units-per-em
    let rec goP (c : Cache Nat Nat) : List (Nat × List Nat) → List Nat → List Nat
      | [], acc => acc.reverse
      | (k, g) :: r, acc =>
        let (v, c') := FontFixed.get (fun k => k) (fun _ p _ => p) c k g
        goP c' r (v :: acc)
    return Json.mkObj [("results", Json.arr (goF [] cs []).toArray), ("parsed", jNats (goP [] cs []))]

/-! ### AES provider patch -/
open S2T.AesPatch in
def parseEnc : String → Except String Enc
  | "none" => .ok .none | "rc4" => .ok .rc4 | "aesV4" => .ok .aesV4 | "aesV5" => .ok .aesV5
  | s => .error s!"bad enc {s}"

open S2T.AesPatch in
def resStr : Res → String
  | .ok => "ok" | .encrypted => "encrypted" | .failed => "failed"

open S2T.AesPatch in
def aes (j : Json) : Except String Json := do
  let prov ← getStr j "provider"
  let p := if prov == "fallback" then Provider.fallback else Provider.native
  let patched ← getBool j "patched"
  let legacy := (getBool j "legacy").toOption.getD false
  let docs ← getArr j "docs"
  let ds ← docs.toList.mapM (fun d => do
    let e ← getStr d "enc"
    let enc ← parseEnc e
    let pw ← getBool d "emptyPw"
    pure (Doc.mk enc pw))
  let rec go (s : St) : List Doc → List Json → List Json
    | [], acc => acc.reverse
    | d :: r, acc =>
      let (x, s') := if legacy then Legacy.extract p s d else Fixed.extract p s d
      go s' r (Json.mkObj [("res", Json.str (resStr x)), ("patched", Json.bool s'.patched)] :: acc)
  return Json.mkObj [("steps", Json.arr (go ⟨patched⟩ ds []).toArray)]

/-! ### temp scope -/
open S2T.TempScope in
def temp (j : Json) : Except String Json := do
  let fails ← getBool j "fails"
  let ms ← getArr j "members"
  let members ← ms.toList.mapM (fun m => m.getBool?)
  let ck ← getStr j "consumer"
  let k ← getNat j "k"
  let c := if ck == "close" then Consumer.closeAfter k else if ck == "throw" then Consumer.throwAfter k else Consumer.exhaust
  let (o, live) := run7z [] 0 fails members c
  let (kind, n) := match o with
    | .finished n => ("finished", n) | .closed n => ("closed", n) | .raised n => ("raised", n)
  return Json.mkObj [("outcome", Json.str kind), ("yielded", Json.num (JsonNumber.fromNat n)), ("live", jNats live)]

def handle (op : String) (j : Json) : Option (Except String Json) :=
  match op with
  | "c15.patch_run" => some (patchRun j)
  | "c15.patch_cover" => some (patchCover j)
  | "c15.patch_signature" => some (patchSignature j)
  | "c15.lru" => some (lru j)
  | "c15.lru_conc" => some (lruConc j)
  | "c15.font" => some (font j)
  | "c15.aes" => some (aes j)
  | "c15.temp" => some (temp j)
  | _ => none

end S2T.Drv.C15
