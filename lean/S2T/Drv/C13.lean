import S2T.Drv.Util
import S2T.Drv.C17
import S2T.Spec.Tables
import S2T.Gen.Tables
import S2T.Gen.HtmlSkip
import S2T.Lemmas.TablesEpub
import S2T.Lemmas.TablesEpubXml
import S2T.Lemmas.TablesOds
namespace S2T.Drv.C13
open Lean S2T.Drv S2T.Tables
open S2T.HtmlSkip (Str)

/-! Wire format.
node  : [tag, [[k,v]…], text, [node…], tail]
val   : null | ["s",str] | ["i",int] | ["f",repr] | ["b",bool] | ["d",iso] | ["o",str]
blk   : ["p", para] | ["t", hdr, [[[blk…]…]…]]
para  : docx: [run…]      odf: [lead, [piece…]] with piece = ["span",s,tail] | ["s",tail] | ["tab",tail] | ["br",tail]
pptx table : [[[para…]…]…] with para = [piece…], piece = ["r",s] | ["f",s] | ["br"]
-/

def elemStr (a : Array Json) (i : Nat) : Except String Str :=
  match a[i]? with
  | some (Json.str s) => .ok (chars s)
  | _ => .error s!"string expected at position {i}"

def elemJ (a : Array Json) (i : Nat) : Except String Json :=
  match a[i]? with
  | some j => .ok j
  | none => .error s!"element expected at position {i}"

partial def parseNode (j : Json) : Except String Node := do
  let a ← j.getArr?
  let tag ← elemStr a 0
  let attrs ← (← (← elemJ a 1).getArr?).toList.mapM (fun kv => do
    let p ← kv.getArr?
    return ((← elemStr p 0), (← elemStr p 1)))
  let text ← elemStr a 2
  let kids ← (← (← elemJ a 3).getArr?).toList.mapM parseNode
  let tail ← elemStr a 4
  return .mk tag attrs text kids tail

partial def nodeJson : Node → Json
  | .mk t a x ch tl =>
    Json.arr #[jStr t, Json.arr (a.map (fun kv => Json.arr #[jStr kv.1, jStr kv.2])).toArray, jStr x,
      Json.arr (ch.map nodeJson).toArray, jStr tl]

def gridJson (g : Grid) : Json := Json.arr (g.map (fun row => Json.arr (row.map jStr).toArray)).toArray
def gridsJson (gs : List Grid) : Json := Json.arr (gs.map gridJson).toArray

def parseVal (j : Json) : Except String Val := do
  match j with
  | .null => return .none
  | _ =>
    let a ← j.getArr?
    let k ← elemStr a 0
    match str k with
    | "s" => return .str (← elemStr a 1)
    | "i" => return .int (← (← elemJ a 1).getInt?)
    | "f" => return .flt (← elemStr a 1)
    | "b" => return .bool (← (← elemJ a 1).getBool?)
    | "d" => return .dt (← elemStr a 1)
    | "o" => return .other (← elemStr a 1)
    | other => throw s!"unknown value kind {other}"

def valJson : Val → Json
  | .none => Json.null
  | .str s => Json.arr #[Json.str "s", jStr s]
  | .int i => Json.arr #[Json.str "i", Json.num (JsonNumber.fromInt i)]
  | .flt r => Json.arr #[Json.str "f", jStr r]
  | .bool b => Json.arr #[Json.str "b", Json.bool b]
  | .dt s => Json.arr #[Json.str "d", jStr s]
  | .other s => Json.arr #[Json.str "o", jStr s]

def vgridJson (g : VGrid) : Json := Json.arr (g.map (fun row => Json.arr (row.map valJson).toArray)).toArray

def parseList {α : Type} (f : Json → Except String α) (j : Json) : Except String (List α) := do
  (← j.getArr?).toList.mapM f

partial def parseBlk {α : Type} (pp : Json → Except String α) (j : Json) : Except String (Blk α) := do
  let a ← j.getArr?
  let k ← elemStr a 0
  match str k with
  | "p" => return .para (← pp (← elemJ a 1))
  | "t" =>
    let h ← (← elemJ a 1).getNat?
    let rows ← parseList (parseList (parseList (parseBlk pp))) (← elemJ a 2)
    return .tbl h rows
  | other => throw s!"unknown block kind {other}"

def parseStr (j : Json) : Except String Str := do return chars (← j.getStr?)

def parseOdfPiece (j : Json) : Except String OdfPiece := do
  let a ← j.getArr?
  let k ← elemStr a 0
  match str k with
  | "span" => return .span (← elemStr a 1) (← elemStr a 2)
  | "s" => return .spaces (← elemStr a 1)
  | "tab" => return .tab (← elemStr a 1)
  | "br" => return .lineBreak (← elemStr a 1)
  | other => throw s!"unknown odf piece {other}"

def parseOdfPara (j : Json) : Except String OdfPara := do
  let a ← j.getArr?
  return { lead := (← elemStr a 0), pieces := (← parseList parseOdfPiece (← elemJ a 1)) }

def parsePptxPiece (j : Json) : Except String PptxPiece := do
  let a ← j.getArr?
  let k ← elemStr a 0
  match str k with
  | "r" => return .run (← elemStr a 1)
  | "f" => return .field (← elemStr a 1)
  | "br" => return .br
  | other => throw s!"unknown pptx piece {other}"

def parseHPara (j : Json) : Except String HPara := do
  let a ← j.getArr?
  let pcs ← parseList (fun x => do
    let p ← x.getArr?
    return ((← elemStr p 0), (← elemStr p 1))) (← elemJ a 1)
  return { lead := (← elemStr a 0), pieces := pcs }

/-- epub block: ["p", text] | ["t", hdr, [[[text…]…]…]] -/
def parseEBlk (j : Json) : Except String S2T.Tables.Epub.EBlk := do
  let a ← j.getArr?
  let k ← elemStr a 0
  match str k with
  | "p" => return .para (← elemStr a 1)
  | "t" => return .tbl ((← (← elemJ a 1).getNat?), (← parseList (parseList (parseList parseStr)) (← elemJ a 2)))
  | other => throw s!"unknown epub block {other}"

def evJson : S2T.HtmlSkip.Ev → Json
  | .start t _ => Json.arr #[Json.str "s", jStr t, Json.arr #[]]
  | .end_ t => Json.arr #[Json.str "e", jStr t]
  | .data s => Json.arr #[Json.str "d", jStr s]
  | _ => Json.arr #[Json.str "other"]

def odfTags (fmt : String) : Except String OdfTags :=
  match fmt with
  | "odt" => .ok S2T.Gen.Tables.odt
  | "odp" => .ok S2T.Gen.Tables.odp
  | "ods" => .ok S2T.Gen.Tables.ods
  | other => .error s!"no ODF tags for {other}"

/-- op `c13.walk`: the model walker of one format on an element tree -/
def walk (j : Json) : Except String Json := do
  let fmt ← getStr j "fmt"
  let n ← parseNode (← j.getObjVal? "tree")
  match fmt with
  | "docx" => return Json.mkObj [("tables", gridsJson (docxTables S2T.Gen.Tables.docx n))]
  | "odt" => return Json.mkObj [("tables", gridsJson (odtTables S2T.Gen.Tables.odt n))]
  | "odp" => return Json.mkObj [("table", gridJson (odpTable S2T.Gen.Tables.odp n))]
  | "pptx" =>
    return Json.mkObj [("table", match pptxFrameTable S2T.Gen.Tables.pptx n with
      | some g => gridJson g
      | none => Json.null)]
  | "html" => return Json.mkObj [("tables", gridsJson (htmlTables S2T.Gen.Tables.html n))]
  | "odftext" => return Json.mkObj [("text", jStr (odfText S2T.Gen.Tables.odt n))]
  | other => throw s!"unknown format {other}"

/-- op `c13.render`: write an abstract document as an element tree + what the property wants back -/
def render (j : Json) : Except String Json := do
  let fmt ← getStr j "fmt"
  let d ← j.getObjVal? "doc"
  match fmt with
  | "docx" =>
    let doc ← parseList (parseBlk (parseList parseStr)) d
    return Json.mkObj [("tree", nodeJson (docxBody S2T.Gen.Tables.docx doc)),
      ("spec", gridsJson (doc.flatMap (Blk.tables docxCellSpec))),
      ("proper", Json.bool (doc.all Blk.proper))]
  | "odt" =>
    let doc ← parseList (parseBlk parseOdfPara) d
    return Json.mkObj [("tree", nodeJson (odtBody S2T.Gen.Tables.odt doc)),
      ("spec", gridsJson (doc.flatMap (Blk.tables odfCellSpec))),
      ("proper", Json.bool (doc.all Blk.proper))]
  | "odp" =>
    let h ← getNat j "hdr"
    let rows ← parseList (parseList (parseList parseOdfPara)) d
    return Json.mkObj [("tree", nodeJson (odpTableNode S2T.Gen.Tables.odp (h, rows))),
      ("spec", gridJson (rows.map (fun row => row.map odfCellSpec)))]
  | "pptx" =>
    let t ← parseList (parseList (parseList (parseList parsePptxPiece))) d
    return Json.mkObj [("tree", nodeJson (pptxFrame S2T.Gen.Tables.pptx t)),
      ("spec", gridJson (t.map (fun row => row.map pptxCellSpec))),
      ("spec_stripped", gridJson (t.map (fun row => row.map (fun c => pyStrip (pptxCellSpec c)))))]
  | "html" =>
    let doc ← parseList (parseBlk parseHPara) d
    return Json.mkObj [("tree", nodeJson (htmlRoot doc)),
      ("spec", gridsJson (doc.flatMap Blk.htables)),
      ("proper", Json.bool (doc.all Blk.rowsProper))]
  | "epub" =>
    let doc ← parseList parseEBlk d
    -- "mask" (optional): which of the chapter's empty elements are written as `<t/>` (Props/C13_Xml.lean)
    let mask := match j.getObjVal? "mask" with
      | .ok (Json.arr a) => a.toList.map (fun b => b == Json.bool true)
      | _ => []
    let written := S2T.Tables.Epub.collapse mask (S2T.Tables.Epub.chapterItems doc)
    return Json.mkObj [("events", Json.arr ((S2T.Tables.Epub.chapterEvents doc).map evJson).toArray),
      ("xml_events", Json.arr ((S2T.HtmlSkip.events written).map S2T.Drv.C17.jEv).toArray),
      ("xml_tables", gridsJson (S2T.HtmlSkip.run S2T.Gen.HtmlSkip.epubTables (S2T.HtmlSkip.Epub.down S2T.Gen.HtmlSkip.epubBlock)
        (S2T.HtmlSkip.init S2T.HtmlSkip.Epub.initState) (S2T.HtmlSkip.events written)).down.tables),
      ("spec", gridsJson (doc.flatMap S2T.Tables.Epub.EBlk.tables)),
      ("proper", Json.bool (doc.all S2T.Tables.Epub.EBlk.proper))]
  | other => throw s!"unknown format {other}"

/-- op `c13.epub`: tables collected by `_XhtmlTextExtractor` for a sequence of handler calls -/
def epub (j : Json) : Except String Json := do
  let evs ← S2T.Drv.C17.parseEvs (← j.getObjVal? "events")
  let T := S2T.Gen.HtmlSkip.epubTables
  let D := S2T.HtmlSkip.Epub.down S2T.Gen.HtmlSkip.epubBlock
  let st := S2T.HtmlSkip.run T D (S2T.HtmlSkip.init S2T.HtmlSkip.Epub.initState) evs
  return Json.mkObj [("tables", gridsJson st.down.tables)]

def xlsx (j : Json) : Except String Json := do
  let rows ← parseList (parseList parseVal) (← j.getObjVal? "rows")
  let strs ← parseList parseStr (← j.getObjVal? "strof")
  let strOf : Nat → Str := fun i => strs.getD i []
  return Json.mkObj [("data", vgridJson (Xlsx.sheetData rows strOf))]

def ods (j : Json) : Except String Json := do
  let rows ← parseList (fun r => do
    let a ← r.getArr?
    let rep ← (← elemJ a 0).getNat?
    let cells ← parseList (fun c => do
      let p ← c.getArr?
      return ((← (← elemJ p 0).getNat?), (← parseVal (← elemJ p 1)))) (← elemJ a 1)
    return (rep, cells)) (← j.getObjVal? "rows")
  return Json.mkObj [("data", vgridJson (Ods.sheetData S2T.Gen.Tables.odsCaps rows)),
    ("nogap", Json.bool (Ods.noGapRows S2T.Gen.Tables.odsCaps rows))]

def xls (j : Json) : Except String Json := do
  let cells ← parseList (parseList (fun c => do
    let p ← c.getArr?
    return ({ native := (← parseVal (← elemJ p 0)), hdr := (← elemStr p 1) } : Xls.Cell))) (← j.getObjVal? "cells")
  return Json.mkObj [("table", vgridJson (Xls.getTable (Xls.sheetData cells)))]

def dim (j : Json) : Except String Json := do
  let lens ← natArr j "lens"
  let d := getDim (lens.map (fun n => List.replicate n ()))
  return Json.mkObj [("dim", jNats [d.1, d.2])]

def handle (op : String) (j : Json) : Option (Except String Json) :=
  match op with
  | "c13.walk" => some (walk j)
  | "c13.render" => some (render j)
  | "c13.epub" => some (epub j)
  | "c13.xlsx" => some (xlsx j)
  | "c13.ods" => some (ods j)
  | "c13.xls" => some (xls j)
  | "c13.dim" => some (dim j)
  | _ => none

end S2T.Drv.C13
